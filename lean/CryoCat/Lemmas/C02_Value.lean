import CryoCat.Model.C02_Value
import CryoCat.Lemmas.C02_NumWrite
import Mathlib.Algebra.Order.Field.Rat
import Mathlib.Tactic.Ring
import Mathlib.Tactic.FieldSimp
/-! C02 — helper lemmas, part 9: the exact value of a decimal token and the checker of the value clause.
Mathlib only for one identity of rational arithmetic (`shift_one_decimal`). -/
namespace CryoCat.C02

/-- the checker decides the specification -/
theorem round6Ok_iff' (p ulps : Nat) (v ulp : Rat) (tok : Word) :
    round6Ok p ulps v ulp tok = true ↔ Round6Spec p ulps v ulp tok := by
  unfold round6Ok Round6Spec
  cases h : decValue tok with
  | none => simp
  | some d => simp

theorem decValue_isSome (w : Word) : (decValue w).isSome = isDecTok w := by
  unfold decValue
  cases isDecTok w <;> simp

/-! ### the value of a token of the grammar -/

def Sign.isMinus : Sign → Bool
  | .minus => true
  | _ => false

/-- the fractional digits -/
def Dec.fp (d : Dec) : Word := match d.frac with | some fp => fp | none => []

/-- the decimal exponent written after `e` / `E` (none = 0) -/
def Dec.expVal (d : Dec) : Int :=
  match d.exp with
  | none => 0
  | some (_, s, x) => if s.isMinus then -((digitsVal x : Nat) : Int) else ((digitsVal x : Nat) : Int)

/-- **what a decimal literal denotes**: `± (digits of integer and fractional part) · 10^(exponent − number of fractional digits)` -/
def Dec.value (d : Dec) : Rat :=
  let mag : Rat := ((digitsVal (d.ip ++ d.fp) : Nat) : Rat) * pow10 (d.expVal - (d.fp.length : Int))
  if d.sign.isMinus then -mag else mag

theorem head_sign_text (s : Sign) (c : Char) (r : Word) (h : isDigit c = true ∨ c = '.') :
    ((s.text ++ c :: r).head? = some '-') ↔ s.isMinus = true := by
  have hc : c ≠ '-' := by
    rcases h with h | h
    · exact (digit_ne h).2.2.2.2
    · rw [h]; decide
  cases s <;> simp [Sign.text, Sign.isMinus, hc]

theorem expOf_expText (d : Dec) (h : d.Ok) : expOf ((expText d.exp).drop 1) = d.expVal := by
  obtain ⟨_, _, _, hexp⟩ := h
  unfold Dec.expVal
  cases he : d.exp with
  | none => simp [expText, expOf, dropSign, digitsVal]
  | some t =>
    obtain ⟨c, s, x⟩ := t
    obtain ⟨_, hx, hxd⟩ := hexp c s x he
    obtain ⟨c', x', rfl⟩ := List.exists_cons_of_ne_nil hx
    have hd : isDigit c' = true := hxd c' (by simp)
    simp only [expText, List.drop_succ_cons, List.drop_zero]
    unfold expOf
    rw [dropSign_text s c' x' (Or.inl hd)]
    have := head_sign_text s c' x' (Or.inl hd)
    by_cases hm : s.isMinus = true
    · rw [if_pos (this.2 hm)]; simp [hm]
    · rw [if_neg (fun h => hm (this.1 h))]; simp [hm]

/-- **`decValue` computes the value of the literal**, for every token of the grammar: sign, integer digits, optional
fraction, optional exponent of either letter case with its own sign -/
theorem decValue_dec (d : Dec) (h : d.Ok) : decValue d.text = some d.value := by
  have hdec := isDecTok_of_dec d h
  have hexp := expOf_expText d h
  obtain ⟨hip, hfp, hne, hex⟩ := h
  obtain ⟨c, r, hcr, hc⟩ := mantissa_head d.ip d.frac hip hne (expText d.exp)
  have hu : dropSign d.text = (d.ip ++ fracText d.frac) ++ expText d.exp := by
    unfold Dec.text; rw [hcr]; exact dropSign_text d.sign c r hc
  have hs := tw_split (p := fun c => c != 'e' && c != 'E') (d.ip ++ fracText d.frac) (expText d.exp)
    (mantissa_notExp d.ip d.frac hip hfp) (by
      cases he : d.exp with
      | none => exact Or.inl rfl
      | some t =>
        obtain ⟨c, s, x⟩ := t
        refine Or.inr ⟨c, s.text ++ x, rfl, ?_⟩
        rcases (hex c s x he).1 with rfl | rfl <;> decide)
  have hs2 := tw_split (p := isDigit) d.ip (fracText d.frac) hip (by
    cases d.frac with
    | none => exact Or.inl rfl
    | some fp => exact Or.inr ⟨'.', fp, rfl, dot_not_digit⟩)
  have hfr : (fracText d.frac).drop 1 = d.fp := by
    unfold Dec.fp; cases d.frac <;> simp [fracText]
  have hneg : (d.text.head? = some '-') ↔ d.sign.isMinus = true := by
    unfold Dec.text; rw [hcr]; exact head_sign_text d.sign c r hc
  unfold decValue
  simp only [hdec, if_true, hu, hs.1, hs.2, hs2.1, hs2.2, hfr, hexp]
  unfold Dec.value
  by_cases hm : d.sign.isMinus = true
  · simp [hneg.2 hm, hm]
  · have : ¬ d.text.head? = some '-' := fun h => hm (hneg.1 h)
    simp [this, hm]

/-- every token the recogniser accepts has a value, and it is the value of a literal of the grammar spelling it -/
theorem decValue_of_isDecTok (w : Word) (h : isDecTok w = true) : ∃ d : Dec, d.Ok ∧ w = d.text ∧ decValue w = some d.value := by
  obtain ⟨d, hd, rfl⟩ := dec_of_isDecTok w h
  exact ⟨d, hd, rfl, decValue_dec d hd⟩

/-! ### digit strings -/

theorem digitsVal_append (a b : Word) : digitsVal (a ++ b) = 10 ^ b.length * digitsVal a + digitsVal b := by
  unfold digitsVal
  rw [Nat.ofDigitChars_append, Nat.ofDigitChars_eq_ofDigitChars_zero]

theorem digitsVal_zeros (k : Nat) : digitsVal (zeros k) = 0 := by
  unfold digitsVal zeros; simp

theorem zeros_length (k : Nat) : (zeros k).length = k := by simp [zeros]

theorem digitsVal_zeros_append (k : Nat) (ds : Word) : digitsVal (zeros k ++ ds) = digitsVal ds := by
  rw [digitsVal_append, digitsVal_zeros]; simp

theorem digitsVal_natDigits (n : Nat) : digitsVal (natDigits n) = n := by
  unfold digitsVal natDigits; simp

theorem digitsVal_expDigits (e : Nat) : digitsVal (expDigits e) = e := by
  unfold expDigits
  split
  · have : ('0' :: natDigits e) = zeros 1 ++ natDigits e := rfl
    rw [this, digitsVal_zeros_append, digitsVal_natDigits]
  · exact digitsVal_natDigits e

/-- one trailing zero digit after the point: `N·10^(k+1) · 10⁻¹ = N·10^k` -/
theorem shift_one_decimal (N k : Nat) :
    (((10 ^ (k + 1) * N + 0 : Nat) : Nat) : Rat) * pow10 (0 - ((1 : Nat) : Int)) = (N : Rat) * pow10 (k : Int) := by
  have h1 : pow10 (0 - ((1 : Nat) : Int)) = 1 / 10 := by
    unfold pow10; norm_num
  have h2 : pow10 (k : Int) = (10 : Rat) ^ k := by
    unfold pow10; simp
  rw [h1, h2]
  push_cast
  ring

/-! ### the cells the writer prints for numbers denote the numbers they were printed from -/

/-- the value of the digit string `ds` with the decimal point after `decpt` digits (`0.d₁d₂… × 10^decpt`), signed -/
def digitsValue (neg : Bool) (ds : Word) (decpt : Int) : Rat :=
  let mag : Rat := ((digitsVal ds : Nat) : Rat) * pow10 (decpt - (ds.length : Int))
  if neg then -mag else mag

theorem floatBody_value (s : Sign) (ds : Word) (decpt : Int) (hne : ds ≠ []) (hd : AllDigits ds) :
    ∃ d : Dec, d.Ok ∧ s.text ++ floatBody ds decpt = d.text ∧ d.sign = s ∧
      ((digitsVal (d.ip ++ d.fp) : Nat) : Rat) * pow10 (d.expVal - (d.fp.length : Int)) =
        ((digitsVal ds : Nat) : Rat) * pow10 (decpt - (ds.length : Int)) := by
  have hpos : 0 < ds.length := List.length_pos_iff.2 hne
  unfold floatBody
  split
  · -- exponent form
    have he := expDigits_ok (decpt - 1).natAbs
    have hev : ∀ (c : Char) (ip : Word) (fr : Option Word),
        Dec.expVal ⟨s, ip, fr, some (c, if decpt - 1 < 0 then .minus else .plus, expDigits (decpt - 1).natAbs)⟩ = decpt - 1 := by
      intro c ip fr
      simp only [Dec.expVal, digitsVal_expDigits]
      split <;> rename_i hlt
      · have hm : Sign.minus.isMinus = true := rfl
        rw [if_pos hm]; omega
      · have hp : ¬ Sign.plus.isMinus = true := by decide
        rw [if_neg hp]; omega
    by_cases hl : ds.length > 1
    · refine ⟨⟨s, ds.take 1, some (ds.drop 1), some ('e', if decpt - 1 < 0 then .minus else .plus, expDigits (decpt - 1).natAbs)⟩,
        ⟨allDigits_take 1 hd, ?_, Or.inl (take_one_ne hne), ?_⟩, ?_, rfl, ?_⟩
      · intro fp e; cases e; exact allDigits_drop 1 hd
      · intro c s' x e; cases e; exact ⟨Or.inl rfl, he.1, he.2⟩
      · simp only [Dec.text, fracText, expText, hl, if_true]
        split <;> simp [Sign.text]
      · simp only [Dec.fp, hev, List.take_append_drop, List.length_drop]
        congr 2; omega
    · refine ⟨⟨s, ds.take 1, none, some ('e', if decpt - 1 < 0 then .minus else .plus, expDigits (decpt - 1).natAbs)⟩,
        ⟨allDigits_take 1 hd, by simp, Or.inl (take_one_ne hne), ?_⟩, ?_, rfl, ?_⟩
      · intro c s' x e; cases e; exact ⟨Or.inl rfl, he.1, he.2⟩
      · simp only [Dec.text, fracText, expText, hl, if_false]
        split <;> simp [Sign.text]
      · have ht : ds.take 1 = ds := List.take_of_length_le (by omega)
        simp only [Dec.fp, hev, List.append_nil, ht, List.length_nil]
        congr 2; omega
  · split
    · -- 0.000ddd
      rename_i h1 h2
      refine ⟨⟨s, ['0'], some (zeros (-decpt).toNat ++ ds), none⟩, ⟨by intro c hc; simp at hc; rw [hc]; decide, ?_, Or.inl (by simp), by simp⟩, ?_, rfl, ?_⟩
      · intro fp e; cases e; exact allDigits_append (zeros_all _) hd
      · simp [Dec.text, fracText, expText]
      · have : (['0'] ++ (zeros (-decpt).toNat ++ ds) : Word) = zeros ((-decpt).toNat + 1) ++ ds := by
          simp [zeros, List.replicate_succ]
        simp only [Dec.fp, Dec.expVal, this, digitsVal_zeros_append, List.length_append, zeros_length]
        congr 2; omega
    · split
      · -- ddd000.0
        rename_i h1 h2 h3
        refine ⟨⟨s, ds ++ zeros (decpt.toNat - ds.length), some ['0'], none⟩,
          ⟨allDigits_append hd (zeros_all _), ?_, Or.inr ⟨['0'], rfl, by simp⟩, by simp⟩, ?_, rfl, ?_⟩
        · intro fp e; cases e; intro c hc; simp at hc; rw [hc]; decide
        · simp [Dec.text, fracText, expText]
        · have e0 : ((ds ++ zeros (decpt.toNat - ds.length)) ++ ['0'] : Word) = ds ++ zeros (decpt.toNat - ds.length + 1) := by
            simp [zeros, List.replicate_succ']
          simp only [Dec.fp, Dec.expVal, e0, digitsVal_append, digitsVal_zeros, zeros_length, List.length_singleton]
          rw [shift_one_decimal]
          congr 2; omega
      · -- dd.ddd
        rename_i h1 h2 hlen
        refine ⟨⟨s, ds.take decpt.toNat, some (ds.drop decpt.toNat), none⟩,
          ⟨allDigits_take _ hd, ?_, Or.inr ⟨ds.drop decpt.toNat, rfl, ?_⟩, by simp⟩, ?_, rfl, ?_⟩
        · intro fp e; cases e; exact allDigits_drop _ hd
        · intro h0
          have := congrArg List.length h0
          simp only [List.length_drop, List.length_nil] at this
          omega
        · simp [Dec.text, fracText, expText]
        · simp only [Dec.fp, Dec.expVal, List.take_append_drop, List.length_drop]
          congr 2; omega

theorem signOf_isMinus (neg : Bool) : (signOf neg).isMinus = neg := by cases neg <;> rfl

/-- **The cell `repr` lays out denotes the value of its digits — whichever form is chosen.** For every non-empty digit string
and every position of the decimal point (fixed form with leading / trailing zeros, `.0`, exponent form beyond 16 / below −4 with
sign and two-digit exponent) the exact value of the printed token is `± digits · 10^(decpt − number of digits)`. -/
theorem decValue_floatRepr' (neg : Bool) (ds : Word) (decpt : Int) (hne : ds ≠ []) (hd : AllDigits ds) :
    decValue (floatRepr neg ds decpt) = some (digitsValue neg ds decpt) := by
  obtain ⟨d, hok, htxt, hs, hv⟩ := floatBody_value (signOf neg) ds decpt hne hd
  unfold floatRepr
  rw [signText_eq, htxt, decValue_dec d hok]
  unfold Dec.value digitsValue
  simp only [hs, signOf_isMinus, hv]

/-- `str(n)` of an integer denotes `n` -/
theorem decValue_intStr' (n : Int) : decValue (intStr n) = some (n : Rat) := by
  cases n with
  | ofNat k =>
    have hok : Dec.Ok ⟨.none, natDigits k, none, none⟩ := ⟨natDigits_all k, by simp, Or.inl (natDigits_ne k), by simp⟩
    have ht : intStr (Int.ofNat k) = Dec.text ⟨.none, natDigits k, none, none⟩ := by simp [intStr, Dec.text, Sign.text, fracText, expText]
    rw [ht, decValue_dec _ hok]
    simp [Dec.value, Dec.fp, Dec.expVal, Sign.isMinus, digitsVal_natDigits, pow10]
  | negSucc k =>
    have hok : Dec.Ok ⟨.minus, natDigits (k + 1), none, none⟩ := ⟨natDigits_all _, by simp, Or.inl (natDigits_ne _), by simp⟩
    have ht : intStr (Int.negSucc k) = Dec.text ⟨.minus, natDigits (k + 1), none, none⟩ := by simp [intStr, Dec.text, Sign.text, fracText, expText]
    rw [ht, decValue_dec _ hok]
    simp [Dec.value, Dec.fp, Dec.expVal, Sign.isMinus, digitsVal_natDigits, pow10, Int.negSucc_eq]

end CryoCat.C02
