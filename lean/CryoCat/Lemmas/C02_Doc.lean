import CryoCat.Lemmas.C02_Blocks
/-! C02 — helper lemmas, part 4: the tokens of a laid-out block / document, and the reader on them. -/
namespace CryoCat.C02

def BlockLayout.toks (b : BlockLayout) : List Tok := b.lines.flatMap Line.toks
def docToks (bs : List BlockLayout) (tr : List Line) : List Tok := bs.flatMap BlockLayout.toks ++ tr.flatMap Line.toks

theorem labels_toks (cols : List Word) (labels : List Line)
    (h : labels.map Line.words = cols.map (fun c => ['_' :: c])) :
    labels.flatMap Line.toks = (List.zipWith labelToks cols (labels.map Line.tail)).flatten := by
  induction labels generalizing cols with
  | nil => cases cols <;> simp_all
  | cons l ls ih =>
    cases cols with
    | nil => simp at h
    | cons c cols =>
      simp only [List.map_cons, List.cons.injEq] at h
      simp only [List.flatMap_cons, List.map_cons, List.zipWith_cons_cons, List.flatten_cons]
      rw [ih cols h.2]
      simp [Line.toks, h.1, classify_prop, labelToks]

theorem rows_toks (rows : List Line) (h : ∀ r ∈ rows, r.tail = [] ∧ ∀ w ∈ r.words, IsLit w) :
    rows.flatMap Line.toks = ((rows.map Line.words).map rowToks).flatten := by
  induction rows with
  | nil => rfl
  | cons r rs ih =>
    have hr := h r (by simp)
    simp only [List.flatMap_cons, List.map_cons, List.flatten_cons]
    rw [ih (fun x hx => h x (by simp [hx]))]
    congr 1
    simp only [Line.toks, hr.1, commentToks, List.append_nil, rowToks]
    congr 1
    exact List.map_congr_left (fun w hw => classify_lit w (hr.2 w hw))

theorem block_toks (b : BlockLayout) (h : b.Ok) :
    b.toks = b.pre.flatMap Line.toks ++ .lit b.name ::
      ((commentToks b.nameLine.tail ++ .newline :: b.mid.flatMap Line.toks) ++ .loop :: .newline ::
        ((List.zipWith labelToks b.cols (b.labels.map Line.tail)).flatten ++
          (b.post.flatMap Line.toks ++ ((b.rows.map Line.words).map rowToks).flatten))) := by
  obtain ⟨_, _, _, _, hname, hlit, _, hloop, hlt, _, _, hlab, hrows⟩ := h
  unfold BlockLayout.toks BlockLayout.lines
  simp only [List.flatMap_append, List.flatMap_cons]
  rw [labels_toks b.cols b.labels hlab, rows_toks b.rows (fun r hr => ⟨(hrows r hr).2.1, (hrows r hr).2.2.2⟩)]
  simp [Line.toks, hname, hloop, hlt, classify_lit _ hlit, classify_loop, commentToks]

theorem reassoc (P N L Q R after : List Tok) (x : Tok) :
    (P ++ x :: (N ++ .loop :: .newline :: (L ++ (Q ++ R)))) ++ after =
      P ++ x :: (N ++ .loop :: .newline :: (L ++ (Q ++ (R ++ after)))) := by simp

theorem line_toks_ne (l : Line) : l.toks ≠ [] := by simp [Line.toks]

theorem lines_toks_ne (ls : List Line) (h : ls ≠ []) : ls.flatMap Line.toks ≠ [] := by
  cases ls with
  | nil => exact absurd rfl h
  | cons l ls =>
    have := line_toks_ne l
    simp [this]

theorem blocksGo_nc (fuel : Nat) (T : List Tok) (h : ∀ t ∈ T, isNC t = true) : blocksGo (fuel + 1) T = .ok [] := by
  rw [blocksGo]
  simp [lookaheadLit, skipNC_all T h]

theorem block_toks_ne (b : BlockLayout) (h : b.Ok) : b.toks ≠ [] := by
  rw [block_toks b h]; simp

theorem blocksGo_doc (tr : List Line) (htr : ∀ l ∈ tr, l.Skip) (bs : List BlockLayout)
    (hbs : ∀ b ∈ bs, b.Ok) (hsep : SepOk tr bs) (fuel : Nat) (hf : bs.length < fuel) :
    blocksGo fuel (docToks bs tr) = .ok (bs.map BlockLayout.block) := by
  have hT := skips_toks_nc tr htr
  induction bs generalizing fuel with
  | nil =>
    obtain ⟨f, rfl⟩ := Nat.exists_eq_succ_of_ne_zero (Nat.ne_of_gt hf)
    simpa [docToks] using blocksGo_nc f _ hT
  | cons b rest ih =>
    obtain ⟨f, rfl⟩ := Nat.exists_eq_succ_of_ne_zero (Nat.ne_of_gt (Nat.lt_of_le_of_lt (Nat.zero_le _) hf))
    have hb := hbs b (by simp)
    have hf' : rest.length < f := by simp at hf; omega
    have hdoc : docToks (b :: rest) tr = b.toks ++ docToks rest tr := by simp [docToks]
    have hrestOk : ∀ x ∈ rest, x.Ok := fun x hx => hbs x (by simp [hx])
    obtain ⟨hpre, hmid, hpost, _, _, _, _, _, _, hcols, _, hlab, hrows⟩ := hb
    have hlen : b.cols.length = (b.labels.map Line.tail).length := by
      have := congrArg List.length hlab; simpa using this.symm
    have hN : ∀ t ∈ commentToks b.nameLine.tail ++ .newline :: b.mid.flatMap Line.toks, isNC t = true := by
      intro t ht
      simp only [List.mem_append, List.mem_cons] at ht
      rcases ht with ht | rfl | ht
      · exact commentToks_nc _ t ht
      · rfl
      · exact skips_toks_nc _ hmid t ht
    have hrs : ∀ ws ∈ b.rows.map Line.words, ws.length = b.cols.length := by
      intro ws hws
      obtain ⟨r, hr, rfl⟩ := List.mem_map.1 hws
      exact (hrows r hr).2.2.1
    rw [hdoc, block_toks b (hbs b (by simp)), reassoc]
    cases rest with
    | nil =>
      have hafter : docToks [] tr = tr.flatMap Line.toks := by simp [docToks]
      rw [hafter]
      rw [block_step _ _ _ (skips_toks_nc _ hpre) hN (skips_toks_nc _ hpost) b.name b.cols _ hlen hcols _ hrs _
        (stops_of_nc _ hT) (by
          intro h0
          refine ⟨hT, ?_⟩
          have : b.rows = [] := by simpa using h0
          have h2 := hsep this
          rw [← List.flatMap_append]
          exact lines_toks_ne _ h2) f]
      have hfpos : f ≠ 0 := by simp at hf; omega
      obtain ⟨g, rfl⟩ := Nat.exists_eq_succ_of_ne_zero hfpos
      by_cases h0 : b.rows.map Line.words = []
      · simp only [h0, if_true]
        rw [blocksGo_nc g [] (by simp)]
        simp [BlockLayout.block, h0]
      · simp only [h0, if_false]
        rw [blocksGo_nc g _ hT]
        simp [BlockLayout.block]
    | cons b2 rest' =>
      obtain ⟨hrne, hpne, hsep'⟩ := hsep
      have h0 : b.rows.map Line.words ≠ [] := by simpa using hrne
      have hb2 := hbs b2 (by simp)
      have hstops : Stops (docToks (b2 :: rest') tr) := by
        have : docToks (b2 :: rest') tr = b2.pre.flatMap Line.toks ++
            (.lit b2.name :: ((commentToks b2.nameLine.tail ++ .newline :: b2.mid.flatMap Line.toks) ++ .loop :: .newline ::
              ((List.zipWith labelToks b2.cols (b2.labels.map Line.tail)).flatten ++
                (b2.post.flatMap Line.toks ++ ((b2.rows.map Line.words).map rowToks).flatten))) ++ (docToks rest' tr)) := by
          simp only [docToks, List.flatMap_cons, block_toks b2 hb2, List.append_assoc]
        rw [this]
        exact stops_append _ _ (skips_toks_nc _ hb2.1) (lines_toks_ne _ hpne)
      rw [block_step _ _ _ (skips_toks_nc _ hpre) hN (skips_toks_nc _ hpost) b.name b.cols _ hlen hcols _ hrs _
        hstops (fun h => absurd h h0) f]
      simp only [h0, if_false]
      rw [ih hrestOk hsep' f hf']
      simp [BlockLayout.block]

theorem length_le_docToks (bs : List BlockLayout) (tr : List Line) (hbs : ∀ b ∈ bs, b.Ok) :
    bs.length ≤ (docToks bs tr).length := by
  induction bs with
  | nil => simp
  | cons b rest ih =>
    have hb := block_toks_ne b (hbs b (by simp))
    have h1 : 1 ≤ b.toks.length := by
      cases hh : b.toks with
      | nil => exact absurd hh hb
      | cons _ _ => simp
    have := ih (fun x hx => hbs x (by simp [hx]))
    simp only [docToks, List.flatMap_cons, List.length_append, List.length_cons] at *
    omega

/-- the reader on the tokens of a well laid-out document -/
theorem parseBlocks_doc (d : Doc) (h : d.Ok) :
    parseBlocks (d.lines.flatMap Line.toks) = .ok (d.blocks.map BlockLayout.block) := by
  obtain ⟨hbs, htr, hsep, _⟩ := h
  have hl : d.lines.flatMap Line.toks = docToks d.blocks d.trailing := by
    simp [Doc.lines, docToks, List.flatMap_append, List.flatMap_assoc]
    rfl
  unfold parseBlocks
  rw [hl]
  exact blocksGo_doc d.trailing htr d.blocks hbs hsep _ (Nat.lt_succ_of_le (length_le_docToks _ _ hbs))

theorem skip_ok (l : Line) (h : l.Skip) : l.Ok := h.1

theorem block_lines_ok (b : BlockLayout) (h : b.Ok) : ∀ l ∈ b.lines, l.Ok := by
  obtain ⟨hpre, hmid, hpost, hn, _, _, hl, _, _, _, hlab, _, hrows⟩ := h
  intro l hl'
  simp only [BlockLayout.lines, List.mem_append, List.mem_cons] at hl'
  rcases hl' with h1 | rfl | h1 | rfl | h1 | h1 | h1
  · exact (hpre l h1).1
  · exact hn
  · exact (hmid l h1).1
  · exact hl
  · exact hlab l h1
  · exact (hpost l h1).1
  · exact (hrows l h1).1

/-- **the reader on any well laid-out STAR text** -/
theorem readStar_doc (d : Doc) (h : d.Ok) : readStar d.text = .ok (d.blocks.map BlockLayout.block) := by
  have hlines : ∀ l ∈ d.lines, l.Ok := by
    intro l hl
    simp only [Doc.lines, List.mem_append, List.mem_flatMap] at hl
    rcases hl with ⟨b, hb, hlb⟩ | hl
    · exact block_lines_ok b (h.1 b hb) l hlb
    · exact (h.2.1 l hl).1
  unfold readStar Doc.text
  rw [tokenize_lines d.lines h.2.2.2 hlines]
  exact parseBlocks_doc d h

end CryoCat.C02
