import CryoCat.Lemmas.C16_IsDFT
import Mathlib.RingTheory.RootsOfUnity.Complex
import Mathlib.RingTheory.RootsOfUnity.PrimitiveRoots
import Mathlib.Algebra.Ring.GeomSum
import Mathlib.Algebra.BigOperators.Fin
import Mathlib.Tactic.Ring
/-! C16 — the exact 2-D discrete Fourier transform of real `H × W` images over ℂ, with numpy's sign convention
(`exp(-2πi/n)` forward), satisfies the laws `IsDFT` of the Fourier service for EVERY size `H ≥ 1`, `W ≥ 1`
(`dftN_isDFT`). `dftN_fft2_apply` / `dftN_ifft2re_apply` / `omegaN_eq` tie the definition to the textbook formulas,
`dftN_dc` is the DC bin (sum of the image).

Plan: 1-D transform on `Fin n → ℂ`, two-sided inversion via orthogonality of the characters (geometric sum), the
conjugation rule `dft (conj x) k = conj (dft x (-k))`; 2-D = 1-D along each axis; the inverse of a Hermitian
spectrum is real, so `.real` loses nothing. Independent of the regenerated constants and of every C12 file. -/
namespace CryoCat.C16
open Finset Complex

/-! ### the twiddle -/

/-- numpy's forward twiddle `exp(-2πi/n)` -/
noncomputable def omegaN (n : Nat) : ℂ := (exp (2 * Real.pi * I / n))⁻¹

theorem omegaN_eq (n : Nat) : omegaN n = Complex.exp (-(2 * Real.pi * Complex.I / n)) := by
  rw [omegaN, Complex.exp_neg]

theorem omegaN_prim {n : Nat} (hn : 0 < n) : IsPrimitiveRoot (omegaN n) n :=
  (Complex.isPrimitiveRoot_exp n (Nat.pos_iff_ne_zero.1 hn)).inv

theorem omegaN_pow_n {n : Nat} (hn : 0 < n) : omegaN n ^ n = 1 := (omegaN_prim hn).pow_eq_one

theorem omegaN_ne_zero (n : Nat) : omegaN n ≠ 0 := inv_ne_zero (exp_ne_zero _)

/-- a root of unity is conjugated to its inverse -/
theorem omegaN_conj (n : Nat) : (starRingEnd ℂ) (omegaN n) = (omegaN n)⁻¹ := by
  unfold omegaN
  rw [map_inv₀, ← Complex.exp_conj, inv_inv, ← Complex.exp_neg]
  congr 1
  simp only [map_div₀, map_mul, Complex.conj_ofReal, Complex.conj_I, map_natCast, map_ofNat]
  ring

/-- `ω^{(-k) mod n} = (ω^k)⁻¹` -/
theorem omegaN_negIdx {n : Nat} (hn : 0 < n) (k : Nat) (hk : k < n) : omegaN n ^ negIdx n k = (omegaN n ^ k)⁻¹ := by
  unfold negIdx
  rw [← pow_eq_pow_mod (n - k) (omegaN_pow_n hn)]
  apply eq_inv_of_mul_eq_one_left
  rw [← pow_add, Nat.sub_add_cancel hk.le, omegaN_pow_n hn]

/-- orthogonality of the characters `k ↦ ω^{bk}` -/
theorem omegaN_orth {n : Nat} (hn : 0 < n) (a b : Fin n) :
    ∑ k : Fin n, (omegaN n ^ b.val * (omegaN n ^ a.val)⁻¹) ^ k.val = if b = a then (n : ℂ) else 0 := by
  rw [Fin.sum_univ_eq_sum_range (fun k => (omegaN n ^ b.val * (omegaN n ^ a.val)⁻¹) ^ k) n]
  by_cases hab : b = a
  · subst hab
    rw [if_pos rfl, mul_inv_cancel₀ (pow_ne_zero _ (omegaN_ne_zero n))]
    simp
  · rw [if_neg hab]
    have hz : (omegaN n ^ b.val * (omegaN n ^ a.val)⁻¹) ^ n = 1 := by
      rw [mul_pow, inv_pow, ← pow_mul, ← pow_mul, mul_comm b.val n, mul_comm a.val n, pow_mul, pow_mul, omegaN_pow_n hn,
        one_pow, one_pow, inv_one, mul_one]
    have hne : omegaN n ^ b.val * (omegaN n ^ a.val)⁻¹ - 1 ≠ 0 := by
      intro h0
      have h1 : omegaN n ^ b.val * (omegaN n ^ a.val)⁻¹ = 1 := sub_eq_zero.1 h0
      exact hab (Fin.ext ((omegaN_prim hn).pow_inj b.isLt a.isLt
        ((mul_inv_eq_one₀ (pow_ne_zero a.val (omegaN_ne_zero n))).1 h1)))
    have := geom_sum_mul (omegaN n ^ b.val * (omegaN n ^ a.val)⁻¹) n
    rw [hz, sub_self] at this
    exact (mul_eq_zero.1 this).resolve_right hne

/-! ### 1-D -/

/-- the 1-D DFT `X_k = Σ_j ω^{jk} x_j` -/
noncomputable def dft1 (n : Nat) (x : Fin n → ℂ) (k : Fin n) : ℂ := ∑ j : Fin n, omegaN n ^ (j.val * k.val) * x j
/-- the 1-D inverse DFT `x_i = (1/n) Σ_k ω^{-ki} X_k` -/
noncomputable def idft1 (n : Nat) (y : Fin n → ℂ) (i : Fin n) : ℂ :=
  (n : ℂ)⁻¹ * ∑ k : Fin n, (omegaN n ^ (k.val * i.val))⁻¹ * y k

/-- **inversion (1-D)**: `idft1 ∘ dft1 = id` -/
theorem idft1_dft1 {n : Nat} (hn : 0 < n) (x : Fin n → ℂ) : idft1 n (dft1 n x) = x := by
  funext a
  have hne : (n : ℂ) ≠ 0 := by exact_mod_cast (Nat.pos_iff_ne_zero.1 hn)
  unfold idft1
  have e1 : ∀ k : Fin n, (omegaN n ^ (k.val * a.val))⁻¹ * dft1 n x k
      = ∑ j : Fin n, (omegaN n ^ j.val * (omegaN n ^ a.val)⁻¹) ^ k.val * x j := by
    intro k
    unfold dft1
    rw [mul_sum]
    apply sum_congr rfl; intro j _
    rw [mul_pow, inv_pow, ← pow_mul, ← pow_mul, mul_comm a.val k.val]; ring
  rw [sum_congr rfl (fun k _ => e1 k), sum_comm]
  have e2 : ∀ j : Fin n, ∑ k : Fin n, (omegaN n ^ j.val * (omegaN n ^ a.val)⁻¹) ^ k.val * x j
      = if j = a then (n : ℂ) * x a else 0 := by
    intro j
    rw [← sum_mul, omegaN_orth hn a j]
    split_ifs with hja
    · subst hja; rfl
    · simp
  rw [sum_congr rfl (fun j _ => e2 j), sum_ite_eq' univ a, if_pos (mem_univ _), ← mul_assoc, inv_mul_cancel₀ hne, one_mul]

/-- **inversion (1-D)**: `dft1 ∘ idft1 = id` -/
theorem dft1_idft1 {n : Nat} (hn : 0 < n) (y : Fin n → ℂ) : dft1 n (idft1 n y) = y := by
  funext a
  have hne : (n : ℂ) ≠ 0 := by exact_mod_cast (Nat.pos_iff_ne_zero.1 hn)
  unfold dft1
  have e1 : ∀ j : Fin n, omegaN n ^ (j.val * a.val) * idft1 n y j
      = ∑ m : Fin n, (n : ℂ)⁻¹ * ((omegaN n ^ a.val * (omegaN n ^ m.val)⁻¹) ^ j.val * y m) := by
    intro j
    unfold idft1
    rw [mul_sum, mul_sum]
    apply sum_congr rfl; intro m _
    rw [mul_pow, inv_pow, ← pow_mul, ← pow_mul, mul_comm a.val j.val]; ring
  rw [sum_congr rfl (fun j _ => e1 j), sum_comm]
  have e2 : ∀ m : Fin n, ∑ j : Fin n, (n : ℂ)⁻¹ * ((omegaN n ^ a.val * (omegaN n ^ m.val)⁻¹) ^ j.val * y m)
      = if a = m then y a else 0 := by
    intro m
    rw [← mul_sum, ← sum_mul, omegaN_orth hn m a]
    split_ifs with ham
    · subst ham; rw [← mul_assoc, inv_mul_cancel₀ hne, one_mul]
    · simp
  rw [sum_congr rfl (fun m _ => e2 m), sum_ite_eq univ a, if_pos (mem_univ _)]

theorem negFin_negFin {n : Nat} (k : Fin n) : negFin (negFin k) = k := by
  apply Fin.ext
  have hk := k.isLt
  show (n - (n - k.val) % n) % n = k.val
  by_cases h0 : k.val = 0
  · rw [h0, Nat.sub_zero, Nat.mod_self, Nat.sub_zero, Nat.mod_self]
  · rw [Nat.mod_eq_of_lt (by omega : n - k.val < n), Nat.mod_eq_of_lt (by omega)]
    omega

/-- **conjugation theorem (1-D)**: `dft (conj x) k = conj (dft x (-k))` -/
theorem dft1_conj {n : Nat} (hn : 0 < n) (x : Fin n → ℂ) (k : Fin n) :
    dft1 n (fun j => (starRingEnd ℂ) (x j)) k = (starRingEnd ℂ) (dft1 n x (negFin k)) := by
  unfold dft1
  rw [map_sum]
  apply sum_congr rfl; intro j _
  rw [map_mul, map_pow, omegaN_conj]
  congr 1
  show _ = (omegaN n)⁻¹ ^ (j.val * negIdx n k.val)
  have h : omegaN n ^ (negIdx n k.val * j.val) = (omegaN n ^ (j.val * k.val))⁻¹ := by
    rw [pow_mul, omegaN_negIdx hn k.val k.isLt, inv_pow, ← pow_mul, mul_comm k.val j.val]
  rw [inv_pow, mul_comm j.val (negIdx n k.val), h, inv_inv]

/-! ### 2-D: the 1-D transform along each axis -/

/-- complex `H × W` arrays -/
abbrev CImg (H W : Nat) := Fin H → Fin W → ℂ

/-- `fft2`: rows (axis `W`) first, then columns (axis `H`) -/
noncomputable def dft2 (H W : Nat) (x : CImg H W) : CImg H W :=
  fun v u => dft1 H (fun y => dft1 W (x y) u) v
/-- `ifft2`: columns first, then rows -/
noncomputable def idft2 (H W : Nat) (Y : CImg H W) : CImg H W :=
  fun y i => idft1 W (fun u => idft1 H (fun v => Y v u) y) i

/-- the textbook double sum -/
theorem dft2_apply (H W : Nat) (x : CImg H W) (v : Fin H) (u : Fin W) :
    dft2 H W x v u = ∑ y : Fin H, ∑ i : Fin W, x y i * omegaN H ^ (y.val * v.val) * omegaN W ^ (i.val * u.val) := by
  unfold dft2 dft1
  apply sum_congr rfl; intro y _
  rw [mul_sum]
  apply sum_congr rfl; intro i _
  ring

theorem idft2_apply (H W : Nat) (Y : CImg H W) (y : Fin H) (i : Fin W) :
    idft2 H W Y y i = ((H : ℂ) * (W : ℂ))⁻¹ *
      ∑ v : Fin H, ∑ u : Fin W, Y v u * (omegaN H ^ (v.val * y.val))⁻¹ * (omegaN W ^ (u.val * i.val))⁻¹ := by
  unfold idft2 idft1
  have e : ∀ u : Fin W, (omegaN W ^ (u.val * i.val))⁻¹ * ((H : ℂ)⁻¹ * ∑ v : Fin H, (omegaN H ^ (v.val * y.val))⁻¹ * Y v u)
      = (H : ℂ)⁻¹ * ∑ v : Fin H, Y v u * (omegaN H ^ (v.val * y.val))⁻¹ * (omegaN W ^ (u.val * i.val))⁻¹ := by
    intro u
    rw [mul_left_comm, mul_sum]
    congr 1
    apply sum_congr rfl; intro v _
    ring
  rw [sum_congr rfl (fun u _ => e u), ← mul_sum, ← mul_assoc, sum_comm, mul_inv, mul_comm (H : ℂ)⁻¹ (W : ℂ)⁻¹]

/-- **inversion (2-D)**: `ifft2 ∘ fft2 = id` -/
theorem idft2_dft2 {H W : Nat} (hH : 0 < H) (hW : 0 < W) (x : CImg H W) : idft2 H W (dft2 H W x) = x := by
  funext y i
  unfold idft2 dft2
  have e : (fun u => idft1 H (fun v => dft1 H (fun y' => dft1 W (x y') u) v) y) = dft1 W (x y) := by
    funext u
    exact congrFun (idft1_dft1 hH (fun y' => dft1 W (x y') u)) y
  rw [e]
  exact congrFun (idft1_dft1 hW (x y)) i

/-- **inversion (2-D)**: `fft2 ∘ ifft2 = id` -/
theorem dft2_idft2 {H W : Nat} (hH : 0 < H) (hW : 0 < W) (Y : CImg H W) : dft2 H W (idft2 H W Y) = Y := by
  funext v u
  unfold idft2 dft2
  have e : (fun y => dft1 W (fun i => idft1 W (fun u' => idft1 H (fun v' => Y v' u') y) i) u)
      = idft1 H (fun v' => Y v' u) := by
    funext y
    exact congrFun (dft1_idft1 hW (fun u' => idft1 H (fun v' => Y v' u') y)) u
  rw [e]
  exact congrFun (dft1_idft1 hH (fun v' => Y v' u)) v

/-- **conjugation theorem (2-D)** -/
theorem dft2_conj {H W : Nat} (hH : 0 < H) (hW : 0 < W) (x : CImg H W) (v : Fin H) (u : Fin W) :
    dft2 H W (fun y i => (starRingEnd ℂ) (x y i)) v u = (starRingEnd ℂ) (dft2 H W x (negFin v) (negFin u)) := by
  unfold dft2
  have e : (fun y => dft1 W (fun i => (starRingEnd ℂ) (x y i)) u)
      = fun y => (starRingEnd ℂ) (dft1 W (x y) (negFin u)) := by
    funext y
    exact dft1_conj hW (x y) u
  rw [e]
  exact dft1_conj hH (fun y => dft1 W (x y) (negFin u)) v

/-- **Hermitian symmetry**: the spectrum of a real image -/
theorem dft2_hermitian {H W : Nat} (hH : 0 < H) (hW : 0 < W) (x : CImg H W) (hx : ∀ y i, (starRingEnd ℂ) (x y i) = x y i)
    (v : Fin H) (u : Fin W) : dft2 H W x (negFin v) (negFin u) = (starRingEnd ℂ) (dft2 H W x v u) := by
  have h := dft2_conj hH hW x v u
  have e : (fun y i => (starRingEnd ℂ) (x y i)) = x := by funext y i; exact hx y i
  rw [e] at h
  rw [h, Complex.conj_conj]

/-- the inverse transform of a Hermitian spectrum is real -/
theorem idft2_real_of_hermitian {H W : Nat} (hH : 0 < H) (hW : 0 < W) (Y : CImg H W)
    (hY : ∀ v u, Y (negFin v) (negFin u) = (starRingEnd ℂ) (Y v u)) (y : Fin H) (i : Fin W) :
    (((idft2 H W Y y i).re : ℝ) : ℂ) = idft2 H W Y y i := by
  have h : dft2 H W (fun y i => (starRingEnd ℂ) (idft2 H W Y y i)) = Y := by
    funext v u
    rw [dft2_conj hH hW, dft2_idft2 hH hW, hY, Complex.conj_conj]
  have hz : (fun y i => (starRingEnd ℂ) (idft2 H W Y y i)) = idft2 H W Y := by
    rw [← idft2_dft2 hH hW (fun y i => (starRingEnd ℂ) (idft2 H W Y y i)), h]
  have hz' : (starRingEnd ℂ) (idft2 H W Y y i) = idft2 H W Y y i := congrFun (congrFun hz y) i
  exact (Complex.conj_eq_iff_re.1 hz')

/-! ### the Fourier service -/

/-- the project's pair type and ℂ -/
def toC (z : Cx ℝ) : ℂ := ⟨z.re, z.im⟩
def ofC (c : ℂ) : Cx ℝ := ⟨c.re, c.im⟩

@[simp] theorem toC_ofC (c : ℂ) : toC (ofC c) = c := rfl
@[simp] theorem ofC_toC (z : Cx ℝ) : ofC (toC z) = z := rfl
theorem ofC_smul (c : ℝ) (z : ℂ) : Cx.smul c (ofC z) = ofC ((c : ℂ) * z) := by
  simp [Cx.smul, ofC]
theorem ofC_add (z w : ℂ) : Cx.add (ofC z) (ofC w) = ofC (z + w) := by
  simp [Cx.add, ofC]
theorem toC_smul (c : ℝ) (z : Cx ℝ) : toC (Cx.smul c z) = (c : ℂ) * toC z := by
  apply Complex.ext <;> simp [Cx.smul, toC]
theorem toC_add (z w : Cx ℝ) : toC (Cx.add z w) = toC z + toC w := by
  apply Complex.ext <;> simp [Cx.add, toC]

/-- real `H × W` images `x[y, i]` -/
abbrev ImgN (H W : Nat) := Fin H → Fin W → ℝ

/-- numpy's `fft2` on real images / `ifft2(·).real`, exact over ℂ, any size -/
noncomputable def dftN (H W : Nat) : FFT (ImgN H W) ℝ H W :=
  { fft2 := fun x v u => ofC (dft2 H W (fun y i => (x y i : ℂ)) v u)
    ifft2re := fun S y i => (idft2 H W (fun v u => toC (S v u)) y i).re }

variable {H W : Nat}

/-- **the forward transform is `Σ_y Σ_i x[y,i] · exp(-2πi·yv/H) · exp(-2πi·iu/W)`** -/
theorem dftN_fft2_apply (x : ImgN H W) (v : Fin H) (u : Fin W) :
    (⟨((dftN H W).fft2 x v u).re, ((dftN H W).fft2 x v u).im⟩ : ℂ)
      = ∑ y : Fin H, ∑ i : Fin W, (x y i : ℂ) * omegaN H ^ (y.val * v.val) * omegaN W ^ (i.val * u.val) := by
  rw [← dft2_apply]
  rfl

/-- **the inverse transform is `Re((1/(HW)) Σ_v Σ_u S[v,u] · exp(+2πi·vy/H) · exp(+2πi·ui/W))`** -/
theorem dftN_ifft2re_apply (S : Spec ℝ H W) (y : Fin H) (i : Fin W) :
    (dftN H W).ifft2re S y i = (((H : ℂ) * (W : ℂ))⁻¹ *
      ∑ v : Fin H, ∑ u : Fin W, (⟨(S v u).re, (S v u).im⟩ : ℂ) * (omegaN H ^ (v.val * y.val))⁻¹
        * (omegaN W ^ (u.val * i.val))⁻¹).re := by
  rw [← idft2_apply]
  rfl

/-- the DC bin is the sum of the image -/
theorem dftN_dc (x : ImgN H W) (hH : 0 < H) (hW : 0 < W) :
    ((dftN H W).fft2 x ⟨0, hH⟩ ⟨0, hW⟩).re = ∑ y : Fin H, ∑ i : Fin W, x y i := by
  have h := congrArg Complex.re (dftN_fft2_apply x ⟨0, hH⟩ ⟨0, hW⟩)
  rw [show ((dftN H W).fft2 x ⟨0, hH⟩ ⟨0, hW⟩).re = _ from h]
  simp only [Nat.mul_zero, pow_zero, mul_one]
  simp only [← Complex.ofReal_sum, Complex.ofReal_re]

theorem dftN_dc_im (x : ImgN H W) (hH : 0 < H) (hW : 0 < W) : ((dftN H W).fft2 x ⟨0, hH⟩ ⟨0, hW⟩).im = 0 := by
  have h := congrArg Complex.im (dftN_fft2_apply x ⟨0, hH⟩ ⟨0, hW⟩)
  rw [show ((dftN H W).fft2 x ⟨0, hH⟩ ⟨0, hW⟩).im = _ from h]
  simp only [Nat.mul_zero, pow_zero, mul_one]
  simp only [← Complex.ofReal_sum, Complex.ofReal_im]

/-! ### linearity of the complex transforms -/

theorem dft1_add (n : Nat) (f g : Fin n → ℂ) (k : Fin n) : dft1 n (fun j => f j + g j) k = dft1 n f k + dft1 n g k := by
  unfold dft1
  rw [← sum_add_distrib]
  apply sum_congr rfl; intro j _; ring
theorem dft1_smul (n : Nat) (c : ℂ) (f : Fin n → ℂ) (k : Fin n) : dft1 n (fun j => c * f j) k = c * dft1 n f k := by
  unfold dft1
  rw [mul_sum]
  apply sum_congr rfl; intro j _; ring
theorem idft1_add (n : Nat) (f g : Fin n → ℂ) (k : Fin n) : idft1 n (fun j => f j + g j) k = idft1 n f k + idft1 n g k := by
  unfold idft1
  rw [← mul_add, ← sum_add_distrib]
  congr 1
  apply sum_congr rfl; intro j _; ring
theorem idft1_smul (n : Nat) (c : ℂ) (f : Fin n → ℂ) (k : Fin n) : idft1 n (fun j => c * f j) k = c * idft1 n f k := by
  unfold idft1
  rw [mul_left_comm c (n : ℂ)⁻¹]
  congr 1
  rw [mul_sum]
  apply sum_congr rfl; intro j _; ring

theorem dft2_add (x y : CImg H W) (v : Fin H) (u : Fin W) :
    dft2 H W (fun a b => x a b + y a b) v u = dft2 H W x v u + dft2 H W y v u := by
  unfold dft2
  simp only [dft1_add]
theorem dft2_smul (c : ℂ) (x : CImg H W) (v : Fin H) (u : Fin W) :
    dft2 H W (fun a b => c * x a b) v u = c * dft2 H W x v u := by
  unfold dft2
  simp only [dft1_smul]
theorem idft2_add (x y : CImg H W) (a : Fin H) (b : Fin W) :
    idft2 H W (fun v u => x v u + y v u) a b = idft2 H W x a b + idft2 H W y a b := by
  unfold idft2
  simp only [idft1_add]
theorem idft2_smul (c : ℂ) (x : CImg H W) (a : Fin H) (b : Fin W) :
    idft2 H W (fun v u => c * x v u) a b = c * idft2 H W x a b := by
  unfold idft2
  simp only [idft1_smul]

/-! ### the laws -/

/-- **the exact complex DFT of every `H × W` (`H, W ≥ 1`) satisfies the laws of the Fourier service** -/
theorem dftN_isDFT {H W : Nat} (hH : 0 < H) (hW : 0 < W) : IsDFT (dftN H W) where
  inv_left x := by
    funext y i
    show (idft2 H W (fun v u => toC (ofC (dft2 H W (fun y i => (x y i : ℂ)) v u))) y i).re = x y i
    simp only [toC_ofC]
    rw [idft2_dft2 hH hW]
    exact Complex.ofReal_re _
  even_mult M hM x := by
    funext v u
    -- the spectrum of the real image, and the multiplied spectrum
    have hX : ∀ v u, dft2 H W (fun y i => (x y i : ℂ)) (negFin v) (negFin u)
        = (starRingEnd ℂ) (dft2 H W (fun y i => (x y i : ℂ)) v u) :=
      dft2_hermitian hH hW _ (fun y i => Complex.conj_ofReal _)
    have hY : ∀ v u, (fun v u => ((M v u : ℝ) : ℂ) * dft2 H W (fun y i => (x y i : ℂ)) v u) (negFin v) (negFin u)
        = (starRingEnd ℂ) ((fun v u => ((M v u : ℝ) : ℂ) * dft2 H W (fun y i => (x y i : ℂ)) v u) v u) := by
      intro v u
      show ((M (negFin v) (negFin u) : ℝ) : ℂ) * _ = (starRingEnd ℂ) (((M v u : ℝ) : ℂ) * _)
      rw [hM, hX, map_mul, Complex.conj_ofReal]
    show ofC (dft2 H W (fun y i => (((idft2 H W (fun v u => toC (Cx.smul (M v u)
        (ofC (dft2 H W (fun y i => (x y i : ℂ)) v u)))) y i).re : ℝ) : ℂ)) v u)
      = Cx.smul (M v u) (ofC (dft2 H W (fun y i => (x y i : ℂ)) v u))
    simp only [toC_smul, toC_ofC]
    have e : (fun y i => (((idft2 H W (fun v u => ((M v u : ℝ) : ℂ) * dft2 H W (fun y i => (x y i : ℂ)) v u) y i).re : ℝ) : ℂ))
        = idft2 H W (fun v u => ((M v u : ℝ) : ℂ) * dft2 H W (fun y i => (x y i : ℂ)) v u) := by
      funext y i
      exact idft2_real_of_hermitian hH hW _ hY y i
    rw [e, dft2_idft2 hH hW, ofC_smul]
  fft_add x y := by
    funext v u
    show ofC (dft2 H W (fun a b => (((x + y) a b : ℝ) : ℂ)) v u) = Cx.add (ofC _) (ofC _)
    rw [ofC_add, ← dft2_add]
    simp only [Pi.add_apply, Complex.ofReal_add]
  fft_smul c x := by
    funext v u
    show ofC (dft2 H W (fun a b => (((c • x) a b : ℝ) : ℂ)) v u) = Cx.smul c (ofC _)
    rw [ofC_smul, ← dft2_smul]
    simp only [Pi.smul_apply, smul_eq_mul, Complex.ofReal_mul]
  ifft_add s t := by
    funext y i
    show (idft2 H W (fun v u => toC (Cx.add (s v u) (t v u))) y i).re
      = (idft2 H W (fun v u => toC (s v u)) y i).re + (idft2 H W (fun v u => toC (t v u)) y i).re
    simp only [toC_add]
    rw [idft2_add, Complex.add_re]
  ifft_smul c s := by
    funext y i
    show (idft2 H W (fun v u => toC (Cx.smul c (s v u))) y i).re = c * (idft2 H W (fun v u => toC (s v u)) y i).re
    simp only [toC_smul]
    rw [idft2_smul, Complex.re_ofReal_mul]

/-- the forward transform in exponential form: `Σ_y Σ_i x[y,i] · exp(-2πi (yv/H + iu/W))` -/
theorem dftN_fft2_exp (x : ImgN H W) (v : Fin H) (u : Fin W) :
    (⟨((dftN H W).fft2 x v u).re, ((dftN H W).fft2 x v u).im⟩ : ℂ)
      = ∑ y : Fin H, ∑ i : Fin W, (x y i : ℂ) *
          Complex.exp (-(2 * Real.pi * Complex.I) * ((y.val * v.val : ℕ) / (H : ℂ) + (i.val * u.val : ℕ) / (W : ℂ))) := by
  rw [dftN_fft2_apply]
  apply sum_congr rfl; intro y _
  apply sum_congr rfl; intro i _
  rw [mul_assoc, omegaN_eq, omegaN_eq, ← Complex.exp_nat_mul, ← Complex.exp_nat_mul, ← Complex.exp_add]
  congr 2
  ring

/-- the `Add` / `SMul ℝ` on images that `IsDFT (dftN H W)` speaks about are the pointwise ones -/
theorem imgN_add_apply (x y : ImgN H W) (a : Fin H) (b : Fin W) : (x + y) a b = x a b + y a b := rfl
theorem imgN_smul_apply (c : ℝ) (x : ImgN H W) (a : Fin H) (b : Fin W) : (c • x) a b = c * x a b := rfl
theorem dftN_isDFT_pi (hH : 0 < H) (hW : 0 < W) : @IsDFT (ImgN H W) Pi.instAdd Pi.instSMul H W (dftN H W) :=
  dftN_isDFT hH hW

end CryoCat.C16
