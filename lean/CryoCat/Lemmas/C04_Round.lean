import CryoCat.Model.C04
import Mathlib.Tactic.Linarith
import Mathlib.Tactic.Ring
import Mathlib.Algebra.Order.Ring.Abs
import Mathlib.Algebra.Order.Floor.Ring
import Mathlib.Data.Rat.Floor
/-! C04 — the rounding `Motl.update_coordinates` uses (`Decimal(v).to_integral_value(ROUND_HALF_UP)`),
stated as a specification over any ordered field and proved for the exact rational rule
`ratRoundAway` of `Model/C04.lean`. Self-contained: nothing of C05 / C10 is imported (their models
import their own generated tables). The rounding RULE itself is C05's property; here it is only what
the `update_coord=True` clause of C04 needs. -/
namespace CryoCat.C04
variable {α : Type} [_root_.Field α] [LinearOrder α] [IsStrictOrderedRing α]

/-- a rounding to a nearest integer: integer-valued and within 1/2 of the argument -/
def RoundsToNearest (r : α → α) : Prop := ∀ v, (∃ z : ℤ, r v = (z : α)) ∧ |v - r v| ≤ 1 / 2

/-- the tie rule of ROUND_HALF_UP: exact halves go away from zero, on both sides of it -/
def TiesAwayFromZero (r : α → α) : Prop :=
  ∀ k : ℕ, r ((k : α) + 1 / 2) = (k : α) + 1 ∧ r (-((k : α) + 1 / 2)) = -((k : α) + 1)

theorem ratRoundAway_neg (q : ℚ) (h : q < 0) : ratRoundAway q = -((⌊-q + 1 / 2⌋ : ℤ) : ℚ) := by
  unfold ratRoundAway; rw [if_pos h]; rfl

theorem ratRoundAway_nonneg (q : ℚ) (h : ¬ q < 0) : ratRoundAway q = ((⌊q + 1 / 2⌋ : ℤ) : ℚ) := by
  unfold ratRoundAway; rw [if_neg h]; rfl

/-- the exact rule returns an integer within 1/2 of its argument (both signs, ties included) -/
theorem ratRoundAway_nearest : RoundsToNearest ratRoundAway := by
  intro q
  by_cases h : q < 0
  · rw [ratRoundAway_neg q h]
    refine ⟨⟨-⌊-q + 1 / 2⌋, by push_cast; rfl⟩, ?_⟩
    have h1 := Int.floor_le (-q + 1 / 2)
    have h2 := Int.lt_floor_add_one (-q + 1 / 2)
    rw [abs_le]; constructor <;> linarith
  · rw [ratRoundAway_nonneg q h]
    refine ⟨⟨⌊q + 1 / 2⌋, rfl⟩, ?_⟩
    have h1 := Int.floor_le (q + 1 / 2)
    have h2 := Int.lt_floor_add_one (q + 1 / 2)
    rw [abs_le]; constructor <;> linarith

/-- … and sends `k + 1/2` to `k + 1`, `-(k + 1/2)` to `-(k + 1)` for every natural `k` -/
theorem ratRoundAway_ties : TiesAwayFromZero ratRoundAway := by
  intro k
  have hk : (0 : ℚ) ≤ (k : ℚ) := Nat.cast_nonneg k
  constructor
  · have hn : ¬ ((k : ℚ) + 1 / 2 < 0) := by linarith
    rw [ratRoundAway_nonneg _ hn]
    have e : (k : ℚ) + 1 / 2 + 1 / 2 = (((k : ℤ) + 1 : ℤ) : ℚ) := by push_cast; ring
    rw [e, Int.floor_intCast]; push_cast; ring
  · have hn : -((k : ℚ) + 1 / 2) < 0 := by linarith
    rw [ratRoundAway_neg _ hn]
    have e : - -((k : ℚ) + 1 / 2) + 1 / 2 = (((k : ℤ) + 1 : ℤ) : ℚ) := by push_cast; ring
    rw [e, Int.floor_intCast]; push_cast; ring

/-- the rounding of a whole number is that number (an all-integer list is left alone) -/
theorem ratRoundAway_int (z : ℤ) : ratRoundAway (z : ℚ) = z := by
  obtain ⟨⟨w, hw⟩, hd⟩ := ratRoundAway_nearest (z : ℚ)
  rw [hw] at hd ⊢
  have : |((z - w : ℤ) : ℚ)| ≤ 1 / 2 := by push_cast; exact hd
  rw [← Int.cast_abs] at this
  have h2 : |z - w| < 1 := by
    have : ((|z - w| : ℤ) : ℚ) < 1 := by linarith
    exact_mod_cast this
  have : z - w = 0 := by
    have := abs_nonneg (z - w)
    have h3 : |z - w| = 0 := by omega
    exact abs_eq_zero.1 h3
  have : w = z := by omega
  rw [this]

omit [IsStrictOrderedRing α] in
/-- one axis of `update_coordinates` with a rounding to nearest: the new coordinate is an integer,
the new shift lies in `[-1/2, 1/2]`, and coordinate + shift is the old coordinate + shift -/
theorem recentre_axis {r : α → α} (hr : RoundsToNearest r) (x sh : α) :
    (∃ z : ℤ, r (x + sh) = (z : α)) ∧ |x + sh - r (x + sh)| ≤ 1 / 2 ∧
    r (x + sh) + (x + sh - r (x + sh)) = x + sh := by
  refine ⟨(hr _).1, (hr _).2, by ring⟩

end CryoCat.C04
