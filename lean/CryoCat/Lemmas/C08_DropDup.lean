import CryoCat.Lemmas.C08
import Mathlib.Order.Defs.LinearOrder
/-! C08 — `drop_duplicates`: the sort order is a total preorder, so the first row of every id in the
sorted table is a best-scoring one (any linear order). -/
namespace CryoCat.C08
open CryoCat Gen.C08

variable {α : Type} [LinearOrder α]

/-- "`p` is sorted before `q`": smaller id, or equal id and a decision value at least as good -/
def Before (dup dec : Field) (asc : Bool) (p q : Particle α) : Prop :=
  p.get dup < q.get dup ∨ (p.get dup = q.get dup ∧ (if asc then p.get dec ≤ q.get dec else q.get dec ≤ p.get dec))

theorem ddLe_iff (hfirst : ddFirstKeyAscending = true) (dup dec : Field) (asc : Bool) (p q : Particle α) :
    ddLe dup dec asc p q = true ↔ Before dup dec asc p q := by
  unfold ddLe Before
  rw [hfirst]
  cases asc <;> simp [not_lt]

theorem before_refl (dup dec : Field) (asc : Bool) (p : Particle α) : Before dup dec asc p p := by
  right; cases asc <;> simp

theorem before_trans (dup dec : Field) (asc : Bool) (p q r : Particle α)
    (h1 : Before dup dec asc p q) (h2 : Before dup dec asc q r) : Before dup dec asc p r := by
  unfold Before at *
  rcases h1 with h1 | ⟨e1, d1⟩ <;> rcases h2 with h2 | ⟨e2, d2⟩
  · exact Or.inl (lt_trans h1 h2)
  · exact Or.inl (e2 ▸ h1)
  · exact Or.inl (e1 ▸ h2)
  · refine Or.inr ⟨e1.trans e2, ?_⟩
    cases asc
    · simp only [Bool.false_eq_true, if_false] at *; exact le_trans d2 d1
    · simp only [if_true] at *; exact le_trans d1 d2

theorem before_total (dup dec : Field) (asc : Bool) (p q : Particle α) :
    Before dup dec asc p q ∨ Before dup dec asc q p := by
  unfold Before
  rcases lt_trichotomy (p.get dup) (q.get dup) with h | h | h
  · exact Or.inl (Or.inl h)
  · rcases le_total (p.get dec) (q.get dec) with d | d
    · cases asc
      · exact Or.inr (Or.inr ⟨h.symm, by simpa using d⟩)
      · exact Or.inl (Or.inr ⟨h, by simpa using d⟩)
    · cases asc
      · exact Or.inl (Or.inr ⟨h, by simpa using d⟩)
      · exact Or.inr (Or.inr ⟨h.symm, by simpa using d⟩)
  · exact Or.inr (Or.inl h)

theorem sorted_before (hfirst : ddFirstKeyAscending = true) (dup dec : Field) (asc : Bool) (l : Motl α) :
    (l.mergeSort (ddLe dup dec asc)).Pairwise (Before dup dec asc) := by
  have h := List.pairwise_mergeSort (le := ddLe dup dec asc)
    (fun a b c h1 h2 => (ddLe_iff hfirst dup dec asc a c).2
      (before_trans dup dec asc a b c ((ddLe_iff hfirst dup dec asc a b).1 h1) ((ddLe_iff hfirst dup dec asc b c).1 h2)))
    (fun a b => by
      rcases before_total dup dec asc a b with h | h
      · simp [(ddLe_iff hfirst dup dec asc a b).2 h]
      · simp [(ddLe_iff hfirst dup dec asc b a).2 h]) l
  exact h.imp (fun {a b} hab => (ddLe_iff hfirst dup dec asc a b).1 hab)

end CryoCat.C08
