import CryoCat.Lemmas.C02
/-! C02 — helper lemmas, part 2: the parser on the tokens of a laid-out document. Core Lean only. -/
namespace CryoCat.C02

def isNC : Tok → Bool
  | .newline => true
  | .comment _ => true
  | _ => false

theorem skipNC_append (a r : List Tok) (h : ∀ t ∈ a, isNC t = true) : skipNC (a ++ r) = skipNC r := by
  induction a with
  | nil => rfl
  | cons t a ih =>
    have ht := h t (by simp)
    have ih' := ih (fun x hx => h x (by simp [hx]))
    cases t <;> simp_all [isNC, skipNC]

theorem skipNC_all (a : List Tok) (h : ∀ t ∈ a, isNC t = true) : skipNC a = [] := by
  have := skipNC_append a [] h
  simpa [skipNC] using this

theorem skipNC_stop (t : Tok) (r : List Tok) (h : isNC t = false) : skipNC (t :: r) = t :: r := by
  cases t <;> simp_all [isNC, skipNC]

theorem commentToks_nc (tl : List Char) : ∀ t ∈ commentToks tl, isNC t = true := by
  cases tl <;> simp [commentToks, isNC]

theorem skip_toks_nc (l : Line) (h : l.Skip) : ∀ t ∈ l.toks, isNC t = true := by
  intro t ht
  simp only [Line.toks, Line.words, h.2, List.map_nil, List.nil_append, List.mem_append, List.mem_singleton] at ht
  rcases ht with ht | rfl
  · exact commentToks_nc _ t ht
  · rfl

theorem skips_toks_nc (ls : List Line) (h : ∀ l ∈ ls, l.Skip) : ∀ t ∈ ls.flatMap Line.toks, isNC t = true := by
  intro t ht
  obtain ⟨l, hl, hlt⟩ := List.mem_flatMap.1 ht
  exact skip_toks_nc l (h l hl) t hlt

theorem classify_lit (w : Word) (h : IsLit w) : classifyWord w = .lit w := by
  simp [classifyWord, propPrefix_eq, loopKw_eq, h.1, h.2]

theorem classify_loop : classifyWord ['l', 'o', 'o', 'p', '_'] = .loop := by decide

theorem classify_prop (c : Word) : classifyWord ('_' :: c) = .prop ('_' :: c) := by
  simp [classifyWord, propPrefix_eq]

/-- a token list on which the label loop and the row loop stop: empty or starting with NEWLINE/COMMENT -/
def Stops (r : List Tok) : Prop := r = [] ∨ ∃ t r', r = t :: r' ∧ isNC t = true

/-! ### labels -/

def labelToks (c : Word) (tl : List Char) : List Tok := .prop ('_' :: c) :: (commentToks tl ++ [.newline])

theorem parseLabels_stop (t : Tok) (r : List Tok) (h : ∀ w, t ≠ .prop w) : parseLabels (t :: r) = .ok ([], t :: r) := by
  cases t with
  | prop w => exact absurd rfl (h w)
  | _ => simp [parseLabels]

theorem parseLabels_label (c : Word) (tl : List Char) (r : List Tok) :
    parseLabels (labelToks c tl ++ r) =
      match parseLabels r with
      | .ok (cs, r') => .ok (c :: cs, r')
      | .error e => .error e := by
  cases tl with
  | nil =>
    simp [labelToks, commentToks, parseLabels, Gen.C02.propNameDrop]
    rcases parseLabels r with e | ⟨cs, r'⟩ <;> rfl
  | cons x tl =>
    simp [labelToks, commentToks, parseLabels, Gen.C02.propNameDrop]
    rcases parseLabels r with e | ⟨cs, r'⟩ <;> rfl

theorem parseLabels_labels (cols : List Word) (tls : List (List Char)) (hl : cols.length = tls.length)
    (t : Tok) (r : List Tok) (h : ∀ w, t ≠ .prop w) :
    parseLabels ((List.zipWith labelToks cols tls).flatten ++ t :: r) = .ok (cols, t :: r) := by
  induction cols generalizing tls with
  | nil => simpa using parseLabels_stop t r h
  | cons c cols ih =>
    cases tls with
    | nil => simp at hl
    | cons tl tls =>
      simp only [List.zipWith_cons_cons, List.flatten_cons, List.append_assoc]
      rw [parseLabels_label, ih tls (by simpa using hl)]

/-! ### rows -/

theorem rowsGo_lits (n : Nat) (ws : List Word) (j : Nat) (cur rows r) :
    rowsGo n (ws.length + j) cur rows (ws.map .lit ++ r) = rowsGo n j (ws.reverse ++ cur) rows r := by
  induction ws generalizing cur with
  | nil => simp
  | cons w ws ih =>
    have : (w :: ws).length + j = (ws.length + j) + 1 := by simp; omega
    rw [this]
    simp only [List.map_cons, List.cons_append, rowsGo]
    rw [ih]; simp

theorem rowsGo_row (ws : List Word) (rows r) :
    rowsGo ws.length ws.length [] rows (ws.map .lit ++ .newline :: r) = rowsGo ws.length ws.length [] (ws :: rows) r := by
  have := rowsGo_lits ws.length ws 0 [] rows (.newline :: r)
  simp only [Nat.add_zero, List.append_nil] at this
  rw [this]; simp [rowsGo]

def rowToks (ws : List Word) : List Tok := ws.map .lit ++ [.newline]

theorem rowsGo_rows (n : Nat) (rs : List (List Word)) (h : ∀ ws ∈ rs, ws.length = n) (rows r) :
    rowsGo n n [] rows ((rs.map rowToks).flatten ++ r) = rowsGo n n [] (rs.reverse ++ rows) r := by
  induction rs generalizing rows with
  | nil => simp
  | cons ws rs ih =>
    have hw := h ws (by simp)
    subst hw
    simp only [List.map_cons, List.flatten_cons, rowToks, List.append_assoc, List.cons_append, List.nil_append]
    rw [rowsGo_row, ih (fun x hx => h x (by simp [hx]))]
    simp

theorem rowsGo_stop (n : Nat) (hn : n ≠ 0) (rows r) (h : Stops r) : rowsGo n n [] rows r = .ok (rows.reverse, r) := by
  obtain ⟨k, rfl⟩ := Nat.exists_eq_succ_of_ne_zero hn
  rcases h with rfl | ⟨t, r', rfl, ht⟩
  · simp [rowsGo]
  · cases t <;> simp_all [rowsGo, isNC]

end CryoCat.C02
