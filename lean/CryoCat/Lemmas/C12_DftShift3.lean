import CryoCat.Lemmas.C12_DftShift
/-! C12 — the shift theorem and the conjugation theorem lifted through `alongX/Y/Z` to the separable 3-D transform
`dft3`, and what they give for the inverse transform of ANY pair that inverts it (`Transform`): the hypotheses
`hF` of `filt_shift`, `hx`/`hreal` of `filt_even_gain` and `hx`/`hre` of `filt_effective_gain`. -/
namespace CryoCat.C12

section three
variable {C : Type} [Field C]

theorem dft1_mul_left (n : Nat) (tw : Nat → C) (c : C) (f : Int → C) (k : Int) :
    dft1 n tw (fun u => c * f u) k = c * dft1 n tw f k :=
  congrFun (dft1_smul (R := C) n tw c f) k

/-- the phase of the 3-D shift theorem: the product of the three axis phases -/
def phase3 (d : Dims) (ωx ωy ωz : C) (s k : Idx) : C :=
  phase1 d.nx ωx s.1 k.1 * phase1 d.ny ωy s.2.1 k.2.1 * phase1 d.nz ωz s.2.2 k.2.2

variable {d : Dims} {ωx ωy ωz : C}

/-- **shift theorem (3-D)**: rolling the volume by `s` multiplies bin `k` of `dft3` with `phase3 s k` -/
theorem dft3_roll (hx : Root d.nx ωx) (hy : Root d.ny ωy) (hz : Root d.nz ωz) (s : Idx) (x : Idx → C) (k : Idx) :
    dft3 d (fun m => ωx ^ m) (fun m => ωy ^ m) (fun m => ωz ^ m) (fun i => x (rollIdx d s i)) k
      = phase3 d ωx ωy ωz s k * dft3 d (fun m => ωx ^ m) (fun m => ωy ^ m) (fun m => ωz ^ m) x k := by
  obtain ⟨a, b, c⟩ := k
  obtain ⟨sa, sb, sc⟩ := s
  simp only [dft3, alongZ, alongY, alongX, rollIdx, phase3]
  have e1 : ∀ b' c' : Int, dft1 d.nx (fun m => ωx ^ m) (fun a' => x (roll1 d.nx sa a', roll1 d.ny sb b', roll1 d.nz sc c')) a
      = phase1 d.nx ωx sa a * dft1 d.nx (fun m => ωx ^ m) (fun a' => x (a', roll1 d.ny sb b', roll1 d.nz sc c')) a :=
    fun b' c' => dft1_roll hx sa (fun u => x (u, roll1 d.ny sb b', roll1 d.nz sc c')) a
  simp only [e1, dft1_mul_left]
  have e2 : ∀ c' : Int, dft1 d.ny (fun m => ωy ^ m)
        (fun b' => dft1 d.nx (fun m => ωx ^ m) (fun a' => x (a', roll1 d.ny sb b', roll1 d.nz sc c')) a) b
      = phase1 d.ny ωy sb b * dft1 d.ny (fun m => ωy ^ m)
        (fun b' => dft1 d.nx (fun m => ωx ^ m) (fun a' => x (a', b', roll1 d.nz sc c')) a) b :=
    fun c' => dft1_roll hy sb (fun v => dft1 d.nx (fun m => ωx ^ m) (fun a' => x (a', v, roll1 d.nz sc c')) a) b
  simp only [e2, dft1_mul_left]
  rw [dft1_roll hz sc (fun w => dft1 d.ny (fun m => ωy ^ m) (fun b' => dft1 d.nx (fun m => ωx ^ m) (fun a' => x (a', b', w)) a) b) c]
  ring

/-- **conjugation theorem (3-D)** -/
theorem dft3_conj (conj : C →+* C) (hx : Root d.nx ωx) (hy : Root d.ny ωy) (hz : Root d.nz ωz)
    (cx : conj ωx = ωx⁻¹) (cy : conj ωy = ωy⁻¹) (cz : conj ωz = ωz⁻¹) (x : Idx → C) (k : Idx) :
    dft3 d (fun m => ωx ^ m) (fun m => ωy ^ m) (fun m => ωz ^ m) (fun i => conj (x i)) (negBoxIdx d k)
      = conj (dft3 d (fun m => ωx ^ m) (fun m => ωy ^ m) (fun m => ωz ^ m) x k) := by
  obtain ⟨a, b, c⟩ := k
  simp only [dft3, alongZ, alongY, alongX, negBoxIdx]
  have e1 : ∀ b' c' : Int, dft1 d.nx (fun m => ωx ^ m) (fun a' => conj (x (a', b', c'))) (negBox1 d.nx a)
      = conj (dft1 d.nx (fun m => ωx ^ m) (fun a' => x (a', b', c')) a) :=
    fun b' c' => dft1_conj conj hx cx (fun u => x (u, b', c')) a
  simp only [e1]
  have e2 : ∀ c' : Int, dft1 d.ny (fun m => ωy ^ m)
        (fun b' => conj (dft1 d.nx (fun m => ωx ^ m) (fun a' => x (a', b', c')) a)) (negBox1 d.ny b)
      = conj (dft1 d.ny (fun m => ωy ^ m) (fun b' => dft1 d.nx (fun m => ωx ^ m) (fun a' => x (a', b', c')) a) b) :=
    fun c' => dft1_conj conj hy cy (fun v => dft1 d.nx (fun m => ωx ^ m) (fun a' => x (a', v, c')) a) b
  simp only [e2]
  exact dft1_conj conj hz cz (fun w => dft1 d.ny (fun m => ωy ^ m) (fun b' => dft1 d.nx (fun m => ωx ^ m) (fun a' => x (a', b', w)) a) b) c

/-- **Hermitian symmetry (3-D)**: the spectrum of a `conj`-fixed (real) volume -/
theorem dft3_hermitian (conj : C →+* C) (hx : Root d.nx ωx) (hy : Root d.ny ωy) (hz : Root d.nz ωz)
    (cx : conj ωx = ωx⁻¹) (cy : conj ωy = ωy⁻¹) (cz : conj ωz = ωz⁻¹) (x : Idx → C) (hreal : ∀ i, conj (x i) = x i) (k : Idx) :
    dft3 d (fun m => ωx ^ m) (fun m => ωy ^ m) (fun m => ωz ^ m) x (negBoxIdx d k)
      = conj (dft3 d (fun m => ωx ^ m) (fun m => ωy ^ m) (fun m => ωz ^ m) x k) := by
  rw [← dft3_conj conj hx hy hz cx cy cz x k]
  congr 1
  funext i
  rw [hreal]

end three

theorem negBoxIdx_invol (d : Dims) (k : Idx) : negBoxIdx d (negBoxIdx d k) = k := by
  obtain ⟨a, b, c⟩ := k
  simp only [negBoxIdx, negBox1_invol]

theorem rollIdx_rollIdx_neg (d : Dims) (s i : Idx) : rollIdx d (-s.1, -s.2.1, -s.2.2) (rollIdx d s i) = i := by
  obtain ⟨a, b, c⟩ := i
  simp only [rollIdx, roll1_roll1_neg]

/-! ### consequences for any inverse of the transform -/
section inverse
variable {C : Type} {F Finv : (Idx → C) → (Idx → C)}

/-- conjugation theorem for the inverse: from the forward one, two-sided inversion and `ν ∘ ν = id` -/
theorem inv_conj_of_fwd (left_inv : ∀ x, Finv (F x) = x) (right_inv : ∀ y, F (Finv y) = y)
    (conj : C → C) (ν : Idx → Idx) (hν : ∀ k, ν (ν k) = k)
    (hF : ∀ (x : Idx → C) k, F (fun i => conj (x i)) (ν k) = conj (F x k)) (y : Idx → C) :
    Finv (fun k => conj (y (ν k))) = fun i => conj (Finv y i) := by
  have h : F (fun i => conj (Finv y i)) = fun k => conj (y (ν k)) := by
    funext k
    have := hF (Finv y) (ν k)
    rwa [hν, right_inv] at this
  rw [← h, left_inv]

end inverse
end CryoCat.C12
