import CryoCat.Model.C18
import CryoCat.Lemmas.M3
import Mathlib.Tactic.Ring
import Mathlib.Tactic.LinearCombination
import Mathlib.Order.Defs.LinearOrder
import Mathlib.Data.List.Forall2
/-! C18 — helper lemmas: matrix algebra of the rigid motion (any commutative ring) and list lemmas
for the nearest-neighbour selection. -/
namespace CryoCat.C18
variable {α : Type}

section algebra
variable [CommRing α]

/-- the (cos, sin) pair lies on the unit circle -/
def Ang.Unit (a : Ang α) : Prop := a.c * a.c + a.s * a.s = 1

/-- all three Euler angles of the particle are genuine angles -/
def Pt.WF (p : Pt α) : Prop := p.phi.Unit ∧ p.theta.Unit ∧ p.psi.Unit

theorem neg_unit {c s : α} (h : c * c + s * s = 1) : c * c + (-s) * (-s) = 1 := by
  rw [neg_mul_neg]; exact h

/-- the code's `-[psi, theta, phi]` rotation is the transpose of the orientation — for any numbers -/
theorem rotInv_eq_transpose (p : Pt α) : rotInv p = (rot p).transpose := by
  unfold rotInv rot zxz
  rw [M3.transpose_mul, M3.transpose_mul, rz_transpose, rx_transpose, rz_transpose, M3.mul_assoc']

theorem rotInv_mul_rot' (p : Pt α) (h : p.WF) : rotInv p * rot p = M3.one :=
  zxz_inv _ _ _ _ _ _ h.1 h.2.1 h.2.2

theorem rot_mul_rotInv' (p : Pt α) (h : p.WF) : rot p * rotInv p = M3.one := by
  have := zxz_inv p.psi.c (-p.psi.s) p.theta.c (-p.theta.s) p.phi.c (-p.phi.s)
    (neg_unit h.2.2) (neg_unit h.2.1) (neg_unit h.1)
  simp only [neg_neg] at this
  exact this

theorem rot_orth' (p : Pt α) (h : p.WF) : (rot p).Orth := zxz_orth _ _ _ _ _ _ h.1 h.2.1 h.2.2

theorem rotInv_orth' (p : Pt α) (h : p.WF) : (rotInv p).Orth :=
  zxz_orth _ _ _ _ _ _ (neg_unit h.2.2) (neg_unit h.2.1) (neg_unit h.1)

theorem apply_smul (m : M3 α) (k : α) (v : V3 α) : m.apply (V3.smul k v) = V3.smul k (m.apply v) := by
  ext <;> simp [M3.apply, V3.smul] <;> ring

theorem add_sub_add (u v t : V3 α) : (u + t) - (v + t) = u - v := by
  ext <;> simp [V3.add_def, V3.sub_def, V3.add, V3.sub]

theorem smul_add (k : α) (u v : V3 α) : V3.smul k (u + v) = V3.smul k u + V3.smul k v := by
  ext <;> simp [V3.add_def, V3.add, V3.smul] <;> ring

theorem smul_sub_smul (k : α) (u v : V3 α) : V3.smul k u - V3.smul k v = V3.smul k (u - v) := by
  ext <;> simp [V3.sub_def, V3.sub, V3.smul] <;> ring

theorem normSq_smul (k : α) (u : V3 α) : V3.normSq (V3.smul k u) = k * k * V3.normSq u := by
  simp [V3.normSq, V3.dot, V3.smul]; ring

theorem d2_self (q : Pt α) : d2 q q = 0 := by
  simp [d2, V3.normSq, V3.dot, V3.sub_def, V3.sub]

/-! ### rigid motion of one particle -/

/-- `p'` is `p` moved rigidly by `(Q, t)`: same identifiers, complete position `Q·pos + t`, orientation
`Q·R` (whatever Euler angles now describe it), and the angle pairs of both are genuine angles -/
structure Moved (Q : M3 α) (t : V3 α) (p p' : Pt α) : Prop where
  tomo : p'.tomo = p.tomo
  sub : p'.sub = p.sub
  pos : pos p' = Q.apply (pos p) + t
  rot : rot p' = Q * rot p
  wf : p.WF
  wf' : p'.WF

variable {Q : M3 α} {t : V3 α} {q q' n n' : Pt α}

theorem Moved.diff (hq : Moved Q t q q') (hn : Moved Q t n n') :
    C18.pos n' - C18.pos q' = Q.apply (C18.pos n - C18.pos q) := by
  rw [hq.pos, hn.pos, add_sub_add, M3.apply_sub]

theorem Moved.d2_eq (hQ : Q.Orth) (hq : Moved Q t q q') (hn : Moved Q t n n') : d2 q' n' = d2 q n := by
  unfold d2
  rw [hq.diff hn, hQ.normSq_apply]

theorem Moved.rotInv_eq (hQ : Q.Orth) (hq : Moved Q t q q') : rotInv q' = rotInv q * Q.transpose := by
  have h1 : rotInv q * Q.transpose * C18.rot q' = M3.one := by
    rw [hq.rot, M3.mul_assoc', ← M3.mul_assoc' Q.transpose, hQ, M3.one_mul', rotInv_mul_rot' q hq.wf]
  calc rotInv q' = M3.one * rotInv q' := (M3.one_mul' _).symm
    _ = (rotInv q * Q.transpose * C18.rot q') * rotInv q' := by rw [h1]
    _ = rotInv q * Q.transpose * (C18.rot q' * rotInv q') := M3.mul_assoc' _ _ _
    _ = rotInv q * Q.transpose := by rw [rot_mul_rotInv' q' hq.wf', M3.mul_one']

theorem Moved.offset_eq (px : α) (hq : Moved Q t q q') (hn : Moved Q t n n') :
    V3.smul px (C18.pos n') - V3.smul px (C18.pos q') = Q.apply (V3.smul px (C18.pos n) - V3.smul px (C18.pos q)) := by
  rw [smul_sub_smul, smul_sub_smul, hq.diff hn, apply_smul]

theorem Moved.frame_eq (hQ : Q.Orth) (hq : Moved Q t q q') (v : V3 α) :
    (rotInv q').apply (Q.apply v) = (rotInv q).apply v := by
  rw [hq.rotInv_eq hQ, M3.apply_mul, ← M3.apply_mul Q.transpose Q, hQ, M3.apply_one]

theorem Moved.rel_eq (hQ : Q.Orth) (hq : Moved Q t q q') (hn : Moved Q t n n') :
    rotInv q' * C18.rot n' = rotInv q * C18.rot n := by
  rw [hq.rotInv_eq hQ, hn.rot, M3.mul_assoc', ← M3.mul_assoc' Q.transpose, hQ, M3.one_mul']

/-- what the rigid motion does to a table row: only the tomogram-frame offset co-rotates -/
def Row.turn (Q : M3 α) (r : Row α) : Row α := { r with offset := Q.apply r.offset }

theorem mkRow_moved (S : Num α) (px : α) (tm : Int) (i j : Nat) (hQ : Q.Orth)
    (hq : Moved Q t q q') (hn : Moved Q t n n') :
    mkRow S px tm i q' j n' = (mkRow S px tm i q j n).turn Q := by
  unfold mkRow Row.turn
  simp only [hq.sub, hn.sub, hq.d2_eq hQ hn, hq.offset_eq px hn, hq.frame_eq hQ, hq.rel_eq hQ hn]

end algebra
/-! ### k nearest neighbours -/
section knn
variable [LinearOrder α]

/-- what "the k closest, in ascending order" means for a list `out` of candidate indices `< n` with sort
key `key` (the squared distance to the query): `min k n` distinct valid indices, ascending in the key,
and nothing that is left out is closer than something reported -/
structure KnnSpec (k n : Nat) (key : Nat → α) (out : List Nat) : Prop where
  len : out.length = min k n
  nodup : out.Nodup
  bound : ∀ j ∈ out, j < n
  sorted : out.Pairwise (fun i j => key i ≤ key j)
  closest : ∀ j, j < n → j ∉ out → ∀ i ∈ out, key i ≤ key j

theorem knnIdx_spec' (k n : Nat) (key : Nat → α) : KnnSpec k n key (knnIdx k n key) := by
  unfold knnIdx
  generalize hs : (List.range n).mergeSort (fun i j => decide (key i ≤ key j)) = s
  have hperm : s.Perm (List.range n) := hs ▸ List.mergeSort_perm _ _
  have hsorted : s.Pairwise (fun i j => key i ≤ key j) := by
    have := List.pairwise_mergeSort (le := fun i j => decide (key i ≤ key j))
      (fun a b c hab hbc => by
        simp only [decide_eq_true_eq] at *
        exact le_trans hab hbc)
      (fun a b => by
        simp only [Bool.or_eq_true, decide_eq_true_eq]
        exact le_total _ _) (List.range n)
    rw [hs] at this
    exact this.imp (fun h => by simpa using h)
  have hmem : ∀ j, j ∈ s ↔ j < n := fun j => by rw [hperm.mem_iff, List.mem_range]
  refine ⟨?_, ?_, ?_, ?_, ?_⟩
  · rw [List.length_take, hperm.length_eq, List.length_range]
  · exact (hperm.nodup_iff.2 List.nodup_range).sublist (List.take_sublist _ _)
  · intro j hj
    exact (hmem j).1 (List.mem_of_mem_take hj)
  · exact hsorted.sublist (List.take_sublist _ _)
  · intro j hj hnot i hi
    have hsplit : s = s.take k ++ s.drop k := (List.take_append_drop k s).symm
    have hj' : j ∈ s.drop k := by
      have : j ∈ s.take k ++ s.drop k := hsplit ▸ (hmem j).2 hj
      rcases List.mem_append.1 this with h | h
      · exact absurd h hnot
      · exact h
    rw [hsplit, List.pairwise_append] at hsorted
    exact hsorted.2.2 i hi j hj'

theorem checkKnn_sound' (k n : Nat) (key : Nat → α) (out : List Nat)
    (h : checkKnn k n key out = true) : KnnSpec k n key out := by
  simp only [checkKnn, Bool.and_eq_true, beq_iff_eq, List.all_eq_true, decide_eq_true_eq, Bool.or_eq_true,
    List.contains_iff_mem, List.mem_range] at h
  obtain ⟨⟨⟨⟨h1, h2⟩, h3⟩, h4⟩, h5⟩ := h
  refine ⟨h1, h3, h2, h4, ?_⟩
  intro j hj hnot i hi
  rcases h5 j hj with h | h
  · exact absurd h hnot
  · exact h i hi

theorem checkKnn_complete' (k n : Nat) (key : Nat → α) (out : List Nat)
    (h : KnnSpec k n key out) : checkKnn k n key out = true := by
  simp only [checkKnn, Bool.and_eq_true, beq_iff_eq, List.all_eq_true, decide_eq_true_eq, Bool.or_eq_true,
    List.contains_iff_mem, List.mem_range]
  refine ⟨⟨⟨⟨h.len, h.bound⟩, h.nodup⟩, h.sorted⟩, ?_⟩
  intro j hj
  by_cases hm : j ∈ out
  · exact Or.inl hm
  · exact Or.inr (h.closest j hj hm)

/-- no two candidates are equally far from the query -/
def NoTies (n : Nat) (key : Nat → α) : Prop := ∀ i j, i < n → j < n → key i = key j → i = j

theorem KnnSpec.subset {k n : Nat} {key : Nat → α} {l₁ l₂ : List Nat} (hinj : NoTies n key)
    (h₁ : KnnSpec k n key l₁) (h₂ : KnnSpec k n key l₂) : l₁ ⊆ l₂ := by
  intro x hx
  by_contra hx2
  have hsub : l₂ ⊆ l₁.erase x := by
    intro y hy
    have hyx : y ≠ x := fun e => hx2 (e ▸ hy)
    refine (List.mem_erase_of_ne hyx).2 ?_
    by_contra hy1
    have a := h₁.closest y (h₂.bound y hy) hy1 x hx
    have b := h₂.closest x (h₁.bound x hx) hx2 y hy
    exact hyx (hinj y x (h₂.bound y hy) (h₁.bound x hx) (le_antisymm b a))
  have hlen := h₂.nodup.length_le_of_subset hsub
  rw [List.length_erase_of_mem hx, h₁.len, h₂.len] at hlen
  have hpos : 0 < min k n := by
    rw [← h₁.len]; exact List.length_pos_of_mem hx
  omega

/-- without ties the specification determines the answer: any list meeting `KnnSpec` is the model's -/
theorem knn_unique' {k n : Nat} {key : Nat → α} {l₁ l₂ : List Nat} (hinj : NoTies n key)
    (h₁ : KnnSpec k n key l₁) (h₂ : KnnSpec k n key l₂) : l₁ = l₂ := by
  have hperm : l₁.Perm l₂ := (List.perm_ext_iff_of_nodup h₁.nodup h₂.nodup).2
    (fun a => ⟨fun h => h₁.subset hinj h₂ h, fun h => h₂.subset hinj h₁ h⟩)
  refine List.Perm.eq_of_pairwise (le := fun i j => key i ≤ key j) ?_ h₁.sorted h₂.sorted hperm
  intro a b ha hb hab hba
  exact hinj a b (h₁.bound a ha) (h₂.bound b hb) (le_antisymm hab hba)

end knn

/-! ### common tomograms -/

theorem mem_insU (x t : Int) (l : List Int) : x ∈ insU t l ↔ x = t ∨ x ∈ l := by
  induction l with
  | nil => simp [insU]
  | cons h r ih =>
    unfold insU
    split
    · simp
    · split
      · rename_i h2; subst h2; simp
      · simp only [List.mem_cons, ih]
        constructor
        · rintro (h | h | h)
          · exact Or.inr (Or.inl h)
          · exact Or.inl h
          · exact Or.inr (Or.inr h)
        · rintro (h | h | h)
          · exact Or.inr (Or.inl h)
          · exact Or.inl h
          · exact Or.inr (Or.inr h)

theorem pairwise_insU (t : Int) (l : List Int) (h : l.Pairwise (· < ·)) : (insU t l).Pairwise (· < ·) := by
  induction l with
  | nil => simp [insU]
  | cons a r ih =>
    rw [List.pairwise_cons] at h
    unfold insU
    split
    · rename_i hlt
      refine List.pairwise_cons.2 ⟨?_, List.pairwise_cons.2 h⟩
      intro x hx
      rcases List.mem_cons.1 hx with e | e
      · exact e ▸ hlt
      · exact Int.lt_trans hlt (h.1 x e)
    · split
      · exact List.pairwise_cons.2 h
      · rename_i h1 h2
        refine List.pairwise_cons.2 ⟨?_, ih h.2⟩
        intro x hx
        rcases (mem_insU x t r).1 hx with e | e
        · subst e; omega
        · exact h.1 x e

theorem mem_foldr_insU (x : Int) (l : List Int) : x ∈ l.foldr insU [] ↔ x ∈ l := by
  induction l with
  | nil => simp
  | cons a r ih => simp [List.foldr_cons, mem_insU, ih]

theorem pairwise_foldr_insU (l : List Int) : (l.foldr insU []).Pairwise (· < ·) := by
  induction l with
  | nil => simp
  | cons a r ih => exact pairwise_insU a _ ih

theorem mem_features' (t : Int) (ta tn : List Int) : t ∈ features ta tn ↔ t ∈ ta ∧ t ∈ tn := by
  unfold features
  rw [mem_foldr_insU]
  simp [List.mem_filter]

/-! ### relational lifting over lists -/
section lift
variable {β γ : Type} {R : β → β → Prop}

theorem forall₂_map_eq {l l' : List β} (h : List.Forall₂ R l l') (f f' : β → γ)
    (hf : ∀ x x', R x x' → f' x' = f x) : l'.map f' = l.map f := by
  induction h with
  | nil => rfl
  | cons hx _ ih => simp [hf _ _ hx, ih]

theorem forall₂_filter {l l' : List β} (h : List.Forall₂ R l l') (p p' : β → Bool)
    (hp : ∀ x x', R x x' → p' x' = p x) : List.Forall₂ R (l.filter p) (l'.filter p') := by
  induction h with
  | nil => exact List.Forall₂.nil
  | cons hx _ ih =>
    rw [List.filter_cons, List.filter_cons, hp _ _ hx]
    split
    · exact List.Forall₂.cons hx ih
    · exact ih

theorem forall₂_getD {l l' : List β} (h : List.Forall₂ R l l') (j : Nat) (d d' : β) (hd : R d d') :
    R (l.getD j d) (l'.getD j d') := by
  induction h generalizing j with
  | nil => simpa using hd
  | cons hx _ ih =>
    cases j with
    | zero => simpa using hx
    | succ j => simpa using ih j

end lift

/-! ### the table under a rigid motion -/
section table
variable [CommRing α] [LinearOrder α] {Q : M3 α} {t : V3 α}

omit [LinearOrder α] in
theorem subset_moved {l l' : List (Pt α)} (h : List.Forall₂ (Moved Q t) l l') (tm : Int) :
    List.Forall₂ (Moved Q t) (subset tm l) (subset tm l') :=
  forall₂_filter h _ _ (fun x x' hx => by rw [hx.tomo])

omit [LinearOrder α] in
theorem keyOf_moved {q q' : Pt α} {cn cn' : List (Pt α)} (hQ : Q.Orth) (hq : Moved Q t q q')
    (hc : List.Forall₂ (Moved Q t) cn cn') : keyOf q' cn' = keyOf q cn := by
  funext j
  unfold keyOf
  exact hq.d2_eq hQ (forall₂_getD hc j q q' hq)

theorem neighbours_moved {q q' : Pt α} {cn cn' : List (Pt α)} (k : Nat) (hQ : Q.Orth) (hq : Moved Q t q q')
    (hc : List.Forall₂ (Moved Q t) cn cn') : neighbours k q' cn' = neighbours k q cn := by
  unfold neighbours
  rw [keyOf_moved hQ hq hc, hc.length_eq]

theorem tomoRows_moved (S : Num α) (px : α) (k : Nat) {a a' nn nn' : List (Pt α)} (hQ : Q.Orth)
    (ha : List.Forall₂ (Moved Q t) a a') (hn : List.Forall₂ (Moved Q t) nn nn') (tm : Int) :
    tomoRows S px k a' nn' tm = (tomoRows S px k a nn tm).map (Row.turn Q) := by
  have hqa := subset_moved ha tm
  have hcn := subset_moved hn tm
  unfold tomoRows
  simp only [List.map_flatMap, List.map_map, hcn.length_eq]
  congr 1
  funext i
  refine forall₂_map_eq hqa _ _ ?_
  intro q q' hq
  simp only [Function.comp]
  rw [neighbours_moved k hQ hq hcn]
  exact mkRow_moved S px tm i _ hQ hq (forall₂_getD hcn _ q q' hq)

theorem nnStats_moved (S : Num α) (px : α) (k : Nat) {a a' nn nn' : List (Pt α)} (hQ : Q.Orth)
    (ha : List.Forall₂ (Moved Q t) a a') (hn : List.Forall₂ (Moved Q t) nn nn') :
    nnStats S px k a' nn' = (nnStats S px k a nn).map (Row.turn Q) := by
  unfold nnStats
  rw [forall₂_map_eq ha (fun p => p.tomo) (fun p => p.tomo) (fun _ _ h => h.tomo),
    forall₂_map_eq hn (fun p => p.tomo) (fun p => p.tomo) (fun _ _ h => h.tomo), List.map_flatMap]
  congr 1
  funext tm
  exact tomoRows_moved S px k hQ ha hn tm

end table

/-! ### what the rows of the table are -/
section rows
variable [CommRing α] [LinearOrder α]

/-- row `r` is the report about query `q` and neighbour `n`, as the property words it -/
structure RowOf (S : Num α) (px : α) (k : Nat) (a nn : List (Pt α)) (r : Row α) (q n : Pt α) : Prop where
  q_mem : q ∈ a
  n_mem : n ∈ nn
  q_tomo : q.tomo = r.tomo
  n_tomo : n.tomo = r.tomo
  knn : KnnSpec k (subset r.tomo nn).length (keyOf q (subset r.tomo nn)) (neighbours k q (subset r.tomo nn))
  rank_lt : r.rank < min k (subset r.tomo nn).length
  idx : (neighbours k q (subset r.tomo nn))[r.rank]? = some r.nnIdx
  nb : (subset r.tomo nn)[r.nnIdx]? = some n
  sub : r.sub = q.sub
  subNn : r.subNn = n.sub
  d2 : r.d2 = V3.normSq (pos n - pos q)
  dist : r.dist = S.sqrt (V3.normSq (pos n - pos q)) * px
  offset : r.offset = V3.smul px (pos n - pos q)
  frame : r.frame = (rot q).transpose.apply r.offset
  rel : r.rel = (rot q).transpose * rot n
  ang : r.ang = S.ang (trace r.rel) (skewSq r.rel)

omit [CommRing α] [LinearOrder α] in
theorem getElem?_getD_of_lt {β : Type} {l : List β} {i : Nat} (h : i < l.length) (d : β) :
    l[i]? = some (l.getD i d) := by
  simp [List.getD_eq_getElem?_getD, List.getElem?_eq_getElem h]

omit [CommRing α] [LinearOrder α] in
theorem mem_subset (tm : Int) (l : List (Pt α)) (p : Pt α) : p ∈ subset tm l ↔ p ∈ l ∧ p.tomo = tm := by
  simp [subset, List.mem_filter]

theorem mem_tomoRows (S : Num α) (px : α) (k : Nat) (a nn : List (Pt α)) (tm : Int) (r : Row α) :
    r ∈ tomoRows S px k a nn tm ↔ ∃ i, i < min k (subset tm nn).length ∧ ∃ q ∈ subset tm a,
      r = mkRow S px tm i q ((neighbours k q (subset tm nn)).getD i 0)
            ((subset tm nn).getD ((neighbours k q (subset tm nn)).getD i 0) q) := by
  simp only [tomoRows, List.mem_flatMap, List.mem_map, List.mem_range, List.map_map, Function.comp]
  constructor
  · rintro ⟨i, hi, q, hq, rfl⟩
    exact ⟨i, hi, q, hq, rfl⟩
  · rintro ⟨i, hi, q, hq, rfl⟩
    exact ⟨i, hi, q, hq, rfl⟩

theorem mem_nnStats (S : Num α) (px : α) (k : Nat) (a nn : List (Pt α)) (r : Row α) :
    r ∈ nnStats S px k a nn ↔ ∃ tm, (∃ p ∈ a, p.tomo = tm) ∧ (∃ p ∈ nn, p.tomo = tm) ∧ r ∈ tomoRows S px k a nn tm := by
  simp only [nnStats, List.mem_flatMap, mem_features', List.mem_map]
  constructor
  · rintro ⟨tm, ⟨h1, h2⟩, h3⟩; exact ⟨tm, h1, h2, h3⟩
  · rintro ⟨tm, h1, h2, h3⟩; exact ⟨tm, ⟨h1, h2⟩, h3⟩

theorem rowOf_mkRow (S : Num α) (px : α) (k : Nat) (a nn : List (Pt α)) (tm : Int) (i : Nat) (q : Pt α)
    (hq : q ∈ subset tm a) (hi : i < min k (subset tm nn).length) :
    RowOf S px k a nn
      (mkRow S px tm i q ((neighbours k q (subset tm nn)).getD i 0)
            ((subset tm nn).getD ((neighbours k q (subset tm nn)).getD i 0) q))
      q ((subset tm nn).getD ((neighbours k q (subset tm nn)).getD i 0) q) := by
  have spec : KnnSpec k (subset tm nn).length (keyOf q (subset tm nn)) (neighbours k q (subset tm nn)) :=
    knnIdx_spec' _ _ _
  have hsub : ∀ p, p ∈ subset tm nn → p ∈ nn ∧ p.tomo = tm := fun p => (mem_subset tm nn p).1
  have hq' := (mem_subset tm a q).1 hq
  have hj : (neighbours k q (subset tm nn))[i]? = some ((neighbours k q (subset tm nn)).getD i 0) :=
    getElem?_getD_of_lt (by rw [spec.len]; exact hi) 0
  have hn : (subset tm nn)[(neighbours k q (subset tm nn)).getD i 0]?
      = some ((subset tm nn).getD ((neighbours k q (subset tm nn)).getD i 0) q) :=
    getElem?_getD_of_lt (spec.bound _ (List.mem_of_getElem? hj)) q
  have hnm := hsub _ (List.mem_of_getElem? hn)
  exact
    { q_mem := hq'.1, n_mem := hnm.1, q_tomo := hq'.2, n_tomo := hnm.2,
      knn := spec, rank_lt := hi, idx := hj, nb := hn,
      sub := rfl, subNn := rfl, d2 := rfl, dist := rfl,
      offset := smul_sub_smul _ _ _,
      frame := by simp only [mkRow, rotInv_eq_transpose],
      rel := by simp only [mkRow, rotInv_eq_transpose],
      ang := rfl }

end rows

/-! ### any correct neighbour search gives the model's table (no ties); tables of lists without a common tomogram -/
section anytree
variable [CommRing α] [LinearOrder α]

/-- `nb` answers every query of a common tomogram with a list meeting `KnnSpec`, and no query has two candidates at
the same distance -/
def CorrectSearch (nb : Pt α → List (Pt α) → List Nat) (k : Nat) (a nn : List (Pt α)) : Prop :=
  ∀ tm, ∀ q ∈ subset tm a,
    KnnSpec k (subset tm nn).length (keyOf q (subset tm nn)) (nb q (subset tm nn)) ∧
    NoTies (subset tm nn).length (keyOf q (subset tm nn))

omit [CommRing α] [LinearOrder α] in
theorem tomoRows_eq_with (S : Num α) [Add α] [Sub α] [Mul α] [Neg α] [OfNat α 0] [OfNat α 1] [LE α] [DecidableLE α]
    (px : α) (k : Nat) (a nn : List (Pt α)) (tm : Int) :
    tomoRows S px k a nn tm = tomoRowsWith (neighbours k) S px k a nn tm := rfl

theorem tomoRowsWith_eq (nb : Pt α → List (Pt α) → List Nat) (S : Num α) (px : α) (k : Nat) (a nn : List (Pt α))
    (h : CorrectSearch nb k a nn) (tm : Int) :
    tomoRowsWith nb S px k a nn tm = tomoRows S px k a nn tm := by
  unfold tomoRowsWith tomoRows
  simp only [List.map_map]
  congr 1
  funext i
  refine List.map_congr_left ?_
  intro q hq
  have := h tm q hq
  simp only [Function.comp]
  rw [knn_unique' this.2 this.1 (knnIdx_spec' k _ _)]
  rfl

theorem nnStatsWith_eq' (nb : Pt α → List (Pt α) → List Nat) (S : Num α) (px : α) (k : Nat) (a nn : List (Pt α))
    (h : CorrectSearch nb k a nn) : nnStatsWith nb S px k a nn = nnStats S px k a nn := by
  unfold nnStatsWith nnStats
  congr 1
  funext tm
  exact tomoRowsWith_eq nb S px k a nn h tm

omit [CommRing α] [LinearOrder α] in
theorem features_nil_of_disjoint (ta tn : List Int) (h : ∀ t ∈ ta, t ∉ tn) : features ta tn = [] := by
  unfold features
  have : ta.filter (fun t => tn.contains t) = [] := by
    rw [List.filter_eq_nil_iff]
    intro t ht
    simpa using h t ht
  rw [this]
  rfl

omit [CommRing α] [LinearOrder α] in
theorem motlSubset_single (t : Int) (l : List (Pt α)) : motlSubset [t] l = subset t l := by
  simp [motlSubset, subset]

omit [CommRing α] [LinearOrder α] in
theorem mem_motlSubset (vals : List Int) (l : List (Pt α)) (p : Pt α) :
    p ∈ motlSubset vals l ↔ p ∈ l ∧ p.tomo ∈ vals := by
  simp only [motlSubset, List.mem_flatMap, List.mem_filter, beq_iff_eq]
  constructor
  · rintro ⟨v, hv, hp, e⟩; exact ⟨hp, e ▸ hv⟩
  · rintro ⟨hp, hv⟩; exact ⟨p.tomo, hv, hp, rfl⟩

end anytree

end CryoCat.C18
