import CryoCat.Lemmas.C12
/-! C12 — the arrays the driver computes hold the values of the pure functions; the model's Gaussian
kernel is a valid kernel. -/
namespace CryoCat.C12

theorem get_tabulate {α : Type} [OfNat α 0] (d : Dims) (f : Vol α) (x y z : Int) (hb : InBox d x y z) :
    (tabulate d f).get x y z = f x y z := by
  obtain ⟨⟨hx0, hx1⟩, ⟨hy0, hy1⟩, ⟨hz0, hz1⟩⟩ := hb
  have ex : ((x.toNat : Nat) : Int) = x := Int.toNat_of_nonneg hx0
  have ey : ((y.toNat : Nat) : Int) = y := Int.toNat_of_nonneg hy0
  have ez : ((z.toNat : Nat) : Int) = z := Int.toNat_of_nonneg hz0
  have lx : x.toNat < d.nx := by omega
  have ly : y.toNat < d.ny := by omega
  have lz : z.toNat < d.nz := by omega
  have n1 : ¬ (x < 0 ∨ y < 0 ∨ z < 0) := by omega
  simp only [Grid.get, tabulate, n1, if_false, Array.getElem?_ofFn, lx, ly, lz, dif_pos, ex, ey, ez]

section
set_option linter.unusedSectionVars false
variable {α : Type} [Add α] [Mul α] [Sub α] [OfNat α 0] [OfNat α 1]

theorem clampI_inbox (n : Nat) (hn : 0 < n) (i : Int) : 0 ≤ clampI n i ∧ clampI n i < (n : Int) := by
  unfold clampI; split_ifs <;> omega

theorem wsum_congr' (ker : List (Int × α)) (g g' : Int → α) (h : ∀ q, g q = g' q) : wsum ker g = wsum ker g' := by
  have : g = g' := funext h
  rw [this]

theorem blur3Grid_get (ker : List (Int × α)) (d : Dims) (g : Grid α) (x y z : Int) (hb : InBox d x y z) :
    (blur3Grid ker d g).get x y z = blur3Fn ker d g.get x y z := by
  have px : 0 < d.nx := by have := hb.1; omega
  have py : 0 < d.ny := by have := hb.2.1; omega
  have pz : 0 < d.nz := by have := hb.2.2; omega
  unfold blur3Grid blur3Fn
  simp only []
  rw [get_tabulate d _ x y z hb]
  unfold blurZ
  apply wsum_congr'; intro qz
  rw [get_tabulate d _ _ _ _ ⟨hb.1, hb.2.1, clampI_inbox d.nz pz _⟩]
  unfold blurY
  apply wsum_congr'; intro qy
  rw [get_tabulate d _ _ _ _ ⟨hb.1, clampI_inbox d.ny py _, clampI_inbox d.nz pz _⟩]

/-- on the box, reading a blurred array = blurring the function the array holds; so the blur of a
tabulated function is the blur of the function -/
theorem blur3Fn_get_tabulate (ker : List (Int × α)) (d : Dims) (f : Vol α) (x y z : Int) (hb : InBox d x y z) :
    blur3Fn ker d (tabulate d f).get x y z = blur3Fn ker d f x y z := by
  have px : 0 < d.nx := by have := hb.1; omega
  have py : 0 < d.ny := by have := hb.2.1; omega
  have pz : 0 < d.nz := by have := hb.2.2; omega
  unfold blur3Fn blurZ blurY blurX
  apply wsum_congr'; intro qz
  apply wsum_congr'; intro qy
  apply wsum_congr'; intro qx
  exact get_tabulate d f _ _ _ ⟨clampI_inbox d.nx px _, clampI_inbox d.ny py _, clampI_inbox d.nz pz _⟩

theorem lowMaskGrid_get (ker : Option (List (Int × α))) (d : Dims) (r : Int) (x y z : Int) (hb : InBox d x y z) :
    (lowMaskGrid ker d r).get x y z = lowMaskFn ker d r x y z := by
  cases ker with
  | none => exact get_tabulate d _ x y z hb
  | some k =>
    simp only [lowMaskGrid, lowMaskFn]
    rw [blur3Grid_get k d _ x y z hb, blur3Fn_get_tabulate k d _ x y z hb]

theorem highMaskGrid_get (ker : Option (List (Int × α))) (d : Dims) (r : Int) (x y z : Int) (hb : InBox d x y z) :
    (highMaskGrid ker d r).get x y z = highMaskFn ker d r x y z := by
  simp only [highMaskGrid, highMaskFn]
  rw [get_tabulate d _ x y z hb, lowMaskGrid_get ker d r x y z hb]

theorem bandMaskGrid_get (kl kh : Option (List (Int × α))) (d : Dims) (lp hp : Int) (x y z : Int) (hb : InBox d x y z) :
    (bandMaskGrid kl kh d lp hp).get x y z = bandMaskFn kl kh d lp hp x y z := by
  simp only [bandMaskGrid, bandMaskFn]
  rw [get_tabulate d _ x y z hb, lowMaskGrid_get kl d lp x y z hb, lowMaskGrid_get kh d hp x y z hb]

theorem shift_inbox (d : Dims) (j k l : Int) (hd : 0 < d.nx ∧ 0 < d.ny ∧ 0 < d.nz) :
    InBox d (shiftIdx d.nx j) (shiftIdx d.ny k) (shiftIdx d.nz l) :=
  ⟨shiftIdx_range _ hd.1 _, shiftIdx_range _ hd.2.1 _, shiftIdx_range _ hd.2.2 _⟩

theorem neg_inbox (d : Dims) (j k l : Int) (hd : 0 < d.nx ∧ 0 < d.ny ∧ 0 < d.nz) :
    InBox d (negIdx d.nx j) (negIdx d.ny k) (negIdx d.nz l) :=
  ⟨negIdx_range _ hd.1 _, negIdx_range _ hd.2.1 _, negIdx_range _ hd.2.2 _⟩

/-- `gainGrid d m` holds `ifftshift` of what `m` holds -/
theorem gainGrid_get (d : Dims) (m : Grid α) (f : Vol α) (hm : ∀ x y z, InBox d x y z → m.get x y z = f x y z)
    (j k l : Int) (hb : InBox d j k l) : (gainGrid d m).get j k l = shiftVol d f j k l := by
  have hd : 0 < d.nx ∧ 0 < d.ny ∧ 0 < d.nz := by
    have := hb.1; have := hb.2.1; have := hb.2.2; omega
  simp only [gainGrid]
  rw [get_tabulate d _ j k l hb]
  exact hm _ _ _ (shift_inbox d j k l hd)

theorem effGrid_get [Div α] [OfNat α 2] (d : Dims) (g : Grid α) (f : Vol α) (hg : ∀ x y z, InBox d x y z → g.get x y z = f x y z)
    (j k l : Int) (hb : InBox d j k l) : (effGrid d g).get j k l = effGain d f j k l := by
  have hd : 0 < d.nx ∧ 0 < d.ny ∧ 0 < d.nz := by
    have := hb.1; have := hb.2.1; have := hb.2.2; omega
  simp only [effGrid]
  rw [get_tabulate d _ j k l hb]
  simp only [effGain]
  rw [hg _ _ _ hb, hg _ _ _ (neg_inbox d j k l hd)]
end

/-! ### the Gaussian kernel is a valid kernel, whatever positive function plays `exp` -/
section kernel
variable {K : Type} [Field K] [LinearOrder K] [IsStrictOrderedRing K]

theorem ksum_map_div (raw : List (Int × K)) (s : K) : ksum (raw.map (fun p => (p.1, p.2 / s))) = ksum raw / s := by
  induction raw with
  | nil => simp [ksum]
  | cons p ks ih => simp only [List.map_cons, ksum, ih]; ring

theorem ksum_pos (raw : List (Int × K)) (hne : raw ≠ []) (hp : ∀ p ∈ raw, 0 < p.2) : 0 < ksum raw := by
  induction raw with
  | nil => exact absurd rfl hne
  | cons p ks ih =>
    obtain ⟨q, w⟩ := p
    simp only [ksum]
    have hw : 0 < w := hp (q, w) (by simp)
    by_cases hk : ks = []
    · subst hk; simpa [ksum] using hw
    · have := ih hk (fun p h => hp p (by simp [h])); linarith

theorem mem_offsets (t : Nat) (q : Int) (h : q ∈ offsets t) : -(t : Int) ≤ q ∧ q ≤ (t : Int) := by
  simp only [offsets, List.mem_map, List.mem_range] at h
  obtain ⟨i, hi, rfl⟩ := h
  omega

theorem gaussKernel_valid (expf : K → K) (hexp : ∀ x, 0 < expf x) (ofI : Int → K) (sigma : K) (t : Nat) :
    ValidKernel t (gaussKernel expf ofI sigma t) := by
  set c : K := (-(1 / 2)) / (sigma * sigma) with hc
  set raw : List (Int × K) := (offsets t).map (fun q => (q, expf (c * (ofI q * ofI q)))) with hraw
  have hker : gaussKernel expf ofI sigma t = raw.map (fun p => (p.1, p.2 / ksum raw)) := rfl
  have hpos : ∀ p ∈ raw, 0 < p.2 := by
    intro p hp
    simp only [hraw, List.mem_map] at hp
    obtain ⟨q, _, rfl⟩ := hp
    exact hexp _
  have hne : raw ≠ [] := by
    simp [hraw, offsets]
  have hs : 0 < ksum raw := ksum_pos raw hne hpos
  refine ⟨?_, ?_, ?_⟩
  · intro p hp
    rw [hker, List.mem_map] at hp
    obtain ⟨p0, h0, rfl⟩ := hp
    exact le_of_lt (div_pos (hpos p0 h0) hs)
  · rw [hker, ksum_map_div, div_self (ne_of_gt hs)]
  · intro p hp
    rw [hker, List.mem_map] at hp
    obtain ⟨p0, h0, rfl⟩ := hp
    simp only [hraw, List.mem_map] at h0
    obtain ⟨q, hq, rfl⟩ := h0
    exact mem_offsets t q hq
end kernel
end CryoCat.C12
