import CryoCat.Lemmas.C14_Sym
import Mathlib.Algebra.BigOperators.Group.Finset.Basic
import Mathlib.Algebra.BigOperators.Field
import Mathlib.Data.Finset.Prod
import Mathlib.Data.Finset.Card
import Mathlib.Tactic.IntervalCases
/-! total density of the executable n ∈ {1,2,4} symmetrisation on a concrete box: the abstract conservation law
(`sum_total_conserved`) instantiated on the voxel set of a box, via the rotation-invariant index set `core s`
(the whole box for odd sizes; the box without its `x = 0` / `y = 0` planes for even sizes). -/
namespace CryoCat.C14
open Finset

variable {K : Type} [_root_.Field K]

/-! ### abstract: a map supported on an invariant finite set -/
section abstract
variable {X : Type} [DecidableEq X]

theorem image_eq_of_maps (σ : X → X) (I : Finset X) (hmap : ∀ x ∈ I, σ x ∈ I) (hinj : Function.Injective σ) : I.image σ = I :=
  Finset.eq_of_subset_of_card_le
    (fun y hy => by obtain ⟨x, hx, rfl⟩ := mem_image.1 hy; exact hmap x hx)
    (by rw [card_image_of_injective _ hinj])

theorem sum_comp_perm_on (σ : X → X) (I : Finset X) (hmap : ∀ x ∈ I, σ x ∈ I) (hinj : Function.Injective σ) (g : X → K) :
    ∑ x ∈ I, g (σ x) = ∑ x ∈ I, g x := by
  have himg := image_eq_of_maps σ I hmap hinj
  calc ∑ x ∈ I, g (σ x) = ∑ y ∈ I.image σ, g y := (sum_image (fun a _ b _ h => hinj h)).symm
    _ = ∑ x ∈ I, g x := by rw [himg]

theorem mem_of_image_mem (σ : X → X) (I : Finset X) (hmap : ∀ x ∈ I, σ x ∈ I) (hinj : Function.Injective σ) (x : X)
    (h : σ x ∈ I) : x ∈ I := by
  have himg := image_eq_of_maps σ I hmap hinj
  rw [← himg] at h
  obtain ⟨y, hy, e⟩ := mem_image.1 h
  rw [← hinj e]; exact hy

omit [DecidableEq X] in
theorem iterate_maps (σ : X → X) (I : Finset X) (hmap : ∀ x ∈ I, σ x ∈ I) (j : Nat) : ∀ x ∈ I, σ^[j] x ∈ I := by
  induction j with
  | zero => intro x hx; exact hx
  | succ j ih => intro x hx; rw [Function.iterate_succ_apply']; exact hmap _ (ih x hx)

/-- a map `g` that vanishes off a `σ`-invariant finite set `I ⊆ B`: every rotated copy has the same total over `B` -/
theorem sum_comp_supported (σ : X → X) (hinj : Function.Injective σ) (B I : Finset X) (hIB : I ⊆ B)
    (hmap : ∀ x ∈ I, σ x ∈ I) (g : X → K) (hg : ∀ x, x ∉ I → g x = 0) :
    ∑ x ∈ B, g (σ x) = ∑ x ∈ B, g x := by
  rw [← Finset.sum_subset hIB (fun x _ hx => hg x hx),
      ← Finset.sum_subset hIB (fun x _ hx => hg _ (fun h => hx (mem_of_image_mem σ I hmap hinj x h)))]
  exact sum_comp_perm_on σ I hmap hinj g

/-- **conservation on a finite window `B` of an infinite grid**: `σⁿ = id`, `g` supported on an invariant `I ⊆ B` -/
theorem sum_sym_total (σ : X → X) (n : Nat) (hn : (n : K) ≠ 0) (hσ : ∀ x, σ^[n] x = x) (B I : Finset X) (hIB : I ⊆ B)
    (hmap : ∀ x ∈ I, σ x ∈ I) (g : X → K) (hg : ∀ x, x ∉ I → g x = 0) :
    ∑ x ∈ B, (∑ k ∈ range n, g (σ^[k + 1] x)) / (n : K) = ∑ x ∈ B, g x := by
  have hn' : 0 < n := Nat.pos_of_ne_zero (fun h => hn (by simp [h]))
  have hb := iterate_bijective σ n hn' hσ
  rw [← Finset.sum_div, Finset.sum_comm]
  have : ∀ k ∈ range n, ∑ x ∈ B, g (σ^[k + 1] x) = ∑ x ∈ B, g x := fun k _ =>
    sum_comp_supported (σ^[k + 1]) (hb.iterate (k + 1)).injective B I hIB (iterate_maps σ I hmap (k + 1)) g hg
  rw [Finset.sum_congr rfl this, Finset.sum_const, card_range, nsmul_eq_mul, mul_div_cancel_left₀ _ hn]
end abstract

/-! ### the voxel set of a box -/

/-- all voxel indices of a box, as a finite set -/
def voxels (s : Shape) : Finset (V3 Int) :=
  ((range s.nx ×ˢ range s.ny) ×ˢ range s.nz).image fun t => (⟨(t.1.1 : Int), (t.1.2 : Int), (t.2 : Int)⟩ : V3 Int)

theorem mem_voxels (s : Shape) (p : V3 Int) : p ∈ voxels s ↔ s.inBox p = true := by
  rw [inBox_iff]
  unfold voxels
  constructor
  · intro h
    obtain ⟨⟨⟨i, j⟩, k⟩, hm, rfl⟩ := mem_image.1 h
    simp only [mem_product, mem_range] at hm
    obtain ⟨⟨hi, hj⟩, hk⟩ := hm
    simp only
    omega
  · rintro ⟨⟨hx0, hx1⟩, ⟨hy0, hy1⟩, ⟨hz0, hz1⟩⟩
    refine mem_image.2 ⟨⟨⟨p.x.toNat, p.y.toNat⟩, p.z.toNat⟩, ?_, ?_⟩
    · simp only [mem_product, mem_range]; omega
    · ext <;> (simp only; omega)

/-- the part of the box that every quarter turn about z through the centre `⌊N/2⌋` maps onto itself: for an even size
the plane `x = 0` (resp. `y = 0`) has no mirror image inside the box and is left out -/
def core (s : Shape) : Finset (V3 Int) :=
  (voxels s).filter fun p => (if s.nx % 2 = 0 then (1 : Int) else 0) ≤ p.x ∧ (if s.ny % 2 = 0 then (1 : Int) else 0) ≤ p.y

theorem mem_core (s : Shape) (p : V3 Int) :
    p ∈ core s ↔ s.inBox p = true ∧ (s.nx % 2 = 0 → 1 ≤ p.x) ∧ (s.ny % 2 = 0 → 1 ≤ p.y) := by
  unfold core
  rw [mem_filter, mem_voxels, inBox_iff]
  constructor
  · rintro ⟨hb, h1, h2⟩
    refine ⟨hb, fun h => ?_, fun h => ?_⟩
    · rw [if_pos h] at h1; exact h1
    · rw [if_pos h] at h2; exact h2
  · rintro ⟨hb, h1, h2⟩
    refine ⟨hb, ?_, ?_⟩
    · by_cases h : s.nx % 2 = 0
      · rw [if_pos h]; exact h1 h
      · rw [if_neg h]; exact hb.1.1
    · by_cases h : s.ny % 2 = 0
      · rw [if_pos h]; exact h2 h
      · rw [if_neg h]; exact hb.2.1.1

theorem core_subset (s : Shape) : core s ⊆ voxels s := filter_subset _ _

/-! ### the voxel maps of the three exact symmetries -/
theorem sigma_two (c p : V3 Int) : srcCoord (rzQuarter 2).transpose c p = ⟨2 * c.x - p.x, 2 * c.y - p.y, p.z⟩ := by
  have e : (rzQuarter 2).transpose = (⟨-1, 0, 0, 0, -1, 0, 0, 0, 1⟩ : M3 Int) := by decide
  rw [e]
  ext <;> simp [srcCoord, M3.apply, V3.add_def, V3.sub_def, V3.add, V3.sub] <;> omega

theorem sigma_one (c p : V3 Int) : srcCoord (rzQuarter 1).transpose c p = ⟨c.x + (p.y - c.y), c.y - (p.x - c.x), p.z⟩ := by
  have e : (rzQuarter 1).transpose = (⟨0, 1, 0, -1, 0, 0, 0, 0, 1⟩ : M3 Int) := by decide
  rw [e]
  ext <;> simp [srcCoord, M3.apply, V3.add_def, V3.sub_def, V3.add, V3.sub]
  omega

theorem sigma_four (c p : V3 Int) : srcCoord (rzQuarter 4).transpose c p = p := by
  rw [rzQuarter_four, srcCoord_one]

theorem n_cases (n : Nat) (hn : n * (4 / n) = 4) : n = 1 ∨ n = 2 ∨ n = 4 := by
  have h4 : n ≤ 4 := by
    by_contra h
    have : 4 / n = 0 := Nat.div_eq_of_lt (by omega)
    rw [this] at hn; omega
  interval_cases n <;> simp_all

/-- every exact symmetry maps the core of the box into itself (a 4-fold one needs a square x–y section) -/
theorem sigma_maps_core (n : Nat) (hn : n * (4 / n) = 4) (s : Shape) (hsq : n = 4 → s.nx = s.ny) :
    ∀ p ∈ core s, srcCoord (rzQuarter (4 / n)).transpose s.centre p ∈ core s := by
  intro p hp
  rw [mem_core, inBox_iff] at hp
  obtain ⟨⟨⟨hx0, hx1⟩, ⟨hy0, hy1⟩, ⟨hz0, hz1⟩⟩, hex, hey⟩ := hp
  rcases n_cases n hn with rfl | rfl | rfl
  · rw [show 4 / 1 = 4 from rfl, sigma_four]
    rw [mem_core, inBox_iff]; exact ⟨⟨⟨hx0, hx1⟩, ⟨hy0, hy1⟩, ⟨hz0, hz1⟩⟩, hex, hey⟩
  · rw [show 4 / 2 = 2 from rfl, sigma_two, mem_core, inBox_iff]
    simp only [Shape.centre]
    by_cases ex : s.nx % 2 = 0 <;> by_cases ey : s.ny % 2 = 0 <;> simp only [ex, ey, true_implies, false_implies, and_true, true_and] at hex hey ⊢ <;>
      omega
  · have hs := hsq rfl
    rw [show 4 / 4 = 1 from rfl, sigma_one, mem_core, inBox_iff]
    simp only [Shape.centre, ← hs] at *
    by_cases ex : s.nx % 2 = 0 <;> simp only [ex, true_implies, false_implies, and_true] at hex hey ⊢ <;> omega

/-- **Same total density for the executable symmetrisation (n ∈ {1, 2, 4}) on a box.** Sum over all voxels of the box;
`n = 4` needs a square x–y section; for an even size the map must vanish on the plane `x = 0` (resp. `y = 0`) — e.g. a
map with zero faces; odd sizes need nothing. -/
theorem symExact_total_aux (n : Nat) (hn : n * (4 / n) = 4) (hK : (n : K) ≠ 0) (s : Shape) (hsq : n = 4 → s.nx = s.ny)
    (f : V3 Int → K)
    (hface : ∀ p, s.inBox p = true → ((s.nx % 2 = 0 ∧ p.x = 0) ∨ (s.ny % 2 = 0 ∧ p.y = 0)) → f p = 0) :
    ∑ p ∈ voxels s, symmetrizeExact (fun m : Nat => (m : K)) n s f p = ∑ p ∈ voxels s, f p := by
  have hrot : (fun k : Nat => rotateBy (rzQuarter (k * (4 / n))) s f)
      = fun k q => (fun q => if s.inBox q = true then f q else 0) ((srcCoord (rzQuarter (4 / n)).transpose s.centre)^[k] q) := by
    funext k q
    rw [rotateBy_zeroExt, srcCoord_rz_iter]
  have hσ : ∀ x, (srcCoord (rzQuarter (4 / n)).transpose s.centre)^[n] x = x := by
    intro x
    rw [← srcCoord_rz_iter, hn, rzQuarter_four, srcCoord_one]
  have hg : ∀ x, x ∉ core s → (fun q => if s.inBox q = true then f q else 0) x = 0 := by
    intro x hx
    by_cases hb : s.inBox x = true
    · simp only [hb, if_true]
      apply hface x hb
      rw [mem_core] at hx
      have hb' := (inBox_iff s x).1 hb
      by_contra hcon
      apply hx
      refine ⟨hb, fun h => ?_, fun h => ?_⟩
      · by_contra h1; exact hcon (Or.inl ⟨h, by omega⟩)
      · by_contra h1; exact hcon (Or.inr ⟨h, by omega⟩)
    · simp only [hb]; rfl
  have key := sum_sym_total (K := K) (srcCoord (rzQuarter (4 / n)).transpose s.centre) n hK hσ (voxels s) (core s)
    (core_subset s) (sigma_maps_core n hn s hsq) (fun q => if s.inBox q = true then f q else 0) hg
  have lhs : ∀ p, symmetrizeExact (fun m : Nat => (m : K)) n s f p
      = (∑ k ∈ range n, (fun q => if s.inBox q = true then f q else 0) ((srcCoord (rzQuarter (4 / n)).transpose s.centre)^[k + 1] p)) / (n : K) := by
    intro p
    unfold symmetrizeExact
    rw [hrot]
    exact symmetrizeF_eq_sum (K := K) n (fun k q => (fun q => if s.inBox q = true then f q else 0) ((srcCoord (rzQuarter (4 / n)).transpose s.centre)^[k] q)) p
  rw [Finset.sum_congr rfl (fun p _ => lhs p), key]
  exact Finset.sum_congr rfl (fun p hp => by simp only [(mem_voxels s p).1 hp, if_true])

/-! ### `np.sum` of the model (`sumBox`, a left fold in C order) is that finite sum -/
theorem foldl_add_map_eq_sum {ι : Type} (l : List ι) (h : ι → K) (a : K) :
    (l.map h).foldl (· + ·) a = a + (l.map h).sum := by
  induction l generalizing a with
  | nil => simp
  | cons x xs ih => simp only [List.map_cons, List.foldl_cons, List.sum_cons, ih]; ring

theorem list_range_sum (h : Nat → K) (n : Nat) : ((List.range n).map h).sum = ∑ i ∈ range n, h i := by
  induction n with
  | zero => simp
  | succ n ih => rw [List.range_succ, List.map_append, List.sum_append, ih, Finset.sum_range_succ]; simp

theorem list_flatMap_sum {ι κ : Type} (l : List ι) (F : ι → List κ) (g : κ → K) :
    ((l.flatMap F).map g).sum = (l.map fun a => ((F a).map g).sum).sum := by
  induction l with
  | nil => simp
  | cons a l ih => rw [List.flatMap_cons, List.map_append, List.sum_append, ih, List.map_cons, List.sum_cons]

theorem sumBox_eq_sum (s : Shape) (g : V3 Int → K) : sumBox s g = ∑ p ∈ voxels s, g p := by
  unfold sumBox voxels
  rw [foldl_add_map_eq_sum (K := K), zero_add, sum_image]
  · rw [Finset.sum_product, Finset.sum_product]
    unfold Shape.indices
    rw [list_flatMap_sum, list_range_sum]
    refine Finset.sum_congr rfl (fun i _ => ?_)
    rw [list_flatMap_sum, list_range_sum]
    refine Finset.sum_congr rfl (fun j _ => ?_)
    rw [List.map_map, list_range_sum]
    rfl
  · rintro ⟨⟨i, j⟩, k⟩ _ ⟨⟨i', j'⟩, k'⟩ _ h
    simp only [V3.mk.injEq, Nat.cast_inj] at h
    obtain ⟨rfl, rfl, rfl⟩ := h
    rfl

end CryoCat.C14
