import CryoCat.Model.C17_Ext
/-! C17 — `parseMdocX` (the reader following the code on duplicate header keys and on every decimal / exponent TiltAngle
spelling) is a conservative extension of the strict model `parseMdoc` (core Lean only). -/
namespace CryoCat.C17

theorem toTiltX_of_toTilt (v t : Val) (h : toTilt v = some t) : toTiltX v = some t := by
  simp only [toTiltX, h]

theorem convTiltX_of_convTilt (kv : Str × Val) (c : Val) (h : convTilt kv = some c) : convTiltX kv = some c := by
  unfold convTilt at h
  unfold convTiltX
  split
  · rename_i hk; rw [if_pos hk] at h; exact toTiltX_of_toTilt _ _ h
  · rename_i hk; rw [if_neg hk] at h; exact h

theorem mapM_mono {γ δ : Type} (f g : γ → Option δ) (hfg : ∀ x y, f x = some y → g x = some y) :
    ∀ (l : List γ) (out : List δ), l.mapM f = some out → l.mapM g = some out
  | [], out, h => by simpa using h
  | x :: l, out, h => by
    rw [List.mapM_cons] at h
    rw [List.mapM_cons]
    cases hx : f x with
    | none => rw [hx] at h; simp at h
    | some y =>
      rw [hx] at h
      cases hl : l.mapM f with
      | none => rw [hl] at h; simp at h
      | some ys =>
        rw [hl] at h
        rw [hfg x y hx, mapM_mono f g hfg l ys hl]
        exact h

theorem lookup_none_of_any_false (info : List (Str × Val)) (k : Str) (h : info.any (fun e => e.1 == k) = false) :
    info.lookup k = none := by
  induction info with
  | nil => rfl
  | cons e es ih =>
    simp only [List.any_cons, Bool.or_eq_false_iff] at h
    have hne : (k == e.1) = false := by
      have := h.1
      simp only [beq_eq_false_iff_ne, ne_eq] at this ⊢
      exact fun hk => this hk.symm
    obtain ⟨a, b⟩ := e
    simp only [List.lookup, hne, ih h.2]

theorem parseHeaderX_of_parseHeader : ∀ (ls : List Str) (r : List Str × List (Str × Val)),
    parseHeader ls = some r → parseHeaderX ls = some r
  | [], r, h => by simpa [parseHeader, parseHeaderX] using h
  | l :: ls, r, h => by
    unfold parseHeader at h
    unfold parseHeaderX
    cases hr : parseHeader ls with
    | none => rw [hr] at h; simp at h
    | some p =>
      obtain ⟨ts, info⟩ := p
      rw [hr] at h
      rw [parseHeaderX_of_parseHeader ls (ts, info) hr]
      dsimp only at h ⊢
      split
      · rename_i hb; rw [if_pos hb] at h; exact h
      · rename_i hb
        rw [if_neg hb] at h
        cases hkv : parseKV l with
        | none => rw [hkv] at h; simp at h
        | some kv =>
          rw [hkv] at h
          dsimp only at h ⊢
          cases ha : info.any (fun e => e.1 == kv.1) with
          | true => rw [ha] at h; simp at h
          | false =>
            rw [ha] at h
            rw [lookup_none_of_any_false info kv.1 ha]
            simpa using h

theorem mkRowX_of_mkRow (cols : List Str) (sec : List Str) (r : Row) (h : mkRow cols sec = some r) : mkRowX cols sec = some r := by
  unfold mkRow at h
  unfold mkRowX
  cases sec with
  | nil => simp at h
  | cons hd body =>
    dsimp only at h ⊢
    cases hz : parseSecValue hd with
    | none => rw [hz] at h; simp at h
    | some z =>
      cases hb : parseBody body with
      | none => rw [hz, hb] at h; simp at h
      | some kvs =>
        rw [hz, hb] at h
        dsimp only at h ⊢
        by_cases h1 : (!allDigits z) = true
        · rw [if_pos h1] at h; simp at h
        · rw [if_neg h1] at h ⊢
          by_cases h2 : (kvs.map (·.1) != cols) = true
          · rw [if_pos h2] at h; simp at h
          · rw [if_neg h2] at h
            have h3 : (kvs.map (·.1) == cols) = true := by
              simpa [bne, Bool.not_eq_true'] using h2
            rw [if_pos h3]
            cases hm : kvs.mapM convTilt with
            | none => rw [hm] at h; simp at h
            | some cells =>
              rw [hm] at h
              rw [mapM_mono convTilt convTiltX convTiltX_of_convTilt kvs cells hm]
              exact h

/-- **conservative extension**: every text the strict model reads is read by `parseMdocX` into the same object -/
theorem parseMdocX_extends (lines : List Str) (m : Mdoc) (h : parseMdoc lines = some m) : parseMdocX lines = some m := by
  unfold parseMdoc at h
  unfold parseMdocX
  dsimp only at h ⊢
  cases hd : lines.dropWhile (fun l => (secStart l).isNone) with
  | nil => rw [hd] at h; simp at h
  | cons first rest =>
    rw [hd] at h
    dsimp only at h ⊢
    cases hs : secStart first with
    | none => rw [hs] at h; simp at h
    | some sid =>
      cases hh : parseHeader (((lines.takeWhile (fun l => (secStart l).isNone)).filter (fun l => !isBlank l)).map strip) with
      | none => rw [hs, hh] at h; simp at h
      | some p =>
        obtain ⟨titles, info⟩ := p
        rw [hs, hh] at h
        rw [parseHeaderX_of_parseHeader _ _ hh]
        dsimp only at h ⊢
        cases hsec : secGo ('[' :: sid) [] (first :: rest) with
        | nil => rw [hsec] at h; simp at h
        | cons s0 secs =>
          rw [hsec] at h
          dsimp only at h ⊢
          by_cases hc : (!(List.map colName (List.drop 1 s0)).contains Gen.C17.tiltKey) = true
          · rw [if_pos hc] at h; simp at h
          · rw [if_neg hc] at h ⊢
            cases hm : (s0 :: secs).mapM (mkRow (List.map colName (List.drop 1 s0))) with
            | none => rw [hm] at h; simp at h
            | some rows =>
              rw [hm] at h
              rw [mapM_mono _ _ (mkRowX_of_mkRow _) _ rows hm]
              exact h

end CryoCat.C17
