import CryoCat.Model.C17
import CryoCat.Model.C17_Wedge
/-! C17 — helper lemmas (core Lean only). -/
namespace CryoCat.C17

/-- `mapM` into `Option` succeeds exactly when every element maps, pointwise in order -/
theorem mapM_some_spec {α β : Type} (f : α → Option β) :
    ∀ (l : List α) (out : List β), l.mapM f = some out →
      out.length = l.length ∧ ∀ (i : Nat) (a : α), l[i]? = some a → ∃ b, out[i]? = some b ∧ f a = some b
  | [], out, h => by
    simp at h; subst h; simp
  | a :: l, out, h => by
    rw [List.mapM_cons] at h
    cases ha : f a with
    | none => simp [ha] at h
    | some b =>
      cases hl : l.mapM f with
      | none => simp [ha, hl] at h
      | some bs =>
        simp [ha, hl] at h
        subst h
        obtain ⟨hlen, hget⟩ := mapM_some_spec f l bs hl
        refine ⟨by simp [hlen], ?_⟩
        intro i x hx
        cases i with
        | zero => simp at hx; subst hx; exact ⟨b, by simp, ha⟩
        | succ i =>
          simp at hx
          obtain ⟨y, hy, hf⟩ := hget i x hx
          exact ⟨y, by simpa using hy, hf⟩

/-- element `i` of the `k`-th block of a flattened list -/
theorem getElem?_flatten_block {α : Type} :
    ∀ (ls : List (List α)) (k i : Nat) (blk : List α), ls[k]? = some blk → i < blk.length →
      ls.flatten[((ls.take k).map List.length).sum + i]? = blk[i]?
  | [], k, i, blk, h, _ => by simp at h
  | l :: ls, 0, i, blk, h, hi => by
    simp at h; subst h
    simp [List.getElem?_append_left hi]
  | l :: ls, k + 1, i, blk, h, hi => by
    simp at h
    have ih := getElem?_flatten_block ls k i blk h hi
    simp only [List.flatten_cons, List.take_succ_cons, List.map_cons, List.sum_cons]
    rw [List.getElem?_append_right (by omega)]
    have : l.length + ((ls.take k).map List.length).sum + i - l.length = ((ls.take k).map List.length).sum + i := by omega
    rw [this]; exact ih

theorem length_flatten_sum {α : Type} (ls : List (List α)) : ls.flatten.length = (ls.map List.length).sum := by
  induction ls with
  | nil => rfl
  | cons l ls ih => simp [ih]

/-- minimum by a total, transitive Boolean order: a member, below every member -/
theorem foldl_min_spec {α : Type} (le : α → α → Bool) (htr : ∀ a b c, le a b = true → le b c = true → le a c = true)
    (htot : ∀ a b, (le a b || le b a) = true) :
    ∀ (xs : List α) (x : α),
      (xs.foldl (fun m y => if le y m then y else m) x = x ∨ xs.foldl (fun m y => if le y m then y else m) x ∈ xs) ∧
      le (xs.foldl (fun m y => if le y m then y else m) x) x = true ∧
      ∀ y ∈ xs, le (xs.foldl (fun m y => if le y m then y else m) x) y = true
  | [], x => by
    have := htot x x
    simp only [Bool.or_self] at this
    simp [this]
  | y :: ys, x => by
    obtain ⟨hm, hle, hall⟩ := foldl_min_spec le htr htot ys (if le y x then y else x)
    simp only [List.foldl_cons]
    by_cases hyx : le y x = true
    · simp only [hyx, if_true] at hm hle hall ⊢
      refine ⟨?_, htr _ _ _ hle hyx, ?_⟩
      · rcases hm with h | h
        · right; rw [h]; exact List.mem_cons_self
        · right; exact List.mem_cons_of_mem _ h
      · intro z hz
        rcases List.mem_cons.1 hz with h | h
        · subst h; exact hle
        · exact hall z h
    · have hxy : le x y = true := by
        have := htot x y
        simp only [Bool.or_eq_true] at this
        rcases this with h | h
        · exact h
        · exact absurd h hyx
      have hyx' : le y x = false := by simpa using hyx
      simp only [hyx', Bool.false_eq_true, if_false] at hm hle hall ⊢
      refine ⟨?_, hle, ?_⟩
      · rcases hm with h | h
        · left; exact h
        · right; exact List.mem_cons_of_mem _ h
      · intro z hz
        rcases List.mem_cons.1 hz with h | h
        · subst h; exact htr _ _ _ hle hxy
        · exact hall z h

end CryoCat.C17
