import CryoCat.Lemmas.C03
import Mathlib.Tactic.Ring
import Mathlib.Tactic.Linarith
import Mathlib.Tactic.NormNum
import Mathlib.Tactic.LinearCombination
import Mathlib.Tactic.FieldSimp
import Mathlib.Tactic.Positivity
import Mathlib.Analysis.SpecialFunctions.Complex.Arg
/-! C03 — **an instance over ℝ of the "Euler service"** (scipy's `Rotation.as_euler`), which the model of C03
takes as a parameter `asEuler : M3 α → Ang3 α`.

* proper rotations `IsRot` (orthogonal, determinant 1); the matrices the model hands to scipy
  (`exportFed`, `importFed`) are proper rotations when the angles fed in lie on the unit circle;
* algebra copied from `Lemmas/C05_Euler` (that file imports `Gen/C05`, so it cannot be imported here): every
  proper rotation over an ordered field in which `1 − m₃₃²` has a square root is `zxz` of three points of the
  unit circle, the middle one with non-negative sine;
* `ZYZ_of_zxz`: `Ry(b) = Rz(90°)·Rx(b)·Rz(−90°)`, hence every zxz triple is a ZYZ triple with the outer angles
  shifted by ±90°; so every such rotation is also `ZYZ` of three points of the unit circle;
* over ℝ: explicit noncomputable extractors `zxzR`, `zyzR : M3 ℝ → Ang3 ℝ` whose result, for EVERY proper
  rotation, consists of unit angles, has `0 ≤ sin` of the middle angle, and reproduces the matrix through
  `eulerMat "zxz"` resp. `eulerMat "ZYZ"` (`zxzR_post`, `zyzR_post`);
* over ℝ: abstract angles are exactly the (cos, sin) pairs of angles in degrees (`angR`, `degOf`, `angR_degOf`,
  `ang3R_surj`).

Nothing here says that scipy computes `zxzR` / `zyzR`; these are witnesses that the post-condition assumed of
`asEuler` in `Props/C03` can be met for all proper rotations simultaneously. -/
namespace CryoCat.C03
open CryoCat

/-! ### proper rotations -/
section ring
variable {α : Type} [CommRing α]

/-- a proper rotation matrix: orthogonal (`mᵀ·m = 1`) with determinant 1 -/
def IsRot (m : M3 α) : Prop := m.Orth ∧ m.det = 1

theorem det_mul (a b : M3 α) : (a * b).det = a.det * b.det := by
  simp only [M3.mul_def, M3.mul, M3.det]; ring

theorem det_rz (c s : α) : (rz c s).det = c * c + s * s := by simp only [rz, M3.det]; ring
theorem det_rx (c s : α) : (rx c s).det = c * c + s * s := by simp only [rx, M3.det]; ring
theorem det_ry (c s : α) : (ry c s).det = c * c + s * s := by simp only [ry, M3.det]; ring

theorem IsRot.mul {a b : M3 α} (ha : IsRot a) (hb : IsRot b) : IsRot (a * b) :=
  ⟨ha.1.mul hb.1, by rw [det_mul, ha.2, hb.2, one_mul]⟩

theorem rz_isRot (c s : α) (h : c * c + s * s = 1) : IsRot (rz c s) := ⟨rz_orth c s h, by rw [det_rz, h]⟩
theorem rx_isRot (c s : α) (h : c * c + s * s = 1) : IsRot (rx c s) := ⟨rx_orth c s h, by rw [det_rx, h]⟩
theorem ry_isRot (c s : α) (h : c * c + s * s = 1) : IsRot (ry c s) := ⟨ry_orth c s h, by rw [det_ry, h]⟩

/-- the extrinsic zxz matrix of three points of the unit circle is a proper rotation -/
theorem zxz_isRot (cp sp ct st cs ss : α) (hp : cp * cp + sp * sp = 1) (ht : ct * ct + st * st = 1)
    (hs : cs * cs + ss * ss = 1) : IsRot (zxz cp sp ct st cs ss) :=
  ((rz_isRot cs ss hs).mul (rx_isRot ct st ht)).mul (rz_isRot cp sp hp)

/-- the intrinsic ZXZ matrix of three points of the unit circle is a proper rotation -/
theorem ZXZ_isRot (ca sa cb sb cc sc : α) (ha : ca * ca + sa * sa = 1) (hb : cb * cb + sb * sb = 1)
    (hc : cc * cc + sc * sc = 1) : IsRot (ZXZ ca sa cb sb cc sc) :=
  ((rz_isRot ca sa ha).mul (rx_isRot cb sb hb)).mul (rz_isRot cc sc hc)

/-- the intrinsic ZYZ matrix of three points of the unit circle is a proper rotation -/
theorem ZYZ_isRot (ca sa cb sb cc sc : α) (ha : ca * ca + sa * sa = 1) (hb : cb * cb + sb * sb = 1)
    (hc : cc * cc + sc * sc = 1) : IsRot (ZYZ ca sa cb sb cc sc) :=
  ((rz_isRot ca sa ha).mul (ry_isRot cb sb hb)).mul (rz_isRot cc sc hc)

/-- the angle `−t` of a point of the unit circle is a point of the unit circle -/
theorem Ang.neg_unit (t : Ang α) (h : t.Unit) : t.neg.Unit := by
  unfold Ang.Unit Ang.neg at *; simp only; rw [neg_mul_neg]; exact h

/-- the matrix `convert_angles_to_relion` hands to scipy exists (the model does not fail) and is a proper
rotation, provided the three angles fed in are unit -/
theorem exportFed_isRot (ang : Ang3 α) (hu : ang.Unit) : ∃ F, exportFed ang = some F ∧ IsRot F :=
  ⟨_, exportFed_eq ang, ZXZ_isRot _ _ _ _ _ _ hu.1 hu.2.1 hu.2.2⟩

/-- the matrix `convert_angles_from_relion` hands to scipy exists and is a proper rotation, provided the
three RELION angles are unit -/
theorem importFed_isRot (rln : Ang3 α) (hu : rln.Unit) : ∃ F, importFed rln = some F ∧ IsRot F :=
  ⟨_, importFed_eq rln, by rw [relionMat_eq]; exact ZYZ_isRot _ _ _ _ _ _ hu.1 hu.2.1 hu.2.2⟩

/-- `Ry(b) = Rz(90°)·Rx(b)·Rz(−90°)`, hence `ZYZ(a, b, c) = zxz(phi = c − 90°, theta = b, psi = a + 90°)`:
with (cos a, sin a) = (sin psi, −cos psi) and (cos c, sin c) = (−sin phi, cos phi) -/
theorem ZYZ_of_zxz (cp sp ct st cs ss : α) : ZYZ ss (-cs) ct st (-sp) cp = zxz cp sp ct st cs ss := by
  ext <;> simp [ZYZ, zxz, rz, rx, ry, M3.mul_def, M3.mul] <;> ring

/-- a proper rotation is its own cofactor matrix (entry by entry) -/
theorem IsRot.cofactor {m : M3 α} (h : IsRot m) :
    m.a11 = m.a22 * m.a33 - m.a23 * m.a32 ∧ m.a12 = m.a23 * m.a31 - m.a21 * m.a33 ∧ m.a13 = m.a21 * m.a32 - m.a22 * m.a31 ∧
    m.a21 = m.a13 * m.a32 - m.a12 * m.a33 ∧ m.a22 = m.a11 * m.a33 - m.a13 * m.a31 ∧ m.a23 = m.a12 * m.a31 - m.a11 * m.a32 ∧
    m.a31 = m.a12 * m.a23 - m.a13 * m.a22 ∧ m.a32 = m.a13 * m.a21 - m.a11 * m.a23 ∧ m.a33 = m.a11 * m.a22 - m.a12 * m.a21 := by
  obtain ⟨ho, hd⟩ := h
  have e := ho
  simp only [M3.Orth, M3.mul_def, M3.mul, M3.transpose, M3.one] at e
  injection e with e11 e12 e13 e21 e22 e23 e31 e32 e33
  simp only [M3.det] at hd
  obtain ⟨a11, a12, a13, a21, a22, a23, a31, a32, a33⟩ := m
  simp only at *
  refine ⟨?_, ?_, ?_, ?_, ?_, ?_, ?_, ?_, ?_⟩
  · linear_combination (-a11) * hd + (a22 * a33 - a23 * a32) * e11 + (a23 * a31 - a21 * a33) * e12 + (a21 * a32 - a22 * a31) * e13
  · linear_combination (-a12) * hd + (a22 * a33 - a23 * a32) * e21 + (a23 * a31 - a21 * a33) * e22 + (a21 * a32 - a22 * a31) * e23
  · linear_combination (-a13) * hd + (a22 * a33 - a23 * a32) * e31 + (a23 * a31 - a21 * a33) * e32 + (a21 * a32 - a22 * a31) * e33
  · linear_combination (-a21) * hd + (a13 * a32 - a12 * a33) * e11 + (a11 * a33 - a13 * a31) * e12 + (a12 * a31 - a11 * a32) * e13
  · linear_combination (-a22) * hd + (a13 * a32 - a12 * a33) * e21 + (a11 * a33 - a13 * a31) * e22 + (a12 * a31 - a11 * a32) * e23
  · linear_combination (-a23) * hd + (a13 * a32 - a12 * a33) * e31 + (a11 * a33 - a13 * a31) * e32 + (a12 * a31 - a11 * a32) * e33
  · linear_combination (-a31) * hd + (a12 * a23 - a13 * a22) * e11 + (a13 * a21 - a11 * a23) * e12 + (a11 * a22 - a12 * a21) * e13
  · linear_combination (-a32) * hd + (a12 * a23 - a13 * a22) * e21 + (a13 * a21 - a11 * a23) * e22 + (a11 * a22 - a12 * a21) * e23
  · linear_combination (-a33) * hd + (a12 * a23 - a13 * a22) * e31 + (a13 * a21 - a11 * a23) * e32 + (a11 * a22 - a12 * a21) * e33

/-- hence its rows are orthonormal too: the third row has length 1 -/
theorem IsRot.row3 {m : M3 α} (h : IsRot m) : m.a31 * m.a31 + m.a32 * m.a32 + m.a33 * m.a33 = 1 := by
  obtain ⟨_, _, _, _, _, _, c31, c32, c33⟩ := h.cofactor
  have hd := h.2
  simp only [M3.det] at hd
  linear_combination m.a31 * c31 + m.a32 * c32 + m.a33 * c33 + hd

/-- the columns are orthonormal by definition: first and third column have length 1 -/
theorem IsRot.col3 {m : M3 α} (h : IsRot m) : m.a13 * m.a13 + m.a23 * m.a23 + m.a33 * m.a33 = 1 := by
  have e := h.1
  simp only [M3.Orth, M3.mul_def, M3.mul, M3.transpose, M3.one] at e
  injection e

theorem IsRot.col1 {m : M3 α} (h : IsRot m) : m.a11 * m.a11 + m.a21 * m.a21 + m.a31 * m.a31 = 1 := by
  have e := h.1
  simp only [M3.Orth, M3.mul_def, M3.mul, M3.transpose, M3.one] at e
  injection e

/-- the upper-left 2×2 block of a proper rotation in terms of its third row and column -/
theorem IsRot.block {m : M3 α} (h : IsRot m) :
    m.a11 * (1 - m.a33 * m.a33) = -(m.a23 * m.a32) - m.a13 * m.a33 * m.a31 ∧
    m.a12 * (1 - m.a33 * m.a33) = m.a23 * m.a31 - m.a13 * m.a33 * m.a32 ∧
    m.a21 * (1 - m.a33 * m.a33) = m.a13 * m.a32 - m.a23 * m.a33 * m.a31 ∧
    m.a22 * (1 - m.a33 * m.a33) = -(m.a13 * m.a31) - m.a23 * m.a33 * m.a32 := by
  obtain ⟨c11, c12, _, c21, c22, _, _, _, _⟩ := h.cofactor
  refine ⟨?_, ?_, ?_, ?_⟩
  · linear_combination c11 + m.a33 * c22
  · linear_combination c12 - m.a33 * c21
  · linear_combination c21 - m.a33 * c12
  · linear_combination c22 + m.a33 * c11

end ring

section field
variable {α : Type} [_root_.Field α]

/-- **away from gimbal lock**: with `s² = 1 − m₃₃²`, `s ≠ 0`, the pairs `(m₃₂,m₃₁)/s`, `(m₃₃,s)`, `(−m₂₃,m₁₃)/s`
lie on the unit circle and are zxz Euler angles (phi, theta, psi) of `m` -/
theorem zxz_of_rot_generic {m : M3 α} (h : IsRot m) {s : α} (hs : s * s = 1 - m.a33 * m.a33) (hs0 : s ≠ 0) :
    (m.a32 / s) * (m.a32 / s) + (m.a31 / s) * (m.a31 / s) = 1 ∧ m.a33 * m.a33 + s * s = 1 ∧
    (-m.a23 / s) * (-m.a23 / s) + (m.a13 / s) * (m.a13 / s) = 1 ∧
    zxz (m.a32 / s) (m.a31 / s) m.a33 s (-m.a23 / s) (m.a13 / s) = m := by
  have hss : s * s ≠ 0 := mul_ne_zero hs0 hs0
  have key : ∀ x y : α, y * (s * s) = x → x / (s * s) = y := by
    intro x y e; rw [div_eq_iff hss]; exact e.symm
  obtain ⟨b11, b12, b21, b22⟩ := h.block
  have r3 := h.row3
  have c3 := h.col3
  refine ⟨?_, ?_, ?_, ?_⟩
  · have : (m.a32 / s) * (m.a32 / s) + (m.a31 / s) * (m.a31 / s) = (m.a32 * m.a32 + m.a31 * m.a31) / (s * s) := by ring
    rw [this]; apply key; rw [hs]; linear_combination (-1 : α) * r3
  · rw [hs]; ring
  · have : (-m.a23 / s) * (-m.a23 / s) + (m.a13 / s) * (m.a13 / s) = (m.a23 * m.a23 + m.a13 * m.a13) / (s * s) := by ring
    rw [this]; apply key; rw [hs]; linear_combination (-1 : α) * c3
  · obtain ⟨a11, a12, a13, a21, a22, a23, a31, a32, a33⟩ := m
    simp only at *
    simp only [zxz, rz, rx, M3.mul_def, M3.mul]
    congr 1
    · have : (-a23 / s * 1 + -(a13 / s) * 0 + 0 * 0) * (a32 / s) + (-a23 / s * 0 + -(a13 / s) * a33 + 0 * s) * (a31 / s) + (-a23 / s * 0 + -(a13 / s) * -s + 0 * a33) * 0
          = (-(a23 * a32) - a13 * a33 * a31) / (s * s) := by ring
      rw [this]; apply key; rw [hs]; exact b11
    · have : (-a23 / s * 1 + -(a13 / s) * 0 + 0 * 0) * -(a31 / s) + (-a23 / s * 0 + -(a13 / s) * a33 + 0 * s) * (a32 / s) + (-a23 / s * 0 + -(a13 / s) * -s + 0 * a33) * 0
          = (a23 * a31 - a13 * a33 * a32) / (s * s) := by ring
      rw [this]; apply key; rw [hs]; exact b12
    · field_simp; ring
    · have : (a13 / s * 1 + -a23 / s * 0 + 0 * 0) * (a32 / s) + (a13 / s * 0 + -a23 / s * a33 + 0 * s) * (a31 / s) + (a13 / s * 0 + -a23 / s * -s + 0 * a33) * 0
          = (a13 * a32 - a23 * a33 * a31) / (s * s) := by ring
      rw [this]; apply key; rw [hs]; exact b21
    · have : (a13 / s * 1 + -a23 / s * 0 + 0 * 0) * -(a31 / s) + (a13 / s * 0 + -a23 / s * a33 + 0 * s) * (a32 / s) + (a13 / s * 0 + -a23 / s * -s + 0 * a33) * 0
          = (-(a13 * a31) - a23 * a33 * a32) / (s * s) := by ring
      rw [this]; apply key; rw [hs]; exact b22
    · field_simp; ring
    · field_simp; ring
    · field_simp; ring
    · ring

end field

section ordered
variable {α : Type} [_root_.Field α] [LinearOrder α] [IsStrictOrderedRing α]

/-- at gimbal lock the third row and column are ±e₃ -/
theorem IsRot.gimbal_zero {m : M3 α} (h : IsRot m) (h33 : m.a33 * m.a33 = 1) :
    m.a13 = 0 ∧ m.a23 = 0 ∧ m.a31 = 0 ∧ m.a32 = 0 := by
  have c3 := h.col3
  have r3 := h.row3
  have e1 : m.a13 * m.a13 + m.a23 * m.a23 = 0 := by linear_combination c3 - h33
  have e2 : m.a31 * m.a31 + m.a32 * m.a32 = 0 := by linear_combination r3 - h33
  obtain ⟨z1, z2⟩ := (mul_self_add_mul_self_eq_zero).1 e1
  obtain ⟨z3, z4⟩ := (mul_self_add_mul_self_eq_zero).1 e2
  exact ⟨z1, z2, z3, z4⟩

/-- **gimbal lock, theta = 0**: `m = Rz(phi)` with (cos phi, sin phi) = (m₁₁, m₂₁) -/
theorem zxz_of_rot_gimbal_pos {m : M3 α} (h : IsRot m) (h33 : m.a33 = 1) :
    m.a11 * m.a11 + m.a21 * m.a21 = 1 ∧ zxz m.a11 m.a21 1 0 1 0 = m := by
  obtain ⟨z13, z23, z31, z32⟩ := h.gimbal_zero (by rw [h33]; ring)
  obtain ⟨_, c12, _, _, c22, _, _, _, _⟩ := h.cofactor
  have c1 := h.col1
  obtain ⟨a11, a12, a13, a21, a22, a23, a31, a32, a33⟩ := m
  simp only at *
  subst h33 z13 z23 z31 z32
  refine ⟨by linear_combination c1, ?_⟩
  simp only [zxz, rz, rx, M3.mul_def, M3.mul]
  congr 1
  · ring
  · linear_combination (-1 : α) * c12
  · ring
  · ring
  · linear_combination (-1 : α) * c22
  · ring
  · ring
  · ring
  · ring

/-- **gimbal lock, theta = 180°**: (cos phi, sin phi) = (m₁₁, −m₁₂), psi = 0 -/
theorem zxz_of_rot_gimbal_neg {m : M3 α} (h : IsRot m) (h33 : m.a33 = -1) :
    m.a11 * m.a11 + (-m.a12) * (-m.a12) = 1 ∧ zxz m.a11 (-m.a12) (-1) 0 1 0 = m := by
  obtain ⟨z13, z23, z31, z32⟩ := h.gimbal_zero (by rw [h33]; ring)
  obtain ⟨_, _, _, c21, c22, _, _, _, _⟩ := h.cofactor
  have c1 := h.col1
  obtain ⟨a11, a12, a13, a21, a22, a23, a31, a32, a33⟩ := m
  simp only at *
  subst h33 z13 z23 z31 z32
  refine ⟨by linear_combination c1 - (a21 + a12) * c21, ?_⟩
  simp only [zxz, rz, rx, M3.mul_def, M3.mul]
  congr 1
  · ring
  · ring
  · ring
  · linear_combination (-1 : α) * c21
  · linear_combination (-1 : α) * c22
  · ring
  · ring
  · ring
  · ring

/-- **every proper rotation has zxz Euler angles** — in any ordered field in which `1 − m₃₃²` has a square
root (always the case over ℝ): three points of the unit circle, the middle one with non-negative sine
(theta in [0°, 180°] as scipy returns it), whose `zxz` is the matrix -/
theorem exists_zxz_of_rot {m : M3 α} (h : IsRot m) (hsq : ∃ s : α, 0 ≤ s ∧ s * s = 1 - m.a33 * m.a33) :
    ∃ cp sp ct st cs ss : α, cp * cp + sp * sp = 1 ∧ ct * ct + st * st = 1 ∧ cs * cs + ss * ss = 1 ∧ 0 ≤ st ∧
      zxz cp sp ct st cs ss = m := by
  obtain ⟨s, hs0, hs⟩ := hsq
  by_cases hz : s = 0
  · have h33 : m.a33 * m.a33 = 1 := by rw [hz] at hs; linear_combination hs
    rcases mul_self_eq_one_iff.1 h33 with hp | hn
    · obtain ⟨u, e⟩ := zxz_of_rot_gimbal_pos h hp
      exact ⟨_, _, 1, 0, 1, 0, u, by ring, by ring, le_refl 0, e⟩
    · obtain ⟨u, e⟩ := zxz_of_rot_gimbal_neg h hn
      exact ⟨_, _, -1, 0, 1, 0, u, by ring, by ring, le_refl 0, e⟩
  · obtain ⟨u1, u2, u3, e⟩ := zxz_of_rot_generic h hs hz
    exact ⟨_, _, _, _, _, _, u1, u2, u3, hs0, e⟩

/-- **every proper rotation has intrinsic ZYZ Euler angles** (same hypothesis): three points of the unit circle,
the middle one with non-negative sine (tilt in [0°, 180°]), whose `ZYZ` is the matrix -/
theorem exists_ZYZ_of_rot {m : M3 α} (h : IsRot m) (hsq : ∃ s : α, 0 ≤ s ∧ s * s = 1 - m.a33 * m.a33) :
    ∃ ca sa cb sb cc sc : α, ca * ca + sa * sa = 1 ∧ cb * cb + sb * sb = 1 ∧ cc * cc + sc * sc = 1 ∧ 0 ≤ sb ∧
      ZYZ ca sa cb sb cc sc = m := by
  obtain ⟨cp, sp, ct, st, cs, ss, hp, ht, hs, hst, e⟩ := exists_zxz_of_rot h hsq
  exact ⟨ss, -cs, ct, st, -sp, cp, by linear_combination hs, ht, by linear_combination hp, hst,
    by rw [ZYZ_of_zxz]; exact e⟩

end ordered

/-! ### over ℝ: explicit Euler extractions -/
section real
open Real

open Classical in
/-- an explicit zxz Euler extraction over ℝ, as abstract angles (phi, theta, psi): theta from m₃₃ (with
`sin theta = sqrt (1 − m₃₃²) ≥ 0`), phi from the third row, psi from the third column; at gimbal lock
(`sqrt (1 − m₃₃²) = 0`) psi = 0 and phi carries the whole z-rotation -/
noncomputable def zxzR (m : M3 ℝ) : Ang3 ℝ :=
  let s := Real.sqrt (1 - m.a33 * m.a33)
  if s = 0 then (if 0 ≤ m.a33 then ⟨⟨m.a11, m.a21⟩, ⟨1, 0⟩, ⟨1, 0⟩⟩ else ⟨⟨m.a11, -m.a12⟩, ⟨-1, 0⟩, ⟨1, 0⟩⟩)
  else ⟨⟨m.a32 / s, m.a31 / s⟩, ⟨m.a33, s⟩, ⟨-m.a23 / s, m.a13 / s⟩⟩

/-- an explicit intrinsic ZYZ Euler extraction over ℝ, as abstract angles (rot, tilt, psi), from `zxzR` by
`ZYZ_of_zxz`: rot = psi_zxz − 90°, tilt = theta_zxz, psi = phi_zxz + 90° -/
noncomputable def zyzR (m : M3 ℝ) : Ang3 ℝ :=
  let e := zxzR m
  ⟨⟨e.c.s, -e.c.c⟩, e.b, ⟨-e.a.s, e.a.c⟩⟩

/-- **post-condition of `as_euler("zxz")` met by `zxzR` for every proper rotation over ℝ**: the three returned
angles are unit, the middle one has non-negative sine, and `from_euler("zxz", ·)` of them is the matrix -/
theorem zxzR_post (m : M3 ℝ) (h : IsRot m) :
    (zxzR m).Unit ∧ 0 ≤ (zxzR m).b.s ∧ eulerMat ['z', 'x', 'z'] (zxzR m) = some m := by
  have c3 := h.col3
  have hnn : 0 ≤ 1 - m.a33 * m.a33 := by nlinarith [mul_self_nonneg m.a13, mul_self_nonneg m.a23]
  have hs : sqrt (1 - m.a33 * m.a33) * sqrt (1 - m.a33 * m.a33) = 1 - m.a33 * m.a33 := mul_self_sqrt hnn
  rw [eulerMat_zxz]
  simp only [zxzR]
  by_cases hz : sqrt (1 - m.a33 * m.a33) = 0
  · have h33 : m.a33 * m.a33 = 1 := by rw [hz] at hs; linarith
    rw [if_pos hz]
    by_cases hp : 0 ≤ m.a33
    · have e : m.a33 = 1 := by
        rcases mul_self_eq_one_iff.1 h33 with e | e
        · exact e
        · rw [e] at hp; norm_num at hp
      obtain ⟨u, ez⟩ := zxz_of_rot_gimbal_pos h e
      rw [if_pos hp]
      exact ⟨⟨u, by simp [Ang.Unit], by simp [Ang.Unit]⟩, le_refl (0 : ℝ), congrArg some ez⟩
    · have e : m.a33 = -1 := by
        rcases mul_self_eq_one_iff.1 h33 with e | e
        · rw [e] at hp; norm_num at hp
        · exact e
      obtain ⟨u, ez⟩ := zxz_of_rot_gimbal_neg h e
      rw [if_neg hp]
      exact ⟨⟨u, by simp [Ang.Unit], by simp [Ang.Unit]⟩, le_refl (0 : ℝ), congrArg some ez⟩
  · obtain ⟨u1, u2, u3, ez⟩ := zxz_of_rot_generic h hs hz
    rw [if_neg hz]
    exact ⟨⟨u1, u2, u3⟩, sqrt_nonneg _, congrArg some ez⟩

/-- **post-condition of `as_euler("ZYZ")` met by `zyzR` for every proper rotation over ℝ**: the three returned
angles are unit, the middle one has non-negative sine, and `from_euler("ZYZ", ·)` of them is the matrix -/
theorem zyzR_post (m : M3 ℝ) (h : IsRot m) :
    (zyzR m).Unit ∧ 0 ≤ (zyzR m).b.s ∧ eulerMat ['Z', 'Y', 'Z'] (zyzR m) = some m := by
  obtain ⟨⟨ua, ub, uc⟩, hb, e⟩ := zxzR_post m h
  rw [eulerMat_zxz] at e
  rw [eulerMat_ZYZ]
  simp only [zyzR]
  refine ⟨⟨?_, ub, ?_⟩, hb, ?_⟩
  · unfold Ang.Unit at uc ⊢; simp only; linear_combination uc
  · unfold Ang.Unit at ua ⊢; simp only; linear_combination ua
  · rw [ZYZ_of_zxz]; exact e

/-! ### over ℝ: abstract angles are the (cos, sin) pairs of angles in degrees -/

/-- (cos, sin) of an angle given in degrees — what scipy computes for `degrees=True` -/
noncomputable def angR (d : ℝ) : Ang ℝ := ⟨Real.cos (d * (Real.pi / 180)), Real.sin (d * (Real.pi / 180))⟩

/-- three angles given in degrees -/
noncomputable def ang3R (a b c : ℝ) : Ang3 ℝ := ⟨angR a, angR b, angR c⟩

theorem angR_unit (d : ℝ) : (angR d).Unit := by
  have := cos_sq_add_sin_sq (d * (π / 180))
  simp only [angR, Ang.Unit]; nlinarith [this]

theorem ang3R_unit (a b c : ℝ) : (ang3R a b c).Unit := ⟨angR_unit a, angR_unit b, angR_unit c⟩

theorem angR_neg (d : ℝ) : angR (-d) = (angR d).neg := by
  simp only [angR, Ang.neg, neg_mul, cos_neg, sin_neg]

/-- the angle in degrees of the abstract angle (c, s) (`atan2(s, c)` in degrees, in (−180°, 180°]) -/
noncomputable def degOf (t : Ang ℝ) : ℝ := Complex.arg ⟨t.c, t.s⟩ * (180 / π)

/-- every point of the unit circle is (cos, sin) of its `degOf` -/
theorem angR_degOf (t : Ang ℝ) (h : t.Unit) : angR (degOf t) = t := by
  obtain ⟨c, s⟩ := t
  have h' : c * c + s * s = 1 := h
  have hpi : π ≠ 0 := pi_ne_zero
  have ha : degOf ⟨c, s⟩ * (π / 180) = Complex.arg ⟨c, s⟩ := by unfold degOf; field_simp
  have hn : ‖(⟨c, s⟩ : ℂ)‖ = 1 := by
    rw [Complex.norm_def, Complex.normSq_mk, h', sqrt_one]
  have hne : (⟨c, s⟩ : ℂ) ≠ 0 := by
    intro e; rw [e, norm_zero] at hn; exact zero_ne_one hn
  simp only [angR, ha]
  rw [Complex.cos_arg hne, Complex.sin_arg, hn]
  simp

/-- every unit triple of abstract angles is the triple of (cos, sin) pairs of three angles in degrees -/
theorem ang3R_surj (t : Ang3 ℝ) (h : t.Unit) : ∃ a b c : ℝ, ang3R a b c = t := by
  obtain ⟨ta, tb, tc⟩ := t
  obtain ⟨ha, hb, hc⟩ := h
  exact ⟨degOf ta, degOf tb, degOf tc, by
    simp only [ang3R, angR_degOf _ ha, angR_degOf _ hb, angR_degOf _ hc]⟩

end real
end CryoCat.C03
