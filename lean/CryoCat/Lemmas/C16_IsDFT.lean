import CryoCat.Model.C16_Fourier
import Mathlib.Analysis.SpecialFunctions.Pow.Real
/-! C16 — the laws of the Fourier service under which the image-level clauses follow, and a first instance (1 × 2).
Depends only on `Model/C16_Fourier` (not on the regenerated constants). -/
namespace CryoCat.C16

/-! ### laws of the Fourier service -/

/-- What the image-level clauses need from `np.fft.fft2` / `np.fft.ifft2(·).real` on real `H × W` images (all are
theorems of the discrete Fourier transform; the harness probes them on numpy on every run):
inversion, linearity of both directions, and: a Hermitian-even real multiplier applied to the spectrum of a real
image is again the spectrum of a real image (so `.real` loses nothing). -/
structure IsDFT {Img : Type} [Add Img] [SMul ℝ Img] {H W : Nat} (fft : FFT Img ℝ H W) : Prop where
  inv_left : ∀ x, fft.ifft2re (fft.fft2 x) = x
  even_mult : ∀ (M : Fin H → Fin W → ℝ), (∀ v u, M (negFin v) (negFin u) = M v u) → ∀ x,
      fft.fft2 (fft.ifft2re (fun v u => Cx.smul (M v u) (fft.fft2 x v u))) = fun v u => Cx.smul (M v u) (fft.fft2 x v u)
  fft_add : ∀ x y, fft.fft2 (x + y) = fun v u => Cx.add (fft.fft2 x v u) (fft.fft2 y v u)
  fft_smul : ∀ (c : ℝ) x, fft.fft2 (c • x) = fun v u => Cx.smul c (fft.fft2 x v u)
  ifft_add : ∀ s t, fft.ifft2re (fun v u => Cx.add (s v u) (t v u)) = fft.ifft2re s + fft.ifft2re t
  ifft_smul : ∀ (c : ℝ) s, fft.ifft2re (fun v u => Cx.smul c (s v u)) = c • fft.ifft2re s

/-- a concrete Fourier service satisfying the laws: the 1 × 2 DFT `(a, b) ↦ (a + b, a − b)` -/
noncomputable def dft12 : FFT (ℝ × ℝ) ℝ 1 2 :=
  { fft2 := fun x _ u => if u.val = 0 then ⟨x.1 + x.2, 0⟩ else ⟨x.1 - x.2, 0⟩
    ifft2re := fun s => (((s 0 0).re + (s 0 1).re) / 2, ((s 0 0).re - (s 0 1).re) / 2) }

end CryoCat.C16

namespace CryoCat.C16

theorem dft12_isDFT : IsDFT dft12 := by
  have fin2 : ∀ u : Fin 2, u = 0 ∨ u = 1 := by decide
  have neg2 : ∀ u : Fin 2, negFin u = u := by decide
  refine ⟨?_, ?_, ?_, ?_, ?_, ?_⟩
  · rintro ⟨a, b⟩; simp [dft12]
  · intro M _ x
    funext v u
    have hv : v = 0 := Subsingleton.elim _ _
    subst hv
    rcases fin2 u with rfl | rfl <;> simp [dft12, Cx.smul] <;> ring
  · intro x y; funext v u
    rcases fin2 u with rfl | rfl <;> simp [dft12, Cx.add] <;> ring
  · intro c x; funext v u
    rcases fin2 u with rfl | rfl <;> simp [dft12, Cx.smul] <;> ring
  · intro s t; simp [dft12, Cx.add]; constructor <;> ring
  · intro c s; simp [dft12, Cx.smul]; constructor <;> ring

end CryoCat.C16

