import CryoCat.Model.C10
import CryoCat.Lemmas.M3
import Mathlib.Tactic.Ring
import Mathlib.Tactic.LinearCombination
/-! C10 — helper lemmas: the angle group, powers of `rz`, conjugation by an orthogonal matrix, and the list
structure of `expand`. Exact arithmetic over any commutative ring. -/
namespace CryoCat.C10
variable {α : Type}

theorem Ang.ext' {a b : Ang α} (h1 : a.c = b.c) (h2 : a.s = b.s) : a = b := by
  cases a; cases b; simp_all

/-- `k`-th power of a matrix -/
def mpow [OfNat α 0] [OfNat α 1] [Add α] [Mul α] (m : M3 α) : Nat → M3 α
  | 0 => M3.one
  | k + 1 => mpow m k * m

/-- the unit vector along z -/
def ez [OfNat α 0] [OfNat α 1] : V3 α := ⟨0, 0, 1⟩

section ring
variable [CommRing α]

/-- the pair really is (cos, sin) of something: it lies on the unit circle -/
def Ang.IsUnit (a : Ang α) : Prop := a.c * a.c + a.s * a.s = 1

theorem Ang.zero_isUnit : (Ang.zero : Ang α).IsUnit := by simp [Ang.IsUnit, Ang.zero]

theorem Ang.add_isUnit {a b : Ang α} (ha : a.IsUnit) (hb : b.IsUnit) : (a.add b).IsUnit := by
  unfold Ang.IsUnit at *
  simp only [Ang.add]
  linear_combination (b.c * b.c + b.s * b.s) * ha + hb

theorem Ang.nsmul_isUnit {a : Ang α} (ha : a.IsUnit) (k : Nat) : (Ang.nsmul k a).IsUnit := by
  induction k with
  | zero => exact Ang.zero_isUnit
  | succ k ih => exact Ang.add_isUnit ih ha

theorem Ang.zero_add (a : Ang α) : Ang.add Ang.zero a = a := by
  apply Ang.ext' <;> simp [Ang.add, Ang.zero]
theorem Ang.add_zero (a : Ang α) : Ang.add a Ang.zero = a := by
  apply Ang.ext' <;> simp [Ang.add, Ang.zero]
theorem Ang.add_assoc (a b c : Ang α) : (a.add b).add c = a.add (b.add c) := by
  apply Ang.ext' <;> simp [Ang.add] <;> ring
theorem Ang.add_comm (a b : Ang α) : a.add b = b.add a := by
  apply Ang.ext' <;> simp [Ang.add] <;> ring

theorem Ang.nsmul_succ (k : Nat) (a : Ang α) : Ang.nsmul (k + 1) a = (Ang.nsmul k a).add a := rfl

theorem Ang.nsmul_add (j k : Nat) (a : Ang α) : Ang.nsmul (j + k) a = (Ang.nsmul j a).add (Ang.nsmul k a) := by
  induction k with
  | zero => simp [Ang.nsmul, Ang.add_zero]
  | succ k ih => rw [← Nat.add_assoc, Ang.nsmul_succ, ih, Ang.nsmul_succ, Ang.add_assoc]

theorem Ang.nsmul_mul (j k : Nat) (a : Ang α) : Ang.nsmul (j * k) a = Ang.nsmul j (Ang.nsmul k a) := by
  induction j with
  | zero => simp [Ang.nsmul]
  | succ j ih => rw [Nat.succ_mul, Ang.nsmul_add, ih, Ang.nsmul_succ]

/-- `rz` turns angle addition into matrix product -/
theorem Ang.rz_add (a b : Ang α) : (a.add b).rz = a.rz * b.rz := by
  simp only [Ang.rz, Ang.add, rz_mul]

theorem Ang.rz_zero : (Ang.zero : Ang α).rz = M3.one := by
  simp only [Ang.rz, Ang.zero]; exact CryoCat.rz_zero

theorem Ang.rz_nsmul (k : Nat) (a : Ang α) : (Ang.nsmul k a).rz = mpow a.rz k := by
  induction k with
  | zero => exact Ang.rz_zero
  | succ k ih => rw [Ang.nsmul_succ, Ang.rz_add, ih]; rfl

theorem Ang.rz_orth {a : Ang α} (ha : a.IsUnit) : a.rz.Orth := CryoCat.rz_orth a.c a.s ha

/-- a rotation about z fixes the z axis -/
theorem Ang.rz_apply_ez (a : Ang α) : a.rz.apply ez = ez := by
  ext <;> simp [Ang.rz, CryoCat.rz, M3.apply, ez]

/-- multiplying by a z-rotation on the right does not change the third column (image of the z axis) -/
theorem col3_mul_rz (R : M3 α) (a : Ang α) : (R * a.rz).col3 = R.col3 := by
  ext <;> simp [Ang.rz, CryoCat.rz, M3.mul_def, M3.mul, M3.col3]

theorem col3_eq_apply_ez (R : M3 α) : R.col3 = R.apply ez := by
  ext <;> simp [M3.col3, M3.apply, ez]

/-- conjugate of `Z` by an orthogonal `R` acting on `R * W` -/
theorem conj_mul {R : M3 α} (hR : R.Orth) (Z W : M3 α) : (R * Z * R.transpose) * (R * W) = R * (Z * W) := by
  unfold M3.Orth at hR
  calc (R * Z * R.transpose) * (R * W) = R * (Z * ((R.transpose * R) * W)) := by simp only [M3.mul_assoc']
    _ = R * (Z * W) := by rw [hR, M3.one_mul']

theorem conj_apply {R : M3 α} (hR : R.Orth) (Z : M3 α) (v : V3 α) :
    (R * Z * R.transpose).apply (R.apply v) = R.apply (Z.apply v) := by
  unfold M3.Orth at hR
  rw [← M3.apply_mul, M3.mul_assoc', M3.mul_assoc', hR, M3.mul_one', M3.apply_mul]

/-- a zxz Euler matrix also has its transpose as RIGHT inverse -/
theorem zxz_orth_right (cp sp ct st cs ss : α) (hp : cp*cp + sp*sp = 1) (ht : ct*ct + st*st = 1) (hs : cs*cs + ss*ss = 1) :
    zxz cp sp ct st cs ss * (zxz cp sp ct st cs ss).transpose = M3.one := by
  unfold zxz
  rw [M3.transpose_mul, M3.transpose_mul, rz_transpose, rx_transpose, rz_transpose]
  calc rz cs ss * rx ct st * rz cp sp * (rz cp (-sp) * (rx ct (-st) * rz cs (-ss)))
      = rz cs ss * (rx ct st * ((rz cp sp * rz cp (-sp)) * (rx ct (-st) * rz cs (-ss)))) := by
        simp only [M3.mul_assoc']
    _ = rz cs ss * ((rx ct st * rx ct (-st)) * rz cs (-ss)) := by
        rw [rz_inv' cp sp hp, M3.one_mul']; simp only [M3.mul_assoc']
    _ = M3.one := by rw [rx_inv' ct st ht, M3.one_mul', rz_inv' cs ss hs]

/-- `Rᵀ` is orthogonal when `R Rᵀ = 1` -/
theorem orth_transpose {R : M3 α} (h : R * R.transpose = M3.one) : R.transpose.Orth := by
  unfold M3.Orth; rw [M3.transpose_transpose]; exact h

/-- on the unit circle every angle has an inverse, so equal multiples cancel -/
theorem Ang.add_left_cancel {a b : Ang α} (ha : a.IsUnit) (h : a.add b = a) : b = Ang.zero := by
  have hc := congrArg Ang.c h
  have hs := congrArg Ang.s h
  simp only [Ang.add] at hc hs
  unfold Ang.IsUnit at ha
  apply Ang.ext'
  · simp only [Ang.zero]
    linear_combination a.c * hc + a.s * hs - (b.c - 1) * ha
  · simp only [Ang.zero]
    linear_combination a.c * hs - a.s * hc - b.s * ha

theorem V3.add_sub_cancel' (u v : V3 α) : u + v - v = u := by
  ext <;> simp [V3.add_def, V3.sub_def, V3.add, V3.sub]

theorem V3.add_sub_cancel_left' (u v : V3 α) : u + v - u = v := by
  ext <;> simp [V3.add_def, V3.sub_def, V3.add, V3.sub]

end ring

section field
variable [_root_.Field α]
/-- the rotation about the parent's OWN z axis by `j` steps: `R · Rz(j·a) · Rᵀ` -/
def ownAxisRot (sv : Svc α) (n : Nat) (P : Particle α) (j : Nat) : M3 α :=
  orientOf sv P * (Ang.nsmul j (stepAng sv n)).rz * (orientOf sv P).transpose

end field

/-! ### list structure -/

theorem renum_length [NatCast α] (i : Nat) (us : List (SubU α)) : (renum i us).length = us.length := by
  induction us generalizing i with
  | nil => rfl
  | cons u us ih => simp [renum, ih]

theorem renum_getElem [NatCast α] (i : Nat) (us : List (SubU α)) (j : Nat) (h : j < us.length) :
    (renum i us)[j]'(by rw [renum_length]; exact h) = (us[j]).setId (((i + j + Gen.C10.idStart : Nat) : α)) := by
  induction us generalizing i j with
  | nil => simp at h
  | cons u us ih =>
    cases j with
    | zero => simp [renum]
    | succ j =>
      simp only [renum, List.getElem_cons_succ]
      rw [ih (i + 1) j (by simpa using h)]
      congr 3; omega

theorem renum_eq_map [NatCast α] (i : Nat) (us : List (SubU α)) :
    renum i us = (us.zipIdx i).map (fun x => x.1.setId (((x.2 + Gen.C10.idStart : Nat) : α))) := by
  induction us generalizing i with
  | nil => rfl
  | cons u us ih => simp [renum, List.zipIdx_cons, ih]

end CryoCat.C10
