import CryoCat.Lemmas.C10
import Mathlib.Analysis.SpecialFunctions.Trigonometric.Basic
/-! C10 — over the reals, with the true cosine and sine, the model's step angle is 2π/n, its `k`-fold
multiple is the angle `k·360/n` degrees of the statement, `n` steps close the circle, and fewer do not. -/
namespace CryoCat.C10
open Real

/-- (cos, sin) of an angle in degrees — what numpy/scipy compute (`deg2rad` then cos/sin) -/
noncomputable def trigDeg (x : ℝ) : Ang ℝ := ⟨cos (x * (π / 180)), sin (x * (π / 180))⟩

/-- the numeric services over ℝ: true trigonometry, true rounding half away from zero -/
noncomputable def realSvc : Svc ℝ :=
  { trig := trigDeg, round := roundHalfUp (fun v => ((⌊v⌋ : ℤ) : ℝ)) (1 / 2) }

theorem trigDeg_isUnit (x : ℝ) : (trigDeg x).IsUnit := by
  unfold Ang.IsUnit trigDeg
  have := cos_sq_add_sin_sq (x * (π / 180))
  simp only [] ; nlinarith [this]

theorem trigDeg_add (x y : ℝ) : trigDeg (x + y) = (trigDeg x).add (trigDeg y) := by
  apply Ang.ext'
  · simp only [trigDeg, Ang.add, add_mul, cos_add]
  · simp only [trigDeg, Ang.add, add_mul, sin_add]

theorem trigDeg_zero : trigDeg 0 = Ang.zero := by
  simp [trigDeg, Ang.zero]

/-- `k` steps of the angle `x` degrees are the angle `k·x` degrees -/
theorem nsmul_trigDeg (k : ℕ) (x : ℝ) : Ang.nsmul k (trigDeg x) = trigDeg ((k : ℝ) * x) := by
  induction k with
  | zero => simp [Ang.nsmul, trigDeg_zero]
  | succ k ih => rw [Ang.nsmul_succ, ih, ← trigDeg_add]; congr 1; push_cast; ring

theorem fullTurn_eq : (Gen.C10.fullTurnDeg : ℝ) = 360 := by
  have : Gen.C10.fullTurnDeg = 360 := by decide
  rw [this]; norm_num

/-- the `k`-th multiple of the model's step angle is the angle `k·360/n` degrees of the statement -/
theorem nsmul_stepAng_real (n k : ℕ) : Ang.nsmul k (stepAng realSvc n) = trigDeg ((k : ℝ) * (360 / (n : ℝ))) := by
  unfold stepAng
  simp only [realSvc, fullTurn_eq]
  exact nsmul_trigDeg k _

/-- `n` steps close the circle -/
theorem nsmul_stepAng_close (n : ℕ) (hn : 1 ≤ n) : Ang.nsmul n (stepAng realSvc n) = Ang.zero := by
  rw [nsmul_stepAng_real]
  have hn' : (n : ℝ) ≠ 0 := by exact_mod_cast (by omega : n ≠ 0)
  have : (n : ℝ) * (360 / (n : ℝ)) * (π / 180) = 2 * π := by field_simp; ring
  simp only [trigDeg, this, cos_two_pi, sin_two_pi, Ang.zero]

/-- fewer than `n` steps do not: the `n` subunit orientations are pairwise different rotations about z -/
theorem nsmul_stepAng_ne_zero (n k : ℕ) (hk : 0 < k) (hkn : k < n) : Ang.nsmul k (stepAng realSvc n) ≠ Ang.zero := by
  rw [nsmul_stepAng_real]
  intro h
  have hc : cos ((k : ℝ) * (360 / (n : ℝ)) * (π / 180)) = 1 := by
    have := congrArg Ang.c h; simpa [trigDeg, Ang.zero] using this
  rw [cos_eq_one_iff] at hc
  obtain ⟨m, hm⟩ := hc
  have hn' : (0 : ℝ) < (n : ℝ) := by exact_mod_cast (by omega : 0 < n)
  have hpi : (0 : ℝ) < π := pi_pos
  have e : (m : ℝ) * (n : ℝ) = (k : ℝ) := by
    have h1 : (k : ℝ) * (360 / (n : ℝ)) * (π / 180) = (k : ℝ) / (n : ℝ) * (2 * π) := by field_simp; ring
    rw [h1] at hm
    have h2 : (m : ℝ) = (k : ℝ) / (n : ℝ) := by
      have := mul_right_cancel₀ (by positivity : (2 * π) ≠ 0) hm
      exact this
    rw [h2]; field_simp
  have e' : m * (n : ℤ) = (k : ℤ) := by exact_mod_cast e
  have hmpos : 0 < m := by
    by_contra hneg
    have : m * (n : ℤ) ≤ 0 := Int.mul_nonpos_of_nonpos_of_nonneg (by omega) (by omega)
    omega
  have : (n : ℤ) ≤ m * (n : ℤ) := by nlinarith
  omega

end CryoCat.C10
