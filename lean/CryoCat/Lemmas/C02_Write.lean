import CryoCat.Lemmas.C02_Doc
/-! C02 — helper lemmas, part 5: the text `Starfile.write` produces is a well laid-out document. -/
namespace CryoCat.C02

/-- the empty line -/
def eLine : Line := ⟨[], [], []⟩

def padOf (w : Word) : List Char := List.replicate (10 - w.length) ' '

/-- cells with their padding; a tab after every cell but the last -/
def rowItems : List Word → List (Word × List Char)
  | [] => []
  | [w] => [(w, padOf w)]
  | w :: w' :: r => (w, padOf w ++ ['\t']) :: rowItems (w' :: r)

def rowLineOf (r : List Word) : Line := ⟨[], rowItems r, []⟩

def labelLineOf (numbered : Bool) (i : Nat) (c : Word) : Line :=
  if numbered then ⟨[], [('_' :: c, [' '])], '#' :: natDigits i⟩ else ⟨[], [('_' :: c, [])], []⟩

def labelLinesOf (numbered : Bool) : Nat → List Word → List Line
  | _, [] => []
  | i, c :: cs => labelLineOf numbered i c :: labelLinesOf numbered (i + 1) cs

/-- the layout of one written block. The column labels are numbered from `Gen.C02.labelStart` — whatever the
source says today: the number is part of a trailing `#n` comment the reader skips, so nothing downstream (the round
trip `readStar_printStar`, hence `Lemmas/C02_Export.lean` and its users) depends on the VALUE of `labelStart`; that it
is the documented 1 is the obligation `Props/C02.writer_literals_documented` only. -/
def layoutOf (nc : Bool) (pre : List Line) (b : Block) : BlockLayout :=
  { pre := pre, name := b.name, nameLine := ⟨[], [(b.name, [])], []⟩, mid := [eLine],
    loopLine := ⟨[], [(['l', 'o', 'o', 'p', '_'], [])], []⟩, cols := b.cols,
    labels := labelLinesOf (nc && !isStopgap b.name) Gen.C02.labelStart b.cols,
    post := if isStopgap b.name then [eLine] else [],
    rows := b.rows.map rowLineOf }

def layoutsOf (nc : Bool) : List Line → List Block → List BlockLayout
  | _, [] => []
  | pre, b :: rest => layoutOf nc pre b :: layoutsOf nc [eLine, eLine] rest

def docOf (nc : Bool) (bs : List Block) : Doc := { blocks := layoutsOf nc [eLine] bs, trailing := [eLine, eLine] }

/-! ### the printed text is the text of `docOf` -/

def termLines (ls : List (List Char)) : List Char := ls.flatMap (· ++ ['\n'])

theorem joinLines_snoc_nil (ls : List (List Char)) : joinLines (ls ++ [[]]) = termLines ls := by
  induction ls with
  | nil => rfl
  | cons l ls ih =>
    cases ls with
    | nil => simp [joinLines, termLines]
    | cons l' ls' =>
      simp only [List.cons_append, joinLines] at ih ⊢
      rw [ih]; simp [termLines]

/-- with the documented format spec `'{:<10}'` (no fill character, left-aligned) a cell is its text followed by blanks -/
theorem padCell_eq (w : Word) : padCell w = w ++ List.replicate (Gen.C02.cellWidth - w.length) ' ' := rfl

theorem render_rowItems (r : List Word) : render (rowItems r) = rowText r := by
  induction r with
  | nil => rfl
  | cons w r ih =>
    cases r with
    | nil => simp [rowItems, render, rowText, sepJoin, padCell_eq, padOf, Gen.C02.cellWidth]
    | cons w' r' =>
      simp only [rowItems, render, rowText, List.map_cons, sepJoin] at ih ⊢
      rw [ih]; simp [padCell_eq, padOf, Gen.C02.cellWidth, Gen.C02.cellSep]

theorem rowLine_text (r : List Word) : (rowLineOf r).text = rowText r := by
  simp [rowLineOf, Line.text, render_rowItems]

theorem labels_text (numbered : Bool) (i : Nat) (cols : List Word) :
    termLines ((labelLinesOf numbered i cols).map Line.text) = labelsText numbered i cols := by
  induction cols generalizing i with
  | nil => rfl
  | cons c cs ih =>
    simp only [labelLinesOf, List.map_cons, termLines, List.flatMap_cons, labelsText] at ih ⊢
    rw [ih (i + 1)]
    cases numbered <;>
      simp [labelLineOf, Line.text, render, labelText, piece, Gen.C02.labelNumbered, Gen.C02.labelPlain]

theorem rows_text (rows : List (List Word)) :
    termLines ((rows.map rowLineOf).map Line.text) = rows.flatMap (fun r => rowText r ++ Gen.C02.rowEnd) := by
  induction rows with
  | nil => rfl
  | cons r rs ih =>
    simp only [List.map_cons, termLines, List.flatMap_cons] at ih ⊢
    rw [ih, rowLine_text]; rfl

/-- the lines of a block after its leading blank lines -/
def coreLines (nc : Bool) (b : Block) : List Line :=
  (layoutOf nc [] b).lines

theorem layout_lines (nc : Bool) (pre : List Line) (b : Block) : (layoutOf nc pre b).lines = pre ++ coreLines nc b := by
  simp [coreLines, BlockLayout.lines, layoutOf]

theorem termLines_append (a b : List (List Char)) : termLines (a ++ b) = termLines a ++ termLines b := by
  simp [termLines]

theorem termLines_cons (x : List Char) (xs : List (List Char)) : termLines (x :: xs) = x ++ '\n' :: termLines xs := by
  simp [termLines]

theorem printBlock_eq (nc : Bool) (b : Block) :
    printBlock nc b = '\n' :: (termLines ((coreLines nc b).map Line.text) ++ ['\n']) := by
  simp only [printBlock, coreLines, BlockLayout.lines, layoutOf]
  rw [← labels_text, ← rows_text]
  cases isStopgap b.name <;>
    simp [termLines_cons, termLines_append, Line.text, render, eLine, piece, Gen.C02.specLine, Gen.C02.loopLine,
      Gen.C02.stopgapExtra, Gen.C02.blockEnd] <;> rfl

theorem printStar_cons (nc : Bool) (b : Block) (rest : List Block) :
    printStar nc (b :: rest) = printBlock nc b ++ printStar nc rest := by simp [printStar]

theorem layouts_text (nc : Bool) (pre : List Line) (b : Block) (rest : List Block) :
    termLines (((layoutsOf nc pre (b :: rest)).flatMap BlockLayout.lines).map Line.text) ++ ['\n'] =
      termLines (pre.map Line.text) ++ (printStar nc (b :: rest)).tail := by
  induction rest generalizing pre b with
  | nil =>
    simp [layoutsOf, layout_lines, termLines_append, printStar_cons, printBlock_eq, printStar]
  | cons b2 rest ih =>
    have h := ih [eLine, eLine] b2
    rw [printStar_cons, printBlock_eq]
    simp only [layoutsOf, List.flatMap_cons, List.map_append, termLines_append, layout_lines, List.append_assoc] at h ⊢
    rw [h]
    rw [printStar_cons nc b2 rest, printBlock_eq]
    simp [termLines, eLine, Line.text, render]

theorem docOf_text (nc : Bool) (bs : List Block) (h : bs ≠ []) : (docOf nc bs).text = printStar nc bs := by
  obtain ⟨b, rest, rfl⟩ := List.exists_cons_of_ne_nil h
  unfold Doc.text Doc.lines docOf
  have : ((layoutsOf nc [eLine] (b :: rest)).flatMap BlockLayout.lines ++ [eLine, eLine]).map Line.text =
      (((layoutsOf nc [eLine] (b :: rest)).flatMap BlockLayout.lines).map Line.text ++ [[]]) ++ [[]] := by
    simp [eLine, Line.text, render]
  simp only [this]
  rw [joinLines_snoc_nil, termLines_append]
  have h2 := layouts_text nc [eLine] b rest
  have h3 : termLines [[]] = ['\n'] := rfl
  rw [h3, h2, printStar_cons, printBlock_eq]
  simp [termLines, eLine, Line.text, render]

end CryoCat.C02
