import CryoCat.Lemmas.C10
/-! C10 — the code's own arithmetic for the subunit offset (polar form: `rho = sqrt(s0²+s1²)`, `the = arctan2(s1, s0)`,
`(rho·cos(the + deg2rad(phi_k)), rho·sin(…), s2)`, with `phi_k = k·(360/n)` evaluated as ONE product) equals the
Cartesian rotation `Rz(phi_k)·s` the orbit theorems are stated with — over any field, UNDER the identities `PolarExact`
(polar coordinates, angle addition), which hold for the real `sqrt` / `arg` / `cos` / `sin` (`Lemmas/C10_PolarReal`:
`realPolar_exact`); the abstract version factors the algebra, the substance is the instance over ℝ. -/
namespace CryoCat.C10
variable {α : Type} [_root_.Field α]

/-- the identities the polar form relies on, taken as HYPOTHESES about the numeric services: `(rho, the)` are polar
coordinates of `(x, y)` (also at the origin, where `rho = 0`), `cos/sin(a + deg2rad d)` obey the addition formulas
against the degree-trigonometry `sv.trig d`, and `sv.trig` turns sums of degrees into angle sums. These ARE the
mathematical content of "polar form = rotation": the theorems below (`centerShift_eq`, `expandP_eq`) only carry them
through the algebra of the function (linear combinations, induction over `k`, the list structure). The identities hold
for the real `sqrt` / `arg` / `cos` / `sin` (`realPolar_exact` in `Lemmas/C10_PolarReal`), which is where the statement
has substance; binary64 `libm` meets them only approximately (the driver's results are compared with tolerance). -/
structure PolarExact (sv : Svc α) (pv : PolarSvc α) : Prop where
  polar_x : ∀ x y, pv.sqrt (x * x + y * y) * pv.cosr (pv.atan2 y x) = x
  polar_y : ∀ x y, pv.sqrt (x * x + y * y) * pv.sinr (pv.atan2 y x) = y
  cos_add_deg : ∀ a d, pv.cosr (a + pv.deg2rad d) = pv.cosr a * (sv.trig d).c - pv.sinr a * (sv.trig d).s
  sin_add_deg : ∀ a d, pv.sinr (a + pv.deg2rad d) = pv.sinr a * (sv.trig d).c + pv.cosr a * (sv.trig d).s
  trig_add : ∀ x y, sv.trig (x + y) = (sv.trig x).add (sv.trig y)
  trig_zero : sv.trig 0 = Ang.zero

variable {sv : Svc α} {pv : PolarSvc α}

/-- **polar form = Cartesian rotation**: `center_shift[k]` as the code computes it is `Rz(phi)·s` — for every offset,
also on the axis (`rho = 0`, where `arctan2(0, 0)` is whatever it is) -/
theorem centerShift_eq (h : PolarExact sv pv) (s : V3 α) (d : α) :
    centerShift pv s d = (sv.trig d).rz.apply s := by
  have hx := h.polar_x s.x s.y
  have hy := h.polar_y s.x s.y
  ext
  · simp only [centerShift, Ang.rz, CryoCat.rz, M3.apply, h.cos_add_deg]
    linear_combination (sv.trig d).c * hx - (sv.trig d).s * hy
  · simp only [centerShift, Ang.rz, CryoCat.rz, M3.apply, h.sin_add_deg]
    linear_combination (sv.trig d).c * hy + (sv.trig d).s * hx
  · simp only [centerShift, Ang.rz, CryoCat.rz, M3.apply]
    ring

/-- one trig evaluation of the product `k·x` degrees = `k` angle additions of `x` degrees -/
theorem trig_nat_mul (h : PolarExact sv pv) (k : Nat) (x : α) : sv.trig ((k : α) * x) = Ang.nsmul k (sv.trig x) := by
  induction k with
  | zero => simp [Ang.nsmul, h.trig_zero]
  | succ k ih =>
    have e : ((k + 1 : Nat) : α) * x = (k : α) * x + x := by push_cast; ring
    rw [e, h.trig_add, ih, Ang.nsmul_succ]

/-- the in-plane angle the code hands to `from_euler` (`phi_k = k·(360/n)`) is `k` steps of the model's step angle -/
theorem trig_phiDeg (h : PolarExact sv pv) (n k : Nat) : sv.trig (phiDeg n k) = Ang.nsmul k (stepAng sv n) := by
  unfold phiDeg stepAng
  exact trig_nat_mul h k _

/-- **the code's arithmetic for one subunit IS the Cartesian model** -/
theorem subunitP_eq (h : PolarExact sv pv) (n : Nat) (s : V3 α) (P : Particle α) (k : Nat) :
    subunitP sv pv n s P k = subunit sv n s P k := by
  unfold subunitP subunit
  rw [centerShift_eq h, trig_phiDeg h]

variable [LE α] [DecidableLE α]

/-- **… and for the whole function**: every theorem about `expand` is a theorem about `expandP`, the definition the
driver executes against the real code -/
theorem expandP_eq (h : PolarExact sv pv) (n : Nat) (s : V3 α) (l : List (Particle α)) :
    expandP sv pv n s l = expand sv n s l := by
  unfold expandP expand expandCore
  have : (fun P => (List.range n).map (subunitP sv pv n s P)) = (fun P => (List.range n).map (subunit sv n s P)) := by
    funext P; congr 1; funext k; exact subunitP_eq h n s P k
  rw [this]

theorem expandSymP_eq (h : PolarExact sv pv) (sym : Sym) (s : V3 α) (l : List (Particle α)) :
    expandSymP sv pv sym s l = expandSym sv sym s l := by
  unfold expandSymP expandSym
  cases parseSym sym <;> simp only [expandP_eq h]

end CryoCat.C10
