import CryoCat.Lemmas.C10_Polar
import CryoCat.Lemmas.C10_Real
import Mathlib.Analysis.SpecialFunctions.Complex.Arg
/-! C10 — over ℝ the services of the polar form are the true functions: `Real.sqrt`, `arctan2(y, x) = arg (x + i y)`
(range (-π, π], value 0 at the origin — numpy's `arctan2` on reals without signed zeros), `deg2rad d = d·π/180`,
`Real.cos`, `Real.sin`; they meet `PolarExact` against `realSvc`. -/
namespace CryoCat.C10
open Real

/-- numpy's `sqrt`, `arctan2`, `deg2rad`, `cos`, `sin` on real numbers -/
noncomputable def realPolar : PolarSvc ℝ :=
  { sqrt := Real.sqrt, atan2 := fun y x => Complex.arg ⟨x, y⟩, deg2rad := fun d => d * (π / 180),
    cosr := Real.cos, sinr := Real.sin }

private theorem norm_mk (x y : ℝ) : ‖(⟨x, y⟩ : ℂ)‖ = √(x * x + y * y) := by
  rw [Complex.norm_def, Complex.normSq_apply]

theorem realPolar_exact : PolarExact realSvc realPolar where
  polar_x := by
    intro x y
    show √(x * x + y * y) * Real.cos (Complex.arg ⟨x, y⟩) = x
    by_cases hz : (⟨x, y⟩ : ℂ) = 0
    · have hx : x = 0 := by simpa using congrArg Complex.re hz
      have hy : y = 0 := by simpa using congrArg Complex.im hz
      subst hx; subst hy; simp
    · rw [Complex.cos_arg hz, norm_mk]
      have hpos : √(x * x + y * y) ≠ 0 := by rw [← norm_mk]; exact norm_ne_zero_iff.2 hz
      rw [mul_comm, div_mul_cancel₀ _ hpos]
  polar_y := by
    intro x y
    show √(x * x + y * y) * Real.sin (Complex.arg ⟨x, y⟩) = y
    by_cases hz : (⟨x, y⟩ : ℂ) = 0
    · have hx : x = 0 := by simpa using congrArg Complex.re hz
      have hy : y = 0 := by simpa using congrArg Complex.im hz
      subst hx; subst hy; simp
    · rw [Complex.sin_arg, norm_mk]
      have hpos : √(x * x + y * y) ≠ 0 := by rw [← norm_mk]; exact norm_ne_zero_iff.2 hz
      rw [mul_comm, div_mul_cancel₀ _ hpos]
  cos_add_deg := by
    intro a d
    show Real.cos (a + d * (π / 180)) = Real.cos a * Real.cos (d * (π / 180)) - Real.sin a * Real.sin (d * (π / 180))
    exact Real.cos_add _ _
  sin_add_deg := by
    intro a d
    show Real.sin (a + d * (π / 180)) = Real.sin a * Real.cos (d * (π / 180)) + Real.cos a * Real.sin (d * (π / 180))
    exact Real.sin_add _ _
  trig_add := trigDeg_add
  trig_zero := trigDeg_zero

/-- the range of the model's `arctan2`: (-π, π], as numpy's -/
theorem realPolar_atan2_range (y x : ℝ) : -π < realPolar.atan2 y x ∧ realPolar.atan2 y x ≤ π :=
  ⟨Complex.neg_pi_lt_arg _, Complex.arg_le_pi _⟩

/-- on the axis (`x = y = 0`) the polar radius is 0 and the azimuth 0: the offset stays `(0, 0, z)` -/
theorem realPolar_on_axis : realPolar.sqrt (0 * 0 + 0 * 0) = 0 ∧ realPolar.atan2 0 0 = 0 := by
  constructor
  · show √(0 * 0 + 0 * 0) = 0
    simp
  · show Complex.arg ⟨0, 0⟩ = 0
    have : (⟨0, 0⟩ : ℂ) = 0 := rfl
    rw [this, Complex.arg_zero]

end CryoCat.C10
