import CryoCat.Lemmas.C16_Filter
/-! C16 — integer-typed stacks (open finding C16-K1): truncation toward zero at the reals, the strict bound `gain < 1` away from the
zero frequency, and the 1 × 2 filter in closed form — the ingredients of the witness `int_stack_counterexample` of `Props/C16`. -/
namespace CryoCat.C16

/-- truncation toward zero (numpy's float → integer conversion) at the reals -/
noncomputable def truncR (r : ℝ) : Int := if 0 ≤ r then ⌊r⌋ else ⌈r⌉

theorem truncR_of_lt_one {r : ℝ} (h0 : 0 ≤ r) (h1 : r < 1) : truncR r = 0 := by
  unfold truncR
  rw [if_pos h0]
  exact Int.floor_eq_zero_iff.2 ⟨h0, h1⟩

theorem truncR_intCast (n : Int) : truncR (n : ℝ) = n := by
  unfold truncR
  split <;> simp

/-- 1 × 2 integer images next to the 1 × 2 real images of `dft12` -/
noncomputable def io12 : IntIO (ℝ × ℝ) (Int × Int) :=
  { ofInt := fun p => ((p.1 : ℝ), (p.2 : ℝ))
    trunc := fun p => (truncR p.1, truncR p.2) }

theorem io12_roundtrip (p : Int × Int) : io12.trunc (io12.ofInt p) = p := by
  simp [io12, truncR_intCast]

/-- away from zero frequency a positive dose attenuates STRICTLY -/
theorem atten_lt_one (g : GG ℝ) (ha : 0 ≤ g.a) (hc : 0 < g.c) {f : ℝ} (hf : 0 ≤ f) {d : ℝ} (hd : 0 < d) :
    atten realOps g d f < 1 := by
  have hp : 0 < 2 * (g.a * f ^ g.b + g.c) := by
    have := critExp_pos g ha hc hf
    simp only [critExp, realOps] at this
    linarith
  rw [atten_real, Real.exp_lt_one_iff]
  exact div_neg_of_neg_of_pos (by linarith) hp

theorem gainK_lt_one (g : GG ℝ) (W H : Nat) (px : ℝ) {kx ky : Int} (h : ¬ (kx = 0 ∧ ky = 0)) (ha : 0 ≤ g.a) (hc : 0 < g.c)
    {d : ℝ} (hd : 0 < d) : gainK realOps g W H px d kx ky < 1 := by
  unfold gainK
  rw [if_neg h]
  exact atten_lt_one g ha hc (freqK_nonneg W H px kx ky) hd

/-- the two multipliers of a 1 × 2 image: `1` at zero frequency, `γ ∈ (0, 1)` at the Nyquist column for a positive dose -/
theorem mult12 (px : ℝ) {d : ℝ} (hd : 0 < d) :
    mult realOps (gg realOps) 2 1 px d 0 0 = 1 ∧
    0 < mult realOps (gg realOps) 2 1 px d 0 1 ∧ mult realOps (gg realOps) 2 1 px d 0 1 < 1 := by
  have e0 : mult realOps (gg realOps) 2 1 px d 0 0 = gainK realOps (gg realOps) 2 1 px d (sfreq 2 0) (sfreq 1 0) :=
    mult_eq_gainK _ _ _ _ (by decide) (by decide)
  have e1 : mult realOps (gg realOps) 2 1 px d 0 1 = gainK realOps (gg realOps) 2 1 px d (sfreq 2 1) (sfreq 1 0) :=
    mult_eq_gainK _ _ _ _ (by decide) (by decide)
  have s0 : sfreq 2 0 = 0 := by decide
  have s1 : sfreq 2 1 = -1 := by decide
  have s2 : sfreq 1 0 = 0 := by decide
  refine ⟨by rw [e0, s0, s2, gainK_dc], by rw [e1]; exact gainK_pos _ _ _ _ _ _ _, ?_⟩
  rw [e1, s1, s2]
  exact gainK_lt_one _ _ _ _ (by decide) (by rw [gg_real]; exact ggDoc_a_nonneg) (by rw [gg_real]; exact ggDoc_c_pos) hd

/-- the 1 × 2 filter in closed form -/
theorem filt12 (px d a b : ℝ) :
    filt dft12 px d (a, b)
      = ((mult realOps (gg realOps) 2 1 px d 0 0 * (a + b) + mult realOps (gg realOps) 2 1 px d 0 1 * (a - b)) / 2,
         (mult realOps (gg realOps) 2 1 px d 0 0 * (a + b) - mult realOps (gg realOps) 2 1 px d 0 1 * (a - b)) / 2) := by
  unfold filt
  rw [doseFilterSingle_eq]
  simp [dft12, Cx.smul]

end CryoCat.C16
