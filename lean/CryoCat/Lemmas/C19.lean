import CryoCat.Model.C19
/-! Helper lemmas for C19 (core Lean only). `ids` = the particle positions held by a table. -/
namespace CryoCat.C19
set_option linter.unusedSectionVars false
variable {α : Type} [LE α] [LT α] [DecidableLE α] [DecidableLT α] [DecidableEq α]

def ids (l : List (Row α)) : List Nat := l.map (·.idx)

theorem ids_map_of (f : Row α → Row α) (hf : ∀ r, (f r).idx = r.idx) (l : List (Row α)) :
    ids (l.map f) = ids l := by
  simp only [ids, List.map_map]
  apply List.map_congr_left
  intro r _
  exact hf r

@[simp] theorem ids_updObj (p : Row α → Bool) (v : Int) (l : List (Row α)) : ids (updObj p v l) = ids l := by
  unfold updObj; apply ids_map_of; intro r; split <;> rfl
@[simp] theorem ids_addOrd (p : Row α → Bool) (v : Int) (l : List (Row α)) : ids (addOrd p v l) = ids l := by
  unfold addOrd; apply ids_map_of; intro r; split <;> rfl
@[simp] theorem ids_setDist (p : Row α → Bool) (v : α) (l : List (Row α)) : ids (setDist p v l) = ids l := by
  unfold setDist; apply ids_map_of; intro r; split <;> rfl

@[simp] theorem ids_relabelChain (a b : Int) (l : List (Row α)) : ids (relabelChain a b l) = ids l := by
  unfold relabelChain; apply ids_map_of; intro r; rfl
@[simp] theorem ids_setObjChain (a : Int) (l : List (Row α)) : ids (setObjChain a l) = ids l := by
  unfold setObjChain; apply ids_map_of; intro r; rfl

@[simp] theorem ids_renumRows (p : Row α → Bool) (k : Int) (l : List (Row α)) : ids (renumRows p k l) = ids l := by
  induction l generalizing k with
  | nil => rfl
  | cons r rs ih =>
    simp only [renumRows]
    split
    · simp only [ids, List.map_cons] at ih ⊢; rw [ih]
    · simp only [ids, List.map_cons] at ih ⊢; rw [ih]

@[simp] theorem ids_setLastDist (v : α) : ∀ l : List (Row α), ids (setLastDist v l) = ids l
  | [] => rfl
  | [_] => rfl
  | r :: r' :: rs => by
    have ih := ids_setLastDist v (r' :: rs)
    simp only [setLastDist, ids, List.map_cons] at ih ⊢
    rw [ih]

@[simp] theorem ids_mkChainFrom (cls : Int) (k : Int) (ms : List (Nat × α)) :
    ids (mkChainFrom cls k ms) = ms.map Prod.fst := by
  induction ms generalizing k with
  | nil => rfl
  | cons m ms ih =>
    obtain ⟨i, x⟩ := m
    simp only [mkChainFrom, ids, List.map_cons] at ih ⊢
    rw [ih]

theorem addSuffix_ids (o : Opts) (nfm ch : List (Row α)) (j : Nat) (dj : α) :
    ids (addSuffix o nfm ch j dj).1 = ids nfm ∧ ids (addSuffix o nfm ch j dj).2.1 = ids ch := by
  unfold addSuffix
  split
  · exact ⟨rfl, rfl⟩
  · dsimp only
    repeat' split
    all_goals (constructor <;> simp)

theorem addPrefix_ids (o : Opts) (nfm ch : List (Row α)) (j : Nat) (dj : α) (cm : Option (Int × Int)) :
    ids (addPrefix o nfm ch j dj cm).1 = ids nfm ∧ ids (addPrefix o nfm ch j dj cm).2.1 = ids ch := by
  unfold addPrefix
  split
  · exact ⟨rfl, rfl⟩
  · dsimp only
    repeat' split
    all_goals (constructor <;> simp)

theorem suffixPart_ids (o : Opts) (nfm ch : List (Row α)) (fi : Option (Nat × α)) :
    ids (suffixPart o nfm ch fi).1 = ids nfm ∧ ids (suffixPart o nfm ch fi).2.1 = ids ch := by
  unfold suffixPart
  split
  · exact addSuffix_ids ..
  · exact ⟨rfl, rfl⟩

theorem prefixPart_ids (o : Opts) (s : List (Row α) × List (Row α) × Bool × List Tag) (nm : Option (Nat × α))
    (classC : Int) :
    ids (prefixPart o s nm classC).1 = ids s.1 ∧ ids (prefixPart o s nm classC).2.1 = ids s.2.1 := by
  unfold prefixPart
  split
  · exact addPrefix_ids ..
  · exact ⟨rfl, rfl⟩

theorem merge_ids (o : Opts) (c : Cfg α) (nfm ch : List (Row α)) (first last : Nat) (single : Bool) (classC : Int) :
    ids (merge o c nfm ch first last single classC).1 = ids nfm ∧
    ids (merge o c nfm ch first last single classC).2.1 = ids ch := by
  unfold merge
  dsimp only
  exact ⟨(prefixPart_ids ..).1.trans (suffixPart_ids ..).1, (prefixPart_ids ..).2.trans (suffixPart_ids ..).2⟩

/-! ### nearest-neighbour search -/

theorem argmin_some (key : Nat → α) : ∀ (l : List Nat) (j : Nat) (x : α),
    argmin key l = some (j, x) → j ∈ l ∧ x = key j
  | [], _, _, h => by simp [argmin] at h
  | a :: as, j, x, h => by
    simp only [argmin] at h
    split at h
    · simp only [Option.some.injEq, Prod.mk.injEq] at h
      obtain ⟨rfl, rfl⟩ := h
      exact ⟨by simp, rfl⟩
    · rename_i k dk hk
      split at h
      · simp only [Option.some.injEq, Prod.mk.injEq] at h
        obtain ⟨rfl, rfl⟩ := h
        have := argmin_some key as k dk hk
        exact ⟨List.mem_cons_of_mem _ this.1, this.2⟩
      · simp only [Option.some.injEq, Prod.mk.injEq] at h
        obtain ⟨rfl, rfl⟩ := h
        exact ⟨by simp, rfl⟩

theorem nearestEntry_some (o : Opts) (c : Cfg α) (i : Nat) (ok : Nat → Bool) (j : Nat) (x : α)
    (h : nearestEntry o c i ok = some (j, x)) :
    j < c.n ∧ ok j = true ∧ inWin o c (c.d i j) = true ∧ x = c.d i j := by
  have := argmin_some _ _ _ _ h
  obtain ⟨hm, hx⟩ := this
  simp only [List.mem_filter, List.mem_range, Bool.and_eq_true] at hm
  exact ⟨hm.1, hm.2.1, hm.2.2, hx⟩

theorem nearestExit_some (o : Opts) (c : Cfg α) (i : Nat) (ok : Nat → Bool) (j : Nat) (x : α)
    (h : nearestExit o c i ok = some (j, x)) :
    j < c.n ∧ ok j = true ∧ inWin o c (c.d j i) = true ∧ x = c.d j i := by
  have := argmin_some _ _ _ _ h
  obtain ⟨hm, hx⟩ := this
  simp only [List.mem_filter, List.mem_range, Bool.and_eq_true] at hm
  exact ⟨hm.1, hm.2.1, hm.2.2, hx⟩


/-! ### the tracing loop -/

/-- members of a traced chain: the start, then only active particles (not yet traced, not yet in
the chain), all different -/
theorem traceChain_members (o : Opts) (c : Cfg α) (traced : List Nat) :
    ∀ (fuel p : Nat) (used : List Nat),
      (∃ tl, (traceChain o c traced fuel p used).map Prod.fst = p :: tl ∧
        (∀ m ∈ tl, m < c.n ∧ m ∉ traced ∧ m ∉ p :: used) ∧ (p :: tl).Nodup)
  | 0, p, used => ⟨[], rfl, by simp, by simp⟩
  | fuel + 1, p, used => by
    unfold traceChain
    split
    · exact ⟨[], rfl, by simp, by simp⟩
    · rename_i j dj hj
      obtain ⟨hjn, hok, _, _⟩ := nearestEntry_some o c p _ j dj hj
      obtain ⟨tl, htl, hmem, hnd⟩ := traceChain_members o c traced fuel j (p :: used)
      simp only [Bool.and_eq_true, Bool.not_eq_true', List.contains_eq_mem, decide_eq_false_iff_not] at hok
      refine ⟨j :: tl, by simp [htl], ?_, ?_⟩
      · intro m hm
        rcases List.mem_cons.1 hm with rfl | hm
        · exact ⟨hjn, hok.1, hok.2⟩
        · have := hmem m hm
          exact ⟨this.1, this.2.1, fun h => this.2.2 (List.mem_cons_of_mem _ h)⟩
      · refine List.nodup_cons.2 ⟨?_, hnd⟩
        intro hp
        rcases List.mem_cons.1 hp with rfl | hp
        · exact hok.2 (by simp)
        · exact (hmem p hp).2.2 (by simp)

/-- the invariant of the outer loop: the table holds distinct particles of this tomogram -/
def Inv (c : Cfg α) (st : State α) : Prop := (ids st.nfm).Nodup ∧ ∀ j ∈ ids st.nfm, j < c.n

theorem step_ids (o : Opts) (c : Cfg α) (st : State α) (i : Nat) :
    ids (step o c st i).nfm =
      if i ∈ ids st.nfm then ids st.nfm
      else ids st.nfm ++ (traceChain o c (ids st.nfm) c.n i []).map Prod.fst := by
  unfold step
  by_cases h : i ∈ ids st.nfm
  · have : (List.map (fun x => x.idx) st.nfm).contains i = true := by simpa [ids] using h
    simp only [this, if_true, h]
  · have : (List.map (fun x => x.idx) st.nfm).contains i = false := by simpa [ids] using h
    simp only [this, if_neg h]
    simp only [Bool.false_eq_true, if_false]
    have e : ∀ a b : List (Row α), ids (a ++ b) = ids a ++ ids b := fun a b => List.map_append
    split
    · refine (e _ _).trans ?_
      exact congrArg (ids st.nfm ++ ·) (ids_mkChainFrom ..)
    · refine (e _ _).trans ?_
      have h1 := (merge_ids o c st.nfm (mkChainFrom st.classC 1 (traceChain o c (List.map (fun x => x.idx) st.nfm) c.n i [])) i
        (match (traceChain o c (List.map (fun x => x.idx) st.nfm) c.n i []).getLast? with | some (p, _) => p | none => i)
        ((traceChain o c (List.map (fun x => x.idx) st.nfm) c.n i []).length == 1) (st.classC + 1))
      exact (congrArg (· ++ _) h1.1).trans (congrArg (ids st.nfm ++ ·) (h1.2.trans (ids_mkChainFrom ..)))

theorem step_inv (o : Opts) (c : Cfg α) (st : State α) (i : Nat) (hi : i < c.n) (h : Inv c st) :
    Inv c (step o c st i) ∧ i ∈ ids (step o c st i).nfm ∧ ∀ j ∈ ids st.nfm, j ∈ ids (step o c st i).nfm := by
  rw [step_ids]
  unfold Inv
  rw [step_ids]
  by_cases hin : i ∈ ids st.nfm
  · simp only [if_pos hin]
    exact ⟨h, hin, fun j hj => hj⟩
  · simp only [if_neg hin]
    obtain ⟨tl, htl, hmem, hnd⟩ := traceChain_members o c (ids st.nfm) c.n i []
    rw [htl]
    refine ⟨⟨?_, ?_⟩, by simp, fun j hj => List.mem_append_left _ hj⟩
    · refine List.nodup_append.2 ⟨h.1, hnd, ?_⟩
      intro a ha b hb hab
      subst hab
      rcases List.mem_cons.1 hb with rfl | hb
      · exact hin ha
      · exact (hmem a hb).2.1 ha
    · intro j hj
      rcases List.mem_append.1 hj with hj | hj
      · exact h.2 j hj
      · rcases List.mem_cons.1 hj with rfl | hj
        · exact hi
        · exact (hmem j hj).1

theorem fold_inv (o : Opts) (c : Cfg α) : ∀ (L : List Nat) (st : State α), (∀ i ∈ L, i < c.n) → Inv c st →
    Inv c (L.foldl (step o c) st) ∧ (∀ j ∈ ids st.nfm, j ∈ ids (L.foldl (step o c) st).nfm) ∧
      ∀ i ∈ L, i ∈ ids (L.foldl (step o c) st).nfm
  | [], st, _, h => ⟨h, fun _ hj => hj, by simp⟩
  | a :: L, st, hL, h => by
    obtain ⟨h1, h2, h3⟩ := step_inv o c st a (hL a (by simp)) h
    obtain ⟨g1, g2, g3⟩ := fold_inv o c L (step o c st a) (fun i hi => hL i (List.mem_cons_of_mem _ hi)) h1
    simp only [List.foldl_cons]
    refine ⟨g1, fun j hj => g2 j (h3 j hj), ?_⟩
    intro i hi
    rcases List.mem_cons.1 hi with rfl | hi
    · exact g2 _ h2
    · exact g3 i hi

/-- every particle of the tomogram is in the result exactly once -/
theorem run_ids_perm (o : Opts) (c : Cfg α) : (ids (run o c).nfm).Perm (List.range c.n) := by
  obtain ⟨⟨hnd, hlt⟩, _, hall⟩ := fold_inv o c (List.range c.n) { nfm := [], classC := 1, tags := [] }
    (fun i hi => List.mem_range.1 hi) ⟨by simp [ids], by simp [ids]⟩
  refine (List.perm_ext_iff_of_nodup hnd List.nodup_range).2 ?_
  intro a
  exact ⟨fun ha => List.mem_range.2 (hlt a ha), fun ha => hall a ha⟩

theorem runAll_keys_perm (o : Opts) : ∀ (cs : List (Cfg α)) (k : Nat),
    (((cs.zipIdx k).flatMap (fun (c, t) => (run o c).nfm.map (fun r => (t, r)))).map (fun r => (r.1, r.2.idx))).Perm
      ((cs.zipIdx k).flatMap (fun (c, t) => (List.range c.n).map (fun i => (t, i))))
  | [], _ => by simp
  | c :: cs, k => by
    simp only [List.zipIdx_cons, List.flatMap_cons, List.map_append]
    refine List.Perm.append ?_ (runAll_keys_perm o cs (k + 1))
    have := (run_ids_perm o c).map (fun i => (k, i))
    simp only [ids, List.map_map] at this ⊢
    exact this


theorem allKeys_mem (cs : List (Cfg α)) (k : Nat) (t i : Nat)
    (h : (t, i) ∈ (cs.zipIdx k).flatMap (fun (c, t) => (List.range c.n).map (fun i => (t, i)))) :
    ∃ c, cs[t - k]? = some c ∧ k ≤ t ∧ i < c.n := by
  induction cs generalizing k with
  | nil => simp at h
  | cons c cs ih =>
    simp only [List.zipIdx_cons, List.flatMap_cons, List.mem_append, List.mem_map, List.mem_range,
      Prod.mk.injEq] at h
    rcases h with ⟨i', hi', rfl, rfl⟩ | h
    · exact ⟨c, by simp, Nat.le_refl _, hi'⟩
    · obtain ⟨c', hc', hk, hi⟩ := ih (k + 1) h
      refine ⟨c', ?_, by omega, hi⟩
      have : t - k = (t - (k + 1)) + 1 := by omega
      rw [this, List.getElem?_cons_succ]
      exact hc'

/-- a freshly built chain is numbered k, k+1, … in chain order -/
theorem mkChainFrom_ords (cls : Int) (k : Int) (ms : List (Nat × α)) :
    (mkChainFrom cls k ms).map (·.ord) = (List.range ms.length).map (fun (i : Nat) => Int.ofNat i + k) := by
  induction ms generalizing k with
  | nil => rfl
  | cons m ms ih =>
    obtain ⟨i, x⟩ := m
    simp only [mkChainFrom, List.map_cons, List.length_cons, List.range_succ_eq_map, List.map_map, ih]
    refine congr (congrArg List.cons (by simp)) ?_
    apply List.map_congr_left
    intro a _
    simp only [Function.comp, Int.ofNat_eq_natCast, Int.natCast_succ]
    omega

theorem mkChainFrom_objs (cls : Int) (k : Int) (ms : List (Nat × α)) :
    ∀ r ∈ mkChainFrom cls k ms, r.obj = cls := by
  induction ms generalizing k with
  | nil => simp [mkChainFrom]
  | cons m ms ih =>
    obtain ⟨i, x⟩ := m
    intro r hr
    simp only [mkChainFrom, List.mem_cons] at hr
    rcases hr with rfl | hr
    · rfl
    · exact ih (k + 1) r hr

/-! ### links made by the tracing loop -/

/-- consecutive members of a freshly traced chain: the stored value is the exit→entry squared
distance and it passed the radius/min filter -/
def Linked (o : Opts) (c : Cfg α) : List (Nat × α) → Prop
  | [] => True
  | [_] => True
  | (a, da) :: (b, db) :: rest => da = c.d a b ∧ inWin o c (c.d a b) = true ∧ Linked o c ((b, db) :: rest)

theorem traceChain_head (o : Opts) (c : Cfg α) (traced : List Nat) (fuel p : Nat) (used : List Nat) :
    ∃ x tl, traceChain o c traced fuel p used = (p, x) :: tl := by
  cases fuel with
  | zero => exact ⟨_, _, rfl⟩
  | succ f =>
    unfold traceChain
    split
    · exact ⟨_, _, rfl⟩
    · exact ⟨_, _, rfl⟩

theorem traceChain_linked (o : Opts) (c : Cfg α) (traced : List Nat) :
    ∀ (fuel p : Nat) (used : List Nat), Linked o c (traceChain o c traced fuel p used)
  | 0, p, used => by simp [traceChain, Linked]
  | fuel + 1, p, used => by
    unfold traceChain
    split
    · simp [Linked]
    · rename_i j dj hj
      obtain ⟨_, _, hw, hx⟩ := nearestEntry_some o c p _ j dj hj
      obtain ⟨x, tl, htl⟩ := traceChain_head o c traced fuel j (p :: used)
      have ih := traceChain_linked o c traced fuel j (p :: used)
      rw [htl] at ih ⊢
      exact ⟨hx, hw, ih⟩

/-- the filter of `get_nn_dist` with the documented operators: what passes lies in `(lo, hi]`,
whatever `min_distance` is (also 0) -/
theorem inWin_documented (c : Cfg α) (x : α) (h : inWin Opts.documented c x = true) :
    x ≤ c.hi ∧ c.lo < x := by
  simp only [inWin, Opts.documented, Cmp.eval, Bool.and_eq_true, decide_eq_true_eq, Bool.true_or,
    if_true] at h
  exact h

/-- and nothing else is asked: every value of `(lo, hi]` passes -/
theorem inWin_documented_iff (c : Cfg α) (x : α) :
    inWin Opts.documented c x = true ↔ x ≤ c.hi ∧ c.lo < x := by
  simp only [inWin, Opts.documented, Cmp.eval, Bool.and_eq_true, decide_eq_true_eq, Bool.true_or,
    if_true]

/-- consecutive members of a chain: the stored value is the exit→entry squared distance of the link
and lies in `(lo, hi]` -/
def LinkedWin (c : Cfg α) : List (Nat × α) → Prop
  | [] => True
  | [_] => True
  | (a, da) :: (b, db) :: rest => da = c.d a b ∧ c.lo < da ∧ da ≤ c.hi ∧ LinkedWin c ((b, db) :: rest)

theorem linked_win (c : Cfg α) : ∀ l : List (Nat × α), Linked Opts.documented c l → LinkedWin c l
  | [], _ => trivial
  | [_], _ => trivial
  | (a, da) :: (b, db) :: rest, h => by
    obtain ⟨h1, h2, h3⟩ := h
    obtain ⟨h4, h5⟩ := inWin_documented c _ h2
    exact ⟨h1, h1 ▸ h5, h1 ▸ h4, linked_win c _ h3⟩

/-! ### concrete arrangements (coordinates in units of 1/10 resp. 1/8; used by the witnesses in `Props/C19`) -/

def d2Int (a b : Int × Int × Int) : Int :=
  (a.1 - b.1) * (a.1 - b.1) + (a.2.1 - b.2.1) * (a.2.1 - b.2.1) + (a.2.2 - b.2.2) * (a.2.2 - b.2.2)

/-- tomogram from (entry, exit) integer coordinates -/
def cfgOfPts (pts : List ((Int × Int × Int) × (Int × Int × Int))) (maxS minS : Int) : Cfg Int :=
  { n := pts.length
    d := fun i j => d2Int (pts.getD i ((0, 0, 0), (0, 0, 0))).2 (pts.getD j ((0, 0, 0), (0, 0, 0))).1
    g4 := fun _ => 0, hi := maxS * maxS, lo := minS * minS, minD := minS, zero := 0 }

/-- D18 (units 1/10, max_distance 3): a1, P, S0, L, b1, F -/
def ptsD18 : List ((Int × Int × Int) × (Int × Int × Int)) :=
  [((-60, 0, 0), (-600, 0, 0)), ((0, -200, 0), (0, 0, 0)), ((20, 0, 0), (20, 300, 0)),
   ((500, 500, 0), (35, -10, 0)), ((-29, 0, 0), (-50, 0, 0)), ((0, 25, 0), (0, 400, 0))]

/-- the double-cut arrangement (units 1/8, max_distance 3): a1, P, S0, L, b1, X, Y, F -/
def ptsDoubleCut : List ((Int × Int × Int) × (Int × Int × Int)) :=
  [((-48, 0, 0), (-480, 0, 0)), ((0, -160, 0), (0, 0, 0)), ((16, 0, 0), (16, 240, 0)),
   ((400, 400, 0), (28, -8, 0)), ((-23, 0, 0), (-40, 0, 0)), ((800, 328, 0), (8, 328, 0)),
   ((8, 345, 0), (8, 640, 0)), ((0, 20, 0), (8, 332, 0))]

/-- coincidence at `min_distance = 0` (units 1, max_distance 3): the exit site of particle 0 IS the
entry site of particle 1 -/
def ptsCoincide : List ((Int × Int × Int) × (Int × Int × Int)) :=
  [((0, 0, 0), (4, 0, 0)), ((4, 0, 0), (20, 0, 0))]

end CryoCat.C19
