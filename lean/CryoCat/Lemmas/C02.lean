import CryoCat.Model.C02_Layout
/-! C02 — helper lemmas, part 1: characters → tokens of one line; lines ↔ text. Core Lean only. -/
namespace CryoCat.C02

theorem hash_eq : hash = '#' := rfl
theorem nl_eq : nl = '\n' := rfl
theorem loopKw_eq : Gen.C02.loopKw = ['l', 'o', 'o', 'p', '_'] := rfl
theorem propPrefix_eq : Gen.C02.propPrefix = '_' := rfl

theorem ws_ne_hash {c : Char} (h : isWs c = true) : c ≠ '#' := by
  intro hc; subst hc; revert h; decide

theorem ws_ne_nl {c : Char} (h : isWs c = true) : c ≠ '\n' := by
  intro hc; subst hc; revert h; decide

theorem go_word (w : Word) (cur acc rest) (hw : ∀ c ∈ w, isWs c = false ∧ c ≠ '#' ∧ c ≠ '\n') :
    go cur acc (w ++ rest) = go (w.reverse ++ cur) acc rest := by
  induction w generalizing cur with
  | nil => simp
  | cons c w ih =>
    have hc := hw c (by simp)
    simp only [List.cons_append, go, hash_eq, hc.2.1, if_false, hc.1]
    rw [ih (c :: cur) (fun d hd => hw d (by simp [hd]))]
    simp

theorem go_pad (s : List Char) (acc rest) (hs : PadOk s) :
    go [] acc (s ++ rest) = go [] acc rest := by
  induction s with
  | nil => simp
  | cons c s ih =>
    have hc := hs c (by simp)
    have := ws_ne_hash hc
    simp only [List.cons_append, go, hash_eq, this, if_false, hc, if_true, flush]
    simpa using ih (fun d hd => hs d (by simp [hd]))

theorem go_sep (s : List Char) (cur acc rest) (hs : PadOk s) (hne : s ≠ []) :
    go cur acc (s ++ rest) = go [] (flush cur acc) rest := by
  cases s with
  | nil => exact absurd rfl hne
  | cons c s =>
    have hc := hs c (by simp)
    have := ws_ne_hash hc
    simp only [List.cons_append, go, hash_eq, this, if_false, hc, if_true]
    exact go_pad s _ rest (fun d hd => hs d (by simp [hd]))

theorem go_tail (cur acc tl) (ht : Tail tl) : go cur acc tl = finish (flush cur acc) tl := by
  rcases ht with rfl | ⟨c, rfl, _⟩ <;> simp [go, finish, hash_eq]

theorem go_render (items : List (Word × List Char)) (acc tl)
    (hw : ∀ p ∈ items, WordOk p.1 ∧ PadOk p.2) (hs : SepsOk items) (ht : Tail tl) :
    go [] acc (render items ++ tl) = finish ((items.map (·.1)).reverse ++ acc) tl := by
  induction items generalizing acc with
  | nil => simpa [render, flush] using go_tail [] acc tl ht
  | cons p rest ih =>
    obtain ⟨w, s⟩ := p
    have hp := hw (w, s) (by simp)
    have hwne : w.reverse ≠ [] := by simpa using hp.1.1
    simp only [render, List.append_assoc]
    rw [go_word w [] acc _ hp.1.2]
    simp only [List.append_nil]
    by_cases hsne : s = []
    · subst hsne
      cases rest with
      | nil =>
        simp only [List.nil_append, render]
        rw [go_tail _ _ _ ht]; simp [flush, hwne]
      | cons r rest => exact absurd rfl hs.1
    · rw [go_sep s _ _ _ hp.2 hsne]
      have hs' : SepsOk rest := by
        cases rest with
        | nil => trivial
        | cons r rest => exact hs.2
      rw [ih _ (fun q hq => hw q (by simp [hq])) hs']
      simp [flush, hwne]

theorem tokenizeLine_line (l : Line) (h : l.Ok) : tokenizeLine l.text = finish l.words.reverse l.tail := by
  obtain ⟨hl, hw, hs, ht⟩ := h
  unfold tokenizeLine Line.text
  rw [go_pad l.lead [] _ hl, go_render l.items [] l.tail hw hs ht]; simp [Line.words]

/-- the tokens of a rendered line -/
theorem lineToks_line (l : Line) (h : l.Ok) : lineToks l.text = l.toks := by
  unfold lineToks
  rw [tokenizeLine_line l h]
  unfold Line.toks
  cases htl : l.tail <;> simp [finish, commentToks]

/-! ### no line break inside a rendered line -/

theorem render_no_nl (items : List (Word × List Char)) (hw : ∀ p ∈ items, WordOk p.1 ∧ PadOk p.2) :
    '\n' ∉ render items := by
  induction items with
  | nil => simp [render]
  | cons p rest ih =>
    obtain ⟨w, s⟩ := p
    have hp := hw (w, s) (by simp)
    simp only [render, List.mem_append, not_or]
    refine ⟨⟨fun h => (hp.1.2 _ h).2.2 rfl, fun h => ws_ne_nl (hp.2 _ h) rfl⟩, ih (fun q hq => hw q (by simp [hq]))⟩

theorem line_no_nl (l : Line) (h : l.Ok) : '\n' ∉ l.text := by
  obtain ⟨hl, hw, _, ht⟩ := h
  simp only [Line.text, List.mem_append, not_or]
  refine ⟨fun hh => ws_ne_nl (hl _ hh) rfl, render_no_nl _ hw, ?_⟩
  rcases ht with h0 | ⟨c, hc, hn⟩
  · simp [h0]
  · rw [hc]; simp only [List.mem_cons, not_or]; exact ⟨by decide, hn⟩

theorem splitGo_line (l cur rest) (h : '\n' ∉ l) :
    splitGo cur (l ++ '\n' :: rest) = (cur.reverse ++ l) :: splitGo [] rest := by
  induction l generalizing cur with
  | nil => simp [splitGo, nl_eq]
  | cons c l ih =>
    have hc : c ≠ '\n' := fun e => h (by simp [e])
    simp only [List.cons_append, splitGo, nl_eq, hc, if_false]
    rw [ih (c :: cur) (fun hh => h (by simp [hh]))]; simp

theorem splitGo_last (l cur) (h : '\n' ∉ l) : splitGo cur l = [cur.reverse ++ l] := by
  induction l generalizing cur with
  | nil => simp [splitGo]
  | cons c l ih =>
    have hc : c ≠ '\n' := fun e => h (by simp [e])
    simp only [splitGo, nl_eq, hc, if_false]
    rw [ih (c :: cur) (fun hh => h (by simp [hh]))]; simp

/-- `text.split("\n")` of lines joined by line breaks gives the lines back -/
theorem splitLines_join (ls : List (List Char)) (hne : ls ≠ []) (h : ∀ l ∈ ls, '\n' ∉ l) :
    splitLines (joinLines ls) = ls := by
  unfold splitLines
  induction ls with
  | nil => exact absurd rfl hne
  | cons l ls ih =>
    cases ls with
    | nil => simpa [joinLines] using splitGo_last l [] (h l (by simp))
    | cons l' ls =>
      simp only [joinLines]
      rw [splitGo_line l [] _ (h l (by simp))]
      simp only [List.reverse_nil, List.nil_append]
      rw [ih (by simp) (fun x hx => h x (by simp [hx]))]

/-- the tokens of a text made of rendered lines -/
theorem tokenize_lines (ls : List Line) (hne : ls ≠ []) (h : ∀ l ∈ ls, l.Ok) :
    tokenize (joinLines (ls.map Line.text)) = ls.flatMap Line.toks := by
  unfold tokenize
  rw [splitLines_join _ (by simpa using hne) (by
    intro x hx
    obtain ⟨l, hl, rfl⟩ := List.mem_map.1 hx
    exact line_no_nl l (h l hl))]
  induction ls with
  | nil => rfl
  | cons l ls ih =>
    simp only [List.map_cons, List.flatMap_cons]
    rw [lineToks_line l (h l (by simp))]
    cases ls with
    | nil => simp
    | cons l' ls' =>
      have := ih (by simp) (fun x hx => h x (by simp [hx]))
      simp only [List.map_cons, List.flatMap_cons] at this
      simp only [List.map_cons, List.flatMap_cons, this]

end CryoCat.C02
