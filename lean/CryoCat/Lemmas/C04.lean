import CryoCat.Model.C04
/-! C04 — helper lemmas (core Lean only): folds of column assignments over an arbitrary renaming
table, by-name lookup in a row, the row-wise checker. -/
namespace CryoCat.C04
variable {α β : Type}

theorem SgField.mem_all (s : SgField) : s ∈ SgField.all := by cases s <;> decide

theorem SgRow.set_same (r : SgRow α) (f : SgField) (c : Cell α) : (r.set f c) f = c := by
  simp [SgRow.set]

theorem SgRow.set_other (r : SgRow α) (f g : SgField) (c : Cell α) (h : g ≠ f) : (r.set f c) g = r g := by
  simp [SgRow.set, h]

/-- a column that is no target of the renaming keeps its cell -/
theorem copyPairs_other (pairs : List (Field × SgField)) (p : Particle α) (r : SgRow α) (s : SgField)
    (hs : s ∉ pairs.map Prod.snd) : copyPairs pairs p r s = r s := by
  induction pairs generalizing r with
  | nil => rfl
  | cons a rest ih =>
    simp only [List.map_cons, List.mem_cons, not_or] at hs
    show copyPairs rest p (r.set a.2 (.num (p.get a.1))) s = r s
    rw [ih _ hs.2, SgRow.set_other _ _ _ _ hs.1]

/-- **export copies by name**: for ANY renaming table whose targets are pairwise distinct, after the
loop the column `s` holds field `e` of the particle, for every pair `(e, s)` of the table -/
theorem copyPairs_get (pairs : List (Field × SgField)) (hn : (pairs.map Prod.snd).Nodup)
    (p : Particle α) (r : SgRow α) (e : Field) (s : SgField) (hm : (e, s) ∈ pairs) :
    copyPairs pairs p r s = .num (p.get e) := by
  induction pairs generalizing r with
  | nil => cases hm
  | cons a rest ih =>
    simp only [List.map_cons, List.nodup_cons] at hn
    show copyPairs rest p (r.set a.2 (.num (p.get a.1))) s = _
    rcases List.mem_cons.1 hm with h | h
    · subst h
      rw [copyPairs_other _ _ _ _ hn.1, SgRow.set_same]
    · exact ih hn.2 _ h

theorem importFold_other (d : α) (pairs : List (Field × SgField)) (r : SgRow α) (p : Particle α) (f : Field)
    (hf : f ∉ pairs.map Prod.fst) : (importFold d pairs r p).get f = p.get f := by
  induction pairs generalizing p with
  | nil => rfl
  | cons a rest ih =>
    simp only [List.map_cons, List.mem_cons, not_or] at hf
    show (importFold d rest r (p.set a.1 ((r a.2).toNum d))).get f = _
    rw [ih _ hf.2, Particle.get_set_other _ _ _ _ hf.1]

/-- **import copies by name**: for ANY renaming table whose sources are pairwise distinct, after the
loop field `e` holds the cell of column `s`, for every pair `(e, s)` -/
theorem importFold_get (d : α) (pairs : List (Field × SgField)) (hn : (pairs.map Prod.fst).Nodup)
    (r : SgRow α) (p : Particle α) (e : Field) (s : SgField) (hm : (e, s) ∈ pairs) :
    (importFold d pairs r p).get e = (r s).toNum d := by
  induction pairs generalizing p with
  | nil => cases hm
  | cons a rest ih =>
    simp only [List.map_cons, List.nodup_cons] at hn
    show (importFold d rest r (p.set a.1 ((r a.2).toNum d))).get e = _
    rcases List.mem_cons.1 hm with h | h
    · subst h
      rw [importFold_other _ _ _ _ _ hn.1, Particle.get_set_same]
    · exact ih hn.2 _ h

/-- looking a column up by name in a row that was laid out in header order -/
theorem rowOfCells_map (d : Cell α) (cols : List SgField) (r : SgRow α) (s : SgField) (hs : s ∈ cols) :
    rowOfCells d cols (cols.map r) s = r s := by
  unfold rowOfCells
  induction cols with
  | nil => cases hs
  | cons a l ih =>
    simp only [List.map_cons, List.zip_cons_cons, List.lookup_cons]
    by_cases h : s = a
    · subst h; simp
    · have : (s == a) = false := by simpa using h
      rw [this]
      exact ih (by simpa [h] using hs)

theorem rowOfCells_map_cells (q : α → β) (d : Cell α) (cols : List SgField) (cells : List (Cell α)) (s : SgField) :
    rowOfCells (d.map q) cols (cells.map (Cell.map q)) s = (rowOfCells d cols cells s).map q := by
  unfold rowOfCells
  induction cols generalizing cells with
  | nil => simp
  | cons a l ih =>
    cases cells with
    | nil => simp
    | cons c cs =>
      simp only [List.map_cons, List.zip_cons_cons, List.lookup_cons]
      by_cases h : s = a
      · subst h; simp
      · have : (s == a) = false := by simpa using h
        rw [this]; exact ih cs


theorem Cell.isNum_iff (c : Cell α) : c.isNum = true ↔ ∃ v, c = .num v := by
  cases c <;> simp [Cell.isNum]

/-- when the column is in the header and the row has one cell per header entry, the lookup finds a
cell: the default of `rowOfCells` is never used -/
theorem rowOfCells_default (d d' : Cell α) (cols : List SgField) (cells : List (Cell α)) (s : SgField)
    (hs : s ∈ cols) (hl : cells.length = cols.length) :
    rowOfCells d cols cells s = rowOfCells d' cols cells s := by
  unfold rowOfCells
  induction cols generalizing cells with
  | nil => cases hs
  | cons a l ih =>
    cases cells with
    | nil => simp at hl
    | cons c cs =>
      simp only [List.zip_cons_cons, List.lookup_cons]
      by_cases h : s = a
      · subst h; simp
      · have : (s == a) = false := by simpa using h
        rw [this]
        exact ih cs (by simpa [h] using hs) (by simpa using hl)

/-- the row-wise checker accepts iff the lists have equal length and every aligned pair is accepted -/
theorem checkRows_iff (ok : Nat → Particle α → List (Cell α) → Bool) (i : Nat)
    (ps : List (Particle α)) (cs : List (List (Cell α))) :
    checkRows ok i ps cs = true ↔
      ps.length = cs.length ∧ ∀ j p c, ps[j]? = some p → cs[j]? = some c → ok (i + j) p c = true := by
  induction ps generalizing i cs with
  | nil =>
    cases cs with
    | nil => simp [checkRows]
    | cons c cs => simp [checkRows]
  | cons p ps ih =>
    cases cs with
    | nil => simp [checkRows]
    | cons c cs =>
      simp only [checkRows, Bool.and_eq_true, ih, List.length_cons, Nat.add_right_cancel_iff]
      constructor
      · rintro ⟨h0, hl, hr⟩
        refine ⟨hl, ?_⟩
        intro j p' c' hp hc
        cases j with
        | zero => simp at hp hc; subst hp; subst hc; simpa using h0
        | succ j =>
          simp at hp hc
          have := hr j p' c' hp hc
          rwa [Nat.add_assoc, Nat.add_comm 1 j] at this
      · rintro ⟨hl, hr⟩
        refine ⟨by simpa using hr 0 p c rfl rfl, hl, ?_⟩
        intro j p' c' hp hc
        have := hr (j + 1) p' c' (by simpa using hp) (by simpa using hc)
        rwa [Nat.add_assoc, Nat.add_comm 1 j]

theorem resetFrom_length (ops : NumOps α) (i : Nat) (rows : List (SgRow α)) :
    (resetFrom ops i rows).length = rows.length := by
  induction rows generalizing i with
  | nil => rfl
  | cons r rs ih => simp [resetFrom, ih]

theorem resetFrom_getElem? (ops : NumOps α) (i j : Nat) (rows : List (SgRow α)) :
    (resetFrom ops i rows)[j]? = (rows[j]?).map (fun r => r.set .motl_idx (.num (ops.ofNat (i + j)))) := by
  induction rows generalizing i j with
  | nil => simp [resetFrom]
  | cons r rs ih =>
    cases j with
    | zero => simp [resetFrom]
    | succ j =>
      simp only [resetFrom, List.getElem?_cons_succ, ih]
      rw [Nat.add_assoc, Nat.add_comm 1 j]

/-! ### exact decoding of IEEE binary64 bit patterns of integers -/

/-- decoding a bit pattern given by its sign bit, exponent field (normal range) and mantissa field -/
theorem decodeInt_normal (s e m : Nat) (hs : s < 2) (he1 : 0 < e) (he2 : e < 2047) (hm : m < 2 ^ 52) :
    decodeInt (s * 2 ^ 63 + e * 2 ^ 52 + m) =
      (if 1075 ≤ e then some ((2 ^ 52 + m) * 2 ^ (e - 1075))
       else if (2 ^ 52 + m) % 2 ^ (1075 - e) = 0 then some ((2 ^ 52 + m) / 2 ^ (1075 - e)) else none).map
        (fun n : Nat => if s = 1 then -(n : Int) else (n : Int)) := by
  have h1 : (s * 2 ^ 63 + e * 2 ^ 52 + m) / 2 ^ 63 % 2 = s := by omega
  have h2 : (s * 2 ^ 63 + e * 2 ^ 52 + m) / 2 ^ 52 % 2048 = e := by omega
  have h3 : (s * 2 ^ 63 + e * 2 ^ 52 + m) % 2 ^ 52 = m := by omega
  have h4 : e ≠ 2047 := by omega
  have h5 : e ≠ 0 := by omega
  unfold decodeInt
  simp only [h1, h2, h3, h4, h5, if_false]
  generalize (if 1075 ≤ e then some ((2 ^ 52 + m) * 2 ^ (e - 1075))
       else if (2 ^ 52 + m) % 2 ^ (1075 - e) = 0 then some ((2 ^ 52 + m) / 2 ^ (1075 - e)) else none) = o
  cases o <;> simp

/-- the bit pattern `encodeNat n` (sign bit `s`) decodes to `±n`, for every `0 < n < 2^53` -/
theorem decodeInt_signed_encodeNat (s n : Nat) (hs : s < 2) (h0 : n ≠ 0) (hn : n < 2 ^ 53) :
    decodeInt (s * 2 ^ 63 + encodeNat n) = some (if s = 1 then -(n : Int) else (n : Int)) := by
  have hk1 : 2 ^ Nat.log2 n ≤ n := Nat.log2_self_le h0
  have hk2 : n < 2 ^ (Nat.log2 n + 1) := Nat.lt_log2_self
  have hk : Nat.log2 n ≤ 52 := by
    apply Nat.le_of_not_lt; intro hc
    have : 2 ^ 53 ≤ 2 ^ Nat.log2 n := Nat.pow_le_pow_right (by decide) (by omega)
    omega
  unfold encodeNat
  rw [if_neg h0]
  generalize Nat.log2 n = k at *
  have hPQ : 2 ^ k * 2 ^ (52 - k) = 2 ^ 52 := by rw [← Nat.pow_add]; congr 1; omega
  have hQpos : 0 < 2 ^ (52 - k) := Nat.pow_pos (by decide)
  have hlo : 2 ^ 52 ≤ n * 2 ^ (52 - k) := by rw [← hPQ]; exact Nat.mul_le_mul_right _ hk1
  have hhi : n * 2 ^ (52 - k) < 2 ^ 53 := by
    have h1 : n * 2 ^ (52 - k) < 2 ^ (k + 1) * 2 ^ (52 - k) := Nat.mul_lt_mul_of_pos_right hk2 hQpos
    have h2 : 2 ^ (k + 1) * 2 ^ (52 - k) = 2 ^ 53 := by rw [← Nat.pow_add]; congr 1; omega
    omega
  rw [← Nat.add_assoc, decodeInt_normal s (1023 + k) (n * 2 ^ (52 - k) - 2 ^ 52) hs (by omega) (by omega) (by omega)]
  have hsig : 2 ^ 52 + (n * 2 ^ (52 - k) - 2 ^ 52) = n * 2 ^ (52 - k) := by omega
  rw [hsig]
  by_cases hk52 : k = 52
  · subst hk52; simp
  · have hlt : ¬ 1075 ≤ 1023 + k := by omega
    have hsub : 1075 - (1023 + k) = 52 - k := by omega
    rw [if_neg hlt, hsub, Nat.mul_mod_left, if_pos rfl, Nat.mul_div_cancel _ hQpos]
    rfl

/-- **Every integer of magnitude below 2^53 is decoded exactly from its bit pattern.** -/
theorem decodeInt_encodeInt (z : Int) (hz : z.natAbs < 2 ^ 53) : decodeInt (encodeInt z) = some z := by
  cases z with
  | ofNat n =>
    by_cases h0 : n = 0
    · subst h0; decide +kernel
    · have := decodeInt_signed_encodeNat 0 n (by decide) h0 (by simpa using hz)
      simpa [encodeInt] using this
  | negSucc n =>
    have := decodeInt_signed_encodeNat 1 (n + 1) (by decide) (by omega) (by simpa using hz)
    simpa [encodeInt, Int.negSucc_eq] using this
end CryoCat.C04
