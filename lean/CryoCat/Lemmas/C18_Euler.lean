import CryoCat.Lemmas.C18
import Mathlib.Tactic.Ring
import Mathlib.Tactic.Linarith
import Mathlib.Tactic.LinearCombination
import Mathlib.Tactic.FieldSimp
import Mathlib.Analysis.Real.Sqrt
/-! C18 — **the hypothesis of `nnStats_rigid` is satisfiable for every particle and every proper rotation, and only
for proper rotations.** `Moved Q t p p'` asks for a particle `p'` whose zxz Euler angles describe `Q · R_p`. Over ℝ
such a `p'` exists for EVERY well-formed `p`, every proper rotation `Q` (orthogonal, determinant 1) and every
translation `t` (`exists_moved`); conversely `Moved Q t p p'` forces `det Q = 1` (`Moved.det_eq_one`), so although
`nnStats_rigid` is stated with `Q.Orth` only, its hypothesis `Forall₂ (Moved Q t) a a'` with a non-empty list can
never be met by a reflection: the theorem is about the rigid-motion group exactly.

The algebra (a proper rotation is its own cofactor matrix; zxz Euler angles of a proper rotation, generic and at the
two gimbal locks) is copied from `Lemmas/C05_Euler.lean`, which cannot be imported here because it imports
`Gen/C05` (an edit of a C05 anchor must not stop C18 from building). -/
namespace CryoCat.C18
open CryoCat

section ring
variable {α : Type} [CommRing α]

/-- a proper rotation matrix: orthogonal (`mᵀ·m = 1`) with determinant 1 -/
def IsRot (m : M3 α) : Prop := m.Orth ∧ m.det = 1

theorem det_mul (a b : M3 α) : (a * b).det = a.det * b.det := by
  simp only [M3.mul_def, M3.mul, M3.det]; ring

theorem det_rz (c s : α) : (rz c s).det = c * c + s * s := by simp only [rz, M3.det]; ring
theorem det_rx (c s : α) : (rx c s).det = c * c + s * s := by simp only [rx, M3.det]; ring

theorem IsRot.mul {a b : M3 α} (ha : IsRot a) (hb : IsRot b) : IsRot (a * b) :=
  ⟨ha.1.mul hb.1, by rw [det_mul, ha.2, hb.2, one_mul]⟩

theorem isRot_zxz (cp sp ct st cs ss : α) (hp : cp*cp + sp*sp = 1) (ht : ct*ct + st*st = 1) (hs : cs*cs + ss*ss = 1) :
    IsRot (zxz cp sp ct st cs ss) :=
  ⟨zxz_orth cp sp ct st cs ss hp ht hs, by unfold zxz; rw [det_mul, det_mul, det_rz, det_rx, det_rz, hp, ht, hs]; ring⟩

/-- a proper rotation is its own cofactor matrix (entry by entry) -/
theorem IsRot.cofactor {m : M3 α} (h : IsRot m) :
    m.a11 = m.a22 * m.a33 - m.a23 * m.a32 ∧ m.a12 = m.a23 * m.a31 - m.a21 * m.a33 ∧ m.a13 = m.a21 * m.a32 - m.a22 * m.a31 ∧
    m.a21 = m.a13 * m.a32 - m.a12 * m.a33 ∧ m.a22 = m.a11 * m.a33 - m.a13 * m.a31 ∧ m.a23 = m.a12 * m.a31 - m.a11 * m.a32 ∧
    m.a31 = m.a12 * m.a23 - m.a13 * m.a22 ∧ m.a32 = m.a13 * m.a21 - m.a11 * m.a23 ∧ m.a33 = m.a11 * m.a22 - m.a12 * m.a21 := by
  obtain ⟨ho, hd⟩ := h
  have e := ho
  simp only [M3.Orth, M3.mul_def, M3.mul, M3.transpose, M3.one] at e
  injection e with e11 e12 e13 e21 e22 e23 e31 e32 e33
  simp only [M3.det] at hd
  obtain ⟨a11, a12, a13, a21, a22, a23, a31, a32, a33⟩ := m
  simp only at *
  refine ⟨?_, ?_, ?_, ?_, ?_, ?_, ?_, ?_, ?_⟩
  · linear_combination (-a11) * hd + (a22 * a33 - a23 * a32) * e11 + (a23 * a31 - a21 * a33) * e12 + (a21 * a32 - a22 * a31) * e13
  · linear_combination (-a12) * hd + (a22 * a33 - a23 * a32) * e21 + (a23 * a31 - a21 * a33) * e22 + (a21 * a32 - a22 * a31) * e23
  · linear_combination (-a13) * hd + (a22 * a33 - a23 * a32) * e31 + (a23 * a31 - a21 * a33) * e32 + (a21 * a32 - a22 * a31) * e33
  · linear_combination (-a21) * hd + (a13 * a32 - a12 * a33) * e11 + (a11 * a33 - a13 * a31) * e12 + (a12 * a31 - a11 * a32) * e13
  · linear_combination (-a22) * hd + (a13 * a32 - a12 * a33) * e21 + (a11 * a33 - a13 * a31) * e22 + (a12 * a31 - a11 * a32) * e23
  · linear_combination (-a23) * hd + (a13 * a32 - a12 * a33) * e31 + (a11 * a33 - a13 * a31) * e32 + (a12 * a31 - a11 * a32) * e33
  · linear_combination (-a31) * hd + (a12 * a23 - a13 * a22) * e11 + (a13 * a21 - a11 * a23) * e12 + (a11 * a22 - a12 * a21) * e13
  · linear_combination (-a32) * hd + (a12 * a23 - a13 * a22) * e21 + (a13 * a21 - a11 * a23) * e22 + (a11 * a22 - a12 * a21) * e23
  · linear_combination (-a33) * hd + (a12 * a23 - a13 * a22) * e31 + (a13 * a21 - a11 * a23) * e32 + (a11 * a22 - a12 * a21) * e33

/-- hence its rows are orthonormal too: the third row has length 1 -/
theorem IsRot.row3 {m : M3 α} (h : IsRot m) : m.a31 * m.a31 + m.a32 * m.a32 + m.a33 * m.a33 = 1 := by
  obtain ⟨_, _, _, _, _, _, c31, c32, c33⟩ := h.cofactor
  have hd := h.2
  simp only [M3.det] at hd
  linear_combination m.a31 * c31 + m.a32 * c32 + m.a33 * c33 + hd

/-- the columns are orthonormal by definition: first and third column have length 1 -/
theorem IsRot.col3 {m : M3 α} (h : IsRot m) : m.a13 * m.a13 + m.a23 * m.a23 + m.a33 * m.a33 = 1 := by
  have e := h.1
  simp only [M3.Orth, M3.mul_def, M3.mul, M3.transpose, M3.one] at e
  injection e

theorem IsRot.col1 {m : M3 α} (h : IsRot m) : m.a11 * m.a11 + m.a21 * m.a21 + m.a31 * m.a31 = 1 := by
  have e := h.1
  simp only [M3.Orth, M3.mul_def, M3.mul, M3.transpose, M3.one] at e
  injection e

/-- the upper-left 2×2 block of a proper rotation in terms of its third row and column -/
theorem IsRot.block {m : M3 α} (h : IsRot m) :
    m.a11 * (1 - m.a33 * m.a33) = -(m.a23 * m.a32) - m.a13 * m.a33 * m.a31 ∧
    m.a12 * (1 - m.a33 * m.a33) = m.a23 * m.a31 - m.a13 * m.a33 * m.a32 ∧
    m.a21 * (1 - m.a33 * m.a33) = m.a13 * m.a32 - m.a23 * m.a33 * m.a31 ∧
    m.a22 * (1 - m.a33 * m.a33) = -(m.a13 * m.a31) - m.a23 * m.a33 * m.a32 := by
  obtain ⟨c11, c12, _, c21, c22, _, _, _, _⟩ := h.cofactor
  refine ⟨?_, ?_, ?_, ?_⟩
  · linear_combination c11 + m.a33 * c22
  · linear_combination c12 - m.a33 * c21
  · linear_combination c21 - m.a33 * c12
  · linear_combination c22 + m.a33 * c11

end ring

section field
variable {α : Type} [_root_.Field α]

/-- **away from gimbal lock**: with `s² = 1 − m₃₃²`, `s ≠ 0`, the pairs `(m₃₂,m₃₁)/s`, `(m₃₃,s)`, `(−m₂₃,m₁₃)/s`
lie on the unit circle and are zxz Euler angles (phi, theta, psi) of `m` -/
theorem zxz_of_rot_generic {m : M3 α} (h : IsRot m) {s : α} (hs : s * s = 1 - m.a33 * m.a33) (hs0 : s ≠ 0) :
    (m.a32 / s) * (m.a32 / s) + (m.a31 / s) * (m.a31 / s) = 1 ∧ m.a33 * m.a33 + s * s = 1 ∧
    (-m.a23 / s) * (-m.a23 / s) + (m.a13 / s) * (m.a13 / s) = 1 ∧
    zxz (m.a32 / s) (m.a31 / s) m.a33 s (-m.a23 / s) (m.a13 / s) = m := by
  have hss : s * s ≠ 0 := mul_ne_zero hs0 hs0
  have key : ∀ x y : α, y * (s * s) = x → x / (s * s) = y := by
    intro x y e; rw [div_eq_iff hss]; exact e.symm
  obtain ⟨b11, b12, b21, b22⟩ := h.block
  have r3 := h.row3
  have c3 := h.col3
  refine ⟨?_, ?_, ?_, ?_⟩
  · have : (m.a32 / s) * (m.a32 / s) + (m.a31 / s) * (m.a31 / s) = (m.a32 * m.a32 + m.a31 * m.a31) / (s * s) := by ring
    rw [this]; apply key; rw [hs]; linear_combination (-1 : α) * r3
  · rw [hs]; ring
  · have : (-m.a23 / s) * (-m.a23 / s) + (m.a13 / s) * (m.a13 / s) = (m.a23 * m.a23 + m.a13 * m.a13) / (s * s) := by ring
    rw [this]; apply key; rw [hs]; linear_combination (-1 : α) * c3
  · obtain ⟨a11, a12, a13, a21, a22, a23, a31, a32, a33⟩ := m
    simp only at *
    simp only [zxz, rz, rx, M3.mul_def, M3.mul]
    congr 1
    · have : (-a23 / s * 1 + -(a13 / s) * 0 + 0 * 0) * (a32 / s) + (-a23 / s * 0 + -(a13 / s) * a33 + 0 * s) * (a31 / s) + (-a23 / s * 0 + -(a13 / s) * -s + 0 * a33) * 0
          = (-(a23 * a32) - a13 * a33 * a31) / (s * s) := by ring
      rw [this]; apply key; rw [hs]; exact b11
    · have : (-a23 / s * 1 + -(a13 / s) * 0 + 0 * 0) * -(a31 / s) + (-a23 / s * 0 + -(a13 / s) * a33 + 0 * s) * (a32 / s) + (-a23 / s * 0 + -(a13 / s) * -s + 0 * a33) * 0
          = (a23 * a31 - a13 * a33 * a32) / (s * s) := by ring
      rw [this]; apply key; rw [hs]; exact b12
    · field_simp; ring
    · have : (a13 / s * 1 + -a23 / s * 0 + 0 * 0) * (a32 / s) + (a13 / s * 0 + -a23 / s * a33 + 0 * s) * (a31 / s) + (a13 / s * 0 + -a23 / s * -s + 0 * a33) * 0
          = (a13 * a32 - a23 * a33 * a31) / (s * s) := by ring
      rw [this]; apply key; rw [hs]; exact b21
    · have : (a13 / s * 1 + -a23 / s * 0 + 0 * 0) * -(a31 / s) + (a13 / s * 0 + -a23 / s * a33 + 0 * s) * (a32 / s) + (a13 / s * 0 + -a23 / s * -s + 0 * a33) * 0
          = (-(a13 * a31) - a23 * a33 * a32) / (s * s) := by ring
      rw [this]; apply key; rw [hs]; exact b22
    · field_simp; ring
    · field_simp; ring
    · field_simp; ring
    · ring

end field

section ordered
variable {α : Type} [_root_.Field α] [LinearOrder α] [IsStrictOrderedRing α]

/-- at gimbal lock the third row and column are ±e₃ -/
theorem IsRot.gimbal_zero {m : M3 α} (h : IsRot m) (h33 : m.a33 * m.a33 = 1) :
    m.a13 = 0 ∧ m.a23 = 0 ∧ m.a31 = 0 ∧ m.a32 = 0 := by
  have c3 := h.col3
  have r3 := h.row3
  have e1 : m.a13 * m.a13 + m.a23 * m.a23 = 0 := by linear_combination c3 - h33
  have e2 : m.a31 * m.a31 + m.a32 * m.a32 = 0 := by linear_combination r3 - h33
  obtain ⟨z1, z2⟩ := (mul_self_add_mul_self_eq_zero).1 e1
  obtain ⟨z3, z4⟩ := (mul_self_add_mul_self_eq_zero).1 e2
  exact ⟨z1, z2, z3, z4⟩

/-- **gimbal lock, theta = 0**: `m = Rz(phi)` with (cos phi, sin phi) = (m₁₁, m₂₁) -/
theorem zxz_of_rot_gimbal_pos {m : M3 α} (h : IsRot m) (h33 : m.a33 = 1) :
    m.a11 * m.a11 + m.a21 * m.a21 = 1 ∧ zxz m.a11 m.a21 1 0 1 0 = m := by
  obtain ⟨z13, z23, z31, z32⟩ := h.gimbal_zero (by rw [h33]; ring)
  obtain ⟨_, c12, _, _, c22, _, _, _, _⟩ := h.cofactor
  have c1 := h.col1
  obtain ⟨a11, a12, a13, a21, a22, a23, a31, a32, a33⟩ := m
  simp only at *
  subst h33 z13 z23 z31 z32
  refine ⟨by linear_combination c1, ?_⟩
  simp only [zxz, rz, rx, M3.mul_def, M3.mul]
  congr 1
  · ring
  · linear_combination (-1 : α) * c12
  · ring
  · ring
  · linear_combination (-1 : α) * c22
  · ring
  · ring
  · ring
  · ring

/-- **gimbal lock, theta = 180°**: (cos phi, sin phi) = (m₁₁, −m₁₂), psi = 0 -/
theorem zxz_of_rot_gimbal_neg {m : M3 α} (h : IsRot m) (h33 : m.a33 = -1) :
    m.a11 * m.a11 + (-m.a12) * (-m.a12) = 1 ∧ zxz m.a11 (-m.a12) (-1) 0 1 0 = m := by
  obtain ⟨z13, z23, z31, z32⟩ := h.gimbal_zero (by rw [h33]; ring)
  obtain ⟨_, _, _, c21, c22, _, _, _, _⟩ := h.cofactor
  have c1 := h.col1
  obtain ⟨a11, a12, a13, a21, a22, a23, a31, a32, a33⟩ := m
  simp only at *
  subst h33 z13 z23 z31 z32
  refine ⟨by linear_combination c1 - (a21 + a12) * c21, ?_⟩
  simp only [zxz, rz, rx, M3.mul_def, M3.mul]
  congr 1
  · ring
  · ring
  · ring
  · linear_combination (-1 : α) * c21
  · linear_combination (-1 : α) * c22
  · ring
  · ring
  · ring
  · ring

/-- **every proper rotation has zxz Euler angles** — in any ordered field in which `1 − m₃₃²` has a square
root (always the case over ℝ): three points of the unit circle, the middle one with non-negative sine
(theta in [0°, 180°] as scipy returns it), whose `zxz` is the matrix -/
theorem exists_zxz_of_rot {m : M3 α} (h : IsRot m) (hsq : ∃ s : α, 0 ≤ s ∧ s * s = 1 - m.a33 * m.a33) :
    ∃ cp sp ct st cs ss : α, cp * cp + sp * sp = 1 ∧ ct * ct + st * st = 1 ∧ cs * cs + ss * ss = 1 ∧ 0 ≤ st ∧
      zxz cp sp ct st cs ss = m := by
  obtain ⟨s, hs0, hs⟩ := hsq
  by_cases hz : s = 0
  · have h33 : m.a33 * m.a33 = 1 := by rw [hz] at hs; linear_combination hs
    rcases mul_self_eq_one_iff.1 h33 with hp | hn
    · obtain ⟨u, e⟩ := zxz_of_rot_gimbal_pos h hp
      exact ⟨_, _, 1, 0, 1, 0, u, by ring, by ring, le_refl 0, e⟩
    · obtain ⟨u, e⟩ := zxz_of_rot_gimbal_neg h hn
      exact ⟨_, _, -1, 0, 1, 0, u, by ring, by ring, le_refl 0, e⟩
  · obtain ⟨u1, u2, u3, e⟩ := zxz_of_rot_generic h hs hz
    exact ⟨_, _, _, _, _, _, u1, u2, u3, hs0, e⟩

end ordered

/-! ### over ℝ: a moved particle exists for every particle, proper rotation and translation -/

/-- the orientation of a well-formed particle is a proper rotation -/
theorem isRot_rot {α : Type} [CommRing α] (p : Pt α) (h : p.WF) : IsRot (rot p) :=
  isRot_zxz _ _ _ _ _ _ h.1 h.2.1 h.2.2

/-- `Moved` can only hold for a proper `Q`: `rot p' = Q · rot p` with both orientations of determinant 1 -/
theorem Moved.det_eq_one {α : Type} [CommRing α] {Q : M3 α} {t : V3 α} {p p' : Pt α} (h : Moved Q t p p') :
    Q.det = 1 := by
  have e := congrArg M3.det h.rot
  rw [det_mul, (isRot_rot p h.wf).2, (isRot_rot p' h.wf').2, mul_one] at e
  exact e.symm

/-- **Existence of the moved particle (ℝ).** For every well-formed particle `p`, every proper rotation `Q` and every
translation `t` there is a particle `p'` with `Moved Q t p p'`: same identifiers, same shifts, complete position
`Q·pos p + t`, and zxz Euler angles of `Q · R_p`. -/
theorem exists_moved (Q : M3 ℝ) (t : V3 ℝ) (p : Pt ℝ) (hp : p.WF) (hQ : IsRot Q) : ∃ p', Moved Q t p p' := by
  have hm : IsRot (Q * rot p) := hQ.mul (isRot_rot p hp)
  have c3 := hm.col3
  have hnn : 0 ≤ 1 - (Q * rot p).a33 * (Q * rot p).a33 := by
    nlinarith [mul_self_nonneg (Q * rot p).a13, mul_self_nonneg (Q * rot p).a23]
  obtain ⟨cp, sp, ct, st, cs, ss, u1, u2, u3, _, e⟩ :=
    exists_zxz_of_rot hm ⟨Real.sqrt (1 - (Q * rot p).a33 * (Q * rot p).a33), Real.sqrt_nonneg _, Real.mul_self_sqrt hnn⟩
  refine ⟨{ tomo := p.tomo, sub := p.sub, base := Q.apply (pos p) + t - p.shift, shift := p.shift,
            phi := ⟨cp, sp⟩, theta := ⟨ct, st⟩, psi := ⟨cs, ss⟩ }, ?_⟩
  refine { tomo := rfl, sub := rfl, pos := ?_, rot := e, wf := hp, wf' := ⟨u1, u2, u3⟩ }
  simp only [pos]
  ext <;> simp [V3.add_def, V3.sub_def, V3.add, V3.sub]

/-- ... and for whole lists: every list of well-formed particles has a moved copy -/
theorem exists_moved_list (Q : M3 ℝ) (t : V3 ℝ) (hQ : IsRot Q) (l : List (Pt ℝ)) (hl : ∀ p ∈ l, p.WF) :
    ∃ l', List.Forall₂ (Moved Q t) l l' := by
  induction l with
  | nil => exact ⟨[], List.Forall₂.nil⟩
  | cons p r ih =>
    obtain ⟨p', hp'⟩ := exists_moved Q t p (hl p (List.mem_cons_self)) hQ
    obtain ⟨r', hr'⟩ := ih (fun q hq => hl q (List.mem_cons_of_mem _ hq))
    exact ⟨p' :: r', List.Forall₂.cons hp' hr'⟩

end CryoCat.C18
