import CryoCat.Lemmas.C12_Dft
import Mathlib.Algebra.GroupWithZero.Basic
import Mathlib.Tactic.LinearCombination
/-! C12 — the two classical facts about the model's own 1-D DFT that the operator theorems `filt_shift`,
`filt_even_gain`, `filt_effective_gain` used to take as hypotheses:

* **shift theorem** `dft1_roll`: the transform of a circularly shifted sequence is a phase times the transform
  (re-indexing the sum over `range n` by the rotation `j ↦ (j + s) mod n`);
* **conjugation / Hermitian symmetry** `dft1_conj`: for a ring automorphism `conj` with `conj ω = ω⁻¹`, the transform of
  the conjugated sequence at bin `-k` is the conjugate of the transform at bin `k`; hence the spectrum of a
  `conj`-fixed ("real") sequence is Hermitian (`dft1_hermitian`).

Over any field with a primitive `n`-th root of unity. -/
namespace CryoCat.C12
open Finset

section one
variable {C : Type} [Field C] {n : Nat} {ω : C}

/-! ### index arithmetic of the rotation -/

theorem roll_fwd_bwd (n s a : Int) : ((a + s) % n - s) % n = a % n := by
  rw [Int.emod_sub_emod, add_sub_cancel_right]

theorem roll_bwd_fwd (n s a : Int) : ((a - s) % n + s) % n = a % n := by
  rw [Int.emod_add_emod, sub_add_cancel]

theorem roll1_in (n : Nat) (s i : Int) (hi : 0 ≤ i ∧ i < (n : Int)) : roll1 n s i = (i + s) % (n : Int) := by
  unfold roll1; rw [if_pos hi]

theorem roll1_out (n : Nat) (s i : Int) (hi : ¬ (0 ≤ i ∧ i < (n : Int))) : roll1 n s i = i := by
  unfold roll1; rw [if_neg hi]

theorem roll1_range (n : Nat) (s i : Int) (hi : 0 ≤ i ∧ i < (n : Int)) : 0 ≤ roll1 n s i ∧ roll1 n s i < (n : Int) := by
  rw [roll1_in n s i hi]
  have hn : (0 : Int) < n := by omega
  exact ⟨Int.emod_nonneg _ (by omega), Int.emod_lt_of_pos _ hn⟩

/-- rolling by `s` and then by `-s` is the identity (so a roll is a bijection of the index set) -/
theorem roll1_roll1_neg (n : Nat) (s i : Int) : roll1 n (-s) (roll1 n s i) = i := by
  by_cases hi : 0 ≤ i ∧ i < (n : Int)
  · rw [roll1_in n (-s) _ (roll1_range n s i hi), roll1_in n s i hi, ← sub_eq_add_neg, roll_fwd_bwd,
      Int.emod_eq_of_lt hi.1 hi.2]
  · rw [roll1_out n s i hi, roll1_out n (-s) i hi]

/-- rolling by a multiple of `n` is the identity -/
theorem roll1_period (n : Nat) (c i : Int) : roll1 n ((n : Int) * c) i = i := by
  by_cases hi : 0 ≤ i ∧ i < (n : Int)
  · rw [roll1_in n _ i hi, Int.add_mul_emod_self_left, Int.emod_eq_of_lt hi.1 hi.2]
  · rw [roll1_out n _ i hi]

/-! ### integer powers of the root -/

theorem Root.zpow_eq (h : Root n ω) (a b c : Int) (e : a = b + (n : Int) * c) : ω ^ a = ω ^ b := by
  rw [e, zpow_add₀ h.ne_zero, zpow_mul, zpow_natCast, h.pow_n, one_zpow, mul_one]

/-- the phase the shift theorem multiplies bin `k` with: `ω^{-sk}` (numpy's `ω = exp(-2πi/n)`: `exp(2πi·sk/n)`) -/
def phase1 (n : Nat) (ω : C) (s k : Int) : C := if 0 ≤ k ∧ k < (n : Int) then ω ^ (-(s * k)) else 1

theorem phase1_ne_zero (h : Root n ω) (s k : Int) : phase1 n ω s k ≠ 0 := by
  unfold phase1
  split_ifs
  · exact zpow_ne_zero _ h.ne_zero
  · exact one_ne_zero

/-- **shift theorem (1-D)**: `dft (x ∘ roll s) k = ω^{-sk} · dft x k`, every shift `s ∈ ℤ`, every `k ∈ ℤ`
(off the range both sides are `x k`) -/
theorem dft1_roll (h : Root n ω) (s : Int) (x : Int → C) (k : Int) :
    dft1 n (fun m => ω ^ m) (fun i => x (roll1 n s i)) k = phase1 n ω s k * dft1 n (fun m => ω ^ m) x k := by
  by_cases hk : 0 ≤ k ∧ k < (n : Int)
  · obtain ⟨a, ha, rfl⟩ := int_of_range n k hk
    have hn : (0 : Int) < n := by exact_mod_cast h.pos
    have hn0 : (n : Int) ≠ 0 := by omega
    rw [dft1_apply h _ a ha, dft1_apply h x a ha, phase1, if_pos hk, mul_sum]
    refine sum_nbij' (fun j => (((j : Int) + s) % (n : Int)).toNat) (fun m => (((m : Int) - s) % (n : Int)).toNat)
      ?_ ?_ ?_ ?_ ?_
    · intro j _
      have := Int.emod_lt_of_pos ((j : Int) + s) hn
      have := Int.emod_nonneg ((j : Int) + s) hn0
      rw [mem_range]; omega
    · intro m _
      have := Int.emod_lt_of_pos ((m : Int) - s) hn
      have := Int.emod_nonneg ((m : Int) - s) hn0
      rw [mem_range]; omega
    · intro j hj
      have hj' := mem_range.1 hj
      rw [Int.toNat_of_nonneg (Int.emod_nonneg _ hn0), roll_fwd_bwd, Int.emod_eq_of_lt (by omega) (by omega)]
      simp
    · intro m hm
      have hm' := mem_range.1 hm
      rw [Int.toNat_of_nonneg (Int.emod_nonneg _ hn0), roll_bwd_fwd, Int.emod_eq_of_lt (by omega) (by omega)]
      simp
    · intro j hj
      have hj' := mem_range.1 hj
      rw [roll1_in n s j ⟨by omega, by omega⟩, Int.toNat_of_nonneg (Int.emod_nonneg _ hn0), ← mul_assoc]
      congr 1
      rw [← zpow_natCast ω (j * a), ← zpow_natCast ω (_ * a), ← zpow_add₀ h.ne_zero]
      apply h.zpow_eq _ _ ((((j : Int) + s) / (n : Int)) * (a : Int))
      have e := Int.emod_add_mul_ediv ((j : Int) + s) (n : Int)
      have hm : ((((((j : Int) + s) % (n : Int)).toNat * a : Nat)) : Int) = (((j : Int) + s) % (n : Int)) * (a : Int) := by
        rw [Nat.cast_mul, Int.toNat_of_nonneg (Int.emod_nonneg _ hn0)]
      rw [hm]
      push_cast
      linear_combination (-(a : Int)) * e
  · unfold dft1 phase1
    rw [if_neg hk, if_neg hk, if_neg hk]
    simp only [roll1_out n s k hk, one_mul]

/-! ### conjugation -/

theorem negBox1_in (n : Nat) (k : Int) (hk : 0 ≤ k ∧ k < (n : Int)) : negBox1 n k = negIdx n k := by
  unfold negBox1; rw [if_pos hk]

theorem negBox1_out (n : Nat) (k : Int) (hk : ¬ (0 ≤ k ∧ k < (n : Int))) : negBox1 n k = k := by
  unfold negBox1; rw [if_neg hk]

theorem negBox1_range (n : Nat) (k : Int) (hk : 0 ≤ k ∧ k < (n : Int)) : 0 ≤ negBox1 n k ∧ negBox1 n k < (n : Int) := by
  rw [negBox1_in n k hk]
  unfold negIdx
  have hn : (0 : Int) < n := by omega
  exact ⟨Int.emod_nonneg _ (by omega), Int.emod_lt_of_pos _ hn⟩

/-- `k ↦ -k mod n` is an involution -/
theorem negBox1_invol (n : Nat) (k : Int) : negBox1 n (negBox1 n k) = k := by
  by_cases hk : 0 ≤ k ∧ k < (n : Int)
  · rw [negBox1_in n _ (negBox1_range n k hk), negBox1_in n k hk]
    unfold negIdx
    rw [← zero_sub, Int.sub_emod_emod, zero_sub, neg_neg, Int.emod_eq_of_lt hk.1 hk.2]
  · rw [negBox1_out n k hk, negBox1_out n k hk]

/-- the natural number below `n` that is `-a mod n` -/
theorem negIdx_nat (n a : Nat) (ha : a < n) : negIdx n (a : Int) = (((n - a) % n : Nat) : Int) := by
  unfold negIdx
  have e : (-(a : Int)) = ((n - a : Nat) : Int) + (n : Int) * (-1) := by
    rw [Nat.cast_sub ha.le]; ring
  rw [e, Int.add_mul_emod_self_left]
  rfl

variable (conj : C →+* C)

/-- **conjugation theorem (1-D)**: for a ring homomorphism `conj` with `conj ω = ω⁻¹` (complex conjugation and a
root of unity), `dft (conj ∘ x)` at bin `-k` is `conj (dft x k)` -/
theorem dft1_conj (h : Root n ω) (hω : conj ω = ω⁻¹) (x : Int → C) (k : Int) :
    dft1 n (fun m => ω ^ m) (fun u => conj (x u)) (negBox1 n k) = conj (dft1 n (fun m => ω ^ m) x k) := by
  by_cases hk : 0 ≤ k ∧ k < (n : Int)
  · obtain ⟨a, ha, rfl⟩ := int_of_range n k hk
    rw [negBox1_in n _ hk, negIdx_nat n a ha, dft1_apply h _ _ (Nat.mod_lt _ h.pos), dft1_apply h x a ha, map_sum]
    apply sum_congr rfl
    intro j _
    rw [map_mul, map_pow, hω]
    congr 1
    have := h.tw_inv a
    rw [Nat.mod_eq_of_lt ha] at this
    rw [mul_comm j, pow_mul, this, inv_pow, inv_pow, ← pow_mul, mul_comm]
  · rw [negBox1_out n k hk]
    unfold dft1
    rw [if_neg hk, if_neg hk]

/-- **Hermitian symmetry (1-D)**: the spectrum of a `conj`-fixed (real) sequence satisfies `X_{-k} = conj X_k` -/
theorem dft1_hermitian (h : Root n ω) (hω : conj ω = ω⁻¹) (x : Int → C) (hx : ∀ u, conj (x u) = x u) (k : Int) :
    dft1 n (fun m => ω ^ m) x (negBox1 n k) = conj (dft1 n (fun m => ω ^ m) x k) := by
  rw [← dft1_conj conj h hω x k]
  congr 1
  funext u
  rw [hx]

end one
end CryoCat.C12
