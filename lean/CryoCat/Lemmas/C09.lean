import CryoCat.Model.C09
/-! C09 — helper lemmas about lists (core Lean only): "keeps exactly", `uniques`, grouping by a key is a
permutation, identifiers without repetition identify the row. -/
namespace CryoCat.C09

variable {β κ : Type}

/-- `out` keeps exactly the elements of `l` that satisfy `P` — as a list: same order, same
multiplicities (it is `l` filtered by a test that agrees with `P` on the elements of `l`). -/
def KeepsExactly (P : β → Prop) (l out : List β) : Prop :=
  ∃ keep : β → Bool, out = l.filter keep ∧ ∀ p ∈ l, (keep p = true ↔ P p)

theorem KeepsExactly.mem_iff {P : β → Prop} {l out : List β} (h : KeepsExactly P l out) (p : β) :
    p ∈ out ↔ p ∈ l ∧ P p := by
  obtain ⟨keep, rfl, hk⟩ := h
  rw [List.mem_filter]
  constructor
  · rintro ⟨h1, h2⟩; exact ⟨h1, (hk p h1).1 h2⟩
  · rintro ⟨h1, h2⟩; exact ⟨h1, (hk p h1).2 h2⟩

theorem KeepsExactly.sublist {P : β → Prop} {l out : List β} (h : KeepsExactly P l out) : out.Sublist l := by
  obtain ⟨keep, rfl, _⟩ := h
  exact List.filter_sublist

/-- the result is determined: two lists that both keep exactly the `P`-elements of `l` are equal -/
theorem KeepsExactly.unique {P : β → Prop} {l o₁ o₂ : List β} (h₁ : KeepsExactly P l o₁) (h₂ : KeepsExactly P l o₂) :
    o₁ = o₂ := by
  obtain ⟨k₁, rfl, hk₁⟩ := h₁
  obtain ⟨k₂, rfl, hk₂⟩ := h₂
  apply List.filter_congr
  intro x hx
  have a := hk₁ x hx
  have b := hk₂ x hx
  cases h1 : k₁ x <;> cases h2 : k₂ x <;> simp_all

/-- multiplicities: an element satisfying `P` occurs as often as before, one failing `P` not at all -/
theorem KeepsExactly.count [DecidableEq β] {P : β → Prop} {l out : List β} (h : KeepsExactly P l out) (p : β) (hp : p ∈ l) :
    (P p → out.count p = l.count p) ∧ (¬ P p → out.count p = 0) := by
  obtain ⟨keep, rfl, hk⟩ := h
  constructor
  · intro hP
    rw [List.count_filter ((hk p hp).2 hP)]
  · intro hP
    apply List.count_eq_zero.2
    intro hm
    exact hP ((hk p hp).1 (List.mem_filter.1 hm).2)

/-! ### uniques -/

theorem mem_uniques [DecidableEq κ] (l : List κ) (x : κ) : x ∈ uniques l ↔ x ∈ l := by
  induction l with
  | nil => simp [uniques]
  | cons a l ih =>
    simp only [uniques, List.mem_cons, List.mem_filter, ih]
    by_cases h : x = a
    · simp [h]
    · simp [h]

theorem nodup_uniques [DecidableEq κ] (l : List κ) : (uniques l).Nodup := by
  induction l with
  | nil => simp [uniques]
  | cons a l ih =>
    simp only [uniques, List.nodup_cons]
    refine ⟨?_, ih.sublist List.filter_sublist⟩
    intro h
    have := (List.mem_filter.1 h).2
    simp at this

/-- first-appearance order: the head of the list is the head of its `uniques` -/
theorem uniques_head [DecidableEq κ] (a : κ) (l : List κ) : (uniques (a :: l)).head? = some a := rfl

/-! ### grouping by a key is a permutation -/

theorem filter_append_perm_of_disjoint (p q : β → Bool) (l : List β) (h : ∀ x ∈ l, ¬ (p x = true ∧ q x = true)) :
    (l.filter p ++ l.filter q).Perm (l.filter (fun x => p x || q x)) := by
  induction l with
  | nil => simp
  | cons a l ih =>
    have ih' := ih (fun x hx => h x (List.mem_cons_of_mem _ hx))
    have ha := h a (List.mem_cons_self ..)
    cases hp : p a <;> cases hq : q a
    · simpa [List.filter_cons, hp, hq] using ih'
    · simp only [List.filter_cons, hp, hq, Bool.false_or, if_true]
      exact List.perm_middle.trans (List.Perm.cons a ih')
    · simp only [List.filter_cons, hp, hq, Bool.true_or, if_true, List.cons_append]
      exact List.Perm.cons a ih'
    · exact absurd ⟨hp, hq⟩ ha

theorem flatMap_groups_perm [DecidableEq κ] (key : β → κ) (ks : List κ) (hks : ks.Nodup) (l : List β) :
    (ks.flatMap (fun t => l.filter (fun p => decide (key p = t)))).Perm (l.filter (fun p => decide (key p ∈ ks))) := by
  induction ks with
  | nil => simp
  | cons k ks ih =>
    have hk := List.nodup_cons.1 hks
    have h1 := ih hk.2
    simp only [List.flatMap_cons]
    refine (List.Perm.append_left _ h1).trans ?_
    refine (filter_append_perm_of_disjoint _ _ l ?_).trans ?_
    · intro x _ ⟨ha, hb⟩
      simp only [decide_eq_true_eq] at ha hb
      exact hk.1 (ha ▸ hb)
    · apply List.Perm.of_eq
      apply List.filter_congr
      intro x _
      simp [List.mem_cons]

/-- grouping a list by the distinct values of a key (in any fixed order of the values) and
concatenating the groups only permutes it -/
theorem flatMap_uniques_perm [DecidableEq κ] (key : β → κ) (l : List β) :
    ((uniques (l.map key)).flatMap (fun t => l.filter (fun p => decide (key p = t)))).Perm l := by
  refine (flatMap_groups_perm key _ (nodup_uniques _) l).trans ?_
  apply List.Perm.of_eq
  rw [List.filter_eq_self]
  intro x hx
  simp only [decide_eq_true_eq, mem_uniques]
  exact List.mem_map_of_mem hx

/-- filtering the grouped list by one key value gives that group — so inside every group the
original order is intact -/
theorem filter_flatMap_groups [DecidableEq κ] (key : β → κ) (ks : List κ) (hks : ks.Nodup) (l : List β) (t : κ) :
    (ks.flatMap (fun k => l.filter (fun p => decide (key p = k)))).filter (fun p => decide (key p = t))
      = if t ∈ ks then l.filter (fun p => decide (key p = t)) else [] := by
  induction ks with
  | nil => simp
  | cons k ks ih =>
    have hk := List.nodup_cons.1 hks
    simp only [List.flatMap_cons, List.filter_append, ih hk.2, List.filter_filter]
    by_cases h : t = k
    · subst h
      have hn : ¬ t ∈ ks := hk.1
      simp [hn]
    · have hnil : (l.filter (fun a => decide (key a = t) && decide (key a = k))) = [] := by
        rw [List.filter_eq_nil_iff]
        intro a _
        simp only [Bool.and_eq_true, decide_eq_true_eq, not_and]
        intro h1 h2
        exact h (h1 ▸ h2)
      simp [hnil, h, List.mem_cons]

/-! ### a loop of filters is one filter -/

/-- `for x in xs: acc = acc.filter (f x)` keeps the rows that pass every `f x` -/
theorem foldl_filter_eq {γ : Type} (f : γ → β → Bool) (xs : List γ) (l : List β) :
    xs.foldl (fun acc x => acc.filter (f x)) l = l.filter (fun p => xs.all (fun x => f x p)) := by
  induction xs generalizing l with
  | nil => simp only [List.foldl_nil, List.all_nil]; exact (List.filter_eq_self.2 (fun _ _ => rfl)).symm
  | cons x xs ih =>
    simp only [List.foldl_cons, ih, List.filter_filter, List.all_cons]
    apply List.filter_congr
    intro p _
    exact Bool.and_comm _ _

/-! ### identifiers without repetition identify the row -/

theorem eq_of_nodup_map {f : β → κ} {l : List β} (h : (l.map f).Nodup) {a b : β} (ha : a ∈ l) (hb : b ∈ l)
    (hab : f a = f b) : a = b := by
  induction l with
  | nil => cases ha
  | cons c l ih =>
    simp only [List.map_cons, List.nodup_cons] at h
    rcases List.mem_cons.1 ha with rfl | ha' <;> rcases List.mem_cons.1 hb with rfl | hb'
    · rfl
    · exact absurd (hab ▸ List.mem_map_of_mem hb') h.1
    · exact absurd (hab ▸ List.mem_map_of_mem ha') h.1
    · exact ih h.2 ha' hb'

end CryoCat.C09
