import CryoCat.Model.C16
import Mathlib.Analysis.SpecialFunctions.Pow.Real
/-! C16 — helper lemmas: the model at the reals (`Real.exp`, `Real.rpow`, `Real.sqrt`) and the index
arithmetic of `fftshift`. -/
namespace CryoCat.C16

/-- the numeric services at the reals -/
noncomputable def realOps : Ops ℝ :=
  { exp := Real.exp, pow := fun x y => x ^ y, sqrt := Real.sqrt, ofInt := fun n => (n : ℝ) }

/-- the documented Grant–Grigorieff constants of the statement -/
noncomputable def ggDoc : GG ℝ := { a := 0.245, b := -1.665, c := 2.81 }

theorem gg_real : gg realOps = ggDoc := by
  have ha : (gg realOps).a = 0.245 := by simp [gg, realOps, Gen.C16.ggA]; norm_num
  have hb : (gg realOps).b = -1.665 := by simp [gg, realOps, Gen.C16.ggB]; norm_num
  have hc : (gg realOps).c = 2.81 := by simp [gg, realOps, Gen.C16.ggC]; norm_num
  cases h : gg realOps with
  | mk a b c => rw [h] at ha hb hc; simp only at ha hb hc; subst ha hb hc; rfl

theorem rstep_real (n : Nat) (px : ℝ) : rstep realOps n px = 1 / ((n : ℝ) * px) := by
  simp [rstep, realOps]

theorem freqK_real (W H : Nat) (px : ℝ) (kx ky : Int) :
    freqK realOps W H px kx ky
      = Real.sqrt (((kx : ℝ) / ((W : ℝ) * px)) ^ 2 + ((ky : ℝ) / ((H : ℝ) * px)) ^ 2) := by
  simp only [freqK, rstep_real]
  simp only [realOps]
  congr 1
  push_cast
  ring

theorem freqK_nonneg (W H : Nat) (px : ℝ) (kx ky : Int) : 0 ≤ freqK realOps W H px kx ky := by
  rw [freqK_real]; exact Real.sqrt_nonneg _

theorem freqK_eq_zero_iff {W H : Nat} {px : ℝ} (hW : 0 < W) (hH : 0 < H) (hpx : 0 < px) (kx ky : Int) :
    freqK realOps W H px kx ky = 0 ↔ kx = 0 ∧ ky = 0 := by
  rw [freqK_real]
  have hWp : (0 : ℝ) < (W : ℝ) * px := mul_pos (by exact_mod_cast hW) hpx
  have hHp : (0 : ℝ) < (H : ℝ) * px := mul_pos (by exact_mod_cast hH) hpx
  have h1 : 0 ≤ ((kx : ℝ) / ((W : ℝ) * px)) ^ 2 := sq_nonneg _
  have h2 : 0 ≤ ((ky : ℝ) / ((H : ℝ) * px)) ^ 2 := sq_nonneg _
  rw [Real.sqrt_eq_zero (add_nonneg h1 h2)]
  constructor
  · intro h
    have e1 : ((kx : ℝ) / ((W : ℝ) * px)) ^ 2 = 0 := by linarith
    have e2 : ((ky : ℝ) / ((H : ℝ) * px)) ^ 2 = 0 := by linarith
    have e1' := pow_eq_zero_iff (two_ne_zero) |>.1 e1
    have e2' := pow_eq_zero_iff (two_ne_zero) |>.1 e2
    rw [div_eq_zero_iff] at e1' e2'
    constructor
    · rcases e1' with h | h
      · exact_mod_cast h
      · exact absurd h (ne_of_gt hWp)
    · rcases e2' with h | h
      · exact_mod_cast h
      · exact absurd h (ne_of_gt hHp)
  · rintro ⟨rfl, rfl⟩; simp

/-- the critical exposure is positive (no division by zero, attenuation well defined) -/
theorem critExp_pos (g : GG ℝ) (ha : 0 ≤ g.a) (hc : 0 < g.c) {f : ℝ} (hf : 0 ≤ f) : 0 < critExp realOps g f := by
  have : 0 ≤ f ^ g.b := Real.rpow_nonneg hf _
  simp only [critExp, realOps]
  have := mul_nonneg ha this
  linarith

theorem atten_real (g : GG ℝ) (d f : ℝ) :
    atten realOps g d f = Real.exp (-d / (2 * (g.a * f ^ g.b + g.c))) := by
  simp [atten, critExp, realOps]

theorem atten_zero_dose (g : GG ℝ) (f : ℝ) : atten realOps g 0 f = 1 := by
  simp [atten_real]

theorem atten_add (g : GG ℝ) (d₁ d₂ f : ℝ) :
    atten realOps g d₁ f * atten realOps g d₂ f = atten realOps g (d₁ + d₂) f := by
  simp only [atten_real, ← Real.exp_add]
  congr 1; ring

theorem atten_pos (g : GG ℝ) (d f : ℝ) : 0 < atten realOps g d f := by
  rw [atten_real]; exact Real.exp_pos _

theorem atten_antitone (g : GG ℝ) (ha : 0 ≤ g.a) (hc : 0 < g.c) {f : ℝ} (hf : 0 ≤ f) {d₁ d₂ : ℝ} (h : d₁ ≤ d₂) :
    atten realOps g d₂ f ≤ atten realOps g d₁ f := by
  have hp : 0 < 2 * (g.a * f ^ g.b + g.c) := by
    have := critExp_pos g ha hc hf
    simp only [critExp, realOps] at this
    linarith
  rw [atten_real, atten_real, Real.exp_le_exp]
  exact div_le_div_of_nonneg_right (by linarith) hp.le

theorem atten_le_one (g : GG ℝ) (ha : 0 ≤ g.a) (hc : 0 < g.c) {f : ℝ} (hf : 0 ≤ f) {d : ℝ} (h : 0 ≤ d) :
    atten realOps g d f ≤ 1 := by
  have := atten_antitone g ha hc hf h
  rwa [atten_zero_dose] at this

theorem ggDoc_a_nonneg : 0 ≤ ggDoc.a := by simp [ggDoc]; norm_num
theorem ggDoc_c_pos : 0 < ggDoc.c := by simp [ggDoc]; norm_num

/-! ### index arithmetic -/

theorem mod_cases (a n : Nat) (h : a < 2 * n) : a % n = if a < n then a else a - n := by
  split
  · exact Nat.mod_eq_of_lt ‹_›
  · rw [Nat.mod_eq_sub_mod (by omega)]
    exact Nat.mod_eq_of_lt (by omega)

theorem shiftSrc_ishiftSrc {n k : Nat} (hk : k < n) : shiftSrc n (ishiftSrc n k) = k := by
  unfold shiftSrc ishiftSrc
  rw [mod_cases (k + n / 2) n (by omega)]
  split
  · rw [mod_cases _ n (by omega)]; split <;> omega
  · rw [mod_cases _ n (by omega)]; split <;> omega

theorem ishiftSrc_shiftSrc {n x : Nat} (hx : x < n) : ishiftSrc n (shiftSrc n x) = x := by
  unfold shiftSrc ishiftSrc
  rw [mod_cases (x + (n - n / 2)) n (by omega)]
  split
  · rw [mod_cases _ n (by omega)]; split <;> omega
  · rw [mod_cases _ n (by omega)]; split <;> omega

/-- position `ishiftSrc n k` of the shifted spectrum (where raw DFT index `k` sits) carries `x - n//2 =` the signed
frequency of `k`, for even and odd `n` -/
theorem kOfPos_ishiftSrc {n k : Nat} (hk : k < n) : kOfPos n (ishiftSrc n k) = sfreq n k := by
  unfold kOfPos ishiftSrc sfreq cen
  rw [mod_cases (k + n / 2) n (by omega)]
  split <;> split <;> omega

theorem kOfPos_range {n x : Nat} (hx : x < n) : -((n / 2 : Nat) : Int) ≤ kOfPos n x ∧ kOfPos n x ≤ ((n - 1) / 2 : Nat) := by
  unfold kOfPos cen; omega

theorem sfreq_zero {n : Nat} (hn : 0 < n) : sfreq n 0 = 0 := by
  unfold sfreq; simp [hn]

theorem sfreq_negIdx_sq {n k : Nat} (hk : k < n) :
    sfreq n (negIdx n k) * sfreq n (negIdx n k) = sfreq n k * sfreq n k := by
  unfold sfreq negIdx
  rw [mod_cases (n - k) n (by omega)]
  have key : ∀ a b : Int, (a = b ∨ a = -b) → a * a = b * b := by
    rintro a b (h | h) <;> subst h <;> simp
  apply key
  split <;> split <;> split <;> omega

end CryoCat.C16
