import CryoCat.Lemmas.C02_Write
/-! C02 — helper lemmas, part 6: the document `Starfile.write` produces is well laid out. -/
namespace CryoCat.C02

theorem eLine_skip : eLine.Skip :=
  ⟨⟨by simp [PadOk, eLine], by simp [eLine], by simp [eLine, SepsOk], Or.inl rfl⟩, rfl⟩

theorem padOk_nil : PadOk [] := by simp [PadOk]

theorem loopWord_ok : WordOk ['l', 'o', 'o', 'p', '_'] := ⟨by simp, by decide⟩

theorem digits_no_nl (i : Nat) : '\n' ∉ natDigits i := by
  intro h
  have := Nat.isDigit_of_mem_toDigits (by decide) (by decide) h
  revert this; decide

theorem padOf_ok (w : Word) : PadOk (padOf w) := by
  intro c hc
  simp only [padOf, List.mem_replicate] at hc
  rw [hc.2]; decide

theorem padTab_ok (w : Word) : PadOk (padOf w ++ ['\t']) := by
  intro c hc
  simp only [List.mem_append, List.mem_singleton] at hc
  rcases hc with h | rfl
  · exact padOf_ok w c h
  · decide

theorem labelLine_ok (numbered : Bool) (i : Nat) (c : Word) (hc : ColNameOk c) :
    (labelLineOf numbered i c).Ok ∧ (labelLineOf numbered i c).words = ['_' :: c] := by
  have hw : WordOk ('_' :: c) := by
    refine ⟨by simp, ?_⟩
    intro x hx
    simp only [List.mem_cons] at hx
    rcases hx with rfl | hx
    · decide
    · exact hc x hx
  cases numbered
  · refine ⟨⟨padOk_nil, ?_, by simp [labelLineOf, SepsOk], Or.inl rfl⟩, rfl⟩
    intro p hp
    simp only [labelLineOf, Bool.false_eq_true, if_false, List.mem_singleton] at hp
    subst hp; exact ⟨hw, padOk_nil⟩
  · refine ⟨⟨padOk_nil, ?_, by simp [labelLineOf, SepsOk], Or.inr ⟨natDigits i, rfl, digits_no_nl i⟩⟩, rfl⟩
    intro p hp
    simp only [labelLineOf, if_true, List.mem_singleton] at hp
    subst hp
    refine ⟨hw, ?_⟩
    intro x hx
    simp only [List.mem_singleton] at hx
    subst hx; decide

theorem labelLines_ok (numbered : Bool) (i : Nat) (cols : List Word) (h : ∀ c ∈ cols, ColNameOk c) :
    (∀ l ∈ labelLinesOf numbered i cols, l.Ok) ∧
      (labelLinesOf numbered i cols).map Line.words = cols.map (fun c => ['_' :: c]) := by
  induction cols generalizing i with
  | nil => simp [labelLinesOf]
  | cons c cs ih =>
    have h1 := labelLine_ok numbered i c (h c (by simp))
    have h2 := ih (i + 1) (fun x hx => h x (by simp [hx]))
    refine ⟨?_, ?_⟩
    · intro l hl
      simp only [labelLinesOf, List.mem_cons] at hl
      rcases hl with rfl | hl
      · exact h1.1
      · exact h2.1 l hl
    · simp only [labelLinesOf, List.map_cons, h1.2, h2.2]

theorem rowItems_ok (r : List Word) (h : ∀ w ∈ r, CellOk w) :
    (∀ p ∈ rowItems r, WordOk p.1 ∧ PadOk p.2) ∧ SepsOk (rowItems r) ∧ (rowItems r).map (·.1) = r := by
  induction r with
  | nil => simp [rowItems, SepsOk]
  | cons w r ih =>
    have hw := (h w (by simp)).1
    cases r with
    | nil =>
      refine ⟨?_, by simp [rowItems, SepsOk], by simp [rowItems]⟩
      intro p hp
      simp only [rowItems, List.mem_singleton] at hp
      subst hp; exact ⟨hw, padOf_ok w⟩
    | cons w' r' =>
      have ih' := ih (fun x hx => h x (by simp [hx]))
      refine ⟨?_, ?_, ?_⟩
      · intro p hp
        simp only [rowItems, List.mem_cons] at hp
        rcases hp with rfl | hp
        · exact ⟨hw, padTab_ok w⟩
        · exact ih'.1 p (by simpa [rowItems] using hp)
      · cases r' with
        | nil => exact ⟨by simp, trivial⟩
        | cons w'' r'' => exact ⟨by simp, ih'.2.1⟩
      · simp only [rowItems, List.map_cons, List.cons.injEq, true_and]
        exact ih'.2.2

theorem rowLine_ok (r : List Word) (h : ∀ w ∈ r, CellOk w) :
    (rowLineOf r).Ok ∧ (rowLineOf r).tail = [] ∧ (rowLineOf r).words = r := by
  have := rowItems_ok r h
  exact ⟨⟨padOk_nil, this.1, this.2.1, Or.inl rfl⟩, rfl, this.2.2⟩

theorem layoutOf_ok (nc : Bool) (pre : List Line) (b : Block) (hpre : ∀ l ∈ pre, l.Skip) (hb : BlockOk b) :
    (layoutOf nc pre b).Ok := by
  obtain ⟨hname, hcols, hcn, hrows⟩ := hb
  have hl := labelLines_ok (nc && !isStopgap b.name) Gen.C02.labelStart b.cols hcn
  refine ⟨hpre, ?_, ?_, ?_, rfl, hname.2, ?_, rfl, rfl, hcols, hl.1, hl.2, ?_⟩
  · intro l hl'; simp only [layoutOf, List.mem_singleton] at hl'; subst hl'; exact eLine_skip
  · intro l hl'
    simp only [layoutOf] at hl'
    split at hl'
    · simp only [List.mem_singleton] at hl'; subst hl'; exact eLine_skip
    · simp at hl'
  · refine ⟨padOk_nil, ?_, by simp [layoutOf, SepsOk], Or.inl rfl⟩
    intro p hp
    simp only [layoutOf, List.mem_singleton] at hp
    subst hp; exact ⟨hname.1, padOk_nil⟩
  · refine ⟨padOk_nil, ?_, by simp [layoutOf, SepsOk], Or.inl rfl⟩
    intro p hp
    simp only [layoutOf, List.mem_singleton] at hp
    subst hp; exact ⟨loopWord_ok, padOk_nil⟩
  · intro r hr
    simp only [layoutOf, List.mem_map] at hr
    obtain ⟨r0, hr0, rfl⟩ := hr
    have h0 := hrows r0 hr0
    have h1 := rowLine_ok r0 h0.2
    refine ⟨h1.1, h1.2.1, by rw [h1.2.2]; exact h0.1, ?_⟩
    rw [h1.2.2]; intro w hw; exact (h0.2 w hw).2

theorem layoutOf_block (nc : Bool) (pre : List Line) (b : Block) (hb : BlockOk b) : (layoutOf nc pre b).block = b := by
  obtain ⟨_, _, _, hrows⟩ := hb
  have : (b.rows.map rowLineOf).map Line.words = b.rows := by
    rw [List.map_map]
    conv => rhs; rw [← List.map_id b.rows]
    exact List.map_congr_left (fun r hr => (rowLine_ok r (hrows r hr).2).2.2)
  cases b
  simp only [BlockLayout.block, layoutOf] at this ⊢
  rw [this]

theorem layoutsOf_blocks (nc : Bool) (pre : List Line) (bs : List Block) (h : ∀ b ∈ bs, BlockOk b) :
    (layoutsOf nc pre bs).map BlockLayout.block = bs := by
  induction bs generalizing pre with
  | nil => rfl
  | cons b rest ih =>
    simp only [layoutsOf, List.map_cons]
    rw [layoutOf_block nc pre b (h b (by simp)), ih _ (fun x hx => h x (by simp [hx]))]

theorem layoutsOf_ok (nc : Bool) (pre : List Line) (hpre : ∀ l ∈ pre, l.Skip) (bs : List Block) (h : ∀ b ∈ bs, BlockOk b) :
    ∀ x ∈ layoutsOf nc pre bs, x.Ok := by
  induction bs generalizing pre with
  | nil => simp [layoutsOf]
  | cons b rest ih =>
    intro x hx
    simp only [layoutsOf, List.mem_cons] at hx
    rcases hx with rfl | hx
    · exact layoutOf_ok nc pre b hpre (h b (by simp))
    · refine ih [eLine, eLine] ?_ (fun y hy => h y (by simp [hy])) x hx
      intro l hl; simp only [List.mem_cons, List.mem_nil_iff, or_false] at hl
      rcases hl with rfl | rfl <;> exact eLine_skip

theorem layoutsOf_sep (nc : Bool) (pre : List Line) (bs : List Block) (he : EmptyOnlyLast bs) :
    SepOk [eLine, eLine] (layoutsOf nc pre bs) := by
  induction bs generalizing pre with
  | nil => trivial
  | cons b rest ih =>
    cases rest with
    | nil => intro _; simp [layoutsOf]
    | cons b2 rest' =>
      refine ⟨?_, by simp [layoutOf], ih _ he.2⟩
      simpa [layoutOf] using he.1

theorem docOf_ok (nc : Bool) (bs : List Block) (h : ∀ b ∈ bs, BlockOk b) (he : EmptyOnlyLast bs) : (docOf nc bs).Ok := by
  refine ⟨layoutsOf_ok nc [eLine] ?_ bs h, ?_, layoutsOf_sep nc [eLine] bs he, by simp [Doc.lines, docOf]⟩
  · intro l hl; simp only [List.mem_singleton] at hl; subst hl; exact eLine_skip
  · intro l hl; simp only [docOf, List.mem_cons, List.mem_nil_iff, or_false] at hl
    rcases hl with rfl | rfl <;> exact eLine_skip

/-- **write, then read**: the text `Starfile.write` produces for well-formed tables is read back
into exactly those tables -/
theorem readStar_printStar (nc : Bool) (bs : List Block) (h : ∀ b ∈ bs, BlockOk b) (he : EmptyOnlyLast bs) :
    readStar (printStar nc bs) = .ok bs := by
  cases bs with
  | nil => rfl
  | cons b rest =>
    rw [← docOf_text nc (b :: rest) (by simp), readStar_doc _ (docOf_ok nc _ h he)]
    simp only [docOf]
    rw [layoutsOf_blocks nc _ _ h]

end CryoCat.C02
