import CryoCat.Lemmas.C19_Prefix
/-! C19 — `ChainsWellNumbered` and the link invariant through `merge`, `step`, the main loop and
all tomograms. -/
namespace CryoCat.C19
set_option linter.unusedSectionVars false
variable {α : Type} [LE α] [LT α] [DecidableLE α] [DecidableLT α] [DecidableEq α]

/-! ### the fresh chain -/

theorem mkChainFrom_dl (o : Opts) (c : Cfg α) (cls : Int) : ∀ (ms : List (Nat × α)) (k : Int), Linked o c ms →
    DL o c (mkChainFrom cls k ms)
  | [], _, _ => by intro r hr; simp [mkChainFrom] at hr
  | [(a, da)], k, _ => by
    intro r hr r' hr' _ hk
    simp only [mkChainFrom, List.mem_singleton] at hr hr'
    subst hr hr'
    simp only at hk; omega
  | (a, da) :: (b, db) :: rest, k, h => by
    obtain ⟨h1, h2, h3⟩ := h
    have ih := mkChainFrom_dl o c cls ((b, db) :: rest) (k + 1) h3
    intro r hr r' hr' ho hk
    have hpw := mkChainFrom_pairwise (α := α) cls ((b, db) :: rest) (k + 1)
    have hb : (⟨b, cls, k + 1, db⟩ : Row α) ∈ mkChainFrom cls (k + 1) ((b, db) :: rest) := by simp [mkChainFrom]
    simp only [mkChainFrom, List.mem_cons] at hr hr'
    have tl : ∀ x : Row α, (x = ⟨b, cls, k + 1, db⟩ ∨ x ∈ mkChainFrom cls (k + 1 + 1) rest) →
        x ∈ mkChainFrom cls (k + 1) ((b, db) :: rest) := by
      intro x hx; simpa [mkChainFrom] using hx
    rcases hr with rfl | hr
    · rcases hr' with rfl | hr'
      · simp only at hk; omega
      · have hr'' := tl r' hr'
        have e := pairwise_ord_inj hpw r' hr'' _ hb (by simpa using hk)
        subst e
        exact ⟨h1, h2⟩
    · have hr2 := tl r hr
      have := mkChainFrom_mem cls ((b, db) :: rest) (k + 1) r hr2
      rcases hr' with rfl | hr'
      · simp only at hk; omega
      · exact ih r hr2 r' (tl r' hr') ho hk

theorem mkChainFrom_last (cls : Int) : ∀ (ms : List (Nat × α)) (k : Int) (p : Nat) (x : α), ms.getLast? = some (p, x) →
    ∃ r ∈ mkChainFrom cls k ms, r.ord = k + ms.length - 1 ∧ r.idx = p
  | [], _, _, _, h => by simp at h
  | [(a, da)], k, p, x, h => by
    simp only [List.getLast?_singleton, Option.some.injEq, Prod.mk.injEq] at h
    exact ⟨⟨a, cls, k, da⟩, by simp [mkChainFrom], by simp, h.1⟩
  | (a, da) :: (b, db) :: rest, k, p, x, h => by
    rw [List.getLast?_cons_cons] at h
    obtain ⟨r, hr, e1, e2⟩ := mkChainFrom_last cls ((b, db) :: rest) (k + 1) p x h
    refine ⟨r, by simp only [mkChainFrom, List.mem_cons] at hr ⊢; exact Or.inr hr, ?_, e2⟩
    simp only [List.length_cons] at e1 ⊢
    omega

theorem DL.append {o : Opts} {c : Cfg α} {A C : List (Row α)} (hA : DL o c A) (hC : DL o c C)
    (hd : ∀ r ∈ A, ∀ r' ∈ C, r.obj ≠ r'.obj) : DL o c (A ++ C) := by
  intro r hr r' hr' ho hk
  rcases List.mem_append.1 hr with hr | hr <;> rcases List.mem_append.1 hr' with hr' | hr'
  · exact hA r hr r' hr' ho hk
  · exact absurd ho (hd r hr r' hr')
  · exact absurd ho.symm (hd r' hr' r hr)
  · exact hC r hr r' hr' ho hk

/-- the chain last traced -/
def lastOf (ms : List (Nat × α)) (i : Nat) : Nat := match ms.getLast? with | some (p, _) => p | none => i

/-- the state handed to `add_chain_suffix`: table and freshly traced chain -/
theorem mid_fresh {c : Cfg α} {nfm : List (Row α)} {K : Int → Int} {cls : Int} (hW : WN nfm K cls) (hcls : 1 ≤ cls)
    (hD : DL Opts.documented c nfm) (traced : List Nat) (i : Nat)
    (hnd : (ids (nfm ++ mkChainFrom cls 1 (traceChain Opts.documented c traced c.n i []))).Nodup) :
    Mid Opts.documented c nfm (mkChainFrom cls 1 (traceChain Opts.documented c traced c.n i []))
      (fun g => if g = cls then ((traceChain Opts.documented c traced c.n i []).length : Int) else K g) (cls + 1) cls
      (lastOf (traceChain Opts.documented c traced c.n i []) i) ∧
    ∃ c1 ∈ mkChainFrom cls 1 (traceChain Opts.documented c traced c.n i []), c1.ord = 1 ∧ c1.idx = i := by
  obtain ⟨x, tl, hms⟩ := traceChain_head Opts.documented c traced c.n i []
  have hl := traceChain_linked Opts.documented c traced c.n i []
  generalize traceChain Opts.documented c traced c.n i [] = ms at *
  subst hms
  refine ⟨⟨hW.append_fresh hcls _, hnd, ?_, fun r hr => (mkChainFrom_mem cls _ 1 r hr).1, ?_, mkChainFrom_pairwise cls _ 1⟩,
    ⟨⟨i, cls, 1, x⟩, by simp [mkChainFrom], rfl, rfl⟩⟩
  · refine hD.append (mkChainFrom_dl _ c cls _ 1 hl) ?_
    intro r hr r' hr'
    have := (hW.rng r hr).2
    have := (mkChainFrom_mem cls _ 1 r' hr').1
    omega
  · have hne : ((i, x) :: tl).getLast? ≠ none := by simp
    cases hg : ((i, x) :: tl).getLast? with
    | none => exact absurd hg hne
    | some px =>
      obtain ⟨p, y⟩ := px
      obtain ⟨r, hr, e1, e2⟩ := mkChainFrom_last cls _ 1 p y hg
      refine ⟨r, hr, ?_, ?_⟩
      · simp only [if_true]; omega
      · simp only [lastOf, hg]; exact e2

/-! ### `resolve` -/

theorem resolve_spec (o : Opts) (nfm : List (Row α)) (single : Bool) (fi0 nm0 : Option (Nat × α)) :
    ((resolve o nfm single fi0 nm0).1 = fi0 ∨ (resolve o nfm single fi0 nm0).1 = none) ∧
    ((resolve o nfm single fi0 nm0).2.1 = nm0 ∨ (resolve o nfm single fi0 nm0).2.1 = none) ∧
    ∀ f df m dm, (resolve o nfm single fi0 nm0).1 = some (f, df) → (resolve o nfm single fi0 nm0).2.1 = some (m, dm) →
      ((rowOf nfm f).map (·.obj) == (rowOf nfm m).map (·.obj)) = false := by
  unfold resolve
  split
  · rename_i f df m dm
    split
    · split <;> simp
    · split
      · split <;> simp
      · rename_i h1 h2
        refine ⟨Or.inl rfl, Or.inl rfl, ?_⟩
        intro f' df' m' dm' e1 e2
        simp only [Option.some.injEq, Prod.mk.injEq] at e1 e2
        obtain ⟨rfl, rfl⟩ := e1
        obtain ⟨rfl, rfl⟩ := e2
        simpa using h2
  · rename_i hno
    refine ⟨Or.inl rfl, Or.inl rfl, ?_⟩
    intro f df m dm e1 e2
    exact (hno f df m dm e1 e2).elim

/-! ### suffix part + prefix part -/

theorem parts_inv {c : Cfg α} {nfm ch : List (Row α)} {K : Int → Int} {cls : Int} {last first : Nat}
    (hM : Mid Opts.documented c nfm ch K (cls + 1) cls last) (hfresh : ∀ r ∈ nfm, r.obj ≠ cls)
    (hndN : (ids nfm).Nodup)
    (hfirst : ∃ c1 ∈ ch, c1.ord = 1 ∧ c1.idx = first) (fi nm : Option (Nat × α))
    (hfi : ∀ f df, fi = some (f, df) → df = c.d f first ∧ inWin Opts.documented c (c.d f first) = true)
    (hnm : ∀ m dm, nm = some (m, dm) → dm = c.d last m ∧ inWin Opts.documented c (c.d last m) = true)
    (hres : ∀ f df m dm, fi = some (f, df) → nm = some (m, dm) →
      ((rowOf nfm f).map (·.obj) == (rowOf nfm m).map (·.obj)) = false) :
    ∃ K', WN ((prefixPart Opts.documented (suffixPart Opts.documented nfm ch fi) nm (cls + 1)).1 ++
              (prefixPart Opts.documented (suffixPart Opts.documented nfm ch fi) nm (cls + 1)).2.1) K'
            (prefixPart Opts.documented (suffixPart Opts.documented nfm ch fi) nm (cls + 1)).2.2.1 ∧
      DL Opts.documented c ((prefixPart Opts.documented (suffixPart Opts.documented nfm ch fi) nm (cls + 1)).1 ++
              (prefixPart Opts.documented (suffixPart Opts.documented nfm ch fi) nm (cls + 1)).2.1) ∧
      1 ≤ (prefixPart Opts.documented (suffixPart Opts.documented nfm ch fi) nm (cls + 1)).2.2.1 := by
  have hcls : 1 ≤ cls := by
    obtain ⟨r, hr, _⟩ := hM.ctop
    have := hM.wn.rng r (List.mem_append_right _ hr)
    rw [hM.cobj r hr] at this
    exact this.1
  -- the prefix part when the suffix part left everything unchanged
  have unchanged : ∀ s : List (Row α) × List (Row α) × Bool × List Tag, s.1 = nfm → s.2.1 = ch → s.2.2.1 = false →
      ∃ K', WN ((prefixPart Opts.documented s nm (cls + 1)).1 ++ (prefixPart Opts.documented s nm (cls + 1)).2.1) K'
            (prefixPart Opts.documented s nm (cls + 1)).2.2.1 ∧
        DL Opts.documented c ((prefixPart Opts.documented s nm (cls + 1)).1 ++ (prefixPart Opts.documented s nm (cls + 1)).2.1) ∧
        1 ≤ (prefixPart Opts.documented s nm (cls + 1)).2.2.1 := by
    intro s e1 e2 e3
    unfold prefixPart
    cases nm with
    | none => dsimp only; rw [e1, e2]; exact ⟨K, hM.wn, hM.dl, by omega⟩
    | some md =>
      obtain ⟨m, dm⟩ := md
      dsimp only
      rw [e1, e2, e3]
      simp only [classMaxOf, Bool.false_eq_true, if_false]
      obtain ⟨K', h1, h2⟩ := addPrefix_none hM hfresh m dm (hnm m dm rfl)
      exact ⟨K', h1, h2, by omega⟩
  unfold suffixPart
  cases fi with
  | none => exact unchanged _ rfl rfl rfl
  | some fd =>
    obtain ⟨f, df⟩ := fd
    dsimp only
    rcases addSuffix_mid hM hfresh hfirst f df (hfi f df rfl) with ⟨e3, e1, e2⟩ | ⟨e3, t, K1, ht, htc, hM1, hK1, hpost⟩
    · exact unchanged _ e1 e2 e3
    · unfold prefixPart
      cases nm with
      | none => dsimp only; exact ⟨K1, hM1.wn, hM1.dl, by omega⟩
      | some md =>
        obtain ⟨m, dm⟩ := md
        dsimp only
        rw [e3]
        obtain ⟨ctop, hctop, hctopk, _⟩ := hM1.ctop
        have hle : ∀ r ∈ (addSuffix Opts.documented nfm ch f df).2.1, r.ord ≤ K1 t.obj := fun r hr => by
          have := hM1.wn.ordA r (List.mem_append_right _ hr); rw [hM1.cobj r hr] at this; exact this.2
        have hmax := maxOrd_top _ (K1 t.obj) (by omega) hle ⟨ctop, hctop, hctopk⟩
        have hcm : classMaxOf Opts.documented true (addSuffix Opts.documented nfm ch f df).2.1 (cls + 1) =
            (some (K1 t.obj, cls + 1), cls + 1 + 1) := by
          have hb : (Opts.documented).bothSidesFreshId = true := rfl
          simp only [classMaxOf, hb, if_true, hmax]
          rw [if_pos (by omega)]
        rw [hcm]
        dsimp only
        have hneq : ∀ t2, rowOf (addSuffix Opts.documented nfm ch f df).1 m = some t2 → t2.obj ≠ t.obj := by
          intro t2 ht2 e
          obtain ⟨ht2m, ht2i⟩ := rowOf_some ht2
          obtain ⟨r, hr, hri, hro⟩ := hpost t2 ht2m e
          have hres' := hres f df m dm rfl rfl
          rw [ht] at hres'
          cases htm : rowOf nfm m with
          | none =>
            unfold rowOf at htm
            have := List.find?_eq_none.1 htm r hr
            simp [hri, ht2i] at this
          | some tm =>
            obtain ⟨h1, h2⟩ := rowOf_some htm
            have : tm = r := idx_inj_of_nodup hndN h1 hr (by rw [h2, hri, ht2i])
            rw [htm, this] at hres'
            simp [hro] at hres'
        obtain ⟨K', h1, h2⟩ := addPrefix_some hM1 m dm (cls + 1) (Int.le_refl _) hneq (hnm m dm rfl)
        exact ⟨K', h1, h2, by omega⟩

/-! ### the main loop -/

/-- the loop invariant: the traced table is well numbered and correctly linked -/
def Inv2 (c : Cfg α) (st : State α) : Prop :=
  ∃ K, WN st.nfm K st.classC ∧ DL Opts.documented c st.nfm ∧ 1 ≤ st.classC

theorem step_inv2 (c : Cfg α) (st : State α) (i : Nat) (hi : i < c.n) (h : Inv c st) (h2 : Inv2 c st) :
    Inv2 c (step Opts.documented c st i) := by
  obtain ⟨K, hW, hD, hc⟩ := h2
  have hstep := (step_inv Opts.documented c st i hi h).1.1
  rw [step_ids] at hstep
  unfold step
  by_cases hin : (st.nfm.map (·.idx)).contains i = true
  · rw [if_pos hin]; exact ⟨K, hW, hD, hc⟩
  · rw [if_neg hin]
    have hin' : i ∉ ids st.nfm := by simpa [ids] using hin
    rw [if_neg hin'] at hstep
    have hnd : (ids (st.nfm ++ mkChainFrom st.classC 1 (traceChain Opts.documented c (ids st.nfm) c.n i []))).Nodup := by
      have e : ids (st.nfm ++ mkChainFrom st.classC 1 (traceChain Opts.documented c (ids st.nfm) c.n i [])) =
          ids st.nfm ++ ids (mkChainFrom st.classC 1 (traceChain Opts.documented c (ids st.nfm) c.n i [])) := List.map_append
      rw [e, ids_mkChainFrom]; exact hstep
    obtain ⟨hM, hfirst⟩ := mid_fresh hW hc hD (ids st.nfm) i hnd
    dsimp only
    by_cases he : st.nfm.isEmpty = true
    · rw [if_pos he]
      exact ⟨_, hM.wn, hM.dl, by dsimp only; omega⟩
    · rw [if_neg he]
      have hfresh : ∀ r ∈ st.nfm, r.obj ≠ st.classC := fun r hr => by have := (hW.rng r hr).2; omega
      unfold merge
      dsimp only
      obtain ⟨r1, r2, r3⟩ := resolve_spec Opts.documented st.nfm
        ((traceChain Opts.documented c (List.map (fun x => x.idx) st.nfm) c.n i []).length == 1)
        (nearestExit Opts.documented c i fun j => (List.map (fun x => x.idx) st.nfm).contains j)
        (nearestEntry Opts.documented c
          (match (traceChain Opts.documented c (List.map (fun x => x.idx) st.nfm) c.n i []).getLast? with
            | some (p, _) => p | none => i) fun j => (List.map (fun x => x.idx) st.nfm).contains j)
      refine parts_inv hM hfresh h.1 hfirst _ _ ?_ ?_ r3
      · intro f df e
        rcases r1 with r1 | r1
        · obtain ⟨_, _, hw, hx⟩ := nearestExit_some _ _ _ _ _ _ (r1.symm.trans e)
          exact ⟨hx, hw⟩
        · exact absurd (r1.symm.trans e) (by simp)
      · intro m dm e
        rcases r2 with r2 | r2
        · obtain ⟨_, _, hw, hx⟩ := nearestEntry_some _ _ _ _ _ _ (r2.symm.trans e)
          exact ⟨hx, hw⟩
        · exact absurd (r2.symm.trans e) (by simp)

theorem fold_inv2 (c : Cfg α) : ∀ (L : List Nat) (st : State α), (∀ i ∈ L, i < c.n) → Inv c st → Inv2 c st →
    Inv2 c (L.foldl (step Opts.documented c) st)
  | [], _, _, _, h2 => h2
  | a :: L, st, hL, h, h2 => by
    simp only [List.foldl_cons]
    exact fold_inv2 c L _ (fun i hi => hL i (List.mem_cons_of_mem _ hi))
      (step_inv Opts.documented c st a (hL a (by simp)) h).1 (step_inv2 c st a (hL a (by simp)) h h2)

/-- the result of `trace_chains` on one tomogram is well numbered, correctly linked, and holds
distinct particles -/
theorem run_inv2 (c : Cfg α) :
    (∃ K cc, WN (run Opts.documented c).nfm K cc) ∧ DL Opts.documented c (run Opts.documented c).nfm ∧
      (ids (run Opts.documented c).nfm).Nodup ∧ ∀ j ∈ ids (run Opts.documented c).nfm, j < c.n := by
  have h0 : Inv c ({ nfm := [], classC := 1, tags := [] } : State α) := ⟨by simp [ids], by simp [ids]⟩
  obtain ⟨K, hW, hD, _⟩ := fold_inv2 c (List.range c.n) { nfm := [], classC := 1, tags := [] }
    (fun i hi => List.mem_range.1 hi) h0 ⟨fun _ => 0, WN.nil _ _, by intro r hr; simp at hr, Int.le_refl _⟩
  have hI := (fold_inv Opts.documented c (List.range c.n) { nfm := [], classC := 1, tags := [] }
    (fun i hi => List.mem_range.1 hi) h0).1
  exact ⟨⟨K, _, hW⟩, hD, hI.1, hI.2⟩

/-! ### all tomograms -/

theorem group_flatMap (f : Cfg α → List (Row α)) (t : Nat) (g : Int) : ∀ (cs : List (Cfg α)) (k : Nat),
    group ((cs.zipIdx k).flatMap (fun (c, i) => (f c).map (fun r => (i, r)))) t g =
      if k ≤ t then
        (match cs[t - k]? with
          | some c => ((f c).filter (fun r => r.obj == g)).map (fun r => (t, r))
          | none => [])
      else []
  | [], k => by simp [group]
  | c :: cs, k => by
    have ih := group_flatMap f t g cs (k + 1)
    unfold group at ih ⊢
    simp only [List.zipIdx_cons, List.flatMap_cons, List.filter_append, ih, List.filter_map]
    by_cases hk : k = t
    · subst hk
      have hlt' : ¬ k + 1 ≤ k := by omega
      simp [Function.comp_def, hlt']
    · by_cases hlt : k ≤ t
      · have e : t - k = (t - (k + 1)) + 1 := by omega
        have hlt' : k + 1 ≤ t := by omega
        simp [hk, hlt, hlt', e, Function.comp_def]
      · have hlt' : ¬ k + 1 ≤ t := by omega
        simp [hk, hlt, hlt', Function.comp_def]

theorem mem_flatMap_tomo (f : Cfg α → List (Row α)) (t : Nat) (r : Row α) : ∀ (cs : List (Cfg α)) (k : Nat),
    (t, r) ∈ (cs.zipIdx k).flatMap (fun (c, i) => (f c).map (fun r => (i, r))) →
      ∃ c, k ≤ t ∧ cs[t - k]? = some c ∧ r ∈ f c
  | [], k, h => by simp at h
  | c :: cs, k, h => by
    simp only [List.zipIdx_cons, List.flatMap_cons, List.mem_append, List.mem_map, Prod.mk.injEq] at h
    rcases h with ⟨r', hr', rfl, rfl⟩ | h
    · exact ⟨c, Nat.le_refl _, by simp, hr'⟩
    · obtain ⟨c', h1, h2, h3⟩ := mem_flatMap_tomo f t r cs (k + 1) h
      refine ⟨c', by omega, ?_, h3⟩
      have e : t - k = (t - (k + 1)) + 1 := by omega
      rw [e, List.getElem?_cons_succ]; exact h2

end CryoCat.C19
