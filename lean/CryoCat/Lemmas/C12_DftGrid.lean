import CryoCat.Model.C12_Dft
import CryoCat.Lemmas.C12_Grid
/-! C12 — the array pipeline `filtGrid` the driver executes holds, on the box, exactly the values of
`filt (dft3 …) (idft3 …) re gain`: every 1-D pass of the model's transforms reads only the box, so
tabulating between the passes changes nothing. No algebra needed (any `C` with `+`, `*`, `0`). -/
namespace CryoCat.C12

section
set_option linter.unusedSectionVars false
variable {C : Type} [Add C] [Mul C] [OfNat C 0]

def InBoxI (d : Dims) (i : Idx) : Prop := InBox d i.1 i.2.1 i.2.2

/-- `T` reads, for outputs on the box, only inputs on the box -/
def BoxLocal (d : Dims) (T : (Idx → C) → (Idx → C)) : Prop :=
  ∀ x x' : Idx → C, (∀ i, InBoxI d i → x i = x' i) → ∀ i, InBoxI d i → T x i = T x' i

/-- the 1-D analogue on `0 … n-1` -/
def Local1 (n : Nat) (T : (Int → C) → (Int → C)) : Prop :=
  ∀ f g : Int → C, (∀ u : Int, 0 ≤ u ∧ u < (n : Int) → f u = g u) → ∀ k : Int, 0 ≤ k ∧ k < (n : Int) → T f k = T g k

theorem sumN_congr (n : Nat) (f g : Nat → C) (h : ∀ j, j < n → f j = g j) : sumN n f = sumN n g := by
  induction n with
  | zero => rfl
  | succ n ih =>
    simp only [sumN]
    rw [ih (fun j hj => h j (by omega)), h n (by omega)]

theorem dft1_local (n : Nat) (tw : Nat → C) : Local1 n (dft1 n tw) := by
  intro f g h k hk
  unfold dft1
  rw [if_pos hk, if_pos hk]
  apply sumN_congr; intro j hj
  rw [h (j : Int) ⟨by omega, by exact_mod_cast hj⟩]

theorem idft1_local (n : Nat) (tw : Nat → C) (c : C) : Local1 n (idft1 n tw c) := by
  intro f g h k hk
  unfold idft1
  rw [if_pos hk, if_pos hk]
  congr 1
  apply sumN_congr; intro j hj
  rw [h (j : Int) ⟨by omega, by exact_mod_cast hj⟩]

theorem alongX_local (d : Dims) (T : (Int → C) → (Int → C)) (h : Local1 d.nx T) : BoxLocal d (alongX T) := by
  intro x x' hx i hi
  obtain ⟨a, b, c⟩ := i
  exact h _ _ (fun u hu => hx (u, b, c) ⟨hu, hi.2.1, hi.2.2⟩) a hi.1

theorem alongY_local (d : Dims) (T : (Int → C) → (Int → C)) (h : Local1 d.ny T) : BoxLocal d (alongY T) := by
  intro x x' hx i hi
  obtain ⟨a, b, c⟩ := i
  exact h _ _ (fun u hu => hx (a, u, c) ⟨hi.1, hu, hi.2.2⟩) b hi.2.1

theorem alongZ_local (d : Dims) (T : (Int → C) → (Int → C)) (h : Local1 d.nz T) : BoxLocal d (alongZ T) := by
  intro x x' hx i hi
  obtain ⟨a, b, c⟩ := i
  exact h _ _ (fun u hu => hx (a, b, u) ⟨hi.1, hi.2.1, hu⟩) c hi.2.2

/-- one materialised stage computes `T` of whatever the input array holds on the box -/
theorem stage_get (d : Dims) (T : (Idx → C) → (Idx → C)) (hT : BoxLocal d T) (g : Grid C) (f : Idx → C)
    (hg : ∀ i, InBoxI d i → atIdx g.get i = f i) (i : Idx) (hi : InBoxI d i) : atIdx (stage d T g).get i = T f i := by
  obtain ⟨a, b, c⟩ := i
  have := get_tabulate d (volOf (T (atIdx g.get))) a b c hi
  simp only [atIdx, stage]
  rw [this]
  exact hT _ _ hg (a, b, c) hi

end

/-- **the executed array pipeline is `filt` with the model's DFT**: on the box, `filtGrid` returns
`re (idft3 (gain • dft3 x))`, i.e. `filt (dft3 …) (idft3 …) re gain` applied to what the input array holds -/
theorem filtGrid_get {R C : Type} [SMul R C] [Add C] [Mul C] [OfNat C 0] (d : Dims) (twx twy twz : Nat → C) (ix iy iz : C)
    (re : C → C) (gain : Idx → R) (x : Grid C) (i : Idx) (hi : InBoxI d i) :
    atIdx (filtGrid d twx twy twz ix iy iz re gain x).get i
      = filt (dft3 d twx twy twz) (idft3 d twx twy twz ix iy iz) re gain (atIdx x.get) i := by
  unfold filtGrid filt dft3 idft3
  simp only []
  have s1 := stage_get d _ (alongX_local d _ (dft1_local d.nx twx)) x (atIdx x.get) (fun _ _ => rfl)
  have s2 := stage_get d _ (alongY_local d _ (dft1_local d.ny twy)) _ _ s1
  have s3 := stage_get d _ (alongZ_local d _ (dft1_local d.nz twz)) _ _ s2
  have hmul : BoxLocal d (fun (s : Idx → C) k => gain k • s k) := by
    intro y y' hy k hk; simp only []; rw [hy k hk]
  have s4 := stage_get d _ hmul _ _ s3
  have s5 := stage_get d _ (alongZ_local d _ (idft1_local d.nz twz iz)) _ _ s4
  have s6 := stage_get d _ (alongY_local d _ (idft1_local d.ny twy iy)) _ _ s5
  have s7 := stage_get d _ (alongX_local d _ (idft1_local d.nx twx ix)) _ _ s6
  have hre : BoxLocal d (fun (s : Idx → C) k => re (s k)) := by
    intro y y' hy k hk; simp only []; rw [hy k hk]
  exact stage_get d _ hre _ _ s7 i hi

theorem BoxLocal.comp {C : Type} (d : Dims) (T1 T2 : (Idx → C) → (Idx → C)) (h1 : BoxLocal d T1) (h2 : BoxLocal d T2) :
    BoxLocal d (fun x => T2 (T1 x)) :=
  fun x x' hx i hi => h2 _ _ (fun k hk => h1 x x' hx k hk) i hi

theorem idft3_local {C : Type} [Add C] [Mul C] [OfNat C 0] (d : Dims) (twx twy twz : Nat → C) (ix iy iz : C) :
    BoxLocal d (idft3 d twx twy twz ix iy iz) := by
  unfold idft3
  exact BoxLocal.comp d _ _ (BoxLocal.comp d _ _ (alongZ_local d _ (idft1_local d.nz twz iz)) (alongY_local d _ (idft1_local d.ny twy iy)))
    (alongX_local d _ (idft1_local d.nx twx ix))

theorem dft3_local {C : Type} [Add C] [Mul C] [OfNat C 0] (d : Dims) (twx twy twz : Nat → C) :
    BoxLocal d (dft3 d twx twy twz) := by
  unfold dft3
  exact BoxLocal.comp d _ _ (BoxLocal.comp d _ _ (alongX_local d _ (dft1_local d.nx twx)) (alongY_local d _ (dft1_local d.ny twy)))
    (alongZ_local d _ (dft1_local d.nz twz))

/-- on the box the filter only sees the input on the box -/
theorem filt_local {R C : Type} [SMul R C] [Add C] [Mul C] [OfNat C 0] (d : Dims) (twx twy twz : Nat → C) (ix iy iz : C)
    (re : C → C) (g : Idx → R) : BoxLocal d (filt (dft3 d twx twy twz) (idft3 d twx twy twz ix iy iz) re g) := by
  intro x x' hx i hi
  unfold filt
  congr 1
  apply idft3_local d twx twy twz ix iy iz _ _ _ i hi
  intro k hk
  rw [dft3_local d twx twy twz x x' hx k hk]

/-- the rolled array holds, on the box, the re-indexed input -/
theorem rollGrid_get {C : Type} [OfNat C 0] (d : Dims) (s : Idx) (x : Grid C) (i : Idx) (hi : InBoxI d i) :
    atIdx (rollGrid d s x).get i = atIdx x.get (rollIdx d s i) := by
  obtain ⟨a, b, c⟩ := i
  exact get_tabulate d _ a b c hi

/-- the driver's `roll` variant of the `filter` op: the pipeline run on the rolled array is `filt` of the re-indexed input -/
theorem filtGrid_roll {R C : Type} [SMul R C] [Add C] [Mul C] [OfNat C 0] (d : Dims) (twx twy twz : Nat → C) (ix iy iz : C)
    (re : C → C) (gain : Idx → R) (s : Idx) (x : Grid C) (i : Idx) (hi : InBoxI d i) :
    atIdx (filtGrid d twx twy twz ix iy iz re gain (rollGrid d s x)).get i
      = filt (dft3 d twx twy twz) (idft3 d twx twy twz ix iy iz) re gain (fun i => atIdx x.get (rollIdx d s i)) i := by
  rw [filtGrid_get d twx twy twz ix iy iz re gain _ i hi]
  exact filt_local d twx twy twz ix iy iz re gain _ _ (fun k hk => rollGrid_get d s x k hk) i hi

/-- on the box the filter only sees the gain on the box -/
theorem filt_gain_congr {R C : Type} [SMul R C] [Add C] [Mul C] [OfNat C 0] (d : Dims) (twx twy twz : Nat → C) (ix iy iz : C)
    (re : C → C) (g g' : Idx → R) (hg : ∀ k, InBoxI d k → g k = g' k) (x : Idx → C) (i : Idx) (hi : InBoxI d i) :
    filt (dft3 d twx twy twz) (idft3 d twx twy twz ix iy iz) re g x i
      = filt (dft3 d twx twy twz) (idft3 d twx twy twz ix iy iz) re g' x i := by
  unfold filt
  congr 1
  exact idft3_local d twx twy twz ix iy iz _ _ (fun k hk => by rw [hg k hk]) i hi

/-- the driver's call: gain read from the `ifftshift`ed materialised mask -/
theorem filtGrid_mask {R C : Type} [SMul R C] [Add C] [Mul C] [OfNat C 0] [Add R] [Mul R] [Sub R] [OfNat R 0] [OfNat R 1]
    (d : Dims) (twx twy twz : Nat → C) (ix iy iz : C) (re : C → C) (m : Grid R) (f : Vol R)
    (hm : ∀ x y z, InBox d x y z → m.get x y z = f x y z) (x : Grid C) (i : Idx) (hi : InBoxI d i) :
    atIdx (filtGrid d twx twy twz ix iy iz re (atIdx (gainGrid d m).get) x).get i
      = filt (dft3 d twx twy twz) (idft3 d twx twy twz ix iy iz) re (atIdx (shiftVol d f)) (atIdx x.get) i := by
  rw [filtGrid_get d twx twy twz ix iy iz re _ x i hi]
  apply filt_gain_congr d twx twy twz ix iy iz re _ _ _ _ i hi
  intro k hk
  obtain ⟨a, b, c⟩ := k
  exact gainGrid_get d m f hm a b c hk

end CryoCat.C12
