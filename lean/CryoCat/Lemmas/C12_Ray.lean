import CryoCat.Lemmas.C12_Mono
/-! C12 — monotonicity of the soft edge along every step that moves each index away from (or not at all
relative to) the centre plane of its axis: axis-parallel lines, face and space diagonals, and the same
for the EFFECTIVE gain `effGain` (what `np.real` leaves and what the harness measures as
`fft(out)/fft(in)`). A diagonal step is a chain of at most three axis-parallel steps, each covered by
`mask_step_x/y/z` at an arbitrary position of the other two indices. -/
namespace CryoCat.C12

/-- one step of one index: the frequency does not change, or — on an axis where the ball stays off both
faces of the mask box — it moves one bin away from the centre plane (`0 ≤ f ↦ f+1` or `f ≤ 0 ↦ f-1`) -/
def AwayStep (n : Nat) (r : Int) (j j' : Int) : Prop :=
  freq n j' = freq n j ∨
    (monoAxisOk n r = true ∧ ((0 ≤ freq n j ∧ freq n j' = freq n j + 1) ∨ (freq n j ≤ 0 ∧ freq n j' = freq n j - 1)))

/-- `AwayStep` whose mirror image `(-j, -j')` is an `AwayStep` too: the target is not the Nyquist bin of an
even axis (the only frequency without a mirror bin) -/
def EffStep (n : Nat) (r : Int) (j j' : Int) : Prop :=
  freq n j' = freq n j ∨
    (monoAxisOk n r = true ∧ -(freq n j') < (n : Int) - centre n ∧
      ((0 ≤ freq n j ∧ freq n j' = freq n j + 1) ∨ (freq n j ≤ 0 ∧ freq n j' = freq n j - 1)))

theorem monoAxisOk_iff (n : Nat) (r : Int) : monoAxisOk n r = true ↔ (r < centre n ∧ centre n + r + 1 < (n : Int)) := by
  simp [monoAxisOk]

theorem shiftIdx_eq_freq (n : Nat) (j : Int) : shiftIdx n j = freq n j + centre n := by unfold freq; omega

theorem negIdx_congr (n : Nat) (j j' : Int) (h : freq n j' = freq n j) : negIdx n j' = negIdx n j := by
  obtain ⟨c, hc⟩ := freq_dvd n j
  obtain ⟨c', hc'⟩ := freq_dvd n j'
  have e : -j' = -j + (n : Int) * (c' - c) := by rw [mul_sub]; omega
  unfold negIdx
  rw [e, Int.add_mul_emod_self_left]

/-- the mirror bin carries the opposite frequency whenever that frequency exists on the axis -/
theorem freq_negIdx (n : Nat) (hn : 0 < n) (j : Int) (h : -(freq n j) < (n : Int) - centre n) :
    freq n (negIdx n j) = -(freq n j) := by
  obtain ⟨c1, h1⟩ := freq_dvd n j
  obtain ⟨c2, h2⟩ := negIdx_dvd n j
  have r := freq_range n hn j
  have hc : centre n = ((n / 2 : Nat) : Int) := rfl
  apply freq_unique n hn
  · omega
  · omega
  · refine ⟨-c1 - c2, ?_⟩
    have e : (n : Int) * (-c1 - c2) = -((n : Int) * c1) - (n : Int) * c2 := by ring
    rw [e]; omega

theorem effStep_away (n : Nat) (r : Int) (j j' : Int) (h : EffStep n r j j') : AwayStep n r j j' := by
  rcases h with h | ⟨a, _, b⟩
  · exact Or.inl h
  · exact Or.inr ⟨a, b⟩

/-- the mirror image of an `EffStep` is an `AwayStep` -/
theorem effStep_mirror (n : Nat) (hn : 0 < n) (r : Int) (j j' : Int) (h : EffStep n r j j') :
    AwayStep n r (negIdx n j) (negIdx n j') := by
  rcases h with h | ⟨a, hm, b⟩
  · exact Or.inl (by rw [negIdx_congr n j j' h])
  · have rj := freq_range n hn j
    have rj' := freq_range n hn j'
    have hc : centre n = ((n / 2 : Nat) : Int) := rfl
    have e' := freq_negIdx n hn j' hm
    rcases b with ⟨b0, b1⟩ | ⟨b0, b1⟩
    · have e := freq_negIdx n hn j (by omega)
      exact Or.inr ⟨a, Or.inr ⟨by omega, by omega⟩⟩
    · have e := freq_negIdx n hn j (by omega)
      exact Or.inr ⟨a, Or.inl ⟨by omega, by omega⟩⟩

/-- `freq n a = a` for every `a` that is a frequency of the axis -/
theorem freq_self (n : Nat) (hn : 0 < n) (a : Int) (h1 : -(centre n) ≤ a) (h2 : a < (n : Int) - centre n) : freq n a = a :=
  freq_unique n hn a a h1 h2 ⟨0, by ring⟩

/-- the steps of the 26 rays from the centre: bin `m·s ↦ (m+1)·s` with `s ∈ {-1, 0, 1}` -/
theorem effStep_ray (n : Nat) (hn : 0 < n) (r : Int) (s m : Int) (hm : 0 ≤ m)
    (h : s = 0 ∨ ((s = 1 ∨ s = -1) ∧ monoAxisOk n r = true ∧ m + 1 < (n : Int) - centre n)) :
    EffStep n r (m * s) ((m + 1) * s) := by
  have hc : centre n = ((n / 2 : Nat) : Int) := rfl
  rcases h with h | ⟨hs, hok, hlt⟩
  · subst h; left; simp
  · right
    rcases hs with hs | hs
    · subst hs
      have e1 : freq n (m * 1) = m := by rw [mul_one]; exact freq_self n hn m (by omega) (by omega)
      have e2 : freq n ((m + 1) * 1) = m + 1 := by rw [mul_one]; exact freq_self n hn (m + 1) (by omega) (by omega)
      rw [e1, e2]
      exact ⟨hok, by omega, Or.inl ⟨hm, rfl⟩⟩
    · subst hs
      have e1 : freq n (m * -1) = -m := by rw [mul_neg, mul_one]; exact freq_self n hn (-m) (by omega) (by omega)
      have e2 : freq n ((m + 1) * -1) = -(m + 1) := by rw [mul_neg, mul_one]; exact freq_self n hn (-(m + 1)) (by omega) (by omega)
      rw [e1, e2]
      exact ⟨hok, by omega, Or.inr ⟨by omega, by ring⟩⟩

section ray
set_option linter.unusedSectionVars false
variable {K : Type} [Field K] [LinearOrder K] [IsStrictOrderedRing K]

theorem gain_step_x (ker : List (Int × K)) (hk : UnimodalKernel ker) (d : Dims) (hd : 0 < d.nx) (r : Int) (hr : 0 ≤ r)
    (j j' : Int) (h : AwayStep d.nx r j j') (k l : Int) :
    lowGainFn (some ker) d r j' k l ≤ lowGainFn (some ker) d r j k l := by
  have hm := mask_step_x ker hk d hd r hr (shiftIdx d.nx j) (shiftIdx d.ny k) (shiftIdx d.nz l)
  simp only [lowGainFn, shiftVol, lowMaskFn]
  rcases h with h | ⟨a, b⟩
  · rw [shiftIdx_eq_freq d.nx j', h, ← shiftIdx_eq_freq]
  · rw [monoAxisOk_iff] at a
    rcases b with ⟨b0, b1⟩ | ⟨b0, b1⟩
    · have e : shiftIdx d.nx j' = shiftIdx d.nx j + 1 := by rw [shiftIdx_eq_freq, shiftIdx_eq_freq]; omega
      rw [e]; exact hm.1 a.2 (by rw [shiftIdx_eq_freq]; omega)
    · have e : shiftIdx d.nx j' = shiftIdx d.nx j - 1 := by rw [shiftIdx_eq_freq, shiftIdx_eq_freq]; omega
      rw [e]; exact hm.2 a.1 (by rw [shiftIdx_eq_freq]; omega)

theorem gain_step_y (ker : List (Int × K)) (hk : UnimodalKernel ker) (d : Dims) (hd : 0 < d.ny) (r : Int) (hr : 0 ≤ r)
    (k k' : Int) (h : AwayStep d.ny r k k') (j l : Int) :
    lowGainFn (some ker) d r j k' l ≤ lowGainFn (some ker) d r j k l := by
  have hm := mask_step_y ker hk d hd r hr (shiftIdx d.nx j) (shiftIdx d.ny k) (shiftIdx d.nz l)
  simp only [lowGainFn, shiftVol, lowMaskFn]
  rcases h with h | ⟨a, b⟩
  · rw [shiftIdx_eq_freq d.ny k', h, ← shiftIdx_eq_freq]
  · rw [monoAxisOk_iff] at a
    rcases b with ⟨b0, b1⟩ | ⟨b0, b1⟩
    · have e : shiftIdx d.ny k' = shiftIdx d.ny k + 1 := by rw [shiftIdx_eq_freq, shiftIdx_eq_freq]; omega
      rw [e]; exact hm.1 a.2 (by rw [shiftIdx_eq_freq]; omega)
    · have e : shiftIdx d.ny k' = shiftIdx d.ny k - 1 := by rw [shiftIdx_eq_freq, shiftIdx_eq_freq]; omega
      rw [e]; exact hm.2 a.1 (by rw [shiftIdx_eq_freq]; omega)

theorem gain_step_z (ker : List (Int × K)) (hk : UnimodalKernel ker) (d : Dims) (hd : 0 < d.nz) (r : Int) (hr : 0 ≤ r)
    (l l' : Int) (h : AwayStep d.nz r l l') (j k : Int) :
    lowGainFn (some ker) d r j k l' ≤ lowGainFn (some ker) d r j k l := by
  have hm := mask_step_z ker hk d hd r hr (shiftIdx d.nx j) (shiftIdx d.ny k) (shiftIdx d.nz l)
  simp only [lowGainFn, shiftVol, lowMaskFn]
  rcases h with h | ⟨a, b⟩
  · rw [shiftIdx_eq_freq d.nz l', h, ← shiftIdx_eq_freq]
  · rw [monoAxisOk_iff] at a
    rcases b with ⟨b0, b1⟩ | ⟨b0, b1⟩
    · have e : shiftIdx d.nz l' = shiftIdx d.nz l + 1 := by rw [shiftIdx_eq_freq, shiftIdx_eq_freq]; omega
      rw [e]; exact hm.1 a.2 (by rw [shiftIdx_eq_freq]; omega)
    · have e : shiftIdx d.nz l' = shiftIdx d.nz l - 1 := by rw [shiftIdx_eq_freq, shiftIdx_eq_freq]; omega
      rw [e]; exact hm.2 a.1 (by rw [shiftIdx_eq_freq]; omega)

/-- a step that moves every index away from its centre plane (or leaves it) does not raise the gain -/
theorem gain_step_xyz (ker : List (Int × K)) (hk : UnimodalKernel ker) (d : Dims) (hd : 0 < d.nx ∧ 0 < d.ny ∧ 0 < d.nz)
    (r : Int) (hr : 0 ≤ r) (j k l j' k' l' : Int)
    (hx : AwayStep d.nx r j j') (hy : AwayStep d.ny r k k') (hz : AwayStep d.nz r l l') :
    lowGainFn (some ker) d r j' k' l' ≤ lowGainFn (some ker) d r j k l :=
  le_trans (gain_step_x ker hk d hd.1 r hr j j' hx k' l')
    (le_trans (gain_step_y ker hk d hd.2.1 r hr k k' hy j l') (gain_step_z ker hk d hd.2.2 r hr l l' hz j k))
end ray

end CryoCat.C12
