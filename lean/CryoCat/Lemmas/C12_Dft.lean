import CryoCat.Model.C12_Dft
import CryoCat.Lemmas.C12_Op
import Mathlib.RingTheory.RootsOfUnity.PrimitiveRoots
import Mathlib.Algebra.Ring.GeomSum
import Mathlib.Algebra.Algebra.Basic
/-! C12 — the model's separable DFT (`Model/C12_Dft`) over a field with primitive roots of unity is a
`Transform`: linear, and `idft3` is a two-sided inverse of `dft3` (orthogonality of the characters via
the geometric sum). So the operator theorems of `Props/C12` hold for the transform the driver executes,
not only for an abstract pair. -/
namespace CryoCat.C12
open Finset

section one
variable {C : Type} [Field C]

theorem sumN_eq (n : Nat) (f : Nat → C) : sumN n f = ∑ j ∈ range n, f j := by
  induction n with
  | zero => simp [sumN]
  | succ n ih => rw [sumN, ih, sum_range_succ]

/-- `ω` is a primitive `n`-th root of unity and `n` is invertible in `C` -/
structure Root (n : Nat) (ω : C) : Prop where
  prim : IsPrimitiveRoot ω n
  pos : 0 < n
  ne : (n : C) ≠ 0

variable {n : Nat} {ω : C}

theorem Root.pow_n (h : Root n ω) : ω ^ n = 1 := h.prim.pow_eq_one
theorem Root.ne_zero (h : Root n ω) : ω ≠ 0 := h.prim.ne_zero (Nat.pos_iff_ne_zero.1 h.pos)
theorem Root.tw_mod (h : Root n ω) (m : Nat) : ω ^ (m % n) = ω ^ m := (pow_eq_pow_mod m h.pow_n).symm
theorem Root.tw_inv (h : Root n ω) (m : Nat) : ω ^ ((n - m % n) % n) = (ω ^ m)⁻¹ := by
  rw [h.tw_mod]
  apply eq_inv_of_mul_eq_one_left
  rw [← h.tw_mod m, ← pow_add, Nat.sub_add_cancel (Nat.mod_lt m h.pos).le, h.pow_n]

/-- orthogonality of the characters `k ↦ ω^{bk}` -/
theorem Root.orth (h : Root n ω) (a b : Nat) (ha : a < n) (hb : b < n) :
    ∑ k ∈ range n, (ω ^ b * (ω ^ a)⁻¹) ^ k = if b = a then (n : C) else 0 := by
  by_cases hab : b = a
  · subst hab
    rw [if_pos rfl, mul_inv_cancel₀ (pow_ne_zero _ h.ne_zero)]
    simp
  · rw [if_neg hab]
    have hz : (ω ^ b * (ω ^ a)⁻¹) ^ n = 1 := by
      rw [mul_pow, inv_pow, ← pow_mul, ← pow_mul, mul_comm b n, mul_comm a n, pow_mul, pow_mul, h.pow_n, one_pow, one_pow,
        inv_one, mul_one]
    have hne : ω ^ b * (ω ^ a)⁻¹ - 1 ≠ 0 := by
      intro h0
      have h1 : ω ^ b * (ω ^ a)⁻¹ = 1 := sub_eq_zero.1 h0
      exact hab (h.prim.pow_inj hb ha ((mul_inv_eq_one₀ (pow_ne_zero a h.ne_zero)).1 h1))
    have := geom_sum_mul (ω ^ b * (ω ^ a)⁻¹) n
    rw [hz, sub_self] at this
    exact (mul_eq_zero.1 this).resolve_right hne

theorem dft1_apply (h : Root n ω) (x : Int → C) (k : Nat) (hk : k < n) :
    dft1 n (fun m => ω ^ m) x (k : Int) = ∑ j ∈ range n, ω ^ (j * k) * x (j : Int) := by
  unfold dft1
  rw [if_pos ⟨by omega, by exact_mod_cast hk⟩, sumN_eq]
  apply sum_congr rfl; intro j _
  simp only [Int.toNat_natCast]
  rw [h.tw_mod]

theorem idft1_apply (h : Root n ω) (y : Int → C) (i : Nat) (hi : i < n) :
    idft1 n (fun m => ω ^ m) (n : C)⁻¹ y (i : Int) = (n : C)⁻¹ * ∑ k ∈ range n, (ω ^ (k * i))⁻¹ * y (k : Int) := by
  unfold idft1
  rw [if_pos ⟨by omega, by exact_mod_cast hi⟩, sumN_eq]
  congr 1
  apply sum_congr rfl; intro k _
  simp only [Int.toNat_natCast]
  rw [h.tw_inv]

theorem int_of_range (n : Nat) (i : Int) (h : 0 ≤ i ∧ i < (n : Int)) : ∃ a : Nat, a < n ∧ i = (a : Int) :=
  ⟨i.toNat, by omega, by omega⟩

/-- **inversion (1-D)**: `idft1 ∘ dft1 = id` on all of `Int → C` -/
theorem dft1_left_inv (h : Root n ω) (x : Int → C) :
    idft1 n (fun m => ω ^ m) (n : C)⁻¹ (dft1 n (fun m => ω ^ m) x) = x := by
  funext i
  by_cases hi : 0 ≤ i ∧ i < (n : Int)
  · obtain ⟨a, ha, rfl⟩ := int_of_range n i hi
    rw [idft1_apply h _ a ha]
    have e1 : ∀ k ∈ range n, (ω ^ (k * a))⁻¹ * dft1 n (fun m => ω ^ m) x (k : Int)
        = ∑ j ∈ range n, (ω ^ j * (ω ^ a)⁻¹) ^ k * x (j : Int) := by
      intro k hk
      rw [dft1_apply h x k (mem_range.1 hk), mul_sum]
      apply sum_congr rfl; intro j _
      rw [mul_pow, inv_pow, ← pow_mul, ← pow_mul, mul_comm a k]; ring
    rw [sum_congr rfl e1, sum_comm]
    have e2 : ∀ j ∈ range n, ∑ k ∈ range n, (ω ^ j * (ω ^ a)⁻¹) ^ k * x (j : Int) = if j = a then (n : C) * x (a : Int) else 0 := by
      intro j hj
      rw [← sum_mul, h.orth a j ha (mem_range.1 hj)]
      split_ifs with hja
      · subst hja; rfl
      · simp
    rw [sum_congr rfl e2, sum_ite_eq' (range n) a, if_pos (mem_range.2 ha), ← mul_assoc, inv_mul_cancel₀ h.ne, one_mul]
  · unfold idft1 dft1
    rw [if_neg hi, if_neg hi]

/-- **inversion (1-D)**: `dft1 ∘ idft1 = id` -/
theorem dft1_right_inv (h : Root n ω) (y : Int → C) :
    dft1 n (fun m => ω ^ m) (idft1 n (fun m => ω ^ m) (n : C)⁻¹ y) = y := by
  funext i
  by_cases hi : 0 ≤ i ∧ i < (n : Int)
  · obtain ⟨a, ha, rfl⟩ := int_of_range n i hi
    rw [dft1_apply h _ a ha]
    have e1 : ∀ j ∈ range n, ω ^ (j * a) * idft1 n (fun m => ω ^ m) (n : C)⁻¹ y (j : Int)
        = ∑ m ∈ range n, (n : C)⁻¹ * ((ω ^ a * (ω ^ m)⁻¹) ^ j * y (m : Int)) := by
      intro j hj
      rw [idft1_apply h y j (mem_range.1 hj), mul_sum, mul_sum]
      apply sum_congr rfl; intro m _
      rw [mul_pow, inv_pow, ← pow_mul, ← pow_mul, mul_comm a j]; ring
    rw [sum_congr rfl e1, sum_comm]
    have e2 : ∀ m ∈ range n, ∑ j ∈ range n, (n : C)⁻¹ * ((ω ^ a * (ω ^ m)⁻¹) ^ j * y (m : Int)) = if a = m then y (a : Int) else 0 := by
      intro m hm
      rw [← mul_sum, ← sum_mul, h.orth m a (mem_range.1 hm) ha]
      split_ifs with ham
      · subst ham; rw [← mul_assoc, inv_mul_cancel₀ h.ne, one_mul]
      · simp
    rw [sum_congr rfl e2, sum_ite_eq (range n) a, if_pos (mem_range.2 ha)]
  · unfold dft1
    rw [if_neg hi]
    unfold idft1
    rw [if_neg hi]

end one

/-! ### linearity -/
section lin
set_option linter.unusedSectionVars false
variable {R C : Type} [Field R] [Field C] [Algebra R C]

theorem dft1_add (n : Nat) (tw : Nat → C) (f g : Int → C) : dft1 n tw (f + g) = dft1 n tw f + dft1 n tw g := by
  funext k
  simp only [dft1, Pi.add_apply]
  split_ifs
  · rw [sumN_eq, sumN_eq, sumN_eq, ← sum_add_distrib]
    apply sum_congr rfl; intro j _; ring
  · rfl

theorem dft1_smul (n : Nat) (tw : Nat → C) (a : R) (f : Int → C) : dft1 n tw (a • f) = a • dft1 n tw f := by
  funext k
  simp only [dft1, Pi.smul_apply]
  split_ifs
  · rw [sumN_eq, sumN_eq, smul_sum]
    apply sum_congr rfl; intro j _; rw [mul_smul_comm]
  · rfl

theorem idft1_add (n : Nat) (tw : Nat → C) (c : C) (f g : Int → C) : idft1 n tw c (f + g) = idft1 n tw c f + idft1 n tw c g := by
  funext k
  simp only [idft1, Pi.add_apply]
  split_ifs
  · rw [sumN_eq, sumN_eq, sumN_eq, ← mul_add, ← sum_add_distrib]
    congr 1
    apply sum_congr rfl; intro j _; ring
  · rfl

theorem idft1_smul (n : Nat) (tw : Nat → C) (c : C) (a : R) (f : Int → C) : idft1 n tw c (a • f) = a • idft1 n tw c f := by
  funext k
  simp only [idft1, Pi.smul_apply]
  split_ifs
  · rw [sumN_eq, sumN_eq, ← mul_smul_comm, smul_sum]
    congr 1
    apply sum_congr rfl; intro j _; rw [mul_smul_comm]
  · rfl

/-! ### lifting a 1-D operator along an axis -/

theorem alongX_inv (T Ti : (Int → C) → (Int → C)) (h : ∀ f, Ti (T f) = f) (x : Idx → C) : alongX Ti (alongX T x) = x := by
  funext i; obtain ⟨a, b, c⟩ := i
  exact congrFun (h (fun a' => x (a', b, c))) a
theorem alongY_inv (T Ti : (Int → C) → (Int → C)) (h : ∀ f, Ti (T f) = f) (x : Idx → C) : alongY Ti (alongY T x) = x := by
  funext i; obtain ⟨a, b, c⟩ := i
  exact congrFun (h (fun b' => x (a, b', c))) b
theorem alongZ_inv (T Ti : (Int → C) → (Int → C)) (h : ∀ f, Ti (T f) = f) (x : Idx → C) : alongZ Ti (alongZ T x) = x := by
  funext i; obtain ⟨a, b, c⟩ := i
  exact congrFun (h (fun c' => x (a, b, c'))) c

theorem alongX_add (T : (Int → C) → (Int → C)) (h : ∀ f g, T (f + g) = T f + T g) (x y : Idx → C) : alongX T (x + y) = alongX T x + alongX T y := by
  funext i; obtain ⟨a, b, c⟩ := i
  exact congrFun (h (fun a' => x (a', b, c)) (fun a' => y (a', b, c))) a
theorem alongY_add (T : (Int → C) → (Int → C)) (h : ∀ f g, T (f + g) = T f + T g) (x y : Idx → C) : alongY T (x + y) = alongY T x + alongY T y := by
  funext i; obtain ⟨a, b, c⟩ := i
  exact congrFun (h (fun b' => x (a, b', c)) (fun b' => y (a, b', c))) b
theorem alongZ_add (T : (Int → C) → (Int → C)) (h : ∀ f g, T (f + g) = T f + T g) (x y : Idx → C) : alongZ T (x + y) = alongZ T x + alongZ T y := by
  funext i; obtain ⟨a, b, c⟩ := i
  exact congrFun (h (fun c' => x (a, b, c')) (fun c' => y (a, b, c'))) c

theorem alongX_smul (T : (Int → C) → (Int → C)) (h : ∀ (r : R) f, T (r • f) = r • T f) (r : R) (x : Idx → C) : alongX T (r • x) = r • alongX T x := by
  funext i; obtain ⟨a, b, c⟩ := i
  exact congrFun (h r (fun a' => x (a', b, c))) a
theorem alongY_smul (T : (Int → C) → (Int → C)) (h : ∀ (r : R) f, T (r • f) = r • T f) (r : R) (x : Idx → C) : alongY T (r • x) = r • alongY T x := by
  funext i; obtain ⟨a, b, c⟩ := i
  exact congrFun (h r (fun b' => x (a, b', c))) b
theorem alongZ_smul (T : (Int → C) → (Int → C)) (h : ∀ (r : R) f, T (r • f) = r • T f) (r : R) (x : Idx → C) : alongZ T (r • x) = r • alongZ T x := by
  funext i; obtain ⟨a, b, c⟩ := i
  exact congrFun (h r (fun c' => x (a, b, c'))) c

/-- what the operator theorems use of `np.real` -/
structure RealPart (R : Type) {C : Type} [Field R] [Field C] [Algebra R C] (re : C → C) : Prop where
  re_add : ∀ a b, re (a + b) = re a + re b
  re_smul : ∀ (a : R) c, re (a • c) = a • re c
  re_idem : ∀ c, re (re c) = re c

/-- **the model's DFT pair is a `Transform`** over every field with primitive roots of unity of the three
edge lengths (edge lengths invertible in the field): linear, and mutually inverse on both sides. -/
theorem dft3_transform (d : Dims) (ωx ωy ωz : C) (hx : Root d.nx ωx) (hy : Root d.ny ωy) (hz : Root d.nz ωz)
    (re : C → C) (hre : RealPart R re) :
    Transform R (dft3 d (fun m => ωx ^ m) (fun m => ωy ^ m) (fun m => ωz ^ m))
      (idft3 d (fun m => ωx ^ m) (fun m => ωy ^ m) (fun m => ωz ^ m) (d.nx : C)⁻¹ (d.ny : C)⁻¹ (d.nz : C)⁻¹) re where
  F_add x y := by
    unfold dft3
    rw [alongX_add _ (dft1_add _ _), alongY_add _ (dft1_add _ _), alongZ_add _ (dft1_add _ _)]
  F_smul a x := by
    unfold dft3
    rw [alongX_smul _ (dft1_smul _ _), alongY_smul _ (dft1_smul _ _), alongZ_smul _ (dft1_smul _ _)]
  Finv_add x y := by
    unfold idft3
    rw [alongZ_add _ (idft1_add _ _ _), alongY_add _ (idft1_add _ _ _), alongX_add _ (idft1_add _ _ _)]
  Finv_smul a x := by
    unfold idft3
    rw [alongZ_smul _ (idft1_smul _ _ _), alongY_smul _ (idft1_smul _ _ _), alongX_smul _ (idft1_smul _ _ _)]
  left_inv x := by
    unfold dft3 idft3
    rw [alongZ_inv _ _ (dft1_left_inv hz), alongY_inv _ _ (dft1_left_inv hy), alongX_inv _ _ (dft1_left_inv hx)]
  right_inv y := by
    unfold dft3 idft3
    rw [alongX_inv _ _ (dft1_right_inv hx), alongY_inv _ _ (dft1_right_inv hy), alongZ_inv _ _ (dft1_right_inv hz)]
  re_add := hre.re_add
  re_smul := hre.re_smul
  re_idem := hre.re_idem

end lin
end CryoCat.C12
