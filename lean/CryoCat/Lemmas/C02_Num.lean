import CryoCat.Model.C02_Num
import CryoCat.Model.C02_Layout
/-! C02 — helper lemmas, part 7: the decimal token grammar. `NumTok` is the grammar written
declaratively (sign, integer digits, fraction, exponent / a spelling of infinity); `isNumTok` — the
recogniser the driver runs — accepts exactly that grammar; the cells the writer prints for numbers
are in it. Core Lean only. -/
namespace CryoCat.C02

/-- the characters strictly between the blank and NEL (all printable ASCII) are not white space -/
theorem isWs_false_of_ascii {c : Char} (h1 : 0x20 < c.toNat) (h2 : c.toNat < 0x85) : isWs c = false := by
  rw [Bool.eq_false_iff]
  intro h
  simp only [isWs, List.any_eq_true] at h
  obtain ⟨r, hr, h⟩ := h
  simp only [wsRanges, List.mem_cons, List.mem_nil_iff, or_false] at hr
  simp only [Bool.and_eq_true, decide_eq_true_eq] at h
  rcases hr with rfl | rfl | rfl | rfl | rfl | rfl | rfl | rfl | rfl | rfl | rfl <;> dsimp only at h <;> omega


/-! ### the grammar -/

def AllDigits (d : Word) : Prop := ∀ c ∈ d, isDigit c = true
instance (d : Word) : Decidable (AllDigits d) := by unfold AllDigits; infer_instance

inductive Sign where | none | plus | minus
deriving DecidableEq, Repr

def Sign.text : Sign → Word
  | .none => []
  | .plus => ['+']
  | .minus => ['-']

/-- `[sign] ip [. fp] [e|E [sign] x]` -/
structure Dec where
  sign : Sign
  ip : Word
  frac : Option Word
  exp : Option (Char × Sign × Word)

def fracText : Option Word → Word
  | none => []
  | some fp => '.' :: fp

def expText : Option (Char × Sign × Word) → Word
  | none => []
  | some (c, s, x) => c :: (s.text ++ x)

def Dec.text (d : Dec) : Word := d.sign.text ++ ((d.ip ++ fracText d.frac) ++ expText d.exp)

/-- digits only; at least one digit in the mantissa; an exponent has at least one digit -/
def Dec.Ok (d : Dec) : Prop :=
  AllDigits d.ip ∧ (∀ fp, d.frac = some fp → AllDigits fp) ∧
  (d.ip ≠ [] ∨ ∃ fp, d.frac = some fp ∧ fp ≠ []) ∧
  (∀ c s x, d.exp = some (c, s, x) → (c = 'e' ∨ c = 'E') ∧ x ≠ [] ∧ AllDigits x)

/-- a decimal literal `[+-]?(d+[.d*]|.d+)([eE][+-]?d+)?` -/
def DecTok (w : Word) : Prop := ∃ d : Dec, d.Ok ∧ w = d.text
/-- `[+-]?(inf|infinity)` in any letter case -/
def InfTok (w : Word) : Prop := ∃ (s : Sign) (b : Word), isInfBody b = true ∧ w = s.text ++ b
/-- **the token grammar of numbers** -/
def NumTok (w : Word) : Prop := DecTok w ∨ InfTok w

/-! ### generic list facts -/

theorem tw_split {p : Char → Bool} (m e : List Char) (hm : ∀ c ∈ m, p c = true)
    (he : e = [] ∨ ∃ c r, e = c :: r ∧ p c = false) :
    (m ++ e).takeWhile p = m ∧ (m ++ e).dropWhile p = e := by
  rw [List.takeWhile_append_of_pos hm, List.dropWhile_append_of_pos hm]
  rcases he with rfl | ⟨c, r, rfl, hc⟩
  · simp
  · simp [List.takeWhile, List.dropWhile, hc]

theorem mem_takeWhile {p : Char → Bool} : ∀ (l : List Char), ∀ c ∈ l.takeWhile p, p c = true
  | [], c, h => by simp at h
  | a :: l, c, h => by
    by_cases ha : p a = true
    · simp only [List.takeWhile, ha, List.mem_cons] at h
      rcases h with rfl | h
      · exact ha
      · exact mem_takeWhile l c h
    · simp [List.takeWhile, ha] at h

theorem dropWhile_head {p : Char → Bool} : ∀ (l : List Char) (c : Char) (r : List Char), l.dropWhile p = c :: r → p c = false
  | [], c, r, h => by simp at h
  | a :: l, c, r, h => by
    by_cases ha : p a = true
    · simp only [List.dropWhile, ha] at h
      exact dropWhile_head l c r h
    · simp only [List.dropWhile, ha] at h
      cases h
      simpa using ha

/-! ### characters -/

theorem digit_ne {c : Char} (h : isDigit c = true) :
    c ≠ 'e' ∧ c ≠ 'E' ∧ c ≠ '.' ∧ c ≠ '+' ∧ c ≠ '-' := by
  refine ⟨?_, ?_, ?_, ?_, ?_⟩ <;> (intro hc; subst hc; revert h; decide)

theorem notExp_of_digit {c : Char} (h : isDigit c = true) : (c != 'e' && c != 'E') = true := by
  have := digit_ne h
  simp [this.1, this.2.1]

theorem dot_not_digit : isDigit '.' = false := by decide

theorem isDigit_of_charIsDigit {c : Char} (h : c.isDigit = true) : isDigit c = true := by
  simp [Char.isDigit] at h
  simp [isDigit, Char.le_def]
  exact h

theorem natDigits_all (k : Nat) : AllDigits (natDigits k) := by
  intro c hc
  exact isDigit_of_charIsDigit (Nat.isDigit_of_mem_toDigits (by decide) (by decide) hc)

theorem natDigits_ne (k : Nat) : natDigits k ≠ [] := Nat.toDigits_ne_nil

theorem zeros_all (k : Nat) : AllDigits (zeros k) := by
  intro c hc
  simp only [zeros, List.mem_replicate] at hc
  rw [hc.2]; decide

theorem allDigits_append {a b : Word} (ha : AllDigits a) (hb : AllDigits b) : AllDigits (a ++ b) := by
  intro c hc
  rcases List.mem_append.1 hc with h | h
  · exact ha c h
  · exact hb c h

theorem allDigits_take {a : Word} (k : Nat) (ha : AllDigits a) : AllDigits (a.take k) :=
  fun c hc => ha c (List.mem_of_mem_take hc)

theorem allDigits_drop {a : Word} (k : Nat) (ha : AllDigits a) : AllDigits (a.drop k) :=
  fun c hc => ha c (List.mem_of_mem_drop hc)

theorem all_of_allDigits {a : Word} (ha : AllDigits a) : a.all isDigit = true := List.all_eq_true.2 ha

theorem allDigits_of_all {a : Word} (ha : a.all isDigit = true) : AllDigits a := List.all_eq_true.1 ha

/-! ### signs -/

theorem dropSign_digit (c : Char) (r : Word) (h : isDigit c = true ∨ c = '.') : dropSign (c :: r) = c :: r := by
  have h1 : c ≠ '+' := by
    rcases h with h | h
    · exact (digit_ne h).2.2.2.1
    · rw [h]; decide
  have h2 : c ≠ '-' := by
    rcases h with h | h
    · exact (digit_ne h).2.2.2.2
    · rw [h]; decide
  unfold dropSign
  split
  · rename_i heq; cases heq; exact absurd rfl h1
  · rename_i heq; cases heq; exact absurd rfl h2
  · rfl

/-- a sign in front of something that does not start with a sign is what `dropSign` removes -/
theorem dropSign_text (s : Sign) (c : Char) (r : Word) (h : isDigit c = true ∨ c = '.') :
    dropSign (s.text ++ c :: r) = c :: r := by
  cases s
  · exact dropSign_digit c r h
  · rfl
  · rfl

theorem dropSign_spec (w : Word) : ∃ s : Sign, w = s.text ++ dropSign w := by
  unfold dropSign
  split
  · exact ⟨.plus, rfl⟩
  · exact ⟨.minus, rfl⟩
  · exact ⟨.none, rfl⟩

/-! ### mantissa -/

theorem isMantissa_build (ip : Word) (frac : Option Word) (hip : AllDigits ip)
    (hfp : ∀ fp, frac = some fp → AllDigits fp) (hne : ip ≠ [] ∨ ∃ fp, frac = some fp ∧ fp ≠ []) :
    isMantissa (ip ++ fracText frac) = true := by
  have hs := tw_split (p := isDigit) ip (fracText frac) hip (by
    cases frac with
    | none => exact Or.inl rfl
    | some fp => exact Or.inr ⟨'.', fp, rfl, dot_not_digit⟩)
  unfold isMantissa
  simp only [hs.1, hs.2]
  cases frac with
  | none =>
    rcases hne with h | ⟨fp, h, _⟩
    · simpa [fracText, List.isEmpty_iff] using h
    · cases h
  | some fp =>
    have h1 := all_of_allDigits (hfp fp rfl)
    simp only [fracText, h1, Bool.true_and]
    rcases hne with h | ⟨fp', h, h'⟩
    · simp [List.isEmpty_iff, h]
    · cases h; simp [List.isEmpty_iff, h']

theorem isMantissa_parts (m : Word) (h : isMantissa m = true) :
    ∃ ip frac, m = ip ++ fracText frac ∧ AllDigits ip ∧ (∀ fp, frac = some fp → AllDigits fp) ∧
      (ip ≠ [] ∨ ∃ fp, frac = some fp ∧ fp ≠ []) := by
  have hm : m.takeWhile isDigit ++ m.dropWhile isDigit = m := List.takeWhile_append_dropWhile
  have hip : AllDigits (m.takeWhile isDigit) := mem_takeWhile m
  unfold isMantissa at h
  cases hd : m.dropWhile isDigit with
  | nil =>
    simp only [hd] at h
    refine ⟨m.takeWhile isDigit, none, by simpa [fracText, hd] using hm.symm, hip, by simp, Or.inl ?_⟩
    simpa [List.isEmpty_iff] using h
  | cons c fp =>
    simp only [hd] at h
    split at h
    · rename_i heq; cases heq
    · rename_i fp' heq
      cases heq
      simp only [Bool.and_eq_true, Bool.or_eq_true, Bool.not_eq_eq_eq_not, Bool.not_true, List.isEmpty_eq_false_iff] at h
      refine ⟨m.takeWhile isDigit, some fp, by simpa [fracText, hd] using hm.symm, hip, ?_, ?_⟩
      · intro fp' e; cases e; exact allDigits_of_all h.1
      · rcases h.2 with h2 | h2
        · exact Or.inl h2
        · exact Or.inr ⟨fp, rfl, h2⟩
    · simp at h

theorem mantissa_head (ip : Word) (frac : Option Word) (hip : AllDigits ip)
    (hne : ip ≠ [] ∨ ∃ fp, frac = some fp ∧ fp ≠ []) (rest : Word) :
    ∃ c r, (ip ++ fracText frac) ++ rest = c :: r ∧ (isDigit c = true ∨ c = '.') := by
  cases ip with
  | cons c ip' => exact ⟨c, _, rfl, Or.inl (hip c (by simp))⟩
  | nil =>
    rcases hne with h | ⟨fp, h, _⟩
    · exact absurd rfl h
    · subst h; exact ⟨'.', _, rfl, Or.inr rfl⟩

theorem mantissa_notExp (ip : Word) (frac : Option Word) (hip : AllDigits ip) (hfp : ∀ fp, frac = some fp → AllDigits fp) :
    ∀ c ∈ ip ++ fracText frac, (c != 'e' && c != 'E') = true := by
  intro c hc
  rcases List.mem_append.1 hc with h | h
  · exact notExp_of_digit (hip c h)
  · cases frac with
    | none => simp [fracText] at h
    | some fp =>
      simp only [fracText, List.mem_cons] at h
      rcases h with rfl | h
      · decide
      · exact notExp_of_digit (hfp fp rfl c h)

/-! ### the recogniser accepts exactly the grammar -/

theorem isDecTok_of_dec (d : Dec) (h : d.Ok) : isDecTok d.text = true := by
  obtain ⟨hip, hfp, hne, hexp⟩ := h
  obtain ⟨c, r, hcr, hc⟩ := mantissa_head d.ip d.frac hip hne (expText d.exp)
  have hu : dropSign d.text = (d.ip ++ fracText d.frac) ++ expText d.exp := by
    unfold Dec.text; rw [hcr]; exact dropSign_text d.sign c r hc
  have hs := tw_split (p := fun c => c != 'e' && c != 'E') (d.ip ++ fracText d.frac) (expText d.exp)
    (mantissa_notExp d.ip d.frac hip hfp) (by
      cases he : d.exp with
      | none => exact Or.inl rfl
      | some t =>
        obtain ⟨c, s, x⟩ := t
        refine Or.inr ⟨c, s.text ++ x, rfl, ?_⟩
        rcases (hexp c s x he).1 with rfl | rfl <;> decide)
  have hm := isMantissa_build d.ip d.frac hip hfp hne
  unfold isDecTok
  simp only [hu, hs.1, hs.2]
  cases he : d.exp with
  | none => simpa [expText] using hm
  | some t =>
    obtain ⟨c, s, x⟩ := t
    obtain ⟨_, hx, hxd⟩ := hexp c s x he
    simp only [expText, hm, Bool.true_and]
    obtain ⟨c', x', rfl⟩ := List.exists_cons_of_ne_nil hx
    rw [dropSign_text s c' x' (Or.inl (hxd c' (by simp)))]
    simp only [allDigits, List.isEmpty_cons, Bool.not_false, Bool.true_and]
    exact all_of_allDigits hxd

theorem dec_of_isDecTok (w : Word) (h : isDecTok w = true) : DecTok w := by
  obtain ⟨s, hs⟩ := dropSign_spec w
  have hu : (dropSign w).takeWhile (fun c => c != 'e' && c != 'E') ++ (dropSign w).dropWhile (fun c => c != 'e' && c != 'E') = dropSign w :=
    List.takeWhile_append_dropWhile
  unfold isDecTok at h
  cases hd : (dropSign w).dropWhile (fun c => c != 'e' && c != 'E') with
  | nil =>
    simp only [hd] at h
    obtain ⟨ip, frac, hm, hip, hfp, hne⟩ := isMantissa_parts _ h
    refine ⟨⟨s, ip, frac, none⟩, ⟨hip, hfp, hne, by intro c s x e; cases e⟩, ?_⟩
    rw [hd, List.append_nil] at hu
    rw [hs, ← hu, hm]; simp [Dec.text, expText]
  | cons c ex =>
    simp only [hd, Bool.and_eq_true] at h
    obtain ⟨ip, frac, hm, hip, hfp, hne⟩ := isMantissa_parts _ h.1
    have hc : c = 'e' ∨ c = 'E' := by
      have := dropWhile_head _ c ex hd
      simp only [Bool.and_eq_false_iff, bne_eq_false_iff_eq] at this
      exact this
    obtain ⟨s', hs'⟩ := dropSign_spec ex
    have hx := h.2
    simp only [allDigits, Bool.and_eq_true, Bool.not_eq_eq_eq_not, Bool.not_true, List.isEmpty_eq_false_iff] at hx
    refine ⟨⟨s, ip, frac, some (c, s', dropSign ex)⟩, ⟨hip, hfp, hne, ?_⟩, ?_⟩
    · intro c' s'' x e; cases e; exact ⟨hc, hx.1, allDigits_of_all hx.2⟩
    · rw [hd] at hu
      rw [hs, ← hu, hm]
      simp only [Dec.text, expText]
      rw [← hs']

theorem isDecTok_iff (w : Word) : isDecTok w = true ↔ DecTok w :=
  ⟨dec_of_isDecTok w, fun ⟨d, hd, hw⟩ => hw ▸ isDecTok_of_dec d hd⟩

/-! ### infinity -/

theorem matchCI_ne_nil : ∀ (w : Word) (pat : List (Char × Char)), pat ≠ [] → matchCI w pat = true → w ≠ []
  | [], [], h, _ => absurd rfl h
  | [], _ :: _, _, h => by simp [matchCI] at h
  | _ :: _, _, _, _ => by simp

theorem matchCI_mem : ∀ (w : Word) (pat : List (Char × Char)), matchCI w pat = true →
    ∀ c ∈ w, ∃ p ∈ pat, c = p.1 ∨ c = p.2
  | [], _, _, c, hc => by simp at hc
  | _ :: _, [], h, _, _ => by simp [matchCI] at h
  | a :: w, p :: ps, h, c, hc => by
    simp only [matchCI, Bool.and_eq_true, Bool.or_eq_true, beq_iff_eq] at h
    simp only [List.mem_cons] at hc
    rcases hc with rfl | hc
    · exact ⟨p, by simp, h.1⟩
    · obtain ⟨q, hq, hcq⟩ := matchCI_mem w ps h.2 c hc
      exact ⟨q, by simp [hq], hcq⟩

/-- the letters of `inf` / `infinity` -/
def infLetter (c : Char) : Bool :=
  c == 'i' || c == 'I' || c == 'n' || c == 'N' || c == 'f' || c == 'F' || c == 't' || c == 'T' || c == 'y' || c == 'Y'

theorem infBody_letters (b : Word) (h : isInfBody b = true) : b ≠ [] ∧ ∀ c ∈ b, infLetter c = true := by
  simp only [isInfBody, Bool.or_eq_true] at h
  have key1 : ∀ p ∈ infPat, infLetter p.1 = true ∧ infLetter p.2 = true := by decide
  have key2 : ∀ p ∈ infinityPat, infLetter p.1 = true ∧ infLetter p.2 = true := by decide
  rcases h with h | h
  · refine ⟨matchCI_ne_nil b _ (by decide) h, ?_⟩
    intro c hc
    obtain ⟨p, hp, hcp⟩ := matchCI_mem b _ h c hc
    rcases hcp with rfl | rfl
    · exact (key1 p hp).1
    · exact (key1 p hp).2
  · refine ⟨matchCI_ne_nil b _ (by decide) h, ?_⟩
    intro c hc
    obtain ⟨p, hp, hcp⟩ := matchCI_mem b _ h c hc
    rcases hcp with rfl | rfl
    · exact (key2 p hp).1
    · exact (key2 p hp).2

theorem infLetter_not_sign {c : Char} (h : infLetter c = true) : c ≠ '+' ∧ c ≠ '-' := by
  constructor <;> (intro hc; subst hc; revert h; decide)

theorem isInfTok_iff (w : Word) : isInfTok w = true ↔ InfTok w := by
  constructor
  · intro h
    obtain ⟨s, hs⟩ := dropSign_spec w
    exact ⟨s, dropSign w, h, hs⟩
  · rintro ⟨s, b, hb, rfl⟩
    obtain ⟨hne, hl⟩ := infBody_letters b hb
    obtain ⟨c, r, rfl⟩ := List.exists_cons_of_ne_nil hne
    have hc := infLetter_not_sign (hl c (by simp))
    have : dropSign (s.text ++ c :: r) = c :: r := by
      cases s
      · unfold dropSign
        split
        · rename_i heq; cases heq; exact absurd rfl hc.1
        · rename_i heq; cases heq; exact absurd rfl hc.2
        · rfl
      · rfl
      · rfl
    unfold isInfTok
    rw [this]; exact hb

/-- **the recogniser the driver runs accepts exactly the grammar** -/
theorem isNumTok_iff (w : Word) : isNumTok w = true ↔ NumTok w := by
  unfold isNumTok NumTok
  rw [Bool.or_eq_true, isDecTok_iff, isInfTok_iff]

end CryoCat.C02
