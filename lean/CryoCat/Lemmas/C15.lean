import CryoCat.Model.C15
/-! C15 — helper lemmas (core Lean only): 3-D indexing/tabulation, reshape, transposition. -/
namespace CryoCat.C15
variable {α β ι κ : Type}

/-! ### tabulation and indexing -/

theorem range_map_getD (l : List β) (n : Nat) (d : β) (h : l.length = n) :
    (List.range n).map (fun i => l.getD i d) = l := by
  subst h
  apply List.ext_getElem
  · simp
  · intro i h1 h2
    simp [List.getD_eq_getElem?_getD, List.getElem?_eq_getElem (by simpa using h2)]

theorem getD_mem (l : List β) (d : β) {i : Nat} (h : i < l.length) : l.getD i d ∈ l := by
  rw [List.getD_eq_getElem?_getD, List.getElem?_eq_getElem h]; exact List.getElem_mem h

theorem get3_tab3 (d : α) (f : Nat → Nat → Nat → α) {n0 n1 n2 i j k : Nat} (hi : i < n0) (hj : j < n1) (hk : k < n2) :
    get3 d (tab3 n0 n1 n2 f) i j k = f i j k := by
  simp [get3, tab3, List.getD_eq_getElem?_getD, hi, hj, hk]

theorem get3_tab3_total (d : α) (f : Nat → Nat → Nat → α) (n0 n1 n2 i j k : Nat) :
    get3 d (tab3 n0 n1 n2 f) i j k = if i < n0 ∧ j < n1 ∧ k < n2 then f i j k else d := by
  by_cases hi : i < n0 <;> by_cases hj : j < n1 <;> by_cases hk : k < n2 <;>
    simp [get3, tab3, List.getD_eq_getElem?_getD, hi, hj, hk]

theorem rect_tab3 (n0 n1 n2 : Nat) (f : Nat → Nat → Nat → α) : Rect n0 n1 n2 (tab3 n0 n1 n2 f) := by
  refine ⟨by simp [tab3], ?_⟩
  intro img himg
  simp only [tab3, List.mem_map, List.mem_range] at himg
  obtain ⟨i, _, rfl⟩ := himg
  refine ⟨by simp, ?_⟩
  intro row hrow
  simp only [List.mem_map, List.mem_range] at hrow
  obtain ⟨j, _, rfl⟩ := hrow
  simp

theorem tab3_congr {n0 n1 n2 : Nat} {f g : Nat → Nat → Nat → α}
    (h : ∀ i j k, i < n0 → j < n1 → k < n2 → f i j k = g i j k) : tab3 n0 n1 n2 f = tab3 n0 n1 n2 g := by
  unfold tab3
  apply List.map_congr_left; intro i hi
  apply List.map_congr_left; intro j hj
  apply List.map_congr_left; intro k hk
  exact h i j k (List.mem_range.1 hi) (List.mem_range.1 hj) (List.mem_range.1 hk)

theorem tab3_get3 (d : α) {n0 n1 n2 : Nat} {v : L3 α} (h : Rect n0 n1 n2 v) : tab3 n0 n1 n2 (get3 d v) = v := by
  obtain ⟨h0, h12⟩ := h
  have key : tab3 n0 n1 n2 (get3 d v) = (List.range n0).map (fun i => v.getD i []) := by
    unfold tab3
    apply List.map_congr_left; intro i hi
    have hi' : i < v.length := by rw [h0]; exact List.mem_range.1 hi
    have hmem : v.getD i [] ∈ v := getD_mem _ _ hi'
    obtain ⟨h1, h2⟩ := h12 _ hmem
    have key2 : (List.range n1).map (fun j => (List.range n2).map fun k => get3 d v i j k)
        = (List.range n1).map (fun j => (v.getD i []).getD j []) := by
      apply List.map_congr_left; intro j hj
      have hj' : j < (v.getD i []).length := by rw [h1]; exact List.mem_range.1 hj
      have hmem2 : (v.getD i []).getD j [] ∈ v.getD i [] := getD_mem _ _ hj'
      exact range_map_getD _ n2 d (h2 _ hmem2)
    rw [key2]
    exact range_map_getD _ n1 [] h1
  rw [key]
  exact range_map_getD _ n0 [] h0

/-! ### transposition -/

theorem transpose3_wf (d : α) (a : A3 α) : (transpose3 d a).WF := rect_tab3 _ _ _ _

theorem transpose3_get (d : α) (a : A3 α) {i j k : Nat} (hi : i < a.d2) (hj : j < a.d1) (hk : k < a.d0) :
    get3 d (transpose3 d a).v i j k = get3 d a.v k j i := get3_tab3 d _ hi hj hk

theorem transpose3_transpose3 (d : α) (a : A3 α) (h : a.WF) : transpose3 d (transpose3 d a) = a := by
  obtain ⟨d0, d1, d2, v⟩ := a
  simp only [transpose3, A3.mk.injEq, true_and]
  have : tab3 d0 d1 d2 (fun i j k => get3 d (tab3 d2 d1 d0 fun i j k => get3 d v k j i) k j i)
      = tab3 d0 d1 d2 (get3 d v) := by
    apply tab3_congr
    intro i j k hi hj hk
    exact get3_tab3 d _ hk hj hi
  rw [this]
  exact tab3_get3 d h

/-! ### reshape of the C-order payload -/

theorem chunk_flatMap (n : Nat) (g : ι → List β) (rows : List ι)
    (hg : ∀ r ∈ rows, (g r).length = n) : chunk n rows.length (rows.flatMap g) = rows.map g := by
  induction rows with
  | nil => rfl
  | cons r rs ih =>
    have h1 : (g r).length = n := hg r (by simp)
    have ih' := ih (fun r hr => hg r (by simp [hr]))
    subst h1
    simp only [List.length_cons, List.flatMap_cons, chunk, List.map_cons]
    rw [List.take_left' rfl, List.drop_left' rfl, ih']

theorem length_flatMap_const (n : Nat) (g : ι → List β) (rows : List ι)
    (hg : ∀ r ∈ rows, (g r).length = n) : (rows.flatMap g).length = rows.length * n := by
  induction rows with
  | nil => simp
  | cons r rs ih =>
    simp only [List.flatMap_cons, List.length_append, List.length_cons, hg r (by simp),
      ih (fun r hr => hg r (by simp [hr]))]
    rw [Nat.add_mul, Nat.one_mul, Nat.add_comm]

theorem readMrc_writeMrc (a : A3 α) (h : a.WF) : readMrc (writeMrc a) = a := by
  obtain ⟨d0, d1, d2, v⟩ := a
  obtain ⟨h0, h12⟩ := h
  simp only at h0 h12
  simp only [readMrc, writeMrc, A3.mk.injEq, true_and]
  have hl : ∀ img ∈ v, (img.flatMap id).length = d1 * d2 := by
    intro img himg
    obtain ⟨h1, h2⟩ := h12 img himg
    rw [length_flatMap_const d2 id img (fun r hr => h2 r hr), h1]
  have := chunk_flatMap (d1 * d2) (fun img : List (List α) => img.flatMap id) v hl
  rw [h0] at this
  rw [this, List.map_map]
  conv => rhs; rw [← List.map_id v]
  apply List.map_congr_left
  intro img himg
  obtain ⟨h1, h2⟩ := h12 img himg
  have := chunk_flatMap d2 id img (fun r hr => h2 r hr)
  rw [h1] at this
  show chunk d2 d1 (img.flatMap id) = id img
  rw [this, List.map_id]; rfl

end CryoCat.C15
