import CryoCat.Model.M3
import Mathlib.Tactic.Ring
import Mathlib.Tactic.LinearCombination
/-! Algebra of `M3` over any commutative ring (exact arithmetic; no trigonometry). -/
namespace CryoCat
variable {α : Type} [CommRing α]

theorem M3.mul_def (m n : M3 α) : m * n = M3.mul m n := rfl

theorem M3.mul_assoc' (a b c : M3 α) : a * b * c = a * (b * c) := by
  ext <;> simp [M3.mul_def, M3.mul] <;> ring

theorem M3.one_mul' (m : M3 α) : M3.one * m = m := by
  ext <;> simp [M3.mul_def, M3.mul, M3.one]
theorem M3.mul_one' (m : M3 α) : m * M3.one = m := by
  ext <;> simp [M3.mul_def, M3.mul, M3.one]

theorem M3.transpose_mul (a b : M3 α) : (a * b).transpose = b.transpose * a.transpose := by
  ext <;> simp [M3.mul_def, M3.mul, M3.transpose] <;> ring
omit [CommRing α] in
theorem M3.transpose_transpose (a : M3 α) : a.transpose.transpose = a := by
  ext <;> rfl

theorem M3.apply_mul (a b : M3 α) (v : V3 α) : (a * b).apply v = a.apply (b.apply v) := by
  ext <;> simp [M3.mul_def, M3.mul, M3.apply] <;> ring
theorem M3.apply_one (v : V3 α) : (M3.one : M3 α).apply v = v := by
  ext <;> simp [M3.apply, M3.one]
theorem V3.add_def (u v : V3 α) : u + v = V3.add u v := rfl
theorem V3.sub_def (u v : V3 α) : u - v = V3.sub u v := rfl
theorem V3.neg_def (u : V3 α) : -u = V3.neg u := rfl
theorem M3.apply_add (a : M3 α) (u v : V3 α) : a.apply (u + v) = a.apply u + a.apply v := by
  ext <;> simp [M3.apply, V3.add_def, V3.add] <;> ring
theorem M3.apply_sub (a : M3 α) (u v : V3 α) : a.apply (u - v) = a.apply u - a.apply v := by
  ext <;> simp [M3.apply, V3.sub_def, V3.sub] <;> ring

/-- `Q` is orthogonal -/
def M3.Orth (q : M3 α) : Prop := q.transpose * q = M3.one

/-- an orthogonal matrix preserves dot products, hence squared lengths and squared distances -/
theorem M3.Orth.dot_apply {q : M3 α} (h : q.Orth) (u v : V3 α) : V3.dot (q.apply u) (q.apply v) = V3.dot u v := by
  have e := congrArg M3.toList h
  simp only [M3.mul_def, M3.mul, M3.transpose, M3.one, M3.toList, List.cons.injEq, and_true] at e
  obtain ⟨e1, e2, e3, e4, e5, e6, e7, e8, e9⟩ := e
  simp only [V3.dot, M3.apply]
  linear_combination (u.x * v.x) * e1 + (u.x * v.y) * e2 + (u.x * v.z) * e3 + (u.y * v.x) * e4 + (u.y * v.y) * e5
    + (u.y * v.z) * e6 + (u.z * v.x) * e7 + (u.z * v.y) * e8 + (u.z * v.z) * e9

theorem M3.Orth.normSq_apply {q : M3 α} (h : q.Orth) (u : V3 α) : V3.normSq (q.apply u) = V3.normSq u :=
  h.dot_apply u u

theorem M3.Orth.mul {p q : M3 α} (hp : p.Orth) (hq : q.Orth) : (p * q).Orth := by
  unfold M3.Orth at *
  rw [M3.transpose_mul, M3.mul_assoc', ← M3.mul_assoc' p.transpose, hp, M3.one_mul', hq]

theorem rz_orth (c s : α) (h : c*c + s*s = 1) : (rz c s).Orth := by
  unfold M3.Orth
  ext <;> simp [M3.mul_def, M3.mul, rz, M3.one, M3.transpose] <;> first | ring1 | linear_combination h | linear_combination -h
theorem rx_orth (c s : α) (h : c*c + s*s = 1) : (rx c s).Orth := by
  unfold M3.Orth
  ext <;> simp [M3.mul_def, M3.mul, rx, M3.one, M3.transpose] <;> first | ring1 | linear_combination h | linear_combination -h
theorem ry_orth (c s : α) (h : c*c + s*s = 1) : (ry c s).Orth := by
  unfold M3.Orth
  ext <;> simp [M3.mul_def, M3.mul, ry, M3.one, M3.transpose] <;> first | ring1 | linear_combination h | linear_combination -h

theorem rz_transpose (c s : α) : (rz c s).transpose = rz c (-s) := by
  ext <;> simp [rz, M3.transpose]
theorem rx_transpose (c s : α) : (rx c s).transpose = rx c (-s) := by
  ext <;> simp [rx, M3.transpose]
theorem ry_transpose (c s : α) : (ry c s).transpose = ry c (-s) := by
  ext <;> simp [ry, M3.transpose]

theorem rz_inv (c s : α) (h : c*c + s*s = 1) : rz c (-s) * rz c s = M3.one := by
  rw [← rz_transpose]; exact rz_orth c s h
theorem rx_inv (c s : α) (h : c*c + s*s = 1) : rx c (-s) * rx c s = M3.one := by
  rw [← rx_transpose]; exact rx_orth c s h
theorem ry_inv (c s : α) (h : c*c + s*s = 1) : ry c (-s) * ry c s = M3.one := by
  rw [← ry_transpose]; exact ry_orth c s h
theorem rz_inv' (c s : α) (h : c*c + s*s = 1) : rz c s * rz c (-s) = M3.one := by
  have := rz_inv c (-s) (by rw [neg_mul_neg]; exact h); rwa [neg_neg] at this
theorem rx_inv' (c s : α) (h : c*c + s*s = 1) : rx c s * rx c (-s) = M3.one := by
  have := rx_inv c (-s) (by rw [neg_mul_neg]; exact h); rwa [neg_neg] at this

/-- angle addition: `Rz(a)·Rz(b) = Rz(a+b)` with `(c,s)` of the sum given by the addition formulas -/
theorem rz_mul (c1 s1 c2 s2 : α) : rz c1 s1 * rz c2 s2 = rz (c1*c2 - s1*s2) (s1*c2 + c1*s2) := by
  ext <;> simp [M3.mul_def, M3.mul, rz] <;> ring
theorem rx_mul (c1 s1 c2 s2 : α) : rx c1 s1 * rx c2 s2 = rx (c1*c2 - s1*s2) (s1*c2 + c1*s2) := by
  ext <;> simp [M3.mul_def, M3.mul, rx] <;> ring
theorem rz_zero : rz (1 : α) 0 = M3.one := by ext <;> simp [rz, M3.one]
theorem rx_zero : rx (1 : α) 0 = M3.one := by ext <;> simp [rx, M3.one]

/-! conjugation by the z-mirror and by the π-rotation about y -/
theorem Mz_Mz : (Mz : M3 α) * Mz = M3.one := by ext <;> simp [M3.mul_def, M3.mul, Mz, M3.one]
theorem Qy_Qy : (Qy : M3 α) * Qy = M3.one := by ext <;> simp [M3.mul_def, M3.mul, Qy, M3.one]
theorem Mz_rz (c s : α) : Mz * rz c s * Mz = rz c s := by ext <;> simp [M3.mul_def, M3.mul, rz, Mz]
theorem Mz_rx (c s : α) : Mz * rx c s * Mz = rx c (-s) := by ext <;> simp [M3.mul_def, M3.mul, rx, Mz]
theorem Qy_rz (c s : α) : Qy * rz c s * Qy = rz c (-s) := by ext <;> simp [M3.mul_def, M3.mul, rz, Qy]
theorem Qy_ry (c s : α) : Qy * ry c s * Qy = ry c s := by ext <;> simp [M3.mul_def, M3.mul, ry, Qy]
theorem Qy_rx (c s : α) : Qy * rx c s * Qy = rx c (-s) := by ext <;> simp [M3.mul_def, M3.mul, rx, Qy]

/-- conjugating a product of three by an involution `J` -/
theorem conj3 (J a b c : M3 α) (hJ : J * J = M3.one) :
    J * (a * b * c) * J = (J * a * J) * (J * b * J) * (J * c * J) := by
  have h : ∀ x y : M3 α, x * J * (J * y) = x * y := by
    intro x y
    rw [M3.mul_assoc', ← M3.mul_assoc' J J y, hJ, M3.one_mul']
  calc J * (a * b * c) * J
      = (J * a) * (b * (c * J)) := by simp only [M3.mul_assoc']
    _ = (J * a * J) * (J * (b * (c * J))) := by rw [h]
    _ = (J * a * J) * ((J * b) * (c * J)) := by simp only [M3.mul_assoc']
    _ = (J * a * J) * ((J * b * J) * (J * (c * J))) := by rw [h]
    _ = _ := by simp only [M3.mul_assoc']

/-- the zxz Euler matrix is orthogonal -/
theorem zxz_orth (cp sp ct st cs ss : α) (hp : cp*cp + sp*sp = 1) (ht : ct*ct + st*st = 1) (hs : cs*cs + ss*ss = 1) :
    (zxz cp sp ct st cs ss).Orth :=
  ((rz_orth cs ss hs).mul (rx_orth ct st ht)).mul (rz_orth cp sp hp)

/-- `zxz(−psi, −theta, −phi)` is the inverse of `zxz(phi, theta, psi)` -/
theorem zxz_inv (cp sp ct st cs ss : α) (hp : cp*cp + sp*sp = 1) (ht : ct*ct + st*st = 1) (hs : cs*cs + ss*ss = 1) :
    zxz cs (-ss) ct (-st) cp (-sp) * zxz cp sp ct st cs ss = M3.one := by
  unfold zxz
  calc rz cp (-sp) * rx ct (-st) * rz cs (-ss) * (rz cs ss * rx ct st * rz cp sp)
      = rz cp (-sp) * (rx ct (-st) * ((rz cs (-ss) * rz cs ss) * (rx ct st * rz cp sp))) := by
        simp only [M3.mul_assoc']
    _ = rz cp (-sp) * ((rx ct (-st) * rx ct st) * rz cp sp) := by
        rw [rz_inv cs ss hs, M3.one_mul']; simp only [M3.mul_assoc']
    _ = M3.one := by rw [rx_inv ct st ht, M3.one_mul', rz_inv cp sp hp]

/-- mirror conjugate of a zxz rotation: theta changes sign (used by `flip_handedness`) -/
theorem Mz_zxz (cp sp ct st cs ss : α) : Mz * zxz cp sp ct st cs ss * Mz = zxz cp sp ct (-st) cs ss := by
  unfold zxz
  rw [conj3 Mz _ _ _ Mz_Mz, Mz_rz, Mz_rx, Mz_rz]

/-- third column (image of the z axis) of the zxz matrix -/
theorem zxz_col3 (cp sp ct st cs ss : α) :
    (zxz cp sp ct st cs ss).col3 = ⟨ss * st, -(cs * st), ct⟩ := by
  ext <;> simp [zxz, M3.mul_def, M3.mul, rz, rx, M3.col3]

end CryoCat
