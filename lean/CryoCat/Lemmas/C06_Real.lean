import CryoCat.Lemmas.C06
import CryoCat.Lemmas.C06_Triangle
import Mathlib.Analysis.InnerProductSpace.PiL2
/-! C06 — the model instantiated at ℝ with `Real.arccos`, `Real.sqrt`, π: range, zero set,
rotation angle of the relative rotation, triangle inequality. -/
namespace CryoCat.C06
open Real

/-- the platform functions over the reals; `atan2 y x` is the argument of `x + iy` (not used by the
distance theorems) -/
noncomputable def realLibm (atan2 : ℝ → ℝ → ℝ) : Libm ℝ :=
  { acos := Real.arccos, sqrt := Real.sqrt, atan2 := atan2, pi := Real.pi }

noncomputable def vec (q : Q4 ℝ) : EuclideanSpace ℝ (Fin 4) := !₂[q.x, q.y, q.z, q.w]

theorem inner_vec (p q : Q4 ℝ) : inner ℝ (vec p) (vec q) = qdot p q := by
  simp [vec, PiLp.inner_apply, Fin.sum_univ_four, qdot]
  ring

theorem norm_vec (q : Q4 ℝ) (h : qnormSq q = 1) : ‖vec q‖ = 1 := by
  have : ‖vec q‖ ^ 2 = 1 := by
    rw [← real_inner_self_eq_norm_sq, inner_vec]; exact h
  have h0 : 0 ≤ ‖vec q‖ := norm_nonneg _
  nlinarith

theorem absv_eq_abs {α : Type} [Field α] [LinearOrder α] [IsStrictOrderedRing α] (x : α) : absv x = |x| :=
  (abs_eq_max_neg).symm

theorem arccos_min_one (x : ℝ) : arccos (min x 1) = arccos x := by
  rcases le_total x 1 with h | h
  · rw [min_eq_left h]
  · rw [min_eq_right h, arccos_one, eq_comm, arccos_eq_zero]; exact h

variable (at2 : ℝ → ℝ → ℝ)

theorem angDistRad_eq_hd (p q : Q4 ℝ) : angDistRad (realLibm at2) p q = 2 * hd (vec p) (vec q) := by
  simp only [angDistRad, realLibm, absDot, hd, inner_vec, absv_eq_abs, arccos_min_one]

theorem toDeg_real (r : ℝ) : toDeg (realLibm at2) r = r * (180 / π) := rfl

theorem absDot_mem (p q : Q4 ℝ) : 0 ≤ absDot p q ∧ absDot p q ≤ 1 := by
  simp only [absDot, absv_eq_abs]
  exact ⟨le_min (abs_nonneg _) zero_le_one, min_le_right _ _⟩

theorem angDistRad_range (p q : Q4 ℝ) : 0 ≤ angDistRad (realLibm at2) p q ∧ angDistRad (realLibm at2) p q ≤ π := by
  obtain ⟨h0, h1⟩ := absDot_mem p q
  have a0 : 0 ≤ arccos (absDot p q) := arccos_nonneg _
  have a1 : arccos (absDot p q) ≤ π / 2 := arccos_le_pi_div_two.2 h0
  simp only [angDistRad, realLibm]
  constructor <;> linarith

theorem deg_le (r : ℝ) (h : r ≤ π) : r * (180 / π) ≤ 180 := by
  have hp : 0 < π := pi_pos
  calc r * (180 / π) ≤ π * (180 / π) := by
        apply mul_le_mul_of_nonneg_right h; positivity
    _ = 180 := by field_simp

theorem deg_eq_zero (r : ℝ) : r * (180 / π) = 0 ↔ r = 0 := by
  have hp : 0 < π := pi_pos
  constructor
  · intro h
    rcases mul_eq_zero.1 h with h | h
    · exact h
    · exfalso; have : (180 : ℝ) / π > 0 := by positivity
      linarith
  · intro h; rw [h, zero_mul]

theorem two_arccos (x : ℝ) (h0 : 0 ≤ x) (h1 : x ≤ 1) : 2 * arccos x = arccos (2 * (x * x) - 1) := by
  have a0 : 0 ≤ arccos x := arccos_nonneg _
  have a1 : arccos x ≤ π / 2 := arccos_le_pi_div_two.2 h0
  have hc : cos (2 * arccos x) = 2 * (x * x) - 1 := by
    rw [cos_two_mul, cos_arccos (by linarith) h1]; ring
  rw [← hc, arccos_cos (by linarith) (by linarith)]


/-! z-axis images as vectors of Euclidean 3-space -/
noncomputable def vec3 (v : V3 ℝ) : EuclideanSpace ℝ (Fin 3) := !₂[v.x, v.y, v.z]

theorem inner_vec3 (u v : V3 ℝ) : inner ℝ (vec3 u) (vec3 v) = V3.dot u v := by
  simp [vec3, PiLp.inner_apply, Fin.sum_univ_three, V3.dot]
  ring

theorem norm_vec3 (v : V3 ℝ) (h : V3.normSq v = 1) : ‖vec3 v‖ = 1 := by
  have : ‖vec3 v‖ ^ 2 = 1 := by
    rw [← real_inner_self_eq_norm_sq, inner_vec3]; exact h
  have h0 : 0 ≤ ‖vec3 v‖ := norm_nonneg _
  nlinarith

theorem angle_vec3 (u v : V3 ℝ) (hu : V3.normSq u = 1) (hv : V3.normSq v = 1) :
    InnerProductGeometry.angle (vec3 u) (vec3 v) = arccos (V3.dot u v) := by
  unfold InnerProductGeometry.angle
  rw [norm_vec3 u hu, norm_vec3 v hv, inner_vec3]; simp

end CryoCat.C06
