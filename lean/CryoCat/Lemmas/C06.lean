import CryoCat.Model.C06
import CryoCat.Lemmas.M3
import Mathlib.Tactic.Ring
import Mathlib.Tactic.LinearCombination
import Mathlib.Tactic.Linarith
import Mathlib.Tactic.Positivity
import Mathlib.Algebra.Order.Field.Basic
/-! C06 — algebra of the quaternion model over any commutative ring / ordered field (no trigonometry). -/
namespace CryoCat.C06
section ring
variable {α : Type} [CommRing α]

theorem qmul_def (p q : Q4 α) : p * q = qmul p q := rfl

theorem qdot_comm' (p q : Q4 α) : qdot p q = qdot q p := by
  simp only [qdot]; ring

theorem qdot_mul_left' (g p q : Q4 α) : qdot (g * p) (g * q) = qnormSq g * qdot p q := by
  simp only [qmul_def, qmul, qdot, qnormSq]; ring

theorem qdot_mul_right' (g p q : Q4 α) : qdot (p * g) (q * g) = qdot p q * qnormSq g := by
  simp only [qmul_def, qmul, qdot, qnormSq]; ring

theorem qnormSq_mul (p q : Q4 α) : qnormSq (p * q) = qnormSq p * qnormSq q := by
  simp only [qmul_def, qmul, qdot, qnormSq]; ring

theorem qmul_assoc (p q r : Q4 α) : p * q * r = p * (q * r) := by
  ext <;> simp only [qmul_def, qmul] <;> ring

theorem toM3_mul' (p q : Q4 α) : toM3 (p * q) = toM3 p * toM3 q := by
  ext <;> simp only [qmul_def, qmul, toM3, M3.mul_def, M3.mul] <;> ring

theorem toM3_conj (q : Q4 α) : toM3 (qconj q) = (toM3 q).transpose := by
  ext <;> simp only [qconj, toM3, M3.transpose] <;> ring

theorem toM3_neg (q : Q4 α) : toM3 (qneg q) = toM3 q := by
  ext <;> simp only [qneg, toM3] <;> ring

theorem conj_mul_w (p q : Q4 α) : (qconj p * q).w = qdot p q := by
  simp only [qmul_def, qmul, qconj, qdot]; ring

theorem conj_mul_self (q : Q4 α) : qconj q * q = ⟨0, 0, 0, qnormSq q⟩ := by
  ext <;> simp only [qmul_def, qmul, qconj, qdot, qnormSq] <;> ring

theorem toM3_real (w : α) : toM3 (⟨0, 0, 0, w⟩ : Q4 α) = ⟨w*w,0,0, 0,w*w,0, 0,0,w*w⟩ := by
  ext <;> simp only [toM3] <;> ring

theorem toM3_orth' (q : Q4 α) (h : qnormSq q = 1) : (toM3 q).Orth := by
  unfold M3.Orth
  rw [← toM3_conj, ← toM3_mul', conj_mul_self, h, toM3_real]
  ext <;> simp [M3.one]

theorem trace_toM3 (q : Q4 α) : M3.trace (toM3 q) = 4 * (q.w * q.w) - qnormSq q := by
  simp only [M3.trace, toM3, qnormSq, qdot]; ring

/-- trace of the relative rotation `R_pᵀ R_q` in terms of the quaternion dot product -/
theorem trace_rel' (p q : Q4 α) :
    M3.trace ((toM3 p).transpose * toM3 q) = 4 * (qdot p q * qdot p q) - qnormSq p * qnormSq q := by
  rw [← toM3_conj, ← toM3_mul', trace_toM3, conj_mul_w, qnormSq_mul]
  have : qnormSq (qconj p) = qnormSq p := by simp only [qnormSq, qdot, qconj]; ring
  rw [this]

/-- Lagrange's identity in dimension 4 -/
theorem lagrange4 (p q : Q4 α) :
    qnormSq p * qnormSq q - qdot p q * qdot p q
      = (p.x*q.y - p.y*q.x)^2 + (p.x*q.z - p.z*q.x)^2 + (p.x*q.w - p.w*q.x)^2
        + (p.y*q.z - p.z*q.y)^2 + (p.y*q.w - p.w*q.y)^2 + (p.z*q.w - p.w*q.z)^2 := by
  simp only [qnormSq, qdot]; ring

theorem toM3_qz (c s : α) (h : c*c + s*s = 1) : toM3 (qz c s) = rz (c*c - s*s) (2*c*s) := by
  ext <;> simp only [toM3, qz, rz] <;> first | ring1 | linear_combination h
theorem toM3_qx (c s : α) (h : c*c + s*s = 1) : toM3 (qx c s) = rx (c*c - s*s) (2*c*s) := by
  ext <;> simp only [toM3, qx, rx] <;> first | ring1 | linear_combination h

/-- the quaternion built from half angles is the quaternion of the zxz Euler matrix of the full
angles (double-angle formulas `cos 2h = c²−s²`, `sin 2h = 2cs`) -/
theorem toM3_qzxz' (cp sp ct st cs ss : α) (hp : cp*cp + sp*sp = 1) (ht : ct*ct + st*st = 1) (hs : cs*cs + ss*ss = 1) :
    toM3 (qzxz cp sp ct st cs ss)
      = zxz (cp*cp - sp*sp) (2*cp*sp) (ct*ct - st*st) (2*ct*st) (cs*cs - ss*ss) (2*cs*ss) := by
  unfold qzxz zxz
  rw [toM3_mul', toM3_mul', toM3_qz _ _ hp, toM3_qx _ _ ht, toM3_qz _ _ hs]

theorem qnormSq_qz (c s : α) : qnormSq (qz c s) = c*c + s*s := by simp only [qnormSq, qdot, qz]; ring
theorem qnormSq_qx (c s : α) : qnormSq (qx c s) = c*c + s*s := by simp only [qnormSq, qdot, qx]; ring
theorem qnormSq_qzxz (cp sp ct st cs ss : α) (hp : cp*cp + sp*sp = 1) (ht : ct*ct + st*st = 1) (hs : cs*cs + ss*ss = 1) :
    qnormSq (qzxz cp sp ct st cs ss) = 1 := by
  unfold qzxz
  rw [qnormSq_mul, qnormSq_mul, qnormSq_qz, qnormSq_qx, qnormSq_qz, hp, ht, hs]; ring

theorem zaxisOfEuler_eq (cp sp ct st cs ss : α) :
    zaxisOfEuler cp sp ct st cs ss = ⟨ss * st, -(cs * st), ct⟩ := by
  ext <;> simp [zaxisOfEuler, zxz, M3.mul_def, M3.mul, rz, rx, M3.apply]

theorem apply_ez (m : M3 α) : m.apply ⟨0, 0, 1⟩ = m.col3 := by
  ext <;> simp [M3.apply, M3.col3]

end ring

section field
variable {α : Type} [Field α] [LinearOrder α] [IsStrictOrderedRing α]

/-- Cauchy–Schwarz for unit quaternions -/
theorem qdot_sq_le_one (p q : Q4 α) (hp : qnormSq p = 1) (hq : qnormSq q = 1) : qdot p q * qdot p q ≤ 1 := by
  have h := lagrange4 p q
  rw [hp, hq] at h
  nlinarith [sq_nonneg (p.x*q.y - p.y*q.x), sq_nonneg (p.x*q.z - p.z*q.x), sq_nonneg (p.x*q.w - p.w*q.x),
    sq_nonneg (p.y*q.z - p.z*q.y), sq_nonneg (p.y*q.w - p.w*q.y), sq_nonneg (p.z*q.w - p.w*q.z)]

/-- equality in Cauchy–Schwarz: `|p·q| = 1` forces `q = ±p` -/
theorem eq_or_neg_of_qdot_sq (p q : Q4 α) (hp : qnormSq p = 1) (hq : qnormSq q = 1)
    (h : qdot p q * qdot p q = 1) : q = p ∨ q = qneg p := by
  have hl := lagrange4 p q
  rw [hp, hq, h] at hl
  have s1 := sq_nonneg (p.x*q.y - p.y*q.x)
  have s2 := sq_nonneg (p.x*q.z - p.z*q.x)
  have s3 := sq_nonneg (p.x*q.w - p.w*q.x)
  have s4 := sq_nonneg (p.y*q.z - p.z*q.y)
  have s5 := sq_nonneg (p.y*q.w - p.w*q.y)
  have s6 := sq_nonneg (p.z*q.w - p.w*q.z)
  have z1 : p.x*q.y - p.y*q.x = 0 := by
    have : (p.x*q.y - p.y*q.x)^2 = 0 := by linarith
    exact pow_eq_zero_iff (two_ne_zero) |>.1 this
  have z2 : p.x*q.z - p.z*q.x = 0 := by
    have : (p.x*q.z - p.z*q.x)^2 = 0 := by linarith
    exact pow_eq_zero_iff (two_ne_zero) |>.1 this
  have z3 : p.x*q.w - p.w*q.x = 0 := by
    have : (p.x*q.w - p.w*q.x)^2 = 0 := by linarith
    exact pow_eq_zero_iff (two_ne_zero) |>.1 this
  have z4 : p.y*q.z - p.z*q.y = 0 := by
    have : (p.y*q.z - p.z*q.y)^2 = 0 := by linarith
    exact pow_eq_zero_iff (two_ne_zero) |>.1 this
  have z5 : p.y*q.w - p.w*q.y = 0 := by
    have : (p.y*q.w - p.w*q.y)^2 = 0 := by linarith
    exact pow_eq_zero_iff (two_ne_zero) |>.1 this
  have z6 : p.z*q.w - p.w*q.z = 0 := by
    have : (p.z*q.w - p.w*q.z)^2 = 0 := by linarith
    exact pow_eq_zero_iff (two_ne_zero) |>.1 this
  simp only [qnormSq, qdot] at hp
  -- q = d • p with d = p·q
  have ex : q.x = qdot p q * p.x := by simp only [qdot]; linear_combination (-q.x) * hp - p.y * z1 - p.z * z2 - p.w * z3
  have ey : q.y = qdot p q * p.y := by simp only [qdot]; linear_combination (-q.y) * hp + p.x * z1 - p.z * z4 - p.w * z5
  have ez : q.z = qdot p q * p.z := by simp only [qdot]; linear_combination (-q.z) * hp + p.x * z2 + p.y * z4 - p.w * z6
  have ew : q.w = qdot p q * p.w := by simp only [qdot]; linear_combination (-q.w) * hp + p.x * z3 + p.y * z5 + p.z * z6
  have hd : (qdot p q - 1) * (qdot p q + 1) = 0 := by linear_combination h
  rcases mul_eq_zero.1 hd with h1 | h1
  · left
    have : qdot p q = 1 := by linear_combination h1
    ext <;> simp [ex, ey, ez, ew, this]
  · right
    have : qdot p q = -1 := by linear_combination h1
    ext <;> simp [qneg, ex, ey, ez, ew, this]

/-- two unit quaternions give the same rotation matrix iff they are equal up to sign -/
theorem toM3_eq_iff' (p q : Q4 α) (hp : qnormSq p = 1) (hq : qnormSq q = 1) :
    toM3 p = toM3 q ↔ (q = p ∨ q = qneg p) := by
  constructor
  · intro h
    have t := trace_rel' p q
    rw [← h, (toM3_orth' p hp : (toM3 p).transpose * toM3 p = M3.one), hp, hq] at t
    have t3 : M3.trace (M3.one : M3 α) = 3 := by simp only [M3.trace, M3.one]; norm_num
    rw [t3] at t
    apply eq_or_neg_of_qdot_sq p q hp hq
    linarith
  · rintro (h | h)
    · rw [h]
    · rw [h, toM3_neg]

/-- `toM3 p = toM3 q ↔ (p·q)² = 1` for unit quaternions -/
theorem toM3_eq_iff_dot (p q : Q4 α) (hp : qnormSq p = 1) (hq : qnormSq q = 1) :
    toM3 p = toM3 q ↔ qdot p q * qdot p q = 1 := by
  rw [toM3_eq_iff' p q hp hq]
  constructor
  · rintro (h | h)
    · rw [h]; exact (by rw [← qnormSq, hp]; ring)
    · rw [h]
      have : qdot p (qneg p) = -qnormSq p := by simp only [qdot, qneg, qnormSq]; ring
      rw [this, hp]; ring
  · exact eq_or_neg_of_qdot_sq p q hp hq

end field
end CryoCat.C06
