import CryoCat.Lemmas.C12_Nyq
/-! C12 — "non-increasing in between" WITHOUT the face hypothesis. A row of the ball is the indicator of `[c-a, c+a]`;
`mode='nearest'` continues it beyond a face it reaches. With `c = ⌊n/2⌋` a row that reaches the LOWER face (`a ≥ c`) reaches
the upper one too (`c + a ≥ n - 1`), so its blur is constant; a row that reaches only the upper face is the half line
`[c-a, ∞)`: its blur falls towards lower indices and RISES towards higher ones, by exactly the kernel weight at offset
`x + 1 + a - c ≥ n - c`. That can only happen on an even axis (`n = 2c`, `a = c - 1`). Hence:
* steps towards the lower face and the wrap `n-1 ↦ 0` (mirror image of a Nyquist landing) never raise the blurred ball;
* a step towards the upper face raises it by at most `faceRise ker n r` (0 unless the axis is even, the ball reaches the upper
  face and the kernel reaches `n/2`). -/
namespace CryoCat.C12

/-- one step of one index with NO hypothesis on the faces of the mask box: the frequency does not change, or moves one bin away
from frequency 0 (`0 ≤ f ↦ f+1` or `f ≤ 0 ↦ f-1`) -/
def AnyAwayStep (n : Nat) (j j' : Int) : Prop :=
  freq n j' = freq n j ∨ (0 ≤ freq n j ∧ freq n j' = freq n j + 1) ∨ (freq n j ≤ 0 ∧ freq n j' = freq n j - 1)

/-- the steps of the 26 rays from frequency 0: bin `m·s ↦ (m+1)·s`, `s ∈ {-1, 0, 1}`, as long as the target is a frequency of the axis
(`m + 1 ≤ n - 1 - ⌊n/2⌋` upwards, `m + 1 ≤ ⌊n/2⌋` downwards — the Nyquist bin of an even axis included) -/
theorem anyAwayStep_ray (n : Nat) (hn : 0 < n) (s m : Int) (hm : 0 ≤ m)
    (h : s = 0 ∨ (s = 1 ∧ m + 1 < (n : Int) - centre n) ∨ (s = -1 ∧ m + 1 ≤ centre n)) :
    AnyAwayStep n (m * s) ((m + 1) * s) := by
  have hc : centre n = ((n / 2 : Nat) : Int) := rfl
  rcases h with h | ⟨hs, hlt⟩ | ⟨hs, hlt⟩
  · subst h; left; simp
  · subst hs
    have e1 : freq n (m * 1) = m := by rw [mul_one]; exact freq_self n hn m (by omega) (by omega)
    have e2 : freq n ((m + 1) * 1) = m + 1 := by rw [mul_one]; exact freq_self n hn (m + 1) (by omega) (by omega)
    right; left; rw [e1, e2]; exact ⟨hm, rfl⟩
  · subst hs
    have e1 : freq n (m * -1) = -m := by rw [mul_neg, mul_one]; exact freq_self n hn (-m) (by omega) (by omega)
    have e2 : freq n ((m + 1) * -1) = -(m + 1) := by rw [mul_neg, mul_one]; exact freq_self n hn (-(m + 1)) (by omega) (by omega)
    right; right; rw [e1, e2]; exact ⟨by omega, by ring⟩

section face
set_option linter.unusedSectionVars false
variable {K : Type} [Field K] [LinearOrder K] [IsStrictOrderedRing K]

theorem wt_nonneg (ker : List (Int × K)) (hn : KerNonneg ker) (s : Int) : 0 ≤ wt ker s := by
  have h := wsum_mono ker hn (fun _ => (0 : K)) (fun q => if q = s then 1 else 0)
    (fun p _ => by split_ifs; exact zero_le_one; exact le_refl _)
  rw [wsum_const, mul_zero] at h
  exact h

/-- a kernel has no weight beyond its support -/
theorem wt_zero_of_within (ker : List (Int × K)) (t : Nat) (hw : KerWithin t ker) (s : Int) (hs : (t : Int) < s ∨ s < -(t : Int)) :
    wt ker s = 0 := by
  unfold wt
  rw [wsum_congr ker _ (fun _ => (0 : K)) (fun p hp => by
    have := hw p hp
    rw [if_neg (by omega)]), wsum_const, mul_zero]

/-- adding a constant under a weighted sum with unit total weight -/
theorem wsum_le_add (ker : List (Int × K)) (hn : KerNonneg ker) (hu : ksum ker = 1) (g g' : Int → K) (B : K)
    (h : ∀ p ∈ ker, g p.1 ≤ g' p.1 + B) : wsum ker g ≤ wsum ker g' + B := by
  have := wsum_mono ker hn g (fun q => g' q + B) h
  rw [wsum_add, wsum_const, hu, one_mul] at this
  exact this

theorem faceRise_nonneg (ker : List (Int × K)) (hn : KerNonneg ker) (n : Nat) (r : Int) : 0 ≤ faceRise ker n r := by
  unfold faceRise
  split_ifs
  · exact le_refl _
  · exact wt_nonneg ker hn _

/-- the shape of a row of the ball: empty, or the indicator of `[c-a, c+a]` with `0 ≤ a ≤ r` -/
theorem row_shape (c r E : Int) (hr : 0 ≤ r) (hE : 0 ≤ E) :
    (∀ u, (rowInd c r E u : K) = 0) ∨
    ∃ a : Int, 0 ≤ a ∧ a ≤ r ∧ ∀ u, (rowInd c r E u : K) = if c - a ≤ u ∧ u ≤ c + a then 1 else 0 := by
  by_cases hD : r * r - E < 0
  · left
    intro u; unfold rowInd; rw [if_neg]; nlinarith [mul_self_nonneg (u - c)]
  · right
    rw [not_lt] at hD
    obtain ⟨a, ha0, haD, ha⟩ := exists_isqrt (r * r - E) hD
    have har : a ≤ r := by
      by_contra hcon; rw [not_le] at hcon
      have := mul_self_lt_mul_self hr hcon
      nlinarith
    refine ⟨a, ha0, har, ?_⟩
    intro u; unfold rowInd
    have := ha (u - c)
    by_cases h : (u - c) * (u - c) + E ≤ r * r
    · rw [if_pos h, if_pos]; have := this.1 (by linarith); omega
    · rw [if_neg h, if_neg]; intro h'; apply h; have := this.2 (by omega); linarith

/-- the four shapes of a CLAMPED row (`c = ⌊n/2⌋`, so `n - 1 ≤ 2c`): interval, upper half line, constant 1 — a lower
half line alone is impossible -/
theorem clamped_row_shape (n : Nat) (c r E : Int) (hc : 0 ≤ c) (hcn : c < (n : Int)) (h2c : (n : Int) - 1 ≤ 2 * c) (hr : 0 ≤ r) (hE : 0 ≤ E) :
    (∀ u, (rowInd c r E (clampI n u) : K) = 0) ∨
    (∃ a : Int, 0 ≤ a ∧ a ≤ r ∧ 0 < c - a ∧ c + a < (n : Int) - 1 ∧
        ∀ u, (rowInd c r E (clampI n u) : K) = if c - a ≤ u ∧ u ≤ c + a then 1 else 0) ∨
    (∃ a : Int, 0 ≤ a ∧ a ≤ r ∧ 0 < c - a ∧ (n : Int) - 1 ≤ c + a ∧
        ∀ u, (rowInd c r E (clampI n u) : K) = if c - a ≤ u then 1 else 0) ∨
    (∀ u, (rowInd c r E (clampI n u) : K) = 1) := by
  rcases row_shape (K := K) c r E hr hE with h0 | ⟨a, ha0, har, hrow⟩
  · exact Or.inl (fun u => h0 _)
  · by_cases hL : 0 < c - a
    · by_cases hU : c + a < (n : Int) - 1
      · refine Or.inr (Or.inl ⟨a, ha0, har, hL, hU, fun u => ?_⟩)
        rw [hrow]
        have : (c - a ≤ clampI n u ∧ clampI n u ≤ c + a) ↔ (c - a ≤ u ∧ u ≤ c + a) := by
          unfold clampI; split_ifs <;> constructor <;> intro h <;> omega
        simp only [this]
      · refine Or.inr (Or.inr (Or.inl ⟨a, ha0, har, hL, by omega, fun u => ?_⟩))
        rw [hrow]
        have : (c - a ≤ clampI n u ∧ clampI n u ≤ c + a) ↔ (c - a ≤ u) := by
          unfold clampI; split_ifs <;> constructor <;> intro h <;> omega
        simp only [this]
    · refine Or.inr (Or.inr (Or.inr (fun u => ?_)))
      rw [hrow, if_pos]
      unfold clampI; split_ifs <;> omega

/-- **towards the lower face: never a rise**, whatever the ball touches -/
theorem row_step_left_any (ker : List (Int × K)) (hn : KerNonneg ker) (hk1 : ksum ker = 1) (hu : KerUnimodal ker) (n : Nat) (c r E : Int)
    (hc : 0 ≤ c) (hcn : c < (n : Int)) (h2c : (n : Int) - 1 ≤ 2 * c) (hr : 0 ≤ r) (hE : 0 ≤ E) (x : Int) (hx : x ≤ c) :
    wsum ker (fun q => (rowInd c r E (clampI n (x - 1 + q)) : K)) ≤ wsum ker (fun q => rowInd c r E (clampI n (x + q))) := by
  rcases clamped_row_shape (K := K) n c r E hc hcn h2c hr hE with h | ⟨a, ha0, har, hL, hU, h⟩ | ⟨a, ha0, har, hL, hU, h⟩ | h
  · simp only [h]; exact le_refl _
  · simp only [h]
    exact interval_step_left ker hu (c - a) (c + a) x (by omega) (by omega)
  · simp only [h]
    rw [wsum_halfline' ker hk1, wsum_halfline' ker hk1]
    have := cumw_mono ker hn (c - a - x - 1) (c - a - (x - 1) - 1) (by omega)
    linarith
  · simp only [h]; exact le_refl _

/-- **towards the upper face: a rise of at most `B`**, where `B` is any number that is `≥ 0` and, if the ball reaches the upper
face on an even axis, `≥` the kernel weight at offset `n - c` -/
theorem row_step_right_any (ker : List (Int × K)) (hn : KerNonneg ker) (hk1 : ksum ker = 1) (hu : KerUnimodal ker) (n : Nat) (c r E : Int)
    (hc : 0 ≤ c) (hcn : c < (n : Int)) (h2c : (n : Int) - 1 ≤ 2 * c) (h2c' : 2 * c ≤ (n : Int)) (hr : 0 ≤ r) (hE : 0 ≤ E)
    (x : Int) (hx : c ≤ x) (B : K) (hB0 : 0 ≤ B) (hB : (n : Int) ≤ c + r + 1 → (n : Int) = 2 * c → wt ker ((n : Int) - c) ≤ B) :
    wsum ker (fun q => (rowInd c r E (clampI n (x + 1 + q)) : K)) ≤ wsum ker (fun q => rowInd c r E (clampI n (x + q))) + B := by
  rcases clamped_row_shape (K := K) n c r E hc hcn h2c hr hE with h | ⟨a, ha0, har, hL, hU, h⟩ | ⟨a, ha0, har, hL, hU, h⟩ | h
  · simp only [h]; linarith
  · simp only [h]
    have := interval_step_right ker hu (c - a) (c + a) x (by omega) (by omega)
    linarith
  · simp only [h]
    rw [wsum_halfline' ker hk1, wsum_halfline' ker hk1]
    have hs := cumw_step ker (c - a - x - 1)
    rw [show c - a - (x + 1) - 1 = c - a - x - 1 - 1 by ring]
    have hB' := hB (by omega) (by omega)
    have hle := hu ((n : Int) - c) (c - a - x - 1) (by nlinarith)
    linarith
  · simp only [h]; linarith

/-- **the wrap `n-1 ↦ 0` on an even axis: never a rise**, whatever the ball touches -/
theorem row_wrap_any (ker : List (Int × K)) (hn : KerNonneg ker) (hk1 : ksum ker = 1) (hu : KerUnimodal ker) (n : Nat) (c r E : Int)
    (hc : 0 ≤ c) (hcn : c < (n : Int)) (hn2 : (n : Int) = 2 * c) (hr : 0 ≤ r) (hE : 0 ≤ E) :
    wsum ker (fun q => (rowInd c r E (clampI n (0 + q)) : K)) ≤ wsum ker (fun q => rowInd c r E (clampI n ((n : Int) - 1 + q))) := by
  rcases clamped_row_shape (K := K) n c r E hc hcn (by omega) hr hE with h | ⟨a, ha0, har, hL, hU, h⟩ | ⟨a, ha0, har, hL, hU, h⟩ | h
  · simp only [h]; exact le_refl _
  · simp only [h]
    rw [wsum_interval ker (c - a) (c + a) 0 (by omega), wsum_interval ker (c - a) (c + a) ((n : Int) - 1) (by omega)]
    obtain ⟨a', rfl⟩ := Int.eq_ofNat_of_zero_le ha0
    have hw := window_mirror ker hu c a'
    have hm := hu (c - (a' : Int) - 1) (c + (a' : Int)) (by nlinarith)
    rw [show c + (a' : Int) - ((n : Int) - 1) = -c + (a' : Int) + 1 by omega,
      show c - (a' : Int) - ((n : Int) - 1) - 1 = -c - (a' : Int) by omega,
      show c + (a' : Int) - 0 = c + (a' : Int) by ring, show c - (a' : Int) - 0 - 1 = c - (a' : Int) - 1 by ring]
    linarith
  · simp only [h]
    rw [wsum_halfline' ker hk1, wsum_halfline' ker hk1]
    have := cumw_mono ker hn (c - a - ((n : Int) - 1) - 1) (c - a - 0 - 1) (by omega)
    linarith
  · simp only [h]; exact le_refl _

/-! ### lifted to the separable 3-D blur -/

theorem centre_two (n : Nat) : (n : Int) - 1 ≤ 2 * centre n ∧ 2 * centre n ≤ (n : Int) := by unfold centre; omega

/-- the hypothesis `hB` of `row_step_right_any` for `B = faceRise` -/
theorem faceRise_covers (ker : List (Int × K)) (n : Nat) (r : Int) :
    (n : Int) ≤ centre n + r + 1 → (n : Int) = 2 * centre n → wt ker ((n : Int) - centre n) ≤ faceRise ker n r := by
  intro h1 h2
  unfold faceRise
  rw [if_neg (by unfold centre at h2; omega), show (n : Int) - centre n = centre n by omega]

theorem mask_step_x_any (ker : List (Int × K)) (hk : UnimodalKernel ker) (d : Dims) (hd : 0 < d.nx) (r : Int) (hr : 0 ≤ r) (x y z : Int) :
    (centre d.nx ≤ x → blur3Fn ker d (sphere d r) (x + 1) y z ≤ blur3Fn ker d (sphere d r) x y z + faceRise ker d.nx r) ∧
    (x ≤ centre d.nx → blur3Fn ker d (sphere d r) (x - 1) y z ≤ blur3Fn ker d (sphere d r) x y z) := by
  constructor
  · intro hx
    rw [blur3_perm_x, blur3_perm_x]
    apply wsum_le_add _ hk.nonneg hk.unit; intro pz _
    apply wsum_le_add _ hk.nonneg hk.unit; intro py _
    simp only [sphere_row_x d r hr]
    exact row_step_right_any ker hk.nonneg hk.unit hk.unimodal d.nx _ r _ (centre_nonneg _) (centre_lt _ hd) (centre_two _).1 (centre_two _).2 hr (sq2_nonneg _ _) x hx _
      (faceRise_nonneg ker hk.nonneg _ _) (faceRise_covers ker _ _)
  · intro hx
    rw [blur3_perm_x, blur3_perm_x]
    apply wsum_mono _ hk.nonneg; intro pz _
    apply wsum_mono _ hk.nonneg; intro py _
    simp only [sphere_row_x d r hr]
    exact row_step_left_any ker hk.nonneg hk.unit hk.unimodal d.nx _ r _ (centre_nonneg _) (centre_lt _ hd) (centre_two _).1 hr (sq2_nonneg _ _) x hx

theorem mask_step_y_any (ker : List (Int × K)) (hk : UnimodalKernel ker) (d : Dims) (hd : 0 < d.ny) (r : Int) (hr : 0 ≤ r) (x y z : Int) :
    (centre d.ny ≤ y → blur3Fn ker d (sphere d r) x (y + 1) z ≤ blur3Fn ker d (sphere d r) x y z + faceRise ker d.ny r) ∧
    (y ≤ centre d.ny → blur3Fn ker d (sphere d r) x (y - 1) z ≤ blur3Fn ker d (sphere d r) x y z) := by
  constructor
  · intro hx
    rw [blur3_perm_y, blur3_perm_y]
    apply wsum_le_add _ hk.nonneg hk.unit; intro pz _
    apply wsum_le_add _ hk.nonneg hk.unit; intro px _
    simp only [sphere_row_y d r hr]
    exact row_step_right_any ker hk.nonneg hk.unit hk.unimodal d.ny _ r _ (centre_nonneg _) (centre_lt _ hd) (centre_two _).1 (centre_two _).2 hr (sq2_nonneg _ _) y hx _
      (faceRise_nonneg ker hk.nonneg _ _) (faceRise_covers ker _ _)
  · intro hx
    rw [blur3_perm_y, blur3_perm_y]
    apply wsum_mono _ hk.nonneg; intro pz _
    apply wsum_mono _ hk.nonneg; intro px _
    simp only [sphere_row_y d r hr]
    exact row_step_left_any ker hk.nonneg hk.unit hk.unimodal d.ny _ r _ (centre_nonneg _) (centre_lt _ hd) (centre_two _).1 hr (sq2_nonneg _ _) y hx

theorem mask_step_z_any (ker : List (Int × K)) (hk : UnimodalKernel ker) (d : Dims) (hd : 0 < d.nz) (r : Int) (hr : 0 ≤ r) (x y z : Int) :
    (centre d.nz ≤ z → blur3Fn ker d (sphere d r) x y (z + 1) ≤ blur3Fn ker d (sphere d r) x y z + faceRise ker d.nz r) ∧
    (z ≤ centre d.nz → blur3Fn ker d (sphere d r) x y (z - 1) ≤ blur3Fn ker d (sphere d r) x y z) := by
  constructor
  · intro hx
    rw [blur3_perm_z, blur3_perm_z]
    apply wsum_le_add _ hk.nonneg hk.unit; intro py _
    apply wsum_le_add _ hk.nonneg hk.unit; intro px _
    simp only [sphere_row_z d r hr]
    exact row_step_right_any ker hk.nonneg hk.unit hk.unimodal d.nz _ r _ (centre_nonneg _) (centre_lt _ hd) (centre_two _).1 (centre_two _).2 hr (sq2_nonneg _ _) z hx _
      (faceRise_nonneg ker hk.nonneg _ _) (faceRise_covers ker _ _)
  · intro hx
    rw [blur3_perm_z, blur3_perm_z]
    apply wsum_mono _ hk.nonneg; intro py _
    apply wsum_mono _ hk.nonneg; intro px _
    simp only [sphere_row_z d r hr]
    exact row_step_left_any ker hk.nonneg hk.unit hk.unimodal d.nz _ r _ (centre_nonneg _) (centre_lt _ hd) (centre_two _).1 hr (sq2_nonneg _ _) z hx

theorem mask_wrap_x_any (ker : List (Int × K)) (hk : UnimodalKernel ker) (d : Dims) (hd : 0 < d.nx) (r : Int) (hr : 0 ≤ r)
    (he : (d.nx : Int) = 2 * centre d.nx) (y z : Int) :
    blur3Fn ker d (sphere d r) 0 y z ≤ blur3Fn ker d (sphere d r) ((d.nx : Int) - 1) y z := by
  rw [blur3_perm_x, blur3_perm_x]
  apply wsum_mono _ hk.nonneg; intro pz _
  apply wsum_mono _ hk.nonneg; intro py _
  simp only [sphere_row_x d r hr]
  exact row_wrap_any ker hk.nonneg hk.unit hk.unimodal d.nx _ r _ (centre_nonneg _) (centre_lt _ hd) he hr (sq2_nonneg _ _)

theorem mask_wrap_y_any (ker : List (Int × K)) (hk : UnimodalKernel ker) (d : Dims) (hd : 0 < d.ny) (r : Int) (hr : 0 ≤ r)
    (he : (d.ny : Int) = 2 * centre d.ny) (x z : Int) :
    blur3Fn ker d (sphere d r) x 0 z ≤ blur3Fn ker d (sphere d r) x ((d.ny : Int) - 1) z := by
  rw [blur3_perm_y, blur3_perm_y]
  apply wsum_mono _ hk.nonneg; intro pz _
  apply wsum_mono _ hk.nonneg; intro px _
  simp only [sphere_row_y d r hr]
  exact row_wrap_any ker hk.nonneg hk.unit hk.unimodal d.ny _ r _ (centre_nonneg _) (centre_lt _ hd) he hr (sq2_nonneg _ _)

theorem mask_wrap_z_any (ker : List (Int × K)) (hk : UnimodalKernel ker) (d : Dims) (hd : 0 < d.nz) (r : Int) (hr : 0 ≤ r)
    (he : (d.nz : Int) = 2 * centre d.nz) (x y : Int) :
    blur3Fn ker d (sphere d r) x y 0 ≤ blur3Fn ker d (sphere d r) x y ((d.nz : Int) - 1) := by
  rw [blur3_perm_z, blur3_perm_z]
  apply wsum_mono _ hk.nonneg; intro py _
  apply wsum_mono _ hk.nonneg; intro px _
  simp only [sphere_row_z d r hr]
  exact row_wrap_any ker hk.nonneg hk.unit hk.unimodal d.nz _ r _ (centre_nonneg _) (centre_lt _ hd) he hr (sq2_nonneg _ _)


/-! ### gain level: every step away from frequency 0, no hypothesis on the faces -/

/-- what a step may add to the RAW gain: `faceRise` when the frequency goes UP by one, nothing otherwise -/
def upRise (ker : List (Int × K)) (n : Nat) (r : Int) (j j' : Int) : K := if freq n j' = freq n j + 1 then faceRise ker n r else 0
/-- what a step may add to the gain of the MIRROR bin: `faceRise` when the frequency goes DOWN by one (its mirror image goes up) -/
def downRise (ker : List (Int × K)) (n : Nat) (r : Int) (j j' : Int) : K := if freq n j' = freq n j - 1 then faceRise ker n r else 0
/-- … together: `faceRise` for an index that moves, nothing for one that stays -/
def stepRise (ker : List (Int × K)) (n : Nat) (r : Int) (j j' : Int) : K := if freq n j' = freq n j then 0 else faceRise ker n r

theorem up_down_rise (ker : List (Int × K)) (n : Nat) (r : Int) (j j' : Int) (h : AnyAwayStep n j j') :
    upRise ker n r j j' + downRise ker n r j j' = stepRise ker n r j j' := by
  unfold upRise downRise stepRise
  rcases h with h | ⟨_, h⟩ | ⟨_, h⟩
  · rw [if_neg (by omega), if_neg (by omega), if_pos h]; ring
  · rw [if_pos h, if_neg (by omega), if_neg (by omega)]; ring
  · rw [if_neg (by omega), if_pos h, if_neg (by omega)]; ring

theorem gain_step_x_any (ker : List (Int × K)) (hk : UnimodalKernel ker) (d : Dims) (hd : 0 < d.nx) (r : Int) (hr : 0 ≤ r)
    (j j' : Int) (h : AnyAwayStep d.nx j j') (P Q : Int) :
    lowGainFn (some ker) d r j' P Q ≤ lowGainFn (some ker) d r j P Q + upRise ker d.nx r j j' := by
  have hm := mask_step_x_any ker hk d hd r hr (shiftIdx d.nx j) (shiftIdx d.ny P) (shiftIdx d.nz Q)
  have hf := faceRise_nonneg ker hk.nonneg d.nx r
  simp only [lowGainFn, shiftVol, lowMaskFn, upRise]
  rcases h with h | ⟨b0, b1⟩ | ⟨b0, b1⟩
  · rw [shiftIdx_eq_freq d.nx j', h, ← shiftIdx_eq_freq]
    split_ifs <;> linarith
  · have e : shiftIdx d.nx j' = shiftIdx d.nx j + 1 := by rw [shiftIdx_eq_freq, shiftIdx_eq_freq]; omega
    rw [e, if_pos b1]; exact hm.1 (by rw [shiftIdx_eq_freq]; omega)
  · have e : shiftIdx d.nx j' = shiftIdx d.nx j - 1 := by rw [shiftIdx_eq_freq, shiftIdx_eq_freq]; omega
    rw [e]
    have := hm.2 (by rw [shiftIdx_eq_freq]; omega)
    split_ifs <;> linarith

theorem gain_mirror_step_x_any (ker : List (Int × K)) (hk : UnimodalKernel ker) (d : Dims) (hd : 0 < d.nx) (r : Int) (hr : 0 ≤ r)
    (j j' : Int) (h : AnyAwayStep d.nx j j') (P Q : Int) :
    lowGainFn (some ker) d r (negIdx d.nx j') P Q ≤ lowGainFn (some ker) d r (negIdx d.nx j) P Q + downRise ker d.nx r j j' := by
  have hf := faceRise_nonneg ker hk.nonneg d.nx r
  have rj := freq_range d.nx hd j
  have rj' := freq_range d.nx hd j'
  have hc : centre d.nx = ((d.nx / 2 : Nat) : Int) := rfl
  rcases h with h | ⟨b0, b1⟩ | ⟨b0, b1⟩
  · rw [negIdx_congr d.nx j j' h]
    unfold downRise; split_ifs <;> linarith
  · -- the mirror image of a step up is a step down: never a rise
    have e' := freq_negIdx d.nx hd j' (by omega)
    have e := freq_negIdx d.nx hd j (by omega)
    have hstep : AnyAwayStep d.nx (negIdx d.nx j) (negIdx d.nx j') := Or.inr (Or.inr ⟨by omega, by omega⟩)
    have := gain_step_x_any ker hk d hd r hr _ _ hstep P Q
    have hu0 : upRise ker d.nx r (negIdx d.nx j) (negIdx d.nx j') = 0 := by unfold upRise; rw [if_neg (by omega)]
    rw [hu0] at this
    unfold downRise; split_ifs <;> linarith
  · by_cases hm : -(freq d.nx j') < (d.nx : Int) - centre d.nx
    · -- the mirror image of a step down is a step up: at most `faceRise`
      have e' := freq_negIdx d.nx hd j' hm
      have e := freq_negIdx d.nx hd j (by omega)
      have hstep : AnyAwayStep d.nx (negIdx d.nx j) (negIdx d.nx j') := Or.inr (Or.inl ⟨by omega, by omega⟩)
      have := gain_step_x_any ker hk d hd r hr _ _ hstep P Q
      have hu1 : upRise ker d.nx r (negIdx d.nx j) (negIdx d.nx j') = faceRise ker d.nx r := by unfold upRise; rw [if_pos (by omega)]
      rw [hu1] at this
      unfold downRise; rw [if_pos b1]; exact this
    · -- a landing on the Nyquist bin of an even axis: its mirror image is the wrap `n-1 ↦ 0`
      have he : (d.nx : Int) = 2 * centre d.nx := by omega
      have h1 : freq d.nx j' = -centre d.nx := by omega
      have e1 := freq_negIdx_nyq d.nx hd he j' h1
      have e2 := freq_negIdx d.nx hd j (by omega)
      have hw := mask_wrap_x_any ker hk d hd r hr he (shiftIdx d.ny P) (shiftIdx d.nz Q)
      simp only [lowGainFn, shiftVol, lowMaskFn]
      rw [shiftIdx_eq_freq d.nx (negIdx d.nx j'), shiftIdx_eq_freq d.nx (negIdx d.nx j), e1, e2,
        show -centre d.nx + centre d.nx = 0 by ring, show -(freq d.nx j) + centre d.nx = (d.nx : Int) - 1 by omega]
      unfold downRise; split_ifs <;> linarith

theorem gain_step_y_any (ker : List (Int × K)) (hk : UnimodalKernel ker) (d : Dims) (hd : 0 < d.ny) (r : Int) (hr : 0 ≤ r)
    (j j' : Int) (h : AnyAwayStep d.ny j j') (P Q : Int) :
    lowGainFn (some ker) d r P j' Q ≤ lowGainFn (some ker) d r P j Q + upRise ker d.ny r j j' := by
  have hm := mask_step_y_any ker hk d hd r hr (shiftIdx d.nx P) (shiftIdx d.ny j) (shiftIdx d.nz Q)
  have hf := faceRise_nonneg ker hk.nonneg d.ny r
  simp only [lowGainFn, shiftVol, lowMaskFn, upRise]
  rcases h with h | ⟨b0, b1⟩ | ⟨b0, b1⟩
  · rw [shiftIdx_eq_freq d.ny j', h, ← shiftIdx_eq_freq]
    split_ifs <;> linarith
  · have e : shiftIdx d.ny j' = shiftIdx d.ny j + 1 := by rw [shiftIdx_eq_freq, shiftIdx_eq_freq]; omega
    rw [e, if_pos b1]; exact hm.1 (by rw [shiftIdx_eq_freq]; omega)
  · have e : shiftIdx d.ny j' = shiftIdx d.ny j - 1 := by rw [shiftIdx_eq_freq, shiftIdx_eq_freq]; omega
    rw [e]
    have := hm.2 (by rw [shiftIdx_eq_freq]; omega)
    split_ifs <;> linarith

theorem gain_mirror_step_y_any (ker : List (Int × K)) (hk : UnimodalKernel ker) (d : Dims) (hd : 0 < d.ny) (r : Int) (hr : 0 ≤ r)
    (j j' : Int) (h : AnyAwayStep d.ny j j') (P Q : Int) :
    lowGainFn (some ker) d r P (negIdx d.ny j') Q ≤ lowGainFn (some ker) d r P (negIdx d.ny j) Q + downRise ker d.ny r j j' := by
  have hf := faceRise_nonneg ker hk.nonneg d.ny r
  have rj := freq_range d.ny hd j
  have rj' := freq_range d.ny hd j'
  have hc : centre d.ny = ((d.ny / 2 : Nat) : Int) := rfl
  rcases h with h | ⟨b0, b1⟩ | ⟨b0, b1⟩
  · rw [negIdx_congr d.ny j j' h]
    unfold downRise; split_ifs <;> linarith
  · -- the mirror image of a step up is a step down: never a rise
    have e' := freq_negIdx d.ny hd j' (by omega)
    have e := freq_negIdx d.ny hd j (by omega)
    have hstep : AnyAwayStep d.ny (negIdx d.ny j) (negIdx d.ny j') := Or.inr (Or.inr ⟨by omega, by omega⟩)
    have := gain_step_y_any ker hk d hd r hr _ _ hstep P Q
    have hu0 : upRise ker d.ny r (negIdx d.ny j) (negIdx d.ny j') = 0 := by unfold upRise; rw [if_neg (by omega)]
    rw [hu0] at this
    unfold downRise; split_ifs <;> linarith
  · by_cases hm : -(freq d.ny j') < (d.ny : Int) - centre d.ny
    · -- the mirror image of a step down is a step up: at most `faceRise`
      have e' := freq_negIdx d.ny hd j' hm
      have e := freq_negIdx d.ny hd j (by omega)
      have hstep : AnyAwayStep d.ny (negIdx d.ny j) (negIdx d.ny j') := Or.inr (Or.inl ⟨by omega, by omega⟩)
      have := gain_step_y_any ker hk d hd r hr _ _ hstep P Q
      have hu1 : upRise ker d.ny r (negIdx d.ny j) (negIdx d.ny j') = faceRise ker d.ny r := by unfold upRise; rw [if_pos (by omega)]
      rw [hu1] at this
      unfold downRise; rw [if_pos b1]; exact this
    · -- a landing on the Nyquist bin of an even axis: its mirror image is the wrap `n-1 ↦ 0`
      have he : (d.ny : Int) = 2 * centre d.ny := by omega
      have h1 : freq d.ny j' = -centre d.ny := by omega
      have e1 := freq_negIdx_nyq d.ny hd he j' h1
      have e2 := freq_negIdx d.ny hd j (by omega)
      have hw := mask_wrap_y_any ker hk d hd r hr he (shiftIdx d.nx P) (shiftIdx d.nz Q)
      simp only [lowGainFn, shiftVol, lowMaskFn]
      rw [shiftIdx_eq_freq d.ny (negIdx d.ny j'), shiftIdx_eq_freq d.ny (negIdx d.ny j), e1, e2,
        show -centre d.ny + centre d.ny = 0 by ring, show -(freq d.ny j) + centre d.ny = (d.ny : Int) - 1 by omega]
      unfold downRise; split_ifs <;> linarith

theorem gain_step_z_any (ker : List (Int × K)) (hk : UnimodalKernel ker) (d : Dims) (hd : 0 < d.nz) (r : Int) (hr : 0 ≤ r)
    (j j' : Int) (h : AnyAwayStep d.nz j j') (P Q : Int) :
    lowGainFn (some ker) d r P Q j' ≤ lowGainFn (some ker) d r P Q j + upRise ker d.nz r j j' := by
  have hm := mask_step_z_any ker hk d hd r hr (shiftIdx d.nx P) (shiftIdx d.ny Q) (shiftIdx d.nz j)
  have hf := faceRise_nonneg ker hk.nonneg d.nz r
  simp only [lowGainFn, shiftVol, lowMaskFn, upRise]
  rcases h with h | ⟨b0, b1⟩ | ⟨b0, b1⟩
  · rw [shiftIdx_eq_freq d.nz j', h, ← shiftIdx_eq_freq]
    split_ifs <;> linarith
  · have e : shiftIdx d.nz j' = shiftIdx d.nz j + 1 := by rw [shiftIdx_eq_freq, shiftIdx_eq_freq]; omega
    rw [e, if_pos b1]; exact hm.1 (by rw [shiftIdx_eq_freq]; omega)
  · have e : shiftIdx d.nz j' = shiftIdx d.nz j - 1 := by rw [shiftIdx_eq_freq, shiftIdx_eq_freq]; omega
    rw [e]
    have := hm.2 (by rw [shiftIdx_eq_freq]; omega)
    split_ifs <;> linarith

theorem gain_mirror_step_z_any (ker : List (Int × K)) (hk : UnimodalKernel ker) (d : Dims) (hd : 0 < d.nz) (r : Int) (hr : 0 ≤ r)
    (j j' : Int) (h : AnyAwayStep d.nz j j') (P Q : Int) :
    lowGainFn (some ker) d r P Q (negIdx d.nz j') ≤ lowGainFn (some ker) d r P Q (negIdx d.nz j) + downRise ker d.nz r j j' := by
  have hf := faceRise_nonneg ker hk.nonneg d.nz r
  have rj := freq_range d.nz hd j
  have rj' := freq_range d.nz hd j'
  have hc : centre d.nz = ((d.nz / 2 : Nat) : Int) := rfl
  rcases h with h | ⟨b0, b1⟩ | ⟨b0, b1⟩
  · rw [negIdx_congr d.nz j j' h]
    unfold downRise; split_ifs <;> linarith
  · -- the mirror image of a step up is a step down: never a rise
    have e' := freq_negIdx d.nz hd j' (by omega)
    have e := freq_negIdx d.nz hd j (by omega)
    have hstep : AnyAwayStep d.nz (negIdx d.nz j) (negIdx d.nz j') := Or.inr (Or.inr ⟨by omega, by omega⟩)
    have := gain_step_z_any ker hk d hd r hr _ _ hstep P Q
    have hu0 : upRise ker d.nz r (negIdx d.nz j) (negIdx d.nz j') = 0 := by unfold upRise; rw [if_neg (by omega)]
    rw [hu0] at this
    unfold downRise; split_ifs <;> linarith
  · by_cases hm : -(freq d.nz j') < (d.nz : Int) - centre d.nz
    · -- the mirror image of a step down is a step up: at most `faceRise`
      have e' := freq_negIdx d.nz hd j' hm
      have e := freq_negIdx d.nz hd j (by omega)
      have hstep : AnyAwayStep d.nz (negIdx d.nz j) (negIdx d.nz j') := Or.inr (Or.inl ⟨by omega, by omega⟩)
      have := gain_step_z_any ker hk d hd r hr _ _ hstep P Q
      have hu1 : upRise ker d.nz r (negIdx d.nz j) (negIdx d.nz j') = faceRise ker d.nz r := by unfold upRise; rw [if_pos (by omega)]
      rw [hu1] at this
      unfold downRise; rw [if_pos b1]; exact this
    · -- a landing on the Nyquist bin of an even axis: its mirror image is the wrap `n-1 ↦ 0`
      have he : (d.nz : Int) = 2 * centre d.nz := by omega
      have h1 : freq d.nz j' = -centre d.nz := by omega
      have e1 := freq_negIdx_nyq d.nz hd he j' h1
      have e2 := freq_negIdx d.nz hd j (by omega)
      have hw := mask_wrap_z_any ker hk d hd r hr he (shiftIdx d.nx P) (shiftIdx d.ny Q)
      simp only [lowGainFn, shiftVol, lowMaskFn]
      rw [shiftIdx_eq_freq d.nz (negIdx d.nz j'), shiftIdx_eq_freq d.nz (negIdx d.nz j), e1, e2,
        show -centre d.nz + centre d.nz = 0 by ring, show -(freq d.nz j) + centre d.nz = (d.nz : Int) - 1 by omega]
      unfold downRise; split_ifs <;> linarith

/-- **the effective gain along ANY step away from frequency 0 (axis-parallel or diagonal, Nyquist landings included, no hypothesis on
the faces): it rises by at most half of `faceRise` per moving index** -/
theorem eff_gain_step_any (ker : List (Int × K)) (hk : UnimodalKernel ker) (d : Dims) (hd : 0 < d.nx ∧ 0 < d.ny ∧ 0 < d.nz)
    (r : Int) (hr : 0 ≤ r) (j k l j' k' l' : Int)
    (hx : AnyAwayStep d.nx j j') (hy : AnyAwayStep d.ny k k') (hz : AnyAwayStep d.nz l l') :
    effGain d (lowGainFn (some ker) d r) j' k' l' ≤ effGain d (lowGainFn (some ker) d r) j k l
      + (stepRise ker d.nx r j j' + stepRise ker d.ny r k k' + stepRise ker d.nz r l l') / 2 := by
  have a1 := gain_step_x_any ker hk d hd.1 r hr j j' hx k' l'
  have a2 := gain_step_y_any ker hk d hd.2.1 r hr k k' hy j l'
  have a3 := gain_step_z_any ker hk d hd.2.2 r hr l l' hz j k
  have b1 := gain_mirror_step_x_any ker hk d hd.1 r hr j j' hx (negIdx d.ny k') (negIdx d.nz l')
  have b2 := gain_mirror_step_y_any ker hk d hd.2.1 r hr k k' hy (negIdx d.nx j) (negIdx d.nz l')
  have b3 := gain_mirror_step_z_any ker hk d hd.2.2 r hr l l' hz (negIdx d.nx j) (negIdx d.ny k)
  have e1 := up_down_rise ker d.nx r j j' hx
  have e2 := up_down_rise ker d.ny r k k' hy
  have e3 := up_down_rise ker d.nz r l l' hz
  simp only [effGain]
  rw [← add_div, div_le_div_iff_of_pos_right (by norm_num : (0 : K) < 2)]
  linarith

/-- … and the RAW gain by at most `faceRise` per index that moves UP -/
theorem gain_step_xyz_any (ker : List (Int × K)) (hk : UnimodalKernel ker) (d : Dims) (hd : 0 < d.nx ∧ 0 < d.ny ∧ 0 < d.nz)
    (r : Int) (hr : 0 ≤ r) (j k l j' k' l' : Int)
    (hx : AnyAwayStep d.nx j j') (hy : AnyAwayStep d.ny k k') (hz : AnyAwayStep d.nz l l') :
    lowGainFn (some ker) d r j' k' l' ≤ lowGainFn (some ker) d r j k l
      + (upRise ker d.nx r j j' + upRise ker d.ny r k k' + upRise ker d.nz r l l') := by
  have a1 := gain_step_x_any ker hk d hd.1 r hr j j' hx k' l'
  have a2 := gain_step_y_any ker hk d hd.2.1 r hr k k' hy j l'
  have a3 := gain_step_z_any ker hk d hd.2.2 r hr l l' hz j k
  linarith

end face
end CryoCat.C12
