import CryoCat.Model.C07
/-! C07 — invariants of the greedy rule `suppress` (core Lean only) and list helpers. -/
namespace CryoCat.C07

section Greedy
variable {P : Type} (near : P → P → Bool)

theorem suppressStep_mono (kept : List P) (c : P) : ∀ a ∈ kept, a ∈ suppressStep near kept c := by
  intro a ha; unfold suppressStep; split <;> simp [ha]

theorem foldl_mono (order kept : List P) : ∀ a ∈ kept, a ∈ order.foldl (suppressStep near) kept := by
  induction order generalizing kept with
  | nil => simp
  | cons c cs ih => intro a ha; exact ih _ a (suppressStep_mono near kept c a ha)

/-- the kept items are the initial ones followed by a sublist of the candidates, in candidate order -/
theorem foldl_sublist (order kept : List P) :
    ∃ s, s.Sublist order ∧ order.foldl (suppressStep near) kept = kept ++ s := by
  induction order generalizing kept with
  | nil => exact ⟨[], List.Sublist.refl _, by simp⟩
  | cons c cs ih =>
    simp only [List.foldl_cons]
    obtain ⟨s, hs, he⟩ := ih (suppressStep near kept c)
    by_cases hb : kept.any (fun a => near a c) = true
    · have hstep : suppressStep near kept c = kept := by unfold suppressStep; simp [hb]
      rw [hstep] at he ⊢
      exact ⟨s, hs.cons _, he⟩
    · have hstep : suppressStep near kept c = kept ++ [c] := by unfold suppressStep; simp [hb]
      rw [hstep] at he ⊢
      refine ⟨c :: s, hs.cons_cons _, ?_⟩
      rw [he]; simp

theorem suppress_sublist (order : List P) : (suppress near order).Sublist order := by
  obtain ⟨s, hs, he⟩ := foldl_sublist near order []
  unfold suppress; rw [he]; simpa using hs

theorem suppressStep_separated (kept : List P) (c : P) (h : kept.Pairwise (fun a b => near a b = false)) :
    (suppressStep near kept c).Pairwise (fun a b => near a b = false) := by
  unfold suppressStep
  split
  · exact h
  · rename_i hn
    rw [List.pairwise_append]
    refine ⟨h, by simp, ?_⟩
    intro a ha b hb
    simp only [List.mem_singleton] at hb; subst hb
    simp only [List.any_eq_true, not_exists, not_and, Bool.not_eq_true] at hn
    exact hn a ha

theorem foldl_separated (order kept : List P) (h : kept.Pairwise (fun a b => near a b = false)) :
    (order.foldl (suppressStep near) kept).Pairwise (fun a b => near a b = false) := by
  induction order generalizing kept with
  | nil => simpa
  | cons c cs ih => exact ih _ (suppressStep_separated near kept c h)

/-- no kept item suppresses a later kept item -/
theorem suppress_separated (order : List P) : (suppress near order).Pairwise (fun a b => near a b = false) :=
  foldl_separated near order [] (by simp)

/-- every candidate is kept, or suppressed by a kept item that precedes it in the processing order
(`R` is any relation that holds from earlier to later candidates, e.g. "has an equal or better score") -/
theorem foldl_dominated (R : P → P → Prop) (order kept : List P) (hR : order.Pairwise R)
    (hk : ∀ a ∈ kept, ∀ c ∈ order, R a c) :
    ∀ c ∈ order, c ∈ order.foldl (suppressStep near) kept ∨
      ∃ a ∈ order.foldl (suppressStep near) kept, near a c = true ∧ R a c := by
  induction order generalizing kept with
  | nil => simp
  | cons c0 cs ih =>
    intro c hc
    rw [List.pairwise_cons] at hR
    simp only [List.foldl_cons]
    rcases List.mem_cons.1 hc with rfl | hc
    · by_cases hb : kept.any (fun a => near a c) = true
      · right
        simp only [List.any_eq_true] at hb
        obtain ⟨a, ha, h⟩ := hb
        exact ⟨a, foldl_mono near cs _ a (suppressStep_mono near kept c a ha), h, hk a ha c (by simp)⟩
      · left
        apply foldl_mono
        unfold suppressStep; simp [hb]
    · apply ih (suppressStep near kept c0) hR.2 _ c hc
      intro a ha c' hc'
      unfold suppressStep at ha
      split at ha
      · exact hk a ha c' (by simp [hc'])
      · rcases List.mem_append.1 ha with ha | ha
        · exact hk a ha c' (by simp [hc'])
        · simp only [List.mem_singleton] at ha; subst ha
          exact hR.1 c' hc'

theorem suppress_dominated (R : P → P → Prop) (order : List P) (hR : order.Pairwise R) :
    ∀ c ∈ order, c ∈ suppress near order ∨ ∃ a ∈ suppress near order, near a c = true ∧ R a c :=
  foldl_dominated near R order [] hR (by simp)

end Greedy

/-! ### list helpers -/

theorem eq_of_nodup_map {β γ : Type} (f : β → γ) (l : List β) (h : (l.map f).Nodup) (a b : β) (ha : a ∈ l) (hb : b ∈ l)
    (e : f a = f b) : a = b := by
  induction l with
  | nil => cases ha
  | cons x xs ih =>
    simp only [List.map_cons, List.nodup_cons, List.mem_map, not_exists, not_and] at h
    rcases List.mem_cons.1 ha with ha1 | ha1
    · rcases List.mem_cons.1 hb with hb1 | hb1
      · rw [ha1, hb1]
      · subst ha1; exact absurd e.symm (h.1 b hb1)
    · rcases List.mem_cons.1 hb with hb1 | hb1
      · subst hb1; exact absurd e (h.1 a ha1)
      · exact ih h.2 ha1 hb1

/-- in a list whose distinct members are pairwise related by a symmetric relation -/
theorem pairwise_forall_ne {β : Type} (R : β → β → Prop) (hs : ∀ a b, R a b → R b a) (l : List β) (h : l.Pairwise R)
    (a b : β) (ha : a ∈ l) (hb : b ∈ l) (hne : a ≠ b) : R a b := by
  induction l with
  | nil => cases ha
  | cons x xs ih =>
    rw [List.pairwise_cons] at h
    rcases List.mem_cons.1 ha with ha1 | ha1
    · rcases List.mem_cons.1 hb with hb1 | hb1
      · exact absurd (ha1.trans hb1.symm) hne
      · subst ha1; exact h.1 b hb1
    · rcases List.mem_cons.1 hb with hb1 | hb1
      · subst hb1; exact hs _ _ (h.1 a ha1)
      · exact ih h.2 ha1 hb1

section Dedup
variable {α : Type} [DecidableEq α]

theorem mem_dedup (l : List α) (a : α) : a ∈ dedup l ↔ a ∈ l := by
  induction l with
  | nil => simp [dedup]
  | cons x xs ih =>
    simp only [dedup]
    split
    · rename_i hx
      rw [ih, List.mem_cons]
      constructor
      · exact Or.inr
      · rintro (rfl | h)
        · exact (ih.1 hx)
        · exact h
    · simp [ih]

theorem nodup_dedup (l : List α) : (dedup l).Nodup := by
  induction l with
  | nil => simp [dedup]
  | cons x xs ih =>
    simp only [dedup]
    split
    · exact ih
    · rename_i hx
      exact List.nodup_cons.2 ⟨hx, ih⟩

variable [LE α] [DecidableLE α]

theorem mem_groupKeys (l : List α) (a : α) : a ∈ groupKeys l ↔ a ∈ l := by
  unfold groupKeys; rw [List.mem_mergeSort, mem_dedup]

theorem nodup_groupKeys (l : List α) : (groupKeys l).Nodup := by
  unfold groupKeys
  exact (List.mergeSort_perm _ _).nodup_iff.2 (nodup_dedup l)

end Dedup

/-- a duplicate-free list that contains `k` and only copies of `k` is `[k]` -/
theorem eq_singleton_of_nodup {β : Type} (l : List β) (k : β) (hn : l.Nodup) (hk : k ∈ l) (ha : ∀ a ∈ l, a = k) : l = [k] := by
  match l, hn, hk, ha with
  | [a], _, _, ha => rw [ha a (by simp)]
  | a :: b :: t, hn, _, ha =>
    have h1 := ha a (by simp); have h2 := ha b (by simp)
    subst h1; subst h2
    simp at hn

/-- filtering a concatenation over duplicate-free keys, when the piece of key `k'` survives the filter
entirely for `k' = k` and not at all otherwise -/
theorem filter_flatMap_key {β κ : Type} [DecidableEq κ] (keys : List κ) (F : κ → List β) (p : β → Bool) (k : κ)
    (hn : keys.Nodup) (hsame : (F k).filter p = F k) (hother : ∀ k' ∈ keys, k' ≠ k → (F k').filter p = []) :
    (keys.flatMap F).filter p = if k ∈ keys then F k else [] := by
  induction keys with
  | nil => simp
  | cons x xs ih =>
    rw [List.nodup_cons] at hn
    simp only [List.flatMap_cons, List.filter_append]
    by_cases hx : x = k
    · subst hx
      have hnot : x ∉ xs := hn.1
      rw [ih hn.2 (fun k' hk' hne => hother k' (by simp [hk']) hne)]
      simp [hsame, hnot]
    · rw [hother x (by simp) hx, ih hn.2 (fun k' hk' hne => hother k' (by simp [hk']) hne)]
      have : (k ∈ x :: xs) ↔ k ∈ xs := by
        simp only [List.mem_cons]; constructor
        · rintro (h | h); exact absurd h.symm hx; exact h
        · exact Or.inr
      simp [this]


/-! ### helpers of the checker -/

theorem all_congr_mem {β : Type} (l : List β) (f g : β → Bool) (h : ∀ a ∈ l, f a = g a) : l.all f = l.all g := by
  induction l with
  | nil => rfl
  | cons x xs ih =>
    simp only [List.all_cons]
    rw [h x (by simp), ih (fun a ha => h a (by simp [ha]))]

theorem any_congr_mem {β : Type} (l : List β) (f g : β → Bool) (h : ∀ a ∈ l, f a = g a) : l.any f = l.any g := by
  induction l with
  | nil => rfl
  | cons x xs ih =>
    simp only [List.any_cons]
    rw [h x (by simp), ih (fun a ha => h a (by simp [ha]))]


theorem nodupB_nodup (l : List Nat) (h : nodupB l = true) : l.Nodup := by
  induction l with
  | nil => exact List.nodup_nil
  | cons a t ih =>
    simp only [nodupB, Bool.and_eq_true, Bool.not_eq_eq_eq_not, Bool.not_true, List.contains_eq_mem,
      decide_eq_false_iff_not] at h
    exact List.nodup_cons.2 ⟨h.1, ih h.2⟩

theorem nodup_nodupB (l : List Nat) (h : l.Nodup) : nodupB l = true := by
  induction l with
  | nil => rfl
  | cons a t ih =>
    rw [List.nodup_cons] at h
    simp only [nodupB, Bool.and_eq_true, Bool.not_eq_eq_eq_not, Bool.not_true, List.contains_eq_mem,
      decide_eq_false_iff_not]
    exact ⟨h.1, ih h.2⟩

/-- the in-order test of the checker gives: what remains of every group is a sublist of the input -/
theorem groupsInOrder_sublist {α : Type} [DecidableEq α] (items out : List (Item α)) (h : groupsInOrder items out = true)
    (k : α) : (restrict k out).Sublist items := by
  by_cases hk : k ∈ out.map (·.grp)
  · unfold groupsInOrder at h
    rw [List.all_eq_true] at h
    exact List.isSublist_iff_sublist.1 (h k ((mem_dedup _ k).2 hk))
  · have : restrict k out = [] := by
      unfold restrict
      rw [List.filter_eq_nil_iff]
      intro it hit
      simp only [decide_eq_true_eq]
      intro e; exact hk (List.mem_map.2 ⟨it, hit, e⟩)
    rw [this]; exact List.nil_sublist _

theorem mem_restrict {α : Type} [DecidableEq α] (k : α) (l : List (Item α)) (a : Item α) :
    a ∈ restrict k l ↔ a ∈ l ∧ a.grp = k := by
  unfold restrict; simp [List.mem_filter]

/-! ### helpers of the completeness theorems -/

theorem nodup_of_map_nodup {β γ : Type} (f : β → γ) (l : List β) (h : (l.map f).Nodup) : l.Nodup := by
  rw [List.Nodup, List.pairwise_map] at h
  exact h.imp (fun hne e => hne (congrArg f e))

theorem nodup_map_on {β γ : Type} (f : β → γ) (l : List β) (d : l.Nodup)
    (H : ∀ x ∈ l, ∀ y ∈ l, f x = f y → x = y) : (l.map f).Nodup := by
  rw [List.Nodup, List.pairwise_map]
  exact (List.Pairwise.and_mem.1 d).imp (fun h e => h.2.2 (H _ h.1 _ h.2.1 e))

/-- a result whose every group is a sublist of a duplicate-free input has no duplicate either -/
theorem nodup_of_groups_sublist {α : Type} [DecidableEq α] (items out : List (Item α)) (hI : items.Nodup)
    (hR : ∀ k, (restrict k out).Sublist items) : out.Nodup := by
  rw [List.nodup_iff_count]
  intro a
  have h1 : List.count a (restrict a.grp out) = List.count a out := by
    unfold restrict
    exact List.count_filter (by simp)
  rw [← h1]
  exact Nat.le_trans ((hR a.grp).count_le a) (List.nodup_iff_count.1 hI a)

/-- converse of `groupsInOrder_sublist` -/
theorem groupsInOrder_of_sublist {α : Type} [DecidableEq α] (items out : List (Item α))
    (h : ∀ k, (restrict k out).Sublist items) : groupsInOrder items out = true := by
  unfold groupsInOrder
  rw [List.all_eq_true]
  intro k _
  exact List.isSublist_iff_sublist.2 (h k)

/-- `farPairs` is the Boolean form of `Pairwise` -/
theorem farPairs_iff {α : Type} (dn dd : Nat) (l : List (Peak α)) :
    farPairs dn dd l = true ↔
      l.Pairwise (fun p q => (dn : Int) * dn < vd2 p.x p.y p.z q.x q.y q.z * ((dd : Int) * dd)) := by
  induction l with
  | nil => simp [farPairs]
  | cons p t ih =>
    simp only [farPairs, Bool.and_eq_true, List.all_eq_true, decide_eq_true_eq, List.pairwise_cons, ih]

end CryoCat.C07
