import CryoCat.Lemmas.C02_NumWrite
import CryoCat.Lemmas.C02_ComRead
import CryoCat.Model.C02_Remove
/-! C02 — helper lemmas, hardening pass: integer typing of written columns, `remove_lines`, the full
`str.isspace` set. Core Lean only. -/
namespace CryoCat.C02

/-! ### integer tokens -/

theorem isIntTok_false_of_char (w : Word) (c : Char) (hc : c ∈ w) (hd : isDigit c = false) (hp : c ≠ '+') (hm : c ≠ '-') :
    isIntTok w = false := by
  have key : ∀ u : Word, c ∈ u → allDigits u = false := by
    intro u hu
    unfold allDigits
    have : u.all isDigit = false := by
      rw [Bool.eq_false_iff]; intro h
      have := List.all_eq_true.1 h c hu
      rw [hd] at this; cases this
    simp [this]
  unfold isIntTok
  cases w with
  | nil => cases hc
  | cons a r =>
    by_cases h1 : a = '+'
    · subst h1
      have : c ∈ r := by
        rcases List.mem_cons.1 hc with h | h
        · exact absurd h hp
        · exact h
      simpa [dropSign] using key r this
    · by_cases h2 : a = '-'
      · subst h2
        have : c ∈ r := by
          rcases List.mem_cons.1 hc with h | h
          · exact absurd h hm
          · exact h
        simpa [dropSign] using key r this
      · have : dropSign (a :: r) = a :: r := by
          unfold dropSign
          split
          · rename_i h; cases h; exact absurd rfl h1
          · rename_i h; cases h; exact absurd rfl h2
          · rfl
        rw [this]; exact key _ hc

theorem natDigits_allDigits (k : Nat) : allDigits (natDigits k) = true := by
  unfold allDigits
  have h1 := natDigits_ne k
  have h2 := all_of_allDigits (natDigits_all k)
  cases h : natDigits k with
  | nil => exact absurd h h1
  | cons a r => rw [h] at h2; simp [h2]

theorem natDigits_head_not_sign (k : Nat) : dropSign (natDigits k) = natDigits k := by
  have h1 := natDigits_ne k
  have h2 := natDigits_all k
  cases h : natDigits k with
  | nil => exact absurd h h1
  | cons a r =>
    rw [h] at h2
    exact dropSign_digit a r (Or.inl (h2 a (by simp)))

/-- `str(n)` of an integer is an integer token -/
theorem intStr_isInt (n : Int) : isIntTok (intStr n) = true := by
  unfold isIntTok
  cases n with
  | ofNat k => simp only [intStr]; rw [natDigits_head_not_sign]; exact natDigits_allDigits k
  | negSucc k => simp only [intStr, dropSign]; exact natDigits_allDigits (k + 1)

theorem floatBody_has_point (ds : Word) (decpt : Int) : '.' ∈ floatBody ds decpt ∨ 'e' ∈ floatBody ds decpt := by
  unfold floatBody
  split
  · right; simp
  · split
    · left; simp
    · split
      · left; simp
      · left; simp

/-- `repr` of a float (finite, infinite or NaN) is never an integer token: it holds a `.`, an `e`,
or letters -/
theorem floatStr_not_int (f : FloatVal) : isIntTok (floatStr f) = false := by
  cases f with
  | fin neg ds decpt =>
    simp only [floatStr, floatRepr]
    rcases floatBody_has_point ds decpt with h | h
    · exact isIntTok_false_of_char _ '.' (List.mem_append_right _ h) (by decide) (by decide) (by decide)
    · exact isIntTok_false_of_char _ 'e' (List.mem_append_right _ h) (by decide) (by decide) (by decide)
  | inf neg => exact isIntTok_false_of_char _ 'i' (by simp [floatStr]) (by decide) (by decide) (by decide)
  | nan => decide

/-- written from an integer (a text cell counts if it is itself an integer token) -/
def Cell.isInteger : Cell → Bool
  | .int _ => true
  | .flt _ => false
  | .txt w => isIntTok w

theorem cell_int_iff (c : Cell) : isIntTok (cellText c) = true ↔ c.isInteger = true := by
  cases c with
  | int n => simp [cellText, Cell.isInteger, intStr_isInt]
  | flt f => simp [cellText, Cell.isInteger, floatStr_not_int]
  | txt w => simp [cellText, Cell.isInteger]

/-- `typed_column` for any pair of a token test and the matching cell test -/
theorem typed_column_gen (p : Word → Bool) (q : Cell → Bool) (rows : List (List Cell)) (j : Nat) (hj : ∀ r ∈ rows, j < r.length)
    (hpq : ∀ r ∈ rows, ∀ c ∈ r, (p (cellText c) = true ↔ q c = true)) :
    colNumeric p (rows.map (fun r => r.map cellText)) j = true ↔
      rows ≠ [] ∧ ∀ r ∈ rows, ∀ c, r[j]? = some c → q c = true := by
  simp only [colNumeric, column, Bool.and_eq_true, Bool.not_eq_eq_eq_not, Bool.not_true, List.isEmpty_eq_false_iff,
    List.all_eq_true, List.mem_map, List.map_map, Function.comp]
  constructor
  · rintro ⟨hne, hall⟩
    refine ⟨by simpa using hne, ?_⟩
    intro r hr c hc
    have hlt := hj r hr
    have hget : r[j] = c := by
      have := List.getElem?_eq_getElem hlt
      rw [this] at hc; exact Option.some.inj hc
    have h1 := hall _ ⟨r, hr, rfl⟩
    have h2 : (r.map cellText).getD j [] = cellText c := by
      simp [List.getD_eq_getElem?_getD, List.getElem?_map, List.getElem?_eq_getElem hlt, hget]
    rw [h2] at h1
    exact (hpq r hr c (hget ▸ List.getElem_mem hlt)).1 h1
  · rintro ⟨hne, hall⟩
    refine ⟨by simpa using hne, ?_⟩
    rintro w ⟨r, hr, rfl⟩
    have hlt := hj r hr
    have h2 : (r.map cellText).getD j [] = cellText r[j] := by
      simp [List.getD_eq_getElem?_getD, List.getElem?_map, List.getElem?_eq_getElem hlt]
    rw [h2]
    exact (hpq r hr _ (List.getElem_mem hlt)).2 (hall r hr _ (List.getElem?_eq_getElem hlt))

/-! ### `remove_lines` -/

theorem dropRowsGo_sublist {α : Type} (idx : List Nat) : ∀ (i : Nat) (rows : List α), (dropRowsGo idx i rows).Sublist rows
  | _, [] => by simp [dropRowsGo]
  | i, r :: rs => by
    unfold dropRowsGo
    split
    · exact (dropRowsGo_sublist idx (i + 1) rs).cons _
    · exact (dropRowsGo_sublist idx (i + 1) rs).cons_cons _

theorem dropRows_sublist {α : Type} (idx : List Nat) (rows : List α) : (dropRows idx rows).Sublist rows :=
  dropRowsGo_sublist idx 0 rows

theorem dropRowsGo_nil {α : Type} : ∀ (i : Nat) (rows : List α), dropRowsGo [] i rows = rows
  | _, [] => rfl
  | i, r :: rs => by simp [dropRowsGo, dropRowsGo_nil (i + 1) rs]

/-- which rows stay: exactly those at positions not listed -/
theorem dropRowsGo_mem {α : Type} (idx : List Nat) : ∀ (i : Nat) (rows : List α) (x : α),
    x ∈ dropRowsGo idx i rows ↔ ∃ k, rows[k]? = some x ∧ (i + k) ∉ idx
  | _, [], x => by simp [dropRowsGo]
  | i, r :: rs, x => by
    unfold dropRowsGo
    have ih := dropRowsGo_mem idx (i + 1) rs x
    split
    · rename_i hc
      rw [ih]
      constructor
      · rintro ⟨k, hk, hn⟩
        exact ⟨k + 1, by simpa using hk, by rw [show i + (k + 1) = i + 1 + k by omega]; exact hn⟩
      · rintro ⟨k, hk, hn⟩
        cases k with
        | zero => exact absurd (by simpa using hc) hn
        | succ k => exact ⟨k, by simpa using hk, by rw [show i + 1 + k = i + (k + 1) by omega]; exact hn⟩
    · rename_i hc
      rw [List.mem_cons, ih]
      constructor
      · rintro (rfl | ⟨k, hk, hn⟩)
        · exact ⟨0, by simp, by simpa using hc⟩
        · exact ⟨k + 1, by simpa using hk, by rw [show i + (k + 1) = i + 1 + k by omega]; exact hn⟩
      · rintro ⟨k, hk, hn⟩
        cases k with
        | zero => left; simpa using hk.symm
        | succ k => right; exact ⟨k, by simpa using hk, by rw [show i + 1 + k = i + (k + 1) by omega]; exact hn⟩

theorem dropAt_ok : ∀ (bs : List Block) (k : Nat) (idx : List Nat), (∀ b ∈ bs, BlockOk b) → ∀ b ∈ dropAt bs k idx, BlockOk b
  | [], _, _, _ => by simp [dropAt]
  | b :: bs, 0, idx, h => by
    intro b' hb'
    simp only [dropAt, List.mem_cons] at hb'
    rcases hb' with rfl | hb'
    · obtain ⟨h1, h2, h3, h4⟩ := h b (by simp)
      exact ⟨h1, h2, h3, fun r hr => h4 r ((dropRows_sublist idx b.rows).subset hr)⟩
    · exact h b' (by simp [hb'])
  | b :: bs, k + 1, idx, h => by
    intro b' hb'
    simp only [dropAt, List.mem_cons] at hb'
    rcases hb' with rfl | hb'
    · exact h _ (by simp)
    · exact dropAt_ok bs k idx (fun x hx => h x (by simp [hx])) b' hb'

theorem dropAt_length : ∀ (bs : List Block) (k : Nat) (idx : List Nat), (dropAt bs k idx).length = bs.length
  | [], _, _ => rfl
  | _ :: _, 0, _ => rfl
  | _ :: bs, k + 1, idx => by simp [dropAt, dropAt_length bs k idx]

/-! ### `removeLines` (what the driver executes) in terms of `dropAt` -/

/-- the block `remove_lines` works on: block 0, or the first block called `data_specifier` -/
def removeTarget (bcs : List (Block × List Comment)) (spec : Option Word) : Option Nat :=
  match spec with
  | none => some 0
  | some s => specifierId ((blocksOf bcs).map Block.name) s

theorem blocksOf_length (bcs : List (Block × List Comment)) : (blocksOf bcs).length = bcs.length := by simp [blocksOf]
theorem comsOf_length (bcs : List (Block × List Comment)) : (comsOf bcs).length = bcs.length := by simp [comsOf]

/-- `removeLines` spelled out: every outcome of the function the driver runs -/
theorem removeLines_cases (txt : List Char) (idx : List Nat) (spec : Option Word) (nc : Bool) :
    (∀ e, readStarC txt = .error e → removeLines txt idx spec nc = .error (.sel (.parse e))) ∧
    (∀ bcs, readStarC txt = .ok bcs → removeTarget bcs spec = none → removeLines txt idx spec nc = .error .notFound) ∧
    (∀ bcs k, readStarC txt = .ok bcs → removeTarget bcs spec = some k → ∀ hk : k < bcs.length,
      ((∀ i ∈ idx, i < bcs[k].1.rows.length) →
        removeLines txt idx spec nc = .ok (printAllC nc (comsOf bcs) (dropAt (blocksOf bcs) k idx)) ∧
        printStarC nc (comsOf bcs) (dropAt (blocksOf bcs) k idx) = some (printAllC nc (comsOf bcs) (dropAt (blocksOf bcs) k idx))) ∧
      (¬ (∀ i ∈ idx, i < bcs[k].1.rows.length) → removeLines txt idx spec nc = .error .rowIndex)) := by
  refine ⟨?_, ?_, ?_⟩
  · intro e he
    unfold removeLines; simp [he]
  · intro bcs hb ht
    unfold removeLines
    cases spec with
    | none => simp [removeTarget] at ht
    | some sp => simp only [removeTarget] at ht; simp [hb, ht]
  · intro bcs k hb ht hk
    have hlen : (comsOf bcs).length = (dropAt (blocksOf bcs) k idx).length := by
      rw [dropAt_length, comsOf_length, blocksOf_length]
    have hp : printStarC nc (comsOf bcs) (dropAt (blocksOf bcs) k idx) = some (printAllC nc (comsOf bcs) (dropAt (blocksOf bcs) k idx)) := by
      unfold printStarC; simp [hlen]
    have key : removeLines txt idx spec nc =
        if idx.all (fun x => decide (x < bcs[k].1.rows.length)) = true then
          .ok (printAllC nc (comsOf bcs) (dropAt (blocksOf bcs) k idx)) else .error .rowIndex := by
      unfold removeLines
      cases spec with
      | none =>
        simp only [removeTarget, Option.some.injEq] at ht
        subst ht
        simp only [hb, List.getElem?_eq_getElem hk, hp]

      | some sp =>
        simp only [removeTarget] at ht
        simp only [hb, ht, List.getElem?_eq_getElem hk, hp]

    constructor
    · intro hi
      refine ⟨?_, hp⟩
      have : idx.all (fun x => decide (x < bcs[k].1.rows.length)) = true := by
        rw [List.all_eq_true]; intro i hi'; simpa using hi i hi'
      rw [key, if_pos this]
    · intro hi
      have : ¬ idx.all (fun x => decide (x < bcs[k].1.rows.length)) = true := by
        intro h
        apply hi
        intro i hi'
        simpa using (List.all_eq_true.1 h) i hi'
      rw [key, if_neg this]

end CryoCat.C02
