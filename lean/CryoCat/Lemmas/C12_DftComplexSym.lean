import CryoCat.Lemmas.C12_DftComplex
import CryoCat.Lemmas.C12_DftShift3
import Mathlib.Tactic.Ring
import Mathlib.Tactic.NormNum
/-! C12 — over ℂ, with numpy's twiddles `exp(-2πi/n)`, complex conjugation and `np.real`: the shift theorem, the
Hermitian symmetry of the spectrum of a real map, and `Re ∘ ifftn = ifftn ∘ (Hermitian part)` hold for the model's
exact complex DFT of every box — no hypothesis left. -/
namespace CryoCat.C12
open Complex

/-- the exact complex DFT of the box `d` (numpy's `fftn`) and its inverse (`ifftn`) — abbreviations of the model's
`dft3 / idft3` with the twiddles `omegaC` -/
noncomputable abbrev dftC (d : Dims) : (Idx → ℂ) → (Idx → ℂ) :=
  dft3 d (fun m => omegaC d.nx ^ m) (fun m => omegaC d.ny ^ m) (fun m => omegaC d.nz ^ m)
noncomputable abbrev idftC (d : Dims) : (Idx → ℂ) → (Idx → ℂ) :=
  idft3 d (fun m => omegaC d.nx ^ m) (fun m => omegaC d.ny ^ m) (fun m => omegaC d.nz ^ m) (d.nx : ℂ)⁻¹ (d.ny : ℂ)⁻¹ (d.nz : ℂ)⁻¹

/-- the phase of numpy's shift theorem, `exp(2πi (s·k)/n)` per axis -/
noncomputable abbrev phaseC (d : Dims) (s k : Idx) : ℂ := phase3 d (omegaC d.nx) (omegaC d.ny) (omegaC d.nz) s k

theorem dftC_transform (d : Dims) (hd : 0 < d.nx ∧ 0 < d.ny ∧ 0 < d.nz) : Transform ℝ (dftC d) (idftC d) reC :=
  dft3_transform_complex d hd

/-- a root of unity is conjugated to its inverse -/
theorem omegaC_conj (n : Nat) : (starRingEnd ℂ) (omegaC n) = (omegaC n)⁻¹ := by
  unfold omegaC
  rw [map_inv₀, ← Complex.exp_conj, inv_inv, ← Complex.exp_neg]
  congr 1
  simp only [map_div₀, map_mul, Complex.conj_ofReal, Complex.conj_I, map_natCast, map_ofNat]
  ring

theorem reC_half (c : ℂ) : reC c = (1 / 2 : ℝ) • (c + (starRingEnd ℂ) c) := by
  unfold reC
  apply Complex.ext <;> simp
  ring

theorem conj_real_smul (a : ℝ) (c : ℂ) : (starRingEnd ℂ) (a • c) = a • (starRingEnd ℂ) c := by
  rw [Complex.real_smul, Complex.real_smul, map_mul, Complex.conj_ofReal]

/-- **shift theorem over ℂ** -/
theorem dftC_roll (d : Dims) (hd : 0 < d.nx ∧ 0 < d.ny ∧ 0 < d.nz) (s : Idx) (x : Idx → ℂ) (k : Idx) :
    dftC d (fun i => x (rollIdx d s i)) k = phaseC d s k * dftC d x k :=
  dft3_roll (omegaC_root _ hd.1) (omegaC_root _ hd.2.1) (omegaC_root _ hd.2.2) s x k

/-- **conjugation theorem over ℂ** -/
theorem dftC_conj (d : Dims) (hd : 0 < d.nx ∧ 0 < d.ny ∧ 0 < d.nz) (x : Idx → ℂ) (k : Idx) :
    dftC d (fun i => (starRingEnd ℂ) (x i)) (negBoxIdx d k) = (starRingEnd ℂ) (dftC d x k) :=
  dft3_conj (starRingEnd ℂ) (omegaC_root _ hd.1) (omegaC_root _ hd.2.1) (omegaC_root _ hd.2.2)
    (omegaC_conj _) (omegaC_conj _) (omegaC_conj _) x k

/-- **Hermitian symmetry over ℂ**: the spectrum of a real map -/
theorem dftC_hermitian (d : Dims) (hd : 0 < d.nx ∧ 0 < d.ny ∧ 0 < d.nz) (x : Idx → ℂ) (hx : ∀ i, (x i).im = 0) (k : Idx) :
    dftC d x (negBoxIdx d k) = (starRingEnd ℂ) (dftC d x k) :=
  dft3_hermitian (starRingEnd ℂ) (omegaC_root _ hd.1) (omegaC_root _ hd.2.1) (omegaC_root _ hd.2.2)
    (omegaC_conj _) (omegaC_conj _) (omegaC_conj _) x (fun i => Complex.conj_eq_iff_im.2 (hx i)) k

/-- conjugation theorem for `ifftn` -/
theorem idftC_conj (d : Dims) (hd : 0 < d.nx ∧ 0 < d.ny ∧ 0 < d.nz) (y : Idx → ℂ) :
    idftC d (fun k => (starRingEnd ℂ) (y (negBoxIdx d k))) = fun i => (starRingEnd ℂ) (idftC d y i) :=
  inv_conj_of_fwd (dftC_transform d hd).left_inv (dftC_transform d hd).right_inv (starRingEnd ℂ) (negBoxIdx d)
    (negBoxIdx_invol d) (fun x k => dftC_conj d hd x k) y

/-- **`np.real(ifftn(Y)) = ifftn(Hermitian part of Y)`** -/
theorem idftC_re (d : Dims) (hd : 0 < d.nx ∧ 0 < d.ny ∧ 0 < d.nz) (y : Idx → ℂ) (i : Idx) :
    reC (idftC d y i) = idftC d (fun k => (1 / 2 : ℝ) • (y k + (starRingEnd ℂ) (y (negBoxIdx d k)))) i := by
  have T := dftC_transform d hd
  have e : (fun k => (1 / 2 : ℝ) • (y k + (starRingEnd ℂ) (y (negBoxIdx d k))))
      = (1 / 2 : ℝ) • (y + fun k => (starRingEnd ℂ) (y (negBoxIdx d k))) := rfl
  rw [e, T.Finv_smul, T.Finv_add, idftC_conj d hd y, reC_half]
  rfl

/-- the inverse transform of a Hermitian spectrum is real -/
theorem idftC_real_of_hermitian (d : Dims) (hd : 0 < d.nx ∧ 0 < d.ny ∧ 0 < d.nz) (y : Idx → ℂ)
    (hy : ∀ k, y (negBoxIdx d k) = (starRingEnd ℂ) (y k)) (i : Idx) : reC (idftC d y i) = idftC d y i := by
  rw [idftC_re d hd y i]
  congr 1
  funext k
  rw [hy, Complex.conj_conj, ← two_smul ℝ (y k), smul_smul]
  norm_num

end CryoCat.C12
