import CryoCat.Model.C08
import Mathlib.Algebra.Order.Ring.Defs
import Mathlib.Tactic.Linarith
/-! C08 — lemmas about the merging loop (`mergeBlocks`) and `renumber_particles` (`numberFrom`). -/
namespace CryoCat.C08
open CryoCat Gen.C08

/-! ### Part 1: ordered commutative ring -/
section ordered
set_option linter.unusedSectionVars false
variable {α : Type} [CommRing α] [LinearOrder α] [IsStrictOrderedRing α]

theorem objMin_le (d : α) (l : Motl α) :
    objMin d l ≤ d ∧ ∀ p ∈ l, objMin d l ≤ p.object_id := by
  induction l generalizing d with
  | nil => simp [objMin]
  | cons a l ih =>
    have h := ih (if a.object_id < d then a.object_id else d)
    simp only [objMin, List.foldl_cons] at h ⊢
    obtain ⟨h1, h2⟩ := h
    have hd : (if a.object_id < d then a.object_id else d) ≤ d := by
      split
      · exact le_of_lt ‹_›
      · exact le_refl _
    have ha : (if a.object_id < d then a.object_id else d) ≤ a.object_id := by
      split
      · exact le_refl _
      · exact le_of_not_gt ‹_›
    refine ⟨le_trans h1 hd, ?_⟩
    intro p hp
    rcases List.mem_cons.mp hp with rfl | hp
    · exact le_trans h1 ha
    · exact h2 p hp

theorem le_objMax (d : α) (l : Motl α) :
    d ≤ objMax d l ∧ ∀ p ∈ l, p.object_id ≤ objMax d l := by
  induction l generalizing d with
  | nil => simp [objMax]
  | cons a l ih =>
    have h := ih (if d < a.object_id then a.object_id else d)
    simp only [objMax, List.foldl_cons] at h ⊢
    obtain ⟨h1, h2⟩ := h
    have hd : d ≤ (if d < a.object_id then a.object_id else d) := by
      split
      · exact le_of_lt ‹_›
      · exact le_refl _
    have ha : a.object_id ≤ (if d < a.object_id then a.object_id else d) := by
      split
      · exact le_refl _
      · exact le_of_not_gt ‹_›
    refine ⟨le_trans hd h1, ?_⟩
    intro p hp
    rcases List.mem_cons.mp hp with rfl | hp
    · exact le_trans ha h1
    · exact h2 p hp

theorem cmp_le_test (a b : α) : Cmp.test Cmp.le a b = true ↔ a ≤ b := by
  simp [Cmp.test, le_iff_lt_or_eq]

theorem mem_shiftObj {c : α} {l : Motl α} {q : Particle α} :
    q ∈ shiftObj c l ↔ ∃ p ∈ l, q = p.set .object_id (p.object_id + c) := by
  simp only [shiftObj, List.mem_map]
  constructor
  · rintro ⟨p, hp, rfl⟩; exact ⟨p, hp, rfl⟩
  · rintro ⟨p, hp, rfl⟩; exact ⟨p, hp, rfl⟩

theorem shiftObj_zero (m : Motl α) : shiftObj (0 : α) m = m := by
  unfold shiftObj
  conv => rhs; rw [← List.map_id m]
  apply List.map_congr_left
  intro p _
  cases p
  simp [Particle.set]

/-- rows of the head block after shifting are above the running value -/
theorem head_shift_above (add : α) (p : Particle α) (m : Motl α)
    (h : objMin p.object_id m ≤ add) :
    ∀ q ∈ shiftObj (add - objMin p.object_id m + 1) (p :: m), add < q.object_id := by
  intro q hq
  obtain ⟨p', hp', rfl⟩ := mem_shiftObj.mp hq
  have hmn : objMin p.object_id m ≤ p'.object_id := by
    rcases List.mem_cons.mp hp' with rfl | hp'
    · exact (objMin_le _ m).1
    · exact (objMin_le _ m).2 _ hp'
  show add < p'.object_id + (add - objMin p.object_id m + 1)
  linarith

theorem head_shift_le_max (c : α) (p : Particle α) (m : Motl α) :
    ∀ q ∈ shiftObj c (p :: m), q.object_id ≤ objMax (p.object_id + c) (shiftObj c m) := by
  intro q hq
  have hq' : q ∈ p.set .object_id (p.object_id + c) :: shiftObj c m := hq
  rcases List.mem_cons.mp hq' with rfl | hq'
  · exact (le_objMax _ _).1
  · exact (le_objMax _ _).2 _ hq'

theorem head_noshift_above (add : α) (p : Particle α) (m : Motl α)
    (h : ¬ objMin p.object_id m ≤ add) : ∀ q ∈ p :: m, add < q.object_id := by
  intro q hq
  have hmn : objMin p.object_id m ≤ q.object_id := by
    rcases List.mem_cons.mp hq with rfl | hq
    · exact (objMin_le _ m).1
    · exact (objMin_le _ m).2 _ hq
  exact lt_of_lt_of_le (lt_of_not_ge h) hmn

theorem head_le_max (p : Particle α) (m : Motl α) :
    ∀ q ∈ p :: m, q.object_id ≤ objMax p.object_id m := by
  intro q hq
  rcases List.mem_cons.mp hq with rfl | hq
  · exact (le_objMax _ _).1
  · exact (le_objMax _ _).2 _ hq

theorem mergeBlocks_inv (add : α) (ls : List (Motl α)) :
    (∀ b ∈ mergeBlocks Cmp.le add ls, ∀ p ∈ b, add < p.object_id) ∧
    (mergeBlocks Cmp.le add ls).Pairwise
      (fun b c => ∀ p ∈ b, ∀ q ∈ c, p.object_id < q.object_id) := by
  induction ls generalizing add with
  | nil => simp [mergeBlocks]
  | cons l ms ih =>
    cases l with
    | nil => rw [mergeBlocks]; exact ih add
    | cons p m =>
      rw [mergeBlocks]
      by_cases h : objMin p.object_id m ≤ add
      · have ht : Cmp.test Cmp.le (objMin p.object_id m) add = true := (cmp_le_test _ _).mpr h
        simp only [ht, if_true]
        have hA := head_shift_above add p m h
        have hM := head_shift_le_max (add - objMin p.object_id m + 1) p m
        obtain ⟨i1, i2⟩ := ih (objMax (p.object_id + (add - objMin p.object_id m + 1))
          (shiftObj (add - objMin p.object_id m + 1) m))
        have hadd : add < objMax (p.object_id + (add - objMin p.object_id m + 1))
            (shiftObj (add - objMin p.object_id m + 1) m) := by
          have hp : p.set .object_id (p.object_id + (add - objMin p.object_id m + 1)) ∈
              shiftObj (add - objMin p.object_id m + 1) (p :: m) := List.mem_cons_self
          exact lt_of_lt_of_le (hA _ hp) (hM _ hp)
        refine ⟨?_, ?_⟩
        · intro b hb
          rcases List.mem_cons.mp hb with rfl | hb
          · exact hA
          · intro q hq; exact lt_trans hadd (i1 b hb q hq)
        · refine List.pairwise_cons.mpr ⟨?_, i2⟩
          intro c hc q hq r hr
          exact lt_of_le_of_lt (hM q hq) (i1 c hc r hr)
      · have ht : ¬ Cmp.test Cmp.le (objMin p.object_id m) add = true :=
          fun h' => h ((cmp_le_test _ _).mp h')
        simp only [ht]
        have hA := head_noshift_above add p m h
        have hM := head_le_max p m
        obtain ⟨i1, i2⟩ := ih (objMax p.object_id m)
        have hadd : add < objMax p.object_id m :=
          lt_of_lt_of_le (hA p List.mem_cons_self) (hM p List.mem_cons_self)
        refine ⟨?_, ?_⟩
        · intro b hb
          rcases List.mem_cons.mp hb with rfl | hb
          · exact hA
          · intro q hq; exact lt_trans hadd (i1 b hb q hq)
        · refine List.pairwise_cons.mpr ⟨?_, i2⟩
          intro c hc q hq r hr
          exact lt_of_le_of_lt (hM q hq) (i1 c hc r hr)

theorem mergeBlocks_above (add : α) (ls : List (Motl α)) :
    ∀ b ∈ mergeBlocks Cmp.le add ls, ∀ p ∈ b, add < p.object_id :=
  (mergeBlocks_inv add ls).1

theorem mergeBlocks_increasing (add : α) (ls : List (Motl α)) :
    (mergeBlocks Cmp.le add ls).Pairwise
      (fun b c => ∀ p ∈ b, ∀ q ∈ c, p.object_id < q.object_id) :=
  (mergeBlocks_inv add ls).2

theorem mergeBlocks_offsets (add : α) (ls : List (Motl α)) :
    List.Forall₂ (fun m b => ∃ c : α, b = shiftObj c m)
      (ls.filter (fun m => !m.isEmpty)) (mergeBlocks Cmp.le add ls) := by
  induction ls generalizing add with
  | nil => simp [mergeBlocks]
  | cons l ms ih =>
    cases l with
    | nil =>
      rw [mergeBlocks]
      simpa using ih add
    | cons p m =>
      rw [mergeBlocks]
      have hf : ((p :: m) :: ms).filter (fun m => !m.isEmpty)
          = (p :: m) :: ms.filter (fun m => !m.isEmpty) := by simp
      rw [hf]
      split
      · exact List.Forall₂.cons ⟨_, rfl⟩ (ih _)
      · exact List.Forall₂.cons ⟨0, (shiftObj_zero _).symm⟩ (ih _)

end ordered

/-! ### Part 2: no algebra needed -/
section plain
variable {α : Type}

section blocks
variable [BEq α] [LT α] [DecidableLT α] [Add α] [Sub α] [OfNat α 1]

theorem mergeBlocks_ne_nil (cmp : Cmp) (add : α) (ls : List (Motl α)) :
    ∀ b ∈ mergeBlocks cmp add ls, b ≠ [] := by
  induction ls generalizing add with
  | nil => simp [mergeBlocks]
  | cons l ms ih =>
    cases l with
    | nil => rw [mergeBlocks]; exact ih add
    | cons p m =>
      rw [mergeBlocks]
      intro b hb
      split at hb
      · rcases List.mem_cons.mp hb with rfl | hb
        · simp [shiftObj]
        · exact ih _ b hb
      · rcases List.mem_cons.mp hb with rfl | hb
        · simp
        · exact ih _ b hb

theorem mergeBlocks_rows (cmp : Cmp) (add : α) (ls : List (Motl α)) :
    ∀ b ∈ mergeBlocks cmp add ls, ∀ q ∈ b, ∃ m ∈ ls, ∃ p ∈ m,
      ∀ f : Field, f ≠ Field.object_id → q.get f = p.get f := by
  induction ls generalizing add with
  | nil => simp [mergeBlocks]
  | cons l ms ih =>
    cases l with
    | nil =>
      rw [mergeBlocks]
      intro b hb q hq
      obtain ⟨m, hm, r⟩ := ih add b hb q hq
      exact ⟨m, List.mem_cons_of_mem _ hm, r⟩
    | cons p m =>
      rw [mergeBlocks]
      intro b hb q hq
      have tail : ∀ add', b ∈ mergeBlocks cmp add' ms → ∃ m' ∈ (p :: m) :: ms, ∃ p' ∈ m',
          ∀ f : Field, f ≠ Field.object_id → q.get f = p'.get f := by
        intro add' hb'
        obtain ⟨m', hm', r⟩ := ih add' b hb' q hq
        exact ⟨m', List.mem_cons_of_mem _ hm', r⟩
      split at hb
      · rcases List.mem_cons.mp hb with rfl | hb
        · simp only [shiftObj, List.mem_map] at hq
          obtain ⟨p', hp', rfl⟩ := hq
          exact ⟨p :: m, List.mem_cons_self, p', hp',
            fun f hf => Particle.get_set_other _ _ _ _ hf⟩
        · exact tail _ hb
      · rcases List.mem_cons.mp hb with rfl | hb
        · exact ⟨p :: m, List.mem_cons_self, q, hq, fun _ _ => rfl⟩
        · exact tail _ hb

theorem mergeBlocks_length (cmp : Cmp) (add : α) (ls : List (Motl α)) :
    (mergeBlocks cmp add ls).flatten.length = ls.flatten.length := by
  induction ls generalizing add with
  | nil => simp [mergeBlocks]
  | cons l ms ih =>
    cases l with
    | nil => rw [mergeBlocks]; simpa using ih add
    | cons p m =>
      rw [mergeBlocks]
      split
      · simp only [List.flatten_cons, List.length_append, ih, shiftObj, List.length_map]
      · simp only [List.flatten_cons, List.length_append, ih]

end blocks

theorem numberFrom_length (nat : Nat → α) (k : Nat) (l : Motl α) :
    (numberFrom nat k l).length = l.length := by
  induction l generalizing k with
  | nil => simp [numberFrom]
  | cons p l ih => simp [numberFrom, ih]

theorem numberFrom_ids (nat : Nat → α) (k : Nat) (l : Motl α) :
    (numberFrom nat k l).map (·.subtomo_id) = (List.range l.length).map (fun i => nat (k + i)) := by
  induction l generalizing k with
  | nil => simp [numberFrom]
  | cons p l ih =>
    simp only [numberFrom, List.map_cons, List.length_cons, List.range_succ_eq_map, ih,
      List.map_map]
    refine congrArg₂ _ rfl ?_
    apply List.map_congr_left
    intro i _
    simp only [Function.comp]
    congr 1
    omega

theorem numberFrom_others (nat : Nat → α) (k : Nat) (l : Motl α) :
    List.Forall₂ (fun p q => ∀ f : Field, f ≠ Field.subtomo_id → q.get f = p.get f)
      l (numberFrom nat k l) := by
  induction l generalizing k with
  | nil => simp [numberFrom]
  | cons p l ih =>
    rw [numberFrom]
    exact List.Forall₂.cons (fun f hf => Particle.get_set_other _ _ _ _ hf) (ih _)

theorem numberFrom_rows (nat : Nat → α) (k : Nat) (l : Motl α) :
    ∀ q ∈ numberFrom nat k l, ∃ p ∈ l,
      ∀ f : Field, f ≠ Field.subtomo_id → q.get f = p.get f := by
  induction l generalizing k with
  | nil => simp [numberFrom]
  | cons p l ih =>
    rw [numberFrom]
    intro q hq
    rcases List.mem_cons.mp hq with rfl | hq
    · exact ⟨p, List.mem_cons_self, fun f hf => Particle.get_set_other _ _ _ _ hf⟩
    · obtain ⟨p', hp', r⟩ := ih _ q hq
      exact ⟨p', List.mem_cons_of_mem _ hp', r⟩

end plain
end CryoCat.C08
