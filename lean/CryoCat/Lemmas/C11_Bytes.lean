import CryoCat.Model.C11_Bytes
import CryoCat.Lemmas.C11
/-! C11 — helper lemmas for the byte-level container model (core Lean only). -/
namespace CryoCat.C11

/-! ### numbers as bytes -/

theorem length_leBytes (w n : Nat) : (leBytes w n).length = w := by
  induction w generalizing n with
  | zero => rfl
  | succ w ih => simp [leBytes, ih]

theorem ofLe_leBytes (w n : Nat) (h : n < 256 ^ w) : ofLe (leBytes w n) = n := by
  induction w generalizing n with
  | zero => simp at h; subst h; rfl
  | succ w ih =>
    have h' : n / 256 < 256 ^ w := by
      apply Nat.div_lt_of_lt_mul
      rw [Nat.pow_succ, Nat.mul_comm] at h; exact h
    simp only [leBytes, ofLe, ih _ h', UInt8.toNat_ofNat']
    omega

theorem length_wordBytes (be : Bool) (w n : Nat) : (wordBytes be w n).length = w := by
  cases be <;> simp [wordBytes, length_leBytes]

theorem wordOf_wordBytes (be : Bool) (w n : Nat) (h : n < 256 ^ w) : wordOf be (wordBytes be w n) = n := by
  cases be <;> simp [wordOf, wordBytes, ofLe_leBytes w n h]

/-! ### payload -/

theorem length_encodeWords (be : Bool) (w : Nat) (ws : List Nat) : (encodeWords be w ws).length = ws.length * w := by
  induction ws with
  | nil => simp [encodeWords]
  | cons x xs ih =>
    simp only [encodeWords, List.flatMap_cons, List.length_append, length_wordBytes, List.length_cons] at ih ⊢
    rw [ih, Nat.succ_mul, Nat.add_comm]

/-- the bytes of voxel number `m` sit at `m*w .. m*w+w` of the payload -/
theorem encodeWords_chunk (be : Bool) (w : Nat) (ws : List Nat) (m : Nat) (hm : m < ws.length) :
    ((encodeWords be w ws).drop (m * w)).take w = wordBytes be w ws[m] := by
  induction ws generalizing m with
  | nil => simp at hm
  | cons x xs ih =>
    simp only [encodeWords, List.flatMap_cons] at ih ⊢
    cases m with
    | zero =>
      simp only [Nat.zero_mul, List.drop_zero, List.getElem_cons_zero]
      exact List.take_left' (length_wordBytes be w x)
    | succ m =>
      have hl := length_wordBytes be w x
      have hm' : m < xs.length := by simpa using hm
      have e : (m + 1) * w = (wordBytes be w x).length + m * w := by rw [hl, Nat.succ_mul, Nat.add_comm]
      rw [e, List.drop_length_add_append]
      simpa using ih m hm'

theorem decodeWords_append (be : Bool) (w : Nat) (hdr : List UInt8) (ws : List Nat) (hw : ∀ x ∈ ws, x < 256 ^ w) :
    decodeWords be w ws.length (hdr ++ encodeWords be w ws).toArray hdr.length = ws := by
  apply List.ext_getElem
  · simp [decodeWords]
  · intro i h1 h2
    simp only [decodeWords, List.getElem_map, List.getElem_range, Array.toList_extract, List.extract_eq_drop_take']
    have e : hdr.length + i * w + w - (hdr.length + i * w) = w := by omega
    rw [List.drop_take, e, List.drop_length_add_append, encodeWords_chunk be w ws i h2,
      wordOf_wordBytes be w _ (hw _ (List.getElem_mem h2))]

/-! ### headers -/

theorem byteAt_hdr (n : Nat) (f : Nat → UInt8) (p : List UInt8) (i : Nat) (h : i < n) :
    byteAt ((List.range n).map f ++ p).toArray i = f i := by
  simp only [byteAt, Array.getD, List.size_toArray, List.length_append, List.length_map, List.length_range]
  rw [dif_pos (by omega)]
  simp [List.getElem_append_left, h]

theorem size_hdr (n : Nat) (f : Nat → UInt8) (p : List UInt8) : ((List.range n).map f ++ p).toArray.size = n + p.length := by
  simp

/-- four header bytes holding `v` in the file's byte order decode to `v` -/
theorem wordOf_field (be : Bool) (off v : Nat) (hv : v < 2 ^ 32) :
    wordOf be [fieldByte be off v off, fieldByte be off v (off + 1), fieldByte be off v (off + 2), fieldByte be off v (off + 3)] = v := by
  have e1 : off + 1 - off = 1 := by omega
  have e2 : off + 2 - off = 2 := by omega
  have e3 : off + 3 - off = 3 := by omega
  cases be <;>
    simp only [fieldByte, wordBytes, leBytes, wordOf, ofLe, Nat.sub_self, e1, e2, e3, List.reverse_cons, List.reverse_nil,
      List.nil_append, List.cons_append, List.getD_cons_zero, List.getD_cons_succ, UInt8.toNat_ofNat', if_true, if_false,
      Bool.false_eq_true] <;> omega

theorem i32At_hdr (be : Bool) (n : Nat) (f : Nat → UInt8) (p : List UInt8) (off v : Nat) (hv : v < 2 ^ 32) (ho : off + 3 < n)
    (h0 : f off = fieldByte be off v off) (h1 : f (off + 1) = fieldByte be off v (off + 1))
    (h2 : f (off + 2) = fieldByte be off v (off + 2)) (h3 : f (off + 3) = fieldByte be off v (off + 3)) :
    i32At be ((List.range n).map f ++ p).toArray off = v := by
  unfold i32At
  rw [byteAt_hdr n f p off (by omega), byteAt_hdr n f p (off + 1) (by omega), byteAt_hdr n f p (off + 2) (by omega),
    byteAt_hdr n f p (off + 3) (by omega), h0, h1, h2, h3]
  exact wordOf_field be off v hv

theorem fieldByte_zero (be : Bool) (off i : Nat) : fieldByte be off 0 i = 0 := by
  have : ∀ (k : Nat), ([0, 0, 0, 0] : List UInt8).getD k 0 = 0 := by
    intro k
    match k with
    | 0 | 1 | 2 | 3 => rfl
    | k + 4 => rfl
  cases be <;> simpa [fieldByte, wordBytes, leBytes] using this (i - off)

theorem mrcMode_roundtrip (c : Code) (h : c.mrcMode? ≠ none) : Code.ofMrcMode? (c.mrcMode?.getD 0) = some c := by
  cases c <;> simp_all [Code.mrcMode?, Code.ofMrcMode?]

theorem emType_roundtrip (c : Code) (h : c.emType? ≠ none) : Code.ofEmType? (c.emType?.getD 0) = some c := by
  cases c <;> simp_all [Code.emType?, Code.ofEmType?]

theorem mrcMode_lt (c : Code) : c.mrcMode?.getD 0 < 2 ^ 32 := by cases c <;> simp [Code.mrcMode?]
theorem emType_lt (c : Code) : c.emType?.getD 0 < 256 := by cases c <;> simp [Code.emType?]

/-- `decodeMrc` is a left inverse of `encodeMrc` on everything `encodeMrc` can represent -/
theorem decodeMrc_encodeMrc_aux (be : Bool) (code : Code) (nx ny nz : Nat) (words : List Nat)
    (hc : code.mrcMode? ≠ none) (hx : nx < 2 ^ 31) (hy : ny < 2 ^ 31) (hz : nz < 2 ^ 31)
    (hlen : words.length = nx * ny * nz) (hw : ∀ x ∈ words, x < 256 ^ code.width) :
    decodeMrc (encodeMrc ⟨.mrc, be, code, nx, ny, nz, words⟩).toArray = some ⟨.mrc, be, code, nx, ny, nz, words⟩ := by
  let R : Raw := ⟨.mrc, be, code, nx, ny, nz, words⟩
  have hsize : (encodeMrc R).toArray.size = 1024 + words.length * code.width := by
    simp [encodeMrc, mrcHeaderSize, length_encodeWords, R]
  have B : ∀ i, i < 1024 → byteAt (encodeMrc R).toArray i = mrcHdrByte R i := fun i hi => byteAt_hdr 1024 _ _ i hi
  have F : ∀ off v, v < 2 ^ 32 → off + 3 < 1024 → mrcHdrByte R off = fieldByte be off v off →
      mrcHdrByte R (off + 1) = fieldByte be off v (off + 1) → mrcHdrByte R (off + 2) = fieldByte be off v (off + 2) →
      mrcHdrByte R (off + 3) = fieldByte be off v (off + 3) → i32At be (encodeMrc R).toArray off = v :=
    fun off v hv ho h0 h1 h2 h3 => i32At_hdr be 1024 (mrcHdrByte R) _ off v hv ho h0 h1 h2 h3
  have fnx : i32At be (encodeMrc R).toArray 0 = nx := F 0 nx (by omega) (by omega) (by simp [mrcHdrByte, R]) (by simp [mrcHdrByte, R]) (by simp [mrcHdrByte, R]) (by simp [mrcHdrByte, R])
  have fny : i32At be (encodeMrc R).toArray 4 = ny := F 4 ny (by omega) (by omega) (by simp [mrcHdrByte, R]) (by simp [mrcHdrByte, R]) (by simp [mrcHdrByte, R]) (by simp [mrcHdrByte, R])
  have fnz : i32At be (encodeMrc R).toArray 8 = nz := F 8 nz (by omega) (by omega) (by simp [mrcHdrByte, R]) (by simp [mrcHdrByte, R]) (by simp [mrcHdrByte, R]) (by simp [mrcHdrByte, R])
  have fmode : i32At be (encodeMrc R).toArray 12 = code.mrcMode?.getD 0 := F 12 _ (mrcMode_lt code) (by omega) (by simp [mrcHdrByte, R]) (by simp [mrcHdrByte, R]) (by simp [mrcHdrByte, R]) (by simp [mrcHdrByte, R])
  have fc : i32At be (encodeMrc R).toArray 64 = 1 := F 64 1 (by omega) (by omega) (by simp [mrcHdrByte, R]) (by simp [mrcHdrByte, R]) (by simp [mrcHdrByte, R]) (by simp [mrcHdrByte, R])
  have fr : i32At be (encodeMrc R).toArray 68 = 2 := F 68 2 (by omega) (by omega) (by simp [mrcHdrByte, R]) (by simp [mrcHdrByte, R]) (by simp [mrcHdrByte, R]) (by simp [mrcHdrByte, R])
  have fs : i32At be (encodeMrc R).toArray 72 = 3 := F 72 3 (by omega) (by omega) (by simp [mrcHdrByte, R]) (by simp [mrcHdrByte, R]) (by simp [mrcHdrByte, R]) (by simp [mrcHdrByte, R])
  have fsym : i32At be (encodeMrc R).toArray 92 = 0 := F 92 0 (by omega) (by omega) (by simp [mrcHdrByte, fieldByte_zero]) (by simp [mrcHdrByte, fieldByte_zero]) (by simp [mrcHdrByte, fieldByte_zero]) (by simp [mrcHdrByte, fieldByte_zero])
  have ftag : [byteAt (encodeMrc R).toArray 208, byteAt (encodeMrc R).toArray 209, byteAt (encodeMrc R).toArray 210,
      byteAt (encodeMrc R).toArray 211] = [77, 65, 80, 32] := by
    rw [B 208 (by omega), B 209 (by omega), B 210 (by omega), B 211 (by omega)]; simp [mrcHdrByte]
  have fstamp : mrcStamp? (byteAt (encodeMrc R).toArray 212) (byteAt (encodeMrc R).toArray 213) = some be := by
    rw [B 212 (by omega), B 213 (by omega)]; cases be <;> simp [mrcHdrByte, mrcStamp?, R]
  have fwords : decodeWords be code.width (nx * ny * nz) (encodeMrc R).toArray (1024 + 0) = words := by
    have := decodeWords_append be code.width ((List.range 1024).map (mrcHdrByte R)) words hw
    simpa [encodeMrc, mrcHeaderSize, hlen, R] using this
  show decodeMrc (encodeMrc R).toArray = some R
  unfold decodeMrc
  simp only [ftag, fstamp, fnx, fny, fnz, fmode, fc, fr, fs, fsym, mrcMode_roundtrip code hc, hsize, mrcHeaderSize, fwords, hlen]
  simp only [R]
  have n1 : ¬ (1024 + nx * ny * nz * code.width < 1024) := by omega
  simp [n1]
  omega

/-- `decodeEm` is a left inverse of `encodeEm` on everything `encodeEm` can represent -/
theorem decodeEm_encodeEm_aux (be : Bool) (code : Code) (nx ny nz : Nat) (words : List Nat)
    (hc : code.emType? ≠ none) (hx : nx < 2 ^ 31) (hy : ny < 2 ^ 31) (hz : nz < 2 ^ 31)
    (hlen : words.length = nx * ny * nz) (hw : ∀ x ∈ words, x < 256 ^ code.width) :
    decodeEm (encodeEm ⟨.em, be, code, nx, ny, nz, words⟩).toArray = some ⟨.em, be, code, nx, ny, nz, words⟩ := by
  let R : Raw := ⟨.em, be, code, nx, ny, nz, words⟩
  have hsize : (encodeEm R).toArray.size = 512 + words.length * code.width := by
    simp [encodeEm, emHeaderSize, length_encodeWords, R]
  have B : ∀ i, i < 512 → byteAt (encodeEm R).toArray i = emHdrByte R i := fun i hi => byteAt_hdr 512 _ _ i hi
  have F : ∀ off v, v < 2 ^ 32 → off + 3 < 512 → emHdrByte R off = fieldByte be off v off →
      emHdrByte R (off + 1) = fieldByte be off v (off + 1) → emHdrByte R (off + 2) = fieldByte be off v (off + 2) →
      emHdrByte R (off + 3) = fieldByte be off v (off + 3) → i32At be (encodeEm R).toArray off = v :=
    fun off v hv ho h0 h1 h2 h3 => i32At_hdr be 512 (emHdrByte R) _ off v hv ho h0 h1 h2 h3
  have fnx : i32At be (encodeEm R).toArray 4 = nx := F 4 nx (by omega) (by omega) (by simp [emHdrByte, R]) (by simp [emHdrByte, R]) (by simp [emHdrByte, R]) (by simp [emHdrByte, R])
  have fny : i32At be (encodeEm R).toArray 8 = ny := F 8 ny (by omega) (by omega) (by simp [emHdrByte, R]) (by simp [emHdrByte, R]) (by simp [emHdrByte, R]) (by simp [emHdrByte, R])
  have fnz : i32At be (encodeEm R).toArray 12 = nz := F 12 nz (by omega) (by omega) (by simp [emHdrByte, R]) (by simp [emHdrByte, R]) (by simp [emHdrByte, R]) (by simp [emHdrByte, R])
  have fmach : emMachine? (byteAt (encodeEm R).toArray 0) = some be := by
    rw [B 0 (by omega)]; cases be <;> simp [emHdrByte, emMachine, emMachine?, R]
  have fcode : Code.ofEmType? (byteAt (encodeEm R).toArray 3).toNat = some code := by
    rw [B 3 (by omega)]
    have : (emHdrByte R 3).toNat = code.emType?.getD 0 := by
      simp only [emHdrByte, R]
      simp
      exact emType_lt code
    rw [this]; exact emType_roundtrip code hc
  have fwords : decodeWords be code.width (nx * ny * nz) (encodeEm R).toArray 512 = words := by
    have := decodeWords_append be code.width ((List.range 512).map (emHdrByte R)) words hw
    simpa [encodeEm, emHeaderSize, hlen, R] using this
  show decodeEm (encodeEm R).toArray = some R
  unfold decodeEm
  simp only [fmach, fcode, fnx, fny, fnz, hsize, emHeaderSize, fwords, hlen]
  simp only [R]
  have n1 : ¬ (512 + nx * ny * nz * code.width < 512) := by omega
  simp [n1]
  omega

end CryoCat.C11
