import CryoCat.Lemmas.C20_Spec
/-! C20 — the candidate buffer with `cap` slots per source (`candsCapped`), and independence of the
assignment from the order in which candidates are produced (KD-tree order on the CPU path). -/
set_option linter.unusedSectionVars false
namespace CryoCat.C20

section cap
variable {α : Type} [Field α] [LinearOrder α] [IsStrictOrderedRing α]

theorem cands_eq_flatMap_row (sqrt : α → α) (P : Params α) (srcs tgts : List (Pt α)) :
    cands sqrt P srcs tgts = srcs.flatMap (fun a => row sqrt P a tgts) := rfl

/-- a buffer with at least as many slots as any source has admissible targets loses nothing -/
theorem candsCapped_eq (sqrt : α → α) (P : Params α) (cap : Nat) (srcs tgts : List (Pt α))
    (h : ∀ a ∈ srcs, (row sqrt P a tgts).length ≤ cap) :
    candsCapped sqrt P cap srcs tgts = cands sqrt P srcs tgts := by
  rw [cands_eq_flatMap_row]
  unfold candsCapped
  induction srcs with
  | nil => rfl
  | cons a as ih =>
    simp only [List.flatMap_cons]
    rw [List.take_of_length_le (h a (by simp)), ih (fun x hx => h x (by simp [hx]))]

/-- whatever the cap, the buffer holds candidates only -/
theorem candsCapped_sub (sqrt : α → α) (P : Params α) (cap : Nat) (srcs tgts : List (Pt α)) :
    ∀ c ∈ candsCapped sqrt P cap srcs tgts, c ∈ cands sqrt P srcs tgts := by
  intro c hc
  rw [cands_eq_flatMap_row]
  unfold candsCapped at hc
  obtain ⟨a, ha, hca⟩ := List.mem_flatMap.1 hc
  exact List.mem_flatMap.2 ⟨a, ha, List.mem_of_mem_take hca⟩

theorem le_foldl_max (l : List Nat) : ∀ init : Nat, init ≤ l.foldl max init ∧ ∀ x ∈ l, x ≤ l.foldl max init := by
  induction l with
  | nil => intro init; exact ⟨Nat.le_refl _, fun x hx => by cases hx⟩
  | cons y ys ih =>
    intro init
    simp only [List.foldl_cons]
    obtain ⟨h1, h2⟩ := ih (max init y)
    refine ⟨Nat.le_trans (Nat.le_max_left _ _) h1, ?_⟩
    intro x hx
    rcases List.mem_cons.1 hx with rfl | hx
    · exact Nat.le_trans (Nat.le_max_right _ _) h1
    · exact h2 x hx

/-- `maxRow` bounds the number of admissible targets of every source -/
theorem row_le_maxRow (sqrt : α → α) (i : Input α) (strict : Bool) :
    ∀ a ∈ i.sources, (row sqrt (i.params strict) a i.targets).length ≤ i.maxRow sqrt strict := by
  intro a ha
  unfold Input.maxRow
  exact (le_foldl_max _ 0).2 _ (List.mem_map.2 ⟨a, ha, rfl⟩)
end cap

section perm
variable {α : Type} [LinearOrder α]

theorem lexLe_antisymm {a b : Cand α} (h1 : LexLe a b) (h2 : LexLe b a) : a = b := by
  unfold LexLe at h1 h2
  have hd : a.d = b.d := by
    rcases h1 with h1 | ⟨e, _⟩
    · rcases h2 with h2 | ⟨e2, _⟩
      · exact absurd h1 (lt_asymm h2)
      · exact absurd h1 (by rw [e2]; exact lt_irrefl _)
    · exact e
  have h1' : a.s < b.s ∨ (a.s = b.s ∧ a.t ≤ b.t) := by
    rcases h1 with h1 | ⟨_, h⟩
    · exact absurd h1 (by rw [hd]; exact lt_irrefl _)
    · exact h
  have h2' : b.s < a.s ∨ (b.s = a.s ∧ b.t ≤ a.t) := by
    rcases h2 with h2 | ⟨_, h⟩
    · exact absurd h2 (by rw [hd]; exact lt_irrefl _)
    · exact h
  have hs : a.s = b.s := by omega
  have ht : a.t = b.t := by omega
  cases a; cases b; simp_all

/-- the sorted candidate list does not depend on the order in which the candidates were produced -/
theorem sortCands_perm {cs cs' : List (Cand α)} (h : cs.Perm cs') : sortCands cs = sortCands cs' := by
  refine List.Perm.eq_of_pairwise (le := LexLe) (fun a b _ _ h1 h2 => lexLe_antisymm h1 h2)
    (sortCands_pairwise cs) (sortCands_pairwise cs') ?_
  unfold sortCands
  exact ((List.mergeSort_perm cs candLe).trans h).trans (List.mergeSort_perm cs' candLe).symm
end perm

end CryoCat.C20
