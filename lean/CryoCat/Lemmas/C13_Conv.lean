import Mathlib.Algebra.Order.BigOperators.Ring.Finset
import Mathlib.Algebra.BigOperators.Ring.Finset
import Mathlib.Algebra.Order.Field.Basic
import Mathlib.Tactic.Ring
import Mathlib.Tactic.Linarith
import Mathlib.Tactic.Positivity
/-! C13 — soft edges: a weighted mean with non-negative weights of total 1 (what a Gaussian filter
computes at one voxel; `q` ranges over the kernel offsets, `x q` is the hard mask value seen at
offset `q`, boundary handling included) stays in `[0,1]` and falls short of 1 by at most the
weight that lands on values other than 1.  Plus the geometric fact behind "blurred outwards":
a ball of radius `r + s` contains every point within `s` of the ball of radius `r`. -/
namespace CryoCat.C13
open Finset

section
variable {ι α : Type} [Field α] [LinearOrder α] [IsStrictOrderedRing α]

theorem conv_nonneg (s : Finset ι) (w x : ι → α) (hw : ∀ q ∈ s, 0 ≤ w q) (hx : ∀ q ∈ s, 0 ≤ x q) :
    0 ≤ ∑ q ∈ s, w q * x q :=
  sum_nonneg fun q hq => mul_nonneg (hw q hq) (hx q hq)

theorem conv_le_one (s : Finset ι) (w x : ι → α) (hw : ∀ q ∈ s, 0 ≤ w q) (hsum : ∑ q ∈ s, w q = 1)
    (hx : ∀ q ∈ s, x q ≤ 1) : ∑ q ∈ s, w q * x q ≤ 1 := by
  rw [← hsum]
  exact sum_le_sum fun q hq => by nlinarith [hw q hq, hx q hq]

theorem conv_deficit [DecidableEq α] (s : Finset ι) (w x : ι → α) (hw : ∀ q ∈ s, 0 ≤ w q) (hsum : ∑ q ∈ s, w q = 1)
    (hx : ∀ q ∈ s, 0 ≤ x q ∧ x q ≤ 1) :
    1 - ∑ q ∈ s, w q * x q ≤ ∑ q ∈ s with x q ≠ 1, w q := by
  have e : 1 - ∑ q ∈ s, w q * x q = ∑ q ∈ s, w q * (1 - x q) := by
    have : ∑ q ∈ s, w q * (1 - x q) = ∑ q ∈ s, w q - ∑ q ∈ s, w q * x q := by
      rw [← sum_sub_distrib]; exact sum_congr rfl fun q _ => by ring
    rw [this, hsum]
  rw [e, sum_filter]
  apply sum_le_sum
  intro q hq
  by_cases h : x q = 1
  · simp [h]
  · simp only [ne_eq, h, not_false_eq_true, if_true]
    nlinarith [hw q hq, (hx q hq).1]

/-- Cauchy–Schwarz in three dimensions, as a polynomial identity -/
theorem dot_sq_le (a b c u v t : α) :
    (a * u + b * v + c * t) ^ 2 ≤ (a * a + b * b + c * c) * (u * u + v * v + t * t) := by
  nlinarith [sq_nonneg (a * v - b * u), sq_nonneg (a * t - c * u), sq_nonneg (b * t - c * v)]

/-- a point within `s` of a point of the ball of radius `r` lies in the ball of radius `r + s` -/
theorem ball_dilate (a b c u v t r s : α) (hr : 0 ≤ r) (hs : 0 ≤ s)
    (hp : a * a + b * b + c * c ≤ r * r) (hq : u * u + v * v + t * t ≤ s * s) :
    (a + u) * (a + u) + (b + v) * (b + v) + (c + t) * (c + t) ≤ (r + s) * (r + s) := by
  have hcs := dot_sq_le a b c u v t
  have hn1 : 0 ≤ a * a + b * b + c * c := by nlinarith [mul_self_nonneg a, mul_self_nonneg b, mul_self_nonneg c]
  have hn2 : 0 ≤ u * u + v * v + t * t := by nlinarith [mul_self_nonneg u, mul_self_nonneg v, mul_self_nonneg t]
  have hprod : (a * a + b * b + c * c) * (u * u + v * v + t * t) ≤ (r * r) * (s * s) :=
    mul_le_mul hp hq hn2 (le_trans hn1 hp)
  have hdot : a * u + b * v + c * t ≤ r * s := by
    by_contra hlt
    rw [not_le] at hlt
    have h0 : 0 ≤ r * s := mul_nonneg hr hs
    have : (r * s) ^ 2 < (a * u + b * v + c * t) ^ 2 := by
      apply pow_lt_pow_left₀ hlt h0 (by norm_num)
    nlinarith
  nlinarith
end
end CryoCat.C13
