import CryoCat.Model.C13
import Mathlib.Tactic.Ring
import Mathlib.Tactic.Linarith
import Mathlib.Algebra.Order.Ring.Defs
import Mathlib.Algebra.Order.Ring.Cast
import Mathlib.Data.Nat.Cast.Order.Ring
/-! C13 — the mask algebra on one voxel, over any linearly ordered ring (ℚ, ℝ …). -/
namespace CryoCat.C13

section
set_option linter.unusedSectionVars false
set_option linter.unusedSimpArgs false
variable {α : Type} [CommRing α] [LinearOrder α] [IsStrictOrderedRing α]

/-- a binary mask value -/
def b2r (b : Bool) : α := if b then 1 else 0

theorem clip01_mem (x : α) : 0 ≤ clip01 x ∧ clip01 x ≤ 1 := by
  unfold clip01
  exact ⟨le_min (le_max_right _ _) zero_le_one, min_le_right _ _⟩

theorem clip01_of_mem (x : α) (h0 : 0 ≤ x) (h1 : x ≤ 1) : clip01 x = x := by
  unfold clip01; rw [max_eq_left h0, min_eq_left h1]

theorem clip01_of_nonpos (x : α) (h : x ≤ 0) : clip01 x = 0 := by
  unfold clip01; rw [max_eq_right h, min_eq_left zero_le_one]

theorem clip01_of_one_le (x : α) (h : 1 ≤ x) : clip01 x = 1 := by
  unfold clip01; rw [max_eq_left (le_trans zero_le_one h), min_eq_right h]

theorem clip01_b2r (b : Bool) : clip01 (b2r b : α) = b2r b := by
  cases b <;> simp [b2r, clip01_of_mem]

theorem foldl_add_b2r (bs : List Bool) (a : α) :
    (bs.map b2r).foldl (· + ·) a = a + ((bs.count true : Nat) : α) := by
  induction bs generalizing a with
  | nil => simp
  | cons b bs ih =>
    simp only [List.map_cons, List.foldl_cons, ih]
    cases b
    · simp [b2r]
    · simp only [b2r, if_true, List.count_cons_self, Nat.cast_add, Nat.cast_one]; ring

theorem foldl_mul_b2r (bs : List Bool) (a : α) :
    (bs.map b2r).foldl (· * ·) a = a * b2r (bs.all id) := by
  induction bs generalizing a with
  | nil => simp [b2r]
  | cons b bs ih =>
    simp only [List.map_cons, List.foldl_cons, ih]
    cases b <;> simp [b2r]

theorem foldl_sub_b2r (bs : List Bool) (a : α) :
    (bs.map b2r).foldl (· - ·) a = a - ((bs.count true : Nat) : α) := by
  induction bs generalizing a with
  | nil => simp
  | cons b bs ih =>
    simp only [List.map_cons, List.foldl_cons, ih]
    cases b
    · simp [b2r]
    · simp only [b2r, if_true, List.count_cons_self, Nat.cast_add, Nat.cast_one]; ring

theorem count_true_eq_zero (bs : List Bool) : bs.count true = 0 ↔ bs.any id = false := by
  induction bs with
  | nil => simp
  | cons b bs ih => cases b <;> simp [List.count_cons, ih]

theorem unionVox_bool (bs : List Bool) : unionVox (bs.map (b2r : Bool → α)) = b2r (bs.any id) := by
  unfold unionVox
  rw [foldl_add_b2r, zero_add]
  by_cases h : bs.count true = 0
  · rw [h, (count_true_eq_zero bs).1 h]; simp [b2r, clip01_of_mem]
  · have hany : bs.any id = true := by
      by_contra hc
      exact h ((count_true_eq_zero bs).2 (by simpa using hc))
    rw [hany]
    have : (1 : α) ≤ ((bs.count true : Nat) : α) := by exact_mod_cast Nat.one_le_iff_ne_zero.2 h
    simp [b2r, clip01_of_one_le _ this]

theorem interVox_bool (bs : List Bool) : interVox (bs.map (b2r : Bool → α)) = b2r (bs.all id) := by
  unfold interVox
  rw [foldl_mul_b2r, one_mul, clip01_b2r]

theorem subVox_bool (b0 : Bool) (bs : List Bool) :
    subVox (b2r b0 : α) (bs.map b2r) = b2r (b0 && !bs.any id) := by
  unfold subVox
  rw [foldl_sub_b2r]
  by_cases h : bs.count true = 0
  · rw [h, (count_true_eq_zero bs).1 h]; simp [clip01_b2r]
  · have hany : bs.any id = true := by
      by_contra hc
      exact h ((count_true_eq_zero bs).2 (by simpa using hc))
    rw [hany]
    have h1 : (1 : α) ≤ ((bs.count true : Nat) : α) := by exact_mod_cast Nat.one_le_iff_ne_zero.2 h
    have hb : (b2r b0 : α) ≤ 1 := by cases b0 <;> simp [b2r]
    rw [clip01_of_nonpos _ (by linarith)]
    simp [b2r]

theorem diffVox_bool (bs : List Bool) :
    diffVox (bs.map (b2r : Bool → α)) = b2r (bs.any id && !bs.all id) := by
  unfold diffVox
  rw [unionVox_bool, interVox_bool]
  cases bs.any id <;> cases bs.all id <;> simp [b2r, clip01_of_mem, clip01_of_nonpos]

end
end CryoCat.C13
