import CryoCat.Lemmas.C14
import Mathlib.Tactic.Linarith
import Mathlib.Tactic.IntervalCases
/-! the enumerated list `cube24` is complete: every proper orthogonal integer matrix is in it -/
namespace CryoCat.C14

/-- the six signed unit vectors -/
def units6 : List (V3 Int) := [⟨1, 0, 0⟩, ⟨-1, 0, 0⟩, ⟨0, 1, 0⟩, ⟨0, -1, 0⟩, ⟨0, 0, 1⟩, ⟨0, 0, -1⟩]

def ofCols (a b c : V3 Int) : M3 Int := ⟨a.x, b.x, c.x, a.y, b.y, c.y, a.z, b.z, c.z⟩

theorem unit_col (a b c : Int) (h : a * a + b * b + c * c = 1) : (⟨a, b, c⟩ : V3 Int) ∈ units6 := by
  have ha : -1 ≤ a ∧ a ≤ 1 := by constructor <;> nlinarith [mul_self_nonneg b, mul_self_nonneg c, mul_self_nonneg (a - 1), mul_self_nonneg (a + 1)]
  have hb : -1 ≤ b ∧ b ≤ 1 := by constructor <;> nlinarith [mul_self_nonneg a, mul_self_nonneg c, mul_self_nonneg (b - 1), mul_self_nonneg (b + 1)]
  have hc : -1 ≤ c ∧ c ≤ 1 := by constructor <;> nlinarith [mul_self_nonneg a, mul_self_nonneg b, mul_self_nonneg (c - 1), mul_self_nonneg (c + 1)]
  obtain ⟨ha1, ha2⟩ := ha
  obtain ⟨hb1, hb2⟩ := hb
  obtain ⟨hc1, hc2⟩ := hc
  interval_cases a <;> interval_cases b <;> interval_cases c <;> first | (exfalso; omega) | decide

theorem cube24_complete_cols : ∀ a ∈ units6, ∀ b ∈ units6, ∀ c ∈ units6,
    (ofCols a b c).transpose * ofCols a b c = M3.one → (ofCols a b c).det = 1 → ofCols a b c ∈ cube24 := by decide

theorem cube24_complete_aux (R : M3 Int) (hR : R.Orth) (hd : R.det = 1) : R ∈ cube24 := by
  have e := congrArg M3.toList hR
  simp only [M3.mul_def, M3.mul, M3.transpose, M3.one, M3.toList, List.cons.injEq, and_true] at e
  obtain ⟨e1, _, _, _, e5, _, _, _, e9⟩ := e
  have c1 := unit_col R.a11 R.a21 R.a31 (by linarith)
  have c2 := unit_col R.a12 R.a22 R.a32 (by linarith)
  have c3 := unit_col R.a13 R.a23 R.a33 (by linarith)
  have hRe : R = ofCols ⟨R.a11, R.a21, R.a31⟩ ⟨R.a12, R.a22, R.a32⟩ ⟨R.a13, R.a23, R.a33⟩ := by
    cases R; rfl
  rw [hRe]
  apply cube24_complete_cols _ c1 _ c2 _ c3
  · rw [← hRe]; exact hR
  · rw [← hRe]; exact hd

end CryoCat.C14
