import CryoCat.Lemmas.C02_Comments
/-! C02 — helper lemmas, part 11: the comment lists `Starfile.read` returns for a well laid-out
document, and for the text written with a `comments` argument. Core Lean only. -/
namespace CryoCat.C02

/-! ### the comments of a laid-out document -/

/-- the comment of a line, as the reader records it (stripped) -/
def Line.coms (l : Line) : List Comment :=
  match l.tail with
  | [] => []
  | _ :: c => [stripWs c]

def lineComs (ls : List Line) : List Comment := ls.flatMap Line.coms

/-- comments before the block, on the name line, between name and `loop_`, after the labels (those on
the label lines are not recorded) -/
def BlockLayout.coms (b : BlockLayout) : List Comment :=
  lineComs b.pre ++ ((b.nameLine.coms ++ lineComs b.mid) ++ lineComs b.post)

/-- per block; comments after the last block are dropped unless that block has no rows -/
def docComs (tr : List Line) : List BlockLayout → List (List Comment)
  | [] => []
  | [b] => [b.coms ++ (if b.rows = [] then lineComs tr else [])]
  | b :: b2 :: rest => b.coms :: docComs tr (b2 :: rest)

theorem ncComments_append (a r : List Tok) (h : ∀ t ∈ a, isNC t = true) :
    ncComments (a ++ r) = ncComments a ++ ncComments r := by
  induction a with
  | nil => rfl
  | cons t a ih =>
    have ht := h t (by simp)
    have ih' := ih (fun x hx => h x (by simp [hx]))
    cases t <;> simp_all [isNC, ncComments]

theorem ncComments_stop (t : Tok) (r : List Tok) (h : isNC t = false) : ncComments (t :: r) = [] := by
  cases t <;> simp_all [isNC, ncComments]

theorem ncComments_commentToks (tl : List Char) (r : List Tok) :
    ncComments (commentToks tl ++ .newline :: r) = (Line.coms ⟨[], [], tl⟩) ++ ncComments r := by
  cases tl <;> simp [commentToks, ncComments, Line.coms]

theorem ncComments_skips (ls : List Line) (h : ∀ l ∈ ls, l.Skip) (r : List Tok) :
    ncComments (ls.flatMap Line.toks ++ r) = lineComs ls ++ ncComments r := by
  induction ls with
  | nil => rfl
  | cons l ls ih =>
    have hl := h l (by simp)
    have : l.toks = commentToks l.tail ++ [.newline] := by simp [Line.toks, Line.words, hl.2]
    simp only [List.flatMap_cons, lineComs, this, List.append_assoc, List.cons_append, List.nil_append]
    rw [ncComments_commentToks, ih (fun x hx => h x (by simp [hx]))]
    simp [Line.coms, lineComs]

theorem ncComments_skips' (ls : List Line) (h : ∀ l ∈ ls, l.Skip) : ncComments (ls.flatMap Line.toks) = lineComs ls := by
  have := ncComments_skips ls h []
  simpa [ncComments] using this

/-! ### one round of the block loop, with comments -/

theorem block_stepC (P N Q : List Tok) (hP : ∀ t ∈ P, isNC t = true) (hN : ∀ t ∈ N, isNC t = true)
    (hQ : ∀ t ∈ Q, isNC t = true) (name : Word) (cols : List Word) (tls : List (List Char))
    (hlen : cols.length = tls.length) (hcols : cols ≠ []) (rs : List (List Word))
    (hrs : ∀ ws ∈ rs, ws.length = cols.length) (after : List Tok) (ha : Stops after)
    (hne : rs = [] → (∀ t ∈ after, isNC t = true) ∧ Q ++ after ≠ []) (fuel : Nat) :
    blocksGoC (fuel + 1) (P ++ .lit name :: (N ++ .loop :: .newline ::
        ((List.zipWith labelToks cols tls).flatten ++ (Q ++ ((rs.map rowToks).flatten ++ after))))) =
      match blocksGoC fuel (if rs = [] then [] else after) with
      | .ok bs => .ok (({ name := name, cols := cols, rows := rs },
          ncComments P ++ (ncComments N ++ (ncComments Q ++ (if rs = [] then ncComments after else [])))) :: bs)
      | .error e => .error e := by
  have hn : cols.length ≠ 0 := by simpa using hcols
  obtain ⟨t, r, htr, htp⟩ := after_labels_head Q hQ cols.length hn rs hrs after ha (fun h => (hne h).2)
  have hrows : parseRows cols.length (Q ++ ((rs.map rowToks).flatten ++ after)) = .ok (rs, if rs = [] then [] else after) := by
    unfold parseRows
    rw [skipNC_append Q _ hQ]
    cases rs with
    | nil =>
      have hall := (hne rfl).1
      simp only [List.map_nil, List.flatten_nil, List.nil_append, if_true]
      rw [skipNC_all after hall, rowsGo_stop _ hn _ _ (Or.inl rfl)]; rfl
    | cons ws rs' =>
      obtain ⟨w, r', hw⟩ := rows_head_lit cols.length hn ws rs' (hrs ws (by simp)) after
      rw [hw, skipNC_stop _ _ (by rfl), ← hw, rowsGo_rows _ _ hrs, rowsGo_stop _ hn _ _ ha]
      simp
  have hcomQ : ncComments (Q ++ ((rs.map rowToks).flatten ++ after)) = ncComments Q ++ (if rs = [] then ncComments after else []) := by
    rw [ncComments_append Q _ hQ]
    cases rs with
    | nil => simp
    | cons ws rs' =>
      obtain ⟨w, r', hw⟩ := rows_head_lit cols.length hn ws rs' (hrs ws (by simp)) after
      rw [hw, ncComments_stop _ _ (by rfl)]; simp
  rw [blocksGoC]
  have hlook : lookaheadLit (P ++ .lit name :: (N ++ .loop :: .newline ::
        ((List.zipWith labelToks cols tls).flatten ++ (Q ++ ((rs.map rowToks).flatten ++ after))))) = true := by
    unfold lookaheadLit
    rw [skipNC_append P _ hP, skipNC_stop _ _ (by rfl)]
  rw [hlook]
  simp only [if_true]
  have hspec : parseSpecifier (P ++ .lit name :: (N ++ .loop :: .newline ::
        ((List.zipWith labelToks cols tls).flatten ++ (Q ++ ((rs.map rowToks).flatten ++ after))))) =
        .ok (name, N ++ .loop :: .newline ::
        ((List.zipWith labelToks cols tls).flatten ++ (Q ++ ((rs.map rowToks).flatten ++ after)))) := by
    unfold parseSpecifier
    rw [skipNC_append P _ hP, skipNC_stop _ _ (by rfl)]
  rw [hspec]
  have hcolsP : parseColumns (N ++ .loop :: .newline ::
        ((List.zipWith labelToks cols tls).flatten ++ (Q ++ ((rs.map rowToks).flatten ++ after)))) =
        .ok (cols, Q ++ ((rs.map rowToks).flatten ++ after)) := by
    unfold parseColumns
    rw [skipNC_append N _ hN, skipNC_stop _ _ (by rfl)]
    simp only
    rw [htr, parseLabels_labels cols tls hlen t r htp]
  have hcomP : ncComments (P ++ .lit name :: (N ++ .loop :: .newline ::
        ((List.zipWith labelToks cols tls).flatten ++ (Q ++ ((rs.map rowToks).flatten ++ after))))) = ncComments P := by
    rw [ncComments_append P _ hP, ncComments_stop _ _ (by rfl)]; simp
  have hcomN : ncComments (N ++ .loop :: .newline ::
        ((List.zipWith labelToks cols tls).flatten ++ (Q ++ ((rs.map rowToks).flatten ++ after)))) = ncComments N := by
    rw [ncComments_append N _ hN, ncComments_stop _ _ (by rfl)]; simp
  simp only [hcolsP, hrows, hcomP, hcomN, hcomQ]
  rcases blocksGoC fuel (if rs = [] then [] else after) with e | bs <;> rfl

/-! ### all blocks of a document -/

theorem block_coms_eq (b : BlockLayout) (h : b.Ok) (X : List Comment) :
    ncComments (b.pre.flatMap Line.toks) ++
      (ncComments (commentToks b.nameLine.tail ++ .newline :: b.mid.flatMap Line.toks) ++
        (ncComments (b.post.flatMap Line.toks) ++ X)) = b.coms ++ X := by
  obtain ⟨hpre, hmid, hpost, _⟩ := h
  rw [ncComments_skips' _ hpre, ncComments_skips' _ hpost, ncComments_commentToks, ncComments_skips' _ hmid]
  simp [BlockLayout.coms, Line.coms]

theorem blocksGoC_nc (fuel : Nat) (T : List Tok) (h : ∀ t ∈ T, isNC t = true) : blocksGoC (fuel + 1) T = .ok [] := by
  rw [blocksGoC]
  simp [lookaheadLit, skipNC_all T h]

theorem blocksGoC_doc (tr : List Line) (htr : ∀ l ∈ tr, l.Skip) (bs : List BlockLayout)
    (hbs : ∀ b ∈ bs, b.Ok) (hsep : SepOk tr bs) (fuel : Nat) (hf : bs.length < fuel) :
    blocksGoC fuel (docToks bs tr) = .ok ((bs.map BlockLayout.block).zip (docComs tr bs)) := by
  have hT := skips_toks_nc tr htr
  induction bs generalizing fuel with
  | nil =>
    obtain ⟨f, rfl⟩ := Nat.exists_eq_succ_of_ne_zero (Nat.ne_of_gt hf)
    simpa [docToks, docComs] using blocksGoC_nc f _ hT
  | cons b rest ih =>
    obtain ⟨f, rfl⟩ := Nat.exists_eq_succ_of_ne_zero (Nat.ne_of_gt (Nat.lt_of_le_of_lt (Nat.zero_le _) hf))
    have hb := hbs b (by simp)
    have hf' : rest.length < f := by simp at hf; omega
    have hdoc : docToks (b :: rest) tr = b.toks ++ docToks rest tr := by simp [docToks]
    have hrestOk : ∀ x ∈ rest, x.Ok := fun x hx => hbs x (by simp [hx])
    have hbOk := hb
    obtain ⟨hpre, hmid, hpost, _, _, _, _, _, _, hcols, _, hlab, hrows⟩ := hb
    have hlen : b.cols.length = (b.labels.map Line.tail).length := by
      have := congrArg List.length hlab; simpa using this.symm
    have hN : ∀ t ∈ commentToks b.nameLine.tail ++ .newline :: b.mid.flatMap Line.toks, isNC t = true := by
      intro t ht
      simp only [List.mem_append, List.mem_cons] at ht
      rcases ht with ht | rfl | ht
      · exact commentToks_nc _ t ht
      · rfl
      · exact skips_toks_nc _ hmid t ht
    have hrs : ∀ ws ∈ b.rows.map Line.words, ws.length = b.cols.length := by
      intro ws hws
      obtain ⟨r, hr, rfl⟩ := List.mem_map.1 hws
      exact (hrows r hr).2.2.1
    rw [hdoc, block_toks b (hbs b (by simp)), reassoc]
    cases rest with
    | nil =>
      have hafter : docToks [] tr = tr.flatMap Line.toks := by simp [docToks]
      rw [hafter]
      rw [block_stepC _ _ _ (skips_toks_nc _ hpre) hN (skips_toks_nc _ hpost) b.name b.cols _ hlen hcols _ hrs _
        (stops_of_nc _ hT) (by
          intro h0
          refine ⟨hT, ?_⟩
          have : b.rows = [] := by simpa using h0
          have h2 := hsep this
          rw [← List.flatMap_append]
          exact lines_toks_ne _ h2) f]
      have hfpos : f ≠ 0 := by simp at hf; omega
      obtain ⟨g, rfl⟩ := Nat.exists_eq_succ_of_ne_zero hfpos
      rw [block_coms_eq b hbOk]
      by_cases h0 : b.rows = []
      · have h0' : b.rows.map Line.words = [] := by simp [h0]
        simp only [h0', if_true]
        rw [blocksGoC_nc g [] (by simp), ncComments_skips' _ htr]
        simp [BlockLayout.block, h0, docComs]
      · have h0' : b.rows.map Line.words ≠ [] := by simpa using h0
        simp only [h0', if_false]
        rw [blocksGoC_nc g _ hT]
        simp [BlockLayout.block, h0, docComs]
    | cons b2 rest' =>
      obtain ⟨hrne, hpne, hsep'⟩ := hsep
      have h0 : b.rows.map Line.words ≠ [] := by simpa using hrne
      have hb2 := hbs b2 (by simp)
      have hstops : Stops (docToks (b2 :: rest') tr) := by
        have : docToks (b2 :: rest') tr = b2.pre.flatMap Line.toks ++
            (.lit b2.name :: ((commentToks b2.nameLine.tail ++ .newline :: b2.mid.flatMap Line.toks) ++ .loop :: .newline ::
              ((List.zipWith labelToks b2.cols (b2.labels.map Line.tail)).flatten ++
                (b2.post.flatMap Line.toks ++ ((b2.rows.map Line.words).map rowToks).flatten))) ++ (docToks rest' tr)) := by
          simp only [docToks, List.flatMap_cons, block_toks b2 hb2, List.append_assoc]
        rw [this]
        exact stops_append _ _ (skips_toks_nc _ hb2.1) (lines_toks_ne _ hpne)
      rw [block_stepC _ _ _ (skips_toks_nc _ hpre) hN (skips_toks_nc _ hpost) b.name b.cols _ hlen hcols _ hrs _
        hstops (fun h => absurd h h0) f]
      simp only [h0, if_false]
      rw [ih hrestOk hsep' f hf', block_coms_eq b hbOk]
      simp [BlockLayout.block, docComs]

/-- **the reader with comments on any well laid-out STAR text** -/
theorem readStarC_doc (d : Doc) (h : d.Ok) :
    readStarC d.text = .ok ((d.blocks.map BlockLayout.block).zip (docComs d.trailing d.blocks)) := by
  have hlines : ∀ l ∈ d.lines, l.Ok := by
    intro l hl
    simp only [Doc.lines, List.mem_append, List.mem_flatMap] at hl
    rcases hl with ⟨b, hb, hlb⟩ | hl
    · exact block_lines_ok b (h.1 b hb) l hlb
    · exact (h.2.1 l hl).1
  unfold readStarC Doc.text
  rw [tokenize_lines d.lines h.2.2.2 hlines]
  obtain ⟨hbs, htr, hsep, _⟩ := h
  have hl : d.lines.flatMap Line.toks = docToks d.blocks d.trailing := by
    simp [Doc.lines, docToks, List.flatMap_append, List.flatMap_assoc]
    rfl
  unfold parseBlocksC
  rw [hl]
  exact blocksGoC_doc d.trailing htr d.blocks hbs hsep _ (Nat.lt_succ_of_le (length_le_docToks _ _ hbs))

/-! ### the comments of a written text -/

theorem dropWhile_append_ws (a b : List Char) :
    (a ++ b).dropWhile isWs = if a.dropWhile isWs = [] then b.dropWhile isWs else a.dropWhile isWs ++ b := by
  induction a with
  | nil => simp
  | cons c a ih =>
    by_cases hc : isWs c = true
    · simp only [List.cons_append, List.dropWhile, hc]; exact ih
    · simp [List.dropWhile, hc]

/-- the blank `Starfile.write` puts after `#` is removed by `strip` -/
theorem stripWs_blank (c : List Char) : stripWs (' ' :: c) = stripWs c := by
  have hb : isWs ' ' = true := by decide
  unfold stripWs rstripWs
  rw [List.reverse_cons, dropWhile_append_ws]
  by_cases h : c.reverse.dropWhile isWs = []
  · simp [h, List.dropWhile, hb]
  · simp [h, List.dropWhile, hb]

/-- what the reader returns for one `comment` entry of the writer -/
def comRead (o : Option (List Comment)) : List Comment := (o.getD []).map stripWs

theorem eLine_coms : eLine.coms = [] := rfl

theorem commentLines_coms (cs : List Comment) : (cs.map commentLineOf).flatMap Line.coms = cs.map stripWs := by
  induction cs with
  | nil => rfl
  | cons c cs ih =>
    simp only [List.map_cons, List.flatMap_cons, ih]
    simp [commentLineOf, Line.coms, stripWs_blank]

theorem comPre_coms (com : Option (List Comment)) : lineComs (comPre com) = comRead com := by
  cases com with
  | none => rfl
  | some cs =>
    simp only [comPre, lineComs, List.flatMap_append, comRead, Option.getD_some, commentLines_coms]
    simp [eLine_coms]

theorem layoutOf_coms (nc : Bool) (pre : List Line) (b : Block) : (layoutOf nc pre b).coms = lineComs pre := by
  simp only [BlockLayout.coms, layoutOf, Line.coms, lineComs, List.flatMap_cons, List.flatMap_nil, eLine]
  split <;> simp [Line.coms]

theorem layoutsOfC_coms (nc : Bool) (pre : List Line) (hpre : lineComs pre = []) (coms : List (Option (List Comment)))
    (bs : List Block) (hl : coms.length = bs.length) :
    docComs [eLine, eLine] (layoutsOfC nc pre coms bs) = coms.map comRead := by
  induction bs generalizing pre coms with
  | nil =>
    cases coms with
    | nil => rfl
    | cons _ _ => simp at hl
  | cons b rest ih =>
    cases coms with
    | nil => simp at hl
    | cons com coms' =>
      have hc : (layoutOf nc (pre ++ comPre com) b).coms = comRead com := by
        rw [layoutOf_coms]
        simp only [lineComs, List.flatMap_append] at hpre ⊢
        rw [hpre]; exact comPre_coms com
      cases rest with
      | nil =>
        cases coms' with
        | cons _ _ => simp at hl
        | nil =>
          simp only [layoutsOfC, docComs, hc, List.map_cons, List.map_nil]
          have : lineComs [eLine, eLine] = [] := rfl
          rw [this]; simp
      | cons b2 rest' =>
        cases coms' with
        | nil => simp at hl
        | cons com2 coms'' =>
          have := ih [eLine, eLine] rfl (com2 :: coms'') (by simpa using hl)
          simp only [layoutsOfC, docComs, hc, List.map_cons] at this ⊢
          rw [this]

/-- **write with comments, then read with comments**: every table comes back with the comments written
for it, stripped, in order (no entry / `None`: no comments) -/
theorem readStarC_printStarC (nc : Bool) (coms : List (Option (List Comment))) (bs : List Block) (txt : List Char)
    (hw : printStarC nc coms bs = some txt) (hc : ComsOk coms) (h : ∀ b ∈ bs, BlockOk b) (he : EmptyOnlyLast bs) :
    readStarC txt = .ok (bs.zip (coms.map comRead)) := by
  unfold printStarC at hw
  split at hw
  · rename_i hl
    cases hw
    cases bs with
    | nil => cases coms <;> rfl
    | cons b rest =>
      rw [← docOfC_text nc coms (b :: rest) (by simp) hl, readStarC_doc _ (docOfC_ok nc coms _ (by simp) hl hc h he)]
      simp only [docOfC]
      rw [layoutsOfC_blocks nc _ coms _ hl h, layoutsOfC_coms nc [eLine] rfl coms _ hl]
  · cases hw

end CryoCat.C02
