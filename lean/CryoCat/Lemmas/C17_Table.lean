import CryoCat.Lemmas.C17
/-! C17 — the wedge list as a STAR table, and the grouping done by `wedge_list_sg_to_em` (core Lean only). -/
namespace CryoCat.C17

variable {α β : Type}

/-! ### reading a table row by column name -/

theorem lookup_zip_map (f : String → WCell β) : ∀ (cols : List String) (c : String),
    (cols.zip (cols.map f)).lookup c = if c ∈ cols then some (f c) else none
  | [], c => by simp [List.lookup]
  | k :: cols, c => by
    simp only [List.map_cons, List.zip_cons_cons, List.lookup_cons, List.mem_cons]
    by_cases h : (c == k) = true
    · have : c = k := by simpa using h
      subst this; simp
    · have hne : ¬ c = k := by simpa using h
      have h' : (c == k) = false := Bool.eq_false_iff.2 h
      simp only [h', lookup_zip_map f cols c, hne, false_or]

theorem isNan_eq (c : WCell α) : c.isNan = true ↔ c = .nan := by
  cases c <;> simp [WCell.isNan]

theorem map_nan (q : α → β) (c : WCell α) (h : c = .nan) : c.map q = .nan := by subst h; rfl

/-- in the written table, the cell under any name is the (converted) value assigned to that name — for a dropped
column that value is NaN in every row, which is what an absent column reads as -/
theorem look_sgTable (q : α → β) (rows : List (WedgeRow α)) (r : WedgeRow α) (hr : r ∈ rows) (c : String)
    (hc : c ∈ Gen.C17.wedgeColumns) :
    look (sgTable rows).cols (((sgTable rows).cols.map r.cellOf).map (WCell.map q)) c = (r.cellOf c).map q := by
  unfold look
  rw [List.map_map, lookup_zip_map]
  by_cases hm : c ∈ (sgTable rows).cols
  · simp [hm]
  · simp only [hm, if_false, Option.getD_none]
    have : ¬ (rows.any (fun r => !(r.cellOf c).isNan)) = true := by
      intro ha
      apply hm
      simp only [sgTable, List.mem_filter]
      exact ⟨hc, ha⟩
    have hnan : (r.cellOf c).isNan = true := by
      cases hn : (r.cellOf c).isNan with
      | true => rfl
      | false =>
        exfalso; apply this
        simp only [List.any_eq_true]
        exact ⟨r, hr, by simp [hn]⟩
    rw [map_nan q _ ((isNan_eq _).1 hnan)]

theorem asOpt_optCell (q : α → β) (o : Option α) : ((optCell o).map q).asOpt = some (o.map q) := by
  cases o <;> rfl

theorem wedgeColumns_lit : Gen.C17.wedgeColumns =
    ["tomo_num", "pixelsize", "tomo_x", "tomo_y", "tomo_z", "z_shift", "tilt_angle", "defocus", "exposure", "voltage", "amp_contrast", "cs"] := by
  decide

theorem loadSgRow_sgTable (q : α → β) (rows : List (WedgeRow α)) (r : WedgeRow α) (hr : r ∈ rows) :
    loadSgRow (sgTable rows).cols (((sgTable rows).cols.map r.cellOf).map (WCell.map q)) = some (r.map q) := by
  have L := fun c hc => look_sgTable q rows r hr c hc
  unfold loadSgRow
  rw [L "tomo_num" (by rw [wedgeColumns_lit]; decide), L "pixelsize" (by rw [wedgeColumns_lit]; decide),
    L "tomo_x" (by rw [wedgeColumns_lit]; decide), L "tomo_y" (by rw [wedgeColumns_lit]; decide),
    L "tomo_z" (by rw [wedgeColumns_lit]; decide), L "z_shift" (by rw [wedgeColumns_lit]; decide),
    L "tilt_angle" (by rw [wedgeColumns_lit]; decide), L "defocus" (by rw [wedgeColumns_lit]; decide),
    L "exposure" (by rw [wedgeColumns_lit]; decide), L "voltage" (by rw [wedgeColumns_lit]; decide),
    L "amp_contrast" (by rw [wedgeColumns_lit]; decide), L "cs" (by rw [wedgeColumns_lit]; decide)]
  have e1 : r.cellOf "tomo_num" = .int r.tomoNum := by simp [WedgeRow.cellOf]
  have e2 : r.cellOf "pixelsize" = .num r.pixelSize := by simp [WedgeRow.cellOf]
  have e3 : r.cellOf "tomo_x" = .num r.tomoX := by simp [WedgeRow.cellOf]
  have e4 : r.cellOf "tomo_y" = .num r.tomoY := by simp [WedgeRow.cellOf]
  have e5 : r.cellOf "tomo_z" = .num r.tomoZ := by simp [WedgeRow.cellOf]
  have e6 : r.cellOf "z_shift" = .num r.zShift := by simp [WedgeRow.cellOf]
  have e7 : r.cellOf "tilt_angle" = .num r.tiltAngle := by simp [WedgeRow.cellOf]
  have e8 : r.cellOf "defocus" = optCell r.defocus := by simp [WedgeRow.cellOf]
  have e9 : r.cellOf "exposure" = optCell r.exposure := by simp [WedgeRow.cellOf]
  have e10 : r.cellOf "voltage" = .num r.voltage := by simp [WedgeRow.cellOf]
  have e11 : r.cellOf "amp_contrast" = .num r.ampContrast := by simp [WedgeRow.cellOf]
  have e12 : r.cellOf "cs" = .num r.cs := by simp [WedgeRow.cellOf]
  rw [e1, e2, e3, e4, e5, e6, e7, e8, e9, e10, e11, e12]
  simp only [WCell.map, WCell.asInt, WCell.asNum]
  clear L e1 e2 e3 e4 e5 e6 e7 e8 e9 e10 e11 e12 hr
  rcases r with ⟨n, px, x, y, z, zs, ta, d, e, v, a, cs⟩
  cases d <;> cases e <;> rfl

theorem mapM_map_some {γ δ : Type} (f : γ → δ) (g : δ → Option γ') :
    ∀ (l : List γ) (out : γ → γ'), (∀ x ∈ l, g (f x) = some (out x)) → (l.map f).mapM g = some (l.map out)
  | [], _, _ => rfl
  | x :: l, out, h => by
    rw [List.map_cons, List.mapM_cons, h x (by simp), mapM_map_some f g l out (fun y hy => h y (by simp [hy]))]
    rfl

/-- **the written wedge list reads back row by row**: whatever conversion `q` the file layer applies to numbers,
`load_wedge_list_sg` of the written table gives the same rows in the same order, every number passed through `q`,
absent defocus / exposure staying absent -/
theorem load_sgTable (q : α → β) (rows : List (WedgeRow α)) :
    loadSg ((sgTable rows).mapCells q) = some (rows.map (WedgeRow.map q)) := by
  unfold loadSg StarTable.mapCells
  simp only
  have : (sgTable rows).rows = rows.map (fun r => (sgTable rows).cols.map r.cellOf) := rfl
  rw [this, List.map_map]
  exact mapM_map_some _ _ rows (WedgeRow.map q) (fun r hr => loadSgRow_sgTable q rows r hr)

/-! ### which columns are written -/

theorem isNan_optCell (o : Option α) : (optCell o).isNan = !o.isSome := by cases o <;> rfl

theorem sgTable_cols (rows : List (WedgeRow α)) (hne : rows ≠ []) :
    (sgTable rows).cols = wedgeHeader (rows.any (fun r => r.defocus.isSome)) (rows.any (fun r => r.exposure.isSome)) := by
  cases rows with
  | nil => exact absurd rfl hne
  | cons r rs =>
    have hd : ((r :: rs).any fun r => !(r.cellOf "defocus").isNan) = (r :: rs).any (fun r => r.defocus.isSome) := by
      congr 1; funext x; simp [WedgeRow.cellOf, isNan_optCell]
    have he : ((r :: rs).any fun r => !(r.cellOf "exposure").isNan) = (r :: rs).any (fun r => r.exposure.isSome) := by
      congr 1; funext x; simp [WedgeRow.cellOf, isNan_optCell]
    simp only [sgTable, wedgeHeader, wedgeColumns_lit, List.filter_cons, List.filter_nil, hd, he]
    simp [WedgeRow.cellOf, WCell.isNan]

/-! ### every row of a batch list comes from one tomogram and one tilt -/

theorem wedgeSingle_mem (c : Consts α) (t : Tomo α) (rows : List (WedgeRow α)) (h : wedgeSingle c t = some rows) :
    consistent t = true ∧ ∀ r ∈ rows, ∃ i tilt, t.tilts[i]? = some tilt ∧ r = mkWedgeRow c t tilt (optAt t.defocus i) (optAt t.dose i) := by
  unfold wedgeSingle at h
  by_cases hc : consistent t = true
  · simp only [hc, if_true, Option.some.injEq] at h
    subst h
    refine ⟨hc, ?_⟩
    intro r hr
    obtain ⟨p, hp, rfl⟩ := List.mem_map.1 hr
    have : t.tilts[p.2]? = some p.1 := List.mk_mem_zipIdx_iff_getElem?.1 (by cases p; exact hp)
    exact ⟨p.2, p.1, this, rfl⟩
  · simp [hc] at h

theorem wedgeBatch_mem (c : Consts α) : ∀ (ts : List (Tomo α)) (rows : List (WedgeRow α)), wedgeBatch c ts = some rows →
    ∀ r ∈ rows, ∃ t ∈ ts, ∃ rs, wedgeSingle c t = some rs ∧ r ∈ rs
  | [], rows, h, r, hr => by
    simp [wedgeBatch] at h; subst h; cases hr
  | t :: ts, rows, h, r, hr => by
    have hcons : wedgeBatch c (t :: ts) = match wedgeSingle c t, wedgeBatch c ts with
        | some r, some rs => some (r ++ rs)
        | _, _ => none := by
      simp only [wedgeBatch, List.mapM_cons]
      cases wedgeSingle c t <;> cases List.mapM (wedgeSingle c) ts <;> simp
    rw [hcons] at h
    cases hs : wedgeSingle c t with
    | none => simp [hs] at h
    | some r1 =>
      cases hb : wedgeBatch c ts with
      | none => simp [hs, hb] at h
      | some rs =>
        simp only [hs, hb, Option.some.injEq] at h
        subst h
        rcases List.mem_append.1 hr with e | e
        · exact ⟨t, by simp, r1, hs, e⟩
        · obtain ⟨t', ht', rs', h1, h2⟩ := wedgeBatch_mem c ts rs hb r e
          exact ⟨t', by simp [ht'], rs', h1, h2⟩

/-- a row carries a defocus / an exposure exactly when its tomogram was given a CTF / dose input -/
theorem wedgeBatch_flags (c : Consts α) (ts : List (Tomo α)) (rows : List (WedgeRow α)) (h : wedgeBatch c ts = some rows) :
    ∀ r ∈ rows, ∃ t ∈ ts, r.defocus.isSome = t.defocus.isSome ∧ r.exposure.isSome = t.dose.isSome := by
  intro r hr
  obtain ⟨t, ht, rs, hs, hrs⟩ := wedgeBatch_mem c ts rows h r hr
  obtain ⟨hc, hm⟩ := wedgeSingle_mem c t rs hs
  obtain ⟨i, tilt, hi, rfl⟩ := hm r hrs
  have hlt : i < t.tilts.length := (List.getElem?_eq_some_iff.1 hi).1
  refine ⟨t, ht, ?_, ?_⟩
  · simp only [mkWedgeRow]
    cases hd : t.defocus with
    | none => rfl
    | some d =>
      simp only [consistent, hd, Bool.and_eq_true, beq_iff_eq] at hc
      have : i < d.length := by omega
      simp [optAt, List.getElem?_eq_getElem this]
  · simp only [mkWedgeRow]
    cases hd : t.dose with
    | none => rfl
    | some d =>
      simp only [consistent, hd, Bool.and_eq_true, beq_iff_eq] at hc
      have : i < d.length := by omega
      simp [optAt, List.getElem?_eq_getElem this]

/-! ### grouping: distinct keys in ascending order -/

theorem pairwise_lt_eraseDups : ∀ (n : Nat) (l : List Int), l.length ≤ n → l.Pairwise (· ≤ ·) → l.eraseDups.Pairwise (· < ·)
  | _, [], _, _ => by simp
  | 0, _ :: _, h, _ => by simp at h
  | n + 1, a :: as, h, hp => by
    rw [List.eraseDups_cons]
    rw [List.pairwise_cons] at hp ⊢
    have hsub : (as.filter fun b => !b == a).Sublist as := List.filter_sublist
    refine ⟨?_, pairwise_lt_eraseDups n _ (by have := hsub.length_le; simp at h; omega) (hp.2.sublist hsub)⟩
    intro b hb
    rw [List.mem_eraseDups, List.mem_filter] at hb
    have h1 := hp.1 b hb.1
    have h2 : b ≠ a := by simpa using hb.2
    omega

theorem groupKeys_spec (ids : List Int) :
    (groupKeys ids).Pairwise (· < ·) ∧ ∀ k, k ∈ groupKeys ids ↔ k ∈ ids := by
  constructor
  · apply pairwise_lt_eraseDups _ _ (Nat.le_refl _)
    have h := List.pairwise_mergeSort (le := fun (a b : Int) => decide (a ≤ b))
      (fun a b c hab hbc => by simp only [decide_eq_true_eq] at *; omega)
      (fun a b => by simp only [Bool.or_eq_true, decide_eq_true_eq]; omega) ids
    exact h.imp (fun hab => by simpa using hab)
  · intro k
    simp only [groupKeys, List.mem_eraseDups]
    exact (List.mergeSort_perm ids _).mem_iff

theorem wedgeEm_some (le : α → α → Bool) : ∀ (ts : List (Int × List α)), (∀ t ∈ ts, t.2 ≠ []) → ∃ out, wedgeEm le ts = some out
  | [], _ => ⟨[], rfl⟩
  | t :: ts, h => by
    obtain ⟨out, ho⟩ := wedgeEm_some le ts (fun x hx => h x (by simp [hx]))
    have ht := h t (by simp)
    unfold wedgeEm at ho ⊢
    rw [List.mapM_cons, ho]
    cases hx : t.2 with
    | nil => exact absurd hx ht
    | cons x xs =>
      simp only [minOf, maxOf]
      exact ⟨_, rfl⟩

/-! ### the STAR layer as a parameter (property C02) -/

/-- tables the STAR layer is asked to carry here: a duplicate-free header, at least one row, every row as long as the
header, no NaN cell -/
def StarWF (t : StarTable α) : Prop :=
  t.cols.Nodup ∧ t.rows ≠ [] ∧ (∀ r ∈ t.rows, r.length = t.cols.length) ∧ ∀ r ∈ t.rows, ∀ c ∈ r, c ≠ .nan

/-- the assumption on the STAR layer (property C02, proved elsewhere): writing a well-formed table under any block
name and reading the file back (`Starfile.read` returns the first block whatever its name) gives the same header and
rows, each number passed through `q` (rounding to the writer's 6 decimals, printing, parsing), integers unchanged -/
def StarRoundTrip {F : Type} (q : α → β) (write : String → StarTable α → F) (read : F → Option (StarTable β)) : Prop :=
  ∀ (spec : String) (t : StarTable α), StarWF t → read (write spec t) = some (t.mapCells q)

theorem cellOf_nan (r : WedgeRow α) (c : String) (hc : c ∈ Gen.C17.wedgeColumns) (h : r.cellOf c = .nan) :
    (c = "defocus" ∧ r.defocus = none) ∨ (c = "exposure" ∧ r.exposure = none) := by
  rw [wedgeColumns_lit] at hc
  simp only [List.mem_cons, List.not_mem_nil, or_false] at hc
  rcases hc with rfl | rfl | rfl | rfl | rfl | rfl | rfl | rfl | rfl | rfl | rfl | rfl
  all_goals first
    | (simp [WedgeRow.cellOf] at h; done)
    | (left; refine ⟨rfl, ?_⟩; cases hd : r.defocus <;> simp [WedgeRow.cellOf, optCell, hd] at h ⊢)
    | (right; refine ⟨rfl, ?_⟩; cases hd : r.exposure <;> simp [WedgeRow.cellOf, optCell, hd] at h ⊢)

/-- with a CTF / dose input given for all tomograms or for none (the only situations `create_wedge_list_sg_batch` can
produce), the written table has no NaN cell and is one the STAR layer accepts -/
theorem sgTable_starWF (rows : List (WedgeRow α)) (hne : rows ≠ []) (hasCtf hasDose : Bool)
    (hd : ∀ r ∈ rows, r.defocus.isSome = hasCtf) (he : ∀ r ∈ rows, r.exposure.isSome = hasDose) : StarWF (sgTable rows) := by
  refine ⟨?_, ?_, ?_, ?_⟩
  · have : Gen.C17.wedgeColumns.Nodup := by rw [wedgeColumns_lit]; decide
    exact List.Pairwise.sublist List.filter_sublist this
  · simpa [sgTable] using hne
  · intro r hr
    simp only [sgTable, List.mem_map] at hr
    obtain ⟨w, _, rfl⟩ := hr
    simp [sgTable]
  · intro cells hcells c hc hnan
    simp only [sgTable, List.mem_map] at hcells
    obtain ⟨r, hr, rfl⟩ := hcells
    obtain ⟨name, hname, rfl⟩ := List.mem_map.1 hc
    obtain ⟨hcol, hany⟩ := List.mem_filter.1 hname
    simp only [List.any_eq_true, Bool.not_eq_true'] at hany
    obtain ⟨r2, hr2, hnot⟩ := hany
    rcases cellOf_nan r name hcol hnan with ⟨rfl, h0⟩ | ⟨rfl, h0⟩
    · have h1 := hd r hr; have h2 := hd r2 hr2
      rw [h0] at h1
      have : r2.defocus = none := by
        cases h3 : r2.defocus with
        | none => rfl
        | some x => rw [h3] at h2; rw [← h1] at h2; cases h2
      simp [WedgeRow.cellOf, optCell, this, WCell.isNan] at hnot
    · have h1 := he r hr; have h2 := he r2 hr2
      rw [h0] at h1
      have : r2.exposure = none := by
        cases h3 : r2.exposure with
        | none => rfl
        | some x => rw [h3] at h2; rw [← h1] at h2; cases h2
      simp [WedgeRow.cellOf, optCell, this, WCell.isNan] at hnot

end CryoCat.C17
