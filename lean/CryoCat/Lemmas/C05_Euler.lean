import CryoCat.Lemmas.C05
import Mathlib.Tactic.LinearCombination
import Mathlib.Tactic.FieldSimp
import Mathlib.Tactic.Positivity
import Mathlib.Analysis.SpecialFunctions.Complex.Arg
/-! C05 — **every proper rotation has zxz Euler angles** (used for the non-vacuity of the global
scipy assumption `∀ m, IsRot m → EulerOK S m`, and useful to every property that stores orientations as
zxz triples: C03, C06, C10, C18).

* algebra (any commutative ring): a proper rotation equals its cofactor matrix, hence `M·Mᵀ = 1` too;
* algebra (any field): away from gimbal lock, with `s² = 1 − m₃₃²`, `s ≠ 0`, the six numbers
  `(cφ,sφ) = (m₃₂,m₃₁)/s`, `(cθ,sθ) = (m₃₃,s)`, `(cψ,sψ) = (−m₂₃,m₁₃)/s` are three points of the unit
  circle and `zxz` of them is `M`;
* ordered field: at gimbal lock (`m₃₃² = 1`) `M = zxz (m₁₁,m₂₁) (1,0) (1,0)` resp. `zxz (m₁₁,−m₁₂) (−1,0) (1,0)`;
* over ℝ: every point of the unit circle is (cos, sin) of an angle in degrees, `sqrt (1 − m₃₃²)` exists, so an
  explicit extraction `eulerR` satisfies `EulerOK` for EVERY proper rotation, and `realSvc` meets all the
  hypotheses of `Props/C05` at once. -/
namespace CryoCat.C05
open CryoCat

section ring
variable {α : Type} [CommRing α]

/-- a proper rotation is its own cofactor matrix (entry by entry) -/
theorem IsRot.cofactor {m : M3 α} (h : IsRot m) :
    m.a11 = m.a22 * m.a33 - m.a23 * m.a32 ∧ m.a12 = m.a23 * m.a31 - m.a21 * m.a33 ∧ m.a13 = m.a21 * m.a32 - m.a22 * m.a31 ∧
    m.a21 = m.a13 * m.a32 - m.a12 * m.a33 ∧ m.a22 = m.a11 * m.a33 - m.a13 * m.a31 ∧ m.a23 = m.a12 * m.a31 - m.a11 * m.a32 ∧
    m.a31 = m.a12 * m.a23 - m.a13 * m.a22 ∧ m.a32 = m.a13 * m.a21 - m.a11 * m.a23 ∧ m.a33 = m.a11 * m.a22 - m.a12 * m.a21 := by
  obtain ⟨ho, hd⟩ := h
  have e := ho
  simp only [M3.Orth, M3.mul_def, M3.mul, M3.transpose, M3.one] at e
  injection e with e11 e12 e13 e21 e22 e23 e31 e32 e33
  simp only [M3.det] at hd
  obtain ⟨a11, a12, a13, a21, a22, a23, a31, a32, a33⟩ := m
  simp only at *
  refine ⟨?_, ?_, ?_, ?_, ?_, ?_, ?_, ?_, ?_⟩
  · linear_combination (-a11) * hd + (a22 * a33 - a23 * a32) * e11 + (a23 * a31 - a21 * a33) * e12 + (a21 * a32 - a22 * a31) * e13
  · linear_combination (-a12) * hd + (a22 * a33 - a23 * a32) * e21 + (a23 * a31 - a21 * a33) * e22 + (a21 * a32 - a22 * a31) * e23
  · linear_combination (-a13) * hd + (a22 * a33 - a23 * a32) * e31 + (a23 * a31 - a21 * a33) * e32 + (a21 * a32 - a22 * a31) * e33
  · linear_combination (-a21) * hd + (a13 * a32 - a12 * a33) * e11 + (a11 * a33 - a13 * a31) * e12 + (a12 * a31 - a11 * a32) * e13
  · linear_combination (-a22) * hd + (a13 * a32 - a12 * a33) * e21 + (a11 * a33 - a13 * a31) * e22 + (a12 * a31 - a11 * a32) * e23
  · linear_combination (-a23) * hd + (a13 * a32 - a12 * a33) * e31 + (a11 * a33 - a13 * a31) * e32 + (a12 * a31 - a11 * a32) * e33
  · linear_combination (-a31) * hd + (a12 * a23 - a13 * a22) * e11 + (a13 * a21 - a11 * a23) * e12 + (a11 * a22 - a12 * a21) * e13
  · linear_combination (-a32) * hd + (a12 * a23 - a13 * a22) * e21 + (a13 * a21 - a11 * a23) * e22 + (a11 * a22 - a12 * a21) * e23
  · linear_combination (-a33) * hd + (a12 * a23 - a13 * a22) * e31 + (a13 * a21 - a11 * a23) * e32 + (a11 * a22 - a12 * a21) * e33

/-- hence its rows are orthonormal too: the third row has length 1 -/
theorem IsRot.row3 {m : M3 α} (h : IsRot m) : m.a31 * m.a31 + m.a32 * m.a32 + m.a33 * m.a33 = 1 := by
  obtain ⟨_, _, _, _, _, _, c31, c32, c33⟩ := h.cofactor
  have hd := h.2
  simp only [M3.det] at hd
  linear_combination m.a31 * c31 + m.a32 * c32 + m.a33 * c33 + hd

/-- the columns are orthonormal by definition: first and third column have length 1 -/
theorem IsRot.col3 {m : M3 α} (h : IsRot m) : m.a13 * m.a13 + m.a23 * m.a23 + m.a33 * m.a33 = 1 := by
  have e := h.1
  simp only [M3.Orth, M3.mul_def, M3.mul, M3.transpose, M3.one] at e
  injection e

theorem IsRot.col1 {m : M3 α} (h : IsRot m) : m.a11 * m.a11 + m.a21 * m.a21 + m.a31 * m.a31 = 1 := by
  have e := h.1
  simp only [M3.Orth, M3.mul_def, M3.mul, M3.transpose, M3.one] at e
  injection e

/-- the upper-left 2×2 block of a proper rotation in terms of its third row and column -/
theorem IsRot.block {m : M3 α} (h : IsRot m) :
    m.a11 * (1 - m.a33 * m.a33) = -(m.a23 * m.a32) - m.a13 * m.a33 * m.a31 ∧
    m.a12 * (1 - m.a33 * m.a33) = m.a23 * m.a31 - m.a13 * m.a33 * m.a32 ∧
    m.a21 * (1 - m.a33 * m.a33) = m.a13 * m.a32 - m.a23 * m.a33 * m.a31 ∧
    m.a22 * (1 - m.a33 * m.a33) = -(m.a13 * m.a31) - m.a23 * m.a33 * m.a32 := by
  obtain ⟨c11, c12, _, c21, c22, _, _, _, _⟩ := h.cofactor
  refine ⟨?_, ?_, ?_, ?_⟩
  · linear_combination c11 + m.a33 * c22
  · linear_combination c12 - m.a33 * c21
  · linear_combination c21 - m.a33 * c12
  · linear_combination c22 + m.a33 * c11

end ring

section field
variable {α : Type} [_root_.Field α]

/-- **away from gimbal lock**: with `s² = 1 − m₃₃²`, `s ≠ 0`, the pairs `(m₃₂,m₃₁)/s`, `(m₃₃,s)`, `(−m₂₃,m₁₃)/s`
lie on the unit circle and are zxz Euler angles (phi, theta, psi) of `m` -/
theorem zxz_of_rot_generic {m : M3 α} (h : IsRot m) {s : α} (hs : s * s = 1 - m.a33 * m.a33) (hs0 : s ≠ 0) :
    (m.a32 / s) * (m.a32 / s) + (m.a31 / s) * (m.a31 / s) = 1 ∧ m.a33 * m.a33 + s * s = 1 ∧
    (-m.a23 / s) * (-m.a23 / s) + (m.a13 / s) * (m.a13 / s) = 1 ∧
    zxz (m.a32 / s) (m.a31 / s) m.a33 s (-m.a23 / s) (m.a13 / s) = m := by
  have hss : s * s ≠ 0 := mul_ne_zero hs0 hs0
  have key : ∀ x y : α, y * (s * s) = x → x / (s * s) = y := by
    intro x y e; rw [div_eq_iff hss]; exact e.symm
  obtain ⟨b11, b12, b21, b22⟩ := h.block
  have r3 := h.row3
  have c3 := h.col3
  refine ⟨?_, ?_, ?_, ?_⟩
  · have : (m.a32 / s) * (m.a32 / s) + (m.a31 / s) * (m.a31 / s) = (m.a32 * m.a32 + m.a31 * m.a31) / (s * s) := by ring
    rw [this]; apply key; rw [hs]; linear_combination (-1 : α) * r3
  · rw [hs]; ring
  · have : (-m.a23 / s) * (-m.a23 / s) + (m.a13 / s) * (m.a13 / s) = (m.a23 * m.a23 + m.a13 * m.a13) / (s * s) := by ring
    rw [this]; apply key; rw [hs]; linear_combination (-1 : α) * c3
  · obtain ⟨a11, a12, a13, a21, a22, a23, a31, a32, a33⟩ := m
    simp only at *
    simp only [zxz, rz, rx, M3.mul_def, M3.mul]
    congr 1
    · have : (-a23 / s * 1 + -(a13 / s) * 0 + 0 * 0) * (a32 / s) + (-a23 / s * 0 + -(a13 / s) * a33 + 0 * s) * (a31 / s) + (-a23 / s * 0 + -(a13 / s) * -s + 0 * a33) * 0
          = (-(a23 * a32) - a13 * a33 * a31) / (s * s) := by ring
      rw [this]; apply key; rw [hs]; exact b11
    · have : (-a23 / s * 1 + -(a13 / s) * 0 + 0 * 0) * -(a31 / s) + (-a23 / s * 0 + -(a13 / s) * a33 + 0 * s) * (a32 / s) + (-a23 / s * 0 + -(a13 / s) * -s + 0 * a33) * 0
          = (a23 * a31 - a13 * a33 * a32) / (s * s) := by ring
      rw [this]; apply key; rw [hs]; exact b12
    · field_simp; ring
    · have : (a13 / s * 1 + -a23 / s * 0 + 0 * 0) * (a32 / s) + (a13 / s * 0 + -a23 / s * a33 + 0 * s) * (a31 / s) + (a13 / s * 0 + -a23 / s * -s + 0 * a33) * 0
          = (a13 * a32 - a23 * a33 * a31) / (s * s) := by ring
      rw [this]; apply key; rw [hs]; exact b21
    · have : (a13 / s * 1 + -a23 / s * 0 + 0 * 0) * -(a31 / s) + (a13 / s * 0 + -a23 / s * a33 + 0 * s) * (a32 / s) + (a13 / s * 0 + -a23 / s * -s + 0 * a33) * 0
          = (-(a13 * a31) - a23 * a33 * a32) / (s * s) := by ring
      rw [this]; apply key; rw [hs]; exact b22
    · field_simp; ring
    · field_simp; ring
    · field_simp; ring
    · ring

end field

section ordered
variable {α : Type} [_root_.Field α] [LinearOrder α] [IsStrictOrderedRing α]

/-- at gimbal lock the third row and column are ±e₃ -/
theorem IsRot.gimbal_zero {m : M3 α} (h : IsRot m) (h33 : m.a33 * m.a33 = 1) :
    m.a13 = 0 ∧ m.a23 = 0 ∧ m.a31 = 0 ∧ m.a32 = 0 := by
  have c3 := h.col3
  have r3 := h.row3
  have e1 : m.a13 * m.a13 + m.a23 * m.a23 = 0 := by linear_combination c3 - h33
  have e2 : m.a31 * m.a31 + m.a32 * m.a32 = 0 := by linear_combination r3 - h33
  obtain ⟨z1, z2⟩ := (mul_self_add_mul_self_eq_zero).1 e1
  obtain ⟨z3, z4⟩ := (mul_self_add_mul_self_eq_zero).1 e2
  exact ⟨z1, z2, z3, z4⟩

/-- **gimbal lock, theta = 0**: `m = Rz(phi)` with (cos phi, sin phi) = (m₁₁, m₂₁) -/
theorem zxz_of_rot_gimbal_pos {m : M3 α} (h : IsRot m) (h33 : m.a33 = 1) :
    m.a11 * m.a11 + m.a21 * m.a21 = 1 ∧ zxz m.a11 m.a21 1 0 1 0 = m := by
  obtain ⟨z13, z23, z31, z32⟩ := h.gimbal_zero (by rw [h33]; ring)
  obtain ⟨_, c12, _, _, c22, _, _, _, _⟩ := h.cofactor
  have c1 := h.col1
  obtain ⟨a11, a12, a13, a21, a22, a23, a31, a32, a33⟩ := m
  simp only at *
  subst h33 z13 z23 z31 z32
  refine ⟨by linear_combination c1, ?_⟩
  simp only [zxz, rz, rx, M3.mul_def, M3.mul]
  congr 1
  · ring
  · linear_combination (-1 : α) * c12
  · ring
  · ring
  · linear_combination (-1 : α) * c22
  · ring
  · ring
  · ring
  · ring

/-- **gimbal lock, theta = 180°**: (cos phi, sin phi) = (m₁₁, −m₁₂), psi = 0 -/
theorem zxz_of_rot_gimbal_neg {m : M3 α} (h : IsRot m) (h33 : m.a33 = -1) :
    m.a11 * m.a11 + (-m.a12) * (-m.a12) = 1 ∧ zxz m.a11 (-m.a12) (-1) 0 1 0 = m := by
  obtain ⟨z13, z23, z31, z32⟩ := h.gimbal_zero (by rw [h33]; ring)
  obtain ⟨_, _, _, c21, c22, _, _, _, _⟩ := h.cofactor
  have c1 := h.col1
  obtain ⟨a11, a12, a13, a21, a22, a23, a31, a32, a33⟩ := m
  simp only at *
  subst h33 z13 z23 z31 z32
  refine ⟨by linear_combination c1 - (a21 + a12) * c21, ?_⟩
  simp only [zxz, rz, rx, M3.mul_def, M3.mul]
  congr 1
  · ring
  · ring
  · ring
  · linear_combination (-1 : α) * c21
  · linear_combination (-1 : α) * c22
  · ring
  · ring
  · ring
  · ring

/-- **every proper rotation has zxz Euler angles** — in any ordered field in which `1 − m₃₃²` has a square
root (always the case over ℝ): three points of the unit circle, the middle one with non-negative sine
(theta in [0°, 180°] as scipy returns it), whose `zxz` is the matrix -/
theorem exists_zxz_of_rot {m : M3 α} (h : IsRot m) (hsq : ∃ s : α, 0 ≤ s ∧ s * s = 1 - m.a33 * m.a33) :
    ∃ cp sp ct st cs ss : α, cp * cp + sp * sp = 1 ∧ ct * ct + st * st = 1 ∧ cs * cs + ss * ss = 1 ∧ 0 ≤ st ∧
      zxz cp sp ct st cs ss = m := by
  obtain ⟨s, hs0, hs⟩ := hsq
  by_cases hz : s = 0
  · have h33 : m.a33 * m.a33 = 1 := by rw [hz] at hs; linear_combination hs
    rcases mul_self_eq_one_iff.1 h33 with hp | hn
    · obtain ⟨u, e⟩ := zxz_of_rot_gimbal_pos h hp
      exact ⟨_, _, 1, 0, 1, 0, u, by ring, by ring, le_refl 0, e⟩
    · obtain ⟨u, e⟩ := zxz_of_rot_gimbal_neg h hn
      exact ⟨_, _, -1, 0, 1, 0, u, by ring, by ring, le_refl 0, e⟩
  · obtain ⟨u1, u2, u3, e⟩ := zxz_of_rot_generic h hs hz
    exact ⟨_, _, _, _, _, _, u1, u2, u3, hs0, e⟩

end ordered

/-! ### over ℝ: true cosine / sine in degrees, an explicit Euler extraction, true rounding -/
section real
open Real

/-- the angle in degrees of the point (c, s) of the unit circle (`atan2(s, c)` in degrees) -/
noncomputable def degOf (c s : ℝ) : ℝ := Complex.arg ⟨c, s⟩ * (180 / π)

/-- (cos, sin) of an angle given in degrees — what scipy computes for `degrees=True` -/
noncomputable def csR (a : ℝ) : ℝ × ℝ := (cos (a * (π / 180)), sin (a * (π / 180)))

theorem csR_unit (a : ℝ) : (csR a).1 * (csR a).1 + (csR a).2 * (csR a).2 = 1 := by
  have := cos_sq_add_sin_sq (a * (π / 180))
  simp only [csR]; nlinarith [this]

theorem csR_neg (a : ℝ) : csR (-a) = ((csR a).1, -(csR a).2) := by
  simp only [csR, neg_mul, cos_neg, sin_neg]

theorem csR_degOf (c s : ℝ) (h : c * c + s * s = 1) : csR (degOf c s) = (c, s) := by
  have hpi : π ≠ 0 := pi_ne_zero
  have ha : degOf c s * (π / 180) = Complex.arg ⟨c, s⟩ := by unfold degOf; field_simp
  have hn : ‖(⟨c, s⟩ : ℂ)‖ = 1 := by
    rw [Complex.norm_def, Complex.normSq_mk, h, sqrt_one]
  have hne : (⟨c, s⟩ : ℂ) ≠ 0 := by
    intro e; rw [e, norm_zero] at hn; exact zero_ne_one hn
  simp only [csR, ha]
  rw [Complex.cos_arg hne, Complex.sin_arg, hn]
  simp

theorem csR_zero : csR 0 = (1, 0) := by simp [csR]
theorem csR_180 : csR 180 = (-1, 0) := by
  have : (180 : ℝ) * (π / 180) = π := by field_simp
  simp [csR, this]

open Classical in
/-- an explicit zxz Euler extraction (what `as_euler("zxz", degrees=True)` does, including its gimbal-lock
convention psi = 0): theta from m₃₃, phi from the third row, psi from the third column -/
noncomputable def eulerR (m : M3 ℝ) : ℝ × ℝ × ℝ :=
  let s := sqrt (1 - m.a33 * m.a33)
  if s = 0 then
    if 0 ≤ m.a33 then (degOf m.a11 m.a21, 0, 0) else (degOf m.a11 (-m.a12), 180, 0)
  else (degOf (m.a32 / s) (m.a31 / s), degOf m.a33 s, degOf (-m.a23 / s) (m.a13 / s))

/-- `decimal … ROUND_HALF_UP` on a real number: half away from zero -/
noncomputable def rndR (v : ℝ) : Int := if 0 ≤ v then ⌊v + 1 / 2⌋ else -⌊-v + 1 / 2⌋

/-- the numeric services over ℝ: true trigonometry in degrees, a true Euler extraction, true rounding -/
noncomputable def realSvc : Svc ℝ := { cs := csR, euler := eulerR, rnd := rndR }

theorem rndR_close (v : ℝ) : |v - ((rndR v : Int) : ℝ)| ≤ 1 / 2 := by
  unfold rndR
  split
  · have h1 := Int.floor_le (v + 1 / 2)
    have h2 := Int.lt_floor_add_one (v + 1 / 2)
    rw [abs_le]; constructor <;> linarith
  · have h1 := Int.floor_le (-v + 1 / 2)
    have h2 := Int.lt_floor_add_one (-v + 1 / 2)
    push_cast
    rw [abs_le]; constructor <;> linarith

theorem realSvc_unit (a : ℝ) : (realSvc.cs a).1 * (realSvc.cs a).1 + (realSvc.cs a).2 * (realSvc.cs a).2 = 1 := csR_unit a

theorem realSvc_csOdd : CsOdd realSvc := fun a => csR_neg a

/-- **`EulerOK` holds for every proper rotation** with the services over ℝ -/
theorem realSvc_eulerOK (m : M3 ℝ) (h : IsRot m) : EulerOK realSvc m := by
  have c3 := h.col3
  have hnn : 0 ≤ 1 - m.a33 * m.a33 := by nlinarith [mul_self_nonneg m.a13, mul_self_nonneg m.a23]
  have hs : sqrt (1 - m.a33 * m.a33) * sqrt (1 - m.a33 * m.a33) = 1 - m.a33 * m.a33 := mul_self_sqrt hnn
  unfold EulerOK eulerMat
  simp only [realSvc, eulerR]
  by_cases hz : sqrt (1 - m.a33 * m.a33) = 0
  · have h33 : m.a33 * m.a33 = 1 := by rw [hz] at hs; linarith
    rw [if_pos hz]
    by_cases hp : 0 ≤ m.a33
    · have e : m.a33 = 1 := by
        rcases mul_self_eq_one_iff.1 h33 with e | e
        · exact e
        · rw [e] at hp; norm_num at hp
      obtain ⟨u, ez⟩ := zxz_of_rot_gimbal_pos h e
      rw [if_pos hp]
      simp only [csR_degOf _ _ u, csR_zero]
      exact ez
    · have e : m.a33 = -1 := by
        rcases mul_self_eq_one_iff.1 h33 with e | e
        · rw [e] at hp; norm_num at hp
        · exact e
      obtain ⟨u, ez⟩ := zxz_of_rot_gimbal_neg h e
      rw [if_neg hp]
      simp only [csR_degOf _ _ u, csR_zero, csR_180]
      exact ez
  · obtain ⟨u1, u2, u3, ez⟩ := zxz_of_rot_generic h hs hz
    rw [if_neg hz]
    simp only [csR_degOf _ _ u1, csR_degOf _ _ u2, csR_degOf _ _ u3]
    exact ez

/-- over ℝ every proper rotation has zxz Euler ANGLES (in degrees, theta in [0°, 180°] up to the
choice made by `degOf`) -/
theorem exists_euler_angles (m : M3 ℝ) (h : IsRot m) :
    ∃ phi theta psi : ℝ, zxz (csR phi).1 (csR phi).2 (csR theta).1 (csR theta).2 (csR psi).1 (csR psi).2 = m :=
  ⟨_, _, _, realSvc_eulerOK m h⟩

end real
end CryoCat.C05
