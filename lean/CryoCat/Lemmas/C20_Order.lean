import CryoCat.Lemmas.C20_Greedy
import Mathlib.Order.Defs.LinearOrder
import Mathlib.Order.Basic
/-! C20 — the tuple order and the sort, over any linear order. -/
namespace CryoCat.C20
variable {α : Type} [LinearOrder α]

/-- lexicographic order on `(d, s, t)` as a proposition -/
def LexLe (a b : Cand α) : Prop := a.d < b.d ∨ (a.d = b.d ∧ (a.s < b.s ∨ (a.s = b.s ∧ a.t ≤ b.t)))

theorem candLe_iff (a b : Cand α) : candLe a b = true ↔ LexLe a b := by
  unfold candLe LexLe
  simp only [Bool.or_eq_true, Bool.and_eq_true, decide_eq_true_eq, Bool.not_eq_true', decide_eq_false_iff_not,
    beq_iff_eq, not_lt]
  constructor
  · rintro (h | ⟨h1, h2⟩)
    · exact Or.inl h
    · rcases lt_or_eq_of_le h1 with h | h
      · exact Or.inl h
      · exact Or.inr ⟨h, h2⟩
  · rintro (h | ⟨h1, h2⟩)
    · exact Or.inl h
    · exact Or.inr ⟨le_of_eq h1, h2⟩

theorem LexLe.d_le {a b : Cand α} (h : LexLe a b) : a.d ≤ b.d := by
  rcases h with h | ⟨h, _⟩
  · exact le_of_lt h
  · exact le_of_eq h

theorem lexLe_trans {a b c : Cand α} (h1 : LexLe a b) (h2 : LexLe b c) : LexLe a c := by
  unfold LexLe at *
  rcases h1 with h1 | ⟨e1, h1⟩
  · rcases h2 with h2 | ⟨e2, _⟩
    · exact Or.inl (lt_trans h1 h2)
    · exact Or.inl (e2 ▸ h1)
  · rcases h2 with h2 | ⟨e2, h2⟩
    · exact Or.inl (e1 ▸ h2)
    · refine Or.inr ⟨e1.trans e2, ?_⟩
      omega

theorem lexLe_total (a b : Cand α) : LexLe a b ∨ LexLe b a := by
  unfold LexLe
  rcases lt_trichotomy a.d b.d with h | h | h
  · exact Or.inl (Or.inl h)
  · have : (a.s < b.s ∨ (a.s = b.s ∧ a.t ≤ b.t)) ∨ (b.s < a.s ∨ (b.s = a.s ∧ b.t ≤ a.t)) := by omega
    rcases this with t | t
    · exact Or.inl (Or.inr ⟨h, t⟩)
    · exact Or.inr (Or.inr ⟨h.symm, t⟩)
  · exact Or.inr (Or.inl h)

theorem sortCands_pairwise (cs : List (Cand α)) : (sortCands cs).Pairwise LexLe := by
  have h := List.pairwise_mergeSort (le := candLe)
    (fun a b c h1 h2 => (candLe_iff a c).2 (lexLe_trans ((candLe_iff a b).1 h1) ((candLe_iff b c).1 h2)))
    (fun a b => by
      rcases lexLe_total a b with h | h
      · simp [(candLe_iff a b).2 h]
      · simp [(candLe_iff b a).2 h]) cs
  exact h.imp (fun {a b} hab => (candLe_iff a b).1 hab)

theorem mem_sortCands (cs : List (Cand α)) (c : Cand α) : c ∈ sortCands cs ↔ c ∈ cs :=
  List.mem_mergeSort

end CryoCat.C20
