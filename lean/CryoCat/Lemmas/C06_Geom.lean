import CryoCat.Lemmas.C06
import Mathlib.Tactic.FieldSimp
import Mathlib.Tactic.NormNum
/-! C06 — normals, cone and in-plane helpers over an ordered field with an abstract square root. -/
namespace CryoCat.C06

section ring
variable {α : Type} [CommRing α]
/-- Lagrange's identity in dimension 3 -/
theorem lagrange3 (u v : V3 α) :
    V3.normSq u * V3.normSq v - V3.dot u v * V3.dot u v = V3.normSq (V3.cross u v) := by
  simp only [V3.normSq, V3.dot, V3.cross]; ring

theorem zaxis_normSq (cp sp ct st cs ss : α) (ht : ct*ct + st*st = 1) (hs : cs*cs + ss*ss = 1) :
    V3.normSq (zaxisOfEuler cp sp ct st cs ss) = 1 := by
  rw [zaxisOfEuler_eq]; simp only [V3.normSq, V3.dot]
  linear_combination (st*st) * hs + ht
end ring

section field
variable {α : Type} [Field α] [LinearOrder α] [IsStrictOrderedRing α]

/-- what the theorems assume about the platform square root -/
structure SqrtSpec (L : Libm α) : Prop where
  mul_self : ∀ a, 0 ≤ a → L.sqrt a * L.sqrt a = a
  nonneg : ∀ a, 0 ≤ L.sqrt a

theorem V3.normSq_nonneg (u : V3 α) : 0 ≤ V3.normSq u := by
  simp only [V3.normSq, V3.dot]
  nlinarith [mul_self_nonneg u.x, mul_self_nonneg u.y, mul_self_nonneg u.z]

theorem dot_sq_le (u v : V3 α) : V3.dot u v * V3.dot u v ≤ V3.normSq u * V3.normSq v := by
  have := lagrange3 u v
  have := V3.normSq_nonneg (V3.cross u v)
  linarith

theorem SqrtSpec.sqrt_one {L : Libm α} (h : SqrtSpec L) : L.sqrt 1 = 1 := by
  have h1 := h.mul_self 1 zero_le_one
  have h0 := h.nonneg 1
  have : (L.sqrt 1 - 1) * (L.sqrt 1 + 1) = 0 := by linear_combination h1
  rcases mul_eq_zero.1 this with e | e
  · linarith
  · linarith

theorem SqrtSpec.ne_zero {L : Libm α} (h : SqrtSpec L) {a : α} (ha : 0 ≤ a) (hne : a ≠ 0) : L.sqrt a ≠ 0 := by
  intro e
  have := h.mul_self a ha
  rw [e, mul_zero] at this
  exact hne this.symm

theorem SqrtSpec.eq_zero {L : Libm α} (h : SqrtSpec L) : L.sqrt 0 = 0 := by
  have := h.mul_self 0 le_rfl
  exact mul_self_eq_zero.1 this

theorem scale_one (p : V3 α) : scale p 1 = p := by
  ext <;> simp [scale]

theorem normSq_scale (p : V3 α) (n : α) (hn : n * n = V3.normSq p) (h0 : V3.normSq p ≠ 0) :
    V3.normSq (scale p n) = 1 := by
  have hn0 : n ≠ 0 := by
    intro e; rw [e, mul_zero] at hn; exact h0 hn.symm
  simp only [V3.normSq, V3.dot] at hn h0 ⊢
  simp only [scale]
  field_simp
  linear_combination -hn

theorem normSq_scale_gen (p : V3 α) (n : α) (hn0 : n ≠ 0) :
    V3.normSq (scale p n) * (n * n) = V3.normSq p := by
  simp only [V3.normSq, V3.dot, scale]
  field_simp

theorem sum_normSq_unit (pts : List (V3 α)) (h : ∀ p ∈ pts, V3.normSq p = 1) :
    (pts.map V3.normSq).foldr (· + ·) 0 = (pts.length : α) := by
  induction pts with
  | nil => simp
  | cons a l ih =>
    simp only [List.map_cons, List.foldr_cons, List.length_cons, Nat.cast_add, Nat.cast_one]
    rw [ih (fun p hp => h p (List.mem_cons_of_mem _ hp)), h a (by simp)]; ring

end field
end CryoCat.C06
