import CryoCat.Lemmas.C19_Suffix
/-! C19 — `add_chain_prefix` preserves `ChainsWellNumbered` and the link invariant, both when it
only attaches the new chain in front of an existing one (`class_max = None`) and in a two-sided
merge (`class_max = (cl_max, fresh id)`), with and without cutting the head of the target chain. -/
namespace CryoCat.C19
set_option linter.unusedSectionVars false
variable {α : Type} [LE α] [LT α] [DecidableLE α] [DecidableLT α] [DecidableEq α]

/-- prefix attach (`class_max = None`): the new chain (object `gc`, orders `1..top`) takes the
target's object id `g`; the target chain's members before order `a` (its head) get the id `gc`, the
rest moves behind the new chain -/
def fPreN (gc g a top : Int) (dm : α) (r : Row α) : Row α :=
  if r.obj = gc then
    if r.ord = top then { r with obj := g, dist := dm } else { r with obj := g }
  else if r.obj = g then
    if r.ord < a then { r with obj := gc } else { r with ord := r.ord + (top - (a - 1)) }
  else r

/-- two-sided merge: the target chain `g` from order `a` on moves behind object `gc` (which ends
with the new chain); its head gets the fresh id -/
def fPreS (gc g a top fresh : Int) (dm : α) (r : Row α) : Row α :=
  if r.obj = g then
    if r.ord < a then { r with obj := fresh } else { r with obj := gc, ord := r.ord + (top - (a - 1)) }
  else if r.obj = gc ∧ r.ord = top then { r with dist := dm } else r

theorem fPreN_idx (gc g a top : Int) (dm : α) (r : Row α) : (fPreN gc g a top dm r).idx = r.idx := by
  unfold fPreN; repeat' split
  all_goals rfl

theorem fPreS_idx (gc g a top fresh : Int) (dm : α) (r : Row α) : (fPreS gc g a top fresh dm r).idx = r.idx := by
  unfold fPreS; repeat' split
  all_goals rfl

theorem fPreN_wn {T : List (Row α)} {K : Int → Int} {cc : Int} (hT : WN T K cc) (gc g : Int) (dm : α)
    (t : Row α) (ht : t ∈ T) (hg : t.obj = g) (hgc : g ≠ gc) (c0 : Row α) (hc0 : c0 ∈ T) (hc0o : c0.obj = gc) :
    WN (T.map (fPreN gc g t.ord (K gc) dm))
      (fun x => if x = g then K gc + K g - (t.ord - 1) else if x = gc then t.ord - 1 else K x) cc := by
  have hKt := hT.ordA t ht
  have hKc := hT.ordA c0 hc0
  have hrt := hT.rng t ht
  have hrc := hT.rng c0 hc0
  apply hT.map _ _ _ (fPreN_idx gc g t.ord (K gc) dm)
  · intro r hr
    have h1 := hT.rng r hr
    have h2 := hT.ordA r hr
    unfold fPreN
    grind
  · intro r hr r' hr'
    have h2 := hT.ordA r hr
    have h2' := hT.ordA r' hr'
    unfold fPreN
    grind
  · intro r hr k hk1
    have h2 := hT.ordA r hr
    by_cases ho : (fPreN gc g t.ord (K gc) dm r).obj = g
    · rw [ho]; simp only [if_true]
      intro hk2
      by_cases hk : k ≤ K gc
      · obtain ⟨r0, hr0, e1, e2⟩ := hT.surj c0 hc0 k hk1 (by rw [hc0o]; exact hk)
        refine ⟨r0, hr0, ?_, ?_⟩ <;> unfold fPreN <;> grind
      · obtain ⟨r0, hr0, e1, e2⟩ := hT.surj t ht (k - (K gc - (t.ord - 1))) (by omega) (by rw [hg]; omega)
        refine ⟨r0, hr0, ?_, ?_⟩ <;> unfold fPreN <;> grind
    · by_cases ho2 : (fPreN gc g t.ord (K gc) dm r).obj = gc
      · rw [ho2]; simp only [if_neg hgc.symm, if_true]
        intro hk2
        obtain ⟨r0, hr0, e1, e2⟩ := hT.surj t ht k hk1 (by omega)
        refine ⟨r0, hr0, ?_, ?_⟩ <;> unfold fPreN <;> grind
      · have e : (fPreN gc g t.ord (K gc) dm r).obj = r.obj := by unfold fPreN at ho ho2 ⊢; grind
        simp only [if_neg ho, if_neg ho2]
        rw [e]
        intro hk2
        obtain ⟨r0, hr0, e1, e2⟩ := hT.surj r hr k hk1 hk2
        refine ⟨r0, hr0, ?_, ?_⟩ <;> unfold fPreN at ho ho2 e ⊢ <;> grind

theorem fPreS_wn {T : List (Row α)} {K : Int → Int} {cc : Int} (hT : WN T K cc) (gc g fresh : Int) (dm : α)
    (hfr : cc ≤ fresh)
    (t : Row α) (ht : t ∈ T) (hg : t.obj = g) (hgc : g ≠ gc) (c0 : Row α) (hc0 : c0 ∈ T) (hc0o : c0.obj = gc) :
    WN (T.map (fPreS gc g t.ord (K gc) fresh dm))
      (fun x => if x = gc then K gc + K g - (t.ord - 1) else if x = fresh then t.ord - 1 else K x) (fresh + 1) := by
  have hKt := hT.ordA t ht
  have hKc := hT.ordA c0 hc0
  have hrt := hT.rng t ht
  have hrc := hT.rng c0 hc0
  have hfg : fresh ≠ gc := by omega
  apply hT.map _ _ _ (fPreS_idx gc g t.ord (K gc) fresh dm)
  · intro r hr
    have h1 := hT.rng r hr
    have h2 := hT.ordA r hr
    unfold fPreS
    grind
  · intro r hr r' hr'
    have h1 := hT.rng r hr
    have h1' := hT.rng r' hr'
    have h2 := hT.ordA r hr
    have h2' := hT.ordA r' hr'
    unfold fPreS
    grind
  · intro r hr k hk1
    have h1 := hT.rng r hr
    have h2 := hT.ordA r hr
    by_cases ho : (fPreS gc g t.ord (K gc) fresh dm r).obj = gc
    · rw [ho]; simp only [if_true]
      intro hk2
      by_cases hk : k ≤ K gc
      · obtain ⟨r0, hr0, e1, e2⟩ := hT.surj c0 hc0 k hk1 (by rw [hc0o]; exact hk)
        refine ⟨r0, hr0, ?_, ?_⟩ <;> unfold fPreS <;> grind
      · obtain ⟨r0, hr0, e1, e2⟩ := hT.surj t ht (k - (K gc - (t.ord - 1))) (by omega) (by rw [hg]; omega)
        refine ⟨r0, hr0, ?_, ?_⟩ <;> unfold fPreS <;> grind
    · by_cases ho2 : (fPreS gc g t.ord (K gc) fresh dm r).obj = fresh
      · rw [ho2]; simp only [if_neg hfg, if_true]
        intro hk2
        obtain ⟨r0, hr0, e1, e2⟩ := hT.surj t ht k hk1 (by omega)
        refine ⟨r0, hr0, ?_, ?_⟩ <;> unfold fPreS <;> grind
      · have e : (fPreS gc g t.ord (K gc) fresh dm r).obj = r.obj := by unfold fPreS at ho ho2 ⊢; grind
        simp only [if_neg ho, if_neg ho2]
        rw [e]
        intro hk2
        obtain ⟨r0, hr0, e1, e2⟩ := hT.surj r hr k hk1 hk2
        have h1' := hT.rng r0 hr0
        refine ⟨r0, hr0, ?_, ?_⟩ <;> unfold fPreS at ho ho2 e ⊢ <;> grind

/-! ### links -/

theorem fPreN_dl {o : Opts} {c : Cfg α} {T : List (Row α)} {K : Int → Int} {cc : Int} (hT : WN T K cc)
    (_hnd : (ids T).Nodup) (hD : DL o c T) (gc g : Int) (dm : α)
    (t : Row α) (ht : t ∈ T) (hg : t.obj = g) (hgc : g ≠ gc)
    (c0 : Row α) (hc0 : c0 ∈ T) (hc0o : c0.obj = gc) (hc0k : c0.ord = K gc)
    (hdm : dm = c.d c0.idx t.idx ∧ inWin o c (c.d c0.idx t.idx) = true) :
    DL o c (T.map (fPreN gc g t.ord (K gc) dm)) := by
  apply DL.map _ (fPreN_idx gc g t.ord (K gc) dm)
  intro r hr r' hr'
  have h2 := hT.ordA r hr
  have h2' := hT.ordA r' hr'
  have hi1 := hT.inj r hr c0 hc0
  have hi2 := hT.inj r' hr' t ht
  have hd := hD r hr r' hr'
  unfold fPreN
  grind

theorem fPreS_dl {o : Opts} {c : Cfg α} {T : List (Row α)} {K : Int → Int} {cc : Int} (hT : WN T K cc)
    (_hnd : (ids T).Nodup) (hD : DL o c T) (gc g fresh : Int) (dm : α) (hfr : cc ≤ fresh)
    (t : Row α) (ht : t ∈ T) (hg : t.obj = g) (_hgc : g ≠ gc)
    (c0 : Row α) (hc0 : c0 ∈ T) (hc0o : c0.obj = gc) (hc0k : c0.ord = K gc)
    (hdm : dm = c.d c0.idx t.idx ∧ inWin o c (c.d c0.idx t.idx) = true) :
    DL o c (T.map (fPreS gc g t.ord (K gc) fresh dm)) := by
  apply DL.map _ (fPreS_idx gc g t.ord (K gc) fresh dm)
  intro r hr r' hr'
  have h1 := hT.rng r hr
  have h1' := hT.rng r' hr'
  have h2 := hT.ordA r hr
  have h2' := hT.ordA r' hr'
  have hi1 := hT.inj r hr c0 hc0
  have hi2 := hT.inj r' hr' t ht
  have hd := hD r hr r' hr'
  have hrc := hT.rng c0 hc0
  unfold fPreS
  grind

/-! ### the call `add_chain_prefix` -/

theorem addPrefix_doc_none (A C : List (Row α)) (m : Nat) (dm : α) (t : Row α) (h : rowOf A m = some t) :
    addPrefix Opts.documented A C m dm none =
      if t.ord ≠ 1 then
        match A.find? (fun r => r.obj == t.obj && r.ord == t.ord - 1) with
        | none => (A, C, [.raised])
        | some pr =>
          if pr.dist ≤ dm then (A, C, [.prefixReject])
          else
            (addOrd (fun r => r.obj == t.obj)
               (maxOrd 0 (fun _ => true) C - ((A.filter (fun r => r.obj == t.obj && decide (r.ord < t.ord))).length : Int))
               (updObj (fun r => r.obj == t.obj && decide (r.ord < t.ord)) (headObj C) A),
             setLastDist dm (setObjChain t.obj C), [.prefixCut])
      else (addOrd (fun r => r.obj == t.obj) (maxOrd 0 (fun _ => true) C - 0) A,
            setLastDist dm (setObjChain t.obj C), [.prefix]) := by
  unfold addPrefix
  simp only [h, Opts.documented, Cmp.eval]
  by_cases h1 : t.ord = 1
  · simp [h1]
  · simp only [h1, decide_false, Bool.not_false, if_true, ne_eq, not_false_eq_true]
    split <;> rename_i heq <;> simp [heq]

theorem addPrefix_doc_some (A C : List (Row α)) (m : Nat) (dm : α) (t : Row α) (h : rowOf A m = some t) (cm fresh : Int) :
    addPrefix Opts.documented A C m dm (some (cm, fresh)) =
      if t.ord ≠ 1 then
        match A.find? (fun r => r.obj == t.obj && r.ord == t.ord - 1) with
        | none => (A, C, [.raised])
        | some pr =>
          if pr.dist ≤ dm then (A, C, [.prefixReject])
          else
            (updObj (fun r => r.obj == -1) fresh (updObj (fun r => r.obj == t.obj) (headObj C)
              (addOrd (fun r => r.obj == t.obj)
               (cm - ((A.filter (fun r => r.obj == t.obj && decide (r.ord < t.ord))).length : Int))
               (updObj (fun r => r.obj == t.obj && decide (r.ord < t.ord)) (-1) A))),
             setLastDist dm C, [.bothCut])
      else (updObj (fun r => r.obj == t.obj) (headObj C) (addOrd (fun r => r.obj == t.obj) (cm - 0) A),
            setLastDist dm C, [.both]) := by
  unfold addPrefix
  simp only [h, Opts.documented, Cmp.eval]
  by_cases h1 : t.ord = 1
  · simp [h1]
  · simp only [h1, decide_false, Bool.not_false, if_true, ne_eq, not_false_eq_true]
    split <;> rename_i heq <;> simp [heq]

theorem maxOrd_top (C : List (Row α)) (top : Int) (h0 : 0 ≤ top) (hle : ∀ r ∈ C, r.ord ≤ top)
    (hex : ∃ r ∈ C, r.ord = top) : maxOrd 0 (fun _ => true) C = top := by
  obtain ⟨h1, h2, h3⟩ := maxOrd_spec (fun _ : Row α => true) C 0
  obtain ⟨r, hr, e⟩ := hex
  have := h2 r hr rfl
  rcases h3 with h3 | ⟨r', hr', _, e'⟩
  · omega
  · have := hle r' hr'; omega

theorem ids_disjoint {A C : List (Row α)} (hnd : (ids (A ++ C)).Nodup) {r r' : Row α} (hr : r ∈ A) (hr' : r' ∈ C) :
    r.idx ≠ r'.idx := by
  intro e
  have h : (ids A ++ ids C).Nodup := by simpa [ids] using hnd
  have := (List.nodup_append.1 h).2.2 r.idx (List.mem_map.2 ⟨r, hr, rfl⟩) r'.idx (List.mem_map.2 ⟨r', hr', rfl⟩)
  exact this e

theorem count_head {A C : List (Row α)} {K : Int → Int} {cc : Int} (hT : WN (A ++ C) K cc) (hnd : (ids (A ++ C)).Nodup)
    (t : Row α) (ht : t ∈ A) (hC : ∀ r ∈ C, r.obj ≠ t.obj) :
    ((A.filter (fun r => r.obj == t.obj && decide (r.ord < t.ord))).length : Int) = t.ord - 1 := by
  have htT : t ∈ A ++ C := List.mem_append_left _ ht
  have hK := hT.ordA t htT
  have hp := (hT.ords_below hnd t htT (t.ord - 1).toNat (by omega)).length_eq
  rw [List.length_map, oneToK_length] at hp
  have hf : (A ++ C).filter (fun r => r.obj == t.obj && decide (r.ord ≤ (((t.ord - 1).toNat : Nat) : Int))) =
      A.filter (fun r => r.obj == t.obj && decide (r.ord < t.ord)) := by
    rw [List.filter_append]
    have e1 : C.filter (fun r => r.obj == t.obj && decide (r.ord ≤ (((t.ord - 1).toNat : Nat) : Int))) = [] := by
      apply List.filter_eq_nil_iff.2
      intro r hr
      simp [hC r hr]
    rw [e1, List.append_nil]
    apply List.filter_congr
    intro r _
    congr 1
    apply decide_eq_decide.2
    omega
  rw [hf] at hp
  omega

theorem setLast_setObj {C : List (Row α)} {K : Int → Int} {gc : Int} (g a : Int) (dm : α)
    (hpw : C.Pairwise (fun a b => a.ord < b.ord)) (hobj : ∀ r ∈ C, r.obj = gc)
    (hle : ∀ r ∈ C, r.ord ≤ K gc) (hex : ∃ r ∈ C, r.ord = K gc) :
    setLastDist dm (setObjChain g C) = C.map (fPreN gc g a (K gc) dm) := by
  unfold setObjChain
  have hp2 : (C.map (fun r : Row α => { r with obj := g })).Pairwise (fun a b => a.ord < b.ord) :=
    List.Pairwise.map _ (fun a b hab => hab) hpw
  have hex2 : ∃ r ∈ C.map (fun r : Row α => { r with obj := g }), r.ord = K gc := by
    obtain ⟨r, hr, e⟩ := hex; exact ⟨_, List.mem_map.2 ⟨r, hr, rfl⟩, e⟩
  have hle2 : ∀ r ∈ C.map (fun r : Row α => { r with obj := g }), r.ord ≤ K gc := by
    intro r hr; obtain ⟨r0, hr0, rfl⟩ := List.mem_map.1 hr; exact hle r0 hr0
  rw [setLastDist_eq_map dm (K gc) _ hp2 hex2 hle2, List.map_map]
  apply List.map_congr_left
  intro r hr
  simp only [Function.comp, fPreN, hobj r hr, if_true]

theorem addPrefix_none {c : Cfg α} {A C : List (Row α)} {K : Int → Int} {cc gc : Int} {last : Nat}
    (hM : Mid Opts.documented c A C K cc gc last) (hfresh : ∀ r ∈ A, r.obj ≠ gc) (m : Nat) (dm : α)
    (hdm : dm = c.d last m ∧ inWin Opts.documented c (c.d last m) = true) :
    ∃ K', WN ((addPrefix Opts.documented A C m dm none).1 ++ (addPrefix Opts.documented A C m dm none).2.1) K' cc ∧
      DL Opts.documented c ((addPrefix Opts.documented A C m dm none).1 ++ (addPrefix Opts.documented A C m dm none).2.1) := by
  cases h : rowOf A m with
  | none => unfold addPrefix; simp only [h]; exact ⟨K, hM.wn, hM.dl⟩
  | some t =>
    obtain ⟨htm, htj⟩ := rowOf_some h
    obtain ⟨ctop, hctop, hctopk, hctopi⟩ := hM.ctop
    have htT : t ∈ A ++ C := List.mem_append_left _ htm
    have hcT : ctop ∈ A ++ C := List.mem_append_right _ hctop
    have hKc := hM.wn.ordA ctop hcT
    rw [hM.cobj ctop hctop] at hKc
    have hle : ∀ r ∈ C, r.ord ≤ K gc := fun r hr => by
      have := hM.wn.ordA r (List.mem_append_right _ hr); rw [hM.cobj r hr] at this; exact this.2
    have hmax : maxOrd 0 (fun _ => true) C = K gc := maxOrd_top C (K gc) (by omega) hle ⟨ctop, hctop, hctopk⟩
    have hhead : headObj C = gc := headObj_eq hM.cobj ⟨ctop, hctop⟩
    have htg : t.obj ≠ gc := hfresh t htm
    have hcount := count_head hM.wn hM.nd t htm (fun r hr => by rw [hM.cobj r hr]; exact htg.symm)
    have EC := setLast_setObj t.obj t.ord dm hM.cpw hM.cobj hle ⟨ctop, hctop, hctopk⟩
    have hfin : ∃ K', WN ((A ++ C).map (fPreN gc t.obj t.ord (K gc) dm)) K' cc ∧
        DL Opts.documented c ((A ++ C).map (fPreN gc t.obj t.ord (K gc) dm)) :=
      ⟨_, fPreN_wn hM.wn gc t.obj dm t htT rfl htg ctop hcT (hM.cobj ctop hctop),
        fPreN_dl hM.wn hM.nd hM.dl gc t.obj dm t htT rfl htg ctop hcT (hM.cobj ctop hctop) hctopk
          (by rw [hctopi, htj]; exact hdm)⟩
    rw [addPrefix_doc_none A C m dm t h, hmax, hhead, hcount]
    by_cases h1 : t.ord ≠ 1
    · rw [if_pos h1]
      split
      · exact ⟨K, hM.wn, hM.dl⟩
      · rename_i pr _
        by_cases hk : pr.dist ≤ dm
        · rw [if_pos hk]; exact ⟨K, hM.wn, hM.dl⟩
        · rw [if_neg hk]
          have EA : addOrd (fun r => r.obj == t.obj) (K gc - (t.ord - 1))
              (updObj (fun r => r.obj == t.obj && decide (r.ord < t.ord)) gc A) = A.map (fPreN gc t.obj t.ord (K gc) dm) := by
            simp only [addOrd, updObj, List.map_map]
            apply List.map_congr_left
            intro r hr
            have := hfresh r hr
            simp only [Function.comp, fPreN]
            grind
          dsimp only
          rw [EA, EC, ← List.map_append]
          exact hfin
    · rw [if_neg h1]
      have h1' : t.ord = 1 := by omega
      have EA : addOrd (fun r => r.obj == t.obj) (K gc - 0) A = A.map (fPreN gc t.obj t.ord (K gc) dm) := by
        simp only [addOrd]
        apply List.map_congr_left
        intro r hr
        have := hfresh r hr
        have := hM.wn.ordA r (List.mem_append_left _ hr)
        simp only [fPreN]
        grind
      dsimp only
      rw [EA, EC, ← List.map_append]
      exact hfin

theorem addPrefix_some {c : Cfg α} {A C : List (Row α)} {K : Int → Int} {cc gc : Int} {last : Nat}
    (hM : Mid Opts.documented c A C K cc gc last) (m : Nat) (dm : α) (fresh : Int) (hfr : cc ≤ fresh)
    (hneq : ∀ t, rowOf A m = some t → t.obj ≠ gc)
    (hdm : dm = c.d last m ∧ inWin Opts.documented c (c.d last m) = true) :
    ∃ K', WN ((addPrefix Opts.documented A C m dm (some (K gc, fresh))).1 ++
              (addPrefix Opts.documented A C m dm (some (K gc, fresh))).2.1) K' (fresh + 1) ∧
      DL Opts.documented c ((addPrefix Opts.documented A C m dm (some (K gc, fresh))).1 ++
              (addPrefix Opts.documented A C m dm (some (K gc, fresh))).2.1) := by
  have hun : ∃ K', WN (A ++ C) K' (fresh + 1) ∧ DL Opts.documented c (A ++ C) :=
    ⟨K, hM.wn.mono _ (by omega), hM.dl⟩
  cases h : rowOf A m with
  | none => unfold addPrefix; simp only [h]; exact hun
  | some t =>
    obtain ⟨htm, htj⟩ := rowOf_some h
    obtain ⟨ctop, hctop, hctopk, hctopi⟩ := hM.ctop
    have htT : t ∈ A ++ C := List.mem_append_left _ htm
    have hcT : ctop ∈ A ++ C := List.mem_append_right _ hctop
    have hKc := hM.wn.ordA ctop hcT
    rw [hM.cobj ctop hctop] at hKc
    have hle : ∀ r ∈ C, r.ord ≤ K gc := fun r hr => by
      have := hM.wn.ordA r (List.mem_append_right _ hr); rw [hM.cobj r hr] at this; exact this.2
    have hhead : headObj C = gc := headObj_eq hM.cobj ⟨ctop, hctop⟩
    have htg : t.obj ≠ gc := hneq t h
    have hcount := count_head hM.wn hM.nd t htm (fun r hr => by rw [hM.cobj r hr]; exact htg.symm)
    have hAtop : ∀ r ∈ A, ¬(r.obj = gc ∧ r.ord = K gc) := by
      rintro r hr ⟨e1, e2⟩
      exact ids_disjoint hM.nd hr hctop
        (hM.wn.inj r (List.mem_append_left _ hr) ctop hcT (by rw [e1, hM.cobj ctop hctop]) (by rw [e2, hctopk]))
    have EC : setLastDist dm C = C.map (fPreS gc t.obj t.ord (K gc) fresh dm) := by
      rw [setLastDist_eq_map dm (K gc) C hM.cpw ⟨ctop, hctop, hctopk⟩ hle]
      apply List.map_congr_left
      intro r hr
      have := hM.cobj r hr
      simp only [fPreS]
      grind
    have hfin : ∃ K', WN ((A ++ C).map (fPreS gc t.obj t.ord (K gc) fresh dm)) K' (fresh + 1) ∧
        DL Opts.documented c ((A ++ C).map (fPreS gc t.obj t.ord (K gc) fresh dm)) :=
      ⟨_, fPreS_wn hM.wn gc t.obj fresh dm hfr t htT rfl htg ctop hcT (hM.cobj ctop hctop),
        fPreS_dl hM.wn hM.nd hM.dl gc t.obj fresh dm hfr t htT rfl htg ctop hcT (hM.cobj ctop hctop) hctopk
          (by rw [hctopi, htj]; exact hdm)⟩
    rw [addPrefix_doc_some A C m dm t h, hhead, hcount]
    by_cases h1 : t.ord ≠ 1
    · rw [if_pos h1]
      split
      · exact hun
      · rename_i pr _
        by_cases hk : pr.dist ≤ dm
        · rw [if_pos hk]; exact hun
        · rw [if_neg hk]
          have EA : updObj (fun r => r.obj == -1) fresh (updObj (fun r => r.obj == t.obj) gc
              (addOrd (fun r => r.obj == t.obj) (K gc - (t.ord - 1))
                (updObj (fun r => r.obj == t.obj && decide (r.ord < t.ord)) (-1) A))) =
              A.map (fPreS gc t.obj t.ord (K gc) fresh dm) := by
            simp only [addOrd, updObj, List.map_map]
            apply List.map_congr_left
            intro r hr
            have h3 := hAtop r hr
            have h4 := hM.wn.rng r (List.mem_append_left _ hr)
            have h5 := hM.wn.rng t htT
            simp only [Function.comp, fPreS]
            by_cases hg : r.obj = t.obj
            · by_cases hlt : r.ord < t.ord
              · have : (-1 : Int) ≠ t.obj := by omega
                simp [hg, hlt, this]
              · have hgc1 : gc ≠ -1 := by
                  have := hM.wn.rng ctop hcT; rw [hM.cobj ctop hctop] at this; omega
                simp [hg, hlt, hgc1]
            · have : r.obj ≠ -1 := by omega
              simp [hg, this, h3]
          dsimp only
          rw [EA, EC, ← List.map_append]
          exact hfin
    · rw [if_neg h1]
      have h1' : t.ord = 1 := by omega
      have EA : updObj (fun r => r.obj == t.obj) gc (addOrd (fun r => r.obj == t.obj) (K gc - 0) A) =
          A.map (fPreS gc t.obj t.ord (K gc) fresh dm) := by
        simp only [addOrd, updObj, List.map_map]
        apply List.map_congr_left
        intro r hr
        have := hAtop r hr
        have := hM.wn.ordA r (List.mem_append_left _ hr)
        simp only [Function.comp, fPreS]
        grind
      dsimp only
      rw [EA, EC, ← List.map_append]
      exact hfin

end CryoCat.C19
