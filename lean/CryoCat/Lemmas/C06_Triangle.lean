import Mathlib.Geometry.Euclidean.Angle.Unoriented.TriangleInequality
import Mathlib.Analysis.SpecialFunctions.Trigonometric.Inverse
/-! C06 — triangle inequality of `arccos |⟪a, b⟫|` on unit vectors of any real inner-product space
(half of cryoCAT's angular distance, in radians, for unit quaternions as vectors of ℝ⁴). -/
namespace CryoCat.C06
open InnerProductGeometry Real

variable {V : Type*} [NormedAddCommGroup V] [InnerProductSpace ℝ V]

/-- half of the angular distance, in radians -/
noncomputable def hd (a b : V) : ℝ := arccos |inner ℝ a b|

theorem hd_eq_min (a b : V) (ha : ‖a‖ = 1) (hb : ‖b‖ = 1) :
    hd a b = min (angle a b) (angle a (-b)) := by
  unfold hd
  have h1 : angle a b = arccos (inner ℝ a b) := by
    unfold angle; rw [ha, hb]; simp
  have h2 : angle a (-b) = Real.pi - angle a b := angle_neg_right a b
  rw [h2, h1]
  rcases le_or_gt 0 (inner ℝ a b) with h | h
  · rw [abs_of_nonneg h]
    have : arccos (inner ℝ a b) ≤ Real.pi / 2 := by
      rw [Real.arccos_le_pi_div_two]; exact h
    rw [min_eq_left]; linarith
  · rw [abs_of_neg h, Real.arccos_neg]
    have : Real.pi / 2 < arccos (inner ℝ a b) := by
      by_contra hcon
      have := (Real.arccos_le_pi_div_two).1 (not_lt.1 hcon)
      linarith
    rw [min_eq_right]; linarith

theorem hd_triangle (a b c : V) (ha : ‖a‖ = 1) (hb : ‖b‖ = 1) (hc : ‖c‖ = 1) :
    hd a c ≤ hd a b + hd b c := by
  rw [hd_eq_min a c ha hc, hd_eq_min a b ha hb, hd_eq_min b c hb hc]
  have t1 := angle_le_angle_add_angle a b c
  have t2 := angle_le_angle_add_angle a b (-c)
  have t3 := angle_le_angle_add_angle a (-b) c
  have t4 := angle_le_angle_add_angle a (-b) (-c)
  have e1 : angle (-b) c = angle b (-c) := by rw [← angle_neg_neg, neg_neg]
  have e2 : angle (-b) (-c) = angle b c := angle_neg_neg b c
  rw [e1] at t3; rw [e2] at t4
  rcases min_cases (angle a b) (angle a (-b)) with ⟨h1, _⟩ | ⟨h1, _⟩ <;>
  rcases min_cases (angle b c) (angle b (-c)) with ⟨h2, _⟩ | ⟨h2, _⟩ <;>
  rw [h1, h2]
  · exact (min_le_left _ _).trans t1
  · exact (min_le_right _ _).trans t2
  · exact (min_le_right _ _).trans t4
  · exact (min_le_left _ _).trans t3

end CryoCat.C06
