import CryoCat.Lemmas.C12_Dft
import Mathlib.RingTheory.RootsOfUnity.Complex
/-! C12 — the hypotheses of `dft3_transform` are met over ℂ: `exp(-2πi/n)` (numpy's sign convention) is a
primitive `n`-th root of unity for every `n > 0`, and `c ↦ Re c` is a real part. Hence the operator
theorems of `Props/C12` hold for the exact complex DFT of every box. -/
namespace CryoCat.C12
open Complex

/-- numpy's forward twiddle `exp(-2πi/n)` -/
noncomputable def omegaC (n : Nat) : ℂ := (exp (2 * Real.pi * I / n))⁻¹

theorem omegaC_root (n : Nat) (hn : 0 < n) : Root n (omegaC n) :=
  ⟨(Complex.isPrimitiveRoot_exp n (Nat.pos_iff_ne_zero.1 hn)).inv, hn, by exact_mod_cast (Nat.pos_iff_ne_zero.1 hn)⟩

/-- `np.real` on ℂ, as a map ℂ → ℂ -/
noncomputable def reC (c : ℂ) : ℂ := (c.re : ℂ)

theorem reC_realPart : RealPart ℝ reC :=
  ⟨fun a b => by simp [reC], fun a c => by simp [reC], fun c => by simp [reC]⟩

/-- **the exact complex DFT of any box is a `Transform`** -/
theorem dft3_transform_complex (d : Dims) (hd : 0 < d.nx ∧ 0 < d.ny ∧ 0 < d.nz) :
    Transform ℝ (dft3 d (fun m => omegaC d.nx ^ m) (fun m => omegaC d.ny ^ m) (fun m => omegaC d.nz ^ m))
      (idft3 d (fun m => omegaC d.nx ^ m) (fun m => omegaC d.ny ^ m) (fun m => omegaC d.nz ^ m) (d.nx : ℂ)⁻¹ (d.ny : ℂ)⁻¹ (d.nz : ℂ)⁻¹)
      reC :=
  dft3_transform d _ _ _ (omegaC_root _ hd.1) (omegaC_root _ hd.2.1) (omegaC_root _ hd.2.2) reC reC_realPart

end CryoCat.C12
