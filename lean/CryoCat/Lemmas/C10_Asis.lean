import CryoCat.Model.C10_Asis
/-! C10 — the as-is angle table `np.arange(0, 360, int(360/n))` has exactly `n` entries iff `n` divides 360
(regression witness D12). Kept out of `Props/C10` because the 361-case kernel evaluation takes ~10 s and does not depend
on the regenerated anchors: it is not re-checked when the source changes. -/
namespace CryoCat.C10

theorem asisRuns_iff_dvd (n : Nat) (hn : 1 ≤ n) : asisRuns n = true ↔ n ∣ 360 := by
  by_cases h : n < 361
  · have key : ∀ m : Fin 361, 1 ≤ m.val → (asisRuns m.val = true ↔ m.val ∣ 360) := by decide +kernel
    exact key ⟨n, h⟩ hn
  · have h0 : 360 / n = 0 := Nat.div_eq_of_lt (by omega)
    constructor
    · intro hr
      simp [asisRuns, asisPhi, h0] at hr
    · intro hd
      have := Nat.le_of_dvd (by omega) hd
      omega

end CryoCat.C10
