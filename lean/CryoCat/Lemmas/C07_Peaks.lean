import CryoCat.Lemmas.C07
import Mathlib.Tactic.Ring
import Mathlib.Order.Defs.LinearOrder
/-! C07 — peak extraction model: lemmas (scores in any linear order, voxel positions in ℕ, distances in ℤ). -/
set_option linter.unusedSectionVars false
set_option linter.unusedSimpArgs false
namespace CryoCat.C07
open CryoCat.Gen.C07

variable {α : Type} [LinearOrder α]

theorem vd2_comm (ax ay az bx byy bz : Nat) : vd2 ax ay az bx byy bz = vd2 bx byy bz ax ay az := by
  unfold vd2; ring

theorem vd2_self (ax ay az : Nat) : vd2 ax ay az ax ay az = 0 := by unfold vd2; ring

theorem vd2_succ (ax ay az bx byy bz : Nat) :
    vd2 (ax + 1) (ay + 1) (az + 1) (bx + 1) (byy + 1) (bz + 1) = vd2 ax ay az bx byy bz := by
  unfold vd2; push_cast; ring

theorem inBall_symm (dn dd : Nat) (a b : Vox α) : inBall dn dd a b = inBall dn dd b a := by
  unfold inBall; rw [vd2_comm]

theorem inBall_self (dn dd : Nat) (a : Vox α) : inBall dn dd a a = true := by
  unfold inBall; rw [vd2_self]
  simp only [Int.zero_mul, decide_eq_true_eq]
  exact Int.mul_nonneg (Int.natCast_nonneg _) (Int.natCast_nonneg _)

theorem nearPeak_eq (dn dd : Nat) (a c : Vox α) :
    nearPeak dn dd a c = (inBall dn dd a c && decide (c.score ≤ a.score)) := rfl

theorem peakOrder_perm (l : List (Vox α)) : (peakOrder l).Perm l := by
  unfold peakOrder; split <;> exact List.mergeSort_perm _ _

theorem peakOrder_sorted (l : List (Vox α)) : (peakOrder l).Pairwise (fun a b => b.score ≤ a.score) := by
  simp only [peakOrder, peakSortDesc, if_true]
  have h := List.pairwise_mergeSort (le := scoreGe (α := α))
    (by intro a b c; simp only [scoreGe, decide_eq_true_eq]; exact fun h1 h2 => le_trans h2 h1)
    (by intro a b; simp only [scoreGe, Bool.or_eq_true, decide_eq_true_eq]; exact le_total _ _) l
  exact h.imp (by intro a b; simp [scoreGe])

theorem mem_supra (thr : α) (vs : List (Vox α)) (v : Vox α) : v ∈ supra thr vs ↔ v ∈ vs ∧ thr < v.score := by
  simp [supra, peakThrCmp, evalCmp]

section Kept
variable (thr : α) (dn dd : Nat) (vs : List (Vox α))

theorem keptVoxels_sub (v : Vox α) (h : v ∈ keptVoxels thr dn dd vs) : v ∈ vs ∧ thr < v.score := by
  have h1 := (suppress_sublist _ _).subset h
  exact (mem_supra thr vs v).1 ((peakOrder_perm _).mem_iff.1 h1)

theorem keptVoxels_sorted : (keptVoxels thr dn dd vs).Pairwise (fun a b => b.score ≤ a.score) :=
  (peakOrder_sorted _).sublist (suppress_sublist _ _)

/-- kept voxels are pairwise outside each other's ball -/
theorem keptVoxels_separated : (keptVoxels thr dn dd vs).Pairwise (fun a b => inBall dn dd a b = false) := by
  have h1 := suppress_separated (nearPeak dn dd) (peakOrder (supra thr vs))
  have h2 := keptVoxels_sorted thr dn dd vs
  refine (h1.and h2).imp ?_
  intro a b ⟨hn, hs⟩
  rw [nearPeak_eq] at hn
  simpa [hs] using hn

/-- every voxel above the threshold lies in the ball of a kept voxel with an equal or higher score -/
theorem keptVoxels_dominate (v : Vox α) (hv : v ∈ vs) (ht : thr < v.score) :
    ∃ p ∈ keptVoxels thr dn dd vs, inBall dn dd p v = true ∧ v.score ≤ p.score := by
  have hm : v ∈ peakOrder (supra thr vs) := (peakOrder_perm _).mem_iff.2 ((mem_supra thr vs v).2 ⟨hv, ht⟩)
  rcases suppress_dominated (nearPeak dn dd) (fun a b => b.score ≤ a.score) _ (peakOrder_sorted _) v hm with h | ⟨p, hp, hn, hs⟩
  · exact ⟨v, h, inBall_self dn dd v, le_refl _⟩
  · rw [nearPeak_eq] at hn
    simp only [Bool.and_eq_true, decide_eq_true_eq] at hn
    exact ⟨p, hp, hn.1, hs⟩

end Kept

/-! ### flat C-order maps -/

theorem flatIdx_unflatten (ny nz i : Nat) : flatIdx ny nz (i / (ny * nz)) ((i / nz) % ny) (i % nz) = i := by
  unfold flatIdx
  have h1 : i / (ny * nz) = i / nz / ny := by rw [Nat.mul_comm, Nat.div_div_eq_div_mul]
  rw [h1, Nat.div_add_mod', Nat.div_add_mod']

theorem mem_voxels (ny nz : Nat) (scores : List α) (angles : List Int) (v : Vox α) :
    v ∈ voxels ny nz scores angles ↔
      ∃ i, scores[i]? = some v.score ∧ angles[i]? = some v.ang ∧
        v.x = i / (ny * nz) ∧ v.y = (i / nz) % ny ∧ v.z = i % nz := by
  unfold voxels
  simp only [List.mem_map, List.mem_zipIdx_iff_getElem?, List.getElem?_zip_eq_some]
  constructor
  · rintro ⟨⟨⟨s, a⟩, i⟩, ⟨h1, h2⟩, rfl⟩
    exact ⟨i, h1, h2, rfl, rfl, rfl⟩
  · rintro ⟨i, h1, h2, hx, hy, hz⟩
    refine ⟨((v.score, v.ang), i), ⟨h1, h2⟩, ?_⟩
    cases v; simp_all

/-- a voxel of the model carries the map values at its own array index -/
theorem voxels_lookup (ny nz : Nat) (scores : List α) (angles : List Int) (v : Vox α)
    (h : v ∈ voxels ny nz scores angles) :
    scores[flatIdx ny nz v.x v.y v.z]? = some v.score ∧ angles[flatIdx ny nz v.x v.y v.z]? = some v.ang := by
  obtain ⟨i, h1, h2, hx, hy, hz⟩ := (mem_voxels ny nz scores angles v).1 h
  rw [hx, hy, hz, flatIdx_unflatten]; exact ⟨h1, h2⟩

/-! ### the motl row of a voxel -/

theorem posOf_x (v : Vox α) : posOf "x" v = some (v.x + 1) := by simp [posOf, peakPosFill, List.lookup]
theorem posOf_y (v : Vox α) : posOf "y" v = some (v.y + 1) := by simp [posOf, peakPosFill, List.lookup]
theorem posOf_z (v : Vox α) : posOf "z" v = some (v.z + 1) := by simp [posOf, peakPosFill, List.lookup]
theorem colOf_phi : colOf "phi" = some 0 := by simp [colOf, peakAngleCols, List.lookup]
theorem colOf_theta : colOf "theta" = some 1 := by simp [colOf, peakAngleCols, List.lookup]
theorem colOf_psi : colOf "psi" = some 2 := by simp [colOf, peakAngleCols, List.lookup]

/-- what a loaded angle row is, in terms of the row of the list as given -/
theorem loadAngles_getElem? (ord : AngOrder) (rows : List (α × α × α)) (i : Nat) :
    (loadAngles ord rows)[i]? = (rows[i]?).map (fun t =>
      match ord with
      | .zxz => [t.1, t.2.1, t.2.2]
      | .zzx => [t.1, t.2.2, t.2.1]) := by
  cases ord
  · simp only [loadAngles, List.getElem?_map]; rfl
  · simp [loadAngles, rowList, zzxArrayPerm]

theorem peakOf_some (anglist : List (α × α × α)) (numbering : Int) (ord : AngOrder) (v : Vox α) (p : Peak α)
    (h : peakOf (loadAngles ord anglist) numbering v = some p) :
    p.x = v.x + 1 ∧ p.y = v.y + 1 ∧ p.z = v.z + 1 ∧ p.score = v.score ∧ 0 ≤ v.ang - numbering ∧
      anglist[(v.ang - numbering).toNat]? = some (listedAngles ord p) := by
  unfold peakOf at h
  simp only [posOf_x, posOf_y, posOf_z, colOf_phi, colOf_theta, colOf_psi, loadAngles_getElem?] at h
  by_cases hi : v.ang - numbering < 0
  · simp [hi] at h
  · simp only [hi, if_false] at h
    cases hrow : anglist[(v.ang - numbering).toNat]? with
    | none => simp [hrow] at h
    | some t =>
      obtain ⟨a, b, c⟩ := t
      cases ord <;> simp [hrow] at h <;> subst h <;> simp [listedAngles] <;> omega

theorem extractFrom_peaks (thr : α) (dn dd : Nat) (vs : List (Vox α)) (al : List (α × α × α)) (nb : Int) (ord : AngOrder)
    (out : List (Peak α)) (h : extractFrom thr dn dd vs al nb ord = .peaks out) :
    out = (keptVoxels thr dn dd vs).filterMap (peakOf (loadAngles ord al) nb) ∧
      ∀ v ∈ keptVoxels thr dn dd vs, ∃ p, peakOf (loadAngles ord al) nb v = some p := by
  unfold extractFrom at h
  split at h
  · cases h
  · dsimp only at h
    split at h
    · rename_i hall
      injection h with h
      constructor
      · rw [← h, List.filterMap_map]; rfl
      · intro v hv
        simp only [List.all_eq_true, List.mem_map, forall_exists_index, and_imp, forall_apply_eq_imp_iff₂] at hall
        exact Option.isSome_iff_exists.1 (hall v hv)
    · cases h

theorem extractFrom_empty (thr : α) (dn dd : Nat) (vs : List (Vox α)) (al : List (α × α × α)) (nb : Int) (ord : AngOrder) :
    extractFrom thr dn dd vs al nb ord = .empty ↔ ∀ v ∈ vs, ¬ thr < v.score := by
  unfold extractFrom
  constructor
  · intro h
    split at h
    · rename_i he
      intro v hv ht
      have hm := (mem_supra thr vs v).2 ⟨hv, ht⟩
      rw [List.isEmpty_iff] at he
      rw [he] at hm; cases hm
    · dsimp only at h
      split at h <;> cases h
  · intro h
    have : supra thr vs = [] := by
      rw [List.eq_nil_iff_forall_not_mem]
      intro v hv
      have := (mem_supra thr vs v).1 hv
      exact h v this.1 this.2
    simp [this]

end CryoCat.C07
