import CryoCat.Lemmas.C06
import CryoCat.Lemmas.C06_Real
/-! C06 — the pure property theorems that OTHER properties build on (today: C18, `Lemmas/C18_Angle.lean`,
`Props/C18.lean`).

They live here, not in `Props/C06.lean`, so that a user imports them WITHOUT the translator obligations of C06
(`anchors_ok`, `*_documented`, and the theorems stated about `Gen.C06.compareBranches` / `n2eOrders` / defaults):
an edit of `cryocat/geom.py` that changes a regenerated table of `Gen/C06.lean` breaks `Props/C06.lean` (as it
must), but not the build of this file, hence not the build of a property that only needs the theorems below.
`Props/C06.lean` re-exports every theorem of this file under its old name with the same statement
(`theorem C06.x … := C06.Export.x …`), so the audit of C06 still lists and checks all of them.

Dependence on `Gen/C06.lean`: `Model/C06.lean` imports it, so this file needs `Gen/C06.lean` to be WELL-TYPED
(it is generated from a fixed template; only the right-hand sides vary). It depends on NO VALUE of it: no
definition of `Model/C06.lean` reads a `Gen.C06` constant (`compareRotations` / `n2eColumns` take the table as an
argument, the in-plane tolerance is a parameter `tol`), and neither `Lemmas/C06.lean` nor `Lemmas/C06_Real.lean`
mentions one. So no theorem below needs a hypothesis "the regenerated value is the documented one".
(Checked by perturbation: with EVERY right-hand side of `Gen/C06.lean` changed at once — `anchorsOk := false`, the
tolerance, both tables, every body dump — this file, `Props/C18.lean` and the driver still build, `Props/C06.lean` does not.)
What ties `angDist` (the definition these theorems are about) to `geom.angular_distance` is, for C06, the
obligation `C06.ang_expr_documented` plus C06's correspondence run; a property that uses `angDist` as its
reference for that function has to anchor the function's text itself (C18 does: `C18.body_geom_documented`,
`C18.angular_formula_documented` over `Gen/C18.lean`). -/
namespace CryoCat.C06.Export
open Real

/-- trace of the relative rotation `R_pᵀ·R_q` of two unit quaternions is `4(p·q)² − 1`, i.e.
`1 + 2·cos(angle)` with `cos(angle) = 2(p·q)² − 1` (any commutative ring) -/
theorem trace_rel {α : Type} [CommRing α] (p q : Q4 α) (hp : qnormSq p = 1) (hq : qnormSq q = 1) :
    M3.trace ((toM3 p).transpose * toM3 q) = 4 * (qdot p q * qdot p q) - 1 := by
  rw [trace_rel', hp, hq]; ring

section real
variable (at2 : ℝ → ℝ → ℝ)

/-- the angular distance lies in [0, 180] degrees (for any two quaternions, unit or not) -/
theorem angDist_range (p q : Q4 ℝ) : 0 ≤ angDist (realLibm at2) p q ∧ angDist (realLibm at2) p q ≤ 180 := by
  obtain ⟨h0, h1⟩ := angDistRad_range at2 p q
  simp only [angDist, toDeg_real]
  exact ⟨mul_nonneg h0 (by positivity), deg_le _ h1⟩

/-- it equals the rotation angle of the relative rotation `R_pᵀ·R_q`: the angle in [0, π] whose
cosine is `(trace − 1)/2` -/
theorem angDist_is_rotation_angle (p q : Q4 ℝ) (hp : qnormSq p = 1) (hq : qnormSq q = 1) :
    angDistRad (realLibm at2) p q = arccos ((M3.trace ((toM3 p).transpose * toM3 q) - 1) / 2) := by
  rw [trace_rel p q hp hq]
  obtain ⟨h0, h1⟩ := absDot_mem p q
  have hle := qdot_sq_le_one p q hp hq
  have habs : absDot p q = |qdot p q| := by
    simp only [absDot, absv_eq_abs]
    apply min_eq_left
    have : |qdot p q| * |qdot p q| ≤ 1 := by rw [abs_mul_abs_self]; exact hle
    nlinarith [abs_nonneg (qdot p q)]
  simp only [angDistRad, realLibm]
  rw [two_arccos _ h0 h1, habs, abs_mul_abs_self]
  congr 1; ring
end real

/-- with real angles: the quaternion the driver builds from the HALF angles (`cos(φ/2)`, `sin(φ/2)`, …)
is a unit quaternion whose rotation matrix is `Rz(ψ)·Rx(θ)·Rz(φ)`, scipy's extrinsic "zxz" -/
theorem toM3_qzxz_real (φ θ ψ : ℝ) :
    qnormSq (qzxz (cos (φ/2)) (sin (φ/2)) (cos (θ/2)) (sin (θ/2)) (cos (ψ/2)) (sin (ψ/2))) = 1 ∧
    toM3 (qzxz (cos (φ/2)) (sin (φ/2)) (cos (θ/2)) (sin (θ/2)) (cos (ψ/2)) (sin (ψ/2)))
      = zxz (cos φ) (sin φ) (cos θ) (sin θ) (cos ψ) (sin ψ) := by
  have u : ∀ x : ℝ, cos x * cos x + sin x * sin x = 1 := fun x => by
    have := cos_sq_add_sin_sq x; nlinarith
  have c2 : ∀ x : ℝ, cos x = cos (x/2) * cos (x/2) - sin (x/2) * sin (x/2) := fun x => by
    have h := cos_two_mul' (x/2); rw [show 2 * (x/2) = x by ring] at h; rw [h]; ring
  have s2 : ∀ x : ℝ, sin x = 2 * cos (x/2) * sin (x/2) := fun x => by
    have h := sin_two_mul (x/2); rw [show 2 * (x/2) = x by ring] at h; rw [h]; ring
  refine ⟨qnormSq_qzxz _ _ _ _ _ _ (u _) (u _) (u _), ?_⟩
  rw [toM3_qzxz' _ _ _ _ _ _ (u _) (u _) (u _), ← c2, ← c2, ← c2, ← s2, ← s2, ← s2]

end CryoCat.C06.Export
