import CryoCat.Model.C05
import CryoCat.Lemmas.M3
import Mathlib.Tactic.Ring
import Mathlib.Tactic.Linarith
import Mathlib.Tactic.Push
import Mathlib.Tactic.NormNum
import Mathlib.Algebra.Order.Field.Rat
/-! C05 — helper lemmas: rounding half away from zero on `Rat`; determinant facts. -/
namespace CryoCat.C05

theorem floor_half_bounds (r : Rat) : r - 1/2 < ((r + 1/2).floor : Rat) ∧ ((r + 1/2).floor : Rat) ≤ r + 1/2 := by
  have h1 := Rat.floor_le (r + 1/2)
  have h2 := Rat.lt_floor_add_one (r + 1/2)
  push_cast at h2
  constructor <;> linarith

/-- the rounded value is within 1/2 of the argument (both signs, ties included) -/
theorem roundHalfUp_close (q : Rat) : |q - (roundHalfUp q : Rat)| ≤ 1/2 := by
  unfold roundHalfUp
  split
  · obtain ⟨h1, h2⟩ := floor_half_bounds q
    rw [abs_le]; constructor <;> linarith
  · obtain ⟨h1, h2⟩ := floor_half_bounds (-q)
    push_cast
    rw [abs_le]; constructor <;> linarith

theorem floor_half : ((1 : Rat) / 2).floor = 0 := by
  have h1 : (0 : Int) ≤ ((1 : Rat) / 2).floor := Rat.le_floor_iff.2 (by norm_num)
  have h2 : ((1 : Rat) / 2).floor < 1 := Rat.floor_lt_iff.2 (by norm_num)
  omega

/-- half away from zero is an odd function -/
theorem roundHalfUp_neg (q : Rat) : roundHalfUp (-q) = -roundHalfUp q := by
  unfold roundHalfUp
  by_cases h0 : q = 0
  · subst h0
    simp only [neg_zero, le_refl, if_true, zero_add, floor_half]
  by_cases h : 0 ≤ q
  · have h' : ¬ (0 ≤ -q) := by
      intro hh
      have : q = 0 := le_antisymm (by linarith) h
      exact h0 this
    simp [h, h']
  · have h' : 0 ≤ -q := by linarith [not_le.1 h]
    simp [h, h']

/-- ties go away from zero: n + 1/2 ↦ n + 1 for n ≥ 0 … -/
theorem roundHalfUp_tie_pos (n : Int) (hn : 0 ≤ n) : roundHalfUp ((n : Rat) + 1/2) = n + 1 := by
  unfold roundHalfUp
  have h : (0 : Rat) ≤ (n : Rat) + 1/2 := by
    have : (0 : Rat) ≤ (n : Rat) := by exact_mod_cast hn
    linarith
  rw [if_pos h]
  have : (n : Rat) + 1/2 + 1/2 = ((n + 1 : Int) : Rat) := by push_cast; ring
  rw [this, Rat.floor_intCast]

/-- … and −(n + 1/2) ↦ −(n + 1) -/
theorem roundHalfUp_tie_neg (n : Int) (hn : 0 ≤ n) : roundHalfUp (-((n : Rat) + 1/2)) = -(n + 1) := by
  rw [roundHalfUp_neg, roundHalfUp_tie_pos n hn]

/-- integers are fixed -/
theorem roundHalfUp_int (n : Int) : roundHalfUp (n : Rat) = n := by
  have key : ∀ m : Int, ((m : Rat) + 1/2).floor = m := by
    intro m
    have h1 : m ≤ ((m : Rat) + 1/2).floor := Rat.le_floor_iff.2 (by linarith)
    have h2 : ((m : Rat) + 1/2).floor < m + 1 := Rat.floor_lt_iff.2 (by push_cast; linarith)
    omega
  unfold roundHalfUp
  split
  · exact key n
  · have := key (-n)
    push_cast at this
    rw [this]; ring

theorem absR_eq_abs (q : Rat) : absR q = |q| := by
  unfold absR
  split
  · rw [abs_of_nonneg]; assumption
  · rw [abs_of_neg]; linarith

theorem isInt_iff (q : Rat) : isInt q = true → ∃ n : Int, q = (n : Rat) := by
  intro h
  refine ⟨q.num, ?_⟩
  have hd : q.den = 1 := by simpa [isInt] using h
  exact (Rat.den_eq_one_iff q).1 hd |>.symm

/-! ### rotations: orthogonal with determinant 1 -/
section rot
variable {α : Type} [CommRing α]

/-- a proper rotation matrix -/
def IsRot (m : M3 α) : Prop := m.Orth ∧ m.det = 1

theorem det_mul (a b : M3 α) : (a * b).det = a.det * b.det := by
  simp only [M3.mul_def, M3.mul, M3.det]; ring

theorem det_rz (c s : α) : (rz c s).det = c * c + s * s := by simp only [rz, M3.det]; ring
theorem det_rx (c s : α) : (rx c s).det = c * c + s * s := by simp only [rx, M3.det]; ring

theorem IsRot.mul {a b : M3 α} (ha : IsRot a) (hb : IsRot b) : IsRot (a * b) :=
  ⟨ha.1.mul hb.1, by rw [det_mul, ha.2, hb.2, one_mul]⟩

theorem isRot_zxz (cp sp ct st cs ss : α) (hp : cp*cp + sp*sp = 1) (ht : ct*ct + st*st = 1) (hs : cs*cs + ss*ss = 1) :
    IsRot (zxz cp sp ct st cs ss) :=
  ⟨zxz_orth cp sp ct st cs ss hp ht hs, by unfold zxz; rw [det_mul, det_mul, det_rz, det_rx, det_rz, hp, ht, hs]; ring⟩

end rot

/-! fixtures for the non-vacuity examples of `Props/C05` -/

/-- exact quarter-turn services on `Rat`: cos/sin of multiples of 90°, Euler triples of the two matrices used -/
def exS : Svc Rat where
  cs a := if a = 90 then (0, 1) else if a = -90 then (0, -1) else if a = 180 ∨ a = -180 then (-1, 0) else (1, 0)
  euler m := if m = rz 0 1 then (90, 0, 0) else if m = rx 0 1 * rz 0 1 then (90, 90, 0) else (0, 0, 0)
  rnd := roundHalfUp

/-- a particle with half-integer ties of both signs, non-zero shifts and a non-trivial orientation -/
def exP : Particle Rat :=
  { (default : Particle Rat) with x := 5, y := -7, z := 3, shift_x := 1/2, shift_y := -5/2, shift_z := 1/4,
                                  phi := 0, theta := 90, psi := 0, tomo_id := 2 }

end CryoCat.C05
