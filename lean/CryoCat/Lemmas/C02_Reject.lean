import CryoCat.Lemmas.C02_Doc
/-! C02 — helper lemmas, part 10: the reader REJECTS every text of the statement's layout class that lacks a
separating line between two blocks (class C02-K4) or the line end after the last label line of an empty last
block (class C02-K3). Core Lean only. -/
namespace CryoCat.C02

theorem parseLabels_end (cols : List Word) (tls : List (List Char)) (hl : cols.length = tls.length) :
    parseLabels ((List.zipWith labelToks cols tls).flatten) = .error (.expected .prop true) := by
  induction cols generalizing tls with
  | nil => simp [parseLabels]
  | cons c cols ih =>
    cases tls with
    | nil => simp at hl
    | cons tl tls =>
      simp only [List.zipWith_cons_cons, List.flatten_cons]
      rw [parseLabels_label, ih tls (by simpa using hl)]

/-- blank / comment tokens, then the `loop_` keyword: where the block loop gives up with left-over tokens -/
def LoopAhead (ts : List Tok) : Prop := ∃ a r, ts = a ++ .loop :: r ∧ ∀ t ∈ a, isNC t = true

theorem blocksGo_loopAhead (fuel : Nat) (ts : List Tok) (h : LoopAhead ts) : ∃ e, blocksGo fuel ts = .error e := by
  obtain ⟨a, r, rfl, ha⟩ := h
  cases fuel with
  | zero => exact ⟨.trailing, rfl⟩
  | succ f =>
    refine ⟨.trailing, ?_⟩
    rw [blocksGo]
    have hs : skipNC (a ++ .loop :: r) = .loop :: r := by rw [skipNC_append a _ ha, skipNC_stop _ _ (by rfl)]
    simp [lookaheadLit, hs]

theorem rowsGo_notlit (n k : Nat) (cur : List Word) (rows : List (List Word)) (ts : List Tok)
    (h : ∀ w r, ts ≠ .lit w :: r) : rowsGo n (k + 1) cur rows ts = .ok (rows.reverse, ts) := by
  cases ts with
  | nil => simp [rowsGo]
  | cons t r =>
    cases t with
    | lit w => exact absurd rfl (h w r)
    | _ => simp [rowsGo]

theorem nc_not_lit {t : Tok} (h : isNC t = true) : ∀ w, t ≠ .lit w := by
  intro w e; subst e; simp [isNC] at h

/-- the row loop running into the name line of the next block: the name is taken for a cell; the loop then either
fails (a comment on the name line where the row's line end is due) or stops in front of `loop_` -/
theorem rowsGo_into_next_block (n : Nat) (hn : n ≠ 0) (rows : List (List Word)) (w : Word) (N2 r2 : List Tok)
    (hN2 : ∀ t ∈ N2, isNC t = true) (hne : N2 ≠ []) :
    (∃ e, rowsGo n n [] rows (.lit w :: (N2 ++ .loop :: r2)) = .error e) ∨
    (∃ rows' ts', rowsGo n n [] rows (.lit w :: (N2 ++ .loop :: r2)) = .ok (rows', ts') ∧ LoopAhead ts') := by
  obtain ⟨k, rfl⟩ := Nat.exists_eq_succ_of_ne_zero hn
  obtain ⟨t, N2', rfl⟩ := List.exists_cons_of_ne_nil hne
  have ht : isNC t = true := hN2 t (by simp)
  have hN2' : ∀ x ∈ N2', isNC x = true := fun x hx => hN2 x (by simp [hx])
  have h1 : rowsGo (k + 1) (k + 1) [] rows (.lit w :: (t :: N2' ++ .loop :: r2)) = rowsGo (k + 1) k [w] rows (t :: N2' ++ .loop :: r2) := by
    simp [rowsGo]
  rw [h1]
  cases k with
  | zero =>
    cases t with
    | newline =>
      right
      refine ⟨([w] :: rows).reverse, N2' ++ .loop :: r2, ?_, N2', r2, rfl, hN2'⟩
      have : rowsGo 1 0 [w] rows (.newline :: N2' ++ .loop :: r2) = rowsGo 1 1 [] ([w] :: rows) (N2' ++ .loop :: r2) := by
        simp [rowsGo]
      rw [this]
      apply rowsGo_notlit
      intro v r e
      cases N2' with
      | nil => simp at e
      | cons x xs =>
        simp only [List.cons_append, List.cons.injEq] at e
        exact nc_not_lit (hN2' x (by simp)) v e.1
    | comment c => left; exact ⟨.expected .newline false, by simp [rowsGo]⟩
    | lit v => simp [isNC] at ht
    | prop v => simp [isNC] at ht
    | loop => simp [isNC] at ht
  | succ k' =>
    right
    refine ⟨rows.reverse, t :: N2' ++ .loop :: r2, ?_, t :: N2', r2, rfl, hN2⟩
    apply rowsGo_notlit
    intro v r e
    simp only [List.cons_append, List.cons.injEq] at e
    exact nc_not_lit ht v e.1

/-- class C02-K3: the tokens end with the last label line of a block without rows -/
theorem block_k3 (P N : List Tok) (hP : ∀ t ∈ P, isNC t = true) (hN : ∀ t ∈ N, isNC t = true)
    (name : Word) (cols : List Word) (tls : List (List Char)) (hlen : cols.length = tls.length) (fuel : Nat) :
    blocksGo (fuel + 1) (P ++ .lit name :: (N ++ .loop :: .newline :: (List.zipWith labelToks cols tls).flatten)) =
      .error (.expected .prop true) := by
  rw [blocksGo]
  have hlook : lookaheadLit (P ++ .lit name :: (N ++ .loop :: .newline :: (List.zipWith labelToks cols tls).flatten)) = true := by
    unfold lookaheadLit
    rw [skipNC_append P _ hP, skipNC_stop _ _ (by rfl)]
  rw [hlook]
  simp only [if_true]
  have hspec : parseSpecifier (P ++ .lit name :: (N ++ .loop :: .newline :: (List.zipWith labelToks cols tls).flatten)) =
      .ok (name, N ++ .loop :: .newline :: (List.zipWith labelToks cols tls).flatten) := by
    unfold parseSpecifier
    rw [skipNC_append P _ hP, skipNC_stop _ _ (by rfl)]
  rw [hspec]
  have hcolsP : parseColumns (N ++ .loop :: .newline :: (List.zipWith labelToks cols tls).flatten) = .error (.expected .prop true) := by
    unfold parseColumns
    rw [skipNC_append N _ hN, skipNC_stop _ _ (by rfl)]
    simp only
    exact parseLabels_end cols tls hlen
  simp only [hcolsP]

/-- class C02-K4: the rows of a block are directly followed by the name line of the next block -/
theorem block_k4 (P N Q : List Tok) (hP : ∀ t ∈ P, isNC t = true) (hN : ∀ t ∈ N, isNC t = true)
    (hQ : ∀ t ∈ Q, isNC t = true) (name : Word) (cols : List Word) (tls : List (List Char))
    (hlen : cols.length = tls.length) (hcols : cols ≠ []) (ws : List Word) (rs : List (List Word))
    (hrs : ∀ x ∈ ws :: rs, x.length = cols.length) (w2 : Word) (N2 r2 : List Tok)
    (hN2 : ∀ t ∈ N2, isNC t = true) (hne2 : N2 ≠ []) (fuel : Nat) :
    ∃ e, blocksGo (fuel + 1) (P ++ .lit name :: (N ++ .loop :: .newline ::
        ((List.zipWith labelToks cols tls).flatten ++ (Q ++ ((((ws :: rs).map rowToks).flatten) ++ (.lit w2 :: (N2 ++ .loop :: r2))))))) = .error e := by
  have hn : cols.length ≠ 0 := by simpa using hcols
  let after : List Tok := .lit w2 :: (N2 ++ .loop :: r2)
  have htr : ∃ t r, Q ++ ((((ws :: rs).map rowToks).flatten) ++ after) = t :: r ∧ ∀ w, t ≠ .prop w := by
    cases Q with
    | cons t Q => exact ⟨t, _, rfl, nc_not_prop (hQ t (by simp))⟩
    | nil =>
      have hl := hrs ws (by simp)
      cases ws with
      | nil => simp at hl; exact absurd hl.symm hn
      | cons w ws' => exact ⟨.lit w, ws'.map .lit ++ .newline :: ((rs.map rowToks).flatten ++ after), by simp [rowToks], by intro v e; cases e⟩
  obtain ⟨t, r, htr, htp⟩ := htr
  rw [blocksGo]
  have hlook : lookaheadLit (P ++ .lit name :: (N ++ .loop :: .newline ::
        ((List.zipWith labelToks cols tls).flatten ++ (Q ++ ((((ws :: rs).map rowToks).flatten) ++ after))))) = true := by
    unfold lookaheadLit
    rw [skipNC_append P _ hP, skipNC_stop _ _ (by rfl)]
  rw [hlook]
  simp only [if_true]
  have hspec : parseSpecifier (P ++ .lit name :: (N ++ .loop :: .newline ::
        ((List.zipWith labelToks cols tls).flatten ++ (Q ++ ((((ws :: rs).map rowToks).flatten) ++ after))))) =
        .ok (name, N ++ .loop :: .newline ::
        ((List.zipWith labelToks cols tls).flatten ++ (Q ++ ((((ws :: rs).map rowToks).flatten) ++ after)))) := by
    unfold parseSpecifier
    rw [skipNC_append P _ hP, skipNC_stop _ _ (by rfl)]
  rw [hspec]
  have hcolsP : parseColumns (N ++ .loop :: .newline ::
        ((List.zipWith labelToks cols tls).flatten ++ (Q ++ ((((ws :: rs).map rowToks).flatten) ++ after)))) =
        .ok (cols, Q ++ ((((ws :: rs).map rowToks).flatten) ++ after)) := by
    unfold parseColumns
    rw [skipNC_append N _ hN, skipNC_stop _ _ (by rfl)]
    simp only
    rw [htr, parseLabels_labels cols tls hlen t r htp]
  simp only [hcolsP]
  have hrows : parseRows cols.length (Q ++ ((((ws :: rs).map rowToks).flatten) ++ after)) =
      rowsGo cols.length cols.length [] ((ws :: rs).reverse ++ []) after := by
    unfold parseRows
    rw [skipNC_append Q _ hQ]
    obtain ⟨w, r', hw⟩ := rows_head_lit cols.length hn ws rs (hrs ws (by simp)) after
    rw [hw, skipNC_stop _ _ (by rfl), ← hw, rowsGo_rows _ _ hrs]
  rw [hrows]
  rcases rowsGo_into_next_block cols.length hn ((ws :: rs).reverse ++ []) w2 N2 r2 hN2 hne2 with ⟨e, he⟩ | ⟨rows', ts', he, hla⟩
  · exact ⟨e, by simp only [after, he]⟩
  · obtain ⟨e, hE⟩ := blocksGo_loopAhead fuel ts' hla
    exact ⟨e, by simp only [after, he, hE]⟩

/-- the name line and the blank / comment lines between it and `loop_`: all blank / comment tokens, at least the line end -/
theorem name_rest_nc (b : BlockLayout) (hmid : ∀ l ∈ b.mid, l.Skip) :
    (∀ t ∈ commentToks b.nameLine.tail ++ .newline :: b.mid.flatMap Line.toks, isNC t = true) ∧
    commentToks b.nameLine.tail ++ .newline :: b.mid.flatMap Line.toks ≠ [] := by
  refine ⟨?_, by simp⟩
  intro t ht
  simp only [List.mem_append, List.mem_cons] at ht
  rcases ht with ht | rfl | ht
  · exact commentToks_nc _ t ht
  · rfl
  · exact skips_toks_nc _ hmid t ht

/-- **the block loop fails on the tokens of every document of the statement's layout class that is not separated** -/
theorem blocksGo_reject (tr : List Line) (htr : ∀ l ∈ tr, l.Skip) (bs : List BlockLayout)
    (hbs : ∀ b ∈ bs, b.Ok) (hst : SepStmt bs) (hns : ¬ SepOk tr bs) (fuel : Nat) :
    ∃ e, blocksGo fuel (docToks bs tr) = .error e := by
  have hT := skips_toks_nc tr htr
  induction bs generalizing fuel with
  | nil => exact absurd trivial hns
  | cons b rest ih =>
    cases fuel with
    | zero => exact ⟨.trailing, rfl⟩
    | succ f =>
      have hb := hbs b (by simp)
      have hdoc : docToks (b :: rest) tr = b.toks ++ docToks rest tr := by simp [docToks]
      have hrestOk : ∀ x ∈ rest, x.Ok := fun x hx => hbs x (by simp [hx])
      obtain ⟨hpre, hmid, hpost, _, _, _, _, _, _, hcols, _, hlab, hrows⟩ := hb
      have hlen : b.cols.length = (b.labels.map Line.tail).length := by
        have := congrArg List.length hlab; simpa using this.symm
      have hN := (name_rest_nc b hmid).1
      have hrs : ∀ ws ∈ b.rows.map Line.words, ws.length = b.cols.length := by
        intro ws hws
        obtain ⟨r, hr, rfl⟩ := List.mem_map.1 hws
        exact (hrows r hr).2.2.1
      rw [hdoc, block_toks b (hbs b (by simp)), reassoc]
      cases rest with
      | nil =>
        -- the last block: no rows, nothing after the labels
        have h1 : b.rows = [] ∧ b.post ++ tr = [] := by
          by_cases h0 : b.rows = []
          · refine ⟨h0, ?_⟩
            by_cases h2 : b.post ++ tr = []
            · exact h2
            · exact absurd (fun _ => h2) hns
          · exact absurd (fun h => absurd h h0) hns
        obtain ⟨h0, h2⟩ := h1
        have hpost0 : b.post = [] := (List.append_eq_nil_iff.1 h2).1
        have htr0 : tr = [] := (List.append_eq_nil_iff.1 h2).2
        subst htr0
        simp only [h0, hpost0, docToks, List.flatMap_nil, List.map_nil, List.flatten_nil, List.append_nil]
        exact ⟨_, block_k3 _ _ (skips_toks_nc _ hpre) hN b.name b.cols _ hlen f⟩
      | cons b2 rest' =>
        obtain ⟨hrne, hst'⟩ := hst
        have hb2 := hbs b2 (by simp)
        have hN2 := name_rest_nc b2 hb2.2.1
        have hafter : docToks (b2 :: rest') tr = b2.pre.flatMap Line.toks ++
            (.lit b2.name :: ((commentToks b2.nameLine.tail ++ .newline :: b2.mid.flatMap Line.toks) ++ .loop :: (.newline ::
              ((List.zipWith labelToks b2.cols (b2.labels.map Line.tail)).flatten ++
                (b2.post.flatMap Line.toks ++ ((b2.rows.map Line.words).map rowToks).flatten)) ++ (docToks rest' tr)))) := by
          simp only [docToks, List.flatMap_cons, block_toks b2 hb2, List.append_assoc, List.cons_append]
        by_cases hp : b2.pre = []
        · -- class K4: the next block's name line directly follows the rows
          obtain ⟨ws, rs, hwr⟩ : ∃ ws rs, b.rows.map Line.words = ws :: rs := by
            cases hh : b.rows.map Line.words with
            | nil => exact absurd (by simpa using hh) hrne
            | cons ws rs => exact ⟨ws, rs, rfl⟩
          rw [hafter, hp, hwr]
          simp only [List.flatMap_nil, List.nil_append]
          exact block_k4 _ _ _ (skips_toks_nc _ hpre) hN (skips_toks_nc _ hpost) b.name b.cols _ hlen hcols ws rs
            (by rw [← hwr]; exact hrs) b2.name _ _ hN2.1 hN2.2 f
        · have hns' : ¬ SepOk tr (b2 :: rest') := fun h => hns ⟨hrne, hp, h⟩
          have h0 : b.rows.map Line.words ≠ [] := by simpa using hrne
          have hstops : Stops (docToks (b2 :: rest') tr) := by
            rw [hafter]
            exact stops_append _ _ (skips_toks_nc _ hb2.1) (lines_toks_ne _ hp)
          rw [block_step _ _ _ (skips_toks_nc _ hpre) hN (skips_toks_nc _ hpost) b.name b.cols _ hlen hcols _ hrs _
            hstops (fun h => absurd h h0) f]
          simp only [h0, if_false]
          obtain ⟨e, he⟩ := ih hrestOk hst' hns' f
          exact ⟨e, by rw [he]⟩

/-- **the reader rejects every text of the statement's layout class that is not separated** -/
theorem readStar_reject (d : Doc) (h : d.OkStatement) (hns : ¬ SepOk d.trailing d.blocks) : ∃ e, readStar d.text = .error e := by
  obtain ⟨hbs, htr, hst, hne⟩ := h
  have hlines : ∀ l ∈ d.lines, l.Ok := by
    intro l hl
    simp only [Doc.lines, List.mem_append, List.mem_flatMap] at hl
    rcases hl with ⟨b, hb, hlb⟩ | hl
    · exact block_lines_ok b (hbs b hb) l hlb
    · exact (htr l hl).1
  have hl : d.lines.flatMap Line.toks = docToks d.blocks d.trailing := by
    simp [Doc.lines, docToks, List.flatMap_append, List.flatMap_assoc]
    rfl
  unfold readStar Doc.text
  rw [tokenize_lines d.lines hne hlines]
  unfold parseBlocks
  rw [hl]
  exact blocksGo_reject d.trailing htr d.blocks hbs hst hns _

end CryoCat.C02
