import CryoCat.Model.C08_Check
import CryoCat.Lemmas.C08
import Mathlib.Data.List.Forall2
/-! C08 — the verified checkers decide the clauses: generic Boolean/Prop bridges and the row
comparisons (core Lean only). -/
namespace CryoCat.C08
open CryoCat

section generic
variable {β γ : Type}

theorem pairwiseB_iff (r : β → β → Bool) (R : β → β → Prop) (h : ∀ a b, r a b = true ↔ R a b) (l : List β) :
    pairwiseB r l = true ↔ l.Pairwise R := by
  induction l with
  | nil => simp [pairwiseB]
  | cons a l ih =>
    simp only [pairwiseB, Bool.and_eq_true, List.all_eq_true, List.pairwise_cons, ih]
    constructor
    · rintro ⟨h1, h2⟩; exact ⟨fun b hb => (h a b).1 (h1 b hb), h2⟩
    · rintro ⟨h1, h2⟩; exact ⟨fun b hb => (h a b).2 (h1 b hb), h2⟩

theorem forall2B_iff (r : β → γ → Bool) (R : β → γ → Prop) (l : List β) (m : List γ)
    (h : ∀ a ∈ l, ∀ b ∈ m, (r a b = true ↔ R a b)) :
    forall2B r l m = true ↔ List.Forall₂ R l m := by
  induction l generalizing m with
  | nil => cases m <;> simp [forall2B]
  | cons a l ih =>
    cases m with
    | nil => simp [forall2B]
    | cons b m =>
      simp only [forall2B, Bool.and_eq_true, List.forall₂_cons]
      rw [h a (by simp) b (by simp), ih m (fun a' ha b' hb => h a' (by simp [ha]) b' (by simp [hb]))]

theorem splitBy_some (ins : List (List β)) (out : List γ) (bs : List (List γ)) (h : splitBy ins out = some bs) :
    out = bs.flatten ∧ List.Forall₂ (fun m b => m.length = b.length) ins bs := by
  induction ins generalizing out bs with
  | nil =>
    cases out with
    | nil => simp [splitBy] at h; subst h; simp
    | cons a out => simp [splitBy] at h
  | cons m ms ih =>
    simp only [splitBy] at h
    split at h
    · cases h
    · rename_i hlen
      cases h2 : splitBy ms (out.drop m.length) with
      | none => rw [h2] at h; cases h
      | some bs' =>
        rw [h2] at h
        simp only [Option.map_some, Option.some.injEq] at h
        subst h
        obtain ⟨e, f2⟩ := ih _ _ h2
        refine ⟨?_, List.Forall₂.cons ?_ f2⟩
        · rw [List.flatten_cons, ← e, List.take_append_drop]
        · rw [List.length_take]; omega

theorem splitBy_flatten (ins : List (List β)) (bs : List (List γ))
    (h : List.Forall₂ (fun m b => m.length = b.length) ins bs) : splitBy ins bs.flatten = some bs := by
  induction h with
  | nil => simp [splitBy]
  | @cons m b ms bs hmb _ ih =>
    simp only [splitBy, List.flatten_cons, List.length_append]
    rw [if_neg (by omega), hmb, List.drop_left, List.take_left, ih]
    rfl

theorem mem_zip_map_self (g : β → γ) (l : List β) (a : β × γ) (ha : a ∈ l.zip (l.map g)) :
    a.1 ∈ l ∧ a.2 = g a.1 := by
  induction l with
  | nil => simp at ha
  | cons p l ih =>
    simp only [List.map_cons, List.zip_cons_cons, List.mem_cons] at ha
    rcases ha with rfl | ha
    · exact ⟨by simp, rfl⟩
    · exact ⟨by simp [(ih ha).1], (ih ha).2⟩

end generic

section rows
set_option linter.unusedSectionVars false
variable {α : Type} [DecidableEq α] (eqv : α → α → Bool) (heqv : ∀ a b, eqv a b = true ↔ a = b)
include heqv

theorem rowEq_iff (p q : Particle α) : rowEq eqv p q = true ↔ p = q := by
  unfold rowEq
  rw [List.all_eq_true]
  constructor
  · intro h
    exact Particle.ext_get (fun f => (heqv _ _).1 (h f (Field.mem_all f)))
  · rintro rfl f _
    exact (heqv _ _).2 rfl

theorem rowBEq_lawful : @LawfulBEq (Particle α) (rowBEq eqv) :=
  @LawfulBEq.mk _ (rowBEq eqv) (@ReflBEq.mk _ (rowBEq eqv) (fun {a} => (rowEq_iff eqv heqv a a).2 rfl))
    (fun {a b} h => (rowEq_iff eqv heqv a b).1 h)

theorem permB_iff (a b : Motl α) : permB eqv a b = true ↔ a.Perm b := by
  unfold permB
  exact @List.isPerm_iff _ (rowBEq eqv) (rowBEq_lawful eqv heqv) a b

theorem listEqB_iff (a b : Motl α) : listEqB eqv a b = true ↔ a = b := by
  unfold listEqB
  rw [forall2B_iff (rowEq eqv) (· = ·) a b (fun p _ q _ => rowEq_iff eqv heqv p q)]
  exact List.forall₂_eq_eq_eq ▸ Iff.rfl

theorem sameB_iff (fill : α → α) (skip : Field → Bool) (p q : Particle α) :
    sameB eqv fill skip p q = true
      ↔ ∀ g : Field, skip g = true ∨ q.get g = p.get g ∨ q.get g = fill (p.get g) := by
  unfold sameB
  rw [List.all_eq_true]
  constructor
  · intro h g
    have := h g (Field.mem_all g)
    simpa only [Bool.or_eq_true, heqv, or_assoc] using this
  · intro h g _
    simpa only [Bool.or_eq_true, heqv, or_assoc] using h g

end rows
end CryoCat.C08
