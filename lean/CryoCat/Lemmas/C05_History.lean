import CryoCat.Model.C05
import CryoCat.Lemmas.C05
import CryoCat.Lemmas.M3
import Mathlib.Tactic.Ring
/-! C05 — histories with `flip_handedness` calls: normal form with the flips moved to the end.

At the level of the STATEMENT (`specOp`/`specRun` on abstract poses): a flip followed by a shift / rotation /
update equals the z-mirrored shift / rotation / update followed by the flip (`spec_flip_conj`), two flips
with the same mirror plane cancel, hence a whole history (without `scale_coordinates`, all flips using the
same plane for the particle's tomogram) equals the flip-free history `pushFlips false ops` followed by ONE
flip iff the number of flips is odd (`specRun_flips_to_end`). `scale_coordinates` is excluded because the
mirror plane `z = (dz+1)/2` does not scale with the coordinates (`spec_flip_scale_not_commute`).

At the level of the MODEL (whole 20-field records, no hypothesis): adjacent equal flips cancel anywhere in
a history, and `n` equal flips are the identity or one flip according to the parity of `n`.

This file does not import `Props/C05`; the few facts it needs from there are re-proved under `hist_` names. -/
namespace CryoCat.C05
open CryoCat
set_option linter.unusedSectionVars false

/-! ### definitions -/
section defs
variable {α : Type}

/-- z-mirror of a vector (`= Mz.apply v`, see `mzV_eq_apply`) -/
def mzV [Neg α] (v : V3 α) : V3 α := ⟨v.x, v.y, -v.z⟩

/-- the operation whose effect on the mirrored pose is the mirror image of the operation's effect:
shift vector z-mirrored, rotation conjugated by the z-mirror, everything else unchanged -/
def conjOp [OfNat α 0] [OfNat α 1] [Neg α] [Add α] [Mul α] : Op α → Op α
  | .shift v => .shift (mzV v)
  | .rotate q => .rotate (Mz * q * Mz)
  | .update => .update
  | .scale f => .scale f
  | .flip d => .flip d

def isFlip : Op α → Bool
  | .flip _ => true
  | _ => false

def isScale : Op α → Bool
  | .scale _ => true
  | _ => false

/-- number of `flip_handedness` calls in a history -/
def flipCount (ops : List (Op α)) : Nat := ops.countP isFlip

/-- the flip-free normal form: flips removed, every other operation conjugated (`conjOp`) iff an odd
number of flips precede it (`par` = parity of the flips already passed) -/
def pushFlips [OfNat α 0] [OfNat α 1] [Neg α] [Add α] [Mul α] : Bool → List (Op α) → List (Op α)
  | _, [] => []
  | par, .flip _ :: ops => pushFlips (!par) ops
  | par, .update :: ops => (if par then conjOp .update else .update) :: pushFlips par ops
  | par, .scale f :: ops => (if par then conjOp (.scale f) else .scale f) :: pushFlips par ops
  | par, .shift v :: ops => (if par then conjOp (.shift v) else .shift v) :: pushFlips par ops
  | par, .rotate q :: ops => (if par then conjOp (.rotate q) else .rotate q) :: pushFlips par ops

/-- what the statement says a covered flip with mirror-plane parameter `dz` does to a pose -/
def mirrorPose [OfNat α 0] [OfNat α 1] [Neg α] [Add α] [Sub α] [Mul α] (dz : α) (P : Pose α) : Pose α :=
  { P with pos := ⟨P.pos.x, P.pos.y, dz + 1 - P.pos.z⟩, R := Mz * P.R * Mz }

/-- mirror iff `b` -/
def condMirror [OfNat α 0] [OfNat α 1] [Neg α] [Add α] [Sub α] [Mul α] (dz : α) (b : Bool) (P : Pose α) : Pose α :=
  if b then mirrorPose dz P else P

/-- parity after a history that was entered with parity `par` -/
def parAfter (par : Bool) (ops : List (Op α)) : Bool := decide ((par.toNat + flipCount ops) % 2 = 1)

end defs

section ring
variable {α : Type} [CommRing α] [DecidableEq α]

/-! ### small facts -/

theorem mzV_eq_apply (v : V3 α) : mzV v = (Mz : M3 α).apply v := by
  ext <;> simp [mzV, Mz, M3.apply]

theorem mzV_mzV (v : V3 α) : mzV (mzV v) = v := by
  ext <;> simp [mzV]

/-- conjugating twice by the z-mirror is the identity -/
theorem hist_Mz_conj_conj (R : M3 α) : Mz * (Mz * R * Mz) * Mz = R := by
  calc Mz * (Mz * R * Mz) * Mz = (Mz * Mz) * R * (Mz * Mz) := by simp only [M3.mul_assoc']
    _ = R := by rw [Mz_Mz, M3.one_mul', M3.mul_one']

theorem conjOp_conjOp (op : Op α) : conjOp (conjOp op) = op := by
  cases op with
  | shift v => simp only [conjOp, mzV_mzV]
  | rotate q => simp only [conjOp, hist_Mz_conj_conj]
  | _ => rfl

theorem pushFlips_cons_flip (par : Bool) (d : Dims α) (ops : List (Op α)) :
    pushFlips par (.flip d :: ops) = pushFlips (!par) ops := by
  simp only [pushFlips]

theorem pushFlips_cons_of_not_flip (par : Bool) (op : Op α) (ops : List (Op α)) (h : isFlip op = false) :
    pushFlips par (op :: ops) = (if par then conjOp op else op) :: pushFlips par ops := by
  cases op with
  | flip d => simp [isFlip] at h
  | _ => simp only [pushFlips]

theorem flipCount_nil : flipCount ([] : List (Op α)) = 0 := rfl

theorem flipCount_cons_flip (d : Dims α) (ops : List (Op α)) : flipCount (.flip d :: ops) = flipCount ops + 1 := by
  unfold flipCount
  exact List.countP_cons_of_pos rfl

theorem flipCount_cons_of_not_flip (op : Op α) (ops : List (Op α)) (h : isFlip op = false) :
    flipCount (op :: ops) = flipCount ops := by
  simp [flipCount, h]

/-- the normal form contains no flip -/
theorem flipCount_pushFlips (par : Bool) (ops : List (Op α)) : flipCount (pushFlips par ops) = 0 := by
  induction ops generalizing par with
  | nil => rfl
  | cons op ops ih =>
    cases op with
    | flip d => rw [pushFlips_cons_flip]; exact ih _
    | _ =>
      rw [pushFlips_cons_of_not_flip _ _ _ rfl, flipCount_cons_of_not_flip _ _ ?_, ih]
      cases par <;> rfl

theorem parAfter_nil (par : Bool) : parAfter par ([] : List (Op α)) = par := by
  cases par <;> rfl

theorem parAfter_cons_flip (par : Bool) (d : Dims α) (ops : List (Op α)) :
    parAfter par (.flip d :: ops) = parAfter (!par) ops := by
  simp only [parAfter, flipCount_cons_flip]
  cases par <;> simp only [Bool.toNat_false, Bool.toNat_true, Bool.not_false, Bool.not_true, decide_eq_decide] <;> omega

theorem parAfter_cons_of_not_flip (par : Bool) (op : Op α) (ops : List (Op α)) (h : isFlip op = false) :
    parAfter par (op :: ops) = parAfter par ops := by
  simp only [parAfter, flipCount_cons_of_not_flip op ops h]

/-! ### the statement, one step -/

theorem hist_specRun_cons (op : Op α) (ops : List (Op α)) (P : Pose α) :
    specRun (op :: ops) P = (specOp op P).bind (specRun ops) := by
  simp only [specRun]
  cases specOp op P <;> rfl

theorem hist_specRun_nil (P : Pose α) : specRun ([] : List (Op α)) P = some P := rfl

theorem hist_specRun_append (a b : List (Op α)) (P : Pose α) :
    specRun (a ++ b) P = (specRun a P).bind (specRun b) := by
  induction a generalizing P with
  | nil => rfl
  | cons op a ih =>
    rw [List.cons_append, hist_specRun_cons, hist_specRun_cons]
    cases specOp op P with
    | none => rfl
    | some P' => simp only [Option.bind_some, ih]

/-- the statement never changes the tomogram of a particle -/
theorem hist_specOp_tomo (op : Op α) (P P' : Pose α) (h : specOp op P = some P') : P'.tomo = P.tomo := by
  cases op with
  | flip d =>
    simp only [specOp] at h
    cases hd : specDim d P.tomo with
    | none => rw [hd] at h; simp at h
    | some dz => rw [hd] at h; simp only [Option.some.injEq] at h; subst h; rfl
  | _ => simp only [specOp, Option.some.injEq] at h; subst h; rfl

theorem hist_specRun_tomo (ops : List (Op α)) (P P' : Pose α) (h : specRun ops P = some P') : P'.tomo = P.tomo := by
  induction ops generalizing P with
  | nil => simp only [specRun, Option.some.injEq] at h; subst h; rfl
  | cons op ops ih =>
    rw [hist_specRun_cons] at h
    cases h1 : specOp op P with
    | none => rw [h1] at h; simp at h
    | some P1 =>
      rw [h1] at h
      rw [ih P1 h, hist_specOp_tomo op P P1 h1]

/-- a covered flip IS the mirror of the pose -/
theorem hist_specOp_flip (d : Dims α) (P : Pose α) (dz : α) (h : specDim d P.tomo = some dz) :
    specOp (.flip d) P = some (mirrorPose dz P) := by
  simp only [specOp, h]; rfl

theorem hist_specOp_flip_none (d : Dims α) (P : Pose α) (h : specDim d P.tomo = none) :
    specOp (.flip d) P = none := by
  simp only [specOp, h]

theorem mirrorPose_tomo (dz : α) (P : Pose α) : (mirrorPose dz P).tomo = P.tomo := rfl

theorem condMirror_tomo (dz : α) (b : Bool) (P : Pose α) : (condMirror dz b P).tomo = P.tomo := by
  cases b <;> rfl

theorem mirrorPose_mirrorPose (dz : α) (P : Pose α) : mirrorPose dz (mirrorPose dz P) = P := by
  have e : ∀ z : α, dz + 1 - (dz + 1 - z) = z := by intro z; ring
  cases P with
  | mk pos R tomo =>
    cases pos with
    | mk x y z => simp only [mirrorPose, hist_Mz_conj_conj, e]

theorem condMirror_false (dz : α) (P : Pose α) : condMirror dz false P = P := rfl
theorem condMirror_true (dz : α) (P : Pose α) : condMirror dz true P = mirrorPose dz P := rfl

theorem mirrorPose_condMirror (dz : α) (b : Bool) (P : Pose α) :
    mirrorPose dz (condMirror dz b P) = condMirror dz (!b) P := by
  cases b
  · rfl
  · simp only [condMirror_true, Bool.not_true, condMirror_false, mirrorPose_mirrorPose]

/-- mirror, then a shift / rotation / update = the conjugated operation, then mirror -/
theorem hist_specOp_mirror (dz : α) (op : Op α) (P : Pose α) (hf : isFlip op = false) (hs : isScale op = false) :
    specOp op (mirrorPose dz P) = (specOp (conjOp op) P).map (mirrorPose dz) := by
  cases op with
  | flip d => simp [isFlip] at hf
  | scale f => simp [isScale] at hs
  | update => rfl
  | shift v =>
    simp only [specOp, conjOp, Option.map_some, mirrorPose, Option.some.injEq, Pose.mk.injEq, and_true]
    ext <;> simp only [M3.mul_def, M3.mul, M3.apply, Mz, mzV, V3.add_def, V3.add] <;> ring1
  | rotate q =>
    simp only [specOp, conjOp, Option.map_some, mirrorPose, Option.some.injEq, Pose.mk.injEq, true_and, and_true]
    have h : Mz * (P.R * (Mz * q * Mz)) * Mz = Mz * P.R * Mz * q * (Mz * Mz) := by simp only [M3.mul_assoc']
    rw [h, Mz_Mz, M3.mul_one']

/-- the same with the mirror applied iff `par` -/
theorem hist_specOp_condMirror (dz : α) (par : Bool) (op : Op α) (P : Pose α) (hf : isFlip op = false)
    (hs : isScale op = false) :
    specOp op (condMirror dz par P) = (specOp (if par then conjOp op else op) P).map (condMirror dz par) := by
  cases par with
  | false =>
    simp only [Bool.false_eq_true, if_false]
    have : condMirror dz false = (id : Pose α → Pose α) := by funext Q; rfl
    rw [this, Option.map_id]; rfl
  | true =>
    simp only [if_true]
    have : condMirror dz true = (mirrorPose dz : Pose α → Pose α) := by funext Q; rfl
    rw [this]
    exact hist_specOp_mirror dz op P hf hs

/-- **flip then op = conjOp op then flip** for every shift, rotation and update — no hypothesis on the
dimensions: where the statement is silent about the flip both sides are `none`.
(`flip; shift v = shift (mzV v); flip`, `flip; rotate Q = rotate (Mz·Q·Mz); flip`, `flip; update = update; flip`.) -/
theorem spec_flip_conj (d : Dims α) (op : Op α) (P : Pose α) (hf : isFlip op = false) (hs : isScale op = false) :
    (specOp (.flip d) P).bind (specOp op) = (specOp (conjOp op) P).bind (specOp (.flip d)) := by
  cases hd : specDim d P.tomo with
  | none =>
    rw [hist_specOp_flip_none d P hd, Option.bind_none]
    cases h1 : specOp (conjOp op) P with
    | none => rfl
    | some P1 =>
      have ht := hist_specOp_tomo _ _ _ h1
      rw [Option.bind_some, hist_specOp_flip_none d P1 (by rw [ht]; exact hd)]
  | some dz =>
    rw [hist_specOp_flip d P dz hd, Option.bind_some, hist_specOp_mirror dz op P hf hs]
    cases h1 : specOp (conjOp op) P with
    | none => rfl
    | some P1 =>
      have ht := hist_specOp_tomo _ _ _ h1
      rw [Option.bind_some, Option.map_some, hist_specOp_flip d P1 dz (by rw [ht]; exact hd)]

/-- the other direction: **op then flip = flip then conjOp op** -/
theorem spec_conj_flip (d : Dims α) (op : Op α) (P : Pose α) (hf : isFlip op = false) (hs : isScale op = false) :
    (specOp op P).bind (specOp (.flip d)) = (specOp (.flip d) P).bind (specOp (conjOp op)) := by
  have hf' : isFlip (conjOp op) = false := by cases op <;> first | rfl | (simp [isFlip] at hf)
  have hs' : isScale (conjOp op) = false := by cases op <;> first | rfl | (simp [isScale] at hs)
  have := spec_flip_conj d (conjOp op) P hf' hs'
  rw [conjOp_conjOp] at this
  exact this.symm

/-- two covered flips with the same mirror plane (possibly given by different `dims` arguments) cancel -/
theorem hist_spec_flip_flip (d d' : Dims α) (P : Pose α) (dz : α) (h : specDim d P.tomo = some dz)
    (h' : specDim d' P.tomo = some dz) : (specOp (.flip d) P).bind (specOp (.flip d')) = some P := by
  rw [hist_specOp_flip d P dz h, Option.bind_some, hist_specOp_flip d' _ dz (by rw [mirrorPose_tomo]; exact h'),
    mirrorPose_mirrorPose]

/-- `scale_coordinates` does NOT commute with a flip at the level of the statement (the mirror plane
z = (dz+1)/2 is not scaled): flip then scale 2 sends z = 0 to 2·(1+1−0) = 4, scale 2 then flip to 1+1−0 = 2.
This is why histories with `scale` are excluded from `specRun_flips_to_end`. -/
theorem spec_flip_scale_not_commute :
    (specOp (.flip (.single (1 : Rat))) ⟨⟨0, 0, 0⟩, M3.one, 0⟩).bind (specOp (.scale 2)) ≠
    (specOp (.scale (2 : Rat)) ⟨⟨0, 0, 0⟩, M3.one, 0⟩).bind (specOp (.flip (.single 1))) := by
  decide +kernel

/-! ### the statement, whole histories -/

/-- generalisation over the parity `par` of the flips already passed: mirror iff `par`, then the history
= the normal form entered with `par`, then mirror iff the parity after the history is odd -/
theorem specRun_pushFlips_gen (t dz : α) (ops : List (Op α))
    (hflip : ∀ d', Op.flip d' ∈ ops → specDim d' t = some dz) (hns : ∀ op ∈ ops, isScale op = false)
    (par : Bool) (P : Pose α) (hP : P.tomo = t) :
    specRun ops (condMirror dz par P) = (specRun (pushFlips par ops) P).map (condMirror dz (parAfter par ops)) := by
  induction ops generalizing par P with
  | nil => simp only [pushFlips, hist_specRun_nil, Option.map_some, parAfter_nil]
  | cons op ops ih =>
    have hflip' : ∀ d', Op.flip d' ∈ ops → specDim d' t = some dz := fun d' h => hflip d' (List.mem_cons_of_mem _ h)
    have hns' : ∀ o ∈ ops, isScale o = false := fun o h => hns o (List.mem_cons_of_mem _ h)
    by_cases hf : isFlip op = true
    · cases op with
      | flip d' =>
        have hd : specDim d' (condMirror dz par P).tomo = some dz := by
          rw [condMirror_tomo, hP]; exact hflip d' (List.mem_cons_self ..)
        rw [hist_specRun_cons, hist_specOp_flip d' _ dz hd, Option.bind_some, mirrorPose_condMirror,
          pushFlips_cons_flip, parAfter_cons_flip]
        exact ih hflip' hns' (!par) P hP
      | _ => simp [isFlip] at hf
    · have hf' : isFlip op = false := by simpa using hf
      have hs : isScale op = false := hns op (List.mem_cons_self ..)
      rw [hist_specRun_cons, hist_specOp_condMirror dz par op P hf' hs, pushFlips_cons_of_not_flip par op ops hf',
        hist_specRun_cons, parAfter_cons_of_not_flip par op ops hf']
      cases h1 : specOp (if par then conjOp op else op) P with
      | none => rfl
      | some P1 =>
        have ht : P1.tomo = t := by rw [hist_specOp_tomo _ _ _ h1, hP]
        simp only [Option.map_some, Option.bind_some]
        exact ih hflip' hns' par P1 ht

/-- **MAIN THEOREM — flips to the end.** For a history without `scale_coordinates` in which every
`flip_handedness` call uses the same mirror plane `dz` for this particle's tomogram (`hflip`), and any dims `d`
giving that plane: the statement folded over the history equals the statement folded over the flip-free
normal form `pushFlips false ops`, followed by ONE flip iff the number of flips is odd. (Both sides are
poses or `none` in the sense of `specRun`; under `hflip` no flip of `ops` is outside the quantifier.) -/
theorem specRun_flips_to_end (ops : List (Op α)) (P : Pose α) (dz : α)
    (hflip : ∀ d', Op.flip d' ∈ ops → specDim d' P.tomo = some dz) (hns : ∀ op ∈ ops, isScale op = false)
    (d : Dims α) (hd : specDim d P.tomo = some dz) :
    specRun ops P = (specRun (pushFlips false ops) P).bind
      (fun P' => if flipCount ops % 2 = 0 then some P' else specOp (.flip d) P') := by
  have h := specRun_pushFlips_gen P.tomo dz ops hflip hns false P rfl
  rw [condMirror_false] at h
  rw [h]
  cases h1 : specRun (pushFlips false ops) P with
  | none => rfl
  | some P' =>
    have ht : P'.tomo = P.tomo := hist_specRun_tomo _ _ _ h1
    simp only [Option.map_some, Option.bind_some, parAfter, Bool.toNat_false, Nat.zero_add]
    by_cases he : flipCount ops % 2 = 0
    · have : ¬ (flipCount ops % 2 = 1) := by omega
      rw [if_pos he, decide_eq_false this, condMirror_false]
    · have h1' : flipCount ops % 2 = 1 := by omega
      rw [if_neg he, decide_eq_true h1', condMirror_true, hist_specOp_flip d P' dz (by rw [ht]; exact hd)]

/-- an even number of flips: the history is its flip-free normal form -/
theorem specRun_even_flips (ops : List (Op α)) (P : Pose α) (dz : α)
    (hflip : ∀ d', Op.flip d' ∈ ops → specDim d' P.tomo = some dz) (hns : ∀ op ∈ ops, isScale op = false)
    (he : flipCount ops % 2 = 0) :
    specRun ops P = specRun (pushFlips false ops) P := by
  have h := specRun_pushFlips_gen P.tomo dz ops hflip hns false P rfl
  have hp : parAfter false ops = false := by
    simp only [parAfter, Bool.toNat_false, Nat.zero_add, decide_eq_false_iff_not]; omega
  rw [condMirror_false, hp] at h
  rw [h]
  have : condMirror dz false = (id : Pose α → Pose α) := by funext Q; rfl
  rw [this, Option.map_id]; rfl

/-- an odd number of flips: the history is its flip-free normal form followed by one flip -/
theorem specRun_odd_flips (ops : List (Op α)) (P : Pose α) (dz : α)
    (hflip : ∀ d', Op.flip d' ∈ ops → specDim d' P.tomo = some dz) (hns : ∀ op ∈ ops, isScale op = false)
    (d : Dims α) (hd : specDim d P.tomo = some dz) (ho : flipCount ops % 2 = 1) :
    specRun ops P = (specRun (pushFlips false ops) P).bind (specOp (.flip d)) := by
  rw [specRun_flips_to_end ops P dz hflip hns d hd]
  have : ¬ (flipCount ops % 2 = 0) := by omega
  simp only [this, if_false]

theorem hist_pushFlips_only_flips (par : Bool) (ops : List (Op α)) (h : ∀ op ∈ ops, isFlip op = true) :
    pushFlips par ops = [] := by
  induction ops generalizing par with
  | nil => rfl
  | cons op ops ih =>
    cases op with
    | flip d => rw [pushFlips_cons_flip]; exact ih _ (fun o ho => h o (List.mem_cons_of_mem _ ho))
    | _ => have := h _ (List.mem_cons_self ..); simp [isFlip] at this

theorem hist_flipCount_only_flips (ops : List (Op α)) (h : ∀ op ∈ ops, isFlip op = true) :
    flipCount ops = ops.length := by
  unfold flipCount
  exact List.countP_eq_length.2 h

/-- a history consisting only of flips, all with the mirror plane `dz` for this particle's tomogram:
the pose is restored if their number is even and mirrored once if it is odd -/
theorem specRun_only_flips (ops : List (Op α)) (P : Pose α) (dz : α)
    (hall : ∀ op ∈ ops, isFlip op = true)
    (hflip : ∀ d', Op.flip d' ∈ ops → specDim d' P.tomo = some dz)
    (d : Dims α) (hd : specDim d P.tomo = some dz) :
    specRun ops P = if ops.length % 2 = 0 then some P else specOp (.flip d) P := by
  have hns : ∀ op ∈ ops, isScale op = false := by
    intro op hop
    have := hall op hop
    cases op <;> first | rfl | (simp [isFlip] at this)
  rw [specRun_flips_to_end ops P dz hflip hns d hd, hist_pushFlips_only_flips false ops hall,
    hist_flipCount_only_flips ops hall]
  rfl

/-- the special case `n` copies of the same flip -/
theorem specRun_replicate_flip (n : Nat) (d : Dims α) (P : Pose α) (dz : α) (hd : specDim d P.tomo = some dz) :
    specRun (List.replicate n (Op.flip d)) P = if n % 2 = 0 then some P else specOp (.flip d) P := by
  have h := specRun_only_flips (List.replicate n (Op.flip d)) P dz
    (fun op hop => by rw [List.eq_of_mem_replicate hop]; rfl)
    (fun d' hd' => by
      have := List.eq_of_mem_replicate hd'
      simp only [Op.flip.injEq] at this
      rw [this]; exact hd) d hd
  rwa [List.length_replicate] at h

/-! ### the model: whole particle records, no hypothesis -/

variable (S : Svc α)

/-- `flip_handedness` twice restores the whole 20-field record (same fact as `flip_flip` of `Props/C05`,
re-proved here because this file cannot import it) -/
theorem hist_flipP_flipP (d : Dims α) (p : Particle α) : flipP d (flipP d p) = p := by
  have ht : (flipP d p).tomo_id = p.tomo_id := by unfold flipP; split <;> rfl
  cases h : dimOf d p.tomo_id with
  | none =>
    have h' : dimOf d (flipP d p).tomo_id = none := by rw [ht, h]
    unfold flipP at *
    simp only [h] at *
    simp only [neg_neg]
  | some dz =>
    have h' : dimOf d (flipP d p).tomo_id = some dz := by rw [ht, h]
    have e : ∀ z : α, dz + ((Gen.C05.flipOffset : Int) : α) - (dz + ((Gen.C05.flipOffset : Int) : α) - z) = z := by
      intro z; ring
    unfold flipP at *
    simp only [h] at *
    simp only [neg_neg, e]

theorem hist_applyOp_flip_flip (d : Dims α) (m : Motl α) : applyOp S (.flip d) (applyOp S (.flip d) m) = m := by
  simp only [applyOp, List.map_map]
  conv => rhs; rw [← List.map_id m]
  apply List.map_congr_left; intro p _; exact hist_flipP_flipP d p

/-- a history split in two, one particle -/
theorem runOpsP_append (a b : List (Op α)) (p : Particle α) :
    runOpsP S (a ++ b) p = runOpsP S b (runOpsP S a p) := by
  simp only [runOpsP, List.foldl_append]

/-- a history split in two, whole list -/
theorem runOps_append (a b : List (Op α)) (m : Motl α) :
    runOps S (a ++ b) m = runOps S b (runOps S a m) := by
  simp only [runOps, List.foldl_append]

theorem hist_runOps_cons (op : Op α) (ops : List (Op α)) (m : Motl α) :
    runOps S (op :: ops) m = runOps S ops (applyOp S op m) := rfl

/-- two successive flips with the same dims cancel anywhere in a history — whole records, no hypothesis
(in particular also for particles the dims do not cover, and whatever surrounds the two flips) -/
theorem runOps_flip_flip_cancel (a b : List (Op α)) (d : Dims α) (m : Motl α) :
    runOps S (a ++ Op.flip d :: Op.flip d :: b) m = runOps S (a ++ b) m := by
  rw [runOps_append, runOps_append, hist_runOps_cons, hist_runOps_cons, hist_applyOp_flip_flip]

/-- the same for one particle -/
theorem runOpsP_flip_flip_cancel (a b : List (Op α)) (d : Dims α) (p : Particle α) :
    runOpsP S (a ++ Op.flip d :: Op.flip d :: b) p = runOpsP S (a ++ b) p := by
  rw [runOpsP_append, runOpsP_append]
  simp only [runOpsP, List.foldl_cons, applyOpP, hist_flipP_flipP]

/-- `n` equal flips: the list is unchanged for even `n`, flipped once for odd `n` (whole records) -/
theorem runOps_flips_parity (n : Nat) (d : Dims α) (m : Motl α) :
    runOps S (List.replicate n (Op.flip d)) m = if n % 2 = 0 then m else applyOp S (.flip d) m := by
  induction n generalizing m with
  | zero => rfl
  | succ n ih =>
    rw [List.replicate_succ, hist_runOps_cons, ih]
    by_cases h : n % 2 = 0
    · have h' : ¬ ((n + 1) % 2 = 0) := by omega
      simp only [h, h', if_true, if_false]
    · have h' : (n + 1) % 2 = 0 := by omega
      simp only [h, h', if_true, if_false, hist_applyOp_flip_flip]

/-! ### the model through the refinement theorem -/

/-- **model-level form of `specRun_flips_to_end`**, with the refinement (`absPose_runOpsP` of `Props/C05`,
which needs `CsOdd`, `RunOK` and coverage) taken as the hypothesis `href`: the pose of the particle after the
history is the normal-form history applied to its initial pose, mirrored once iff the number of flips is odd -/
theorem absPose_runOpsP_flips_to_end (ops : List (Op α)) (p : Particle α)
    (href : specRun ops (absPose S p) = some (absPose S (runOpsP S ops p))) (dz : α)
    (hflip : ∀ d', Op.flip d' ∈ ops → specDim d' p.tomo_id = some dz) (hns : ∀ op ∈ ops, isScale op = false)
    (d : Dims α) (hd : specDim d p.tomo_id = some dz) :
    some (absPose S (runOpsP S ops p)) = (specRun (pushFlips false ops) (absPose S p)).bind
      (fun P' => if flipCount ops % 2 = 0 then some P' else specOp (.flip d) P') := by
  rw [← href]
  exact specRun_flips_to_end ops (absPose S p) dz hflip hns d hd

end ring

/-! ### non-vacuity: a concrete history over `Rat` with two flips (given by different dims arguments with the
same plane for tomogram 2), a shift, a rotation and an update; and one with three flips -/

/-- the example history: 2 flips -/
def exHist : List (Op Rat) :=
  [.flip (.single 40), .shift ⟨1, 2, 3⟩, .rotate (rz 0 1), .flip (.table [(1, 50), (2, 40)]), .update, .shift ⟨0, 1, 5⟩]

/-- the hypotheses of `specRun_flips_to_end` hold for `exHist` and the pose of `exP` -/
example : (∀ d', Op.flip d' ∈ exHist → specDim d' (absPose exS exP).tomo = some 40) ∧
    (∀ op ∈ exHist, isScale op = false) ∧ specDim (.single 40) (absPose exS exP).tomo = some (40 : Rat) := by
  refine ⟨?_, by decide +kernel, by decide +kernel⟩
  intro d' h
  simp only [exHist, List.mem_cons, Op.flip.injEq, reduceCtorEq, List.not_mem_nil, or_false, false_or] at h
  rcases h with rfl | rfl <;> decide +kernel

example : flipCount exHist = 2 ∧
    pushFlips false exHist = [.shift ⟨1, 2, -3⟩, .rotate (Mz * rz 0 1 * Mz), .update, .shift ⟨0, 1, 5⟩] :=
  ⟨by decide +kernel, rfl⟩

/-- the conclusion on the example, both sides defined (an instance of `specRun_even_flips`) -/
example : specRun exHist (absPose exS exP) = specRun (pushFlips false exHist) (absPose exS exP) ∧
    (specRun exHist (absPose exS exP)).isSome = true := by decide +kernel

/-- three flips: the normal form followed by one flip (an instance of `specRun_odd_flips`) -/
example : specRun (.flip (.single 40) :: exHist) (absPose exS exP) =
    (specRun (pushFlips false (.flip (.single 40) :: exHist)) (absPose exS exP)).bind (specOp (.flip (.single 40))) ∧
    (specRun (.flip (.single 40) :: exHist) (absPose exS exP)).isSome = true ∧
    flipCount (.flip (.single 40) :: exHist) = 3 := by decide +kernel

/-- model level: the two flips of a history cancel on the whole records -/
example : runOps exS ([.update] ++ Op.flip (.single 40) :: Op.flip (.single 40) :: [.shift ⟨1, 2, 3⟩]) [exP] =
    runOps exS ([.update] ++ [.shift ⟨1, 2, 3⟩]) [exP] := runOps_flip_flip_cancel exS _ _ _ _

end CryoCat.C05
