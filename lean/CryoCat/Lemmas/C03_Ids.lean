import CryoCat.Model.C03
/-! C03 — helper lemmas about half-set renumbering, zero padding and reading numbers back out of
generated names. Core Lean only. -/
namespace CryoCat.C03

/-! #### renumbering -/

theorem renumberStep_parity (c h : Nat) : renumberStep c h % 2 = h % 2 := by
  unfold renumberStep
  rcases Nat.mod_two_eq_zero_or_one c with hc | hc <;> rcases Nat.mod_two_eq_zero_or_one h with hh | hh <;>
    simp [hc, hh] <;> omega

theorem renumberStep_gt (c h : Nat) : c < renumberStep c h := by
  unfold renumberStep; split <;> omega

theorem renumberStep_le (c h : Nat) : renumberStep c h ≤ c + 2 := by
  unfold renumberStep; split <;> omega

theorem renumberFrom_length (c : Nat) (hs : List Nat) : (renumberFrom c hs).length = hs.length := by
  induction hs generalizing c with
  | nil => rfl
  | cons h t ih => simp [renumberFrom, ih]

theorem renumberFrom_parity (c : Nat) (hs : List Nat) : (renumberFrom c hs).map (· % 2) = hs.map (· % 2) := by
  induction hs generalizing c with
  | nil => rfl
  | cons h t ih => simp [renumberFrom, ih, renumberStep_parity]

theorem renumberFrom_gt (c : Nat) (hs : List Nat) : ∀ i ∈ renumberFrom c hs, c < i := by
  induction hs generalizing c with
  | nil => intro i hi; cases hi
  | cons h t ih =>
    intro i hi
    simp only [renumberFrom, List.mem_cons] at hi
    rcases hi with rfl | hi
    · exact renumberStep_gt c h
    · exact Nat.lt_trans (renumberStep_gt c h) (ih _ i hi)

theorem renumberFrom_pairwise (c : Nat) (hs : List Nat) : (renumberFrom c hs).Pairwise (· < ·) := by
  induction hs generalizing c with
  | nil => exact List.Pairwise.nil
  | cons h t ih =>
    simp only [renumberFrom, List.pairwise_cons]
    exact ⟨renumberFrom_gt _ t, ih _⟩

theorem renumberFrom_le (c : Nat) (hs : List Nat) : ∀ i ∈ renumberFrom c hs, i ≤ c + 2 * hs.length := by
  induction hs generalizing c with
  | nil => intro i hi; cases hi
  | cons h t ih =>
    intro i hi
    simp only [renumberFrom, List.mem_cons] at hi
    have := renumberStep_le c h
    rcases hi with rfl | hi
    · simp only [List.length_cons]; omega
    · have := ih _ i hi
      simp only [List.length_cons]; omega

/-! #### zero padding and reading numbers -/

theorem isDigit_zero : '0'.isDigit = true := by decide

theorem zfill_allDigits (k : Nat) (ds : List Char) (h : ∀ c ∈ ds, c.isDigit = true) : ∀ c ∈ zfill k ds, c.isDigit = true := by
  intro c hc
  simp only [zfill, List.mem_append, List.mem_replicate] at hc
  rcases hc with ⟨_, rfl⟩ | hc
  · exact isDigit_zero
  · exact h c hc

theorem zfill_ne_nil (k : Nat) (ds : List Char) (h : ds ≠ []) : zfill k ds ≠ [] := by
  simp [zfill, h]

theorem decode_zfill (k : Nat) (ds : List Char) : Nat.ofDigitChars 10 (zfill k ds) 0 = Nat.ofDigitChars 10 ds 0 := by
  simp [zfill, Nat.ofDigitChars_append]

theorem decode_zfill_toDigits (k n : Nat) : Nat.ofDigitChars 10 (zfill k (Nat.toDigits 10 n)) 0 = n := by
  rw [decode_zfill, Nat.ofDigitChars_ten_toDigits]

theorem toDigits_allDigits (n : Nat) : ∀ c ∈ Nat.toDigits 10 n, c.isDigit = true :=
  fun _ hc => Nat.isDigit_of_mem_toDigits (by decide) (by decide) hc

theorem numbersAux_some_digits (a : Nat) (ds rest : List Char) (h : ∀ c ∈ ds, c.isDigit = true) :
    numbersAux (some a) (ds ++ rest) = numbersAux (some (Nat.ofDigitChars 10 ds a)) rest := by
  induction ds generalizing a with
  | nil => simp
  | cons d t ih =>
    have hd : d.isDigit = true := h d (by simp)
    simp only [List.cons_append, numbersAux, hd, if_true, Option.getD_some]
    rw [ih _ (fun c hc => h c (by simp [hc])), Nat.ofDigitChars_cons]

theorem numbersAux_none_digits (ds rest : List Char) (hne : ds ≠ []) (h : ∀ c ∈ ds, c.isDigit = true) :
    numbersAux none (ds ++ rest) = numbersAux (some (Nat.ofDigitChars 10 ds 0)) rest := by
  cases ds with
  | nil => exact absurd rfl hne
  | cons d t =>
    have hd : d.isDigit = true := h d (by simp)
    simp only [List.cons_append, numbersAux, hd, if_true, Option.getD_none]
    rw [numbersAux_some_digits _ t rest (fun c hc => h c (by simp [hc])), Nat.ofDigitChars_cons]

theorem numbersAux_none_nondigits (pre rest : List Char) (h : ∀ c ∈ pre, c.isDigit = false) :
    numbersAux none (pre ++ rest) = numbersAux none rest := by
  induction pre with
  | nil => rfl
  | cons p t ih =>
    have hp : p.isDigit = false := h p (by simp)
    simp only [List.cons_append, numbersAux, hp, Bool.false_eq_true, if_false, Option.toList_none, List.nil_append]
    exact ih (fun c hc => h c (by simp [hc]))

theorem numbersAux_some_nondigit (a : Nat) (m : Char) (rest : List Char) (hm : m.isDigit = false) :
    numbersAux (some a) (m :: rest) = a :: numbersAux none rest := by
  simp [numbersAux, hm]

/-- a separator: non-empty, no digit in it -/
def Sep (m : List Char) : Prop := m ≠ [] ∧ ∀ c ∈ m, c.isDigit = false

theorem numbersAux_some_sep (a : Nat) (m rest : List Char) (hm : Sep m) :
    numbersAux (some a) (m ++ rest) = a :: numbersAux none rest := by
  obtain ⟨hne, hnd⟩ := hm
  cases m with
  | nil => exact absurd rfl hne
  | cons c t =>
    rw [List.cons_append, numbersAux_some_nondigit _ _ _ (hnd c (by simp)),
      numbersAux_none_nondigits t rest (fun d hd => hnd d (by simp [hd]))]

/-- the two numbers of a name `pre ds₁ mid ds₂ suf` are read back as the first two numbers -/
theorem numbers_two (pre ds1 mid ds2 suf : List Char)
    (hpre : ∀ c ∈ pre, c.isDigit = false) (h1 : ds1 ≠ []) (hd1 : ∀ c ∈ ds1, c.isDigit = true) (hmid : Sep mid)
    (h2 : ds2 ≠ []) (hd2 : ∀ c ∈ ds2, c.isDigit = true) (hsuf : suf = [] ∨ ∃ c t, suf = c :: t ∧ c.isDigit = false) :
    ∃ more, numbers (pre ++ ds1 ++ mid ++ ds2 ++ suf)
      = Nat.ofDigitChars 10 ds1 0 :: Nat.ofDigitChars 10 ds2 0 :: more := by
  unfold numbers
  simp only [List.append_assoc]
  rw [numbersAux_none_nondigits pre _ hpre, numbersAux_none_digits ds1 _ h1 hd1, numbersAux_some_sep _ mid _ hmid,
    numbersAux_none_digits ds2 _ h2 hd2]
  rcases hsuf with rfl | ⟨c, t, rfl, hc⟩
  · exact ⟨[], by simp [numbersAux]⟩
  · exact ⟨numbersAux none t, by rw [numbersAux_some_nondigit _ c t hc]⟩

/-- the number of a name `pre ds suf` is read back as the first number -/
theorem numbers_one (pre ds suf : List Char)
    (hpre : ∀ c ∈ pre, c.isDigit = false) (h1 : ds ≠ []) (hd1 : ∀ c ∈ ds, c.isDigit = true)
    (hsuf : suf = [] ∨ ∃ c t, suf = c :: t ∧ c.isDigit = false) :
    ∃ more, numbers (pre ++ ds ++ suf) = Nat.ofDigitChars 10 ds 0 :: more := by
  unfold numbers
  simp only [List.append_assoc]
  rw [numbersAux_none_nondigits pre _ hpre, numbersAux_none_digits ds _ h1 hd1]
  rcases hsuf with rfl | ⟨c, t, rfl, hc⟩
  · exact ⟨[], by simp [numbersAux]⟩
  · exact ⟨numbersAux none t, numbersAux_some_nondigit _ c t hc⟩

theorem lastComponentAux_noslash (acc s : List Char) (h : ∀ c ∈ s, c ≠ '/') : lastComponentAux acc s = acc := by
  induction s generalizing acc with
  | nil => rfl
  | cons c t ih =>
    have hc : c ≠ '/' := h c (by simp)
    simp only [lastComponentAux, hc, if_false]
    exact ih acc (fun d hd => h d (by simp [hd]))

/-- `(dir + "/" + lc).rsplit("/", 1)[-1] = lc` when `lc` holds no slash -/
theorem lastComponent_dir (dir lc : List Char) (h : ∀ c ∈ lc, c ≠ '/') :
    lastComponent (dir ++ '/' :: lc) = lc := by
  unfold lastComponent
  suffices H : ∀ acc, lastComponentAux acc (dir ++ '/' :: lc) = lc from H _
  induction dir with
  | nil =>
    intro acc
    simp only [List.nil_append, lastComponentAux, if_true]
    exact lastComponentAux_noslash lc lc h
  | cons d t ih =>
    intro acc
    simp only [List.cons_append, lastComponentAux]
    split
    · exact ih _
    · exact ih _

/-- a name holding a slash is not a numeric cell -/
theorem not_numeric_of_slash (dir lc : List Char) : ¬ ((dir ++ '/' :: lc) ≠ [] ∧ (dir ++ '/' :: lc).all Char.isDigit = true) := by
  intro h
  have := List.all_eq_true.1 h.2 '/' (by simp)
  exact absurd this (by decide)

theorem lastComponent_plain (lc : List Char) (h : ∀ c ∈ lc, c ≠ '/') : lastComponent lc = lc :=
  lastComponentAux_noslash lc lc h

/-- `(a + "/" + b).rsplit("/", 1)[0] = a` when `b` holds no slash -/
theorem beforeLastSlash_dir (a b : List Char) (h : ∀ c ∈ b, c ≠ '/') : beforeLastSlash (a ++ '/' :: b) = a := by
  induction a with
  | nil =>
    have hb : '/' ∉ b := fun hm => h '/' hm rfl
    simp [beforeLastSlash, hb]
  | cons d t ih =>
    have hm : '/' ∈ t ++ '/' :: b := by simp
    simp only [List.cons_append, beforeLastSlash, hm, if_true, ih]

/-- a name without any slash is its own `rsplit("/", 1)[0]` -/
theorem beforeLastSlash_plain (s : List Char) (h : ∀ c ∈ s, c ≠ '/') : beforeLastSlash s = s := by
  cases s with
  | nil => rfl
  | cons d t =>
    have ht : '/' ∉ t := fun hm => h '/' (by simp [hm]) rfl
    have hd : d ≠ '/' := h d (by simp)
    simp [beforeLastSlash, ht, hd]

theorem allSome_eq_some {β : Type} (l : List (Option β)) (r : List β) (h : allSome l = some r) : r.map some = l := by
  induction l generalizing r with
  | nil => simp [allSome] at h; subst h; rfl
  | cons a t ih =>
    cases a with
    | none => simp [allSome] at h
    | some a =>
      simp only [allSome, Option.map_eq_some_iff] at h
      obtain ⟨r', hr', rfl⟩ := h
      simp [ih r' hr']

theorem map_some_inj {β : Type} (a b : List β) (h : a.map some = b.map some) : a = b := by
  induction a generalizing b with
  | nil => cases b with
    | nil => rfl
    | cons _ _ => simp at h
  | cons x t ih => cases b with
    | nil => simp at h
    | cons y u =>
      simp only [List.map_cons, List.cons.injEq, Option.some.injEq] at h
      rw [h.1, ih u h.2]

/-- ids that are pairwise increasing are pairwise distinct -/
theorem nodup_of_pairwise_lt (l : List Nat) (h : l.Pairwise (· < ·)) : l.Nodup :=
  List.Pairwise.imp (fun hab => Nat.ne_of_lt hab) h

end CryoCat.C03
