import CryoCat.Lemmas.C12
import CryoCat.Lemmas.C12_Grid
import Mathlib.Data.List.Nodup
/-! C12 — monotonicity of the soft edge along lines parallel to a coordinate axis: a row of the ball is
the indicator of an interval centred on the mask centre; blurring it with a kernel whose weight is
symmetric and non-increasing in `|offset|` gives a sequence that does not increase when moving away from
the centre. The argument is one-dimensional (cumulative weights, no re-indexing of sums) and is lifted
to the separable 3-D blur by exchanging the order of the weighted sums. -/
namespace CryoCat.C12

theorem exists_nat_sqrt (N : Nat) : ∃ a : Nat, a * a ≤ N ∧ N < (a + 1) * (a + 1) := by
  induction N with
  | zero => exact ⟨0, by simp⟩
  | succ N ih =>
    obtain ⟨a, h1, h2⟩ := ih
    by_cases h : N + 1 < (a + 1) * (a + 1)
    · exact ⟨a, by omega, h⟩
    · exact ⟨a + 1, by nlinarith, by nlinarith⟩

/-- integer square root as an interval: `v² ≤ D ↔ -a ≤ v ≤ a` -/
theorem exists_isqrt (D : Int) (hD : 0 ≤ D) : ∃ a : Int, 0 ≤ a ∧ a * a ≤ D ∧ ∀ v : Int, v * v ≤ D ↔ (-a ≤ v ∧ v ≤ a) := by
  obtain ⟨a, h1, h2⟩ := exists_nat_sqrt D.toNat
  have e : ((D.toNat : Nat) : Int) = D := Int.toNat_of_nonneg hD
  have h1' : (a : Int) * a ≤ D := by rw [← e]; exact_mod_cast h1
  have h2' : D < ((a : Int) + 1) * ((a : Int) + 1) := by rw [← e]; exact_mod_cast h2
  refine ⟨(a : Int), by omega, h1', fun v => ⟨fun hv => ?_, fun hv => ?_⟩⟩
  · constructor
    · by_contra hc
      rw [not_le] at hc
      nlinarith
    · by_contra hc
      rw [not_le] at hc
      nlinarith
  · nlinarith

section mono
set_option linter.unusedSectionVars false
variable {K : Type} [Field K] [LinearOrder K] [IsStrictOrderedRing K]

-- `wt ker s` (weight a kernel puts on offset `s`) lives in `Model/C12` since the driver evaluates `faceRise` with it
/-- cumulative weight of the offsets `≤ s` -/
def cumw (ker : List (Int × K)) (s : Int) : K := wsum ker (fun q => if q ≤ s then 1 else 0)

/-- the kernel's weight is symmetric and non-increasing in `|offset|` (`a² ≤ b²` says `|a| ≤ |b|`) -/
def KerUnimodal (ker : List (Int × K)) : Prop := ∀ a b : Int, a * a ≤ b * b → wt ker b ≤ wt ker a

theorem wsum_mul_left (ker : List (Int × K)) (c : K) (g : Int → K) : wsum ker (fun q => c * g q) = c * wsum ker g := by
  induction ker with
  | nil => simp [wsum]
  | cons p ks ih => obtain ⟨q, w⟩ := p; simp only [wsum, ih]; ring

/-- the order of two weighted sums can be exchanged -/
theorem wsum_comm (k1 k2 : List (Int × K)) (h : Int → Int → K) :
    wsum k1 (fun a => wsum k2 (fun b => h a b)) = wsum k2 (fun b => wsum k1 (fun a => h a b)) := by
  induction k1 with
  | nil => simp only [wsum]; rw [wsum_const]; ring
  | cons p ks ih =>
    obtain ⟨q, w⟩ := p
    simp only [wsum]
    rw [ih, wsum_add, wsum_mul_left]

theorem cumw_step (ker : List (Int × K)) (s : Int) : cumw ker s - cumw ker (s - 1) = wt ker s := by
  unfold cumw wt
  rw [← wsum_sub]
  apply wsum_congr'; intro q
  by_cases h1 : q = s
  · subst h1; simp
  · by_cases h2 : q ≤ s
    · rw [if_pos h2, if_pos (by omega), if_neg h1]; ring
    · rw [if_neg h2, if_neg (by omega), if_neg h1]; ring

theorem cumw_mono (ker : List (Int × K)) (hn : KerNonneg ker) (s s' : Int) (h : s ≤ s') : cumw ker s ≤ cumw ker s' := by
  unfold cumw
  apply wsum_mono _ hn; intro p _
  by_cases h1 : p.1 ≤ s
  · rw [if_pos h1, if_pos (by omega)]
  · rw [if_neg h1]; split_ifs
    · exact zero_le_one
    · exact le_refl _

/-- the blur of the indicator of an interval `[L,U]` (possibly empty: `L = U+1`) -/
theorem wsum_interval (ker : List (Int × K)) (L U x : Int) (hLU : L ≤ U + 1) :
    wsum ker (fun q => if L ≤ x + q ∧ x + q ≤ U then (1 : K) else 0) = cumw ker (U - x) - cumw ker (L - x - 1) := by
  unfold cumw
  rw [← wsum_sub]
  apply wsum_congr'; intro q
  by_cases h1 : q ≤ U - x
  · by_cases h2 : q ≤ L - x - 1
    · rw [if_pos h1, if_pos h2, if_neg (by omega)]; ring
    · rw [if_pos h1, if_neg h2, if_pos (by omega)]; ring
  · rw [if_neg h1, if_neg (by omega), if_neg (by omega)]; ring

theorem wsum_halfline (ker : List (Int × K)) (U x : Int) :
    wsum ker (fun q => if x + q ≤ U then (1 : K) else 0) = cumw ker (U - x) := by
  unfold cumw
  apply wsum_congr'; intro q
  by_cases h1 : q ≤ U - x
  · rw [if_pos h1, if_pos (by omega)]
  · rw [if_neg h1, if_neg (by omega)]

theorem wsum_halfline' (ker : List (Int × K)) (hu : ksum ker = 1) (L x : Int) :
    wsum ker (fun q => if L ≤ x + q then (1 : K) else 0) = 1 - cumw ker (L - x - 1) := by
  have h1 : wsum ker (fun _ => (1 : K)) = 1 := by rw [wsum_const, hu, one_mul]
  unfold cumw
  have h2 : wsum ker (fun q => (1 : K) - (if q ≤ L - x - 1 then 1 else 0))
      = 1 - wsum ker (fun q => if q ≤ L - x - 1 then (1 : K) else 0) := by rw [wsum_sub, h1]
  rw [← h2]
  apply wsum_congr'; intro q
  by_cases h : L ≤ x + q
  · rw [if_pos h, if_neg (by omega)]; ring
  · rw [if_neg h, if_pos (by omega)]; ring

/-- **one-dimensional core.** Blurring the indicator of `[L,U]` with a symmetric unimodal kernel: one step
to the right does not raise the value once `x` is at or right of the interval's midpoint … -/
theorem interval_step_right (ker : List (Int × K)) (hu : KerUnimodal ker) (L U x : Int) (hLU : L ≤ U + 1) (hx : L + U ≤ 2 * x + 1) :
    wsum ker (fun q => if L ≤ x + 1 + q ∧ x + 1 + q ≤ U then (1 : K) else 0)
      ≤ wsum ker (fun q => if L ≤ x + q ∧ x + q ≤ U then (1 : K) else 0) := by
  rw [wsum_interval ker L U x hLU, wsum_interval ker L U (x + 1) hLU]
  have a := cumw_step ker (U - x)
  have b := cumw_step ker (L - x - 1)
  have e1 : U - (x + 1) = U - x - 1 := by ring
  have e2 : L - (x + 1) - 1 = L - x - 1 - 1 := by ring
  rw [e1, e2]
  have := hu (U - x) (L - x - 1) (by nlinarith)
  linarith

/-- … and one step to the left does not raise it once `x` is at or left of the midpoint -/
theorem interval_step_left (ker : List (Int × K)) (hu : KerUnimodal ker) (L U x : Int) (hLU : L ≤ U + 1) (hx : 2 * x - 1 ≤ L + U) :
    wsum ker (fun q => if L ≤ x - 1 + q ∧ x - 1 + q ≤ U then (1 : K) else 0)
      ≤ wsum ker (fun q => if L ≤ x + q ∧ x + q ≤ U then (1 : K) else 0) := by
  rw [wsum_interval ker L U x hLU, wsum_interval ker L U (x - 1) hLU]
  have a := cumw_step ker (U - x + 1)
  have b := cumw_step ker (L - x)
  have e1 : U - (x - 1) = U - x + 1 := by ring
  have e2 : L - (x - 1) - 1 = L - x := by ring
  have e3 : U - x + 1 - 1 = U - x := by ring
  rw [e1, e2]
  rw [e3] at a
  have := hu (L - x) (U - x + 1) (by nlinarith)
  linarith

/-- a row of the ball through a voxel whose other two coordinates contribute `E` to the squared distance -/
def rowInd (c r E : Int) (u : Int) : K := if (u - c) * (u - c) + E ≤ r * r then 1 else 0

/-- **a blurred row of the ball, moving right of the centre** (`mode='nearest'` included): if the ball does
not touch the upper face of the box along this axis (`c + r + 1 < n`), one step away from the centre
does not raise the blurred value. The lower face may be touched. -/
theorem row_step_right (ker : List (Int × K)) (hn : KerNonneg ker) (hu : KerUnimodal ker) (n : Nat) (c r E : Int)
    (hc : 0 ≤ c) (hr : 0 ≤ r) (hE : 0 ≤ E) (hface : c + r + 1 < (n : Int)) (x : Int) (hx : c ≤ x) :
    wsum ker (fun q => (rowInd c r E (clampI n (x + 1 + q)) : K)) ≤ wsum ker (fun q => rowInd c r E (clampI n (x + q))) := by
  by_cases hD : r * r - E < 0
  · have h0 : ∀ u, (rowInd c r E u : K) = 0 := by
      intro u; unfold rowInd; rw [if_neg]; nlinarith [mul_self_nonneg (u - c)]
    simp only [h0]; exact le_refl _
  · rw [not_lt] at hD
    obtain ⟨a, ha0, haD, ha⟩ := exists_isqrt (r * r - E) hD
    have har : a ≤ r := by
      by_contra hcon; rw [not_le] at hcon
      have := mul_self_lt_mul_self hr hcon
      nlinarith
    have hrow : ∀ u, (rowInd c r E u : K) = if c - a ≤ u ∧ u ≤ c + a then 1 else 0 := by
      intro u; unfold rowInd
      have := ha (u - c)
      by_cases h : (u - c) * (u - c) + E ≤ r * r
      · rw [if_pos h, if_pos]; have := this.1 (by linarith); omega
      · rw [if_neg h, if_neg]; intro h'; apply h; have := this.2 (by omega); linarith
    by_cases hL : 0 < c - a
    · have hcl : ∀ u, (rowInd c r E (clampI n u) : K) = if c - a ≤ u ∧ u ≤ c + a then 1 else 0 := by
        intro u; rw [hrow]
        have : (c - a ≤ clampI n u ∧ clampI n u ≤ c + a) ↔ (c - a ≤ u ∧ u ≤ c + a) := by
          unfold clampI; split_ifs <;> constructor <;> intro h <;> omega
        simp only [this]
      simp only [hcl]
      exact interval_step_right ker hu (c - a) (c + a) x (by omega) (by omega)
    · have hcl : ∀ u, (rowInd c r E (clampI n u) : K) = if u ≤ c + a then 1 else 0 := by
        intro u; rw [hrow]
        have : (c - a ≤ clampI n u ∧ clampI n u ≤ c + a) ↔ (u ≤ c + a) := by
          unfold clampI; split_ifs <;> constructor <;> intro h <;> omega
        simp only [this]
      simp only [hcl]
      rw [wsum_halfline, wsum_halfline]
      exact cumw_mono ker hn _ _ (by omega)

/-- **… and moving left of the centre**, if the ball does not touch the lower face (`r < c`) -/
theorem row_step_left (ker : List (Int × K)) (hn : KerNonneg ker) (hk1 : ksum ker = 1) (hu : KerUnimodal ker) (n : Nat) (c r E : Int)
    (hcn : c < (n : Int)) (hr : 0 ≤ r) (hE : 0 ≤ E) (hface : r < c) (x : Int) (hx : x ≤ c) :
    wsum ker (fun q => (rowInd c r E (clampI n (x - 1 + q)) : K)) ≤ wsum ker (fun q => rowInd c r E (clampI n (x + q))) := by
  by_cases hD : r * r - E < 0
  · have h0 : ∀ u, (rowInd c r E u : K) = 0 := by
      intro u; unfold rowInd; rw [if_neg]; nlinarith [mul_self_nonneg (u - c)]
    simp only [h0]; exact le_refl _
  · rw [not_lt] at hD
    obtain ⟨a, ha0, haD, ha⟩ := exists_isqrt (r * r - E) hD
    have har : a ≤ r := by
      by_contra hcon; rw [not_le] at hcon
      have := mul_self_lt_mul_self hr hcon
      nlinarith
    have hrow : ∀ u, (rowInd c r E u : K) = if c - a ≤ u ∧ u ≤ c + a then 1 else 0 := by
      intro u; unfold rowInd
      have := ha (u - c)
      by_cases h : (u - c) * (u - c) + E ≤ r * r
      · rw [if_pos h, if_pos]; have := this.1 (by linarith); omega
      · rw [if_neg h, if_neg]; intro h'; apply h; have := this.2 (by omega); linarith
    by_cases hU : c + a < (n : Int) - 1
    · have hcl : ∀ u, (rowInd c r E (clampI n u) : K) = if c - a ≤ u ∧ u ≤ c + a then 1 else 0 := by
        intro u; rw [hrow]
        have : (c - a ≤ clampI n u ∧ clampI n u ≤ c + a) ↔ (c - a ≤ u ∧ u ≤ c + a) := by
          unfold clampI; split_ifs <;> constructor <;> intro h <;> omega
        simp only [this]
      simp only [hcl]
      exact interval_step_left ker hu (c - a) (c + a) x (by omega) (by omega)
    · have hcl : ∀ u, (rowInd c r E (clampI n u) : K) = if c - a ≤ u then 1 else 0 := by
        intro u; rw [hrow]
        have : (c - a ≤ clampI n u ∧ clampI n u ≤ c + a) ↔ (c - a ≤ u) := by
          unfold clampI; split_ifs <;> constructor <;> intro h <;> omega
        simp only [this]
      simp only [hcl]
      rw [wsum_halfline' ker hk1, wsum_halfline' ker hk1]
      have := cumw_mono ker hn (c - a - x - 1) (c - a - (x - 1) - 1) (by omega)
      linarith

/-! ### lifting to the separable 3-D blur -/

theorem blur3_perm_x (ker : List (Int × K)) (d : Dims) (f : Vol K) (x y z : Int) :
    blur3Fn ker d f x y z = wsum ker (fun qz => wsum ker (fun qy => wsum ker (fun qx =>
      f (clampI d.nx (x + qx)) (clampI d.ny (y + qy)) (clampI d.nz (z + qz))))) := rfl

theorem blur3_perm_y (ker : List (Int × K)) (d : Dims) (f : Vol K) (x y z : Int) :
    blur3Fn ker d f x y z = wsum ker (fun qz => wsum ker (fun qx => wsum ker (fun qy =>
      f (clampI d.nx (x + qx)) (clampI d.ny (y + qy)) (clampI d.nz (z + qz))))) := by
  rw [blur3_perm_x]
  apply wsum_congr'; intro qz
  exact wsum_comm ker ker (fun qy qx => f (clampI d.nx (x + qx)) (clampI d.ny (y + qy)) (clampI d.nz (z + qz)))

theorem blur3_perm_z (ker : List (Int × K)) (d : Dims) (f : Vol K) (x y z : Int) :
    blur3Fn ker d f x y z = wsum ker (fun qy => wsum ker (fun qx => wsum ker (fun qz =>
      f (clampI d.nx (x + qx)) (clampI d.ny (y + qy)) (clampI d.nz (z + qz))))) := by
  rw [blur3_perm_x]
  rw [wsum_comm ker ker (fun qz qy => wsum ker (fun qx => f (clampI d.nx (x + qx)) (clampI d.ny (y + qy)) (clampI d.nz (z + qz))))]
  apply wsum_congr'; intro qy
  exact wsum_comm ker ker (fun qz qx => f (clampI d.nx (x + qx)) (clampI d.ny (y + qy)) (clampI d.nz (z + qz)))

theorem sphere_row_x (d : Dims) (r : Int) (hr : 0 ≤ r) (u Y Z : Int) :
    (sphere d r u Y Z : K) = rowInd (centre d.nx) r ((Y - centre d.ny) * (Y - centre d.ny) + (Z - centre d.nz) * (Z - centre d.nz)) u := by
  unfold sphere rowInd
  by_cases h : inBall d r u Y Z = true
  · rw [if_pos h, if_pos]; rw [inBall_iff d r hr] at h; unfold dist2 at h; linarith
  · rw [if_neg h, if_neg]; rw [inBall_iff d r hr] at h; unfold dist2 at h; intro h'; apply h; linarith

theorem sphere_row_y (d : Dims) (r : Int) (hr : 0 ≤ r) (X u Z : Int) :
    (sphere d r X u Z : K) = rowInd (centre d.ny) r ((X - centre d.nx) * (X - centre d.nx) + (Z - centre d.nz) * (Z - centre d.nz)) u := by
  unfold sphere rowInd
  by_cases h : inBall d r X u Z = true
  · rw [if_pos h, if_pos]; rw [inBall_iff d r hr] at h; unfold dist2 at h; linarith
  · rw [if_neg h, if_neg]; rw [inBall_iff d r hr] at h; unfold dist2 at h; intro h'; apply h; linarith

theorem sphere_row_z (d : Dims) (r : Int) (hr : 0 ≤ r) (X Y u : Int) :
    (sphere d r X Y u : K) = rowInd (centre d.nz) r ((X - centre d.nx) * (X - centre d.nx) + (Y - centre d.ny) * (Y - centre d.ny)) u := by
  unfold sphere rowInd
  by_cases h : inBall d r X Y u = true
  · rw [if_pos h, if_pos]; rw [inBall_iff d r hr] at h; unfold dist2 at h; linarith
  · rw [if_neg h, if_neg]; rw [inBall_iff d r hr] at h; unfold dist2 at h; intro h'; apply h; linarith

theorem sq2_nonneg (a b : Int) : 0 ≤ a * a + b * b := by nlinarith [mul_self_nonneg a, mul_self_nonneg b]

theorem centre_nonneg (n : Nat) : 0 ≤ centre n := by unfold centre; omega
theorem centre_lt (n : Nat) (hn : 0 < n) : centre n < (n : Int) := by unfold centre; omega

/-- what the monotonicity theorems need of a kernel -/
structure UnimodalKernel (ker : List (Int × K)) : Prop where
  nonneg : KerNonneg ker
  unit : ksum ker = 1
  unimodal : KerUnimodal ker

theorem mask_step_x (ker : List (Int × K)) (hk : UnimodalKernel ker) (d : Dims) (hd : 0 < d.nx) (r : Int) (hr : 0 ≤ r) (x y z : Int) :
    (centre d.nx + r + 1 < (d.nx : Int) → centre d.nx ≤ x → blur3Fn ker d (sphere d r) (x + 1) y z ≤ blur3Fn ker d (sphere d r) x y z) ∧
    (r < centre d.nx → x ≤ centre d.nx → blur3Fn ker d (sphere d r) (x - 1) y z ≤ blur3Fn ker d (sphere d r) x y z) := by
  constructor
  · intro hface hx
    rw [blur3_perm_x, blur3_perm_x]
    apply wsum_mono _ hk.nonneg; intro pz _
    apply wsum_mono _ hk.nonneg; intro py _
    simp only [sphere_row_x d r hr]
    exact row_step_right ker hk.nonneg hk.unimodal d.nx _ r _ (centre_nonneg _) hr (sq2_nonneg _ _) hface x hx
  · intro hface hx
    rw [blur3_perm_x, blur3_perm_x]
    apply wsum_mono _ hk.nonneg; intro pz _
    apply wsum_mono _ hk.nonneg; intro py _
    simp only [sphere_row_x d r hr]
    exact row_step_left ker hk.nonneg hk.unit hk.unimodal d.nx _ r _ (centre_lt _ hd) hr (sq2_nonneg _ _) hface x hx

theorem mask_step_y (ker : List (Int × K)) (hk : UnimodalKernel ker) (d : Dims) (hd : 0 < d.ny) (r : Int) (hr : 0 ≤ r) (x y z : Int) :
    (centre d.ny + r + 1 < (d.ny : Int) → centre d.ny ≤ y → blur3Fn ker d (sphere d r) x (y + 1) z ≤ blur3Fn ker d (sphere d r) x y z) ∧
    (r < centre d.ny → y ≤ centre d.ny → blur3Fn ker d (sphere d r) x (y - 1) z ≤ blur3Fn ker d (sphere d r) x y z) := by
  constructor
  · intro hface hx
    rw [blur3_perm_y, blur3_perm_y]
    apply wsum_mono _ hk.nonneg; intro pz _
    apply wsum_mono _ hk.nonneg; intro px _
    simp only [sphere_row_y d r hr]
    exact row_step_right ker hk.nonneg hk.unimodal d.ny _ r _ (centre_nonneg _) hr (sq2_nonneg _ _) hface y hx
  · intro hface hx
    rw [blur3_perm_y, blur3_perm_y]
    apply wsum_mono _ hk.nonneg; intro pz _
    apply wsum_mono _ hk.nonneg; intro px _
    simp only [sphere_row_y d r hr]
    exact row_step_left ker hk.nonneg hk.unit hk.unimodal d.ny _ r _ (centre_lt _ hd) hr (sq2_nonneg _ _) hface y hx

theorem mask_step_z (ker : List (Int × K)) (hk : UnimodalKernel ker) (d : Dims) (hd : 0 < d.nz) (r : Int) (hr : 0 ≤ r) (x y z : Int) :
    (centre d.nz + r + 1 < (d.nz : Int) → centre d.nz ≤ z → blur3Fn ker d (sphere d r) x y (z + 1) ≤ blur3Fn ker d (sphere d r) x y z) ∧
    (r < centre d.nz → z ≤ centre d.nz → blur3Fn ker d (sphere d r) x y (z - 1) ≤ blur3Fn ker d (sphere d r) x y z) := by
  constructor
  · intro hface hx
    rw [blur3_perm_z, blur3_perm_z]
    apply wsum_mono _ hk.nonneg; intro py _
    apply wsum_mono _ hk.nonneg; intro px _
    simp only [sphere_row_z d r hr]
    exact row_step_right ker hk.nonneg hk.unimodal d.nz _ r _ (centre_nonneg _) hr (sq2_nonneg _ _) hface z hx
  · intro hface hx
    rw [blur3_perm_z, blur3_perm_z]
    apply wsum_mono _ hk.nonneg; intro py _
    apply wsum_mono _ hk.nonneg; intro px _
    simp only [sphere_row_z d r hr]
    exact row_step_left ker hk.nonneg hk.unit hk.unimodal d.nz _ r _ (centre_lt _ hd) hr (sq2_nonneg _ _) hface z hx

/-! ### the model's Gaussian kernel is symmetric and unimodal for every positive monotone `exp` -/

theorem wsum_map_ind (l : List Int) (hl : l.Nodup) (ψ : Int → K) (u : Int) :
    wsum (l.map (fun q => (q, ψ q))) (fun q => if q = u then (1 : K) else 0) = if u ∈ l then ψ u else 0 := by
  induction l with
  | nil => simp [wsum]
  | cons a l ih =>
    have hn := List.nodup_cons.1 hl
    simp only [List.map_cons, wsum, ih hn.2, List.mem_cons]
    by_cases h : a = u
    · subst h
      rw [if_pos rfl, if_neg hn.1, if_pos (Or.inl rfl)]; ring
    · have h' : ¬ u = a := fun e => h e.symm
      rw [if_neg h]
      by_cases hm : u ∈ l
      · rw [if_pos hm, if_pos (Or.inr hm)]; ring
      · rw [if_neg hm, if_neg (by rintro (e | e); exact h' e; exact hm e)]; ring

theorem offsets_nodup (t : Nat) : (offsets t).Nodup := by
  unfold offsets
  apply List.Nodup.map _ List.nodup_range
  intro a b h
  simp only at h
  omega

theorem mem_offsets_iff (t : Nat) (q : Int) : q ∈ offsets t ↔ (-(t : Int) ≤ q ∧ q ≤ (t : Int)) := by
  constructor
  · exact mem_offsets t q
  · intro h
    simp only [offsets, List.mem_map, List.mem_range]
    exact ⟨(q + t).toNat, by omega, by omega⟩

theorem gaussKernel_unimodal (expf : K → K) (hexp : ∀ x, 0 < expf x) (hmono : ∀ x y, x ≤ y → expf x ≤ expf y)
    (sigma : K) (t : Nat) : UnimodalKernel (gaussKernel expf (fun q => (q : K)) sigma t) := by
  have hv := gaussKernel_valid expf hexp (fun q => (q : K)) sigma t
  refine ⟨hv.nonneg, hv.unit, ?_⟩
  set c : K := (-(1 / 2)) / (sigma * sigma) with hc
  have hc0 : c ≤ 0 := div_nonpos_of_nonpos_of_nonneg (by norm_num) (mul_self_nonneg sigma)
  set raw : List (Int × K) := (offsets t).map (fun (q : Int) => (q, expf (c * ((q : K) * (q : K))))) with hraw
  have hpos : ∀ p ∈ raw, 0 < p.2 := by
    intro p hp
    simp only [hraw, List.mem_map] at hp
    obtain ⟨q, _, rfl⟩ := hp
    exact hexp _
  have hne : raw ≠ [] := by simp [hraw, offsets]
  have hs : 0 < ksum raw := ksum_pos raw hne hpos
  have hker : gaussKernel expf (fun q => (q : K)) sigma t
      = (offsets t).map (fun (q : Int) => (q, expf (c * ((q : K) * (q : K))) / ksum raw)) := by
    show raw.map (fun p => (p.1, p.2 / ksum raw)) = _
    rw [hraw, List.map_map]; rfl
  intro a b hab
  unfold wt
  rw [hker, wsum_map_ind _ (offsets_nodup t), wsum_map_ind _ (offsets_nodup t)]
  by_cases hb : b ∈ offsets t
  · have hb' := (mem_offsets_iff t b).1 hb
    have ha : a ∈ offsets t := by
      rw [mem_offsets_iff]
      constructor
      · by_contra hcon; rw [not_le] at hcon; nlinarith
      · by_contra hcon; rw [not_le] at hcon; nlinarith
    rw [if_pos hb, if_pos ha]
    apply div_le_div_of_nonneg_right _ (le_of_lt hs)
    apply hmono
    have hsq : ((a : K) * (a : K)) ≤ ((b : K) * (b : K)) := by exact_mod_cast hab
    nlinarith
  · rw [if_neg hb]
    split_ifs
    · exact le_of_lt (div_pos (hexp _) hs)
    · exact le_refl _

end mono
end CryoCat.C12
