import CryoCat.Model.C02_Comments
/-! C02 — helper lemmas, part 9: CRLF line ends. A CR before the line break is white space at the
end of the line (or the last character of a comment, removed by `strip`), so the tokens of the CRLF
form of a text are the tokens of the text. Core Lean only. -/
namespace CryoCat.C02

theorem cr_ws : isWs '\r' = true := by decide
theorem cr_ne_hash : '\r' ≠ hash := by decide
theorem cr_ne_nl : '\r' ≠ nl := by decide

theorem flush_nil (acc : List Word) : flush [] acc = acc := rfl

/-- the character loop on a line with a CR appended: same words; the comment, if any, gets the CR -/
theorem go_cr (l : List Char) (cur : List Char) (acc : List Word) :
    go cur acc (l ++ ['\r']) = ((go cur acc l).1, (go cur acc l).2.map (· ++ ['\r'])) := by
  induction l generalizing cur acc with
  | nil =>
    simp only [List.nil_append, go, cr_ne_hash, if_false, cr_ws, if_true, flush_nil, Option.map_none]
  | cons c l ih =>
    simp only [List.cons_append, go]
    by_cases h1 : c = hash
    · simp [h1]
    · simp only [h1, if_false]
      by_cases h2 : isWs c = true
      · simp only [h2, if_true]; exact ih _ _
      · simp only [h2]; exact ih _ _

theorem rstripWs_cr (c : List Char) : rstripWs (c ++ ['\r']) = rstripWs c := by
  simp [rstripWs, List.dropWhile, cr_ws]

theorem stripWs_cr (c : List Char) : stripWs (c ++ ['\r']) = stripWs c := by
  simp [stripWs, rstripWs_cr]

/-- **a CR at the end of a line does not change its tokens** -/
theorem lineToks_cr (l : List Char) : lineToks (l ++ ['\r']) = lineToks l := by
  unfold lineToks tokenizeLine
  rw [go_cr]
  cases h : (go [] [] l).2 with
  | none => simp [h]
  | some c => simp [h, stripWs_cr]

/-- the lines of the CRLF form: every line but the last gets a CR -/
def addCR : List (List Char) → List (List Char)
  | [] => []
  | [l] => [l]
  | l :: l' :: ls => (l ++ ['\r']) :: addCR (l' :: ls)

theorem splitGo_ne_nil (cur : List Char) (txt : List Char) : splitGo cur txt ≠ [] := by
  induction txt generalizing cur with
  | nil => simp [splitGo]
  | cons c cs ih =>
    simp only [splitGo]
    split
    · simp
    · exact ih _

theorem splitGo_crlf (cur : List Char) (txt : List Char) : splitGo cur (toCRLF txt) = addCR (splitGo cur txt) := by
  induction txt generalizing cur with
  | nil => simp [toCRLF, splitGo, addCR]
  | cons c cs ih =>
    by_cases hc : c = '\n'
    · subst hc
      simp only [toCRLF, if_true]
      have h1 : splitGo cur ('\r' :: '\n' :: toCRLF cs) = (cur.reverse ++ ['\r']) :: splitGo [] (toCRLF cs) := by
        simp [splitGo, cr_ne_nl, nl, Gen.C02.lineSep]
      have h2 : splitGo cur ('\n' :: cs) = cur.reverse :: splitGo [] cs := by
        simp [splitGo, nl, Gen.C02.lineSep]
      rw [h1, h2, ih]
      obtain ⟨x, xs, hx⟩ := List.exists_cons_of_ne_nil (splitGo_ne_nil [] cs)
      rw [hx]; rfl
    · have hc' : c ≠ nl := by simpa [nl, Gen.C02.lineSep] using hc
      simp only [toCRLF, hc, if_false, splitGo, hc']
      exact ih _

theorem flatMap_addCR (ls : List (List Char)) : (addCR ls).flatMap lineToks = ls.flatMap lineToks := by
  induction ls with
  | nil => rfl
  | cons l ls ih =>
    cases ls with
    | nil => rfl
    | cons l' ls' =>
      simp only [addCR, List.flatMap_cons, lineToks_cr] at ih ⊢
      rw [ih]

/-- **CRLF normalisation**: the tokens of the CRLF form of a text are the tokens of the text -/
theorem tokenize_crlf (txt : List Char) : tokenize (toCRLF txt) = tokenize txt := by
  unfold tokenize splitLines
  rw [splitGo_crlf, flatMap_addCR]

end CryoCat.C02
