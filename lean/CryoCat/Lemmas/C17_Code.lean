import CryoCat.Model.C17_Code
import CryoCat.Lemmas.C17_Table
/-! C17 — the code-level models of `gctf_read` and of the STOPGAP wedge lists (Model/C17_Code.lean) agree with the
specification-level ones of Model/C17_Wedge.lean (core Lean only). -/
namespace CryoCat.C17

variable {α : Type}

/-- `mapM` of a function that succeeds with `g` on every element -/
theorem mapM_all_some {γ δ : Type} (f : γ → Option δ) (g : γ → δ) (l : List γ) (h : ∀ x ∈ l, f x = some (g x)) :
    l.mapM f = some (l.map g) := by
  have := mapM_map_some (fun x : γ => x) f l g h
  simpa using this

/-- **gctf column order is irrelevant (file with rlnPhaseShift)**: whatever the order of the columns in the STAR file, one
row is read into Å→µm-scaled U and V *found by name*, the angle, the phase shift and the mean of the scaled defoci -/
theorem gctf_code_row [Add α] [Mul α] [Div α] [OfNat α 0] (f d : α) (cols : List String) (row : List α) (u v a p : α)
    (hph : cols.contains "rlnPhaseShift" = true)
    (hu : (cols.zip row).lookup "rlnDefocusU" = some u) (hv : (cols.zip row).lookup "rlnDefocusV" = some v)
    (ha : (cols.zip row).lookup "rlnDefocusAngle" = some a) (hp : (cols.zip row).lookup "rlnPhaseShift" = some p) :
    gctfReadCode f d cols [row] = some [defocusRow f d u v a p] := by
  have hmem : "rlnPhaseShift" ∈ cols := by simpa using hph
  simp [hmem, gctfReadCode, Gen.C17.gctfPhaseColumn, Gen.C17.gctfColumns, Gen.C17.gctfScaleLo, Gen.C17.gctfScaleHi, hph, selectCols,
    hu, hv, ha, hp, scaleSlice, List.zipIdx_cons, defocusRow]

/-- … and for a file without rlnPhaseShift the phase shift is 0 -/
theorem gctf_code_row_nophase [Add α] [Mul α] [Div α] [OfNat α 0] (f d : α) (cols : List String) (row : List α) (u v a : α)
    (hph : cols.contains "rlnPhaseShift" = false)
    (hu : (cols.zip row).lookup "rlnDefocusU" = some u) (hv : (cols.zip row).lookup "rlnDefocusV" = some v)
    (ha : (cols.zip row).lookup "rlnDefocusAngle" = some a) :
    gctfReadCode f d cols [row] = some [defocusRow f d u v a 0] := by
  have hmem : ¬ "rlnPhaseShift" ∈ cols := by simpa using hph
  simp [hmem, gctfReadCode, Gen.C17.gctfPhaseColumn, Gen.C17.gctfColumns, Gen.C17.gctfScaleLo, Gen.C17.gctfScaleHi, hph, selectCols,
    hu, hv, ha, scaleSlice, List.zipIdx_cons, defocusRow, List.filter]

theorem repeatRows_single (r : List α) (n : Nat) : repeatRows [r] n = List.replicate n r := by
  simp [repeatRows]

/-- **`create_wedge_list_sg`, code = specification**: `np.repeat` of the one-row dimension table and `z.values[0][0]` give every
row that tomogram's dimensions and z-shift -/
theorem wedge_single_code_eq (c : Consts α) (id : Int) (x y z zs : α) (tilts : List α) (defocus dose : Option (List α)) :
    wedgeSingleCode c { id := id, dims := [[x, y, z]], zTable := [[zs]], tilts := tilts, defocus := defocus, dose := dose }
      = wedgeSingle c { id := id, dimX := x, dimY := y, dimZ := z, zShift := zs, tilts := tilts, defocus := defocus, dose := dose } := by
  unfold wedgeSingleCode wedgeSingle
  simp only [repeatRows_single, List.length_replicate, beq_self_eq_true, Bool.and_true]
  have hl : (SingleIn.lengthsOk { id := id, dims := [[x, y, z]], zTable := [[zs]], tilts := tilts, defocus := defocus, dose := dose })
      = consistent { id := id, dimX := x, dimY := y, dimZ := z, zShift := zs, tilts := tilts, defocus := defocus, dose := dose } := rfl
  rw [hl]
  split
  · congr 1
    apply mapM_all_some
    intro p hp
    obtain ⟨t, i⟩ := p
    have hi := (List.mem_zipIdx' hp).1
    simp only [List.getElem?_replicate, hi, if_true, mkWedgeRow]
  · rfl

/-- **`create_wedge_list_sg_batch`, code = specification**: with the dimensions and z-shifts looked up BY TOMOGRAM NUMBER (first
matching row), the batch list is the specification-level `wedgeBatch` of the tomograms those look-ups denote — so `wedge_rows`
(one row per tilt per tomogram, i-th tilt with i-th defocus and exposure, that tomogram's dimensions and z-shift) holds for what
the code computes -/
theorem wedge_batch_code_eq (c : Consts α) (b : BatchIn α) (ts : List (Tomo α)) (h : b.ids.mapM (batchTomo b) = some ts) :
    wedgeBatchCode c b = wedgeBatch c ts := by
  unfold wedgeBatchCode wedgeBatch
  congr 1
  have key : ∀ (ids : List Int) (ts : List (Tomo α)), ids.mapM (batchTomo b) = some ts →
      ids.mapM (fun t => (batchSingleIn b t).bind (wedgeSingleCode c)) = ts.mapM (wedgeSingle c) := by
    intro ids
    induction ids with
    | nil => intro ts h; simp at h; subst h; rfl
    | cons t ids ih =>
      intro ts h
      rw [List.mapM_cons] at h
      cases ht : batchTomo b t with
      | none => rw [ht] at h; simp at h
      | some tm =>
        rw [ht] at h
        cases hr : ids.mapM (batchTomo b) with
        | none => rw [hr] at h; simp at h
        | some tms =>
          rw [hr] at h
          have hts : ts = tm :: tms := by simpa using h.symm
          subst hts
          rw [List.mapM_cons, List.mapM_cons, ih tms hr]
          have hone : (batchSingleIn b t).bind (wedgeSingleCode c) = wedgeSingle c tm := by
            unfold batchTomo at ht
            unfold batchSingleIn
            cases hd : firstWithId b.dimTable t with
            | none => rw [hd] at ht; simp at ht
            | some d =>
              cases hz : firstWithId b.zTable t with
              | none => rw [hd, hz] at ht; simp at ht
              | some zs =>
                cases hf : firstWithId b.files t with
                | none => rw [hd, hz, hf] at ht; simp at ht
                | some f =>
                  rw [hd, hz, hf] at ht
                  match d, ht with
                  | [x, y, z], ht =>
                    simp only [Option.some.injEq] at ht
                    subst ht
                    simp only [Option.bind_some]
                    exact wedge_single_code_eq c t x y z zs f.1 f.2.1 f.2.2
          rw [hone]
  exact key b.ids ts h

end CryoCat.C17
