import CryoCat.Lemmas.C18
import CryoCat.Lemmas.C06_Export
import CryoCat.Lemmas.C06_Atan2
import Mathlib.Analysis.SpecialFunctions.Trigonometric.Inverse
import Mathlib.Analysis.SpecialFunctions.Complex.Arg
/-! C18 — the angular distance of a table row over ℝ.

The model passes the angle of a rotation as a *service* `Num.ang (trace) (skewSq)`. Here the service is
instantiated over the reals exactly as the driver instantiates it at `Float`
(`atan2(√skewSq / 2, (trace − 1)/2)` in degrees, `realNum`), and tied to C06: for two orientations given by
unit quaternions the value is the rotation angle `arccos((trace − 1)/2)` of the relative orientation
`R_qᵀ·R_n`, and it is the quaternion form `2·arccos|q₁·q₂|` that `geom.angular_distance` evaluates
(C06 `angDist_is_rotation_angle`, `trace_rel`).

The C06 theorems are taken from `Lemmas/C06_Export.lean` (namespace `C06.Export`), NOT from `Props/C06.lean`: the
latter also holds C06's translator obligations over the whole of `Gen/C06.lean` (`normals_to_euler_angles`,
`compare_rotations`, `cone_distance`, … — functions C18 never calls) and stops building when any of those
regenerated tables changes; C18 must keep building then. The one function of `geom.py` C18 does depend on,
`angular_distance`, is anchored by C18 itself (`Gen/C18.lean`: `angularFormula`, `angularDotClamp`, `bodyAngular`,
`bodyCompare`; obligations `angular_formula_documented`, `body_geom_documented` of `Props/C18.lean`). -/
namespace CryoCat.C18
open Real CryoCat.C06 CryoCat.C06.Export

/-- radians → degrees -/
noncomputable def deg (r : ℝ) : ℝ := r * (180 / π)

/-- the numeric services over ℝ, the exact counterparts of the driver's `numF`: the real square root and
`atan2(√skewSq / 2, (trace − 1)/2)` in degrees (`atan2 y x` = argument of `x + iy`) -/
noncomputable def realNum : Num ℝ :=
  { sqrt := Real.sqrt,
    ang := fun tr sk => deg (atan2R (Real.sqrt sk / 2) ((tr - 1) / 2)) }

/-- an angle as the model carries it -/
noncomputable def angOf (x : ℝ) : Ang ℝ := ⟨cos x, sin x⟩

/-- the particle's three Euler angles are the real numbers `φ θ ψ` (degrees already converted) -/
def Pt.HasAngles (p : Pt ℝ) (φ θ ψ : ℝ) : Prop := p.phi = angOf φ ∧ p.theta = angOf θ ∧ p.psi = angOf ψ

/-- the quaternion of `from_euler("zxz", [φ, θ, ψ])` (half-angle form, scalar last) -/
noncomputable def quatOf (φ θ ψ : ℝ) : Q4 ℝ :=
  qzxz (cos (φ/2)) (sin (φ/2)) (cos (θ/2)) (sin (θ/2)) (cos (ψ/2)) (sin (ψ/2))

theorem trace_eq (m : M3 ℝ) : trace m = C06.M3.trace m := rfl

theorem angOf_unit (x : ℝ) : (angOf x).Unit := by
  unfold Ang.Unit angOf
  have := cos_sq_add_sin_sq x
  nlinarith

theorem Pt.HasAngles.wf {p : Pt ℝ} {φ θ ψ : ℝ} (h : p.HasAngles φ θ ψ) : p.WF := by
  obtain ⟨h1, h2, h3⟩ := h
  exact ⟨h1 ▸ angOf_unit φ, h2 ▸ angOf_unit θ, h3 ▸ angOf_unit ψ⟩

/-- the quaternion of the Euler angles is a unit quaternion whose matrix is the particle's orientation -/
theorem Pt.HasAngles.quat {p : Pt ℝ} {φ θ ψ : ℝ} (h : p.HasAngles φ θ ψ) :
    qnormSq (quatOf φ θ ψ) = 1 ∧ toM3 (quatOf φ θ ψ) = rot p := by
  obtain ⟨h1, h2, h3⟩ := h
  obtain ⟨hn, hm⟩ := toM3_qzxz_real φ θ ψ
  refine ⟨hn, ?_⟩
  unfold quatOf rot
  rw [hm, h1, h2, h3]
  rfl

theorem qnormSq_conj (p : Q4 ℝ) : qnormSq (qconj p) = qnormSq p := by
  simp only [qnormSq, qdot, qconj]; ring

/-- for a unit quaternion: squared length of the skew part of its matrix = `4 − (trace − 1)²`
(`4·sin²` of the rotation angle) -/
theorem skewSq_toM3 (r : Q4 ℝ) (h : qnormSq r = 1) :
    skewSq (toM3 r) = 4 - (trace (toM3 r) - 1) * (trace (toM3 r) - 1) := by
  simp only [qnormSq, qdot] at h
  simp only [skewSq, trace, toM3]
  linear_combination (9 * (r.w * r.w) + (r.x * r.x + r.y * r.y + r.z * r.z) + 3) * h

/-- … hence for the relative rotation of two unit quaternions -/
theorem skewSq_rel (p q : Q4 ℝ) (hp : qnormSq p = 1) (hq : qnormSq q = 1) :
    skewSq ((toM3 p).transpose * toM3 q)
      = 4 - (trace ((toM3 p).transpose * toM3 q) - 1) * (trace ((toM3 p).transpose * toM3 q) - 1) := by
  rw [← toM3_conj, ← toM3_mul']
  apply skewSq_toM3
  rw [qnormSq_mul, qnormSq_conj, hp, hq, one_mul]

/-- the cosine of the relative rotation angle lies in [-1, 1] -/
theorem cos_rel_mem (p q : Q4 ℝ) (hp : qnormSq p = 1) (hq : qnormSq q = 1) :
    -1 ≤ (trace ((toM3 p).transpose * toM3 q) - 1) / 2 ∧ (trace ((toM3 p).transpose * toM3 q) - 1) / 2 ≤ 1 := by
  rw [trace_eq, trace_rel p q hp hq]
  have h1 := qdot_sq_le_one p q hp hq
  have h0 : 0 ≤ qdot p q * qdot p q := mul_self_nonneg _
  constructor <;> linarith

/-- `atan2(sin θ, cos θ) = θ` for `θ ∈ (−π, π]` -/
theorem atan2R_sin_cos (θ : ℝ) (hθ : θ ∈ Set.Ioc (-π) π) : atan2R (sin θ) (cos θ) = θ := by
  unfold atan2R
  have e : (⟨cos θ, sin θ⟩ : ℂ) = Complex.cos θ + Complex.sin θ * Complex.I := by
    apply Complex.ext
    · simp [← Complex.ofReal_cos, ← Complex.ofReal_sin]
    · simp [← Complex.ofReal_cos, ← Complex.ofReal_sin]
  rw [e]
  exact Complex.arg_cos_add_sin_mul_I hθ

/-- in the form the driver evaluates: `atan2(√(4 − (t−1)²)/2, (t−1)/2)` is the angle in `[0, π]` whose cosine is
`c = (t − 1)/2` -/
theorem atan2_form (c : ℝ) (h0 : -1 ≤ c) (h1 : c ≤ 1) :
    atan2R (Real.sqrt (4 - (2 * c) * (2 * c)) / 2) c = arccos c := by
  have hs : Real.sqrt (4 - (2 * c) * (2 * c)) / 2 = sin (arccos c) := by
    rw [sin_arccos]
    have : 4 - (2 * c) * (2 * c) = 2 ^ 2 * (1 - c ^ 2) := by ring
    rw [this, Real.sqrt_mul (by positivity), Real.sqrt_sq (by norm_num)]
    ring
  have hθ : arccos c ∈ Set.Ioc (-π) π := ⟨by linarith [arccos_nonneg c, pi_pos], arccos_le_pi c⟩
  have key := atan2R_sin_cos (arccos c) hθ
  rw [cos_arccos h0 h1, ← hs] at key
  exact key

/-- **the angle service at the relative rotation of two unit quaternions** is the rotation angle
`arccos((trace − 1)/2)` (degrees) -/
theorem realNum_ang_rel (p q : Q4 ℝ) (hp : qnormSq p = 1) (hq : qnormSq q = 1) :
    realNum.ang (trace ((toM3 p).transpose * toM3 q)) (skewSq ((toM3 p).transpose * toM3 q))
      = deg (arccos ((trace ((toM3 p).transpose * toM3 q) - 1) / 2)) := by
  obtain ⟨h0, h1⟩ := cos_rel_mem p q hp hq
  simp only [realNum]
  rw [skewSq_rel p q hp hq]
  have := atan2_form _ h0 h1
  rw [show (2 * ((trace ((toM3 p).transpose * toM3 q) - 1) / 2)) = trace ((toM3 p).transpose * toM3 q) - 1 by ring] at this
  rw [this]

/-- … and it is the quaternion form `degrees(2·arccos(min(|p·q|, 1)))` of `geom.angular_distance` -/
theorem realNum_ang_quat (at2 : ℝ → ℝ → ℝ) (p q : Q4 ℝ) (hp : qnormSq p = 1) (hq : qnormSq q = 1) :
    realNum.ang (trace ((toM3 p).transpose * toM3 q)) (skewSq ((toM3 p).transpose * toM3 q))
      = angDist (realLibm at2) p q := by
  rw [realNum_ang_rel p q hp hq, trace_eq, ← angDist_is_rotation_angle at2 p q hp hq]
  rfl

end CryoCat.C18
