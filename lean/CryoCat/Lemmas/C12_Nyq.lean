import CryoCat.Lemmas.C12_Ray
/-! C12 — the last monotone direction of the effective gain: a step of an index ONTO the Nyquist bin of an even axis.
That bin is its own mirror image, so the mirrored step goes from mask voxel `n-1` (frequency `n/2-1`) to mask voxel `0`
(frequency `-n/2`) — not neighbours. With the ball off both faces the two blurred rows are windows of the kernel's
weights of equal length, one of them one offset closer to 0: symmetric unimodal weights give the inequality. -/
namespace CryoCat.C12

section nyq
set_option linter.unusedSectionVars false
variable {K : Type} [Field K] [LinearOrder K] [IsStrictOrderedRing K]

theorem wt_symm (ker : List (Int × K)) (hu : KerUnimodal ker) (s : Int) : wt ker (-s) = wt ker s :=
  le_antisymm (hu s (-s) (by rw [neg_mul_neg])) (hu (-s) s (by rw [neg_mul_neg]))

theorem cumw_succ (ker : List (Int × K)) (s : Int) : cumw ker (s + 1) = cumw ker s + wt ker (s + 1) := by
  have := cumw_step ker (s + 1)
  rw [add_sub_cancel_right] at this
  linarith

/-- weight of the window `[-c-a+1, -c+a+1]` minus weight of the window `[c-a, c+a]`, for symmetric weights -/
theorem window_mirror (ker : List (Int × K)) (hu : KerUnimodal ker) (c : Int) (a : Nat) :
    (cumw ker (-c + (a : Int) + 1) - cumw ker (-c - (a : Int))) - (cumw ker (c + (a : Int)) - cumw ker (c - (a : Int) - 1))
      = wt ker (c - (a : Int) - 1) - wt ker (c + (a : Int)) := by
  induction a with
  | zero =>
    simp only [Nat.cast_zero, add_zero, sub_zero]
    have h1 := cumw_succ ker (-c)
    have h2 := cumw_succ ker (c - 1)
    rw [sub_add_cancel] at h2
    have h3 := wt_symm ker hu (c - 1)
    rw [show -(c - 1) = -c + 1 by ring] at h3
    linarith
  | succ a ih =>
    push_cast
    have h1 := cumw_succ ker (-c + (a : Int) + 1)
    have h2 := cumw_succ ker (-c - ((a : Int) + 1))
    have h3 := cumw_succ ker (c + (a : Int))
    have h4 := cumw_succ ker (c - ((a : Int) + 1) - 1)
    rw [show -c - ((a : Int) + 1) + 1 = -c - (a : Int) by ring] at h2
    rw [show c - ((a : Int) + 1) - 1 + 1 = c - (a : Int) - 1 by ring] at h4
    have s1 := wt_symm ker hu (c + (a : Int))
    rw [show -(c + (a : Int)) = -c - (a : Int) by ring] at s1
    have s2 := wt_symm ker hu (c - (a : Int) - 2)
    rw [show -(c - (a : Int) - 2) = -c + (a : Int) + 1 + 1 by ring] at s2
    rw [show -c + ((a : Int) + 1) + 1 = -c + (a : Int) + 1 + 1 by ring, show c + ((a : Int) + 1) = c + (a : Int) + 1 by ring]
    rw [show c - ((a : Int) + 1) - 1 = c - (a : Int) - 2 by ring] at h4 ⊢
    linarith

set_option linter.unusedVariables false in
/-- **a blurred row of the ball at the two ends of an even axis**: with the ball off both faces, the value at voxel `0`
(frequency `-n/2`) is at most the value at voxel `n-1` (frequency `n/2-1`) -/
theorem row_wrap (ker : List (Int × K)) (hu : KerUnimodal ker) (n : Nat) (c r E : Int)
    (hn2 : (n : Int) = 2 * c) (hr : 0 ≤ r) (hE : 0 ≤ E) (hlo : r < c) (hhi : c + r + 1 < (n : Int)) :
    wsum ker (fun q => (rowInd c r E (clampI n (0 + q)) : K)) ≤ wsum ker (fun q => rowInd c r E (clampI n ((n : Int) - 1 + q))) := by
  by_cases hD : r * r - E < 0
  · have h0 : ∀ u, (rowInd c r E u : K) = 0 := by
      intro u; unfold rowInd; rw [if_neg]; nlinarith [mul_self_nonneg (u - c)]
    simp only [h0]; exact le_refl _
  · rw [not_lt] at hD
    obtain ⟨a, ha0, haD, ha⟩ := exists_isqrt (r * r - E) hD
    have har : a ≤ r := by
      by_contra hcon; rw [not_le] at hcon
      have := mul_self_lt_mul_self hr hcon
      nlinarith
    have hrow : ∀ u, (rowInd c r E u : K) = if c - a ≤ u ∧ u ≤ c + a then 1 else 0 := by
      intro u; unfold rowInd
      have := ha (u - c)
      by_cases h : (u - c) * (u - c) + E ≤ r * r
      · rw [if_pos h, if_pos]; have := this.1 (by linarith); omega
      · rw [if_neg h, if_neg]; intro h'; apply h; have := this.2 (by omega); linarith
    have hcl : ∀ u, (rowInd c r E (clampI n u) : K) = if c - a ≤ u ∧ u ≤ c + a then 1 else 0 := by
      intro u; rw [hrow]
      have : (c - a ≤ clampI n u ∧ clampI n u ≤ c + a) ↔ (c - a ≤ u ∧ u ≤ c + a) := by
        unfold clampI; split_ifs <;> constructor <;> intro h <;> omega
      simp only [this]
    simp only [hcl]
    rw [wsum_interval ker (c - a) (c + a) 0 (by omega), wsum_interval ker (c - a) (c + a) ((n : Int) - 1) (by omega)]
    obtain ⟨a', rfl⟩ := Int.eq_ofNat_of_zero_le ha0
    have hw := window_mirror ker hu c a'
    have hm := hu (c - (a' : Int) - 1) (c + (a' : Int)) (by nlinarith)
    rw [show c + (a' : Int) - ((n : Int) - 1) = -c + (a' : Int) + 1 by omega,
      show c - (a' : Int) - ((n : Int) - 1) - 1 = -c - (a' : Int) by omega,
      show c + (a' : Int) - 0 = c + (a' : Int) by ring, show c - (a' : Int) - 0 - 1 = c - (a' : Int) - 1 by ring]
    linarith

theorem mask_wrap_x (ker : List (Int × K)) (hk : UnimodalKernel ker) (d : Dims) (r : Int) (hr : 0 ≤ r)
    (he : (d.nx : Int) = 2 * centre d.nx) (hlo : r < centre d.nx) (hhi : centre d.nx + r + 1 < (d.nx : Int)) (y z : Int) :
    blur3Fn ker d (sphere d r) 0 y z ≤ blur3Fn ker d (sphere d r) ((d.nx : Int) - 1) y z := by
  rw [blur3_perm_x, blur3_perm_x]
  apply wsum_mono _ hk.nonneg; intro pz _
  apply wsum_mono _ hk.nonneg; intro py _
  simp only [sphere_row_x d r hr]
  exact row_wrap ker hk.unimodal d.nx _ r _ he hr (sq2_nonneg _ _) hlo hhi

theorem mask_wrap_y (ker : List (Int × K)) (hk : UnimodalKernel ker) (d : Dims) (r : Int) (hr : 0 ≤ r)
    (he : (d.ny : Int) = 2 * centre d.ny) (hlo : r < centre d.ny) (hhi : centre d.ny + r + 1 < (d.ny : Int)) (x z : Int) :
    blur3Fn ker d (sphere d r) x 0 z ≤ blur3Fn ker d (sphere d r) x ((d.ny : Int) - 1) z := by
  rw [blur3_perm_y, blur3_perm_y]
  apply wsum_mono _ hk.nonneg; intro pz _
  apply wsum_mono _ hk.nonneg; intro px _
  simp only [sphere_row_y d r hr]
  exact row_wrap ker hk.unimodal d.ny _ r _ he hr (sq2_nonneg _ _) hlo hhi

theorem mask_wrap_z (ker : List (Int × K)) (hk : UnimodalKernel ker) (d : Dims) (r : Int) (hr : 0 ≤ r)
    (he : (d.nz : Int) = 2 * centre d.nz) (hlo : r < centre d.nz) (hhi : centre d.nz + r + 1 < (d.nz : Int)) (x y : Int) :
    blur3Fn ker d (sphere d r) x y 0 ≤ blur3Fn ker d (sphere d r) x y ((d.nz : Int) - 1) := by
  rw [blur3_perm_z, blur3_perm_z]
  apply wsum_mono _ hk.nonneg; intro py _
  apply wsum_mono _ hk.nonneg; intro px _
  simp only [sphere_row_z d r hr]
  exact row_wrap ker hk.unimodal d.nz _ r _ he hr (sq2_nonneg _ _) hlo hhi

end nyq

/-- an `AwayStep` that is not an `EffStep` lands on the Nyquist bin of an even axis, coming from its neighbour -/
theorem awayStep_cases (n : Nat) (hn : 0 < n) (r : Int) (j j' : Int) (h : AwayStep n r j j') :
    EffStep n r j j' ∨ (monoAxisOk n r = true ∧ (n : Int) = 2 * centre n ∧ freq n j' = -centre n ∧ freq n j = -centre n + 1) := by
  rcases h with h | ⟨a, b⟩
  · exact Or.inl (Or.inl h)
  · by_cases hm : -(freq n j') < (n : Int) - centre n
    · exact Or.inl (Or.inr ⟨a, hm, b⟩)
    · right
      have rj := freq_range n hn j
      have rj' := freq_range n hn j'
      have hc : centre n = ((n / 2 : Nat) : Int) := rfl
      refine ⟨a, by omega, by omega, by omega⟩

/-- the mirror bin of the Nyquist bin is the Nyquist bin -/
theorem freq_negIdx_nyq (n : Nat) (hn : 0 < n) (he : (n : Int) = 2 * centre n) (j : Int) (h : freq n j = -centre n) :
    freq n (negIdx n j) = -centre n := by
  obtain ⟨c1, h1⟩ := freq_dvd n j
  obtain ⟨c2, h2⟩ := negIdx_dvd n j
  have hc := centre_nonneg n
  apply freq_unique n hn
  · have : centre n = ((n / 2 : Nat) : Int) := rfl
    omega
  · have : centre n = ((n / 2 : Nat) : Int) := rfl
    omega
  · refine ⟨-1 - c1 - c2, ?_⟩
    have e : (n : Int) * (-1 - c1 - c2) = -(n : Int) - (n : Int) * c1 - (n : Int) * c2 := by ring
    rw [e]; omega

section nyqgain
set_option linter.unusedSectionVars false
variable {K : Type} [Field K] [LinearOrder K] [IsStrictOrderedRing K]

/-- the MIRROR image of any `AwayStep` does not raise the gain either — also when the step lands on the Nyquist bin -/
theorem gain_mirror_step_x (ker : List (Int × K)) (hk : UnimodalKernel ker) (d : Dims) (hd : 0 < d.nx) (r : Int) (hr : 0 ≤ r)
    (j j' : Int) (h : AwayStep d.nx r j j') (k l : Int) :
    lowGainFn (some ker) d r (negIdx d.nx j') k l ≤ lowGainFn (some ker) d r (negIdx d.nx j) k l := by
  rcases awayStep_cases d.nx hd r j j' h with h | ⟨a, he, h1, h2⟩
  · exact gain_step_x ker hk d hd r hr _ _ (effStep_mirror d.nx hd r j j' h) k l
  · rw [monoAxisOk_iff] at a
    have e1 := freq_negIdx_nyq d.nx hd he j' h1
    have e2 := freq_negIdx d.nx hd j (by omega)
    simp only [lowGainFn, shiftVol, lowMaskFn]
    rw [shiftIdx_eq_freq d.nx (negIdx d.nx j'), shiftIdx_eq_freq d.nx (negIdx d.nx j), e1, e2, h2,
      show -centre d.nx + centre d.nx = 0 by ring, show -(-centre d.nx + 1) + centre d.nx = (d.nx : Int) - 1 by omega]
    exact mask_wrap_x ker hk d r hr he a.1 a.2 _ _

theorem gain_mirror_step_y (ker : List (Int × K)) (hk : UnimodalKernel ker) (d : Dims) (hd : 0 < d.ny) (r : Int) (hr : 0 ≤ r)
    (k k' : Int) (h : AwayStep d.ny r k k') (j l : Int) :
    lowGainFn (some ker) d r j (negIdx d.ny k') l ≤ lowGainFn (some ker) d r j (negIdx d.ny k) l := by
  rcases awayStep_cases d.ny hd r k k' h with h | ⟨a, he, h1, h2⟩
  · exact gain_step_y ker hk d hd r hr _ _ (effStep_mirror d.ny hd r k k' h) j l
  · rw [monoAxisOk_iff] at a
    have e1 := freq_negIdx_nyq d.ny hd he k' h1
    have e2 := freq_negIdx d.ny hd k (by omega)
    simp only [lowGainFn, shiftVol, lowMaskFn]
    rw [shiftIdx_eq_freq d.ny (negIdx d.ny k'), shiftIdx_eq_freq d.ny (negIdx d.ny k), e1, e2, h2,
      show -centre d.ny + centre d.ny = 0 by ring, show -(-centre d.ny + 1) + centre d.ny = (d.ny : Int) - 1 by omega]
    exact mask_wrap_y ker hk d r hr he a.1 a.2 _ _

theorem gain_mirror_step_z (ker : List (Int × K)) (hk : UnimodalKernel ker) (d : Dims) (hd : 0 < d.nz) (r : Int) (hr : 0 ≤ r)
    (l l' : Int) (h : AwayStep d.nz r l l') (j k : Int) :
    lowGainFn (some ker) d r j k (negIdx d.nz l') ≤ lowGainFn (some ker) d r j k (negIdx d.nz l) := by
  rcases awayStep_cases d.nz hd r l l' h with h | ⟨a, he, h1, h2⟩
  · exact gain_step_z ker hk d hd r hr _ _ (effStep_mirror d.nz hd r l l' h) j k
  · rw [monoAxisOk_iff] at a
    have e1 := freq_negIdx_nyq d.nz hd he l' h1
    have e2 := freq_negIdx d.nz hd l (by omega)
    simp only [lowGainFn, shiftVol, lowMaskFn]
    rw [shiftIdx_eq_freq d.nz (negIdx d.nz l'), shiftIdx_eq_freq d.nz (negIdx d.nz l), e1, e2, h2,
      show -centre d.nz + centre d.nz = 0 by ring, show -(-centre d.nz + 1) + centre d.nz = (d.nz : Int) - 1 by omega]
    exact mask_wrap_z ker hk d r hr he a.1 a.2 _ _

/-- **the effective gain does not rise along ANY `AwayStep`** (Nyquist landings included) -/
theorem eff_gain_step_xyz (ker : List (Int × K)) (hk : UnimodalKernel ker) (d : Dims) (hd : 0 < d.nx ∧ 0 < d.ny ∧ 0 < d.nz)
    (r : Int) (hr : 0 ≤ r) (j k l j' k' l' : Int)
    (hx : AwayStep d.nx r j j') (hy : AwayStep d.ny r k k') (hz : AwayStep d.nz r l l') :
    effGain d (lowGainFn (some ker) d r) j' k' l' ≤ effGain d (lowGainFn (some ker) d r) j k l := by
  have a := gain_step_xyz ker hk d hd r hr j k l j' k' l' hx hy hz
  have b := le_trans (gain_mirror_step_x ker hk d hd.1 r hr j j' hx (negIdx d.ny k') (negIdx d.nz l'))
    (le_trans (gain_mirror_step_y ker hk d hd.2.1 r hr k k' hy (negIdx d.nx j) (negIdx d.nz l'))
      (gain_mirror_step_z ker hk d hd.2.2 r hr l l' hz (negIdx d.nx j) (negIdx d.ny k)))
  simp only [effGain]
  linarith

end nyqgain
end CryoCat.C12
