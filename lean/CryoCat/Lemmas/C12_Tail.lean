import CryoCat.Lemmas.C12
/-! C12 — the soft-edge margins: how far an (edge-clamped) kernel offset can move a voxel, the
square-root-free triangle inequalities `√A + √m ≤ r` / `√A > r + √m`, and the bound of a blurred
`[0,1]` array by the kernel's tail weight `tail3`. -/
namespace CryoCat.C12

/-- `mode='nearest'` never lengthens an offset: the voxel actually read for offset `q` lies at an offset
of the same sign and at most the same size -/
theorem clampI_off_sq (n : Nat) (x q : Int) (hx : 0 ≤ x ∧ x < (n : Int)) :
    (clampI n (x + q) - x) * (clampI n (x + q) - x) ≤ q * q := by
  unfold clampI
  split_ifs with h1 h2
  · have : (0 - x) * (0 - x) = x * x := by ring
    rw [this]; nlinarith
  · nlinarith
  · have : x + q - x = q := by ring
    rw [this]

/-- Cauchy–Schwarz with bounds on the two squared lengths -/
theorem dot_sq_le (a b c qa qb qc B m : Int) (hB : a * a + b * b + c * c ≤ B) (hm : qa * qa + qb * qb + qc * qc ≤ m) :
    (a * qa + b * qb + c * qc) * (a * qa + b * qb + c * qc) ≤ B * m := by
  have e : (a * a + b * b + c * c) * (qa * qa + qb * qb + qc * qc) - (a * qa + b * qb + c * qc) * (a * qa + b * qb + c * qc)
      = (a * qb - b * qa) * (a * qb - b * qa) + (a * qc - c * qa) * (a * qc - c * qa) + (b * qc - c * qb) * (b * qc - c * qb) := by ring
  have h1 := mul_self_nonneg (a * qb - b * qa)
  have h2 := mul_self_nonneg (a * qc - c * qa)
  have h3 := mul_self_nonneg (b * qc - c * qb)
  have hq0 : 0 ≤ qa * qa + qb * qb + qc * qc := by nlinarith [mul_self_nonneg qa, mul_self_nonneg qb, mul_self_nonneg qc]
  have hp0 : 0 ≤ a * a + b * b + c * c := by nlinarith [mul_self_nonneg a, mul_self_nonneg b, mul_self_nonneg c]
  have h4 : (a * a + b * b + c * c) * (qa * qa + qb * qb + qc * qc) ≤ B * m := mul_le_mul hB hm hq0 (le_trans hp0 hB)
  linarith

theorem two_dot_le (a b c qa qb qc B m E : Int) (hB : a * a + b * b + c * c ≤ B) (hm : qa * qa + qb * qb + qc * qc ≤ m)
    (hE : 0 ≤ E) (h : 4 * (B * m) ≤ E * E) :
    2 * (a * qa + b * qb + c * qc) ≤ E ∧ -E ≤ 2 * (a * qa + b * qb + c * qc) := by
  have hd := dot_sq_le a b c qa qb qc B m hB hm
  set t := a * qa + b * qb + c * qc
  constructor
  · by_contra hcon
    rw [not_le] at hcon
    have := mul_self_lt_mul_self hE hcon
    nlinarith
  · by_contra hcon
    rw [not_le] at hcon
    have h' : E < -(2 * t) := by linarith
    have := mul_self_lt_mul_self hE h'
    nlinarith

theorem two_dot_lt (a b c qa qb qc B m E : Int) (hB : a * a + b * b + c * c ≤ B) (hm : qa * qa + qb * qb + qc * qc ≤ m)
    (hE : 0 ≤ E) (h : 4 * (B * m) < E * E) :
    2 * (a * qa + b * qb + c * qc) < E ∧ -E < 2 * (a * qa + b * qb + c * qc) := by
  have hd := dot_sq_le a b c qa qb qc B m hB hm
  set t := a * qa + b * qb + c * qc
  constructor
  · by_contra hcon
    rw [not_lt] at hcon
    have := mul_self_le_mul_self hE hcon
    nlinarith
  · by_contra hcon
    rw [not_lt] at hcon
    have h' : E ≤ -(2 * t) := by linarith
    have := mul_self_le_mul_self hE h'
    nlinarith

/-- `√A + √m ≤ r` without square roots: a point of squared radius `≤ A`, moved by an offset of squared
length `≤ m`, stays within `r` when `A + m ≤ r²` and `4·A·m ≤ (r² − A − m)²` -/
theorem reach_inside (a b c qa qb qc A m r : Int) (hA : a * a + b * b + c * c ≤ A) (hm : qa * qa + qb * qb + qc * qc ≤ m)
    (h1 : A + m ≤ r * r) (h2 : 4 * (A * m) ≤ (r * r - A - m) * (r * r - A - m)) :
    (a + qa) * (a + qa) + (b + qb) * (b + qb) + (c + qc) * (c + qc) ≤ r * r := by
  have := (two_dot_le a b c qa qb qc A m (r * r - A - m) hA hm (by linarith) h2).1
  nlinarith

/-- `√A > r + √m` without square roots: a point of squared radius `≥ A`, moved by an offset of squared
length `≤ m`, stays strictly outside `r` when `r² + m < A` and `4·r²·m < (A − r² − m)²` -/
theorem reach_outside (a b c qa qb qc A m r : Int) (hA : A ≤ a * a + b * b + c * c) (hm : qa * qa + qb * qb + qc * qc ≤ m)
    (h1 : r * r + m < A) (h2 : 4 * (r * r * m) < (A - r * r - m) * (A - r * r - m)) :
    ¬ ((a + qa) * (a + qa) + (b + qb) * (b + qb) + (c + qc) * (c + qc) ≤ r * r) := by
  intro h
  have hm' : (-qa) * (-qa) + (-qb) * (-qb) + (-qc) * (-qc) ≤ m := by
    have : (-qa) * (-qa) + (-qb) * (-qb) + (-qc) * (-qc) = qa * qa + qb * qb + qc * qc := by ring
    rw [this]; exact hm
  have := (two_dot_lt (a + qa) (b + qb) (c + qc) (-qa) (-qb) (-qc) (r * r) m (A - r * r - m) h hm' (by linarith) h2).1
  nlinarith

section tail
set_option linter.unusedSectionVars false
variable {K : Type} [Field K] [LinearOrder K] [IsStrictOrderedRing K]

/-- a blurred array with values `≤ 1` that vanishes at every voxel an offset of squared length `≤ m` can
reach is at most the kernel's tail weight beyond `m` -/
theorem blur3_le_tail (ker : List (Int × K)) (hn : KerNonneg ker) (d : Dims) (g : Vol K) (x y z : Int) (m : Int)
    (h1 : ∀ a b c, g a b c ≤ 1)
    (h0 : ∀ qx qy qz : Int, qx * qx + qy * qy + qz * qz ≤ m →
      g (clampI d.nx (x + qx)) (clampI d.ny (y + qy)) (clampI d.nz (z + qz)) ≤ 0) :
    blur3Fn ker d g x y z ≤ tail3 ker m := by
  unfold blur3Fn blurZ blurY blurX tail3
  apply wsum_mono _ hn; intro pz _
  apply wsum_mono _ hn; intro py _
  apply wsum_mono _ hn; intro px _
  by_cases h : m < px.1 * px.1 + py.1 * py.1 + pz.1 * pz.1
  · rw [if_pos h]; exact h1 _ _ _
  · rw [if_neg h]; exact h0 _ _ _ (not_lt.1 h)

theorem tail3_nonneg (ker : List (Int × K)) (hn : KerNonneg ker) (m : Int) : 0 ≤ tail3 ker m := by
  have h : (0 : K) = wsum ker (fun _ => wsum ker (fun _ => wsum ker (fun _ => (0 : K)))) := by
    simp only [wsum_const, mul_zero]
  rw [h]
  unfold tail3
  apply wsum_mono _ hn; intro pz _
  apply wsum_mono _ hn; intro py _
  apply wsum_mono _ hn; intro px _
  split_ifs
  · exact zero_le_one
  · exact le_refl _

theorem tail3_le_one (ker : List (Int × K)) (hn : KerNonneg ker) (hu : ksum ker = 1) (m : Int) : tail3 ker m ≤ 1 := by
  have h : (1 : K) = wsum ker (fun _ => wsum ker (fun _ => wsum ker (fun _ => (1 : K)))) := by
    simp only [wsum_const, hu, mul_one]
  rw [h]
  unfold tail3
  apply wsum_mono _ hn; intro pz _
  apply wsum_mono _ hn; intro py _
  apply wsum_mono _ hn; intro px _
  split_ifs
  · exact le_refl _
  · exact zero_le_one

/-- a larger reach leaves less tail -/
theorem tail3_antitone (ker : List (Int × K)) (hn : KerNonneg ker) (m m' : Int) (h : m ≤ m') : tail3 ker m' ≤ tail3 ker m := by
  unfold tail3
  apply wsum_mono _ hn; intro pz _
  apply wsum_mono _ hn; intro py _
  apply wsum_mono _ hn; intro px _
  by_cases h1 : m' < px.1 * px.1 + py.1 * py.1 + pz.1 * pz.1
  · rw [if_pos h1, if_pos (by omega)]
  · rw [if_neg h1]; split_ifs
    · exact zero_le_one
    · exact le_refl _

/-- the kernel cube reaches no further than `√3·t`: beyond that the tail is exactly 0 -/
theorem tail3_zero (ker : List (Int × K)) (t : Nat) (hw : KerWithin t ker) (m : Int) (h : 3 * ((t : Int) * (t : Int)) ≤ m) :
    tail3 ker m = 0 := by
  have h0 : (0 : K) = wsum ker (fun _ => wsum ker (fun _ => wsum ker (fun _ => (0 : K)))) := by
    simp only [wsum_const, mul_zero]
  rw [h0]
  unfold tail3
  apply wsum_congr; intro pz hz
  apply wsum_congr; intro py hy
  apply wsum_congr; intro px hx
  have bx := hw px hx
  have by' := hw py hy
  have bz := hw pz hz
  have h1 : px.1 * px.1 ≤ (t : Int) * t := by nlinarith
  have h2 : py.1 * py.1 ≤ (t : Int) * t := by nlinarith
  have h3 : pz.1 * pz.1 ≤ (t : Int) * t := by nlinarith
  rw [if_neg (by omega)]

end tail
end CryoCat.C12
