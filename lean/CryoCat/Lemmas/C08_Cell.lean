import CryoCat.Model.C08_Cell
import CryoCat.Lemmas.C08_CheckHistory
import Mathlib.Algebra.Order.Ring.Rat
import Mathlib.Tactic.NormNum
/-! C08 — (i) the clause Props for an offered certificate (so that `check_step_iff` / `check_run_iff` have no
checker on their right-hand side), (ii) facts about the executed `Cell` instance, (iii) a small number type with a
missing value (`W`) on which the witnesses of the open known findings C08-K2 / C08-K3 are computed. -/
namespace CryoCat.C08
open CryoCat
set_option linter.unusedSectionVars false

section cert
variable {α : Type}

/-- the clauses of `merge_and_drop_duplicates` for ONE given offset certificate `cs` (the body of `MergeDropDupOK`) -/
def MergeDropDupCertOK [Add α] [LE α] (fill : α → α) (cs : List α) (ins : List (Bool × Motl α)) (out : Motl α) : Prop :=
  cs.length = ins.length ∧ ((shiftedInputs fill cs ins).map (·.2)).Pairwise DisjointObj
    ∧ (∀ q ∈ out, ∃ x ∈ shiftedInputs fill cs ins, ∃ p ∈ x.2, Same (fillIf fill x.1) p q)
    ∧ DropDupOK fill .subtomo_id .score false ((shiftedInputs fill cs ins).map (·.2)).flatten out

/-- what `checkStep` needs beyond `StepOK`, as a clause Prop: for `merge_and_drop_duplicates` one of the OFFERED
certificates meets the clauses (`MergeDropDupOK` only says that some certificate exists) -/
def HintCertOK [Add α] [LE α] (fill : α → α) : Op α → Motl α → Obs α → Prop
  | .mergeDropDup b a s, l, o => ∃ cs ∈ o.hints, MergeDropDupCertOK fill cs (rawInputs b a s l) o.out
  | _, _, _ => True

/-- every step of an observed history meets its clauses (and, for `merge_and_drop_duplicates`, with an offered
certificate), each judged against the REAL previous table — no checker inside -/
def RunCertOK [DecidableEq α] [Add α] [LE α] (fill : α → α) (nat : Nat → α) : List (Op α × Obs α) → Motl α → Prop
  | [], _ => True
  | (op, o) :: rest, l => (StepOK fill nat op l o ∧ HintCertOK fill op l o) ∧ RunCertOK fill nat rest o.out

/-- what the STATEMENT says about `merge_and_renumber`, and no more: the output is the inputs' rows (ids aside, a missing
value possibly filled for a re-loaded input), the subtomogram numbers are 1..N, object numbers of different inputs never
collide, and inside each input two rows have the same new object number exactly when they had the same old one (the
grouping is kept).  `MergeRenumberOK` — what the checker decides — additionally demands ONE additive offset per input;
that is the documented behaviour of the loop (a model-level fact), stronger than the statement. -/
def MergeRenumberStatement (fill : α → α) (nat : Nat → α) (ins : List (Bool × Motl α)) (out : Motl α) : Prop :=
  ∃ bs : List (Motl α), out = bs.flatten
    ∧ List.Forall₂ (fun x b => List.Forall₂ (fun p q => Unchanged (fillIf fill x.1) p q) x.2 b
        ∧ ∀ u ∈ x.2.zip b, ∀ v ∈ x.2.zip b,
            u.2.object_id = v.2.object_id ↔ fillIf fill x.1 u.1.object_id = fillIf fill x.1 v.1.object_id) ins bs
    ∧ bs.Pairwise DisjointObj
    ∧ out.map (·.subtomo_id) = (List.range (ins.map (·.2)).flatten.length).map (fun i => nat (i + 1))

end cert

section ring
variable {α : Type} [CommRing α] [LinearOrder α] [IsStrictOrderedRing α]
  (eqv : α → α → Bool) (heqv : ∀ a b, eqv a b = true ↔ a = b)
include heqv

theorem hintOK_iff_cert (fill : α → α) (op : Op α) (l : Motl α) (o : Obs α) :
    HintOK eqv fill op l o ↔ HintCertOK fill op l o := by
  cases op with
  | mergeDropDup b a s =>
    simp only [HintOK, HintCertOK, MergeDropDupCertOK]
    exact exists_congr (fun cs => and_congr_right (fun _ => checkMergeDropDup_cs_iff eqv heqv fill cs _ o.out))
  | _ => exact Iff.rfl

theorem runOK_iff_cert (fill : α → α) (nat : Nat → α) (steps : List (Op α × Obs α)) (l : Motl α) :
    RunOK eqv fill nat steps l ↔ RunCertOK fill nat steps l := by
  induction steps generalizing l with
  | nil => exact Iff.rfl
  | cons s steps ih =>
    obtain ⟨op, o⟩ := s
    simp only [RunOK, RunCertOK, hintOK_iff_cert eqv heqv, ih]

end ring

/-! ### the executed instance -/

theorem eqvQ_lawful : ∀ a b : Cell, eqvQ a b = true ↔ a = b := by
  intro a b; unfold eqvQ; exact beq_iff_eq

theorem missingQ_ne_zero : (0 : Rat) ≠ missingQ := by
  unfold missingQ; norm_num

theorem fillQ_idem : ∀ v : Cell, fillQ (fillQ v) = fillQ v := by
  intro v
  unfold fillQ
  by_cases h : v = missingQ
  · subst h
    simp [missingQ_ne_zero]
  · simp [h]

theorem natQ_inj : ∀ i j : Nat, natQ i = natQ j → i = j := by
  intro i j h
  unfold natQ at h
  exact_mod_cast h

/-! ### a number type with a missing value, IEEE-like: `nan` is `==` to nothing (not even itself), below and
above nothing, and absorbs `+` / `-`.  Used ONLY for the concrete witnesses of C08-K2 / C08-K3. -/
inductive W
  | n (i : Int)
  | nan
deriving DecidableEq, Repr

namespace W
instance : BEq W := ⟨fun a b => match a, b with | n i, n j => i == j | _, _ => false⟩
instance : LT W := ⟨fun a b => match a, b with | n i, n j => i < j | _, _ => False⟩
instance : DecidableLT W := fun a b => match a, b with
  | n i, n j => inferInstanceAs (Decidable (i < j))
  | n _, nan => isFalse (fun h => h)
  | nan, n _ => isFalse (fun h => h)
  | nan, nan => isFalse (fun h => h)
instance : Add W := ⟨fun a b => match a, b with | n i, n j => n (i + j) | _, _ => nan⟩
instance : Sub W := ⟨fun a b => match a, b with | n i, n j => n (i - j) | _, _ => nan⟩
instance : OfNat W 0 := ⟨n 0⟩
instance : OfNat W 1 := ⟨n 1⟩
/-- the same cell (a missing value is the same cell as a missing value) -/
def same (a b : W) : Bool := decide (a = b)
def isNan : W → Bool
  | nan => true
  | _ => false
/-- a row with the given subtomogram / object number and score, every other cell `n 0` -/
def row (id obj score : W) : Particle W :=
  ((Particle.ofFn (fun _ => n 0)).set .subtomo_id id |>.set .object_id obj).set .score score
end W

/-- pandas' `DataFrame.drop_duplicates(subset=f)` AS IT IS: `duplicated` treats two missing ids as THE SAME id
(`same`), unlike `==` — the as-is rendering behind the open known finding C08-K2 (the model's `firstPer` compares
with `==` and keeps every row without an id) -/
def firstPerSame {α : Type} (same : α → α → Bool) (f : Field) : Motl α → Motl α
  | [] => []
  | p :: l => p :: (firstPerSame same f l).filter (fun q => !(same (q.get f) (p.get f)))

end CryoCat.C08
