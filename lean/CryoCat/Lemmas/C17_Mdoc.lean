import CryoCat.Model.C17
import CryoCat.Lemmas.C17
/-! C17 — lemmas about the character-level mdoc reader / writer (core Lean only). -/
namespace CryoCat.C17

/-! ### predicates used by the round-trip theorems (all decidable) -/

/-- keys the reader returns unchanged -/
def goodKey (k : Str) : Bool := !k.isEmpty && strip k == k && !k.contains '=' && !(['['].isPrefixOf k)
/-- canonical digit strings -/
def canonI (s : Str) : Bool := allDigits s && normI s == s
def canonF (s : Str) : Bool := allDigits s && normF s == s
/-- values whose printed form `_format_value` types back to the same value: ints, texts the reader would
itself produce, and floats outside the exponent-form class -/
def stableVal : Val → Bool
  | .int ds => canonI ds
  | .flt i f => canonI i && canonF f && !expClass i f
  | .text s => classify s == .text s && !s.contains '='
  | .tilt _ _ _ => false
def stableTilt : Val → Bool
  | .tilt _ i f => canonI i && canonF f && !expClass i f
  | _ => false

/-! ### strip / split -/

theorem dropWhile_eq_self {p : Char → Bool} : ∀ (s : Str), (∀ c, s.head? = some c → p c = false) → s.dropWhile p = s
  | [], _ => rfl
  | c :: s, h => by simp [List.dropWhile, h c rfl]

theorem isWs_of_isDigit {c : Char} (h : c.isDigit = true) : isWs c = false := by
  simp only [Char.isDigit, Bool.and_eq_true, decide_eq_true_eq] at h
  simp only [isWs, Bool.or_eq_false_iff, beq_eq_false_iff_ne, ne_eq]
  refine ⟨⟨⟨⟨⟨?_, ?_⟩, ?_⟩, ?_⟩, ?_⟩, ?_⟩ <;> (intro e; subst e; revert h; decide)

/-- `strip` only looks at the two ends -/
theorem strip_eq_self (s : Str) (hh : ∀ c, s.head? = some c → isWs c = false) (hl : ∀ c, s.getLast? = some c → isWs c = false) :
    strip s = s := by
  unfold strip lstrip rstrip
  rw [dropWhile_eq_self s hh, dropWhile_eq_self s.reverse (by simpa using hl), List.reverse_reverse]

theorem strip_space_cons (t : Str) : strip (' ' :: t) = strip t := by
  simp [strip, lstrip, List.dropWhile, isWs]

theorem lstrip_ne_nil_of_strip (k : Str) (h : strip k = k) (hne : k ≠ []) : lstrip k ≠ [] := by
  intro e
  apply hne
  rw [← h]; simp [strip, e, rstrip]

theorem strip_append_space (k : Str) (h : strip k = k) (hne : k ≠ []) : strip (k ++ [' ']) = k := by
  have h1 := lstrip_ne_nil_of_strip k h hne
  have h2 : lstrip (k ++ [' ']) = lstrip k ++ [' '] := by
    unfold lstrip at *
    rw [List.dropWhile_append]
    simp [h1]
  have h3 : rstrip (lstrip k ++ [' ']) = rstrip (lstrip k) := by
    simp [rstrip, List.dropWhile, isWs]
  unfold strip at *
  rw [h2, h3, h]

theorem splitEq_of_not_mem : ∀ (s : Str), '=' ∉ s → splitEq s = [s]
  | [], _ => rfl
  | c :: s, h => by
    have hc : (c == '=') = false := by
      simp only [beq_eq_false_iff_ne, ne_eq]; intro e; exact h (by simp [e])
    have hs : '=' ∉ s := fun e => h (List.mem_cons_of_mem _ e)
    simp [splitEq, hc, splitEq_of_not_mem s hs]

theorem splitEq_append : ∀ (a b : Str), '=' ∉ a → splitEq (a ++ '=' :: b) = a :: splitEq b
  | [], b, _ => by simp [splitEq]
  | c :: a, b, h => by
    have hc : (c == '=') = false := by
      simp only [beq_eq_false_iff_ne, ne_eq]; intro e; exact h (by simp [e])
    have hs : '=' ∉ a := fun e => h (List.mem_cons_of_mem _ e)
    simp [splitEq, hc, splitEq_append a b hs]

/-! ### digit strings -/

theorem allDigits_iff (s : Str) : allDigits s = true ↔ s ≠ [] ∧ ∀ c ∈ s, c.isDigit = true := by
  cases s <;> simp [allDigits]

theorem not_allDigits_of_mem (s : Str) (c : Char) (hc : c ∈ s) (hd : c.isDigit = false) : allDigits s = false := by
  cases h : allDigits s with
  | false => rfl
  | true => rw [allDigits_iff] at h; rw [h.2 c hc] at hd; cases hd

theorem strip_digits (s : Str) (h : ∀ c ∈ s, isWs c = false) : strip s = s :=
  strip_eq_self s (fun c hc => h c (List.mem_of_mem_head? hc)) (fun c hc => h c (List.mem_of_getLast? hc))

theorem removeFirstDot_append : ∀ (i f : Str), '.' ∉ i → removeFirstDot (i ++ '.' :: f) = i ++ f
  | [], f, _ => by simp [removeFirstDot]
  | c :: i, f, h => by
    have hc : (c == '.') = false := by
      simp only [beq_eq_false_iff_ne, ne_eq]; intro e; exact h (by simp [e])
    have hs : '.' ∉ i := fun e => h (List.mem_cons_of_mem _ e)
    simp [removeFirstDot, hc, removeFirstDot_append i f hs]

theorem splitDot_append : ∀ (i f : Str), '.' ∉ i → splitDot (i ++ '.' :: f) = (i, f)
  | [], f, _ => by simp [splitDot]
  | c :: i, f, h => by
    have hc : (c == '.') = false := by
      simp only [beq_eq_false_iff_ne, ne_eq]; intro e; exact h (by simp [e])
    have hs : '.' ∉ i := fun e => h (List.mem_cons_of_mem _ e)
    simp [splitDot, hc, splitDot_append i f hs]

theorem dot_not_digit : ('.' : Char).isDigit = false := by decide
theorem eq_not_digit : ('=' : Char).isDigit = false := by decide
theorem dot_not_ws : isWs '.' = false := by decide

theorem not_mem_of_digits (s : Str) (c : Char) (hd : c.isDigit = false) (h : ∀ x ∈ s, x.isDigit = true) : c ∉ s := by
  intro hc; rw [h c hc] at hd; cases hd

/-- the plain printed form of a canonical float is typed back as the same float -/
theorem classify_plain (i f : Str) (hi : canonI i = true) (hf : canonF f = true) :
    classify (i ++ '.' :: f) = .flt i f := by
  simp only [canonI, canonF, Bool.and_eq_true, beq_iff_eq] at hi hf
  obtain ⟨hid, hin⟩ := hi
  obtain ⟨hfd, hfn⟩ := hf
  rw [allDigits_iff] at hid hfd
  have hdot : '.' ∉ i := not_mem_of_digits i '.' dot_not_digit hid.2
  have hstrip : strip (i ++ '.' :: f) = i ++ '.' :: f := by
    apply strip_digits
    intro c hc
    rcases List.mem_append.1 hc with h | h
    · exact isWs_of_isDigit (hid.2 c h)
    · rcases List.mem_cons.1 h with h | h
      · subst h; exact dot_not_ws
      · exact isWs_of_isDigit (hfd.2 c h)
  have h1 : allDigits (i ++ '.' :: f) = false := not_allDigits_of_mem _ '.' (by simp) dot_not_digit
  have h2 : allDigits (i ++ f) = true := by
    rw [allDigits_iff]
    refine ⟨by simp [hid.1], ?_⟩
    intro c hc
    rcases List.mem_append.1 hc with h | h
    · exact hid.2 c h
    · exact hfd.2 c h
  simp only [classify, hstrip, h1, removeFirstDot_append i f hdot, h2, splitDot_append i f hdot, hin, hfn, if_true, Bool.false_eq_true, if_false]

theorem pyRepr_plain (i f : Str) (h : expClass i f = false) : pyRepr i f = i ++ '.' :: f := by
  simp only [expClass, Bool.or_eq_false_iff, decide_eq_false_iff_not, Nat.not_le] at h
  simp only [pyRepr, if_neg (Nat.not_le.2 h.1)]
  simp only [h.2, Bool.false_eq_true, if_false]

/-- **stable values**: ints, reader-produced texts and plain-form floats re-read as themselves -/
theorem classify_fmt (v : Val) (h : stableVal v = true) : classify v.fmt = v := by
  cases v with
  | int ds =>
    simp only [stableVal, canonI, Bool.and_eq_true, beq_iff_eq] at h
    have hd := (allDigits_iff ds).1 h.1
    have hs : strip ds = ds := strip_digits ds (fun c hc => isWs_of_isDigit (hd.2 c hc))
    simp only [Val.fmt, classify, hs, h.1, h.2, if_true]
  | flt i f =>
    simp only [stableVal, Bool.and_eq_true, Bool.not_eq_true'] at h
    simp only [Val.fmt, pyRepr_plain i f h.2]
    exact classify_plain i f h.1.1 h.1.2
  | text s =>
    simp only [stableVal, Bool.and_eq_true, beq_iff_eq] at h
    exact h.1
  | tilt n i f => simp [stableVal] at h

/-! ### the TiltAngle column -/

theorem minus_not_digit : ('-' : Char).isDigit = false := by decide
theorem minus_not_ws : isWs '-' = false := by decide

/-- a stable TiltAngle cell — also a negative one, which is first read as text — converts back to itself -/
theorem toTilt_classify_fmt (v : Val) (h : stableTilt v = true) : toTilt (classify v.fmt) = some v := by
  cases v with
  | int ds => simp [stableTilt] at h
  | flt i f => simp [stableTilt] at h
  | text s => simp [stableTilt] at h
  | tilt n i f =>
    simp only [stableTilt, Bool.and_eq_true, Bool.not_eq_true'] at h
    have hp := classify_plain i f h.1.1 h.1.2
    cases n with
    | false =>
      simp only [Val.fmt, pyRepr_plain i f h.2, Bool.false_eq_true, if_false, List.nil_append, hp, toTilt]
    | true =>
      have hi := h.1.1; have hf := h.1.2
      simp only [canonI, canonF, Bool.and_eq_true, beq_iff_eq] at hi hf
      obtain ⟨hid, hin⟩ := hi
      obtain ⟨hfd, hfn⟩ := hf
      rw [allDigits_iff] at hid hfd
      have hdot : '.' ∉ i := not_mem_of_digits i '.' dot_not_digit hid.2
      have hws : ∀ c ∈ i ++ '.' :: f, isWs c = false := by
        intro c hc
        rcases List.mem_append.1 hc with h | h
        · exact isWs_of_isDigit (hid.2 c h)
        · rcases List.mem_cons.1 h with h | h
          · subst h; exact dot_not_ws
          · exact isWs_of_isDigit (hfd.2 c h)
      have hstrip : strip ('-' :: (i ++ '.' :: f)) = '-' :: (i ++ '.' :: f) := by
        apply strip_digits
        intro c hc
        rcases List.mem_cons.1 hc with h | h
        · subst h; exact minus_not_ws
        · exact hws c h
      have h1 : allDigits ('-' :: (i ++ '.' :: f)) = false := not_allDigits_of_mem _ '-' (by simp) minus_not_digit
      have h2 : allDigits (removeFirstDot ('-' :: (i ++ '.' :: f))) = false := by
        have : removeFirstDot ('-' :: (i ++ '.' :: f)) = '-' :: (i ++ f) := by
          simp [removeFirstDot, removeFirstDot_append i f hdot]
        rw [this]; exact not_allDigits_of_mem _ '-' (by simp) minus_not_digit
      have h3 : allDigits (i ++ '.' :: f) = false := not_allDigits_of_mem _ '.' (by simp) dot_not_digit
      have h4 : allDigits (i ++ f) = true := by
        rw [allDigits_iff]
        refine ⟨by simp [hid.1], ?_⟩
        intro c hc
        rcases List.mem_append.1 hc with h | h
        · exact hid.2 c h
        · exact hfd.2 c h
      simp only [Val.fmt, pyRepr_plain i f h.2, if_true, List.singleton_append, classify, hstrip, h1, h2,
        Bool.false_eq_true, if_false, toTilt, h3, removeFirstDot_append i f hdot, h4, splitDot_append i f hdot, hin, hfn]

/-! ### the unstable class: exponent-form floats come back as text -/

theorem mem_removeFirstDot : ∀ (s : Str) (c : Char), c ≠ '.' → c ∈ s → c ∈ removeFirstDot s
  | [], _, _, h => by cases h
  | x :: s, c, hne, h => by
    by_cases hx : (x == '.') = true
    · have : x = '.' := by simpa using hx
      subst this
      rcases List.mem_cons.1 h with h | h
      · exact absurd h hne
      · simpa [removeFirstDot] using h
    · have hx' : (x == '.') = false := by simpa using hx
      simp only [removeFirstDot, hx', Bool.false_eq_true, if_false]
      rcases List.mem_cons.1 h with h | h
      · subst h; exact List.mem_cons_self
      · exact List.mem_cons_of_mem _ (mem_removeFirstDot s c hne h)

/-- anything that contains a character other than digits and '.' is typed as text -/
theorem classify_text_of_mem (s : Str) (c : Char) (hc : c ∈ s) (hd : c.isDigit = false) (hne : c ≠ '.') (hs : strip s = s) :
    classify s = .text s := by
  have h1 : allDigits s = false := not_allDigits_of_mem s c hc hd
  have h2 : allDigits (removeFirstDot s) = false := not_allDigits_of_mem _ c (mem_removeFirstDot s c hne hc) hd
  simp only [classify, hs, h1, h2, Bool.false_eq_true, if_false]

theorem mem_mantissa (s : Str) (c : Char) (h : c ∈ mantissa s) : c ∈ s ∨ c = '.' ∨ c = '0' := by
  match s, h with
  | [], h => simp [mantissa] at h; exact Or.inr (Or.inr h)
  | [d], h => simp [mantissa] at h; exact Or.inl (by simp [h])
  | d :: e :: r, h =>
    simp only [mantissa, List.mem_cons] at h
    rcases h with h | h | h | h
    · exact Or.inl (by simp [h])
    · exact Or.inr (Or.inl h)
    · exact Or.inl (by simp [h])
    · exact Or.inl (by simp [h])

theorem twoDigits_digits (n : Nat) (c : Char) (h : c ∈ twoDigits n) : c.isDigit = true := by
  unfold twoDigits at h
  split at h
  · rcases List.mem_cons.1 h with h | h
    · subst h; decide
    · exact Nat.isDigit_of_mem_toDigits (by decide) (by decide) h
  · exact Nat.isDigit_of_mem_toDigits (by decide) (by decide) h

/-- **the exact class that does not round trip (known finding C17-K1)**: a float of the exponent-form class
(`x ≥ 1e16` or `0 < x < 1e-4`) is printed with an `e` and typed back as that *text* -/
theorem exp_reads_as_text (i f : Str) (hi : canonI i = true) (hf : canonF f = true) (he : expClass i f = true) :
    classify (pyRepr i f) = .text (pyRepr i f) := by
  simp only [canonI, canonF, Bool.and_eq_true, beq_iff_eq] at hi hf
  have hid := (allDigits_iff i).1 hi.1
  have hfd := (allDigits_iff f).1 hf.1
  have hnotws : ∀ c : Char, (c.isDigit = true ∨ c = '.' ∨ c = '0' ∨ c = 'e' ∨ c = '+' ∨ c = '-') → isWs c = false := by
    intro c h
    rcases h with h | h | h | h | h | h
    · exact isWs_of_isDigit h
    all_goals (subst h; decide)
  have hsub1 : ∀ c ∈ (dropZeros (i ++ (if f == ['0'] then [] else f)).reverse).reverse, c.isDigit = true := by
    intro c hc
    have hc' : c ∈ (i ++ (if f == ['0'] then [] else f)).reverse := (List.dropWhile_sublist _).subset (List.mem_reverse.1 hc)
    rcases List.mem_append.1 (List.mem_reverse.1 hc') with h | h
    · exact hid.2 c h
    · split at h
      · cases h
      · exact hfd.2 c h
  have hsub2 : ∀ c ∈ f.drop (leadingZeros f), c.isDigit = true := fun c hc => hfd.2 c ((List.drop_sublist _ _).subset hc)
  have key : ∀ (sig : Str) (sg : Char) (n : Nat), (∀ c ∈ sig, c.isDigit = true) → (sg = '+' ∨ sg = '-') →
      classify (mantissa sig ++ ['e', sg] ++ twoDigits n) = .text (mantissa sig ++ ['e', sg] ++ twoDigits n) := by
    intro sig sg n hsig hsg
    apply classify_text_of_mem _ 'e' (by simp) (by decide) (by decide)
    apply strip_digits
    intro c hc
    apply hnotws
    simp only [List.mem_append, List.mem_cons, List.not_mem_nil, or_false] at hc
    rcases hc with (h | h | h) | h
    · rcases mem_mantissa sig c h with h | h | h
      · exact Or.inl (hsig c h)
      · exact Or.inr (Or.inl h)
      · exact Or.inr (Or.inr (Or.inl h))
    · exact Or.inr (Or.inr (Or.inr (Or.inl h)))
    · rcases hsg with e | e <;> subst e
      · exact Or.inr (Or.inr (Or.inr (Or.inr (Or.inl h))))
      · exact Or.inr (Or.inr (Or.inr (Or.inr (Or.inr h))))
    · exact Or.inl (twoDigits_digits n c h)
  unfold pyRepr
  by_cases h17 : 17 ≤ i.length
  · simp only [h17, if_true]
    exact key _ '+' _ hsub1 (Or.inl rfl)
  · simp only [expClass, h17, decide_false, Bool.false_or] at he
    simp only [h17, if_false, he, if_true]
    exact key _ '-' _ hsub2 (Or.inr rfl)

/-- closed witness on the smallest input: `0.00001` is read as a float, written as `1e-05`, re-read as text -/
theorem small_float_counterexample :
    classify (classify ['0', '.', '0', '0', '0', '0', '1']).fmt = .text ['1', 'e', '-', '0', '5'] ∧
    classify ['0', '.', '0', '0', '0', '0', '1'] = .flt ['0'] ['0', '0', '0', '0', '1'] := by decide

/-! ### a stripped non-empty string starts and ends with a non-blank character -/

theorem rstrip_last (u : Str) (c : Char) (h : (rstrip u).getLast? = some c) : isWs c = false := by
  unfold rstrip at h
  rw [List.getLast?_reverse] at h
  have := List.head?_dropWhile_not isWs u.reverse
  rw [h] at this; exact this

theorem rstrip_prefix (u : Str) : rstrip u <+: u := by
  unfold rstrip
  have := List.dropWhile_suffix (l := u.reverse) isWs
  have h2 := (List.reverse_prefix (l₁ := List.dropWhile isWs u.reverse) (l₂ := u.reverse)).2 this
  simpa using h2

theorem strip_ends (s : Str) (h : strip s = s) (hne : s ≠ []) :
    (∀ c, s.head? = some c → isWs c = false) ∧ (∀ c, s.getLast? = some c → isWs c = false) := by
  constructor
  · intro c hc
    have hpre : rstrip (lstrip s) <+: lstrip s := rstrip_prefix _
    have hne' : rstrip (lstrip s) ≠ [] := by
      have : rstrip (lstrip s) = s := h
      rw [this]; exact hne
    have hh := hpre.head hne'
    have e1 : (rstrip (lstrip s)).head? = some c := by
      have : rstrip (lstrip s) = s := h
      rw [this]; exact hc
    have hl : (lstrip s).head? = some c := by
      have hne2 : lstrip s ≠ [] := by
        intro e; rw [e] at hne'; exact hne' (by simp [rstrip])
      rw [List.head?_eq_some_head hne2, ← hh, ← List.head?_eq_some_head hne']; exact e1
    have := List.head?_dropWhile_not isWs s
    unfold lstrip at hl
    rw [hl] at this; exact this
  · intro c hc
    apply rstrip_last (lstrip s) c
    have : rstrip (lstrip s) = s := h
    rw [this]; exact hc

/-! ### key = value lines -/

theorem classify_space_cons (t : Str) : classify (' ' :: t) = classify t := by
  simp only [classify, strip_space_cons]

theorem eq_not_ws : isWs '=' = false := by decide

theorem goodKey_iff (k : Str) : goodKey k = true ↔ k ≠ [] ∧ strip k = k ∧ '=' ∉ k ∧ (['['].isPrefixOf k) = false := by
  simp [goodKey, List.isEmpty_iff, and_assoc]

/-- reading a written `key = value` line returns the key and the typed printed value -/
theorem parseKV_printKV_gen (k : Str) (v : Val) (hk : goodKey k = true) (hv : '=' ∉ v.fmt) :
    parseKV (printKV k v) = some (k, classify v.fmt) := by
  rw [goodKey_iff] at hk
  obtain ⟨hne, hs, heq, _⟩ := hk
  have e : printKV k v = (k ++ [' ']) ++ '=' :: (' ' :: v.fmt) := by
    simp [printKV, Gen.C17.kvSep]
  have h1 : '=' ∉ k ++ [' '] := by
    intro h; rcases List.mem_append.1 h with h | h
    · exact heq h
    · simp at h
  have h2 : '=' ∉ ' ' :: v.fmt := by
    intro h; rcases List.mem_cons.1 h with h | h
    · cases h
    · exact hv h
  rw [e]
  simp only [parseKV, splitEq_append _ _ h1, splitEq_of_not_mem _ h2, strip_append_space k hs hne, classify_space_cons]

theorem fmt_no_eq (v : Val) (h : stableVal v = true ∨ stableTilt v = true) : '=' ∉ v.fmt := by
  have plain : ∀ i f : Str, canonI i = true → canonF f = true → '=' ∉ i ++ '.' :: f := by
    intro i f hi hf hm
    simp only [canonI, canonF, Bool.and_eq_true] at hi hf
    have hid := (allDigits_iff i).1 hi.1
    have hfd := (allDigits_iff f).1 hf.1
    rcases List.mem_append.1 hm with h | h
    · exact not_mem_of_digits i '=' eq_not_digit hid.2 h
    · rcases List.mem_cons.1 h with h | h
      · cases h
      · exact not_mem_of_digits f '=' eq_not_digit hfd.2 h
  cases v with
  | int ds =>
    rcases h with h | h
    · simp only [stableVal, canonI, Bool.and_eq_true] at h
      exact not_mem_of_digits ds '=' eq_not_digit ((allDigits_iff ds).1 h.1).2
    · simp [stableTilt] at h
  | flt i f =>
    rcases h with h | h
    · simp only [stableVal, Bool.and_eq_true, Bool.not_eq_true'] at h
      simp only [Val.fmt, pyRepr_plain i f h.2]
      exact plain i f h.1.1 h.1.2
    · simp [stableTilt] at h
  | text s =>
    rcases h with h | h
    · simp only [stableVal, Bool.and_eq_true, Bool.not_eq_true', List.contains_eq_mem, decide_eq_false_iff_not] at h
      exact h.2
    · simp [stableTilt] at h
  | tilt n i f =>
    rcases h with h | h
    · simp [stableVal] at h
    · simp only [stableTilt, Bool.and_eq_true, Bool.not_eq_true'] at h
      simp only [Val.fmt, pyRepr_plain i f h.2]
      intro hm
      rcases List.mem_append.1 hm with h' | h'
      · split at h'
        · simp at h'
        · cases h'
      · exact plain i f h.1.1 h.1.2 h'

/-- a written `key = value` line of a stable value reads back as exactly that key and value -/
theorem parseKV_printKV (k : Str) (v : Val) (hk : goodKey k = true) (hv : stableVal v = true) :
    parseKV (printKV k v) = some (k, v) := by
  rw [parseKV_printKV_gen k v hk (fmt_no_eq v (Or.inl hv)), classify_fmt v hv]

/-! ### lines: section starts, blank lines -/

theorem secStart_none (l : Str) (h : (['['].isPrefixOf l) = false) : secStart l = none := by
  cases l with
  | nil => simp [secStart, Gen.C17.sectionPrefixes, List.findSome?, List.isPrefixOf]
  | cons c l =>
    have hc : ('[' == c) = false := by simpa [List.isPrefixOf] using h
    have hc' : ¬ '[' = c := by simpa using hc
    simp [secStart, Gen.C17.sectionPrefixes, List.findSome?, List.isPrefixOf, hc']

def zvalue : Str := ['Z', 'V', 'a', 'l', 'u', 'e']
def frameset : Str := ['F', 'r', 'a', 'm', 'e', 'S', 'e', 't']

theorem secStart_printSec (sid z : Str) (h : sid = zvalue ∨ sid = frameset) : secStart (printSec sid z) = some sid := by
  rcases h with h | h <;> subst h <;>
    simp [secStart, printSec, zvalue, frameset, Gen.C17.sectionPrefixes, Gen.C17.secOpen, Gen.C17.secSep, Gen.C17.secClose,
      List.findSome?, List.isPrefixOf]

theorem prefix_printSec (sid z : Str) : ('[' :: sid).isPrefixOf (printSec sid z) = true := by
  simp only [printSec, Gen.C17.secOpen, List.singleton_append, List.cons_append, List.isPrefixOf_cons_cons, beq_self_eq_true, Bool.true_and]
  induction sid with
  | nil => simp [List.isPrefixOf]
  | cons c s ih => simpa [List.isPrefixOf] using ih

theorem not_blank_of_head (l : Str) (c : Char) (h : l.head? = some c) (hc : isWs c = false) : isBlank l = false := by
  cases l with
  | nil => cases h
  | cons x t =>
    simp at h; subst h
    have h1 : lstrip (x :: t) = x :: t := by simp [lstrip, List.dropWhile, hc]
    have h2 : rstrip (x :: t) ≠ [] := by
      unfold rstrip
      simp only [List.reverse_cons, ne_eq, List.reverse_eq_nil_iff]
      rw [List.dropWhile_append]
      split
      · simp [List.dropWhile, hc]
      · simp
    simp only [isBlank, strip, h1]
    cases hr : rstrip (x :: t) with
    | nil => exact absurd hr h2
    | cons _ _ => rfl

theorem isBlank_nil : isBlank [] = true := by decide

theorem head_printKV (k : Str) (v : Val) (c : Char) (t : Str) (hk : k = c :: t) : (printKV k v).head? = some c := by
  subst hk; simp [printKV]

/-- facts about a written key line used by both the header and the section reader -/
theorem kv_line_facts (k : Str) (v : Val) (hk : goodKey k = true) :
    isBlank (printKV k v) = false ∧ (['['].isPrefixOf (printKV k v)) = false ∧ secStart (printKV k v) = none ∧
    ∀ sid : Str, ('[' :: sid).isPrefixOf (printKV k v) = false := by
  have hk' := (goodKey_iff k).1 hk
  obtain ⟨hne, hs, _, hb⟩ := hk'
  cases k with
  | nil => exact absurd rfl hne
  | cons c t =>
    have hws : isWs c = false := (strip_ends (c :: t) hs hne).1 c rfl
    have hcb : ('[' == c) = false := by simpa [List.isPrefixOf] using hb
    have hp : (['['].isPrefixOf (printKV (c :: t) v)) = false := by simp [printKV, List.isPrefixOf, hcb]
    refine ⟨not_blank_of_head _ c (head_printKV _ v c t rfl) hws, hp, secStart_none _ hp, ?_⟩
    intro sid
    simp [printKV, List.isPrefixOf, hcb]

theorem colName_printKV (k : Str) (v : Val) (hk : goodKey k = true) : colName (printKV k v) = k := by
  rw [goodKey_iff] at hk
  obtain ⟨hne, hs, heq, _⟩ := hk
  have e : printKV k v = (k ++ [' ']) ++ '=' :: (' ' :: v.fmt) := by simp [printKV, Gen.C17.kvSep]
  have h1 : '=' ∉ k ++ [' '] := by
    intro h; rcases List.mem_append.1 h with h | h
    · exact heq h
    · simp at h
  rw [colName, e, splitEq_append _ _ h1]
  simp [strip_append_space k hs hne]

/-! ### header -/

/-- titles the reader returns unchanged: the written line `[t]` is a non-blank title line, not a section start,
and stripping the brackets and blanks gives `t` back (true for every title without leading / trailing
brackets or blanks that does not begin with a section keyword — see `goodTitle_of_clean` examples) -/
def goodTitle (t : Str) : Bool :=
  parseTitle (strip (printTitle t)) == t && (secStart (printTitle t)).isNone && !isBlank (printTitle t)
    && ['['].isPrefixOf (strip (printTitle t))

/-- values that print as something non-empty: their written header line is unchanged by the reader's `strip`
(`strip_printKV`). No longer a well-formedness requirement: `header_line` treats the empty text separately (it is
written as `key = `, stripped to `key =`, and typed as the empty text again). -/
def headerVal (v : Val) : Bool := stableVal v && !v.fmt.isEmpty

theorem classify_text_strip (s : Str) (h : classify s = .text s) : strip s = s := by
  unfold classify at h
  simp only at h
  split at h
  · cases h
  · split at h
    · cases h
    · injection h

theorem fmt_last_not_ws (v : Val) (hs : stableVal v = true) (c : Char) (hc : v.fmt.getLast? = some c) : isWs c = false := by
  cases v with
  | int ds =>
    simp only [stableVal, canonI, Bool.and_eq_true] at hs
    exact isWs_of_isDigit (((allDigits_iff ds).1 hs.1).2 c (List.mem_of_getLast? hc))
  | flt i f =>
    simp only [stableVal, Bool.and_eq_true, Bool.not_eq_true', canonF] at hs
    simp only [Val.fmt, pyRepr_plain i f hs.2] at hc
    have hfd := (allDigits_iff f).1 hs.1.2.1
    have : c ∈ f := by
      rcases List.eq_nil_or_concat f with e | ⟨f', x, e⟩
      · exact absurd e hfd.1
      · subst e
        have e2 : i ++ '.' :: f'.concat x = (i ++ '.' :: f') ++ [x] := by simp
        rw [e2, List.getLast?_concat] at hc
        injection hc with hc; subst hc; simp
    exact isWs_of_isDigit (hfd.2 c this)
  | text s =>
    simp only [stableVal, Bool.and_eq_true, beq_iff_eq] at hs
    have hst := classify_text_strip s hs.1
    simp only [Val.fmt] at hc
    have hne : s ≠ [] := by intro e; subst e; cases hc
    exact (strip_ends s hst hne).2 c hc
  | tilt n i f => simp [stableVal] at hs

theorem strip_printKV (k : Str) (v : Val) (hk : goodKey k = true) (hv : headerVal v = true) : strip (printKV k v) = printKV k v := by
  simp only [headerVal, Bool.and_eq_true, Bool.not_eq_true', List.isEmpty_eq_false_iff] at hv
  have hk' := (goodKey_iff k).1 hk
  obtain ⟨hne, hs, _, _⟩ := hk'
  apply strip_eq_self
  · intro c hc
    cases k with
    | nil => exact absurd rfl hne
    | cons x t =>
      rw [head_printKV _ v x t rfl] at hc
      injection hc with hc; subst hc
      exact (strip_ends (x :: t) hs hne).1 x rfl
  · intro c hc
    cases hl : v.fmt.getLast? with
    | none => simp at hl; exact absurd hl hv.2
    | some x =>
      have : (printKV k v).getLast? = some x := by
        simp [printKV, List.getLast?_append, hl]
      rw [this] at hc; injection hc with hc; subst hc
      exact fmt_last_not_ws v hv.1 x hl

/-- a stable value that prints as nothing is the empty text -/
theorem fmt_nil_text (v : Val) (hs : stableVal v = true) (he : v.fmt = []) : v = .text [] := by
  cases v with
  | int ds =>
    simp only [stableVal, canonI, Bool.and_eq_true] at hs
    simp only [Val.fmt] at he
    exact absurd he ((allDigits_iff ds).1 hs.1).1
  | flt i f =>
    simp only [stableVal, Bool.and_eq_true, Bool.not_eq_true'] at hs
    simp only [Val.fmt, pyRepr_plain i f hs.2] at he
    simp at he
  | text s => simp only [Val.fmt] at he; rw [he]
  | tilt n i f => simp [stableVal] at hs

/-- **a written header line, after the reader's `strip`**, still reads as that key and value — also when the value
prints as nothing (`key = ` is stripped to `key =` and typed as the empty text again) -/
theorem header_line (k : Str) (v : Val) (hk : goodKey k = true) (hv : stableVal v = true) :
    (['['].isPrefixOf (strip (printKV k v))) = false ∧ parseKV (strip (printKV k v)) = some (k, v) := by
  by_cases he : v.fmt = []
  · have hvt := fmt_nil_text v hv he
    subst hvt
    have hk' := (goodKey_iff k).1 hk
    obtain ⟨hne, hs, heq, hb⟩ := hk'
    obtain ⟨hh, _⟩ := strip_ends k hs hne
    have e : printKV k (.text []) = (k ++ [' ', '=']) ++ [' '] := by simp [printKV, Gen.C17.kvSep, Val.fmt]
    have hs2 : strip (k ++ [' ', '=']) = k ++ [' ', '='] := by
      apply strip_eq_self
      · intro c hc
        cases k with
        | nil => exact absurd rfl hne
        | cons x t => simp at hc; subst hc; exact hh x rfl
      · intro c hc
        have : (k ++ [' ', '=']).getLast? = some '=' := by
          have : k ++ [' ', '='] = (k ++ [' ']) ++ ['='] := by simp
          rw [this, List.getLast?_concat]
        rw [this] at hc; injection hc with hc; subst hc; decide
    have hstrip : strip (printKV k (.text [])) = k ++ [' ', '='] := by
      rw [e]; exact strip_append_space _ hs2 (by simp)
    rw [hstrip]
    constructor
    · cases k with
      | nil => exact absurd rfl hne
      | cons x t =>
        have hcb : ('[' == x) = false := by simpa [List.isPrefixOf] using hb
        simp [List.isPrefixOf, hcb]
    · have h1 : '=' ∉ k ++ [' '] := by
        intro h; rcases List.mem_append.1 h with h | h
        · exact heq h
        · simp at h
      have e2 : k ++ [' ', '='] = (k ++ [' ']) ++ '=' :: [] := by simp
      rw [e2]
      simp only [parseKV, splitEq_append _ _ h1, splitEq, strip_append_space k hs hne]
      rfl
  · have hhv : headerVal v = true := by
      simp only [headerVal, Bool.and_eq_true, Bool.not_eq_true', List.isEmpty_eq_false_iff]
      exact ⟨hv, he⟩
    rw [strip_printKV k v hk hhv]
    exact ⟨(kv_line_facts k v hk).2.1, parseKV_printKV k v hk hv⟩

theorem parseHeader_titles : ∀ (ts : List Str), (∀ t ∈ ts, goodTitle t = true) →
    parseHeader (ts.map (fun t => strip (printTitle t))) = some (ts, [])
  | [], _ => rfl
  | t :: ts, h => by
    have ht := h t (by simp)
    simp only [goodTitle, Bool.and_eq_true, beq_iff_eq] at ht
    have ih := parseHeader_titles ts (fun x hx => h x (by simp [hx]))
    simp only [List.map_cons, parseHeader, ih, ht.2, if_true, ht.1.1.1]

theorem parseHeader_info (ts : List Str) (hts : ∀ t ∈ ts, goodTitle t = true) :
    ∀ (info : List (Str × Val)), (∀ kv ∈ info, goodKey kv.1 = true ∧ stableVal kv.2 = true) → (info.map (·.1)).Nodup →
      parseHeader (info.map (fun kv => strip (printKV kv.1 kv.2)) ++ ts.map (fun t => strip (printTitle t))) = some (ts, info)
  | [], _, _ => by simpa using parseHeader_titles ts hts
  | kv :: info, h, hnd => by
    have hkv := h kv (by simp)
    simp only [List.map_cons, List.nodup_cons] at hnd
    have ih := parseHeader_info ts hts info (fun x hx => h x (by simp [hx])) hnd.2
    have hfacts := header_line kv.1 kv.2 hkv.1 hkv.2
    have hany : (info.any (fun e => e.1 == kv.1)) = false := by
      rw [Bool.eq_false_iff]
      intro hc
      simp only [List.any_eq_true, beq_iff_eq] at hc
      obtain ⟨e, he, hek⟩ := hc
      exact hnd.1 (List.mem_map.2 ⟨e, he, hek⟩)
    simp only [List.map_cons, List.cons_append, parseHeader, ih, hfacts.1, Bool.false_eq_true, if_false,
      hfacts.2, hany]

/-! ### sections -/

/-- the lines of one written image section, without the trailing blank line -/
def body (sid : Str) (cols : List Str) (r : Row) : List Str := printSec sid r.z :: List.zipWith printKV cols r.cells

theorem forall_zipWith_printKV (P : Str → Prop) : ∀ (cols : List Str) (cells : List Val),
    (∀ k ∈ cols, ∀ v, P (printKV k v)) → ∀ l ∈ List.zipWith printKV cols cells, P l
  | [], _, _, l, hl => by simp at hl
  | _ :: _, [], _, l, hl => by simp at hl
  | k :: cols, v :: cells, h, l, hl => by
    simp only [List.zipWith_cons_cons, List.mem_cons] at hl
    rcases hl with hl | hl
    · subst hl; exact h k (by simp) v
    · exact forall_zipWith_printKV P cols cells (fun k hk v => h k (by simp [hk]) v) l hl

theorem secGo_kvs (sid : Str) : ∀ (ls : List Str) (cur rest : List Str),
    (∀ l ∈ ls, isBlank l = false ∧ ('[' :: sid).isPrefixOf l = false) →
    secGo ('[' :: sid) cur (ls ++ [] :: rest) = secGo ('[' :: sid) (cur ++ ls) rest
  | [], cur, rest, _ => by
    simp [secGo, List.isPrefixOf, isBlank_nil]
  | l :: ls, cur, rest, h => by
    have hl := h l (by simp)
    have ih := secGo_kvs sid ls (cur ++ [l]) rest (fun x hx => h x (by simp [hx]))
    simp only [List.cons_append, secGo, hl.2, Bool.false_and, Bool.false_eq_true, if_false, hl.1]
    rw [ih]; simp

theorem isBlank_printSec (sid z : Str) : isBlank (printSec sid z) = false :=
  not_blank_of_head _ '[' (by simp [printSec, Gen.C17.secOpen]) (by decide)

theorem secGo_rows (sid : Str) (cols : List Str) (hcols : ∀ k ∈ cols, goodKey k = true) :
    ∀ (rows : List Row) (cur : List Str), cur ≠ [] →
      secGo ('[' :: sid) cur (rows.flatMap (printRow sid cols)) = cur :: rows.map (body sid cols)
  | [], cur, _ => by simp [secGo]
  | r :: rows, cur, hcur => by
    have hk : ∀ l ∈ List.zipWith printKV cols r.cells, isBlank l = false ∧ ('[' :: sid).isPrefixOf l = false :=
      forall_zipWith_printKV _ cols r.cells (fun k hk v => ⟨(kv_line_facts k v (hcols k hk)).1, (kv_line_facts k v (hcols k hk)).2.2.2 sid⟩)
    have hne : cur.isEmpty = false := by cases cur <;> simp_all
    simp only [List.flatMap_cons, printRow, List.cons_append, List.append_assoc, secGo, prefix_printSec, hne,
      Bool.not_false, Bool.and_self, if_true, isBlank_printSec, Bool.false_eq_true, if_false]
    rw [secGo_kvs sid _ _ _ hk]
    have ih := secGo_rows sid cols hcols rows ([printSec sid r.z] ++ List.zipWith printKV cols r.cells) (by simp)
    simp only [List.singleton_append, List.nil_append] at ih ⊢
    rw [ih]; rfl

theorem secGo_top (sid : Str) (cols : List Str) (hcols : ∀ k ∈ cols, goodKey k = true) (r : Row) (rows : List Row) :
    secGo ('[' :: sid) [] ((r :: rows).flatMap (printRow sid cols)) = (r :: rows).map (body sid cols) := by
  have hk : ∀ l ∈ List.zipWith printKV cols r.cells, isBlank l = false ∧ ('[' :: sid).isPrefixOf l = false :=
    forall_zipWith_printKV _ cols r.cells (fun k hk v => ⟨(kv_line_facts k v (hcols k hk)).1, (kv_line_facts k v (hcols k hk)).2.2.2 sid⟩)
  simp only [List.flatMap_cons, printRow, List.cons_append, List.append_assoc, secGo, List.isEmpty_nil, Bool.not_true, Bool.and_false,
    Bool.false_eq_true, if_false, isBlank_printSec, List.nil_append]
  rw [secGo_kvs sid _ _ _ hk]
  have ih := secGo_rows sid cols hcols rows ([printSec sid r.z] ++ List.zipWith printKV cols r.cells) (by simp)
  simp only [List.singleton_append, List.nil_append] at ih ⊢
  rw [ih]; rfl

/-! ### one section → one row -/

def stableCell (k : Str) (v : Val) : Bool := if k == Gen.C17.tiltKey then stableTilt v else stableVal v

theorem convTilt_classify_fmt (k : Str) (v : Val) (h : stableCell k v = true) : convTilt (k, classify v.fmt) = some v := by
  unfold stableCell at h
  unfold convTilt
  by_cases hk : (k == Gen.C17.tiltKey) = true
  · simp only [hk, if_true] at h ⊢
    exact toTilt_classify_fmt v h
  · have hk' : (k == Gen.C17.tiltKey) = false := by simpa using hk
    simp only [hk', Bool.false_eq_true, if_false] at h ⊢
    rw [classify_fmt v h]

theorem body_parse : ∀ (cols : List Str) (cells : List Val), cells.length = cols.length →
    (∀ k ∈ cols, goodKey k = true) → cols.Nodup → (∀ p ∈ cols.zip cells, stableCell p.1 p.2 = true) →
    ∃ kvs, parseBody (List.zipWith printKV cols cells) = some kvs ∧ kvs.map (·.1) = cols ∧ kvs.mapM convTilt = some cells
  | [], [], _, _, _, _ => ⟨[], rfl, rfl, rfl⟩
  | [], _ :: _, h, _, _, _ => by simp at h
  | _ :: _, [], h, _, _, _ => by simp at h
  | k :: cols, v :: cells, hlen, hk, hnd, hst => by
    simp only [List.nodup_cons] at hnd
    obtain ⟨kvs, hb, hm, hc⟩ := body_parse cols cells (by simpa using hlen) (fun x hx => hk x (by simp [hx])) hnd.2
      (fun p hp => hst p (by simp [hp]))
    have hcell : stableCell k v = true := hst (k, v) (by simp)
    have hne : '=' ∉ v.fmt := by
      apply fmt_no_eq
      unfold stableCell at hcell
      split at hcell
      · exact Or.inr hcell
      · exact Or.inl hcell
    have hkk := hk k (by simp)
    have hany : (kvs.any (fun e => e.1 == k)) = false := by
      rw [Bool.eq_false_iff]
      intro h
      simp only [List.any_eq_true, beq_iff_eq] at h
      obtain ⟨e, he, hek⟩ := h
      apply hnd.1
      rw [← hm]; exact List.mem_map.2 ⟨e, he, hek⟩
    refine ⟨(k, classify v.fmt) :: kvs, ?_, by simp [hm], ?_⟩
    · simp only [List.zipWith_cons_cons, parseBody, hb, (kv_line_facts k v hkk).2.1, Bool.false_eq_true, if_false,
        parseKV_printKV_gen k v hkk hne, hany]
    · rw [List.mapM_cons, convTilt_classify_fmt k v hcell, hc]; rfl

theorem stripCh_bracket (z : Str) (hz : ∀ c ∈ z, c.isDigit = true) : stripCh ']' (z ++ [']']) = z := by
  have hne : ∀ c : Char, c.isDigit = true → (c == ']') = false := by
    intro c hc
    simp only [beq_eq_false_iff_ne, ne_eq]; intro e; subst e; revert hc; decide
  have h1 : (z ++ [']']).dropWhile (· == ']') = z ++ [']'] ∨ z = [] := by
    cases z with
    | nil => exact Or.inr rfl
    | cons c t => left; simp [List.dropWhile, hne c (hz c (by simp))]
  rcases h1 with h1 | h1
  · unfold stripCh
    rw [h1]
    have e1 : (z ++ [']']).reverse = ']' :: z.reverse := by simp
    rw [e1, List.dropWhile_cons_of_pos (by rfl)]
    rw [dropWhile_eq_self z.reverse ?_, List.reverse_reverse]
    intro c hc
    have : c ∈ z := List.mem_reverse.1 (List.mem_of_mem_head? hc)
    exact hne c (hz c this)
  · subst h1; decide

theorem parseSecValue_printSec (sid z : Str) (hs : sid = zvalue ∨ sid = frameset) (hz : canonI z = true) :
    parseSecValue (printSec sid z) = some z := by
  simp only [canonI, Bool.and_eq_true] at hz
  have hd := (allDigits_iff z).1 hz.1
  have e : printSec sid z = ('[' :: sid ++ [' ']) ++ '=' :: (' ' :: z ++ [']']) := by
    simp [printSec, Gen.C17.secOpen, Gen.C17.secSep, Gen.C17.secClose]
  have h1 : '=' ∉ '[' :: sid ++ [' '] := by
    rcases hs with h | h <;> subst h <;> decide
  have h2 : '=' ∉ ' ' :: z ++ [']'] := by
    intro h
    simp only [List.cons_append, List.mem_cons, List.mem_append, List.not_mem_nil, or_false] at h
    rcases h with h | h | h
    · cases h
    · exact not_mem_of_digits z '=' eq_not_digit hd.2 h
    · cases h
  have h3 : strip (' ' :: z ++ [']']) = z ++ [']'] := by
    have : ' ' :: z ++ [']'] = ' ' :: (z ++ [']']) := rfl
    rw [this, strip_space_cons]
    apply strip_eq_self
    · intro c hc
      cases z with
      | nil => exact absurd rfl hd.1
      | cons x t => simp at hc; subst hc; exact isWs_of_isDigit (hd.2 x (by simp))
    · intro c hc
      simp at hc; subst hc; decide
  rw [e]
  simp only [parseSecValue, splitEq_append _ _ h1, splitEq_of_not_mem _ h2, h3, stripCh_bracket z hd.2,
    strip_digits z (fun c hc => isWs_of_isDigit (hd.2 c hc))]

def goodRow (cols : List Str) (r : Row) : Bool :=
  canonI r.z && r.cells.length == cols.length && (cols.zip r.cells).all (fun p => stableCell p.1 p.2)

theorem mkRow_body (sid : Str) (cols : List Str) (r : Row) (hs : sid = zvalue ∨ sid = frameset)
    (hk : ∀ k ∈ cols, goodKey k = true) (hnd : cols.Nodup) (hr : goodRow cols r = true) :
    mkRow cols (body sid cols r) = some { r with removed := false } := by
  simp only [goodRow, Bool.and_eq_true, beq_iff_eq, List.all_eq_true] at hr
  obtain ⟨⟨hz, hlen⟩, hcells⟩ := hr
  obtain ⟨kvs, hb, hm, hc⟩ := body_parse cols r.cells hlen hk hnd hcells
  have hz' := hz
  simp only [canonI, Bool.and_eq_true, beq_iff_eq] at hz'
  simp only [body, mkRow, parseSecValue_printSec sid r.z hs hz, hb, hz'.1, Bool.not_true, Bool.false_eq_true, if_false, hm,
    bne_self_eq_false, hc, hz'.2]

theorem mapM_mkRow (sid : Str) (cols : List Str) (hs : sid = zvalue ∨ sid = frameset)
    (hk : ∀ k ∈ cols, goodKey k = true) (hnd : cols.Nodup) :
    ∀ (rows : List Row), (∀ r ∈ rows, goodRow cols r = true) →
      (rows.map (body sid cols)).mapM (mkRow cols) = some (rows.map (fun r => { r with removed := false }))
  | [], _ => rfl
  | r :: rows, h => by
    rw [List.map_cons, List.mapM_cons, mkRow_body sid cols r hs hk hnd (h r (by simp)),
      mapM_mkRow sid cols hs hk hnd rows (fun x hx => h x (by simp [hx]))]
    rfl

theorem map_colName_zipWith : ∀ (cols : List Str) (cells : List Val), cells.length = cols.length →
    (∀ k ∈ cols, goodKey k = true) → (List.zipWith printKV cols cells).map colName = cols
  | [], [], _, _ => rfl
  | [], _ :: _, h, _ => by simp at h
  | _ :: _, [], h, _ => by simp at h
  | k :: cols, v :: cells, h, hk => by
    simp only [List.zipWith_cons_cons, List.map_cons, colName_printKV k v (hk k (by simp)),
      map_colName_zipWith cols cells (by simpa using h) (fun x hx => hk x (by simp [hx]))]

/-! ### the whole file -/

theorem takeWhile_dropWhile_stop {α : Type} (P : α → Bool) : ∀ (A : List α) (d : α) (rest : List α),
    (∀ x ∈ A, P x = true) → P d = false →
    (A ++ d :: rest).takeWhile P = A ∧ (A ++ d :: rest).dropWhile P = d :: rest
  | [], d, rest, _, hd => by simp [List.takeWhile, List.dropWhile, hd]
  | a :: A, d, rest, hA, hd => by
    obtain ⟨h1, h2⟩ := takeWhile_dropWhile_stop P A d rest (fun x hx => hA x (by simp [hx])) hd
    have ha := hA a (by simp)
    simp [List.takeWhile, List.dropWhile, ha, h1, h2]

theorem filter_titles : ∀ (ts : List Str), (∀ t ∈ ts, goodTitle t = true) →
    (ts.flatMap (fun t => [printTitle t, []])).filter (fun l => !isBlank l) = ts.map printTitle
  | [], _ => rfl
  | t :: ts, h => by
    have ht := h t (by simp)
    simp only [goodTitle, Bool.and_eq_true, Bool.not_eq_true'] at ht
    have ih := filter_titles ts (fun x hx => h x (by simp [hx]))
    simp only [List.flatMap_cons, List.cons_append, List.nil_append, List.filter_cons, ht.1.2, Bool.not_false, if_true,
      isBlank_nil, Bool.not_true, Bool.false_eq_true, if_false, ih, List.map_cons]

/-- well-formedness of an Mdoc object: what the reader itself produces for files of the grammar -/
structure WF (m : Mdoc) : Prop where
  info : ∀ kv ∈ m.info, goodKey kv.1 = true ∧ stableVal kv.2 = true
  infoNodup : (m.info.map (·.1)).Nodup
  titles : ∀ t ∈ m.titles, goodTitle t = true
  sid : m.sid = zvalue ∨ m.sid = frameset
  colKeys : ∀ k ∈ m.cols, goodKey k = true
  colNodup : m.cols.Nodup
  hasTilt : Gen.C17.tiltKey ∈ m.cols
  rows : ∀ r ∈ m.rows, goodRow m.cols r = true

theorem parse_print (m : Mdoc) (h : WF m) (rows : List Row) (hsub : ∀ r ∈ rows, r ∈ m.rows) (hne : rows ≠ []) :
    parseMdoc (m.info.map (fun kv : Str × Val => printKV kv.1 kv.2) ++ [[]] ++ m.titles.flatMap (fun t => [printTitle t, []])
        ++ rows.flatMap (printRow m.sid m.cols))
      = some { m with rows := rows.map (fun r => { r with removed := false }) } := by
  cases rows with
  | nil => exact absurd rfl hne
  | cons r0 rs =>
    have hrows : ∀ r ∈ r0 :: rs, goodRow m.cols r = true := fun r hr => h.rows r (hsub r hr)
    -- the header part contains no section start, the data part begins with one
    have hA : ∀ x ∈ m.info.map (fun kv : Str × Val => printKV kv.1 kv.2) ++ [[]] ++ m.titles.flatMap (fun t => [printTitle t, []]),
        (secStart x).isNone = true := by
      intro x hx
      simp only [List.mem_append, List.mem_map, List.mem_cons, List.not_mem_nil, or_false, List.mem_flatMap] at hx
      rcases hx with (⟨kv, hkv, rfl⟩ | rfl) | ⟨t, ht, hx⟩
      · rw [(kv_line_facts kv.1 kv.2 (h.info kv hkv).1).2.2.1]; rfl
      · rw [secStart_none [] (by decide)]; rfl
      · rcases hx with rfl | rfl
        · have := h.titles t ht
          simp only [goodTitle, Bool.and_eq_true] at this
          exact this.1.1.2
        · rw [secStart_none [] (by decide)]; rfl
    have hD : (r0 :: rs).flatMap (printRow m.sid m.cols)
        = printSec m.sid r0.z :: (List.zipWith printKV m.cols r0.cells ++ [[]] ++ rs.flatMap (printRow m.sid m.cols)) := by
      simp [printRow]
    have hd : (secStart (printSec m.sid r0.z)).isNone = false := by
      rw [secStart_printSec m.sid r0.z h.sid]; rfl
    obtain ⟨htw, hdw⟩ := takeWhile_dropWhile_stop (fun l => (secStart l).isNone) _ (printSec m.sid r0.z)
      (List.zipWith printKV m.cols r0.cells ++ [[]] ++ rs.flatMap (printRow m.sid m.cols)) hA hd
    -- header lines
    have hfilter : ((m.info.map (fun kv : Str × Val => printKV kv.1 kv.2) ++ [[]] ++ m.titles.flatMap (fun t => [printTitle t, []])).filter
        (fun l => !isBlank l)).map strip
        = m.info.map (fun kv : Str × Val => strip (printKV kv.1 kv.2)) ++ m.titles.map (fun t => strip (printTitle t)) := by
      rw [List.filter_append, List.filter_append, filter_titles m.titles h.titles]
      have h1 : (m.info.map (fun kv : Str × Val => printKV kv.1 kv.2)).filter (fun l => !isBlank l) = m.info.map (fun kv : Str × Val => printKV kv.1 kv.2) := by
        apply List.filter_eq_self.2
        intro l hl
        obtain ⟨kv, hkv, rfl⟩ := List.mem_map.1 hl
        rw [(kv_line_facts kv.1 kv.2 (h.info kv hkv).1).1]; rfl
      have h2 : ([[]] : List Str).filter (fun l => !isBlank l) = [] := by decide
      rw [h1, h2, List.append_nil, List.map_append, List.map_map, List.map_map]
      rfl
    have hcols : ((body m.sid m.cols r0).drop 1).map colName = m.cols := by
      have hr0 := hrows r0 (by simp)
      simp only [goodRow, Bool.and_eq_true, beq_iff_eq] at hr0
      simpa [body] using map_colName_zipWith m.cols r0.cells hr0.1.2 h.colKeys
    have hcontains : m.cols.contains Gen.C17.tiltKey = true := by simpa using h.hasTilt
    unfold parseMdoc
    rw [← hD] at htw hdw
    simp only [htw, hdw, hfilter]
    rw [hD]
    simp only [secStart_printSec m.sid r0.z h.sid, parseHeader_info m.titles h.titles m.info h.info h.infoNodup]
    rw [← hD, secGo_top m.sid m.cols h.colKeys r0 rs]
    simp only [List.map_cons, hcols, hcontains, Bool.not_true, Bool.false_eq_true, if_false]
    have := mapM_mkRow m.sid m.cols h.sid h.colKeys h.colNodup (r0 :: rs) hrows
    simp only [List.map_cons] at this
    rw [this]

/-! ### the hypotheses as one executable test (run by the driver on every generated file) -/

def wfb (m : Mdoc) : Bool :=
  m.info.all (fun kv => goodKey kv.1 && stableVal kv.2) && decide ((m.info.map (·.1)).Nodup) && m.titles.all goodTitle &&
  (m.sid == zvalue || m.sid == frameset) && m.cols.all goodKey && decide m.cols.Nodup && m.cols.contains Gen.C17.tiltKey &&
  m.rows.all (goodRow m.cols)

theorem wf_of_wfb (m : Mdoc) (h : wfb m = true) : WF m := by
  simp only [wfb, Bool.and_eq_true, List.all_eq_true, decide_eq_true_eq, Bool.or_eq_true, beq_iff_eq, List.contains_eq_mem] at h
  obtain ⟨⟨⟨⟨⟨⟨⟨h1, h2⟩, h3⟩, h4⟩, h5⟩, h6⟩, h7⟩, h8⟩ := h
  exact ⟨h1, h2, h3, h4, h5, h6, h7, h8⟩

/-! ### what the reader returns is a fresh table -/

theorem mkRow_fresh (cols : List Str) (sec : List Str) (r : Row) (h : mkRow cols sec = some r) : r.removed = false := by
  unfold mkRow at h
  split at h
  · cases h
  · split at h
    · split at h
      · cases h
      · split at h
        · cases h
        · split at h
          · injection h with h; subst h; rfl
          · cases h
    · cases h

theorem parse_rows_fresh (lines : List Str) (m : Mdoc) (h : parseMdoc lines = some m) :
    m.rows ≠ [] ∧ ∀ r ∈ m.rows, r.removed = false := by
  unfold parseMdoc at h
  simp only at h
  split at h
  · cases h
  · split at h
    · split at h
      · cases h
      · split at h
        · cases h
        · split at h
          · rename_i s0 tl hsec _ _ rows hm
            injection h with h; subst h
            obtain ⟨hlen, hget⟩ := mapM_some_spec _ _ rows hm
            constructor
            · intro e
              simp only at e
              rw [e, hsec] at hlen; simp at hlen
            · intro r hr
              simp only at hr
              obtain ⟨i, hi, hri⟩ := List.getElem_of_mem hr
              have hi' := hlen ▸ hi
              obtain ⟨b, hb, hf⟩ := hget i _ (List.getElem?_eq_getElem hi')
              rw [List.getElem?_eq_getElem hi] at hb
              injection hb with hb
              rw [hri] at hb; subst hb
              exact mkRow_fresh _ _ _ hf
          · cases h
    · cases h

end CryoCat.C17
