import CryoCat.Model.C13
import Mathlib.Algebra.Order.Field.Basic
import Mathlib.Algebra.Order.BigOperators.Ring.List
import Mathlib.Algebra.BigOperators.Group.List.Basic
import Mathlib.Algebra.BigOperators.Ring.List
import Mathlib.Algebra.Order.Ring.Abs
import Mathlib.Tactic.Ring
import Mathlib.Tactic.Linarith
import Mathlib.Tactic.Positivity
/-! C13 — the kernel model `blurAt` (`Model/C13.lean`): list forms of "weighted mean stays in [0,1]" and
"falls short of 1 by at most the weight on voxels that may differ from 1"; `mode="nearest"` reads a
voxel that lies between the centre voxel and the unclamped one. -/
namespace CryoCat.C13

section
variable {ι α : Type} [Field α] [LinearOrder α] [IsStrictOrderedRing α]

theorem list_conv_nonneg (l : List ι) (w x : ι → α) (hw : ∀ q ∈ l, 0 ≤ w q) (hx : ∀ q ∈ l, 0 ≤ x q) :
    0 ≤ (l.map fun q => w q * x q).sum := by
  induction l with
  | nil => simp
  | cons a l ih =>
    have := ih (fun q hq => hw q (List.mem_cons_of_mem _ hq)) (fun q hq => hx q (List.mem_cons_of_mem _ hq))
    have h1 := hw a (List.mem_cons_self ..)
    have h2 := hx a (List.mem_cons_self ..)
    simp only [List.map_cons, List.sum_cons]
    have : 0 ≤ w a * x a := mul_nonneg h1 h2
    linarith

theorem list_conv_le (l : List ι) (w x : ι → α) (hw : ∀ q ∈ l, 0 ≤ w q) (hx : ∀ q ∈ l, x q ≤ 1) :
    (l.map fun q => w q * x q).sum ≤ (l.map w).sum := by
  induction l with
  | nil => simp
  | cons a l ih =>
    have := ih (fun q hq => hw q (List.mem_cons_of_mem _ hq)) (fun q hq => hx q (List.mem_cons_of_mem _ hq))
    have h1 := hw a (List.mem_cons_self ..)
    have h2 := hx a (List.mem_cons_self ..)
    simp only [List.map_cons, List.sum_cons]
    nlinarith

/-- the weighted mean falls short of the total weight by at most the weight of the offsets flagged `bad`,
when every other offset sees the value 1 -/
theorem list_deficit (l : List ι) (w x : ι → α) (bad : ι → Bool) (hw : ∀ q ∈ l, 0 ≤ w q)
    (hx : ∀ q ∈ l, 0 ≤ x q ∧ x q ≤ 1) (hbad : ∀ q ∈ l, bad q = false → x q = 1) :
    (l.map w).sum - (l.map fun q => w q * x q).sum ≤ ((l.filter bad).map w).sum := by
  induction l with
  | nil => simp
  | cons a l ih =>
    have ih' := ih (fun q hq => hw q (List.mem_cons_of_mem _ hq)) (fun q hq => hx q (List.mem_cons_of_mem _ hq))
      (fun q hq => hbad q (List.mem_cons_of_mem _ hq))
    have hwa := hw a (List.mem_cons_self ..)
    have hxa := hx a (List.mem_cons_self ..)
    cases hb : bad a
    · have h1 : x a = 1 := hbad a (List.mem_cons_self ..) hb
      simp only [List.map_cons, List.sum_cons, List.filter_cons, hb, h1, mul_one]
      simp only [Bool.false_eq_true, if_false]
      linarith
    · simp only [List.map_cons, List.sum_cons, List.filter_cons, hb, if_true]
      nlinarith [hxa.1, hxa.2]

/-- conversely, the weighted mean falls short of the total weight by at least the weight of the offsets (flagged `P`)
that see the value 0 -/
theorem list_deficit_ge (l : List ι) (w x : ι → α) (P : ι → Bool) (hw : ∀ q ∈ l, 0 ≤ w q)
    (hx : ∀ q ∈ l, 0 ≤ x q ∧ x q ≤ 1) (hP : ∀ q ∈ l, P q = true → x q = 0) :
    ((l.filter P).map w).sum ≤ (l.map w).sum - (l.map fun q => w q * x q).sum := by
  induction l with
  | nil => simp
  | cons a l ih =>
    have ih' := ih (fun q hq => hw q (List.mem_cons_of_mem _ hq)) (fun q hq => hx q (List.mem_cons_of_mem _ hq))
      (fun q hq => hP q (List.mem_cons_of_mem _ hq))
    have hwa := hw a (List.mem_cons_self ..)
    have hxa := hx a (List.mem_cons_self ..)
    cases hb : P a
    · simp only [List.map_cons, List.sum_cons, List.filter_cons, hb, Bool.false_eq_true, if_false]
      nlinarith [hxa.1, hxa.2]
    · have h0 : x a = 0 := hP a (List.mem_cons_self ..) hb
      simp only [List.map_cons, List.sum_cons, List.filter_cons, hb, if_true, h0, mul_zero]
      linarith

end

/-- `mode="nearest"` on an axis of length `n`, read from a voxel `i` of the box at offset `t`: the voxel read is
`i + t'` with `t'` between 0 and `t` -/
theorem clampIdx_between (n : Nat) (i t : Int) (hi0 : 0 ≤ i) (hi1 : i < (n : Int)) :
    ∃ t' : Int, clampIdx n (i + t) = i + t' ∧ t' * t' ≤ t * t ∧ 0 ≤ i + t' ∧ i + t' < (n : Int) := by
  refine ⟨clampIdx n (i + t) - i, by ring, ?_, ?_, ?_⟩
  · have h : (0 ≤ t ∧ 0 ≤ clampIdx n (i + t) - i ∧ clampIdx n (i + t) - i ≤ t) ∨
        (t ≤ 0 ∧ t ≤ clampIdx n (i + t) - i ∧ clampIdx n (i + t) - i ≤ 0) := by
      unfold clampIdx; omega
    rcases h with ⟨a, b, c⟩ | ⟨a, b, c⟩ <;> nlinarith
  · unfold clampIdx; omega
  · unfold clampIdx; omega

theorem mem_cube_iff (R : Nat) (q : Int × Int × Int) :
    q ∈ cube R ↔ (-(R : Int) ≤ q.1 ∧ q.1 ≤ R) ∧ (-(R : Int) ≤ q.2.1 ∧ q.2.1 ≤ R) ∧ (-(R : Int) ≤ q.2.2 ∧ q.2.2 ≤ R) := by
  obtain ⟨a, b, c⟩ := q
  simp only [cube, axis, List.mem_flatMap, List.mem_map, List.mem_range, Prod.mk.injEq]
  constructor
  · rintro ⟨a', ⟨ta, hta, rfl⟩, b', ⟨tb, htb, rfl⟩, c', ⟨tc, htc, rfl⟩, rfl, rfl, rfl⟩
    omega
  · rintro ⟨⟨h1, h2⟩, ⟨h3, h4⟩, h5, h6⟩
    exact ⟨a, ⟨(a + R).toNat, by omega, by omega⟩, b, ⟨(b + R).toNat, by omega, by omega⟩, c, ⟨(c + R).toNat, by omega, by omega⟩, rfl, rfl, rfl⟩

section
variable {α : Type} [Field α]

theorem sum_map_flatMap {β γ : Type} (l : List β) (g : β → List γ) (f : γ → α) :
    ((l.flatMap g).map f).sum = (l.map fun b => ((g b).map f).sum).sum := by
  induction l with
  | nil => simp
  | cons a l ih => simp [List.flatMap_cons, List.map_append, List.sum_append, ih]

/-- a separable kernel: the total weight over `[-R,R]³` is the cube of the total 1-D weight -/
theorem cube_weight_sum (R : Nat) (w1 : Int → α) :
    ((cube R).map (w3 w1)).sum = ((axis R).map w1).sum * ((axis R).map w1).sum * ((axis R).map w1).sum := by
  have e : cube R = (axis R).flatMap fun a => (axis R).flatMap fun b => (axis R).map fun c => (a, b, c) := rfl
  rw [e, sum_map_flatMap]
  simp only [sum_map_flatMap, List.map_map, Function.comp_def, w3]
  simp only [List.sum_map_mul_left, List.sum_map_mul_right]

/-- so 1-D weights of total 1 (what `gaussian_filter1d` normalises to) give a 3-D kernel of total 1 -/
theorem cube_weight_sum_one (R : Nat) (w1 : Int → α) (h : ((axis R).map w1).sum = 1) : ((cube R).map (w3 w1)).sum = 1 := by
  rw [cube_weight_sum, h]; ring
end

end CryoCat.C13
