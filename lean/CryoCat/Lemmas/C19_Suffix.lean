import CryoCat.Lemmas.C19_WN
/-! C19 — `add_chain_suffix` preserves `ChainsWellNumbered` and the link invariant.
The table before the call is `T0 = nfm ++ ch0` (`ch0` the freshly traced chain with the unused
object id `cls`); each branch of `addSuffix` is one relabelling `F` of `T0`. -/
namespace CryoCat.C19
set_option linter.unusedSectionVars false
variable {α : Type} [LE α] [LT α] [DecidableLE α] [DecidableLT α] [DecidableEq α]

/-- suffix attach, the target is the last member of its chain -/
def fSufKeep (cls g top : Int) (j : Nat) (dj : α) (r : Row α) : Row α :=
  if r.obj = cls then { r with obj := g, ord := r.ord + top }
  else if r.idx = j then { r with dist := dj } else r

/-- suffix attach with tail cut after order `a` -/
def fSufCut (cls g a : Int) (j : Nat) (dj : α) (r : Row α) : Row α :=
  if r.obj = cls then { r with obj := g, ord := r.ord + a }
  else
    let r1 : Row α := if r.obj = g ∧ a < r.ord then { r with obj := cls, ord := r.ord + -a } else r
    if r1.idx = j then { r1 with dist := dj } else r1

theorem fSufKeep_idx (cls g top : Int) (j : Nat) (dj : α) (r : Row α) : (fSufKeep cls g top j dj r).idx = r.idx := by
  unfold fSufKeep; split
  · rfl
  · split <;> rfl

theorem fSufCut_idx (cls g a : Int) (j : Nat) (dj : α) (r : Row α) : (fSufCut cls g a j dj r).idx = r.idx := by
  unfold fSufCut; split
  · rfl
  · dsimp only; split <;> split <;> rfl

theorem fSufKeep_wn {T : List (Row α)} {K : Int → Int} {cc : Int} (hT : WN T K cc) (cls g : Int) (j : Nat) (dj : α)
    (t : Row α) (ht : t ∈ T) (hg : t.obj = g) (hgc : g ≠ cls) (c0 : Row α) (hc0 : c0 ∈ T) (hc0o : c0.obj = cls) :
    WN (T.map (fSufKeep cls g (K g) j dj)) (fun x => if x = g then K g + K cls else K x) cc := by
  have hKt := hT.ordA t ht
  have hKc := hT.ordA c0 hc0
  have hrt := hT.rng t ht
  apply hT.map _ _ _ (fSufKeep_idx cls g (K g) j dj)
  · intro r hr
    have h1 := hT.rng r hr
    have h2 := hT.ordA r hr
    unfold fSufKeep
    grind
  · intro r hr r' hr'
    have h2 := hT.ordA r hr
    have h2' := hT.ordA r' hr'
    unfold fSufKeep
    grind
  · intro r hr k hk1
    have h2 := hT.ordA r hr
    by_cases ho : r.obj = cls ∨ r.obj = g
    · have e : (fSufKeep cls g (K g) j dj r).obj = g := by unfold fSufKeep; grind
      rw [e]; simp only [if_true]
      intro hk2
      by_cases hk : k ≤ K g
      · obtain ⟨r0, hr0, e1, e2⟩ := hT.surj t ht k hk1 (by rw [hg]; exact hk)
        refine ⟨r0, hr0, ?_, ?_⟩ <;> unfold fSufKeep <;> grind
      · obtain ⟨r0, hr0, e1, e2⟩ := hT.surj c0 hc0 (k - K g) (by omega) (by rw [hc0o]; omega)
        refine ⟨r0, hr0, ?_, ?_⟩ <;> unfold fSufKeep <;> grind
    · have e : (fSufKeep cls g (K g) j dj r).obj = r.obj := by unfold fSufKeep; grind
      rw [e]
      have : r.obj ≠ g := by grind
      simp only [if_neg this]
      intro hk2
      obtain ⟨r0, hr0, e1, e2⟩ := hT.surj r hr k hk1 hk2
      refine ⟨r0, hr0, ?_, ?_⟩ <;> unfold fSufKeep <;> grind

theorem fSufCut_wn {T : List (Row α)} {K : Int → Int} {cc : Int} (hT : WN T K cc) (cls g : Int) (j : Nat) (dj : α)
    (t : Row α) (ht : t ∈ T) (hg : t.obj = g) (hgc : g ≠ cls) (_hlt : t.ord < K g)
    (c0 : Row α) (hc0 : c0 ∈ T) (hc0o : c0.obj = cls) :
    WN (T.map (fSufCut cls g t.ord j dj))
      (fun x => if x = g then t.ord + K cls else if x = cls then K g - t.ord else K x) cc := by
  have hKt := hT.ordA t ht
  have hKc := hT.ordA c0 hc0
  have hrt := hT.rng t ht
  have hrc := hT.rng c0 hc0
  apply hT.map _ _ _ (fSufCut_idx cls g t.ord j dj)
  · intro r hr
    have h1 := hT.rng r hr
    have h2 := hT.ordA r hr
    unfold fSufCut
    grind
  · intro r hr r' hr'
    have h2 := hT.ordA r hr
    have h2' := hT.ordA r' hr'
    unfold fSufCut
    grind
  · intro r hr k hk1
    have h2 := hT.ordA r hr
    by_cases ho : (fSufCut cls g t.ord j dj r).obj = g
    · rw [ho]; simp only [if_true]
      intro hk2
      by_cases hk : k ≤ t.ord
      · obtain ⟨r0, hr0, e1, e2⟩ := hT.surj t ht k hk1 (by omega)
        refine ⟨r0, hr0, ?_, ?_⟩ <;> unfold fSufCut <;> grind
      · obtain ⟨r0, hr0, e1, e2⟩ := hT.surj c0 hc0 (k - t.ord) (by omega) (by rw [hc0o]; omega)
        refine ⟨r0, hr0, ?_, ?_⟩ <;> unfold fSufCut <;> grind
    · by_cases ho2 : (fSufCut cls g t.ord j dj r).obj = cls
      · rw [ho2]; simp only [if_neg hgc.symm, if_true]
        intro hk2
        obtain ⟨r0, hr0, e1, e2⟩ := hT.surj t ht (k + t.ord) (by omega) (by rw [hg]; omega)
        refine ⟨r0, hr0, ?_, ?_⟩ <;> unfold fSufCut <;> grind
      · have e : (fSufCut cls g t.ord j dj r).obj = r.obj := by unfold fSufCut at ho ho2 ⊢; grind
        simp only [if_neg ho, if_neg ho2]
        rw [e]
        intro hk2
        obtain ⟨r0, hr0, e1, e2⟩ := hT.surj r hr k hk1 hk2
        refine ⟨r0, hr0, ?_, ?_⟩ <;> unfold fSufCut at ho ho2 e ⊢ <;> grind

/-! ### links -/

theorem fSufKeep_dl {o : Opts} {c : Cfg α} {T : List (Row α)} {K : Int → Int} {cc : Int} (hT : WN T K cc)
    (hnd : (ids T).Nodup) (hD : DL o c T) (cls g : Int) (j : Nat) (dj : α)
    (t : Row α) (ht : t ∈ T) (hg : t.obj = g) (_hgc : g ≠ cls) (htj : t.idx = j) (hlast : t.ord = K g)
    (c1 : Row α) (hc1 : c1 ∈ T) (hc1o : c1.obj = cls) (hc1k : c1.ord = 1)
    (hdj : dj = c.d j c1.idx ∧ inWin o c (c.d j c1.idx) = true) :
    DL o c (T.map (fSufKeep cls g (K g) j dj)) := by
  apply DL.map _ (fSufKeep_idx cls g (K g) j dj)
  intro r hr r' hr'
  have h2 := hT.ordA r hr
  have h2' := hT.ordA r' hr'
  have hi1 := hT.inj r hr t ht
  have hi2 := hT.inj r' hr' c1 hc1
  have hx1 : r.idx = t.idx → r = t := idx_inj_of_nodup hnd hr ht
  have hd := hD r hr r' hr'
  unfold fSufKeep
  grind

theorem fSufCut_dl {o : Opts} {c : Cfg α} {T : List (Row α)} {K : Int → Int} {cc : Int} (hT : WN T K cc)
    (hnd : (ids T).Nodup) (hD : DL o c T) (cls g : Int) (j : Nat) (dj : α)
    (t : Row α) (ht : t ∈ T) (hg : t.obj = g) (hgc : g ≠ cls) (htj : t.idx = j)
    (c1 : Row α) (hc1 : c1 ∈ T) (hc1o : c1.obj = cls) (hc1k : c1.ord = 1)
    (hdj : dj = c.d j c1.idx ∧ inWin o c (c.d j c1.idx) = true) :
    DL o c (T.map (fSufCut cls g t.ord j dj)) := by
  apply DL.map _ (fSufCut_idx cls g t.ord j dj)
  intro r hr r' hr'
  have h2 := hT.ordA r hr
  have h2' := hT.ordA r' hr'
  have hi1 := hT.inj r hr t ht
  have hi2 := hT.inj r' hr' c1 hc1
  have hx1 : r.idx = t.idx → r = t := idx_inj_of_nodup hnd hr ht
  have hd := hD r hr r' hr'
  unfold fSufCut
  grind

/-! ### the call `add_chain_suffix` -/

/-- the state between `add_chain_suffix` and `add_chain_prefix`: table `A`, new chain `C` (all of
object `gc`, on top of it: its last row carries the object's highest order number), together well
numbered and correctly linked -/
structure Mid (o : Opts) (c : Cfg α) (A C : List (Row α)) (K : Int → Int) (cc gc : Int) (lastIdx : Nat) : Prop where
  wn : WN (A ++ C) K cc
  nd : (ids (A ++ C)).Nodup
  dl : DL o c (A ++ C)
  cobj : ∀ r ∈ C, r.obj = gc
  ctop : ∃ r ∈ C, r.ord = K gc ∧ r.idx = lastIdx
  cpw : C.Pairwise (fun a b => a.ord < b.ord)

theorem headObj_eq {C : List (Row α)} {g : Int} (h : ∀ r ∈ C, r.obj = g) (hne : ∃ r, r ∈ C) : headObj C = g := by
  cases C with
  | nil => obtain ⟨r, hr⟩ := hne; simp at hr
  | cons a C => exact h a (by simp)

theorem WN.congrK {l : List (Row α)} {K K' : Int → Int} {cc : Int} (h : WN l K cc) (e : ∀ r ∈ l, K' r.obj = K r.obj) :
    WN l K' cc :=
  ⟨h.rng, fun r hr => by rw [e r hr]; exact h.ordA r hr, h.inj,
   fun r hr k h1 h2 => h.surj r hr k h1 (by rw [← e r hr]; exact h2)⟩

theorem WN.left {A C : List (Row α)} {K : Int → Int} {cc g : Int} (h : WN (A ++ C) K cc)
    (hC : ∀ r ∈ C, r.obj = g) (hA : ∀ r ∈ A, r.obj ≠ g) : WN A K cc := by
  refine ⟨fun r hr => h.rng r (List.mem_append_left _ hr), fun r hr => h.ordA r (List.mem_append_left _ hr),
    fun r hr r' hr' => h.inj r (List.mem_append_left _ hr) r' (List.mem_append_left _ hr'), ?_⟩
  intro r hr k h1 h2
  obtain ⟨r', hr', e1, e2⟩ := h.surj r (List.mem_append_left _ hr) k h1 h2
  rcases List.mem_append.1 hr' with hr' | hr'
  · exact ⟨r', hr', e1, e2⟩
  · exact absurd (e1.symm.trans (hC r' hr')) (hA r hr)

theorem maxOrd_cut (nfm : List (Row α)) (g cls a : Int) (hgc : g ≠ cls) :
    maxOrd a (fun r => r.obj == g)
      (addOrd (fun r => r.obj == cls) (-a) (updObj (fun r => r.obj == g && decide (a < r.ord)) cls nfm)) = a := by
  obtain ⟨_, _, h3⟩ := maxOrd_spec (fun r : Row α => r.obj == g)
    (addOrd (fun r => r.obj == cls) (-a) (updObj (fun r => r.obj == g && decide (a < r.ord)) cls nfm)) a
  rcases h3 with h3 | ⟨r', hr', hp, he⟩
  · exact h3
  · simp only [addOrd, updObj, List.map_map, List.mem_map, Function.comp] at hr'
    obtain ⟨r, _, rfl⟩ := hr'
    rw [← he]
    simp only [beq_iff_eq] at hp
    grind

theorem addSuffix_doc (nfm ch : List (Row α)) (j : Nat) (dj : α) (t : Row α) (h : rowOf nfm j = some t) :
    addSuffix Opts.documented nfm ch j dj =
      if maxOrd t.ord (fun r => r.obj == t.obj) nfm ≠ t.ord then
        if t.dist ≤ dj then (nfm, ch, false, [.suffixReject])
        else
          (setDist (fun r => r.idx == j) dj
             (addOrd (fun r => r.obj == headObj ch) (-t.ord)
               (updObj (fun r => r.obj == t.obj && decide (t.ord < r.ord)) (headObj ch) nfm)),
           relabelChain t.obj (maxOrd t.ord (fun r => r.obj == t.obj)
             (addOrd (fun r => r.obj == headObj ch) (-t.ord)
               (updObj (fun r => r.obj == t.obj && decide (t.ord < r.ord)) (headObj ch) nfm))) ch, true, [.suffixCut])
      else (setDist (fun r => r.idx == j) dj nfm,
            relabelChain t.obj (maxOrd t.ord (fun r => r.obj == t.obj) nfm) ch, true, [.suffixKeep]) := by
  unfold addSuffix
  simp only [h, Opts.documented, Cmp.eval]
  simp

theorem addSuffix_mid {c : Cfg α} {nfm ch : List (Row α)} {K : Int → Int} {cls : Int} {last first : Nat}
    (hM : Mid Opts.documented c nfm ch K (cls + 1) cls last) (hfresh : ∀ r ∈ nfm, r.obj ≠ cls)
    (hfirst : ∃ c1 ∈ ch, c1.ord = 1 ∧ c1.idx = first) (j : Nat) (dj : α)
    (hdj : dj = c.d j first ∧ inWin Opts.documented c (c.d j first) = true) :
    ((addSuffix Opts.documented nfm ch j dj).2.2.1 = false ∧ (addSuffix Opts.documented nfm ch j dj).1 = nfm ∧
        (addSuffix Opts.documented nfm ch j dj).2.1 = ch) ∨
    ((addSuffix Opts.documented nfm ch j dj).2.2.1 = true ∧ ∃ t K1, rowOf nfm j = some t ∧ t.obj ≠ cls ∧
        Mid Opts.documented c (addSuffix Opts.documented nfm ch j dj).1 (addSuffix Opts.documented nfm ch j dj).2.1
          K1 (cls + 1) t.obj last ∧ 2 ≤ K1 t.obj ∧
        ∀ r' ∈ (addSuffix Opts.documented nfm ch j dj).1, r'.obj = t.obj → ∃ r ∈ nfm, r.idx = r'.idx ∧ r.obj = t.obj) := by
  cases h : rowOf nfm j with
  | none => left; unfold addSuffix; simp [h]
  | some t =>
    obtain ⟨htm, htj⟩ := rowOf_some h
    obtain ⟨c1, hc1, hc1k, hc1i⟩ := hfirst
    obtain ⟨ctop, hctop, hctopk, hctopi⟩ := hM.ctop
    have hN : WN nfm K (cls + 1) := hM.wn.left hM.cobj hfresh
    have hmax := hN.maxOrd_eq t htm t.ord (hN.ordA t htm).2
    have hhead : headObj ch = cls := headObj_eq hM.cobj ⟨c1, hc1⟩
    have htc : t.obj ≠ cls := hfresh t htm
    have htT : t ∈ nfm ++ ch := List.mem_append_left _ htm
    have hc1T : c1 ∈ nfm ++ ch := List.mem_append_right _ hc1
    have hKt := hN.ordA t htm
    have hKc := hM.wn.ordA c1 hc1T
    rw [hM.cobj c1 hc1] at hKc
    subst hc1i
    rw [addSuffix_doc nfm ch j dj t h, hmax, hhead]
    by_cases hl : K t.obj ≠ t.ord
    · rw [if_pos hl]
      by_cases hk : t.dist ≤ dj
      · rw [if_pos hk]; left; exact ⟨rfl, rfl, rfl⟩
      · rw [if_neg hk, maxOrd_cut nfm t.obj cls t.ord htc]
        right
        have e1 : setDist (fun r => r.idx == j) dj (addOrd (fun r => r.obj == cls) (-t.ord)
            (updObj (fun r => r.obj == t.obj && decide (t.ord < r.ord)) cls nfm)) = nfm.map (fSufCut cls t.obj t.ord j dj) := by
          simp only [setDist, addOrd, updObj, List.map_map]
          apply List.map_congr_left
          intro r hr
          have := hfresh r hr
          simp only [Function.comp, fSufCut]
          grind
        have e2 : relabelChain t.obj t.ord ch = ch.map (fSufCut cls t.obj t.ord j dj) := by
          unfold relabelChain
          apply List.map_congr_left
          intro r hr
          simp [fSufCut, hM.cobj r hr]
        refine ⟨rfl, t, (fun x => if x = t.obj then t.ord + K cls else if x = cls then K t.obj - t.ord else K x), rfl, htc, ⟨?_, ?_, ?_, ?_, ?_, ?_⟩, ?_, ?_⟩
        · dsimp only; rw [e1, e2, ← List.map_append]
          exact fSufCut_wn hM.wn cls t.obj j dj t htT rfl htc (by omega) c1 hc1T (hM.cobj c1 hc1)
        · dsimp only; rw [e1, e2, ← List.map_append, ids_map_of _ (fSufCut_idx cls t.obj t.ord j dj)]; exact hM.nd
        · dsimp only; rw [e1, e2, ← List.map_append]
          exact fSufCut_dl hM.wn hM.nd hM.dl cls t.obj j dj t htT rfl htc htj c1 hc1T (hM.cobj c1 hc1) hc1k hdj
        · intro r hr; simp only [relabelChain, List.mem_map] at hr; obtain ⟨r0, _, rfl⟩ := hr; rfl
        · refine ⟨{ ctop with obj := t.obj, ord := ctop.ord + t.ord }, ?_, ?_, hctopi⟩
          · simp only [relabelChain, List.mem_map]; exact ⟨ctop, hctop, rfl⟩
          · simp only [if_true]; omega
        · exact List.Pairwise.map _ (fun a b hab => by show a.ord + t.ord < b.ord + t.ord; omega) hM.cpw
        · simp only [if_true]; omega
        · dsimp only; rw [e1]
          intro r' hr' ho
          obtain ⟨r, hr, rfl⟩ := List.mem_map.1 hr'
          refine ⟨r, hr, (fSufCut_idx ..).symm, ?_⟩
          have := hfresh r hr
          unfold fSufCut at ho
          grind
    · rw [if_neg hl]
      have hl' : t.ord = K t.obj := by omega
      right
      have e1 : setDist (fun r => r.idx == j) dj nfm = nfm.map (fSufKeep cls t.obj (K t.obj) j dj) := by
        simp only [setDist]
        apply List.map_congr_left
        intro r hr
        have := hfresh r hr
        simp only [fSufKeep]
        grind
      have e2 : relabelChain t.obj (K t.obj) ch = ch.map (fSufKeep cls t.obj (K t.obj) j dj) := by
        unfold relabelChain
        apply List.map_congr_left
        intro r hr
        simp [fSufKeep, hM.cobj r hr]
      refine ⟨rfl, t, (fun x => if x = t.obj then K t.obj + K cls else K x), rfl, htc, ⟨?_, ?_, ?_, ?_, ?_, ?_⟩, ?_, ?_⟩
      · dsimp only; rw [e1, e2, ← List.map_append]
        exact fSufKeep_wn hM.wn cls t.obj j dj t htT rfl htc c1 hc1T (hM.cobj c1 hc1)
      · dsimp only; rw [e1, e2, ← List.map_append, ids_map_of _ (fSufKeep_idx cls t.obj (K t.obj) j dj)]; exact hM.nd
      · dsimp only; rw [e1, e2, ← List.map_append]
        exact fSufKeep_dl hM.wn hM.nd hM.dl cls t.obj j dj t htT rfl htc htj hl' c1 hc1T (hM.cobj c1 hc1) hc1k hdj
      · intro r hr; simp only [relabelChain, List.mem_map] at hr; obtain ⟨r0, _, rfl⟩ := hr; rfl
      · refine ⟨{ ctop with obj := t.obj, ord := ctop.ord + K t.obj }, ?_, ?_, hctopi⟩
        · simp only [relabelChain, List.mem_map]; exact ⟨ctop, hctop, rfl⟩
        · simp only [if_true]; omega
      · exact List.Pairwise.map _ (fun a b hab => by show a.ord + K t.obj < b.ord + K t.obj; omega) hM.cpw
      · simp only [if_true]; omega
      · dsimp only; rw [e1]
        intro r' hr' ho
        obtain ⟨r, hr, rfl⟩ := List.mem_map.1 hr'
        refine ⟨r, hr, (fSufKeep_idx ..).symm, ?_⟩
        have := hfresh r hr
        unfold fSufKeep at ho
        grind

end CryoCat.C19
