import CryoCat.Lemmas.C08_Check
import CryoCat.Lemmas.C08_DropDup
import Mathlib.Algebra.Order.Ring.Defs
import Mathlib.Tactic.Ring
/-! C08 — the clauses of the statement as Props over (input, REAL output), and the proofs that the
Boolean checkers of `Model/C08_Check.lean` decide exactly these clauses. -/
namespace CryoCat.C08
open CryoCat
set_option linter.unusedSectionVars false

/-! ### the clauses -/
section clauses
variable {α : Type}

/-- grouped by requested value (in the order requested), each group = the matching rows in their
original order -/
def SubsetOK [DecidableEq α] (f : Field) (vs : List α) (l out : Motl α) : Prop :=
  ∃ groups : List (Motl α), out = groups.flatten ∧
    List.Forall₂ (fun v g => g = l.filter (fun p => decide (p.get f = v))) vs groups

/-- removal and selection are complementary: what is left, together with the selected rows, is the
list; nothing left matches -/
def RemoveOK [DecidableEq α] (f : Field) (vs : List α) (l out : Motl α) : Prop :=
  (out ++ l.filter (fun p => decide (p.get f ∈ vs))).Perm l ∧ ∀ p ∈ out, p.get f ∉ vs

/-- the parts partition the list: together they are the list, each part is non-empty and holds one
value, different parts hold different values -/
def SplitOK (f : Field) (l : Motl α) (parts : List (Motl α)) : Prop :=
  parts.flatten.Perm l ∧ (∀ part ∈ parts, part ≠ [] ∧ ∃ v, ∀ p ∈ part, p.get f = v)
  ∧ parts.Pairwise (fun a b => ∀ p ∈ a, ∀ q ∈ b, p.get f ≠ q.get f)

/-- `q` is `p`, a missing value possibly filled -/
def Same (fill : α → α) (p q : Particle α) : Prop := ∀ g : Field, q.get g = p.get g ∨ q.get g = fill (p.get g)

def IntersectOK [DecidableEq α] (fill : α → α) (f : Field) (l o out : Motl α) : Prop :=
  (out.map (fillRow fill)).Perm
    ((l.filter (fun p => decide (∃ q ∈ o, fill (q.get f) = fill (p.get f)))).map (fillRow fill))
  ∧ ∀ q ∈ out, ∃ p ∈ l, Same fill p q

/-- exactly one best-scoring row per id -/
def DropDupOK [LE α] (fill : α → α) (dup dec : Field) (asc : Bool) (l out : Motl α) : Prop :=
  (out.map (·.get dup)).Nodup ∧ (∀ q ∈ out, ∃ p ∈ l, Same fill p q)
  ∧ (∀ p ∈ l, ∃ q ∈ out, q.get dup = p.get dup)
  ∧ (∀ q ∈ out, ∀ p ∈ l, p.get dup = q.get dup → if asc then q.get dec ≤ p.get dec else p.get dec ≤ q.get dec)

def RenumberParticlesOK (nat : Nat → α) (l out : Motl α) : Prop :=
  out.map (·.subtomo_id) = (List.range l.length).map (fun i => nat (i + 1))
  ∧ List.Forall₂ (fun p q => ∀ f : Field, f ≠ Field.subtomo_id → q.get f = p.get f) l out

/-- output block `b` is input `m` row by row (ids aside, missing values possibly filled) with all
object numbers moved by ONE offset -/
def BlockOK [Add α] (fill : α → α) (m b : Motl α) : Prop :=
  List.Forall₂ (fun p q => Unchanged fill p q) m b
  ∧ ∃ c : α, List.Forall₂ (fun p q => q.object_id = fill p.object_id + c) m b

def DisjointObj (b c : Motl α) : Prop := ∀ p ∈ b, ∀ q ∈ c, p.object_id ≠ q.object_id

/-- inputs are tagged `(bare DataFrame?, rows)`: the output is the inputs one after the other, block by
block the same rows (ids aside; missing values possibly filled ONLY for a DataFrame input) with one
object-number offset per block, blocks never share an object number, and the subtomogram numbers are
1..N in row order -/
def MergeRenumberOK [Add α] (fill : α → α) (nat : Nat → α) (ins : List (Bool × Motl α)) (out : Motl α) : Prop :=
  ∃ bs : List (Motl α), out = bs.flatten ∧ List.Forall₂ (fun x b => BlockOK (fillIf fill x.1) x.2 b) ins bs
    ∧ bs.Pairwise DisjointObj
    ∧ out.map (·.subtomo_id) = (List.range (ins.map (·.2)).flatten.length).map (fun i => nat (i + 1))

def MergeDropDupOK [Add α] [LE α] (fill : α → α) (ins : List (Bool × Motl α)) (out : Motl α) : Prop :=
  ∃ cs : List α, cs.length = ins.length ∧ ((shiftedInputs fill cs ins).map (·.2)).Pairwise DisjointObj
    ∧ (∀ q ∈ out, ∃ x ∈ shiftedInputs fill cs ins, ∃ p ∈ x.2, Same (fillIf fill x.1) p q)
    ∧ DropDupOK fill .subtomo_id .score false ((shiftedInputs fill cs ins).map (·.2)).flatten out

def RenumberObjectsOK [Add α] (nat : Nat → α) (start : α) (l out : Motl α) : Prop :=
  List.Forall₂ (fun p q => ∀ f : Field, f ≠ Field.object_id → q.get f = p.get f) l out
  ∧ (∀ a ∈ l.zip out, ∀ b ∈ l.zip out,
      a.2.object_id = b.2.object_id ↔ (a.1.tomo_id = b.1.tomo_id ∧ a.1.object_id = b.1.object_id))
  ∧ ∃ keys : List (α × α), keys.Nodup ∧ (∀ k, k ∈ keys ↔ ∃ p ∈ l, (p.tomo_id, p.object_id) = k)
      ∧ (∀ q ∈ out, ∃ i, i < keys.length ∧ q.object_id = start + nat i)
      ∧ (∀ i, i < keys.length → ∃ q ∈ out, q.object_id = start + nat i)

end clauses

/-! ### the checkers decide them -/
section deq
variable {α : Type} [DecidableEq α] (eqv : α → α → Bool) (heqv : ∀ a b, eqv a b = true ↔ a = b)
include heqv

theorem subsetOK_iff (f : Field) (vs : List α) (l out : Motl α) :
    SubsetOK f vs l out ↔ out = vs.flatMap (fun v => l.filter (fun p => decide (p.get f = v))) := by
  unfold SubsetOK
  constructor
  · rintro ⟨groups, rfl, h⟩
    induction h with
    | nil => rfl
    | cons hvg _ ih => rw [List.flatten_cons, List.flatMap_cons, ih, hvg]
  · rintro rfl
    refine ⟨vs.map (fun v => l.filter (fun p => decide (p.get f = v))), by rw [List.flatMap_def], ?_⟩
    induction vs with
    | nil => exact List.Forall₂.nil
    | cons v vs ih => exact List.Forall₂.cons rfl ih

theorem checkSubset_iff (f : Field) (vs : List α) (l out : Motl α) :
    checkSubset eqv f vs l out = true ↔ SubsetOK f vs l out := by
  rw [subsetOK_iff eqv heqv]
  induction vs generalizing out with
  | nil => simp [checkSubset]
  | cons v vs ih =>
    have hg : (l.filter fun p => p.get f == v) = l.filter fun p => decide (p.get f = v) := rfl
    simp only [checkSubset, Bool.and_eq_true, listEqB_iff eqv heqv, ih, List.flatMap_cons, hg]
    constructor
    · rintro ⟨h1, h2⟩
      rw [← List.take_append_drop (l.filter fun p => decide (p.get f = v)).length out, h1, h2]
    · intro h
      rw [h, List.take_left, List.drop_left]
      exact ⟨rfl, rfl⟩

theorem checkRemove_iff (f : Field) (vs : List α) (l out : Motl α) :
    checkRemove eqv f vs l out = true ↔ RemoveOK f vs l out := by
  have hf : l.filter (fun p => vs.any (fun v => p.get f == v)) = l.filter (fun p => decide (p.get f ∈ vs)) :=
    List.filter_congr (fun p _ => by
      rw [Bool.eq_iff_iff, List.any_eq_true, decide_eq_true_iff]
      constructor
      · rintro ⟨v, hv, e⟩; rw [beq_iff_eq] at e; exact e ▸ hv
      · intro h; exact ⟨_, h, beq_self_eq_true _⟩)
  simp only [checkRemove, removeClauses, List.all_cons, List.all_nil, Bool.and_true, Bool.and_eq_true,
    permB_iff eqv heqv, hf, RemoveOK]
  refine and_congr Iff.rfl ?_
  simp only [List.all_eq_true, Bool.not_eq_eq_eq_not, Bool.not_true, beq_eq_false_iff_ne, ne_eq]
  constructor
  · intro h p hp hm; exact h p hp _ hm rfl
  · intro h p hp v hv e; exact h p hp (e ▸ hv)

theorem checkSplit_iff (f : Field) (l : Motl α) (parts : List (Motl α)) :
    checkSplit eqv f l parts = true ↔ SplitOK f l parts := by
  simp only [checkSplit, splitClauses, List.all_cons, List.all_nil, Bool.and_true, Bool.and_eq_true,
    permB_iff eqv heqv, SplitOK]
  refine and_congr Iff.rfl (and_congr ?_ ?_)
  · rw [List.all_eq_true]
    refine forall_congr' (fun part => forall_congr' (fun _ => ?_))
    cases part with
    | nil => simp
    | cons p r =>
      simp only [List.all_eq_true, beq_iff_eq, ne_eq, reduceCtorEq, not_false_eq_true, true_and, List.mem_cons]
      constructor
      · intro h; exact ⟨p.get f, by rintro q (rfl | hq); rfl; exact h q hq⟩
      · rintro ⟨v, hv⟩ q hq; rw [hv q (Or.inr hq), hv p (Or.inl rfl)]
  · apply pairwiseB_iff
    intro a b
    simp only [List.all_eq_true, Bool.not_eq_eq_eq_not, Bool.not_true, beq_eq_false_iff_ne, ne_eq]

theorem checkIntersect_iff (fill : α → α) (f : Field) (l o out : Motl α) :
    checkIntersect eqv fill f l o out = true ↔ IntersectOK fill f l o out := by
  have hf : l.filter (fun p => o.any (fun q => fill (q.get f) == fill (p.get f)))
      = l.filter (fun p => decide (∃ q ∈ o, fill (q.get f) = fill (p.get f))) :=
    List.filter_congr (fun p _ => by
      rw [Bool.eq_iff_iff, List.any_eq_true, decide_eq_true_iff]
      simp only [beq_iff_eq])
  simp only [checkIntersect, intersectClauses, List.all_cons, List.all_nil, Bool.and_true, Bool.and_eq_true,
    permB_iff eqv heqv, hf, IntersectOK]
  refine and_congr Iff.rfl ?_
  simp only [List.all_eq_true, List.any_eq_true, sameB_iff eqv heqv, Bool.false_eq_true, false_or, Same]

theorem checkRenumberParticles_iff (nat : Nat → α) (l out : Motl α) :
    checkRenumberParticles eqv nat l out = true ↔ RenumberParticlesOK nat l out := by
  simp only [checkRenumberParticles, renumberParticlesClauses, List.all_cons, List.all_nil, Bool.and_true,
    Bool.and_eq_true, RenumberParticlesOK]
  refine and_congr ?_ ?_
  · rw [forall2B_iff (fun (a b : α) => a == b) (· = ·) _ _ (fun a _ b _ => beq_iff_eq)]
    exact List.forall₂_eq_eq_eq ▸ Iff.rfl
  · apply forall2B_iff
    intro p _ q _
    rw [sameB_iff eqv heqv]
    refine forall_congr' (fun g => ?_)
    simp only [beq_iff_eq, or_self]
    constructor
    · rintro (h | h) hg
      · exact absurd h hg
      · exact h
    · intro h
      by_cases hg : g = Field.subtomo_id
      · exact Or.inl hg
      · exact Or.inr (h hg)

end deq

section lin
variable {α : Type} [LinearOrder α] (eqv : α → α → Bool) (heqv : ∀ a b, eqv a b = true ↔ a = b)
include heqv

theorem checkDropDup_iff (fill : α → α) (dup dec : Field) (asc : Bool) (l out : Motl α) :
    checkDropDup eqv fill dup dec asc l out = true ↔ DropDupOK fill dup dec asc l out := by
  simp only [checkDropDup, dropDupClauses, List.all_cons, List.all_nil, Bool.and_true, Bool.and_eq_true, DropDupOK]
  refine and_congr ?_ (and_congr ?_ (and_congr ?_ ?_))
  · rw [List.Nodup, List.pairwise_map]
    apply pairwiseB_iff
    intro a b
    simp only [Bool.not_eq_eq_eq_not, Bool.not_true, beq_eq_false_iff_ne, ne_eq]
  · simp only [List.all_eq_true, List.any_eq_true, sameB_iff eqv heqv, Bool.false_eq_true, false_or, Same]
  · simp only [List.all_eq_true, List.any_eq_true, beq_iff_eq]
  · simp only [List.all_eq_true, Bool.or_eq_true, Bool.not_eq_eq_eq_not, Bool.not_true, beq_eq_false_iff_ne, ne_eq]
    refine forall_congr' (fun q => forall_congr' (fun _ => forall_congr' (fun p => forall_congr' (fun _ => ?_))))
    cases asc
    · simp only [Bool.false_eq_true, if_false, Bool.not_eq_eq_eq_not, Bool.not_true, decide_eq_false_iff_not, not_lt]
      constructor
      · intro h e; rcases h with h | h
        · exact absurd e h
        · exact h
      · intro h; by_cases e : p.get dup = q.get dup
        · exact Or.inr (h e)
        · exact Or.inl e
    · simp only [if_true, Bool.not_eq_eq_eq_not, Bool.not_true, decide_eq_false_iff_not, not_lt]
      constructor
      · intro h e; rcases h with h | h
        · exact absurd e h
        · exact h
      · intro h; by_cases e : p.get dup = q.get dup
        · exact Or.inr (h e)
        · exact Or.inl e

end lin

section generic2
theorem uniq_mem' {β : Type} [BEq β] [LawfulBEq β] (l : List β) (a : β) : a ∈ uniq l ↔ a ∈ l := by
  induction l with
  | nil => simp [uniq]
  | cons b l ih =>
    simp only [uniq, List.mem_cons, List.mem_filter, ih, Bool.not_eq_eq_eq_not, Bool.not_true, beq_eq_false_iff_ne, ne_eq]
    by_cases h : a = b <;> simp [h]

theorem uniq_nodup' {β : Type} [BEq β] [LawfulBEq β] (l : List β) : (uniq l).Nodup := by
  induction l with
  | nil => simp [uniq]
  | cons b l ih =>
    simp only [uniq, List.nodup_cons, List.mem_filter]
    refine ⟨by simp, ?_⟩
    exact List.Pairwise.filter _ ih

theorem bool_beq_iff (x y : Bool) (P Q : Prop) (hx : x = true ↔ P) (hy : y = true ↔ Q) :
    (x == y) = true ↔ (P ↔ Q) := by
  cases x <;> cases y <;> simp_all

end generic2

section ring
variable {α : Type} [CommRing α] [LinearOrder α] [IsStrictOrderedRing α]
  (eqv : α → α → Bool) (heqv : ∀ a b, eqv a b = true ↔ a = b)
include heqv

theorem isIdField_iff (g : Field) : isIdField g = true ↔ (g = Field.subtomo_id ∨ g = Field.object_id) := by
  cases g <;> simp [isIdField]

theorem sameB_ids_iff (fill : α → α) (p q : Particle α) :
    sameB eqv fill isIdField p q = true ↔ Unchanged fill p q := by
  rw [sameB_iff eqv heqv]
  unfold Unchanged
  refine forall_congr' (fun g => ?_)
  rw [isIdField_iff eqv heqv]
  constructor
  · rintro (h | h) h1 h2
    · rcases h with h | h
      · exact absurd h h1
      · exact absurd h h2
    · exact h
  · intro h
    by_cases h1 : g = Field.subtomo_id
    · exact Or.inl (Or.inl h1)
    · by_cases h2 : g = Field.object_id
      · exact Or.inl (Or.inr h2)
      · exact Or.inr (h h1 h2)

theorem blockOkB_iff (fill : α → α) (m b : Motl α) : blockOkB eqv fill m b = true ↔ BlockOK fill m b := by
  unfold blockOkB BlockOK
  rw [forall2B_iff _ (fun p q => Unchanged fill p q ∧ q.object_id = fill p.object_id + offsetOf fill m b) m b
    (fun p _ q _ => by rw [Bool.and_eq_true, sameB_ids_iff eqv heqv, beq_iff_eq])]
  constructor
  · intro h
    exact ⟨h.imp (fun _ _ hab => hab.1), offsetOf fill m b, h.imp (fun _ _ hab => hab.2)⟩
  · rintro ⟨h1, c, h2⟩
    cases h2 with
    | nil => exact List.Forall₂.nil
    | @cons p0 q0 m' b' e h2' =>
      have hoff : offsetOf fill (p0 :: m') (q0 :: b') = c := by show q0.object_id - fill p0.object_id = c; rw [e]; ring
      rw [hoff]
      have h2 : List.Forall₂ (fun p q => q.object_id = fill p.object_id + c) (p0 :: m') (q0 :: b') := List.Forall₂.cons e h2'
      clear hoff
      generalize p0 :: m' = mm at *
      generalize q0 :: b' = bb at *
      induction h1 with
      | nil => exact List.Forall₂.nil
      | cons hu _ ih =>
        cases h2 with
        | cons e2 h2'' => exact List.Forall₂.cons ⟨hu, e2⟩ (ih h2'')

theorem disjointObjB_iff (b c : Motl α) : disjointObjB b c = true ↔ DisjointObj b c := by
  simp only [disjointObjB, DisjointObj, List.all_eq_true, Bool.not_eq_eq_eq_not, Bool.not_true,
    beq_eq_false_iff_ne, ne_eq]

theorem checkMergeRenumber_iff (fill : α → α) (nat : Nat → α) (ins : List (Bool × Motl α)) (out : Motl α) :
    checkMergeRenumber eqv fill nat ins out = true ↔ MergeRenumberOK fill nat ins out := by
  unfold checkMergeRenumber mergeRenumberClauses MergeRenumberOK
  have hids : ∀ (xs ys : List α), forall2B (fun (a b : α) => a == b) xs ys = true ↔ xs = ys := by
    intro xs ys
    rw [forall2B_iff (fun (a b : α) => a == b) (· = ·) _ _ (fun a _ b _ => beq_iff_eq)]
    exact List.forall₂_eq_eq_eq ▸ Iff.rfl
  constructor
  · intro h
    cases hs : splitBy (ins.map (·.2)) out with
    | none => rw [hs] at h; simp at h
    | some bs =>
      rw [hs] at h
      simp only [List.all_cons, List.all_nil, Bool.and_true, Bool.and_eq_true] at h
      obtain ⟨h1, h2, h3⟩ := h
      refine ⟨bs, (splitBy_some _ out bs hs).1, ?_, ?_, (hids _ _).1 h3⟩
      · exact (forall2B_iff _ _ ins bs (fun x _ b _ => blockOkB_iff eqv heqv (fillIf fill x.1) x.2 b)).1 h1
      · exact (pairwiseB_iff _ _ (disjointObjB_iff eqv heqv) bs).1 h2
  · rintro ⟨bs, rfl, h1, h2, h3⟩
    have hlen : List.Forall₂ (fun (m b : Motl α) => m.length = b.length) (ins.map (·.2)) bs :=
      List.forall₂_map_left_iff.2 (h1.imp (fun _ _ hb => hb.1.length_eq))
    rw [splitBy_flatten _ bs hlen]
    simp only [List.all_cons, List.all_nil, Bool.and_true, Bool.and_eq_true]
    exact ⟨(forall2B_iff _ _ ins bs (fun x _ b _ => blockOkB_iff eqv heqv (fillIf fill x.1) x.2 b)).2 h1,
      (pairwiseB_iff _ _ (disjointObjB_iff eqv heqv) bs).2 h2, (hids _ _).2 h3⟩

/-- the clauses decided for ONE given certificate `cs` -/
theorem checkMergeDropDup_cs_iff (fill : α → α) (cs : List α) (ins : List (Bool × Motl α)) (out : Motl α) :
    checkMergeDropDup eqv fill cs ins out = true ↔
      (cs.length = ins.length ∧ ((shiftedInputs fill cs ins).map (·.2)).Pairwise DisjointObj
        ∧ (∀ q ∈ out, ∃ x ∈ shiftedInputs fill cs ins, ∃ p ∈ x.2, Same (fillIf fill x.1) p q)
        ∧ DropDupOK fill .subtomo_id .score false ((shiftedInputs fill cs ins).map (·.2)).flatten out) := by
  have hd := checkDropDup_iff eqv heqv fill Field.subtomo_id Field.score false
    ((shiftedInputs fill cs ins).map (·.2)).flatten out
  unfold checkDropDup at hd
  simp only [checkMergeDropDup, mergeDropDupClauses, List.all_append, List.all_cons, List.all_nil, Bool.and_true,
    Bool.and_eq_true, hd, beq_iff_eq, pairwiseB_iff _ _ (disjointObjB_iff eqv heqv)]
  simp only [List.all_eq_true, List.any_eq_true, sameB_iff eqv heqv, Bool.false_eq_true, false_or, Same, and_assoc]

theorem checkMergeDropDup_iff (fill : α → α) (ins : List (Bool × Motl α)) (out : Motl α) :
    (∃ cs, checkMergeDropDup eqv fill cs ins out = true) ↔ MergeDropDupOK fill ins out := by
  unfold MergeDropDupOK
  exact exists_congr (fun cs => checkMergeDropDup_cs_iff eqv heqv fill cs ins out)

theorem sameB_skip_iff (h : Field) (p q : Particle α) :
    sameB eqv (fun v => v) (fun g => g == h) p q = true ↔ ∀ f : Field, f ≠ h → q.get f = p.get f := by
  rw [sameB_iff eqv heqv]
  refine forall_congr' (fun g => ?_)
  simp only [beq_iff_eq, or_self]
  constructor
  · rintro (e | e) hg
    · exact absurd e hg
    · exact e
  · intro e
    by_cases hg : g = h
    · exact Or.inl hg
    · exact Or.inr (e hg)

theorem nPairs_eq (l : Motl α) (keys : List (α × α)) (hn : keys.Nodup)
    (hm : ∀ k, k ∈ keys ↔ ∃ p ∈ l, (p.tomo_id, p.object_id) = k) : nPairs l = keys.length := by
  unfold nPairs
  apply List.Perm.length_eq
  rw [List.perm_ext_iff_of_nodup (uniq_nodup' _) hn]
  intro k
  rw [uniq_mem', hm, List.mem_map]

theorem checkRenumberObjects_iff (nat : Nat → α) (start : α) (l out : Motl α) :
    checkRenumberObjects eqv nat start l out = true ↔ RenumberObjectsOK nat start l out := by
  simp only [checkRenumberObjects, renumberObjectsClauses, List.all_cons, List.all_nil, Bool.and_true,
    Bool.and_eq_true, RenumberObjectsOK]
  refine and_congr ?_ (and_congr ?_ ?_)
  · exact forall2B_iff _ _ l out (fun p _ q _ => sameB_skip_iff eqv heqv Field.object_id p q)
  · simp only [List.all_eq_true]
    refine forall_congr' (fun a => forall_congr' (fun _ => forall_congr' (fun b => forall_congr' (fun _ => ?_))))
    exact bool_beq_iff _ _ _ _ beq_iff_eq (by rw [Bool.and_eq_true, beq_iff_eq, beq_iff_eq])
  · have hk := nPairs_eq eqv heqv l (uniq (l.map (fun p => (p.tomo_id, p.object_id)))) (uniq_nodup' _)
      (fun k => by rw [uniq_mem', List.mem_map])
    simp only [List.all_eq_true, List.any_eq_true, List.mem_range, beq_iff_eq]
    constructor
    · rintro ⟨h1, h2⟩
      refine ⟨uniq (l.map (fun p => (p.tomo_id, p.object_id))), uniq_nodup' _, fun k => by rw [uniq_mem', List.mem_map], ?_, ?_⟩
      · rw [← hk]; exact h1
      · rw [← hk]; exact h2
    · rintro ⟨keys, hn, hm, h1, h2⟩
      rw [nPairs_eq eqv heqv l keys hn hm]
      exact ⟨h1, h2⟩

end ring
end CryoCat.C08
