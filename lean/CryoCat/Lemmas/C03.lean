import CryoCat.Model.C03
import CryoCat.Lemmas.M3
import Mathlib.Algebra.Field.Basic
/-! C03 — helper lemmas: the scipy sequence strings as matrix products, conjugation by `Qy`,
transposes. Over any commutative ring; no trigonometry. -/
namespace CryoCat.C03
open CryoCat
variable {α : Type} [CommRing α]

theorem eulerMat_ZXZ (t : Ang3 α) :
    eulerMat ['Z', 'X', 'Z'] t = some (ZXZ t.a.c t.a.s t.b.c t.b.s t.c.c t.c.s) := by
  simp [eulerMat, axisRot, ZXZ, Char.isUpper]
theorem eulerMat_ZYZ (t : Ang3 α) :
    eulerMat ['Z', 'Y', 'Z'] t = some (ZYZ t.a.c t.a.s t.b.c t.b.s t.c.c t.c.s) := by
  simp [eulerMat, axisRot, ZYZ, Char.isUpper]
theorem eulerMat_zxz (t : Ang3 α) :
    eulerMat ['z', 'x', 'z'] t = some (zxz t.a.c t.a.s t.b.c t.b.s t.c.c t.c.s) := by
  simp [eulerMat, axisRot, zxz, Char.isUpper, Char.isLower]

theorem particleMat_eq (t : Ang3 α) : particleMat t = zxz t.a.c t.a.s t.b.c t.b.s t.c.c t.c.s := rfl
theorem relionMat_eq (t : Ang3 α) : relionMat t = ZYZ t.a.c t.a.s t.b.c t.b.s t.c.c t.c.s := rfl

/-- the matrix handed to scipy on export is the intrinsic ZXZ matrix of (phi, theta, psi): the model does not fail -/
theorem exportFed_eq (ang : Ang3 α) :
    exportFed ang = some (ZXZ ang.a.c ang.a.s ang.b.c ang.b.s ang.c.c ang.c.s) := eulerMat_ZXZ ang
/-- the matrix handed to scipy on import is RELION's ZYZ matrix -/
theorem importFed_eq (rln : Ang3 α) : importFed rln = some (relionMat rln) := eulerMat_ZYZ rln

/-- export angles, unfolded: (−e₀, e₁, −e₂) of scipy's answer `e` -/
theorem exportAngles_eq (asEuler : M3 α → Ang3 α) (ang : Ang3 α) :
    exportAngles asEuler ang =
      some ⟨(asEuler (ZXZ ang.a.c ang.a.s ang.b.c ang.b.s ang.c.c ang.c.s)).a.neg,
            (asEuler (ZXZ ang.a.c ang.a.s ang.b.c ang.b.s ang.c.c ang.c.s)).b,
            (asEuler (ZXZ ang.a.c ang.a.s ang.b.c ang.b.s ang.c.c ang.c.s)).c.neg⟩ := by
  simp [exportAngles, exportFed_eq, applySlots, Gen.C03.exportSlots, Ang3.slot?, Ang.signed]

/-- import angles, unfolded: (−e₂, −e₁, −e₀) of scipy's answer `e` -/
theorem importAngles_eq (asEuler : M3 α → Ang3 α) (rln : Ang3 α) :
    importAngles asEuler rln =
      some ⟨(asEuler (relionMat rln)).c.neg, (asEuler (relionMat rln)).b.neg, (asEuler (relionMat rln)).a.neg⟩ := by
  simp [importAngles, importFed_eq, applySlots, Gen.C03.importSlots, Ang3.slot?, Ang.signed]

/-- negating the outer angles of a ZYZ triple is conjugation by the π-rotation about y -/
theorem ZYZ_neg_outer (ca sa cb sb cc sc : α) :
    ZYZ ca (-sa) cb sb cc (-sc) = Qy * ZYZ ca sa cb sb cc sc * Qy := by
  unfold ZYZ
  rw [conj3 Qy _ _ _ Qy_Qy, Qy_rz, Qy_ry, Qy_rz]

theorem zxz_transpose (cp sp ct st cs ss : α) :
    (zxz cp sp ct st cs ss).transpose = zxz cs (-ss) ct (-st) cp (-sp) := by
  unfold zxz
  rw [M3.transpose_mul, M3.transpose_mul, rz_transpose, rx_transpose, rz_transpose, M3.mul_assoc']

theorem ZYZ_transpose (ca sa cb sb cc sc : α) :
    (ZYZ ca sa cb sb cc sc).transpose = ZYZ cc (-sc) cb (-sb) ca (-sa) := by
  unfold ZYZ
  rw [M3.transpose_mul, M3.transpose_mul, rz_transpose, ry_transpose, rz_transpose, M3.mul_assoc']

/-- the intrinsic ZXZ matrix of (phi, theta, psi), conjugated by `Qy`, is the transpose of the
extrinsic zxz matrix of the same angles -/
theorem Qy_ZXZ (cp sp ct st cs ss : α) :
    Qy * ZXZ cp sp ct st cs ss * Qy = (zxz cp sp ct st cs ss).transpose := by
  rw [zxz_transpose]
  unfold ZXZ zxz
  rw [conj3 Qy _ _ _ Qy_Qy, Qy_rz, Qy_rx, Qy_rz]

theorem ZYZ_orth (ca sa cb sb cc sc : α) (ha : ca*ca + sa*sa = 1) (hb : cb*cb + sb*sb = 1) (hc : cc*cc + sc*sc = 1) :
    (ZYZ ca sa cb sb cc sc).Orth :=
  ((rz_orth ca sa ha).mul (ry_orth cb sb hb)).mul (rz_orth cc sc hc)

/-- right inverse of the zxz matrix -/
theorem zxz_mul_transpose (cp sp ct st cs ss : α) (hp : cp*cp + sp*sp = 1) (ht : ct*ct + st*st = 1) (hs : cs*cs + ss*ss = 1) :
    zxz cp sp ct st cs ss * (zxz cp sp ct st cs ss).transpose = M3.one := by
  rw [zxz_transpose]
  have h := zxz_inv cs (-ss) ct (-st) cp (-sp) (by rw [neg_mul_neg]; exact hs) (by rw [neg_mul_neg]; exact ht)
    (by rw [neg_mul_neg]; exact hp)
  simpa only [neg_neg] using h

theorem ZYZ_mul_transpose (ca sa cb sb cc sc : α) (ha : ca*ca + sa*sa = 1) (hb : cb*cb + sb*sb = 1) (hc : cc*cc + sc*sc = 1) :
    ZYZ ca sa cb sb cc sc * (ZYZ ca sa cb sb cc sc).transpose = M3.one := by
  have h := ZYZ_orth cc (-sc) cb (-sb) ca (-sa) (by rw [neg_mul_neg]; exact hc) (by rw [neg_mul_neg]; exact hb)
    (by rw [neg_mul_neg]; exact ha)
  unfold M3.Orth at h
  rw [ZYZ_transpose] at h ⊢
  simpa only [neg_neg] using h

end CryoCat.C03
