import CryoCat.Lemmas.C08_CheckOps
import CryoCat.Lemmas.C08_History
/-! C08 — an accepted step / an accepted observed history: the clauses hold for the REAL tables, and
every row of the last REAL table is a row that entered the history with only id fields rewritten. -/
namespace CryoCat.C08
open CryoCat
set_option linter.unusedSectionVars false

/-- the clauses one accepted step establishes (per operation) -/
def StepOK {α : Type} [DecidableEq α] [Add α] [LE α] (fill : α → α) (nat : Nat → α) : Op α → Motl α → Obs α → Prop
  | .subset f vs, l, o => SubsetOK f vs l o.out
  | .remove f vs, l, o => RemoveOK f vs l o.out
  | .splitPick f i, l, o => SplitOK f l o.parts ∧ o.out = o.parts.getD i []
  | .intersect f other, l, o => IntersectOK fill f l other o.out
  | .dropDup dup dec asc, l, o => DropDupOK (fun v => v) dup dec asc l o.out
  | .mergeRenumber b a s, l, o => MergeRenumberOK fill nat (rawInputs b a s l) o.out
  | .mergeDropDup b a s, l, o => MergeDropDupOK fill (rawInputs b a s l) o.out
  | .renumberParticles, l, o => RenumberParticlesOK nat l o.out
  | .renumberObjects start, l, o => RenumberObjectsOK nat start l o.out

theorem forall2_mem_right {β γ : Type} {R : β → γ → Prop} {l : List β} {m : List γ} (h : List.Forall₂ R l m)
    (b : γ) (hb : b ∈ m) : ∃ a ∈ l, R a b := by
  induction h with
  | nil => cases hb
  | cons hab _ ih =>
    rcases List.mem_cons.1 hb with rfl | hb'
    · exact ⟨_, by simp, hab⟩
    · obtain ⟨a, ha, r⟩ := ih hb'
      exact ⟨a, by simp [ha], r⟩

section ring
variable {α : Type} [CommRing α] [LinearOrder α] [IsStrictOrderedRing α]
  (eqv : α → α → Bool) (heqv : ∀ a b, eqv a b = true ↔ a = b)
include heqv

theorem checkStep_sound (fill : α → α) (nat : Nat → α) (op : Op α) (l : Motl α) (o : Obs α)
    (h : checkStep eqv fill nat op l o = true) : StepOK fill nat op l o := by
  unfold checkStep at h
  cases op with
  | subset f vs =>
    simp only [stepClauses, List.all_cons, List.all_nil, Bool.and_true] at h
    exact (checkSubset_iff eqv heqv f vs l o.out).1 h
  | remove f vs => exact (checkRemove_iff eqv heqv f vs l o.out).1 h
  | splitPick f i =>
    simp only [stepClauses, List.all_append, List.all_cons, List.all_nil, Bool.and_true, Bool.and_eq_true] at h
    exact ⟨(checkSplit_iff eqv heqv f l o.parts).1 h.1, (listEqB_iff eqv heqv _ _).1 h.2⟩
  | intersect f other => exact (checkIntersect_iff eqv heqv fill f l other o.out).1 h
  | dropDup dup dec asc => exact (checkDropDup_iff eqv heqv _ dup dec asc l o.out).1 h
  | mergeRenumber b a s => exact (checkMergeRenumber_iff eqv heqv fill nat _ o.out).1 h
  | mergeDropDup b a s =>
    simp only [stepClauses] at h
    split at h
    · rename_i cs hf
      have := List.find?_some hf
      exact (checkMergeDropDup_iff eqv heqv fill _ o.out).1 ⟨_, this⟩
    · simp at h
  | renumberParticles => exact (checkRenumberParticles_iff eqv heqv nat l o.out).1 h
  | renumberObjects start => exact (checkRenumberObjects_iff eqv heqv nat start l o.out).1 h

/-- what `checkStep` needs beyond the clauses: for `merge_and_drop_duplicates` one of the offered
certificates must be a valid one (the clause Prop `MergeDropDupOK` only says that one EXISTS) -/
def HintOK (eqv : α → α → Bool) (fill : α → α) : Op α → Motl α → Obs α → Prop
  | .mergeDropDup b a s, l, o => ∃ cs ∈ o.hints, checkMergeDropDup eqv fill cs (rawInputs b a s l) o.out = true
  | _, _, _ => True

/-- **`checkStep` decides exactly the clauses of its operation** (plus, for `merge_and_drop_duplicates`,
that a valid certificate was offered) -/
theorem checkStep_iff (fill : α → α) (nat : Nat → α) (op : Op α) (l : Motl α) (o : Obs α) :
    checkStep eqv fill nat op l o = true ↔ StepOK fill nat op l o ∧ HintOK eqv fill op l o := by
  constructor
  · intro h
    refine ⟨checkStep_sound eqv heqv fill nat op l o h, ?_⟩
    cases op with
    | mergeDropDup b a s =>
      unfold checkStep at h
      simp only [stepClauses] at h
      split at h
      · rename_i cs hf
        have hc := List.find?_some hf
        exact ⟨cs, List.mem_of_find?_eq_some hf, hc⟩
      · simp at h
    | _ => trivial
  · rintro ⟨h, hh⟩
    unfold checkStep
    cases op with
    | subset f vs =>
      simp only [stepClauses, List.all_cons, List.all_nil, Bool.and_true]
      exact (checkSubset_iff eqv heqv f vs l o.out).2 h
    | remove f vs => exact (checkRemove_iff eqv heqv f vs l o.out).2 h
    | splitPick f i =>
      have h' : SplitOK f l o.parts ∧ o.out = o.parts.getD i [] := h
      simp only [stepClauses, List.all_append, List.all_cons, List.all_nil, Bool.and_true, Bool.and_eq_true]
      exact ⟨(checkSplit_iff eqv heqv f l o.parts).2 h'.1, (listEqB_iff eqv heqv _ _).2 h'.2⟩
    | intersect f other => exact (checkIntersect_iff eqv heqv fill f l other o.out).2 h
    | dropDup dup dec asc => exact (checkDropDup_iff eqv heqv _ dup dec asc l o.out).2 h
    | mergeRenumber b a s => exact (checkMergeRenumber_iff eqv heqv fill nat _ o.out).2 h
    | mergeDropDup b a s =>
      obtain ⟨cs, hcs, hc⟩ := hh
      simp only [stepClauses]
      cases hf : o.hints.find? (fun cs => checkMergeDropDup eqv fill cs (rawInputs b a s l) o.out) with
      | some _ => rfl
      | none => exact absurd hc (by simpa using List.find?_eq_none.1 hf cs hcs)
    | renumberParticles => exact (checkRenumberParticles_iff eqv heqv nat l o.out).2 h
    | renumberObjects start => exact (checkRenumberObjects_iff eqv heqv nat start l o.out).2 h

/-- every step of an observed history meets its clauses, each judged against the REAL previous table -/
def RunOK (eqv : α → α → Bool) (fill : α → α) (nat : Nat → α) : List (Op α × Obs α) → Motl α → Prop
  | [], _ => True
  | (op, o) :: rest, l => (StepOK fill nat op l o ∧ HintOK eqv fill op l o) ∧ RunOK eqv fill nat rest o.out

/-- **`checkRun` decides exactly that** -/
theorem checkRun_iff (fill : α → α) (nat : Nat → α) (steps : List (Op α × Obs α)) (l : Motl α) :
    checkRun eqv fill nat steps l = true ↔ RunOK eqv fill nat steps l := by
  induction steps generalizing l with
  | nil => simp [checkRun, RunOK]
  | cons s steps ih =>
    obtain ⟨op, o⟩ := s
    simp only [checkRun, RunOK, Bool.and_eq_true, checkStep_iff eqv heqv, ih]

omit heqv in
theorem mem_rawInputs (b a : List (Bool × Motl α)) (s : Bool) (l : Motl α) (x : Bool × Motl α)
    (hx : x ∈ rawInputs b a s l) (p : Particle α) (hp : p ∈ x.2) :
    p ∈ l ++ ((b.map (·.2)).flatten ++ (a.map (·.2)).flatten)
    ∧ (x.1 = true → (s || (b.any (·.1) || a.any (·.1))) = true) := by
  unfold rawInputs at hx
  simp only [List.mem_append, List.mem_singleton] at hx
  simp only [List.mem_append, List.mem_flatten, List.mem_map]
  rcases hx with (hx | rfl) | hx
  · refine ⟨Or.inr (Or.inl ⟨x.2, ⟨x, hx, rfl⟩, hp⟩), fun e => ?_⟩
    have : b.any (·.1) = true := List.any_eq_true.2 ⟨x, hx, e⟩
    simp [this]
  · exact ⟨Or.inl hp, fun e => by simp at e; simp [e]⟩
  · refine ⟨Or.inr (Or.inr ⟨x.2, ⟨x, hx, rfl⟩, hp⟩), fun e => ?_⟩
    have : a.any (·.1) = true := List.any_eq_true.2 ⟨x, hx, e⟩
    simp [this]

omit heqv in
/-- a member of the shifted inputs is a tagged input, ids read after loading, object numbers moved by one offset -/
theorem mem_shiftedInputs (fill : α → α) (cs : List α) (ins : List (Bool × Motl α)) (x : Bool × Motl α)
    (hx : x ∈ shiftedInputs fill cs ins) :
    ∃ c, ∃ y ∈ ins, x = (y.1, shiftObj c (y.2.map (loadKeys (fillIf fill y.1)))) := by
  unfold shiftedInputs at hx
  induction cs generalizing ins with
  | nil => simp at hx
  | cons c cs ih =>
    cases ins with
    | nil => simp at hx
    | cons y ins =>
      rw [List.zipWith_cons_cons] at hx
      rcases List.mem_cons.1 hx with rfl | hx'
      · exact ⟨c, y, by simp, rfl⟩
      · obtain ⟨c', y', hy', e⟩ := ih ins hx'
        exact ⟨c', y', by simp [hy'], e⟩

omit heqv in
/-- **the history clause for one accepted step**: every row of the REAL result is a row of the REAL
previous table or of a list the operation brings in, only id fields rewritten; a missing value may
have been filled ONLY by an operation that re-loads a frame (`opFill`): selections, drop-duplicates
and the renumberings return literal rows -/
theorem stepOK_rows (fill : α → α) (nat : Nat → α) (hfill : ∀ v, fill (fill v) = fill v) (op : Op α) (l : Motl α) (o : Obs α)
    (h : StepOK fill nat op l o) : ∀ q ∈ o.out, ∃ p ∈ l ++ op.sources, Unchanged (opFill fill op) p q := by
  intro q hq
  cases op with
  | subset f vs =>
    have h' : SubsetOK f vs l o.out := h
    obtain ⟨groups, e, hg⟩ := h'
    rw [e] at hq
    obtain ⟨g, hg1, hqg⟩ := List.mem_flatten.1 hq
    obtain ⟨v, _, rfl⟩ := forall2_mem_right hg g hg1
    exact ⟨q, List.mem_append_left _ (List.mem_filter.1 hqg).1, unchanged_refl _ q⟩
  | remove f vs =>
    have h' : RemoveOK f vs l o.out := h
    exact ⟨q, List.mem_append_left _ (h'.1.mem_iff.1 (List.mem_append_left _ hq)), unchanged_refl _ q⟩
  | splitPick f i =>
    have h' : SplitOK f l o.parts ∧ o.out = o.parts.getD i [] := h
    rw [h'.2, List.getD_eq_getElem?_getD] at hq
    cases hi : o.parts[i]? with
    | none => rw [hi] at hq; simp at hq
    | some part =>
      rw [hi] at hq
      have : q ∈ o.parts.flatten := List.mem_flatten.2 ⟨part, List.mem_of_getElem? hi, hq⟩
      exact ⟨q, List.mem_append_left _ (h'.1.1.mem_iff.1 this), unchanged_refl _ q⟩
  | intersect f other =>
    have h' : IntersectOK fill f l other o.out := h
    obtain ⟨p, hp, hs⟩ := h'.2 q hq
    exact ⟨p, List.mem_append_left _ hp, fun g _ _ => hs g⟩
  | dropDup dup dec asc =>
    have h' : DropDupOK (fun v => v) dup dec asc l o.out := h
    obtain ⟨p, hp, hs⟩ := h'.2.1 q hq
    exact ⟨p, List.mem_append_left _ hp, fun g _ _ => Or.inl ((hs g).elim id id)⟩
  | mergeRenumber b a s =>
    have h' : MergeRenumberOK fill nat (rawInputs b a s l) o.out := h
    obtain ⟨bs, e, hb, _, _⟩ := h'
    rw [e] at hq
    obtain ⟨blk, hblk, hqb⟩ := List.mem_flatten.1 hq
    obtain ⟨x, hx, hbo⟩ := forall2_mem_right hb blk hblk
    obtain ⟨p, hp, hu⟩ := forall2_mem_right hbo.1 q hqb
    obtain ⟨hmem, hflag⟩ := mem_rawInputs b a s l x hx p hp
    exact ⟨p, hmem, unchanged_if_mono fill _ _ hflag p q hu⟩
  | mergeDropDup b a s =>
    have h' : MergeDropDupOK fill (rawInputs b a s l) o.out := h
    obtain ⟨cs, _, _, ht, _⟩ := h'
    obtain ⟨x, hx, p, hp, hs⟩ := ht q hq
    obtain ⟨c, y, hy, rfl⟩ := mem_shiftedInputs fill cs _ x hx
    obtain ⟨p1, hp1, rfl⟩ := List.mem_map.1 hp
    obtain ⟨p0, hp0, rfl⟩ := List.mem_map.1 hp1
    obtain ⟨hmem, hflag⟩ := mem_rawInputs b a s l y hy p0 hp0
    refine ⟨p0, hmem, unchanged_if_mono fill _ _ hflag p0 q ?_⟩
    intro g hg1 hg2
    have := hs g
    unfold loadKeys at this
    by_cases hg3 : g = Field.score
    · subst hg3
      rw [Particle.get_set_other _ _ _ _ hg2, Particle.get_set_same] at this
      have hidem : fillIf fill y.1 (fillIf fill y.1 p0.score) = fillIf fill y.1 p0.score := by
        unfold fillIf; split
        · exact hfill _
        · rfl
      rw [hidem] at this
      exact Or.inr (this.elim id id)
    · rwa [Particle.get_set_other _ _ _ _ hg2, Particle.get_set_other _ _ _ _ hg3, Particle.get_set_other _ _ _ _ hg1,
        Particle.get_set_other _ _ _ _ hg2] at this
  | renumberParticles =>
    have h' : RenumberParticlesOK nat l o.out := h
    obtain ⟨p, hp, hu⟩ := forall2_mem_right h'.2 q hq
    exact ⟨p, List.mem_append_left _ hp, fun g hg1 _ => Or.inl (hu g hg1)⟩
  | renumberObjects start =>
    have h' : RenumberObjectsOK nat start l o.out := h
    obtain ⟨p, hp, hu⟩ := forall2_mem_right h'.1 q hq
    exact ⟨p, List.mem_append_left _ hp, fun g _ hg2 => Or.inl (hu g hg2)⟩

/-- **an accepted observed history**: every row of the last REAL table is one of the rows that
entered the history, with only id fields rewritten; a missing value may have been filled only if the
history contains an operation that re-loads a frame (`histFill`) -/
theorem checkRun_rows (fill : α → α) (nat : Nat → α) (hfill : ∀ v, fill (fill v) = fill v)
    (steps : List (Op α × Obs α)) (l : Motl α) (h : checkRun eqv fill nat steps l = true) :
    ∀ q ∈ lastOut steps l, ∃ p ∈ l ++ steps.flatMap (fun s => s.1.sources),
      Unchanged (histFill fill (steps.map (·.1))) p q := by
  induction steps generalizing l with
  | nil => intro q hq; exact ⟨q, by simpa [lastOut] using hq, unchanged_refl _ q⟩
  | cons s steps ih =>
    obtain ⟨op, o⟩ := s
    simp only [checkRun, Bool.and_eq_true] at h
    intro q hq
    obtain ⟨p1, hp1, hu1⟩ := ih o.out h.2 q (by simpa [lastOut] using hq)
    rw [List.flatMap_cons, List.map_cons]
    have hu1' := unchanged_hist_cons fill op (steps.map (·.1)) p1 q hu1
    rcases List.mem_append.1 hp1 with h1 | h1
    · obtain ⟨p0, hp0, hu0⟩ := stepOK_rows fill nat hfill op l o (checkStep_sound eqv heqv fill nat op l o h.1) p1 h1
      refine ⟨p0, ?_, unchanged_trans _ (histFill_idem fill hfill _) p0 p1 q
        (unchanged_op_to_hist fill op (steps.map (·.1)) p0 p1 hu0) hu1'⟩
      rcases List.mem_append.1 hp0 with h0 | h0
      · exact List.mem_append_left _ h0
      · exact List.mem_append_right _ (List.mem_append_left _ h0)
    · exact ⟨p1, List.mem_append_right _ (List.mem_append_right _ h1), hu1'⟩

end ring
end CryoCat.C08
