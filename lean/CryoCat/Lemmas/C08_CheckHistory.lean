import CryoCat.Lemmas.C08_CheckOps
import CryoCat.Lemmas.C08_History
/-! C08 — an accepted step / an accepted observed history: the clauses hold for the REAL tables, and
every row of the last REAL table is a row that entered the history with only id fields rewritten. -/
namespace CryoCat.C08
open CryoCat
set_option linter.unusedSectionVars false

/-- the clauses one accepted step establishes (per operation) -/
def StepOK {α : Type} [DecidableEq α] [Add α] [LE α] (fill : α → α) (nat : Nat → α) : Op α → Motl α → Obs α → Prop
  | .subset f vs, l, o => SubsetOK f vs l o.out
  | .remove f vs, l, o => RemoveOK f vs l o.out
  | .splitPick f i, l, o => SplitOK f l o.parts ∧ o.out = o.parts.getD i []
  | .intersect f other, l, o => IntersectOK fill f l other o.out
  | .dropDup dup dec asc, l, o => DropDupOK (fun v => v) dup dec asc l o.out
  | .mergeRenumber b a _, l, o => MergeRenumberOK fill nat (rawInputs b a l) o.out
  | .mergeDropDup b a _, l, o => MergeDropDupOK fill (rawInputs b a l) o.out
  | .renumberParticles, l, o => RenumberParticlesOK nat l o.out
  | .renumberObjects start, l, o => RenumberObjectsOK nat start l o.out

theorem forall2_mem_right {β γ : Type} {R : β → γ → Prop} {l : List β} {m : List γ} (h : List.Forall₂ R l m)
    (b : γ) (hb : b ∈ m) : ∃ a ∈ l, R a b := by
  induction h with
  | nil => cases hb
  | cons hab _ ih =>
    rcases List.mem_cons.1 hb with rfl | hb'
    · exact ⟨_, by simp, hab⟩
    · obtain ⟨a, ha, r⟩ := ih hb'
      exact ⟨a, by simp [ha], r⟩

section ring
variable {α : Type} [CommRing α] [LinearOrder α] [IsStrictOrderedRing α]
  (eqv : α → α → Bool) (heqv : ∀ a b, eqv a b = true ↔ a = b)
include heqv

theorem checkStep_sound (fill : α → α) (nat : Nat → α) (op : Op α) (l : Motl α) (o : Obs α)
    (h : checkStep eqv fill nat op l o = true) : StepOK fill nat op l o := by
  unfold checkStep at h
  cases op with
  | subset f vs =>
    simp only [stepClauses, List.all_cons, List.all_nil, Bool.and_true] at h
    exact (checkSubset_iff eqv heqv f vs l o.out).1 h
  | remove f vs => exact (checkRemove_iff eqv heqv f vs l o.out).1 h
  | splitPick f i =>
    simp only [stepClauses, List.all_append, List.all_cons, List.all_nil, Bool.and_true, Bool.and_eq_true] at h
    exact ⟨(checkSplit_iff eqv heqv f l o.parts).1 h.1, (listEqB_iff eqv heqv _ _).1 h.2⟩
  | intersect f other => exact (checkIntersect_iff eqv heqv fill f l other o.out).1 h
  | dropDup dup dec asc => exact (checkDropDup_iff eqv heqv _ dup dec asc l o.out).1 h
  | mergeRenumber b a s => exact (checkMergeRenumber_iff eqv heqv fill nat _ o.out).1 h
  | mergeDropDup b a s =>
    simp only [stepClauses] at h
    split at h
    · rename_i cs hf
      have := List.find?_some hf
      exact (checkMergeDropDup_iff eqv heqv fill _ o.out).1 ⟨_, this⟩
    · simp at h
  | renumberParticles => exact (checkRenumberParticles_iff eqv heqv nat l o.out).1 h
  | renumberObjects start => exact (checkRenumberObjects_iff eqv heqv nat start l o.out).1 h

omit heqv in
theorem mem_rawInputs (b a : List (Bool × Motl α)) (l m : Motl α) (hm : m ∈ rawInputs b a l) (p : Particle α)
    (hp : p ∈ m) : p ∈ l ++ ((b.map (·.2)).flatten ++ (a.map (·.2)).flatten) := by
  unfold rawInputs at hm
  simp only [List.mem_append, List.mem_singleton] at hm
  simp only [List.mem_append, List.mem_flatten]
  rcases hm with (hm | rfl) | hm
  · exact Or.inr (Or.inl ⟨m, hm, hp⟩)
  · exact Or.inl hp
  · exact Or.inr (Or.inr ⟨m, hm, hp⟩)

omit heqv in
/-- **the history clause for one accepted step**: every row of the REAL result is a row of the REAL
previous table or of a list the operation brings in, only id fields rewritten -/
theorem stepOK_rows (fill : α → α) (nat : Nat → α) (op : Op α) (l : Motl α) (o : Obs α)
    (h : StepOK fill nat op l o) : ∀ q ∈ o.out, ∃ p ∈ l ++ op.sources, Unchanged fill p q := by
  intro q hq
  cases op with
  | subset f vs =>
    have h' : SubsetOK f vs l o.out := h
    obtain ⟨groups, e, hg⟩ := h'
    rw [e] at hq
    obtain ⟨g, hg1, hqg⟩ := List.mem_flatten.1 hq
    obtain ⟨v, _, rfl⟩ := forall2_mem_right hg g hg1
    exact ⟨q, List.mem_append_left _ (List.mem_filter.1 hqg).1, unchanged_refl fill q⟩
  | remove f vs =>
    have h' : RemoveOK f vs l o.out := h
    exact ⟨q, List.mem_append_left _ (h'.1.mem_iff.1 (List.mem_append_left _ hq)), unchanged_refl fill q⟩
  | splitPick f i =>
    have h' : SplitOK f l o.parts ∧ o.out = o.parts.getD i [] := h
    rw [h'.2, List.getD_eq_getElem?_getD] at hq
    cases hi : o.parts[i]? with
    | none => rw [hi] at hq; simp at hq
    | some part =>
      rw [hi] at hq
      have : q ∈ o.parts.flatten := List.mem_flatten.2 ⟨part, List.mem_of_getElem? hi, hq⟩
      exact ⟨q, List.mem_append_left _ (h'.1.1.mem_iff.1 this), unchanged_refl fill q⟩
  | intersect f other =>
    have h' : IntersectOK fill f l other o.out := h
    obtain ⟨p, hp, hs⟩ := h'.2 q hq
    exact ⟨p, List.mem_append_left _ hp, fun g _ _ => hs g⟩
  | dropDup dup dec asc =>
    have h' : DropDupOK (fun v => v) dup dec asc l o.out := h
    obtain ⟨p, hp, hs⟩ := h'.2.1 q hq
    exact ⟨p, List.mem_append_left _ hp, fun g _ _ => Or.inl ((hs g).elim id id)⟩
  | mergeRenumber b a s =>
    have h' : MergeRenumberOK fill nat (rawInputs b a l) o.out := h
    obtain ⟨bs, e, hb, _, _⟩ := h'
    rw [e] at hq
    obtain ⟨blk, hblk, hqb⟩ := List.mem_flatten.1 hq
    obtain ⟨m, hm, hbo⟩ := forall2_mem_right hb blk hblk
    obtain ⟨p, hp, hu⟩ := forall2_mem_right hbo.1 q hqb
    exact ⟨p, mem_rawInputs b a l m hm p hp, hu⟩
  | mergeDropDup b a s =>
    have h' : MergeDropDupOK fill (rawInputs b a l) o.out := h
    obtain ⟨cs, _, _, hd⟩ := h'
    obtain ⟨p, hp, hs⟩ := hd.2.1 q hq
    obtain ⟨blk, hblk, hpb⟩ := List.mem_flatten.1 hp
    obtain ⟨i, hi, rfl⟩ := List.mem_iff_getElem.1 hblk
    simp only [List.length_zipWith] at hi
    rw [List.getElem_zipWith] at hpb
    obtain ⟨p0, hp0, rfl⟩ := List.mem_map.1 hpb
    refine ⟨p0, mem_rawInputs b a l _ (List.getElem_mem (by omega)) p0 hp0, ?_⟩
    intro g _ hg2
    have := hs g
    rwa [Particle.get_set_other _ _ _ _ hg2] at this
  | renumberParticles =>
    have h' : RenumberParticlesOK nat l o.out := h
    obtain ⟨p, hp, hu⟩ := forall2_mem_right h'.2 q hq
    exact ⟨p, List.mem_append_left _ hp, fun g hg1 _ => Or.inl (hu g hg1)⟩
  | renumberObjects start =>
    have h' : RenumberObjectsOK nat start l o.out := h
    obtain ⟨p, hp, hu⟩ := forall2_mem_right h'.1 q hq
    exact ⟨p, List.mem_append_left _ hp, fun g _ hg2 => Or.inl (hu g hg2)⟩

/-- **an accepted observed history**: every row of the last REAL table is one of the rows that
entered the history, with only id fields rewritten (a missing value possibly filled) -/
theorem checkRun_rows (fill : α → α) (nat : Nat → α) (hfill : ∀ v, fill (fill v) = fill v)
    (steps : List (Op α × Obs α)) (l : Motl α) (h : checkRun eqv fill nat steps l = true) :
    ∀ q ∈ lastOut steps l, ∃ p ∈ l ++ steps.flatMap (fun s => s.1.sources), Unchanged fill p q := by
  induction steps generalizing l with
  | nil => intro q hq; exact ⟨q, by simpa [lastOut] using hq, unchanged_refl fill q⟩
  | cons s steps ih =>
    obtain ⟨op, o⟩ := s
    simp only [checkRun, Bool.and_eq_true] at h
    intro q hq
    obtain ⟨p1, hp1, hu1⟩ := ih o.out h.2 q (by simpa [lastOut] using hq)
    rw [List.flatMap_cons]
    rcases List.mem_append.1 hp1 with h1 | h1
    · obtain ⟨p0, hp0, hu0⟩ := stepOK_rows fill nat op l o (checkStep_sound eqv heqv fill nat op l o h.1) p1 h1
      refine ⟨p0, ?_, unchanged_trans fill hfill p0 p1 q hu0 hu1⟩
      rcases List.mem_append.1 hp0 with h0 | h0
      · exact List.mem_append_left _ h0
      · exact List.mem_append_right _ (List.mem_append_left _ h0)
    · exact ⟨p1, List.mem_append_right _ (List.mem_append_right _ h1), hu1⟩

end ring
end CryoCat.C08
