import CryoCat.Model.C12
import Mathlib.Tactic.Ring
import Mathlib.Tactic.Linarith
import Mathlib.Algebra.Order.Field.Basic
/-! C12 — helper lemmas: index arithmetic of `ifftshift`, the hard ball, weighted sums with a
non-negative unit-sum kernel, arrays = functions. -/
namespace CryoCat.C12

theorem sphere_strict : sphereStrict = true := rfl

/-! ### index arithmetic -/

theorem shiftIdx_range (n : Nat) (hn : 0 < n) (j : Int) : 0 ≤ shiftIdx n j ∧ shiftIdx n j < (n : Int) := by
  unfold shiftIdx
  exact ⟨Int.emod_nonneg _ (by omega), Int.emod_lt_of_pos _ (by omega)⟩

theorem negIdx_range (n : Nat) (hn : 0 < n) (j : Int) : 0 ≤ negIdx n j ∧ negIdx n j < (n : Int) := by
  unfold negIdx
  exact ⟨Int.emod_nonneg _ (by omega), Int.emod_lt_of_pos _ (by omega)⟩

theorem freq_range (n : Nat) (hn : 0 < n) (j : Int) : -(centre n) ≤ freq n j ∧ freq n j < (n : Int) - centre n := by
  have := shiftIdx_range n hn j
  unfold freq; omega

theorem freq_dvd (n : Nat) (j : Int) : ∃ c : Int, freq n j - j = (n : Int) * c := by
  refine ⟨-((j + centre n) / (n : Int)), ?_⟩
  have := Int.emod_add_mul_ediv (j + centre n) (n : Int)
  unfold freq shiftIdx
  rw [mul_neg]; omega

theorem negIdx_dvd (n : Nat) (j : Int) : ∃ c : Int, negIdx n j + j = (n : Int) * c := by
  refine ⟨-((-j) / (n : Int)), ?_⟩
  have := Int.emod_add_mul_ediv (-j) (n : Int)
  unfold negIdx
  rw [mul_neg]; omega

theorem eq_of_range_dvd (n : Int) (a b : Int) (lo : Int) (ha : lo ≤ a ∧ a < lo + n) (hb : lo ≤ b ∧ b < lo + n)
    (h : ∃ c : Int, a - b = n * c) : a = b := by
  obtain ⟨c, hc⟩ := h
  have hn : 0 < n := by omega
  rcases lt_trichotomy c 0 with h0 | h0 | h0
  · have : n * c ≤ n * (-1) := by apply mul_le_mul_of_nonneg_left <;> omega
    omega
  · subst h0; omega
  · have : n * 1 ≤ n * c := by apply mul_le_mul_of_nonneg_left <;> omega
    omega

/-- `freq n j` is THE integer in `[-⌊n/2⌋, n-⌊n/2⌋)` congruent to `j` modulo `n` -/
theorem freq_unique (n : Nat) (hn : 0 < n) (j a : Int) (h1 : -(centre n) ≤ a) (h2 : a < (n : Int) - centre n)
    (h3 : ∃ c : Int, a - j = (n : Int) * c) : freq n j = a := by
  obtain ⟨c, hc⟩ := h3
  obtain ⟨c', hc'⟩ := freq_dvd n j
  have r := freq_range n hn j
  apply eq_of_range_dvd (n : Int) _ _ (-(centre n)) ⟨r.1, by omega⟩ ⟨h1, by omega⟩
  exact ⟨c' - c, by rw [mul_sub]; omega⟩

theorem freq_neg_sq (n : Nat) (hn : 0 < n) (j : Int) :
    freq n (negIdx n j) * freq n (negIdx n j) = freq n j * freq n j := by
  obtain ⟨c1, h1⟩ := freq_dvd n j
  obtain ⟨c2, h2⟩ := negIdx_dvd n j
  have r := freq_range n hn j
  have hc : centre n = ((n / 2 : Nat) : Int) := rfl
  by_cases hny : freq n j = -(centre n) ∧ n % 2 = 0
  · -- Nyquist bin of an even axis: its own mirror image
    have : freq n (negIdx n j) = freq n j := by
      apply freq_unique n hn _ _ r.1 r.2
      refine ⟨-1 - c1 - c2, ?_⟩
      have e : (n : Int) * (-1 - c1 - c2) = -(n : Int) - (n : Int) * c1 - (n : Int) * c2 := by ring
      rw [e]; omega
    rw [this]
  · have : freq n (negIdx n j) = -(freq n j) := by
      apply freq_unique n hn
      · omega
      · omega
      · refine ⟨-c1 - c2, ?_⟩
        have e : (n : Int) * (-c1 - c2) = -((n : Int) * c1) - (n : Int) * c2 := by ring
        rw [e]; omega
    rw [this]; ring

/-! ### the hard ball -/

theorem inBall_iff (d : Dims) (r : Int) (hr : 0 ≤ r) (x y z : Int) :
    inBall d r x y z = true ↔ dist2 d x y z ≤ r * r := by
  have hq : dist2 d x y z = (x - centre d.nx) * (x - centre d.nx) + (y - centre d.ny) * (y - centre d.ny)
      + (z - centre d.nz) * (z - centre d.nz) := rfl
  have ha := mul_self_nonneg (x - centre d.nx)
  have hb := mul_self_nonneg (y - centre d.ny)
  have hc := mul_self_nonneg (z - centre d.nz)
  have hrr := mul_self_nonneg r
  simp only [inBall, outside, sphere_strict, if_true, Bool.or_eq_true, Bool.and_eq_true, decide_eq_true_eq,
    Bool.not_eq_true']
  constructor
  · rintro (⟨⟨h1, h2⟩, h3⟩ | ⟨h1, h2⟩)
    · rw [hq, h1, h2, h3]; simpa using hrr
    · have : ¬ r < 0 := by omega
      simp only [this, if_false, decide_eq_false_iff_not] at h2
      omega
  · intro h
    by_cases h0 : 0 < dist2 d x y z
    · right
      refine ⟨h0, ?_⟩
      have : ¬ r < 0 := by omega
      simp only [this, if_false, decide_eq_false_iff_not]
      omega
    · left
      have a0 : (x - centre d.nx) * (x - centre d.nx) = 0 := by omega
      have b0 : (y - centre d.ny) * (y - centre d.ny) = 0 := by omega
      have c0 : (z - centre d.nz) * (z - centre d.nz) = 0 := by omega
      have := mul_self_eq_zero.1 a0
      have := mul_self_eq_zero.1 b0
      have := mul_self_eq_zero.1 c0
      refine ⟨⟨?_, ?_⟩, ?_⟩ <;> omega

/-- a negative radius leaves the centre voxel only -/
theorem inBall_neg (d : Dims) (r : Int) (hr : r < 0) (x y z : Int) :
    inBall d r x y z = true ↔ (x = centre d.nx ∧ y = centre d.ny ∧ z = centre d.nz) := by
  simp [inBall, outside, hr, and_assoc]

/-- triangle inequality without square roots: a point within `ρ` of the centre, moved by an offset of
length at most `s`, lies within `ρ + s` -/
theorem ball_add (a b c qa qb qc ρ s : Int) (hρ : 0 ≤ ρ) (hs : 0 ≤ s)
    (hk : a * a + b * b + c * c ≤ ρ * ρ) (hq : qa * qa + qb * qb + qc * qc ≤ s * s) :
    (a + qa) * (a + qa) + (b + qb) * (b + qb) + (c + qc) * (c + qc) ≤ (ρ + s) * (ρ + s) := by
  have lag : (a * qa + b * qb + c * qc) * (a * qa + b * qb + c * qc) ≤ (ρ * s) * (ρ * s) := by
    have e : (a * a + b * b + c * c) * (qa * qa + qb * qb + qc * qc) - (a * qa + b * qb + c * qc) * (a * qa + b * qb + c * qc)
        = (a * qb - b * qa) * (a * qb - b * qa) + (a * qc - c * qa) * (a * qc - c * qa) + (b * qc - c * qb) * (b * qc - c * qb) := by ring
    have h1 := mul_self_nonneg (a * qb - b * qa)
    have h2 := mul_self_nonneg (a * qc - c * qa)
    have h3 := mul_self_nonneg (b * qc - c * qb)
    have h4 : (a * a + b * b + c * c) * (qa * qa + qb * qb + qc * qc) ≤ (ρ * ρ) * (s * s) :=
      mul_le_mul hk hq (by nlinarith [mul_self_nonneg qa, mul_self_nonneg qb, mul_self_nonneg qc]) (mul_self_nonneg ρ)
    have e2 : (ρ * s) * (ρ * s) = (ρ * ρ) * (s * s) := by ring
    rw [e2]; linarith
  have hρs : 0 ≤ ρ * s := mul_nonneg hρ hs
  have dot : a * qa + b * qb + c * qc ≤ ρ * s := by
    by_contra hcon
    rw [not_le] at hcon
    have := mul_self_lt_mul_self hρs hcon
    linarith
  nlinarith

/-- … and a point at least `ρ` away, moved by at most `s`, cannot come within `r` when `r + s < ρ` -/
theorem ball_sub (a b c qa qb qc ρ s r : Int) (hr : 0 ≤ r) (hs : 0 ≤ s) (hρ : r + s < ρ)
    (hk : ρ * ρ ≤ a * a + b * b + c * c) (hq : qa * qa + qb * qb + qc * qc ≤ s * s) :
    ¬ ((a + qa) * (a + qa) + (b + qb) * (b + qb) + (c + qc) * (c + qc) ≤ r * r) := by
  intro h
  have := ball_add (a + qa) (b + qb) (c + qc) (-qa) (-qb) (-qc) r s hr hs h (by simpa using hq)
  simp only [add_neg_cancel_right] at this
  have h2 : (r + s) * (r + s) < ρ * ρ := mul_self_lt_mul_self (by omega) hρ
  linarith

/-! ### weighted sums -/
section wsum
set_option linter.unusedSectionVars false
variable {K : Type} [Field K] [LinearOrder K] [IsStrictOrderedRing K]

def KerNonneg (ker : List (Int × K)) : Prop := ∀ p ∈ ker, 0 ≤ p.2
def KerWithin (t : Nat) (ker : List (Int × K)) : Prop := ∀ p ∈ ker, -(t : Int) ≤ p.1 ∧ p.1 ≤ (t : Int)
/-- what the theorems need of a blur kernel: non-negative weights of total 1 on offsets `-t … t` -/
structure ValidKernel (t : Nat) (ker : List (Int × K)) : Prop where
  nonneg : KerNonneg ker
  unit : ksum ker = 1
  within : KerWithin t ker

theorem wsum_congr (ker : List (Int × K)) (g g' : Int → K) (h : ∀ p ∈ ker, g p.1 = g' p.1) : wsum ker g = wsum ker g' := by
  induction ker with
  | nil => rfl
  | cons p ks ih =>
    obtain ⟨q, w⟩ := p
    simp only [wsum]
    rw [h (q, w) (by simp), ih (fun p hp => h p (by simp [hp]))]

theorem wsum_const (ker : List (Int × K)) (c : K) : wsum ker (fun _ => c) = ksum ker * c := by
  induction ker with
  | nil => simp [wsum, ksum]
  | cons p ks ih => obtain ⟨q, w⟩ := p; simp only [wsum, ksum, ih]; ring

theorem wsum_sub (ker : List (Int × K)) (g g' : Int → K) : wsum ker (fun q => g q - g' q) = wsum ker g - wsum ker g' := by
  induction ker with
  | nil => simp [wsum]
  | cons p ks ih => obtain ⟨q, w⟩ := p; simp only [wsum, ih]; ring

theorem wsum_add (ker : List (Int × K)) (g g' : Int → K) : wsum ker (fun q => g q + g' q) = wsum ker g + wsum ker g' := by
  induction ker with
  | nil => simp [wsum]
  | cons p ks ih => obtain ⟨q, w⟩ := p; simp only [wsum, ih]; ring

theorem wsum_mono (ker : List (Int × K)) (hk : KerNonneg ker) (g g' : Int → K) (h : ∀ p ∈ ker, g p.1 ≤ g' p.1) :
    wsum ker g ≤ wsum ker g' := by
  induction ker with
  | nil => simp [wsum]
  | cons p ks ih =>
    obtain ⟨q, w⟩ := p
    simp only [wsum]
    have hw : 0 ≤ w := hk (q, w) (by simp)
    have h1 := mul_le_mul_of_nonneg_left (h (q, w) (by simp)) hw
    have h2 := ih (fun p hp => hk p (by simp [hp])) (fun p hp => h p (by simp [hp]))
    linarith

theorem clampI_spec (n : Nat) (t : Nat) (x q : Int) (hx : 0 ≤ x ∧ x < (n : Int)) (hq : -(t : Int) ≤ q ∧ q ≤ (t : Int)) :
    (0 ≤ clampI n (x + q) ∧ clampI n (x + q) < (n : Int)) ∧ (-(t : Int) ≤ clampI n (x + q) - x ∧ clampI n (x + q) - x ≤ (t : Int)) := by
  unfold clampI
  split_ifs <;> omega

/-- voxel inside the box -/
def InBox (d : Dims) (x y z : Int) : Prop :=
  (0 ≤ x ∧ x < (d.nx : Int)) ∧ (0 ≤ y ∧ y < (d.ny : Int)) ∧ (0 ≤ z ∧ z < (d.nz : Int))

/-- voxel of the box within Chebyshev distance `t` of `(x,y,z)`: everything a kernel of support `t`
can read there (with `mode='nearest'`) -/
def InCube (d : Dims) (t : Nat) (x y z x' y' z' : Int) : Prop :=
  InBox d x' y' z' ∧ (-(t : Int) ≤ x' - x ∧ x' - x ≤ (t : Int)) ∧ (-(t : Int) ≤ y' - y ∧ y' - y ≤ (t : Int)) ∧ (-(t : Int) ≤ z' - z ∧ z' - z ≤ (t : Int))

/-- the blur at a voxel only reads the kernel cube around it -/
theorem blur3_congr (ker : List (Int × K)) (t : Nat) (hw : KerWithin t ker) (d : Dims) (f f' : Vol K) (x y z : Int)
    (hb : InBox d x y z) (h : ∀ x' y' z', InCube d t x y z x' y' z' → f x' y' z' = f' x' y' z') :
    blur3Fn ker d f x y z = blur3Fn ker d f' x y z := by
  unfold blur3Fn blurZ blurY blurX
  apply wsum_congr; intro pz hz
  apply wsum_congr; intro py hy
  apply wsum_congr; intro px hx
  have cx := clampI_spec d.nx t x px.1 hb.1 (hw px hx)
  have cy := clampI_spec d.ny t y py.1 hb.2.1 (hw py hy)
  have cz := clampI_spec d.nz t z pz.1 hb.2.2 (hw pz hz)
  exact h _ _ _ ⟨⟨cx.1, cy.1, cz.1⟩, cx.2, cy.2, cz.2⟩

theorem blur3_mono (ker : List (Int × K)) (t : Nat) (hn : KerNonneg ker) (hw : KerWithin t ker) (d : Dims) (f f' : Vol K) (x y z : Int)
    (hb : InBox d x y z) (h : ∀ x' y' z', InCube d t x y z x' y' z' → f x' y' z' ≤ f' x' y' z') :
    blur3Fn ker d f x y z ≤ blur3Fn ker d f' x y z := by
  unfold blur3Fn blurZ blurY blurX
  apply wsum_mono _ hn; intro pz hz
  apply wsum_mono _ hn; intro py hy
  apply wsum_mono _ hn; intro px hx
  have cx := clampI_spec d.nx t x px.1 hb.1 (hw px hx)
  have cy := clampI_spec d.ny t y py.1 hb.2.1 (hw py hy)
  have cz := clampI_spec d.nz t z pz.1 hb.2.2 (hw pz hz)
  exact h _ _ _ ⟨⟨cx.1, cy.1, cz.1⟩, cx.2, cy.2, cz.2⟩

theorem blur3_const (ker : List (Int × K)) (hu : ksum ker = 1) (d : Dims) (c : K) (x y z : Int) :
    blur3Fn ker d (fun _ _ _ => c) x y z = c := by
  unfold blur3Fn blurZ blurY blurX
  simp only [wsum_const, hu, one_mul]

theorem blur3_sub (ker : List (Int × K)) (d : Dims) (f f' : Vol K) (x y z : Int) :
    blur3Fn ker d (fun a b c => f a b c - f' a b c) x y z = blur3Fn ker d f x y z - blur3Fn ker d f' x y z := by
  unfold blur3Fn blurZ blurY blurX
  simp only [wsum_sub]

theorem sphere_range (d : Dims) (r : Int) (x y z : Int) : (0 : K) ≤ sphere d r x y z ∧ sphere d r x y z ≤ (1 : K) := by
  unfold sphere; split_ifs <;> simp

end wsum
end CryoCat.C12
