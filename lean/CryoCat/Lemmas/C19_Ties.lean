import CryoCat.Lemmas.C19
import Mathlib.Order.Defs.LinearOrder
import Mathlib.Data.Int.Order.Basic
/-! C19 — what the tie exclusion of the generator is for.

`get_nn_dist` takes the FIRST hit of `KDTree.query_radius(..., sort_results=True)`; the library
promises ascending distances and nothing about the order of equally distant hits.  The model's
`argmin` breaks such ties towards the lowest row position.  Over a linear order: `argmin` returns a
minimiser (`argmin_min`), and when the keys of the candidates are pairwise distinct the result does
not depend on the order in which the candidates are listed (`argmin_perm`) — so, on tie-free inputs,
whatever order the library leaves its hits in, its first hit is the model's. -/
namespace CryoCat.C19
variable {α : Type} [LinearOrder α]

theorem argmin_none (key : Nat → α) : ∀ l : List Nat, argmin key l = none → l = []
  | [], _ => rfl
  | j :: js, h => by
    simp only [argmin] at h
    split at h
    · simp at h
    · split at h <;> simp at h

/-- `argmin` returns a candidate of least key -/
theorem argmin_min (key : Nat → α) : ∀ (l : List Nat) (j : Nat) (x : α), argmin key l = some (j, x) →
    ∀ k ∈ l, key j ≤ key k
  | [], _, _, h => by simp [argmin] at h
  | j0 :: js, j, x, h => by
    intro k hk
    simp only [argmin] at h
    split at h
    · rename_i hn
      have := argmin_none key js hn
      subst this
      simp only [Option.some.injEq, Prod.mk.injEq] at h
      obtain ⟨rfl, rfl⟩ := h
      simp only [List.mem_singleton] at hk
      subst hk
      exact le_refl _
    · rename_i k' dk' hk'
      have hdk : dk' = key k' := (argmin_some key js k' dk' hk').2
      have ih := argmin_min key js k' dk' hk'
      split at h
      · rename_i hlt
        simp only [Option.some.injEq, Prod.mk.injEq] at h
        obtain ⟨rfl, rfl⟩ := h
        rcases List.mem_cons.1 hk with rfl | hk
        · exact le_of_lt (hdk ▸ hlt)
        · exact ih k hk
      · rename_i hnlt
        simp only [Option.some.injEq, Prod.mk.injEq] at h
        obtain ⟨rfl, rfl⟩ := h
        rcases List.mem_cons.1 hk with rfl | hk
        · exact le_refl _
        · exact le_trans (hdk ▸ not_lt.1 hnlt) (ih k hk)

/-- with pairwise distinct keys the result of `argmin` does not depend on the order of the candidates -/
theorem argmin_perm (key : Nat → α) (l1 l2 : List Nat) (hp : l1.Perm l2)
    (hinj : ∀ a ∈ l1, ∀ b ∈ l1, key a = key b → a = b) : argmin key l1 = argmin key l2 := by
  cases h1 : argmin key l1 with
  | none =>
    have := argmin_none key l1 h1
    subst this
    have : l2 = [] := List.Perm.eq_nil (hp.symm)
    subst this
    rfl
  | some p1 =>
    obtain ⟨j1, x1⟩ := p1
    cases h2 : argmin key l2 with
    | none =>
      have := argmin_none key l2 h2
      subst this
      have : l1 = [] := List.Perm.eq_nil hp
      subst this
      simp [argmin] at h1
    | some p2 =>
      obtain ⟨j2, x2⟩ := p2
      obtain ⟨m1, e1⟩ := argmin_some key l1 j1 x1 h1
      obtain ⟨m2, e2⟩ := argmin_some key l2 j2 x2 h2
      have m2' : j2 ∈ l1 := hp.mem_iff.2 m2
      have a := argmin_min key l1 j1 x1 h1 j2 m2'
      have b := argmin_min key l2 j2 x2 h2 j1 (hp.mem_iff.1 m1)
      have := hinj j1 m1 j2 m2' (le_antisymm a b)
      subst this
      rw [e1, e2]

end CryoCat.C19
