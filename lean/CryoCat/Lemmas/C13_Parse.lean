import CryoCat.Model.C13
/-! C13 — `parse_shape_string`: parsing the name written for a shape gives the shape back (core Lean only). -/
namespace CryoCat.C13

theorem valDigits_append (a b : List Char) :
    valDigits (a ++ b) = b.foldl (fun a c => 10 * a + (c.toNat - 48)) (valDigits a) := by
  simp [valDigits, List.foldl_append]

/-- `int(str(n)) = n` -/
theorem valDigits_toDigits (n : Nat) : valDigits (Nat.toDigits 10 n) = n := by
  induction n using Nat.strongRecOn with
  | _ n ih =>
    rw [Nat.toDigits_eq_if (by decide)]
    split
    · rename_i h
      simp [valDigits, Nat.toNat_digitChar_sub_48_of_lt_ten h]
    · rename_i h
      rw [valDigits_append, ih (n / 10) (by omega)]
      simp only [List.foldl_cons, List.foldl_nil, Nat.toNat_digitChar_sub_48_of_lt_ten (Nat.mod_lt n (by decide : 0 < 10))]
      omega

theorem stripPrefix_append (l s : List Char) : stripPrefix l (l ++ s) = some s := by
  induction l with
  | nil => cases s <;> simp [stripPrefix]
  | cons a l ih => simp [stripPrefix, ih]

theorem takeWhile_digits_append (d f : List Char) (hd : ∀ c ∈ d, c.isDigit = true)
    (hf : f = [] ∨ ∃ c cs, f = c :: cs ∧ c.isDigit = false) :
    (d ++ f).takeWhile Char.isDigit = d ∧ (d ++ f).dropWhile Char.isDigit = f := by
  induction d with
  | nil =>
    rcases hf with rfl | ⟨c, cs, rfl, hc⟩
    · simp
    · simp [hc]
  | cons a d ih =>
    have ha := hd a (List.mem_cons_self ..)
    have := ih (fun c hc => hd c (List.mem_cons_of_mem _ hc))
    simp [ha, this]

/-- every label is non-empty and starts with a character that is not a digit (so `\d+` stops there) -/
def GoodLabels (ls : List (List Char)) : Prop := ∀ l ∈ ls, ∃ c cs, l = c :: cs ∧ c.isDigit = false

theorem formatFields_head (ls : List (List Char)) (ns : List Nat) (h : GoodLabels ls) :
    formatFields ls ns = [] ∨ ∃ c cs, formatFields ls ns = c :: cs ∧ c.isDigit = false := by
  cases ls with
  | nil => left; simp [formatFields]
  | cons l ls =>
    cases ns with
    | nil => left; simp [formatFields]
    | cons n ns =>
      right
      obtain ⟨c, cs, rfl, hc⟩ := h l (List.mem_cons_self ..)
      exact ⟨c, cs ++ Nat.toDigits 10 n ++ formatFields ls ns, by simp [formatFields], hc⟩

/-- **parse ∘ format** on one pattern: labels interleaved with `str(n)` parse back to the numbers -/
theorem parseFields_formatFields (ls : List (List Char)) (ns : List Nat) (h : GoodLabels ls) (hlen : ls.length = ns.length) :
    parseFields ls (formatFields ls ns) = some ns := by
  induction ls generalizing ns with
  | nil => cases ns <;> simp_all [formatFields, parseFields]
  | cons l ls ih =>
    cases ns with
    | nil => simp at hlen
    | cons n ns =>
      have hg : GoodLabels ls := fun l' hl' => h l' (List.mem_cons_of_mem _ hl')
      have hd : ∀ c ∈ Nat.toDigits 10 n, c.isDigit = true :=
        fun c hc => Nat.isDigit_of_mem_toDigits (by decide) (by decide) hc
      obtain ⟨ht, hdw⟩ := takeWhile_digits_append (Nat.toDigits 10 n) (formatFields ls ns) hd (formatFields_head ls ns hg)
      have hne : (Nat.toDigits 10 n).isEmpty = false := by
        cases hx : Nat.toDigits 10 n with
        | nil => exact absurd hx Nat.toDigits_ne_nil
        | cons _ _ => rfl
      simp only [formatFields, parseFields, List.append_assoc, stripPrefix_append, ht, hdw, hne,
        ih ns hg (by simpa using hlen), valDigits_toDigits]
      simp

theorem mem_formatFields (ls : List (List Char)) (ns : List Nat) (c : Char) (hc : c ∈ formatFields ls ns) :
    (∃ l ∈ ls, c ∈ l) ∨ c.isDigit = true := by
  induction ls generalizing ns with
  | nil => simp [formatFields] at hc
  | cons l ls ih =>
    cases ns with
    | nil => simp [formatFields] at hc
    | cons n ns =>
      simp only [formatFields, List.mem_append] at hc
      rcases hc with (hc | hc) | hc
      · exact Or.inl ⟨l, List.mem_cons_self .., hc⟩
      · exact Or.inr (Nat.isDigit_of_mem_toDigits (by decide) (by decide) hc)
      · rcases ih ns hc with ⟨l', hl', h'⟩ | h'
        · exact Or.inl ⟨l', List.mem_cons_of_mem _ hl', h'⟩
        · exact Or.inr h'

/-- the table of `cryomask.parse_shape_string` as documented (`Props/C13.lean: labels_documented` shows that the
table compiled from the source is this one) -/
def docLabels : List (String × List (List Char)) :=
  [("sphere", [['s', 'p', 'h', 'e', 'r', 'e', '_', 'r']]),
   ("cylinder", [['c', 'y', 'l', 'i', 'n', 'd', 'e', 'r', '_', 'r'], ['_', 'h']]),
   ("s_shell", [['s', '_', 's', 'h', 'e', 'l', 'l', '_', 'r'], ['_', 's']]),
   ("ellipsoid", [['e', 'l', 'l', 'i', 'p', 's', 'o', 'i', 'd', '_', 'r', 'x'], ['_', 'r', 'y'], ['_', 'r', 'z']]),
   ("e_shell", [['e', '_', 's', 'h', 'e', 'l', 'l', '_', 'r', 'x'], ['_', 'r', 'y'], ['_', 'r', 'z'], ['_', 's']])]

/-- number of dimensions in the name of each shape -/
def arity : Kind → Nat
  | .sphere => 1 | .cylinder => 2 | .sshell => 2 | .ellipsoid => 3 | .eshell => 4

theorem goodLabels_of (ls : List (List Char)) (h : ls.all (fun l => match l with | [] => false | c :: _ => !c.isDigit) = true) :
    GoodLabels ls := by
  intro l hl
  have := List.all_eq_true.1 h l hl
  cases l with
  | nil => simp at this
  | cons c cs => exact ⟨c, cs, rfl, by simpa using this⟩

theorem parseWith_cons_none (e : String × List (List Char)) (tbl : List (String × List (List Char))) (s : List Char)
    (h : parseFields e.2 s = none) : parseWith (e :: tbl) s = parseWith tbl s := by
  simp only [parseWith, List.findSome?_cons, h]
  cases kindOfName e.1 <;> rfl

theorem parseWith_cons_some (name : String) (ls : List (List Char)) (tbl : List (String × List (List Char))) (s : List Char)
    (k : Kind) (ns : List Nat) (hk : kindOfName name = some k) (h : parseFields ls s = some ns) :
    parseWith ((name, ls) :: tbl) s = some (k, ns) := by
  simp only [parseWith, List.findSome?_cons, hk, h]

/-- a pattern whose first label does not start the string does not match -/
theorem parseFields_none_of_prefix (l : List Char) (ls : List (List Char)) (s : List Char) (h : stripPrefix l s = none) :
    parseFields (l :: ls) s = none := by
  simp only [parseFields, h]

end CryoCat.C13
