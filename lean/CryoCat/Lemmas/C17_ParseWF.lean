import CryoCat.Lemmas.C17_Mdoc
/-! C17 — closing the mdoc loop: a decidable class of *texts* (`textOk`, a line-by-line lexical test) for which
whatever the reader returns is a well-formed object (`wfb`), so that `read ∘ write ∘ read = read` holds
unconditionally on that class (core Lean only). -/
namespace CryoCat.C17

/-! ### the class of texts -/

/-- not a float of the exponent-form class (known finding C17-K1) -/
def plainVal : Val → Bool
  | .flt i f => !expClass i f
  | .tilt _ i f => !expClass i f
  | _ => true

/-- a `key = value` line whose key and value come back after a write: the key is non-empty and does not begin with
'[' (it would be written as a line the reader takes for a title / section), the value is not a float of the
exponent-form class (for the `TiltAngle` column of the image table: after the conversion to float). Lines that do
not split into exactly two parts at '=' are refused by the reader anyway. -/
def kvOk (data : Bool) (l : Str) : Bool :=
  match splitEq l with
  | [k, v] =>
    !(strip k).isEmpty && !(['['].isPrefixOf (strip k)) &&
      (if data && strip k == Gen.C17.tiltKey then (match toTilt (classify v) with | some t => plainVal t | none => true)
       else plainVal (classify v))
  | _ => true

/-- a (stripped, non-blank) header line: a title that survives `[` … `]` stripping, or a good key line -/
def headerLineOk (l : Str) : Bool := if ['['].isPrefixOf l then goodTitle (parseTitle l) else kvOk false l
/-- a line of the image part: blank, a bracket line (section start; anything else in brackets is refused), or a good key line -/
def dataLineOk (l : Str) : Bool := isBlank l || ['['].isPrefixOf l || kvOk true l

/-- **the class of mdoc texts**, decided line by line without running the reader -/
def textOk (lines : List Str) : Bool :=
  (((lines.takeWhile (fun l => (secStart l).isNone)).filter (fun l => !isBlank l)).map strip).all headerLineOk &&
  (lines.dropWhile (fun l => (secStart l).isNone)).all dataLineOk

/-! ### strip is idempotent, split parts contain no '=' -/

theorem strip_head (s : Str) (c : Char) (h : (strip s).head? = some c) : isWs c = false := by
  have hpre : rstrip (lstrip s) <+: lstrip s := rstrip_prefix _
  have hne' : rstrip (lstrip s) ≠ [] := by
    intro e; unfold strip at h; rw [e] at h; cases h
  have hh := hpre.head hne'
  have hne2 : lstrip s ≠ [] := by
    intro e; rw [e] at hne'; exact hne' (by simp [rstrip])
  have hl : (lstrip s).head? = some c := by
    rw [List.head?_eq_some_head hne2, ← hh, ← List.head?_eq_some_head hne']; exact h
  have := List.head?_dropWhile_not isWs s
  unfold lstrip at hl
  rw [hl] at this; exact this

theorem strip_strip (s : Str) : strip (strip s) = strip s :=
  strip_eq_self (strip s) (strip_head s) (fun c hc => rstrip_last (lstrip s) c hc)

theorem mem_of_mem_strip (s : Str) (c : Char) (h : c ∈ strip s) : c ∈ s := by
  have h1 : c ∈ lstrip s := (rstrip_prefix (lstrip s)).subset h
  exact (List.dropWhile_suffix (l := s) isWs).subset h1

theorem splitEq_ne_nil : ∀ (l : Str), splitEq l ≠ []
  | [] => by simp [splitEq]
  | c :: cs => by
    unfold splitEq
    split
    · simp
    · split <;> simp

theorem splitEq_no_eq : ∀ (l p : Str), p ∈ splitEq l → '=' ∉ p
  | [], p, h => by
    simp [splitEq] at h; subst h; simp
  | c :: cs, p, h => by
    unfold splitEq at h
    by_cases hc : (c == '=') = true
    · simp only [hc, if_true, List.mem_cons] at h
      rcases h with h | h
      · subst h; simp
      · exact splitEq_no_eq cs p h
    · have hc' : (c == '=') = false := Bool.eq_false_iff.2 hc
      simp only [hc', Bool.false_eq_true, if_false] at h
      have hcne : ¬ '=' = c := by
        intro e; subst e; simp at hc'
      cases hs : splitEq cs with
      | nil => exact absurd hs (splitEq_ne_nil cs)
      | cons q qs =>
        rw [hs] at h
        simp only [List.mem_cons] at h
        rcases h with h | h
        · subst h
          intro hm
          rcases List.mem_cons.1 hm with e | e
          · exact hcne e
          · exact splitEq_no_eq cs q (by rw [hs]; simp) e
        · exact splitEq_no_eq cs p (by rw [hs]; simp [h])

/-! ### canonical digit strings produced by the reader -/

theorem dropZeros_idem (s : Str) : dropZeros (dropZeros s) = dropZeros s := by
  unfold dropZeros
  apply dropWhile_eq_self
  intro c hc
  have := List.head?_dropWhile_not (fun x : Char => x == '0') s
  rw [hc] at this
  simpa using this

theorem canonI_normI (s : Str) (h : ∀ c ∈ s, c.isDigit = true) : canonI (normI s) = true := by
  unfold normI
  by_cases he : (dropZeros s).isEmpty = true
  · simp only [he, if_true]; decide
  · simp only [he, Bool.false_eq_true, if_false]
    have hne : dropZeros s ≠ [] := by simpa [List.isEmpty_iff] using he
    have hsub : ∀ c ∈ dropZeros s, c.isDigit = true := fun c hc => h c ((List.dropWhile_sublist _).subset hc)
    simp only [canonI, Bool.and_eq_true, beq_iff_eq]
    refine ⟨(allDigits_iff _).2 ⟨hne, hsub⟩, ?_⟩
    unfold normI
    rw [dropZeros_idem]
    simp only [he, Bool.false_eq_true, if_false]

theorem canonF_normF (s : Str) (h : ∀ c ∈ s, c.isDigit = true) : canonF (normF s) = true := by
  unfold normF
  by_cases he : (dropZeros s.reverse).isEmpty = true
  · simp only [he, if_true]; decide
  · simp only [he, Bool.false_eq_true, if_false]
    have hne : dropZeros s.reverse ≠ [] := by simpa [List.isEmpty_iff] using he
    have hsub : ∀ c ∈ (dropZeros s.reverse).reverse, c.isDigit = true := fun c hc =>
      h c (List.mem_reverse.1 ((List.dropWhile_sublist _).subset (List.mem_reverse.1 hc)))
    simp only [canonF, Bool.and_eq_true, beq_iff_eq]
    refine ⟨(allDigits_iff _).2 ⟨by simpa using hne, hsub⟩, ?_⟩
    unfold normF
    rw [List.reverse_reverse, dropZeros_idem]
    simp only [he, Bool.false_eq_true, if_false]

theorem removeFirstDot_eq : ∀ (s : Str), removeFirstDot s = (splitDot s).1 ++ (splitDot s).2
  | [] => rfl
  | c :: cs => by
    by_cases hc : (c == '.') = true
    · simp [removeFirstDot, splitDot, hc]
    · have hc' : (c == '.') = false := Bool.eq_false_iff.2 hc
      simp [removeFirstDot, splitDot, hc', removeFirstDot_eq cs]

/-! ### what `_format_value` returns is stable, unless it is a float of the exponent-form class -/

theorem classify_cases (raw : Str) :
    (allDigits (strip raw) = true ∧ classify raw = .int (normI (strip raw))) ∨
    (allDigits (strip raw) = false ∧ allDigits (removeFirstDot (strip raw)) = true ∧
      classify raw = .flt (normI (splitDot (strip raw)).1) (normF (splitDot (strip raw)).2)) ∨
    (allDigits (strip raw) = false ∧ allDigits (removeFirstDot (strip raw)) = false ∧ classify raw = .text (strip raw)) := by
  unfold classify
  by_cases h1 : allDigits (strip raw) = true
  · left; simp [h1]
  · have h1' : allDigits (strip raw) = false := Bool.eq_false_iff.2 h1
    by_cases h2 : allDigits (removeFirstDot (strip raw)) = true
    · right; left; simp [h1', h2]
    · have h2' : allDigits (removeFirstDot (strip raw)) = false := Bool.eq_false_iff.2 h2
      right; right; simp [h1', h2']

theorem digits_of_split (s : Str) (h : allDigits (removeFirstDot s) = true) :
    (∀ c ∈ (splitDot s).1, c.isDigit = true) ∧ (∀ c ∈ (splitDot s).2, c.isDigit = true) := by
  rw [removeFirstDot_eq] at h
  have := ((allDigits_iff _).1 h).2
  exact ⟨fun c hc => this c (List.mem_append_left _ hc), fun c hc => this c (List.mem_append_right _ hc)⟩

/-- **every value the reader types is stable** (re-read as itself after a write) — except a float of the exponent-form class -/
theorem stableVal_classify (raw : Str) (hne : '=' ∉ raw) (hp : plainVal (classify raw) = true) : stableVal (classify raw) = true := by
  rcases classify_cases raw with ⟨h1, e⟩ | ⟨h1, h2, e⟩ | ⟨h1, h2, e⟩
  · rw [e]
    exact canonI_normI _ ((allDigits_iff _).1 h1).2
  · rw [e] at hp ⊢
    obtain ⟨hi, hf⟩ := digits_of_split _ h2
    simp only [plainVal] at hp
    simp only [stableVal, canonI_normI _ hi, canonF_normF _ hf, hp, Bool.and_self]
  · rw [e]
    have hc : classify (strip raw) = .text (strip raw) := by
      simp only [classify, strip_strip, h1, h2, Bool.false_eq_true, if_false]
    have hn : '=' ∉ strip raw := fun hm => hne (mem_of_mem_strip raw '=' hm)
    simp [stableVal, hc, hn]

theorem canonF_zero : canonF ['0'] = true := by decide

/-- … and every TiltAngle cell the reader converts to float is a stable tilt cell, with the same exception -/
theorem stableTilt_toTilt (raw : Str) (t : Val) (h : toTilt (classify raw) = some t) (hp : plainVal t = true) : stableTilt t = true := by
  rcases classify_cases raw with ⟨h1, e⟩ | ⟨h1, h2, e⟩ | ⟨h1, h2, e⟩
  · rw [e] at h
    simp only [toTilt, Option.some.injEq] at h
    subst h
    simp only [plainVal] at hp
    simp only [stableTilt, canonI_normI _ ((allDigits_iff _).1 h1).2, canonF_zero, hp, Bool.and_self]
  · rw [e] at h
    simp only [toTilt, Option.some.injEq] at h
    subst h
    obtain ⟨hi, hf⟩ := digits_of_split _ h2
    simp only [plainVal] at hp
    simp only [stableTilt, canonI_normI _ hi, canonF_normF _ hf, hp, Bool.and_self]
  · rw [e] at h
    generalize strip raw = s at h
    match s, h with
    | '-' :: r, h =>
      simp only [toTilt] at h
      by_cases g1 : allDigits r = true
      · simp only [g1, if_true, Option.some.injEq] at h
        subst h
        simp only [plainVal] at hp
        simp only [stableTilt, canonI_normI _ ((allDigits_iff _).1 g1).2, canonF_zero, hp, Bool.and_self]
      · have g1' : allDigits r = false := Bool.eq_false_iff.2 g1
        by_cases g2 : allDigits (removeFirstDot r) = true
        · simp only [g1', Bool.false_eq_true, if_false, g2, if_true, Option.some.injEq] at h
          subst h
          obtain ⟨hi, hf⟩ := digits_of_split _ g2
          simp only [plainVal] at hp
          simp only [stableTilt, canonI_normI _ hi, canonF_normF _ hf, hp, Bool.and_self]
        · have g2' : allDigits (removeFirstDot r) = false := Bool.eq_false_iff.2 g2
          simp [g1', g2'] at h
    | [], h => simp [toTilt] at h
    | c :: r, h =>
      by_cases hc : c = '-'
      · subst hc
        simp only [toTilt] at h
        by_cases g1 : allDigits r = true
        · simp only [g1, if_true, Option.some.injEq] at h
          subst h
          simp only [plainVal] at hp
          simp only [stableTilt, canonI_normI _ ((allDigits_iff _).1 g1).2, canonF_zero, hp, Bool.and_self]
        · have g1' : allDigits r = false := Bool.eq_false_iff.2 g1
          by_cases g2 : allDigits (removeFirstDot r) = true
          · simp only [g1', Bool.false_eq_true, if_false, g2, if_true, Option.some.injEq] at h
            subst h
            obtain ⟨hi, hf⟩ := digits_of_split _ g2
            simp only [plainVal] at hp
            simp only [stableTilt, canonI_normI _ hi, canonF_normF _ hf, hp, Bool.and_self]
          · have g2' : allDigits (removeFirstDot r) = false := Bool.eq_false_iff.2 g2
            simp [g1', g2'] at h
      · exfalso
        unfold toTilt at h
        split at h <;> simp_all

/-! ### key lines -/

/-- what a good key line gives: a key the reader returns unchanged and a stable value / tilt cell -/
def kvGood (data : Bool) (kv : Str × Val) : Prop :=
  goodKey kv.1 = true ∧
  (if (data && kv.1 == Gen.C17.tiltKey) = true then ∀ t, toTilt kv.2 = some t → stableTilt t = true else stableVal kv.2 = true)

theorem parseKV_good (data : Bool) (l : Str) (kv : Str × Val) (h : parseKV l = some kv) (hok : kvOk data l = true) : kvGood data kv := by
  unfold parseKV at h
  unfold kvOk at hok
  split at h
  · rename_i k v hs
    rw [hs] at hok
    simp only at hok
    obtain ⟨h12, hval⟩ := Bool.and_eq_true_iff.1 hok
    obtain ⟨hne, hbr⟩ := Bool.and_eq_true_iff.1 h12
    simp only [Bool.not_eq_true', List.isEmpty_eq_false_iff] at hne hbr
    injection h with h
    subst h
    have hk : '=' ∉ k := splitEq_no_eq l k (by rw [hs]; simp)
    have hv : '=' ∉ v := splitEq_no_eq l v (by rw [hs]; simp)
    refine ⟨?_, ?_⟩
    · rw [goodKey_iff]
      exact ⟨hne, strip_strip k, fun hm => hk (mem_of_mem_strip k '=' hm), hbr⟩
    · by_cases hc : (data && strip k == Gen.C17.tiltKey) = true
      · simp only [hc, if_true] at hval ⊢
        intro t ht
        simp only [ht] at hval
        exact stableTilt_toTilt v t ht hval
      · simp only [hc, Bool.false_eq_true, if_false] at hval ⊢
        exact stableVal_classify v hv hval
  · cases h

/-! ### header -/

theorem parseHeader_good : ∀ (ls : List Str) (ts : List Str) (info : List (Str × Val)),
    parseHeader ls = some (ts, info) → (∀ l ∈ ls, headerLineOk l = true) →
    (∀ t ∈ ts, goodTitle t = true) ∧ (∀ kv ∈ info, goodKey kv.1 = true ∧ stableVal kv.2 = true) ∧ (info.map (·.1)).Nodup
  | [], ts, info, h, _ => by
    simp only [parseHeader, Option.some.injEq, Prod.mk.injEq] at h
    obtain ⟨rfl, rfl⟩ := h
    simp
  | l :: ls, ts, info, h, hok => by
    unfold parseHeader at h
    cases hr : parseHeader ls with
    | none => simp [hr] at h
    | some r =>
      obtain ⟨ts0, info0⟩ := r
      obtain ⟨iht, ihi, ihn⟩ := parseHeader_good ls ts0 info0 hr (fun x hx => hok x (by simp [hx]))
      have hl := hok l (by simp)
      simp only [hr] at h
      by_cases hb : (['['].isPrefixOf l) = true
      · simp only [hb, if_true, Option.some.injEq, Prod.mk.injEq] at h
        obtain ⟨rfl, rfl⟩ := h
        simp only [headerLineOk, hb, if_true] at hl
        refine ⟨?_, ihi, ihn⟩
        intro t ht
        rcases List.mem_cons.1 ht with e | e
        · subst e; exact hl
        · exact iht t e
      · have hb' : (['['].isPrefixOf l) = false := Bool.eq_false_iff.2 hb
        simp only [hb', Bool.false_eq_true, if_false] at h
        simp only [headerLineOk, hb', Bool.false_eq_true, if_false] at hl
        cases hkv : parseKV l with
        | none => simp [hkv] at h
        | some kv =>
          simp only [hkv] at h
          by_cases hany : (info0.any (fun e => e.1 == kv.1)) = true
          · simp [hany] at h
          · have hany' : (info0.any (fun e => e.1 == kv.1)) = false := Bool.eq_false_iff.2 hany
            simp only [hany', Bool.false_eq_true, if_false, Option.some.injEq, Prod.mk.injEq] at h
            obtain ⟨rfl, rfl⟩ := h
            have hg := parseKV_good false l kv hkv hl
            simp only [kvGood, Bool.false_and, Bool.false_eq_true, if_false] at hg
            refine ⟨iht, ?_, ?_⟩
            · intro x hx
              rcases List.mem_cons.1 hx with e | e
              · subst e; exact hg
              · exact ihi x e
            · simp only [List.map_cons, List.nodup_cons]
              refine ⟨?_, ihn⟩
              intro hm
              obtain ⟨e, he, hek⟩ := List.mem_map.1 hm
              have : (info0.any (fun e => e.1 == kv.1)) = true := by
                simp only [List.any_eq_true, beq_iff_eq]
                exact ⟨e, he, hek⟩
              rw [this] at hany'; cases hany'

/-! ### image sections -/

theorem parseBody_good : ∀ (ls : List Str) (kvs : List (Str × Val)),
    parseBody ls = some kvs → (∀ l ∈ ls, isBlank l = false ∧ dataLineOk l = true) →
    (∀ kv ∈ kvs, kvGood true kv) ∧ (kvs.map (·.1)).Nodup
  | [], kvs, h, _ => by
    simp only [parseBody, Option.some.injEq] at h
    subst h; simp
  | l :: ls, kvs, h, hok => by
    unfold parseBody at h
    cases hr : parseBody ls with
    | none => simp [hr] at h
    | some kvs0 =>
      obtain ⟨ihg, ihn⟩ := parseBody_good ls kvs0 hr (fun x hx => hok x (by simp [hx]))
      have hl := hok l (by simp)
      simp only [hr] at h
      by_cases hb : (['['].isPrefixOf l) = true
      · simp [hb] at h
      · have hb' : (['['].isPrefixOf l) = false := Bool.eq_false_iff.2 hb
        simp only [hb', Bool.false_eq_true, if_false] at h
        have hkvok : kvOk true l = true := by
          have := hl.2
          simpa [dataLineOk, hl.1, hb'] using this
        cases hkv : parseKV l with
        | none => simp [hkv] at h
        | some kv =>
          simp only [hkv] at h
          by_cases hany : (kvs0.any (fun e => e.1 == kv.1)) = true
          · simp [hany] at h
          · have hany' : (kvs0.any (fun e => e.1 == kv.1)) = false := Bool.eq_false_iff.2 hany
            simp only [hany', Bool.false_eq_true, if_false, Option.some.injEq] at h
            subst h
            have hg := parseKV_good true l kv hkv hkvok
            refine ⟨?_, ?_⟩
            · intro x hx
              rcases List.mem_cons.1 hx with e | e
              · subst e; exact hg
              · exact ihg x e
            · simp only [List.map_cons, List.nodup_cons]
              refine ⟨?_, ihn⟩
              intro hm
              obtain ⟨e, he, hek⟩ := List.mem_map.1 hm
              have : (kvs0.any (fun e => e.1 == kv.1)) = true := by
                simp only [List.any_eq_true, beq_iff_eq]
                exact ⟨e, he, hek⟩
              rw [this] at hany'; cases hany'

/-- every line the section loop collects is a non-blank line of its input -/
theorem secGo_mem (p : Str) : ∀ (ls cur : List Str) (sec : List Str), sec ∈ secGo p cur ls →
    ∀ l ∈ sec, l ∈ cur ∨ (l ∈ ls ∧ isBlank l = false)
  | [], cur, sec, h, l, hl => by
    simp only [secGo, List.mem_cons, List.not_mem_nil, or_false] at h
    subst h; exact Or.inl hl
  | x :: ls, cur, sec, h, l, hl => by
    unfold secGo at h
    by_cases hc : (p.isPrefixOf x && !cur.isEmpty) = true
    · simp only [hc, if_true, List.mem_cons] at h
      rcases h with h | h
      · subst h; exact Or.inl hl
      · by_cases hbx : isBlank x = true
        · simp only [hbx, if_true] at h
          rcases secGo_mem p ls [] sec h l hl with e | e
          · cases e
          · exact Or.inr ⟨List.mem_cons_of_mem _ e.1, e.2⟩
        · have hbx' : isBlank x = false := Bool.eq_false_iff.2 hbx
          simp only [hbx', Bool.false_eq_true, if_false] at h
          rcases secGo_mem p ls [x] sec h l hl with e | e
          · simp only [List.mem_cons, List.not_mem_nil, or_false] at e
            subst e; exact Or.inr ⟨List.mem_cons_self, hbx'⟩
          · exact Or.inr ⟨List.mem_cons_of_mem _ e.1, e.2⟩
    · simp only [hc, Bool.false_eq_true, if_false] at h
      by_cases hbx : isBlank x = true
      · simp only [hbx, if_true] at h
        rcases secGo_mem p ls cur sec h l hl with e | e
        · exact Or.inl e
        · exact Or.inr ⟨List.mem_cons_of_mem _ e.1, e.2⟩
      · have hbx' : isBlank x = false := Bool.eq_false_iff.2 hbx
        simp only [hbx', Bool.false_eq_true, if_false] at h
        rcases secGo_mem p ls (cur ++ [x]) sec h l hl with e | e
        · rcases List.mem_append.1 e with e | e
          · exact Or.inl e
          · simp only [List.mem_cons, List.not_mem_nil, or_false] at e
            subst e; exact Or.inr ⟨List.mem_cons_self, hbx'⟩
        · exact Or.inr ⟨List.mem_cons_of_mem _ e.1, e.2⟩

theorem cells_good : ∀ (kvs : List (Str × Val)) (cells : List Val), kvs.mapM convTilt = some cells →
    (∀ kv ∈ kvs, kvGood true kv) →
    cells.length = kvs.length ∧ ((kvs.map (·.1)).zip cells).all (fun p => stableCell p.1 p.2) = true
  | [], cells, h, _ => by
    simp at h; subst h; simp
  | kv :: kvs, cells, h, hg => by
    rw [List.mapM_cons] at h
    cases hc : convTilt kv with
    | none => simp [hc] at h
    | some v =>
      cases hm : kvs.mapM convTilt with
      | none => simp [hc, hm] at h
      | some vs =>
        simp [hc, hm] at h
        subst h
        obtain ⟨ihl, iha⟩ := cells_good kvs vs hm (fun x hx => hg x (by simp [hx]))
        refine ⟨by simp [ihl], ?_⟩
        simp only [List.map_cons, List.zip_cons_cons, List.all_cons, iha, Bool.and_true]
        have hkv := (hg kv (by simp)).2
        unfold convTilt at hc
        unfold stableCell
        by_cases hk : (kv.1 == Gen.C17.tiltKey) = true
        · simp only [hk, if_true, Bool.true_and] at hc hkv ⊢
          exact hkv v hc
        · have hk' : (kv.1 == Gen.C17.tiltKey) = false := Bool.eq_false_iff.2 hk
          simp only [hk', Bool.false_eq_true, if_false, Bool.and_false, Option.some.injEq] at hc hkv ⊢
          subst hc; exact hkv

theorem mkRow_good (cols : List Str) (sec : List Str) (r : Row) (h : mkRow cols sec = some r)
    (hok : ∀ l ∈ sec.drop 1, isBlank l = false ∧ dataLineOk l = true) :
    goodRow cols r = true ∧ (∀ k ∈ cols, goodKey k = true) ∧ cols.Nodup := by
  unfold mkRow at h
  cases sec with
  | nil => simp at h
  | cons hd body =>
    simp only [List.drop_succ_cons, List.drop_zero] at hok
    simp only at h
    cases hz : parseSecValue hd with
    | none => simp [hz] at h
    | some z =>
      cases hb : parseBody body with
      | none => simp [hz, hb] at h
      | some kvs =>
        simp only [hz, hb] at h
        by_cases hd1 : allDigits z = true
        · simp only [hd1, Bool.not_true, Bool.false_eq_true, if_false] at h
          by_cases hk : (kvs.map (·.1) != cols) = true
          · simp [hk] at h
          · have hk' : kvs.map (·.1) = cols := by simpa using hk
            have hkf : (kvs.map (·.1) != cols) = false := by simpa using hk
            simp only [hkf, Bool.false_eq_true, if_false] at h
            cases hm : kvs.mapM convTilt with
            | none => simp [hm] at h
            | some cells =>
              simp only [hm, Option.some.injEq] at h
              subst h
              obtain ⟨hg, hnd⟩ := parseBody_good body kvs hb hok
              obtain ⟨hlen, hall⟩ := cells_good kvs cells hm hg
              refine ⟨?_, ?_, ?_⟩
              · simp only [goodRow, Bool.and_eq_true, beq_iff_eq]
                refine ⟨⟨canonI_normI z ((allDigits_iff z).1 hd1).2, ?_⟩, ?_⟩
                · rw [hlen, ← hk']; simp
                · rw [← hk']; exact hall
              · intro k hkm
                rw [← hk'] at hkm
                obtain ⟨kv, hkv, rfl⟩ := List.mem_map.1 hkm
                exact (hg kv hkv).1
              · rw [← hk']; exact hnd
        · have hd1' : allDigits z = false := Bool.eq_false_iff.2 hd1
          simp [hd1'] at h

theorem secStart_sid (l sid : Str) (h : secStart l = some sid) : sid = zvalue ∨ sid = frameset := by
  simp only [secStart, Gen.C17.sectionPrefixes, List.findSome?] at h
  split at h
  · rename_i hh
    split at hh
    · injection hh with hh; injection h with h; left; rw [← h, ← hh]; rfl
    · cases hh
  · split at h
    · rename_i hh
      split at hh
      · injection hh with hh; injection h with h; right; rw [← h, ← hh]; rfl
      · cases hh
    · cases h

/-! ### the whole file -/

/-- what a successful `parseMdoc` consists of -/
theorem parseMdoc_some (lines : List Str) (m : Mdoc) (h : parseMdoc lines = some m) :
    ∃ first rest s0 secs,
      lines.dropWhile (fun l => (secStart l).isNone) = first :: rest ∧ secStart first = some m.sid ∧
      parseHeader (((lines.takeWhile (fun l => (secStart l).isNone)).filter (fun l => !isBlank l)).map strip) = some (m.titles, m.info) ∧
      secGo ('[' :: m.sid) [] (first :: rest) = s0 :: secs ∧ m.cols = (s0.drop 1).map colName ∧
      m.cols.contains Gen.C17.tiltKey = true ∧ (s0 :: secs).mapM (mkRow m.cols) = some m.rows := by
  unfold parseMdoc at h
  simp only at h
  cases hd : lines.dropWhile (fun l => (secStart l).isNone) with
  | nil => (simp only [hd] at h) <;> cases h
  | cons first rest =>
    simp only [hd] at h
    cases hs : secStart first with
    | none => (simp only [hs] at h) <;> cases h
    | some sid =>
      cases hh : parseHeader (((lines.takeWhile (fun l => (secStart l).isNone)).filter (fun l => !isBlank l)).map strip) with
      | none => (simp only [hs, hh] at h) <;> cases h
      | some th =>
        obtain ⟨titles, info⟩ := th
        simp only [hs, hh] at h
        cases hg : secGo ('[' :: sid) [] (first :: rest) with
        | nil => (simp only [hg] at h) <;> cases h
        | cons s0 secs =>
          simp only [hg] at h
          by_cases hc : (List.map colName (List.drop 1 s0)).contains Gen.C17.tiltKey = true
          · simp only [hc, Bool.not_true, Bool.false_eq_true, if_false] at h
            cases hm : (s0 :: secs).mapM (mkRow (List.map colName (List.drop 1 s0))) with
            | none => (simp only [hm] at h) <;> cases h
            | some rows =>
              simp only [hm, Option.some.injEq] at h
              subst h
              exact ⟨first, rest, s0, secs, rfl, hs, rfl, hg, rfl, hc, hm⟩
          · have hc' : (List.map colName (List.drop 1 s0)).contains Gen.C17.tiltKey = false := Bool.eq_false_iff.2 hc
            (simp only [hc', Bool.not_false, if_true] at h) <;> cases h

/-- **parse_wf**: for every text of the class `textOk`, whatever the reader returns is a well-formed object -/
theorem parse_wfb (lines : List Str) (m : Mdoc) (h : parseMdoc lines = some m) (hok : textOk lines = true) : wfb m = true := by
  obtain ⟨first, rest, s0, secs, hd, hs, hh, hg, hcols, hcont, hm⟩ := parseMdoc_some lines m h
  simp only [textOk, Bool.and_eq_true, List.all_eq_true] at hok
  obtain ⟨hhead, hdata⟩ := hok
  rw [hd] at hdata
  obtain ⟨ht, hi, hn⟩ := parseHeader_good _ _ _ hh hhead
  -- rows
  obtain ⟨hlen, hget⟩ := mapM_some_spec _ _ _ hm
  have hsec : ∀ sec ∈ s0 :: secs, ∀ l ∈ sec.drop 1, isBlank l = false ∧ dataLineOk l = true := by
    intro sec hsec l hl
    have hl' : l ∈ sec := (List.drop_sublist 1 sec).subset hl
    rw [← hg] at hsec
    rcases secGo_mem _ _ _ sec hsec l hl' with e | e
    · cases e
    · exact ⟨e.2, hdata l e.1⟩
  have hrows : ∀ r ∈ m.rows, goodRow m.cols r = true ∧ (∀ k ∈ m.cols, goodKey k = true) ∧ m.cols.Nodup := by
    intro r hr
    obtain ⟨i, hi', hri⟩ := List.getElem_of_mem hr
    have hi2 : i < (s0 :: secs).length := hlen ▸ hi'
    obtain ⟨b, hb, hf⟩ := hget i _ (List.getElem?_eq_getElem hi2)
    rw [List.getElem?_eq_getElem hi'] at hb
    injection hb with hb
    rw [hri] at hb; subst hb
    exact mkRow_good m.cols _ r hf (hsec _ (List.getElem_mem hi2))
  have hr0 : ∃ r, r ∈ m.rows := by
    have : 0 < m.rows.length := by rw [hlen]; simp
    exact ⟨m.rows[0], List.getElem_mem this⟩
  obtain ⟨r0, hr0⟩ := hr0
  obtain ⟨_, hkeys, hnd⟩ := hrows r0 hr0
  have hsid := secStart_sid first m.sid hs
  simp only [wfb, Bool.and_eq_true, List.all_eq_true, decide_eq_true_eq, Bool.or_eq_true, beq_iff_eq]
  exact ⟨⟨⟨⟨⟨⟨⟨fun kv hkv => hi kv hkv, hn⟩, ht⟩, hsid⟩, hkeys⟩, hnd⟩, hcont⟩, fun r hr => (hrows r hr).1⟩

/-! ### the operations keep an object well-formed -/

theorem wf_sort (m : Mdoc) (h : WF m) : WF (sortByTilt false m) := by
  refine ⟨h.info, h.infoNodup, h.titles, h.sid, h.colKeys, h.colNodup, h.hasTilt, ?_⟩
  intro r hr
  have hp : (sortByTilt false m).rows.Perm m.rows := by
    simp only [sortByTilt, sortRowsBy, Bool.false_and, Bool.false_eq_true, if_false]
    exact List.mergeSort_perm _ _
  exact h.rows r (hp.mem_iff.1 hr)

theorem goodRow_flag (cols : List Str) (r : Row) (b : Bool) : goodRow cols { r with removed := b } = goodRow cols r := rfl

theorem wf_remove (m m' : Mdoc) (idxs : List Int) (k : Bool) (h : WF m) (hr : removeImages idxs k m = some m') : WF m' := by
  unfold removeImages at hr
  cases ht : targets idxs k m.rows with
  | none => simp [ht] at hr
  | some ts =>
    simp only [ht, Option.some.injEq] at hr
    subst hr
    refine ⟨h.info, h.infoNodup, h.titles, h.sid, h.colKeys, h.colNodup, h.hasTilt, ?_⟩
    intro r hr
    simp only [List.mem_map] at hr
    obtain ⟨p, hp, rfl⟩ := hr
    have hget : m.rows[p.2]? = some p.1 := List.mk_mem_zipIdx_iff_getElem?.1 (by cases p; exact hp)
    have hmem : p.1 ∈ m.rows := List.mem_of_getElem? hget
    by_cases hc : ts.contains p.2 = true
    · simp only [hc, if_true]
      rw [goodRow_flag]; exact h.rows _ hmem
    · simp only [hc, Bool.false_eq_true, if_false]
      exact h.rows _ hmem

theorem wf_applyOps : ∀ (ops : List Op) (m m' : Mdoc), WF m → applyOps ops m = some m' → WF m'
  | [], m, m', h, he => by
    simp only [applyOps, Option.some.injEq] at he
    subst he; exact h
  | o :: os, m, m', h, he => by
    simp only [applyOps] at he
    cases ho : o.apply m with
    | none => simp [ho] at he
    | some m1 =>
      simp only [ho, Option.bind_some] at he
      have h1 : WF m1 := by
        cases o with
        | sort =>
          simp only [Op.apply, Option.some.injEq] at ho
          subst ho; exact wf_sort m h
        | remove idxs k => exact wf_remove m m1 idxs k h ho
      exact wf_applyOps os m1 m' h1 he

end CryoCat.C17
