import CryoCat.Lemmas.C15_ops
/-! C15 — helper lemmas of the hardening pass (core Lean only): angle lists of another length than the stack,
which axis a flip reverses, the dtype cast commuting with file I/O and transposition, truncation toward zero. -/
namespace CryoCat.C15
variable {α β ι κ : Type}

/-! ### `np.argsort` is a permutation of `0 .. len-1`; what indexing with it does to a stack of another length -/

theorem argsort_perm (le : κ → κ → Bool) (angles : List κ) :
    (argsort le angles).Perm (List.range' 0 angles.length) := by
  unfold argsort
  have := (List.mergeSort_perm angles.zipIdx (fun a b => le a.1 b.1)).map (·.2)
  rwa [List.zipIdx_map_snd] at this

theorem argsort_length (le : κ → κ → Bool) (angles : List κ) : (argsort le angles).length = angles.length := by
  simpa using (argsort_perm le angles).length_eq

theorem argsort_all_lt (le : κ → κ → Bool) (angles : List κ) (n : Nat) :
    (argsort le angles).all (· < n) = true ↔ angles.length ≤ n := by
  simp only [List.all_eq_true, decide_eq_true_eq]
  constructor
  · intro h
    by_cases h0 : angles.length = 0
    · omega
    · have hm : angles.length - 1 ∈ argsort le angles :=
        (argsort_perm le angles).mem_iff.2 (by simp [List.mem_range'_1]; omega)
      have := h _ hm
      omega
  · intro h i hi
    have := (argsort_perm le angles).mem_iff.1 hi
    simp [List.mem_range'_1] at this
    omega

theorem filterMap_get_length (imgs : List ι) (idx : List Nat) (h : ∀ i ∈ idx, i < imgs.length) :
    (idx.filterMap (imgs[·]?)).length = idx.length := by
  induction idx with
  | nil => rfl
  | cons a t ih =>
    have ha : a < imgs.length := h a (by simp)
    rw [List.filterMap_cons]
    simp only [List.getElem?_eq_getElem ha, List.length_cons, ih (fun i hi => h i (by simp [hi]))]

/-! ### which axis a flip reverses -/

theorem getD_reverse (l : List β) (d : β) {i : Nat} (h : i < l.length) : l.reverse.getD i d = l.getD (l.length - 1 - i) d := by
  rw [List.getD_eq_getElem?_getD, List.getD_eq_getElem?_getD, List.getElem?_reverse h]

theorem getD_map_nil {γ : Type} (f : List β → List γ) (hf : f [] = []) (l : List (List β)) (i : Nat) :
    (l.map f).getD i [] = f (l.getD i []) := by
  rw [List.getD_eq_getElem?_getD, List.getD_eq_getElem?_getD, List.getElem?_map]
  cases l[i]? <;> simp [hf]

theorem get3_flipAxis (d : α) {n H W : Nat} {v : L3 α} (h : Rect n H W v) {z j i : Nat} (hz : z < n) (hj : j < H) :
    get3 d (flipAxis 0 v) z j i = get3 d v (n - 1 - z) j i
    ∧ get3 d (flipAxis 1 v) z j i = get3 d v z (H - 1 - j) i
    ∧ get3 d (flipAxis 2 v) z j i = get3 d v z j (W - 1 - i) ∨ W ≤ i := by
  obtain ⟨hn, himg⟩ := h
  by_cases hi : i < W
  · left
    have hzv : z < v.length := by omega
    have hmem : v.getD z [] ∈ v := getD_mem v [] hzv
    obtain ⟨hH, hrow⟩ := himg _ hmem
    refine ⟨?_, ?_, ?_⟩
    · simp only [get3, flipAxis]
      rw [getD_reverse v [] hzv, hn]
    · simp only [get3, flipAxis]
      rw [getD_map_nil List.reverse rfl, getD_reverse _ [] (by omega), hH]
    · simp only [get3, flipAxis]
      rw [getD_map_nil (fun img => img.map List.reverse) rfl, getD_map_nil List.reverse rfl]
      have hjv : j < (v.getD z []).length := by omega
      have hW := hrow _ (getD_mem (v.getD z []) [] hjv)
      rw [getD_reverse _ d (by omega), hW]
  · right; omega

/-! ### the dtype cast commutes with reshaping, file I/O and transposition -/

theorem chunk_map (c : α → β) (n : Nat) : ∀ (k : Nat) (data : List α), chunk n k (data.map c) = (chunk n k data).map (List.map c)
  | 0, _ => rfl
  | k + 1, data => by
    simp only [chunk, List.map_cons, ← List.map_take, ← List.map_drop, chunk_map c n k]

theorem readMrc_map (c : α → β) (f : Mrc α) : readMrc (Mrc.map c f) = A3.map c (readMrc f) := by
  simp only [readMrc, Mrc.map, A3.map, chunk_map, List.map_map]
  congr 1
  apply List.map_congr_left
  intro img _
  simp [Function.comp, chunk_map]

theorem writeMrc_map (c : α → β) (a : A3 α) : writeMrc (A3.map c a) = Mrc.map c (writeMrc a) := by
  simp only [writeMrc, A3.map, Mrc.map, List.map_flatMap, List.flatMap_map, id]

theorem get3_map (c : α → β) (d : α) (v : L3 α) (i j k : Nat) :
    get3 (c d) (v.map (fun img => img.map (fun row => row.map c))) i j k = c (get3 d v i j k) := by
  simp only [get3]
  rw [getD_map_nil (fun img => img.map (fun row => row.map c)) rfl v i,
    getD_map_nil (fun row => row.map c) rfl (v.getD i []) j]
  generalize (v.getD i []).getD j [] = row
  rw [List.getD_eq_getElem?_getD, List.getD_eq_getElem?_getD, List.getElem?_map]
  cases row[k]? <;> rfl

theorem transpose3_map (c : α → β) (d : α) (a : A3 α) : transpose3 (c d) (A3.map c a) = A3.map c (transpose3 d a) := by
  simp only [transpose3, A3.map, tab3, List.map_map]
  congr 1
  apply List.map_congr_left; intro i _
  simp only [Function.comp, List.map_map]
  apply List.map_congr_left; intro j _
  simp only [Function.comp, List.map_map]
  apply List.map_congr_left; intro k _
  exact get3_map c d a.v k j i

/-! ### truncation toward zero (`astype(int16)` of a float) -/

theorem tdiv_toward_zero (num : Int) (den : Nat) (hden : 0 < den) :
    (0 ≤ num → 0 ≤ Int.tdiv num den ∧ Int.tdiv num den * den ≤ num ∧ num < (Int.tdiv num den + 1) * den)
    ∧ (num ≤ 0 → Int.tdiv num den ≤ 0 ∧ num ≤ Int.tdiv num den * den ∧ (Int.tdiv num den - 1) * den < num) := by
  have hd : (0 : Int) < den := by exact_mod_cast hden
  constructor
  · intro h
    rw [Int.tdiv_eq_ediv_of_nonneg h]
    have h1 := Int.ediv_nonneg h (Int.le_of_lt hd)
    have h2 := Int.ediv_mul_le num (Int.ne_of_gt hd)
    have h3 := Int.lt_ediv_add_one_mul_self num hd
    exact ⟨h1, h2, h3⟩
  · intro h
    have hneg : Int.tdiv num den = -(Int.tdiv (-num) den) := by rw [Int.neg_tdiv, Int.neg_neg]
    have hn : 0 ≤ -num := by omega
    rw [hneg, Int.tdiv_eq_ediv_of_nonneg hn]
    have h1 := Int.ediv_nonneg hn (Int.le_of_lt hd)
    have h2 := Int.ediv_mul_le (-num) (Int.ne_of_gt hd)
    have h3 := Int.lt_ediv_add_one_mul_self (-num) hd
    refine ⟨by omega, ?_, ?_⟩
    · rw [Int.neg_mul]; omega
    · have : (-((-num) / (den : Int)) - 1) * (den : Int) = -(((-num) / (den : Int) + 1) * den) := by
        rw [Int.sub_mul, Int.add_mul, Int.neg_mul]; omega
      rw [this]; omega

end CryoCat.C15
