import CryoCat.Props.C01
#print axioms CryoCat.C01.anchors_ok
#print axioms CryoCat.C01.em_field_order
#print axioms CryoCat.C01.read_expects_20
#print axioms CryoCat.C01.writer_selects_by_name
#print axioms CryoCat.C01.em_roundtrip
#print axioms CryoCat.C01.em_roundtrip_named
#print axioms CryoCat.C01.cell_canonical
#print axioms CryoCat.C01.em_write_perm_invariant
#print axioms CryoCat.C01.em_layout
#print axioms CryoCat.C01.em_offset
#print axioms CryoCat.C01.accepted_iff
#print axioms CryoCat.C01.em_scrambles_without_reindex
