import CryoCat.Props.C19
#print axioms CryoCat.C19.anchors_ok
#print axioms CryoCat.C19.nn_sorted_first
#print axioms CryoCat.C19.tail_renumbered_by_chain_order
#print axioms CryoCat.C19.both_sides_fresh_id
#print axioms CryoCat.C19.opts_documented
#print axioms CryoCat.C19.trace_partition
#print axioms CryoCat.C19.trace_partition_all
#print axioms CryoCat.C19.once_no_span
#print axioms CryoCat.C19.trace_no_span
#print axioms CryoCat.C19.trace_links_partial
#print axioms CryoCat.C19.check_sound
#print axioms CryoCat.C19.tailcut_roworder_counterexample
#print axioms CryoCat.C19.double_cut_shared_id_counterexample
#print axioms CryoCat.C19.repaired_model_passes_witnesses
