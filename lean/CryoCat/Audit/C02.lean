import CryoCat.Props.C02
#print axioms CryoCat.C02.anchors_ok
#print axioms CryoCat.C02.tokenizer_literals_documented
#print axioms CryoCat.C02.writer_literals_documented
#print axioms CryoCat.C02.tokenizeLine_spec
#print axioms CryoCat.C02.line_tokens
#print axioms CryoCat.C02.text_tokens
#print axioms CryoCat.C02.read_any_layout
#print axioms CryoCat.C02.column_typing
#print axioms CryoCat.C02.star_roundtrip
#print axioms CryoCat.C02.written_text_is_laid_out
#print axioms CryoCat.C02.loop_cell_breaks_roundtrip
#print axioms CryoCat.C02.empty_block_not_last_breaks
