import Lean.Data.Json
/-! Line protocol helpers for the model driver (Mathlib-free). One JSON request per line,
one JSON response per line. -/
namespace CryoCat.Drv
open Lean

def err (kind : String) : Json := Json.mkObj [("error", Json.str kind)]

def getNat? (j : Json) (k : String) : Option Nat := (j.getObjValAs? Nat k).toOption
def getInt? (j : Json) (k : String) : Option Int := (j.getObjValAs? Int k).toOption
def getStr? (j : Json) (k : String) : Option String := (j.getObjValAs? String k).toOption
def getArr? (j : Json) (k : String) : Option (Array Json) :=
  match j.getObjVal? k with
  | .ok (Json.arr a) => some a
  | _ => none

/-- floats travel as their IEEE-754 binary64 bit pattern (a natural number) -/
def floatOfBits (n : Nat) : Float := Float.ofBits n.toUInt64
def bitsOfFloat (x : Float) : Nat := x.toBits.toNat
end CryoCat.Drv
