import CryoCat.Drv.Proto
import CryoCat.Model.C14
namespace CryoCat.Drv.C14
open Lean CryoCat CryoCat.C14

def parseRow {β : Type} (conv : Json → Option β) (j : Json) : Option (List β) :=
  match j with
  | Json.arr a => a.toList.mapM conv
  | _ => none

def parseVol {β : Type} (conv : Json → Option β) (j : Json) : Option (Vol β) :=
  parseRow (parseRow (parseRow conv)) j

def jInt (j : Json) : Option Int := j.getInt?.toOption
def jNat (j : Json) : Option Nat := j.getNat?.toOption
def jFloat (j : Json) : Option Float := (jNat j).map floatOfBits
def jBool (j : Json) : Option Bool := (jInt j).map (· != 0)

def getVol {β : Type} (conv : Json → Option β) (j : Json) (k : String) : Option (Vol β) :=
  (j.getObjVal? k).toOption >>= parseVol conv

def getInts (j : Json) (k : String) : Option (List Int) := (j.getObjVal? k).toOption >>= parseRow jInt
def getNats (j : Json) (k : String) : Option (List Nat) := (j.getObjVal? k).toOption >>= parseRow jNat

def shapeOf : List Nat → Option Shape
  | [a, b, c] => some ⟨a, b, c⟩
  | _ => none
def v3Of : List Int → Option (V3 Int)
  | [a, b, c] => some ⟨a, b, c⟩
  | _ => none

def volJson {β : Type} (enc : β → Json) (v : Vol β) : Json :=
  Json.arr (v.map fun pl => Json.arr (pl.map fun r => Json.arr (r.map enc).toArray).toArray).toArray

def ratJson (q : Rat) : Json := Json.arr #[(q.num : Json), (q.den : Json)]
def intJson (n : Int) : Json := (n : Json)
def shapeJson (s : Shape) : Json := Json.arr #[(s.nx : Json), (s.ny : Json), (s.nz : Json)]

/-- a rectangular nested list as (shape, voxel function with default 0) -/
def asMap {β : Type} [OfNat β 0] (v : Vol β) : Option (Shape × (V3 Int → β)) :=
  if v.wf then some (v.shape, v.getD 0) else none

def ratOfInt (den : Nat) (n : Int) : Rat := mkRat n den

def parsePart (os : Shape) (tmpl0 : V3 Int → Rat) (tden : Nat) (j : Json) : Option (Stamp Rat) := do
  -- a list of templates: the particle's own template (same shape as the first) replaces the shared one
  let tmpl ← match (j.getObjVal? "tdata").toOption with
    | some tj => do
      let (ts, tf) ← parseVol jInt tj >>= asMap
      if ts = os then some (fun p => mkRat (tf p) tden) else none
    | none => some tmpl0
  let num ← getInts j "num" >>= v3Of
  let den ← getNat? j "den"
  let col ← getInts j "col"
  let color ← match col with | [n, d] => some (mkRat n d.toNat) | _ => none
  match getNats j "q" with
  | some [a, b, c] => some (cubeStamp os tmpl (cubeZxz a b c) num den color)
  | _ =>
    let m ← getVol jBool j "mask"
    some ⟨fun t => m.getD false t, placeStart num den os, color⟩

def jRat (j : Json) : Option Rat :=
  match j with
  | Json.arr #[n, d] => do
    let n ← jInt n
    let d ← jNat d
    if d = 0 then none else some (mkRat n d)
  | _ => none

/-- a table row: the 20 fields in canonical order, each as [numerator, denominator] -/
def parseRowQ (j : Json) : Option (Particle Rat) := (parseRow jRat j).map (Particle.ofList 0)
/-- … or as IEEE bit patterns -/
def parseRowF (j : Json) : Option (Particle Float) := (parseRow jFloat j).map (Particle.ofList 0.0)

def v3Json (p : V3 Int) : Json := Json.arr #[intJson p.x, intJson p.y, intJson p.z]
def v3RatJson (p : V3 Rat) : Json := Json.arr #[ratJson p.x, ratJson p.y, ratJson p.z]
def fJson (x : Float) : Json := (bitsOfFloat x : Json)

/-- cosine and sine of an angle in degrees, as `from_euler(..., degrees=True)` evaluates them: `deg2rad` then libm -/
def csF (deg : Float) : Float × Float :=
  let r := deg * (3.141592653589793 / 180.0)
  (Float.cos r, Float.sin r)

def handle (j : Json) : Json :=
  match getStr? j "op" with
  | some "rotate" =>
    match getVol jInt j "data" >>= asMap, getNats j "q" with
    | some (s, f), some [a, b, c] =>
      let R := cubeZxz a b c
      Json.mkObj [("data", volJson intJson (Vol.tab s (rotateBy R s f))), ("plain", volJson intJson (Vol.tab s (rotatePlain R s f))),
                  ("R", Json.arr (R.toList.map intJson).toArray),
                  ("in24", Json.bool (cube24.contains R))]
    | _, _ => err "bad-args"
  | some "extract" =>
    match getVol jInt j "data" >>= asMap, getInts j "num" >>= v3Of, getNat? j "den", getNats j "sub" >>= shapeOf with
    | some (V, f), some num, some den, some s =>
      let vden := (getNat? j "vden").getD 1      -- voxel values are data/vden (non-integer voxels)
      let fr : V3 Int → Rat := fun p => mkRat (f p) vden
      match extractSubvolume (fun n => (n : Rat)) V fr num den s with
      | some g => Json.mkObj [("data", volJson ratJson (Vol.tab s g)),
          ("enforce", volJson ratJson (Vol.tab V (extractEnforceF V fr (startOf3 num den s) s (meanF (fun n => (n : Rat)) V fr)))), ("start", Json.arr #[intJson (startOf3 num den s).x, intJson (startOf3 num den s).y, intJson (startOf3 num den s).z])]
      | none => err "reject:shape"
    | _, _, _, _ => err "bad-args"
  | some "crop" =>
    match getVol jInt j "data" >>= asMap, getInts j "num" >>= v3Of, getNat? j "den", getNats j "sub" >>= shapeOf with
    | some (V, f), some num, some den, some s =>
      let (cs, g) := cropF V f (startOf3 num den s) s
      Json.mkObj [("shape", shapeJson cs), ("data", volJson intJson (Vol.tab cs g))]
    | some (V, f), none, _, some s =>      -- crop_coord omitted: the library default
      let (cs, g) := cropDefault V f s
      Json.mkObj [("shape", shapeJson cs), ("data", volJson intJson (Vol.tab cs g))]
    | _, _, _, _ => err "bad-args"
  | some "pad" =>
    match getVol jInt j "data" >>= asMap, getNats j "nsize" >>= shapeOf with
    | some (V, f), some N =>
      let vden := (getNat? j "vden").getD 1
      let fr : V3 Int → Rat := fun p => mkRat (f p) vden
      let fill : Rat := match getInts j "fill" with
        | some [n, d] => mkRat n d.toNat
        | _ => meanF (fun n => (n : Rat)) V fr       -- fill_value omitted: the library default (volume mean)
      match padF N V fr fill with
      | some g => Json.mkObj [("data", volJson ratJson (Vol.tab N g))]
      | none => err "reject:smaller"
    | _, _ => err "bad-args"
  | some "place" =>
    match getNats j "cshape" >>= shapeOf, getVol jInt j "tdata" >>= asMap, getNat? j "tden", getArr? j "parts" with
    | some C, some (os, tf), some tden, some parts =>
      let tmpl : V3 Int → Rat := fun p => mkRat (tf p) tden
      let g0 : V3 Int → Rat := match getVol jInt j "cdata" with
        | some cv => fun p => ((cv.getD 0 p : Int) : Rat)
        | none => fun _ => 0
      match parts.toList.mapM (parsePart os tmpl tden) with
      | some stamps =>
        match placeAll C g0 os stamps with
        | some g => Json.mkObj [("data", volJson ratJson (Vol.tab C g))]
        | none => err "reject:shape"
      | none => err "bad-args"
    | _, _, _, _ => err "bad-args"
  | some "placemotl" =>
    -- place_object through the accessors: rows of the table (exact rationals), optional shift_positions first
    match getNats j "cshape" >>= shapeOf, getNat? j "tden", getArr? j "rows", (getStr? j "feature") >>= Field.ofName?,
          (getArr? j "templates") >>= fun a => a.toList.mapM (fun t => parseVol jInt t >>= asMap) with
    | some C, some tden, some rows, some feature, some ((os, tf0) :: rest) =>
      match rows.toList.mapM parseRowQ with
      | some m0 =>
        if rest.all (fun t => t.1 = os) then
          let tarr := ((os, tf0) :: rest).toArray
          let tmplOf : Nat → V3 Int → Rat := fun i p => mkRat ((tarr.getD (if tarr.size = 1 then 0 else i) (os, tf0)).2 p) tden
          let g0 : V3 Int → Rat := match getVol jInt j "cdata" with
            | some cv => fun p => ((cv.getD 0 p : Int) : Rat)
            | none => fun _ => 0
          let shifted : Option (Motl Rat) := match getInts j "shift" >>= v3Of with
            | some v => m0.mapM (shiftRowCube v)
            | none => some m0
          match shifted with
          | some m =>
            match placeMotl C g0 os tmplOf feature m with
            | some g => Json.mkObj [("data", volJson ratJson (Vol.tab C g)),
                ("coords", Json.arr ((getCoordinates m).map v3RatJson).toArray),
                ("starts", Json.arr (m.map fun p => v3Json (placeStartQ (rowCoords p) os)).toArray),
                ("spec", Json.arr (m.map fun p => v3Json (specStartQ (rowCoords p) os)).toArray),
                ("R", Json.arr (m.map fun p => match rowCube p with
                                                | some R => Json.arr (R.toList.map intJson).toArray
                                                | none => Json.null).toArray)]
            | none => err "reject:angles-or-shape"
          | none => err "reject:angles"
        else err "bad-args"
      | none => err "bad-args"
    | _, _, _, _, _ => err "bad-args"
  | some "motlrot" =>
    -- the accessors at Float: get_angles / get_rotations / get_coordinates of every row, optionally after shift_positions
    match getArr? j "rows" with
    | some rows =>
      match rows.toList.mapM parseRowF with
      | some m0 =>
        let m : Motl Float := match (j.getObjVal? "shift").toOption >>= parseRow jFloat with
          | some [x, y, z] => shiftPositions csF ⟨x, y, z⟩ m0
          | _ => m0
        Json.mkObj [("R", Json.arr ((getRotations csF m).map fun R => Json.arr (R.toList.map fJson).toArray).toArray),
                    ("angles", Json.arr ((getAngles m).map fun a => Json.arr #[fJson a.1, fJson a.2.1, fJson a.2.2]).toArray),
                    ("coords", Json.arr ((getCoordinates m).map fun c => Json.arr #[fJson c.x, fJson c.y, fJson c.z]).toArray)]
      | none => err "bad-args"
    | none => err "bad-args"
  | some "symexact" =>
    match getVol jInt j "data" >>= asMap, getNat? j "n" with
    | some (s, f), some n =>
      if n = 1 ∨ n = 2 ∨ n = 4 then
        let fr : V3 Int → Rat := fun p => ((f p : Int) : Rat)
        Json.mkObj [("data", volJson ratJson (Vol.tab s (symmetrizeExact (fun n => (n : Rat)) n s fr)))]
      else err "reject:n"
    | _, _ => err "bad-args"
  | some "symmean" =>
    match getArr? j "copies", getNat? j "n" with
    | some cs, some n =>
      match cs.toList.mapM (parseVol jFloat) with
      | some (c0 :: rest) =>
        if (c0 :: rest).length = n ∧ (c0 :: rest).all (·.wf) then
          let copies := (c0 :: rest).toArray
          let rot : Nat → V3 Int → Float := fun k p => (copies.getD (k - 1) []).getD 0.0 p
          Json.mkObj [("data", volJson (fun (x : Float) => (bitsOfFloat x : Json)) (Vol.tab c0.shape (symmetrizeF (fun n => n.toFloat) n rot)))]
        else err "bad-args"
      | _ => err "bad-args"
    | _, _ => err "bad-args"
  | some "zxzapply" =>
    -- the particle convention at Float: (cos, sin) of phi, theta, psi and an offset v ↦ zxz·v
    match getNats j "cs", getNats j "v" with
    | some [cp, sp, ct, st, cs, ss], some [x, y, z] =>
      let R : M3 Float := zxz (floatOfBits cp) (floatOfBits sp) (floatOfBits ct) (floatOfBits st) (floatOfBits cs) (floatOfBits ss)
      let w := R.apply ⟨floatOfBits x, floatOfBits y, floatOfBits z⟩
      let o := srcCoord R.transpose ⟨0.0, 0.0, 0.0⟩ w   -- where rotate() samples the input for output offset w
      Json.mkObj [("Rv", Json.arr #[(bitsOfFloat w.x : Json), (bitsOfFloat w.y : Json), (bitsOfFloat w.z : Json)]),
                  ("back", Json.arr #[(bitsOfFloat o.x : Json), (bitsOfFloat o.y : Json), (bitsOfFloat o.z : Json)])]
    | _, _ => err "bad-args"
  | _ => err "bad-op"

end CryoCat.Drv.C14
