import CryoCat.Drv.Proto
import CryoCat.Model.C20
import CryoCat.Gen.C20
/-! C20 driver: executes `CryoCat.C20.measure` / `cands` / `check` (the definitions the theorems of
`Props/C20` are about) at `Float` (IEEE binary64, like numpy). Floats travel as bit patterns. -/
namespace CryoCat.Drv.C20
open Lean CryoCat CryoCat.C20

/-- the run-time library at `Float`: `np.radians(deg)` = `deg * (π/180)`, libm `tan` / `cos` / `sin` -/
def floatTrig : Trig Float :=
  { radians := fun d => d * (3.141592653589793 / 180.0), tan := Float.tan, cos := Float.cos, sin := Float.sin }

/-- `tan(radians(deg))`: the `tanT` of the model input (`Props/C20.multiplier_evaluates` ties it to the anchored
source expressions `Gen.C20.multCpu` / `multGpu`, whose values the driver reports next to the model's multiplier) -/
def tanOfDeg (deg : Float) : Float := floatTrig.tan (floatTrig.radians deg)

def optBits : Option Float → Json
  | some x => (bitsOfFloat x : Json)
  | none => Json.null

def natList (a : Array Json) : Option (List Nat) := a.toList.mapM (fun j => j.getNat?.toOption)

def mkPts : Nat → List Nat → List Nat → List Nat → List (Pt Float)
  | k, x :: y :: z :: nx :: ny :: nz :: rest, a :: m1, b :: m2 =>
    { idx := k, p := ⟨floatOfBits x, floatOfBits y, floatOfBits z⟩,
      n := ⟨floatOfBits nx, floatOfBits ny, floatOfBits nz⟩, s1 := a != 0, s2 := b != 0 } :: mkPts (k + 1) rest m1 m2
  | _, _, _, _ => []

def parsePairs (a : Array Json) : Option (List (Nat × Nat)) :=
  a.toList.mapM (fun j => match j with
    | Json.arr #[s, t] => do pure ((← s.getNat?.toOption), (← t.getNat?.toOption))
    | _ => none)

def candJson (i : Input Float) (c : Cand Float) : Json :=
  Json.arr #[(c.s : Json), (c.t : Json), (bitsOfFloat c.d : Json), (bitsOfFloat (thickness i c) : Json)]

def checkJson (i : Input Float) (strict : Bool) (out : List (Nat × Nat)) : Json :=
  let cs := i.cands Float.sqrt strict
  let a := checkAdm cs out
  let b := oneToOneB out
  let g := checkGreedy cs out
  -- diagnosis of the first reported pair that is not admissible
  let bad := out.find? (fun p => !cs.any (fun c => c.s == p.1 && c.t == p.2))
  let diag : Json := match bad with
    | none => Json.null
    | some p =>
      match i.sources.find? (fun a => a.idx == p.1), i.targets.find? (fun b => b.idx == p.2) with
      | some sa, some tb =>
        let P := i.params strict
        let pr := proj sa.p tb.p sa.n
        Json.mkObj [("pair", Json.arr #[(p.1 : Json), (p.2 : Json)]),
          ("in_ball", Json.bool (inBall P (dist Float.sqrt sa.p tb.p))),
          ("forward", Json.bool (decide (0 < pr))),
          ("in_cone", Json.bool (inCone P.m sa.p tb.p sa.n)),
          ("dist", (bitsOfFloat (dist Float.sqrt sa.p tb.p) : Json)), ("proj", (bitsOfFloat pr : Json)),
          ("lat2", (bitsOfFloat (lat2 sa.p tb.p sa.n) : Json)), ("rhs", (bitsOfFloat (P.m * pr * pr) : Json))]
      | _, _ => Json.mkObj [("pair", Json.arr #[(p.1 : Json), (p.2 : Json)]), ("not_source_or_not_target", Json.bool true)]
  Json.mkObj [("ok", Json.bool (check Float.sqrt i strict out)), ("admissible", Json.bool a), ("one_to_one", Json.bool b),
              ("greedy", Json.bool g), ("diag", diag)]

def handle (j : Json) : Json :=
  match getStr? j "op", getArr? j "pts" >>= natList, getArr? j "m1" >>= natList, getArr? j "m2" >>= natList,
        getNat? j "voxel", getNat? j "maxnm", getNat? j "deg", getNat? j "rev" with
  | some op, some pts, some m1, some m2, some vx, some mx, some dg, some rev =>
    if pts.length != 6 * m1.length || m1.length != m2.length then err "bad-args" else
    let deg := floatOfBits dg
    let tanT := tanOfDeg deg
    let i : Input Float := { pts := mkPts 0 pts m1 m2, voxel := floatOfBits vx, maxNm := floatOfBits mx, tanT := tanT, rev := rev != 0 }
    match op with
    | "all" =>
      -- the kernels' buffer holds `cap` candidates per source (scan order = index order of the targets): modelled as it is
      let cap := (getNat? j "cap").getD 25
      let csN := i.cands Float.sqrt false
      let csS := i.candsCapped Float.sqrt true cap
      let mN := measure Float.sqrt i false
      let mS := measureCapped Float.sqrt i true cap
      let base : List (String × Json) :=
        [("tan", (bitsOfFloat tanT : Json)), ("mult", (bitsOfFloat (i.params false).m : Json)),
         -- the multiplier expressions extracted from the source (CPU scalar / GPU launch argument), evaluated at this angle
         ("mult_src_cpu", optBits (Gen.C20.multCpu.eval floatTrig deg)), ("mult_src_gpu", optBits (Gen.C20.multGpu.eval floatTrig deg)),
         ("radius", (bitsOfFloat (i.params false).r : Json)),
         ("n_sources", (i.sources.length : Json)), ("n_targets", (i.targets.length : Json)),
         ("n_cands", (csN.length : Json)), ("max_per_source", (i.maxRow Float.sqrt false : Json)),
         ("max_per_source_strict", (i.maxRow Float.sqrt true : Json)),
         ("pairs", Json.arr (mN.map (candJson i)).toArray),
         ("pairs_strict", Json.arr (mS.map (candJson i)).toArray),
         ("cands_strict", Json.arr (csS.map (fun c => Json.arr #[(c.s : Json), (c.t : Json), (bitsOfFloat c.d : Json)])).toArray)]
      -- both readings of "does not exceed the maximum thickness" for a target exactly on the radius
      let c1 := match getArr? j "out" >>= parsePairs with
        | some out => [("check", checkJson i false out), ("check_alt", checkJson i true out)]
        | none => []
      let c2 := match getArr? j "out_kernel" >>= parsePairs with
        | some out => [("check_kernel", checkJson i true out), ("check_kernel_alt", checkJson i false out)]
        | none => []
      Json.mkObj (base ++ c1 ++ c2)
    | _ => err "bad-op"
  | _, _, _, _, _, _, _, _ => err "bad-args"

end CryoCat.Drv.C20
