import CryoCat.Drv.Proto
import CryoCat.Model.C15
namespace CryoCat.Drv.C15
open Lean CryoCat CryoCat.C15

def ints? (a : Array Json) : Option (List Int) := a.toList.mapM (fun j => j.getInt?.toOption)
def nats? (a : Array Json) : Option (List Nat) := a.toList.mapM (fun j => j.getNat?.toOption)
def strs? (a : Array Json) : Option (List String) :=
  a.toList.mapM (fun j => match j with | Json.str s => some s | _ => none)

def flag (j : Json) (k : String) : Bool := getNat? j k == some 1

/-- a keyword the caller may omit: absent key = omitted keyword (the model then applies the signature default of `Gen`) -/
def optFlag (j : Json) (k : String) : Option Bool :=
  match getNat? j k with
  | some 1 => some true
  | some _ => some false
  | none => none

/-- the stack argument: an array with its numpy shape, or an MRC file (header dims + payload) -/
def input? {α : Type} (conv : Int → α) (j : Json) : Option (Input α) := do
  let inp ← (j.getObjVal? "input").toOption
  let data ← getArr? inp "data" >>= ints?
  match getStr? inp "kind" with
  | some "arr" =>
    match ← (getArr? inp "shape" >>= nats?) with
    | [n0, n1, n2] => some (.arr (ofFlat n0 n1 n2 (data.map conv)))
    | _ => none
  | some "file" =>
    some (.file { nx := ← getNat? inp "nx", ny := ← getNat? inp "ny", nz := ← getNat? inp "nz", data := data.map conv })
  | _ => none

def flat {α : Type} (a : A3 α) : List α := (writeMrc a).data

def outJson {α : Type} (enc : α → Json) (o : Out α) : Json :=
  Json.mkObj [
    ("returned", Json.arr (o.returned.map (fun a => Json.mkObj [
        ("shape", Json.arr #[a.d0, a.d1, a.d2]), ("data", Json.arr ((flat a).map enc).toArray)])).toArray),
    ("written", Json.arr (o.written.map (fun f => Json.mkObj [
        ("dims", Json.arr #[f.nx, f.ny, f.nz]), ("data", Json.arr (f.data.map enc).toArray)])).toArray)]

def respond {α : Type} (enc : α → Json) (d : α) (j : Json) (op : A3 α → Except Err (List (A3 α))) (inp : Input α) : Json :=
  match pipeline d (inXyzOf (optFlag j "in_xyz")) (outZyxOf (optFlag j "out_zyx")) (flag j "write") op inp with
  | .ok o => outJson enc o
  | .error e => err ("reject:" ++ e.name)

/-- binning of an int16 stack: the block means go through the cast back to int16 (truncation), in the file and in the result -/
def respondCast {α β : Type} (c : α → β) (enc : β → Json) (d : α) (j : Json) (op : A3 α → Except Err (List (A3 α))) (inp : Input α) : Json :=
  match pipeline d (inXyzOf (optFlag j "in_xyz")) (outZyxOf (optFlag j "out_zyx")) (flag j "write") op inp with
  | .ok o => outJson enc (o.cast c)
  | .error e => err ("reject:" ++ e.name)

def encInt (x : Int) : Json := (x : Json)
def encRat (q : Rat) : Json := Json.arr #[(q.num : Json), (q.den : Json)]

def optNat (j : Json) (k : String) : Option (Option Nat) :=
  match getInt? j k with
  | some i => if i < 0 then some none else some (some i.toNat)
  | none => none

def handle (j : Json) : Json :=
  match getStr? j "op" with
  | some "bin" =>
    match getNat? j "b", getNat? j "den" with
    | some b, some den =>
      match input? (fun n => mkRat n den) j with
      | some inp =>
        if getStr? j "cast" == some "i16" then respondCast truncI encInt (0 : Rat) j (opBin b) inp
        else respond encRat (0 : Rat) j (opBin b) inp
      | none => err "bad-args"
    | _, _ => err "bad-args"
  | some op =>
    match input? (fun n => n) j with
    | none => err "bad-args"
    | some inp =>
      match op with
      | "sort" =>
        -- the angles as decimal TEXT (the lines of the .tlt file / the TiltAngle values / the numbers of the list), parsed exactly
        match getArr? j "angle_lines" >>= strs? with
        | some lines =>
          let arg := match getStr? j "ang_kind" with
            | some "other" => AngArg.other
            | some "tlt" => AngArg.tltFile lines      -- every line of the text file
            | some "mdoc" => AngArg.mdocFile lines    -- every line of the mdoc file
            | _ => AngArg.seq lines
          respond encInt 0 j (opSortArg arg) inp
        | none => err "bad-args"
      | "remove" =>
        match getArr? j "idxs" >>= ints? with
        | some idxs =>
          let src := match getStr? j "src" with
            | some "txt" => IdxSrc.txt
            | some "csv" => IdxSrc.csv
            | some "other" => IdxSrc.other
            | _ => IdxSrc.list
          respond encInt 0 j (opRemoveSrc src (base1Of (optFlag j "base1")) idxs) inp
        | none => err "bad-args"
      | "split" => respond encInt 0 j opSplit inp
      | "flip" =>
        match getArr? j "axes" >>= strs? with
        | some axes =>
          let arg := match getStr? j "axes_kind", axes with
            | some "one", [a] => AxesArg.one a
            | some "list", as => AxesArg.list as
            | _, _ => AxesArg.other
          respond encInt 0 j (opFlipArg arg) inp
        | none => err "bad-args"
      | "crop" =>
        match optNat j "new_w", optNat j "new_h" with
        | some w, some h => respond encInt 0 j (opCrop w h) inp
        | _, _ => err "bad-args"
      | _ => err "bad-op"
  | none => err "bad-args"

end CryoCat.Drv.C15
