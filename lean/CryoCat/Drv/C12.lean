import CryoCat.Drv.Proto
import CryoCat.Model.C12
namespace CryoCat.Drv.C12
open Lean CryoCat CryoCat.C12

/-- Python `round` on a double: exact value of the double, then `roundHalfEven` -/
def pyRound (x : Float) : Int :=
  match fracOfBits (bitsOfFloat x) with
  | some (n, d) => roundHalfEven n d
  | none => 0

def finite (x : Float) : Bool := x.isFinite

/-- scipy: `lw = int(truncate * sd + 0.5)` with `truncate = 4.0` -/
def trunc (sigma : Float) : Nat := (4.0 * sigma + 0.5).floor.toUInt64.toNat

def kernelOf (sigma : Float) : Option (List (Int × Float)) := kernelFor Float.exp Float.ofInt trunc sigma

def optFloat (j : Json) (k : String) : Option Float := (getNat? j k).map floatOfBits

def flat (g : Grid Float) : Json :=
  Json.arr (g.flatMap (fun a => a.flatMap (fun b => b.map (fun (v : Float) => (bitsOfFloat v : Json)))))

def parseDims (j : Json) : Option Dims :=
  match getArr? j "dims" with
  | some #[a, b, c] =>
    match a.getNat?.toOption, b.getNat?.toOption, c.getNat?.toOption with
    | some x, some y, some z => if x = 0 ∨ y = 0 ∨ z = 0 then none else some ⟨x, y, z⟩
    | _, _, _ => none
  | _ => none

/-- cutoff of one filter from the request keys `<pre>fp`, `<pre>res`, `px` -/
def radiusOf (j : Json) (d : Dims) (pre : String) : Option Int :=
  let res := optFloat j (pre ++ "res")
  let px := optFloat j "px"
  let bad := match res, px with
    | some r, some s => getInt? j (pre ++ "fp") == none && !(finite (Float.ofNat (edgeOf d) * s / r))
    | _, _ => false
  if bad then none else
  getFilterRadius pyRound (Float.ofNat (edgeOf d)) (getInt? j (pre ++ "fp")) res px

def respond (d : Dims) (radii : List Int) (mask : Grid Float) : Json :=
  let g := gainGrid d mask
  Json.mkObj [("radius", Json.arr (radii.map (fun (r : Int) => (r : Json))).toArray),
              ("gain", flat g), ("eff", flat (effGrid d g))]

def handle (j : Json) : Json :=
  match getStr? j "op" with
  | some "res2pix" =>
    match getNat? j "edge", optFloat j "px", optFloat j "res" with
    | some e, some px, some res =>
      let q := Float.ofNat e * px / res
      if finite q then Json.mkObj [("pixels", (res2pix pyRound (Float.ofNat e) px res : Int)), ("quot", (bitsOfFloat q : Nat))]
      else err "reject:not-finite"
    | _, _, _ => err "bad-args"
  | some "pix2res" =>
    match getNat? j "edge", optFloat j "px", optFloat j "fp" with
    | some e, some px, some fp => Json.mkObj [("res", (bitsOfFloat (pix2res (Float.ofNat e) px fp) : Nat))]
    | _, _, _ => err "bad-args"
  | some "kernel" =>
    match optFloat j "sigma" with
    | some s =>
      match kernelOf s with
      | none => Json.mkObj [("kernel", Json.null)]
      | some k => Json.mkObj [("kernel", Json.arr (k.map (fun p => Json.arr #[(p.1 : Json), (bitsOfFloat p.2 : Json)])).toArray)]
    | none => err "bad-args"
  | some "gain" =>
    match parseDims j, getStr? j "kind" with
    | some d, some "low" =>
      match radiusOf j d "", optFloat j "sigma" with
      | some r, some s => respond d [r] (lowMaskGrid (kernelOf s) d r)
      | none, some _ => err "reject:no-cutoff"
      | _, _ => err "bad-args"
    | some d, some "high" =>
      match radiusOf j d "", optFloat j "sigma" with
      | some r, some s => respond d [r] (highMaskGrid (kernelOf s) d r)
      | none, some _ => err "reject:no-cutoff"
      | _, _ => err "bad-args"
    | some d, some "band" =>
      match radiusOf j d "lp_", radiusOf j d "hp_", optFloat j "lp_sigma", optFloat j "hp_sigma" with
      | some lp, some hp, some sl, some sh => respond d [lp, hp] (bandMaskGrid (kernelOf sl) (kernelOf sh) d lp hp)
      | none, _, some _, some _ => err "reject:no-cutoff"
      | _, none, some _, some _ => err "reject:no-cutoff"
      | _, _, _, _ => err "bad-args"
    | _, _ => err "bad-args"
  | _ => err "bad-op"

end CryoCat.Drv.C12
