import CryoCat.Drv.Proto
import CryoCat.Model.C12
import CryoCat.Model.C12_Dft
namespace CryoCat.Drv.C12
open Lean CryoCat CryoCat.C12

/-- Python `round` on a double: exact value of the double, then `roundHalfEven` -/
def pyRound (x : Float) : Int :=
  match fracOfBits (bitsOfFloat x) with
  | some (n, d) => roundHalfEven n d
  | none => 0

def finite (x : Float) : Bool := x.isFinite

/-- scipy: `lw = int(truncate * sd + 0.5)` with `truncate = 4.0` -/
def trunc (sigma : Float) : Nat := (4.0 * sigma + 0.5).floor.toUInt64.toNat

def kernelOf (sigma : Float) : Option (List (Int × Float)) := kernelFor Float.exp Float.ofInt trunc sigma

def optFloat (j : Json) (k : String) : Option Float := (getNat? j k).map floatOfBits

def flat (g : Grid Float) : Json :=
  Json.arr (g.flatMap (fun a => a.flatMap (fun b => b.map (fun (v : Float) => (bitsOfFloat v : Json)))))

def parseDims (j : Json) : Option Dims :=
  match getArr? j "dims" with
  | some #[a, b, c] =>
    match a.getNat?.toOption, b.getNat?.toOption, c.getNat?.toOption with
    | some x, some y, some z => if x = 0 ∨ y = 0 ∨ z = 0 then none else some ⟨x, y, z⟩
    | _, _, _ => none
  | _ => none

/-- cutoff of one filter from the request keys `<pre>fp`, `<pre>res`, `px` -/
def radiusOf (j : Json) (d : Dims) (pre : String) : Option Int :=
  let res := optFloat j (pre ++ "res")
  let px := optFloat j "px"
  let bad := match res, px with
    | some r, some s => getInt? j (pre ++ "fp") == none && !(finite (Float.ofNat (edgeOf d) * s / r))
    | _, _ => false
  if bad then none else
  getFilterRadius pyRound (Float.ofNat (edgeOf d)) (getInt? j (pre ++ "fp")) res px

/-! ### the soft-edge margin bounds of `Props/C12.soft_margin_checked`, evaluated on the executed kernel -/

/-- per-bin flags (row-major) of a predicate on the bin's squared integer frequency radius `Model/C12.freqRadius2` — the very
definition the hypotheses of `Props/C12.soft_margin_checked` are stated with -/
def flagsOf (d : Dims) (f : Int → Bool) : Json :=
  Json.arr ((tabulate d (fun j k l => f (freqRadius2 d j k l))).flatMap (fun a => a.flatMap (fun b => b.map (fun (v : Bool) => ((if v then 1 else 0 : Nat) : Json)))))

/-- `tail_in = tail3 ker m_in`, `tail_out = tail3 ker m_out` and, per bin, whether the hypotheses of
`soft_gain_inside` / `soft_gain_outside` hold for that bin's squared radius; `mono_axes`: per axis, whether the ball stays off
both faces of the mask box (`monoAxisOk`, the hypothesis of `Props/C12.soft_eff_gain_mono_step`); `face_rise`: per axis, `faceRise` on
the executed kernel — twice the most a step of that index away from frequency 0 can add to the effective gain
(`Props/C12.soft_eff_gain_axis_step_checked`), exactly 0.0 unless the axis is even, the ball reaches its upper face and the kernel reaches `n/2` -/
def margins (j : Json) (d : Dims) (r : Int) (sigma : Float) : List (String × Json) :=
  match kernelOf sigma, getInt? j "m_in", getInt? j "m_out" with
  | some ker, some mi, some mo =>
    [("tail_in", (bitsOfFloat (tail3 ker mi) : Json)), ("tail_out", (bitsOfFloat (tail3 ker mo) : Json)),
     ("tail_reach", (bitsOfFloat (tail3 ker (3 * ((trunc sigma : Nat) : Int) * ((trunc sigma : Nat) : Int))) : Json)),
     ("inside", flagsOf d (fun A => fitsInside A mi r)), ("outside", flagsOf d (fun A => fitsOutside A mo r)),
     ("mono_axes", Json.arr #[((if monoAxisOk d.nx r then 1 else 0 : Nat) : Json), ((if monoAxisOk d.ny r then 1 else 0 : Nat) : Json),
        ((if monoAxisOk d.nz r then 1 else 0 : Nat) : Json)]),
     ("face_rise", Json.arr #[(bitsOfFloat (faceRise ker d.nx r) : Json), (bitsOfFloat (faceRise ker d.ny r) : Json),
        (bitsOfFloat (faceRise ker d.nz r) : Json)])]
  | _, _, _ => []

/-! ### the whole filter: `np.real(ifftn(fftn(x) * ifftshift(mask)))` executed on the model's DFT -/

def twoPi : Float := 6.283185307179586

/-- twiddle table `ω^m = exp(-2πi·m/n)` -/
def twF (n : Nat) : Nat → Cx Float :=
  let tab : Array (Cx Float) := Array.ofFn (n := n) (fun m =>
    let a := twoPi * Float.ofNat m.val / Float.ofNat n
    (⟨Float.cos a, -(Float.sin a)⟩ : Cx Float))
  fun m => tab.getD m 0

def inputGrid (j : Json) (d : Dims) : Option (Grid (Cx Float)) :=
  match getArr? j "x" with
  | some a =>
    if a.size != d.nx * d.ny * d.nz then none else
    some (tabulate d (fun x y z =>
      match (a.getD ((x.toNat * d.ny + y.toNat) * d.nz + z.toNat) Json.null).getNat?.toOption with
      | some b => (⟨floatOfBits b, 0⟩ : Cx Float)
      | none => (⟨0.0 / 0.0, 0⟩ : Cx Float)))
  | none => none

/-- `filt` with the model's `dft3 / idft3` and `np.real`, gain read from the materialised mask -/
def flatRe (g : Grid (Cx Float)) : Json :=
  Json.arr (g.flatMap (fun a => a.flatMap (fun b => b.map (fun (v : Cx Float) => (bitsOfFloat v.re : Json)))))

/-- optional request key `roll = [s₀,s₁,s₂]`: also filter the input rolled with `rollGrid` (voxel `i` of the rolled array
is voxel `(i + s) mod n` of the input, i.e. `np.roll(x, -s)`) -/
def parseRoll (j : Json) : Option Idx :=
  match getArr? j "roll" with
  | some #[a, b, c] =>
    match a.getInt?.toOption, b.getInt?.toOption, c.getInt?.toOption with
    | some x, some y, some z => some (x, y, z)
    | _, _, _ => none
  | _ => none

/-- `filt` with the model's `dft3 / idft3` and `np.real`, gain read from the materialised mask; with `roll`, the same
pipeline on `rollGrid d s x` as well (`Props/C12.filter_grid_roll`: that is `filt` of the re-indexed input, which over ℂ is
the re-indexed output, `filter_grid_roll_complex`) -/
def runFilter (d : Dims) (mask : Grid Float) (x : Grid (Cx Float)) (roll : Option Idx := none) : Json :=
  let g := gainGrid d mask
  let tx := twF d.nx; let ty := twF d.ny; let tz := twF d.nz
  let inv (n : Nat) : Cx Float := ⟨1.0 / Float.ofNat n, 0⟩
  let run (y : Grid (Cx Float)) := filtGrid d tx ty tz (inv d.nx) (inv d.ny) (inv d.nz) Cx.real (atIdx g.get) y
  Json.mkObj ([("out", flatRe (run x))] ++
    (match roll with
     | some s => [("out_roll", flatRe (run (rollGrid d s x)))]
     | none => []))

def respond (d : Dims) (radii : List Int) (mask : Grid Float) (extra : List (String × Json) := []) : Json :=
  let g := gainGrid d mask
  Json.mkObj ([("radius", Json.arr (radii.map (fun (r : Int) => (r : Json))).toArray),
              ("gain", flat g), ("eff", flat (effGrid d g))] ++ extra)

def handle (j : Json) : Json :=
  match getStr? j "op" with
  | some "res2pix" =>
    match getNat? j "edge", optFloat j "px", optFloat j "res" with
    | some e, some px, some res =>
      let q := Float.ofNat e * px / res
      if finite q then Json.mkObj [("pixels", (res2pix pyRound (Float.ofNat e) px res : Int)), ("quot", (bitsOfFloat q : Nat))]
      else err "reject:not-finite"
    | _, _, _ => err "bad-args"
  | some "pix2res" =>
    match getNat? j "edge", optFloat j "px", optFloat j "fp" with
    | some e, some px, some fp => Json.mkObj [("res", (bitsOfFloat (pix2res (Float.ofNat e) px fp) : Nat))]
    | _, _, _ => err "bad-args"
  | some "kernel" =>
    match optFloat j "sigma" with
    | some s =>
      match kernelOf s with
      | none => Json.mkObj [("kernel", Json.null)]
      | some k => Json.mkObj [("kernel", Json.arr (k.map (fun p => Json.arr #[(p.1 : Json), (bitsOfFloat p.2 : Json)])).toArray)]
    | none => err "bad-args"
  | some "gain" =>
    match parseDims j, getStr? j "kind" with
    | some d, some "low" =>
      match radiusOf j d "", optFloat j "sigma" with
      | some r, some s => respond d [r] (lowMaskGrid (kernelOf s) d r) (margins j d r s)
      | none, some _ => err "reject:no-cutoff"
      | _, _ => err "bad-args"
    | some d, some "high" =>
      match radiusOf j d "", optFloat j "sigma" with
      | some r, some s => respond d [r] (highMaskGrid (kernelOf s) d r) (margins j d r s)
      | none, some _ => err "reject:no-cutoff"
      | _, _ => err "bad-args"
    | some d, some "band" =>
      match radiusOf j d "lp_", radiusOf j d "hp_", optFloat j "lp_sigma", optFloat j "hp_sigma" with
      | some lp, some hp, some sl, some sh => respond d [lp, hp] (bandMaskGrid (kernelOf sl) (kernelOf sh) d lp hp)
      | none, _, some _, some _ => err "reject:no-cutoff"
      | _, none, some _, some _ => err "reject:no-cutoff"
      | _, _, _, _ => err "bad-args"
    | _, _ => err "bad-args"
  | some "filter" =>
    match parseDims j with
    | none => err "bad-args"
    | some d =>
      if d.nx > 8 ∨ d.ny > 8 ∨ d.nz > 8 then err "reject:box-too-large" else
      match inputGrid j d, getStr? j "kind" with
      | some x, some "low" =>
        match radiusOf j d "", optFloat j "sigma" with
        | some r, some s => runFilter d (lowMaskGrid (kernelOf s) d r) x (parseRoll j)
        | none, some _ => err "reject:no-cutoff"
        | _, _ => err "bad-args"
      | some x, some "high" =>
        match radiusOf j d "", optFloat j "sigma" with
        | some r, some s => runFilter d (highMaskGrid (kernelOf s) d r) x (parseRoll j)
        | none, some _ => err "reject:no-cutoff"
        | _, _ => err "bad-args"
      | some x, some "band" =>
        match radiusOf j d "lp_", radiusOf j d "hp_", optFloat j "lp_sigma", optFloat j "hp_sigma" with
        | some lp, some hp, some sl, some sh => runFilter d (bandMaskGrid (kernelOf sl) (kernelOf sh) d lp hp) x (parseRoll j)
        | none, _, some _, some _ => err "reject:no-cutoff"
        | _, none, some _, some _ => err "reject:no-cutoff"
        | _, _, _, _ => err "bad-args"
      | _, _ => err "bad-args"
  | _ => err "bad-op"

end CryoCat.Drv.C12
