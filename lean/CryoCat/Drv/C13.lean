import CryoCat.Drv.Proto
import CryoCat.Model.C13
namespace CryoCat.Drv.C13
open Lean CryoCat CryoCat.C13

def field? (j : Json) (k : String) : Option Json :=
  match j.getObjVal? k with
  | .ok Json.null => none
  | .ok v => some v
  | .error _ => none

def int? (j : Json) : Option Int := (j.getInt?).toOption
def nat? (j : Json) : Option Nat := (j.getNat?).toOption

/-- dyadic/rational numbers travel as `[numerator, denominator]` -/
def rat? (j : Json) : Option Rat :=
  match j with
  | Json.arr #[n, d] => do
    let n ← int? n
    let d ← nat? d
    if d = 0 then none else some (mkRat n d)
  | _ => none

def int3? (j : Json) : Option (Int × Int × Int) :=
  match j with
  | Json.arr #[a, b, c] => do some ((← int? a), (← int? b), (← int? c))
  | _ => none

def rat3? (j : Json) : Option (Rat × Rat × Rat) :=
  match j with
  | Json.arr #[a, b, c] => do some ((← rat? a), (← rat? b), (← rat? c))
  | _ => none

def kind? (s : String) : Option Kind :=
  match s with
  | "sphere" => some .sphere
  | "cylinder" => some .cylinder
  | "ellipsoid" => some .ellipsoid
  | "s_shell" => some .sshell
  | "e_shell" => some .eshell
  | _ => none

/-- an optional field must be absent/null or well-formed -/
def opt? {β : Type} (j : Json) (k : String) (p : Json → Option β) : Option (Option β) :=
  match field? j k with
  | none => some none
  | some v => (p v).map some

def parseReq (j : Json) : Option Req := do
  let kind ← getStr? j "kind" >>= kind?
  let box ← field? j "box"
  let (nx, ny, nz) ← match box with
    | Json.arr #[a, b, c] => do some ((← nat? a), (← nat? b), (← nat? c))
    | _ => none
  let center ← opt? j "center" int3?
  let radius ← opt? j "radius" rat?
  let height ← opt? j "height" int?
  let radii ← opt? j "radii" rat3?
  let thick ← opt? j "thick" rat?
  let gauss ← opt? j "gauss" rat?
  let outwards := match field? j "outwards" with
    | some (Json.bool b) => b
    | _ => true
  some { kind := kind, nx := nx, ny := ny, nz := nz, center := center, radius := radius, height := height,
         radii := radii, thick := thick.getD 0, gauss := gauss.getD 0, outwards := outwards }

def encode (l : List Int) : String :=
  String.ofList (l.map fun v => if v == 1 then '1' else if v == 0 then '0' else if v == -1 then 'm' else '?')

/-- tie voxels of the ellipsoids a request draws -/
def tieMask (q : Req) : String :=
  let (cx, cy, cz) := q.centre
  let (a, b, c) := q.radiiInt
  match q.kind with
  | .ellipsoid =>
    let (rx, ry, rz) := ellRadii ((a : Rat), (b : Rat), (c : Rat)) q.gauss q.outwards
    encode (render q.nx q.ny q.nz fun i j k => b2i (ellipsoidTie q.nx q.ny q.nz cx cy cz rx ry rz i j k))
  | .eshell =>
    let t := q.thick / 2
    let (ox, oy, oz) := ellRadii ((a : Rat) + t, (b : Rat) + t, (c : Rat) + t) 0 true
    let (ix, iy, iz) := ellRadii ((a : Rat) - t, (b : Rat) - t, (c : Rat) - t) 0 true
    encode (render q.nx q.ny q.nz fun i j k =>
      b2i (ellipsoidTie q.nx q.ny q.nz cx cy cz ox oy oz i j k || ellipsoidTie q.nx q.ny q.nz cx cy cz ix iy iz i j k))
  | _ => ""

def shapeJson (q : Req) : Json :=
  match hardMask q, (if q.gauss = 0 then hardMask q else hardMask { q with gauss := 0 }) with
  | some m, some core =>
    Json.mkObj [("box", Json.arr #[q.nx, q.ny, q.nz]), ("mask", Json.str (encode m)), ("core", Json.str (encode core)),
                ("ties", Json.str (tieMask q))]
  | _, _ => err "reject:centre-outside-box"

def parseMasks (a : Array Json) : Option (List (List Float)) :=
  a.toList.mapM fun m => match m with
    | Json.arr vs => vs.toList.mapM fun v => (nat? v).map floatOfBits
    | _ => none

def outJson (o : Option (List Float)) : Json :=
  match o with
  | some l => Json.mkObj [("out", Json.arr (l.map fun x => (bitsOfFloat x : Json)).toArray)]
  | none => err "reject:empty-or-shape-mismatch"

def handle (j : Json) : Json :=
  match getStr? j "op" with
  | some "shape" =>
    match parseReq j with
    | some q => shapeJson q
    | none => err "bad-args"
  | some "generate" =>
    match getStr? j "kind" >>= kind?, getArr? j "specs" >>= (fun a => a.toList.mapM nat?), opt? j "mask_size" nat?, getNat? j "expansion" with
    | some kind, some specs, some ms, some e =>
      match generate kind specs ms e with
      | some q => shapeJson q
      | none => err "reject:specs"
    | _, _, _, _ => err "bad-args"
  | some "algebra" =>
    match getStr? j "fn", getArr? j "masks" >>= parseMasks with
    | some "union", some ms => outJson (union ms)
    | some "intersection", some ms => outJson (intersection ms)
    | some "subtraction", some ms => outJson (subtraction ms)
    | some "difference", some ms => outJson (difference ms)
    | _, _ => err "bad-args"
  | _ => err "bad-op"

end CryoCat.Drv.C13
