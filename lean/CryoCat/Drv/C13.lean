import CryoCat.Drv.Proto
import CryoCat.Model.C13
namespace CryoCat.Drv.C13
open Lean CryoCat CryoCat.C13

def field? (j : Json) (k : String) : Option Json :=
  match j.getObjVal? k with
  | .ok Json.null => none
  | .ok v => some v
  | .error _ => none

def int? (j : Json) : Option Int := (j.getInt?).toOption
def nat? (j : Json) : Option Nat := (j.getNat?).toOption

/-- dyadic/rational numbers travel as `[numerator, denominator]` -/
def rat? (j : Json) : Option Rat :=
  match j with
  | Json.arr #[n, d] => do
    let n ← int? n
    let d ← nat? d
    if d = 0 then none else some (mkRat n d)
  | _ => none

def int3? (j : Json) : Option (Int × Int × Int) :=
  match j with
  | Json.arr #[a, b, c] => do some ((← int? a), (← int? b), (← int? c))
  | _ => none

def rat3? (j : Json) : Option (Rat × Rat × Rat) :=
  match j with
  | Json.arr #[a, b, c] => do some ((← rat? a), (← rat? b), (← rat? c))
  | _ => none

def kind? (s : String) : Option Kind :=
  match s with
  | "sphere" => some .sphere
  | "cylinder" => some .cylinder
  | "ellipsoid" => some .ellipsoid
  | "s_shell" => some .sshell
  | "e_shell" => some .eshell
  | _ => none

/-- an optional field must be absent/null or well-formed -/
def opt? {β : Type} (j : Json) (k : String) (p : Json → Option β) : Option (Option β) :=
  match field? j k with
  | none => some none
  | some v => (p v).map some

def parseReq (j : Json) : Option Req := do
  let kind ← getStr? j "kind" >>= kind?
  let box ← field? j "box"
  let (nx, ny, nz) ← match box with
    | Json.arr #[a, b, c] => do some ((← nat? a), (← nat? b), (← nat? c))
    | _ => none
  let center ← opt? j "center" int3?
  let radius ← opt? j "radius" rat?
  let height ← opt? j "height" int?
  let radii ← opt? j "radii" rat3?
  let thick ← opt? j "thick" rat?
  let gauss ← opt? j "gauss" rat?
  let outwards := match field? j "outwards" with
    | some (Json.bool b) => b
    | _ => true
  some { kind := kind, nx := nx, ny := ny, nz := nz, center := center, radius := radius, height := height,
         radii := radii, thick := thick.getD 0, gauss := gauss.getD 0, outwards := outwards }

def encode (l : List Int) : String :=
  String.ofList (l.map fun v => if v == 1 then '1' else if v == 0 then '0' else if v == -1 then 'm' else '?')

/-- tie voxels of the ellipsoids a request draws -/
def tieMask (q : Req) : String :=
  let (cx, cy, cz) := q.centre
  let (a, b, c) := q.radiiInt
  match q.kind with
  | .ellipsoid =>
    let (rx, ry, rz) := ellRadii ((a : Rat), (b : Rat), (c : Rat)) q.gauss q.outwards
    encode (render q.nx q.ny q.nz fun i j k => b2i (ellipsoidTie q.nx q.ny q.nz cx cy cz rx ry rz i j k))
  | .eshell =>
    let t := q.thick / 2
    let (ox, oy, oz) := ellRadii ((a : Rat) + t, (b : Rat) + t, (c : Rat) + t) 0 true
    let (ix, iy, iz) := ellRadii ((a : Rat) - t, (b : Rat) - t, (c : Rat) - t) 0 true
    encode (render q.nx q.ny q.nz fun i j k =>
      b2i (ellipsoidTie q.nx q.ny q.nz cx cy cz ox oy oz i j k || ellipsoidTie q.nx q.ny q.nz cx cy cz ix iy iz i j k))
  | _ => ""

/-- 1-D weights of `scipy.ndimage.gaussian_filter1d`: the model's `gaussW` (`exp(-0.5/σ²·t²)` over `-R … R`, divided by their
sum) evaluated with `Float.exp`, tabulated once per request -/
def gaussTable (sigma : Float) (R : Nat) : Array Float :=
  ((axis R).map (gaussW Float.exp Float.ofInt sigma R)).toArray

def ratToFloat (q : Rat) : Float := Float.ofInt q.num / Float.ofNat q.den

/-- the model of `add_gaussian` evaluated at the requested voxels: `blurAt` of `Model/C13.lean` with the
Gaussian weights, applied to the model's own pre-blur mask -/
def blurProbe (q : Req) (m : List Int) (probe : List (Int × Int × Int)) : List Float :=
  let arr : Array Float := (m.map fun v => Float.ofInt v).toArray
  let R := kernelRadius q.gauss
  let tbl := gaussTable (ratToFloat q.gauss) R
  let w1 : Int → Float := fun t => tbl.getD (t + (R : Int)).toNat 0.0
  let x : Int → Int → Int → Float := fun i j k => arr.getD (((i.toNat * q.ny + j.toNat) * q.nz) + k.toNat) 0.0
  probe.map fun (i, j, k) => blurAt q.nx q.ny q.nz R w1 x i j k

def shapeJson (q : Req) (probe : List (Int × Int × Int) := []) : Json :=
  match hardMask q, (if q.gauss = 0 then hardMask q else hardMask { q with gauss := 0 }) with
  | some m, some core =>
    let base := [("box", Json.arr #[q.nx, q.ny, q.nz]), ("mask", Json.str (encode m)), ("core", Json.str (encode core)),
                ("ties", Json.str (tieMask q))]
    let extra := if q.gauss = 0 || probe.isEmpty then [] else
      [("blur", Json.arr ((blurProbe q m probe).map fun x => (bitsOfFloat x : Json)).toArray),
       ("kernel_radius", (kernelRadius q.gauss : Json))]
    Json.mkObj (base ++ extra)
  | _, _ => err "reject:centre-index-error"

def probe? (j : Json) : List (Int × Int × Int) :=
  match field? j "probe" with
  | some (Json.arr vs) => vs.toList.filterMap int3?
  | _ => []

def parseMasks (a : Array Json) : Option (List (List Float)) :=
  a.toList.mapM fun m => match m with
    | Json.arr vs => vs.toList.mapM fun v => (nat? v).map floatOfBits
    | _ => none

/-- the statement's Boolean combination, voxel by voxel, when every input value is 0 or 1 (`specVox`) -/
def specString (fn : String) (ms : List (List Float)) : Option String :=
  if ms.isEmpty || !sameShape ms || !(ms.all fun m => m.all fun v => v == 0.0 || v == 1.0) then none else
  let n := (ms.headD []).length
  let col (p : Nat) : List Bool := ms.map fun m => m.getD p 0.0 == 1.0
  (((List.range n).mapM fun p => specVox fn (col p))).map fun bs => String.ofList (bs.map fun b => if b then '1' else '0')

def outJson (fn : String) (ms : List (List Float)) (o : Option (List Float)) : Json :=
  match o with
  | some l =>
    Json.mkObj ([("out", Json.arr (l.map fun x => (bitsOfFloat x : Json)).toArray)] ++
      (match specString fn ms with | some s => [("spec", Json.str s)] | none => []))
  | none => if ms.isEmpty then err "reject:empty-list" else err "domain:shapes-differ"

def kindName (k : Kind) : String :=
  match k with
  | .sphere => "sphere" | .cylinder => "cylinder" | .ellipsoid => "ellipsoid" | .sshell => "s_shell" | .eshell => "e_shell"

def parseJson (name : String) : Json :=
  match parseShape name.toList with
  | some (k, specs) =>
    Json.mkObj [("kind", Json.str (kindName k)), ("specs", Json.arr (specs.map fun (n : Nat) => (n : Json)).toArray),
                ("format", match formatShape k specs with | some cs => Json.str (String.ofList cs) | none => Json.null)]
  | none => err "reject:no-pattern"

def handle (j : Json) : Json :=
  match getStr? j "op" with
  | some "shape" =>
    match parseReq j with
    | some q => shapeJson q (probe? j)
    | none => err "bad-args"
  | some "generate" =>
    match getStr? j "kind" >>= kind?, getArr? j "specs" >>= (fun a => a.toList.mapM nat?), opt? j "mask_size" nat?, getNat? j "expansion" with
    | some kind, some specs, some ms, some e =>
      match generate kind specs ms e with
      | some q => shapeJson q
      | none => err "reject:specs"
    | _, _, _, _ => err "bad-args"
  | some "algebra" =>
    match getStr? j "fn", getArr? j "masks" >>= parseMasks with
    | some "union", some ms => outJson "union" ms (union ms)
    | some "intersection", some ms => outJson "intersection" ms (intersection ms)
    | some "subtraction", some ms => outJson "subtraction" ms (subtraction ms)
    | some "difference", some ms => outJson "difference" ms (difference ms)
    | _, _ => err "bad-args"
  | some "parse" =>
    match getStr? j "name" with
    | some name => parseJson name
    | none => err "bad-args"
  | _ => err "bad-op"

end CryoCat.Drv.C13
