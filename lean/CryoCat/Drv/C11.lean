import CryoCat.Drv.Proto
import CryoCat.Model.C11_Bytes
/-! C11 driver: voxels travel as IEEE-754 binary64 bit patterns (int8/int16/float32 values are
exactly representable); `α := Nat` (the bit pattern), so equality is decidable. -/
namespace CryoCat.Drv.C11
open Lean CryoCat CryoCat.C11

/-- numpy `astype(t)` of a value held as binary64 (every float32/int16/int8 value is one): to float32 =
IEEE round-to-nearest-even; to float64 exact; to int16/int8 = C conversion of the value itself, i.e.
truncation toward zero (2.99999999 ↦ 2, −7.99999999 ↦ −7, −0.5 ↦ 0), applied DIRECTLY to the binary64
value — never through float32.  Only finite in-range values are generated for integer casts
(out-of-range / NaN are undefined behaviour in C). -/
def cast (t : DType) (b : Nat) : Nat :=
  match t with
  | .f32 => bitsOfFloat (floatOfBits b).toFloat32.toFloat
  | .f64 => bitsOfFloat (floatOfBits b)
  | _ =>
    let v := floatOfBits b
    let r := if v < 0.0 then v.ceil else v.floor
    if r == 0.0 then bitsOfFloat 0.0 else bitsOfFloat r

/-- `x * (-1)` in the voxel type: IEEE sign flip for floats (−0.0 exists), two's-complement
negation for integers (−0 = 0; the most negative value is never generated) -/
def negIn (t : DType) (b : Nat) : Nat :=
  match t with
  | .f32 | .f64 => bitsOfFloat (-(floatOfBits b))
  | _ => if floatOfBits b == 0.0 then bitsOfFloat 0.0 else bitsOfFloat (-(floatOfBits b))

def dflt : Nat := bitsOfFloat 0.0

/-! ### bytes: the real files travel as hex strings; voxel values ↔ bit patterns on disk -/

def hexVal (c : UInt8) : UInt8 := if c ≥ 97 then c - 87 else if c ≥ 65 then c - 55 else c - 48

def bytesOfHex (s : String) : Array UInt8 :=
  let b := s.toUTF8
  (Array.range (b.size / 2)).map fun i => hexVal (b.get! (2 * i)) * 16 + hexVal (b.get! (2 * i + 1))

def nanBits : Nat := 0x7FF8000000000000

/-- the bit pattern on disk ↦ the voxel value as a binary64 pattern (every NaN ↦ the canonical one, as the
harness does for what numpy returns): IEEE binary32/binary64, two's complement int8/int16, plain uint16 -/
def ofWordC (c : Code) (w : Nat) : Nat :=
  match c with
  | .f32 => let x := (Float32.ofBits w.toUInt32).toFloat; if x.isNaN then nanBits else bitsOfFloat x
  | .f64 => if (floatOfBits w).isNaN then nanBits else w
  | .i16 => bitsOfFloat (Float.ofInt (if w ≥ 32768 then (w : Int) - 65536 else (w : Int)))
  | .i8 => bitsOfFloat (Float.ofInt (if w ≥ 128 then (w : Int) - 256 else (w : Int)))
  | .u16 => bitsOfFloat (Float.ofNat w)

def ofWord (t : DType) (w : Nat) : Nat := ofWordC t.code w

/-- the voxel value (a binary64 pattern holding a value of type `t`) ↦ its bit pattern on disk -/
def toWord (t : DType) (b : Nat) : Nat :=
  match t with
  | .f32 => (floatOfBits b).toFloat32.toBits.toNat
  | .f64 => b
  | .i16 => ((floatOfBits b).toInt64.toInt % 65536).toNat
  | .i8 => ((floatOfBits b).toInt64.toInt % 256).toNat

def isNaNWord (c : Code) (w : Nat) : Bool :=
  match c with
  | .f32 => (w / 2 ^ 23) % 256 == 255 && w % 2 ^ 23 != 0
  | .f64 => (w / 2 ^ 52) % 2048 == 2047 && w % 2 ^ 52 != 0
  | _ => false

/-- equal bit patterns, or two NaNs (sign and payload of a NaN are not voxel values) -/
def sameWord (c : Code) (x y : Nat) : Bool := x == y || (isNaNWord c x && isNaNWord c y)

def rawJson (r : Raw) : Json :=
  Json.mkObj [("kind", Json.str (match r.kind with | .mrc => "mrc" | .em => "em")),
              ("dims", Json.arr #[(r.nx : Json), (r.ny : Json), (r.nz : Json)]),
              ("dtype", Json.str r.code.name), ("big_endian", Json.bool r.bigEndian),
              ("data", Json.arr ((r.words.map (fun w => ((ofWordC r.code w : Nat) : Json))).toArray))]

/-- why the verified decoders refuse these bytes (for the report only) -/
def whyUndecodable (A : Array UInt8) : String :=
  if [byteAt A 208, byteAt A 209, byteAt A 210, byteAt A 211] = [77, 65, 80, 32] then
    if A.size < 1024 then "MRC: shorter than the 1024-byte header" else
    match mrcStamp? (byteAt A 212) (byteAt A 213) with
    | none => s!"MRC: machine stamp {(byteAt A 212).toNat} {(byteAt A 213).toNat}"
    | some be =>
      if (Code.ofMrcMode? (i32At be A 12)).isNone then s!"MRC: mode {i32At be A 12}"
      else if (i32At be A 64, i32At be A 68, i32At be A 72) ≠ (1, 2, 3) then s!"MRC: mapc/r/s = {i32At be A 64} {i32At be A 68} {i32At be A 72}"
      else s!"MRC: nx,ny,nz = {i32At be A 0} {i32At be A 4} {i32At be A 8}, mode {i32At be A 12}, nsymbt {i32At be A 92}: file size {A.size} is not header + nx*ny*nz voxels"
  else
    if A.size < 512 then "EM: shorter than the 512-byte header" else
    match emMachine? (byteAt A 0) with
    | none => s!"EM: machine byte {(byteAt A 0).toNat}"
    | some be =>
      if (Code.ofEmType? (byteAt A 3).toNat).isNone then s!"EM: type code {(byteAt A 3).toNat}"
      else s!"EM: nx,ny,nz = {i32At be A 4} {i32At be A 8} {i32At be A 12}, type {(byteAt A 3).toNat}: file size {A.size} is not header + nx*ny*nz voxels"

def rangeDiffers (A B : Array UInt8) (lo hi : Nat) : Bool :=
  (List.range (hi - lo)).any fun t => byteAt A (lo + t) != byteAt B (lo + t)

/-- the model's bytes against the real file's bytes: the header fields the statement is about, then the payload
voxel by voxel (NaN ~ NaN).  Returns the names of the parts that differ. -/
def bytesVsModel (model : Raw) (A : Array UInt8) (real : Option Raw) : List String :=
  let M := (encode model).toArray
  let hdr : List (String × Nat × Nat) := match model.kind with
    | .mrc => [("nx,ny,nz", 0, 12), ("mode", 12, 16), ("mapc,mapr,maps", 64, 76), ("nsymbt", 92, 96), ("MAP", 208, 212), ("machine-stamp", 212, 213)]
    | .em => [("machine", 0, 1), ("type-code", 3, 4), ("nx,ny,nz", 4, 16)]
  let h := hdr.filterMap fun (n, lo, hi) => if rangeDiffers M A lo hi then some n else none
  let sz := if M.size != A.size then [s!"file-size(model {M.size}, real {A.size})"] else []
  let pl := match real with
    | none => ["payload(undecodable)"]
    | some r =>
      if r.code != model.code || r.words.length != model.words.length then [] else
      match (List.zip r.words model.words).findIdx? (fun (x, y) => !sameWord model.code x y) with
      | some i => [s!"payload(first differing voxel at file position {i})"]
      | none => []
  h ++ sz ++ pl

/-- a file given either as bytes (`raw`: hex; decoded here by the verified decoders, by content) or, for the
harness's fallbacks, as an already parsed description -/
def fileOfEntry (e : Json) : Option (MapFile Nat) :=
  match getStr? e "raw" with
  | some hx => (decodeByContent (bytesOfHex hx)).bind (Raw.toMapFile? ofWord)
  | none => none

def getBool? (j : Json) (k : String) : Option Bool := (j.getObjValAs? Bool k).toOption
def getNats? (j : Json) (k : String) : Option (Array Nat) := (j.getObjValAs? (Array Nat) k).toOption
def getDT? (j : Json) (k : String) : Option DType := getStr? j k >>= DType.ofName?
/-- absent or null → none -/
def getOptDT (j : Json) (k : String) : Option DType := getDT? j k
def getOptName (j : Json) (k : String) : Option C11.Name := (getStr? j k).map String.toList

def parseArr (j : Json) : Option (Arr Nat × DType) := do
  let sh ← getNats? j "shape"
  let data ← getNats? j "data"
  let dt ← getDT? j "dtype"
  if sh.size ≠ 3 then none else
  -- an array description whose payload is not d0*d1*d2 long is no array (`Arr.WF` is a hypothesis of every theorem)
  if data.size ≠ sh[0]! * sh[1]! * sh[2]! then none else
  some ({ d0 := sh[0]!, d1 := sh[1]!, d2 := sh[2]!, data := data }, dt)

def parseKind : String → Option Kind
  | "mrc" => some .mrc | "em" => some .em | _ => none

def parseFile (j : Json) : Option (MapFile Nat) := do
  let dims ← getNats? j "dims"
  let data ← getNats? j "data"
  let dt ← getDT? j "dtype"
  let k ← getStr? j "kind" >>= parseKind
  if dims.size ≠ 3 then none else
  some { kind := k, nx := dims[0]!, ny := dims[1]!, nz := dims[2]!, dtype := dt, data := data }

def kindName : Kind → String | .mrc => "mrc" | .em => "em"

def natsJson (a : Array Nat) : Json := Json.arr (a.map (fun (n : Nat) => (n : Json)))

def fileJson (f : MapFile Nat) : Json :=
  Json.mkObj [("kind", Json.str (kindName f.kind)), ("dims", natsJson #[f.nx, f.ny, f.nz]),
              ("dtype", Json.str f.dtype.name), ("data", natsJson f.data)]

def arrJson (a : Arr Nat) (dt : DType) : Json :=
  Json.mkObj [("shape", natsJson #[a.d0, a.d1, a.d2]), ("dtype", Json.str dt.name), ("data", natsJson a.data)]

def errJson (e : Err) : Json := err ("reject:" ++ e.name)

def parseFS (j : Json) : Option (FS Nat) := do
  let a ← getArr? j "fs"
  a.toList.mapM fun e => do
    let n ← getStr? e "name"
    let f ← (match getStr? e "raw" with | some _ => fileOfEntry e | none => parseFile e)
    some (n.toList, f)

/-- response fields about the real file's bytes `A` against the model's file `f` -/
def bytesFields (f : MapFile Nat) (A : Array UInt8) : List (String × Json) :=
  let dec := decodeByContent A
  [("decoded", match dec with | some r => rawJson r | none => Json.null),
   ("bytes_vs_model", Json.arr ((bytesVsModel (f.toRaw toWord) A dec).map Json.str).toArray)] ++
  (match dec with | some _ => [] | none => [("decode_error", Json.str (whyUndecodable A))])

def handle (j : Json) : Json :=
  match getStr? j "op" with
  | some "roundtrip" =>
    match (j.getObjVal? "arr").toOption >>= parseArr, getStr? j "name" with
    | some (a, src), some name =>
      -- an absent keyword = the call omits it: the model takes the default of the CURRENT signature
      let tr := getBool? j "transpose"
      let dataType := getOptDT j "data_type"
      let rdt := getOptDT j "rdata_type"
      let rtr := getBool? j "rtranspose"
      let rname := (getStr? j "rname").getD name
      match writeKw cast dflt a src name.toList tr dataType with
      | .error e => errJson e
      | .ok f =>
        -- verified checkers on what the real code produced (optional fields "file", "back")
        let rawA : Option (Array UInt8) := (getStr? j "raw").map bytesOfHex
        -- the real file: its bytes through the verified decoders (or, for harness fallbacks, an already parsed description)
        let realFile : Option (MapFile Nat) := match rawA with
          | some A => (decodeByContent A).bind (Raw.toMapFile? ofWord)
          | none => (j.getObjVal? "file").toOption >>= parseFile
        let chkW : List (String × Json) := match realFile with
          | some fi => [("check_write", Json.bool (checkXFastest dflt (convW cast dataType src) a fi)),
                        ("check_write_dtype", Json.bool (decide (fi.dtype = outDType dataType src)))]
          | none => []
        let convB : Nat → Nat := fun v => conv1 cast rdt (convW cast dataType src v)
        let chkB : List (String × Json) := match (j.getObjVal? "back").toOption >>= parseArr with
          | some (b, bdt) => [("check_back", Json.bool (checkSameVoxels dflt convB a b)),
                              ("check_back_dtype", Json.bool (decide (bdt = rdt.getD (outDType dataType src))))]
          | none => []
        let back := match readKw cast dflt rname.toList f rtr rdt with
          | .ok (b, dt) => arrJson b dt
          | .error e => errJson e
        let byt : List (String × Json) := match rawA with
          | some A =>
            -- the model's reader on the REAL bytes against what the real reader returned
            let rb : List (String × Json) := match (j.getObjVal? "back").toOption >>= parseArr,
                readBytesKw ofWord cast dflt rname.toList A rtr rdt with
              | some (b, bdt), .ok (mb, mdt) => [("check_read_bytes", Json.bool (decide (mb = b) && decide (mdt = bdt)))]
              | _, _ => []
            bytesFields f A ++ rb
          | none => []
        Json.mkObj ([("file", fileJson f), ("arr", back)] ++ chkW ++ chkB ++ byt)
    | _, _ => err "bad-args"
  | some "convert" =>
    match getStr? j "which", parseFS j, getStr? j "map_name" with
    | some which, some fs, some mapName =>
      let inv := getBool? j "invert"
      let ow := getBool? j "overwrite"
      let cfg := if which = "em2mrc" then em2mrcCfg else mrc2emCfg
      let outOpt := getOptName j "output_name"
      let neg : Nat → Nat := match fs.lookup mapName.toList with
        | some fin => negIn fin.dtype
        | none => negIn .f32
      match convertKw cfg cast dflt neg fs mapName.toList inv ow outOpt with
      | .error e => errJson e
      | .ok fs' =>
        let outN := match outName cfg mapName.toList outOpt with | .ok n => n | .error _ => []
        -- verified checker on the file the real converter wrote (optional field "file")
        let rawA : Option (Array UInt8) := (getStr? j "raw").map bytesOfHex
        let realOut : Option (MapFile Nat) := match rawA with
          | some A => (decodeByContent A).bind (Raw.toMapFile? ofWord)
          | none => (j.getObjVal? "file").toOption >>= parseFile
        -- the input file the harness made (decoded above from its bytes) holds the case's array, x fastest
        let chkIn : List (String × Json) :=
          match fs.lookup mapName.toList, (j.getObjVal? "in_arr").toOption >>= parseArr with
          | some fin, some (a, adt) => [("check_input", Json.bool (checkXFastest dflt id a fin && decide (fin.dtype = adt)))]
          | _, _ => []
        let chk : List (String × Json) := chkIn ++
          match fs.lookup mapName.toList, realOut with
          | some fin, some fout =>
            -- the statement: an omitted `invert` means no inversion (documented default)
            [("check_convert", Json.bool (checkConverted cast neg (inv.getD false) fin fout))]
          | _, _ => []
        match fs'.lookup outN with
        | some f => Json.mkObj ([("out_name", Json.str (String.ofList outN)), ("file", fileJson f),
                                ("names", Json.arr (fs'.map (fun e => Json.str (String.ofList e.1))).toArray)] ++ chk
                                ++ (match rawA with | some A => bytesFields f A | none => []))
        | none => err "model-lost-output"
    | _, _, _ => err "bad-args"
  | some "names" =>
    match getStr? j "name" with
    | some n =>
      let k := fun (r : Except Err Kind) => match r with | .ok k => Json.str (kindName k) | .error e => Json.str ("reject:" ++ e.name)
      let nm := fun (r : Except Err C11.Name) => match r with | .ok n => Json.str (String.ofList n) | .error e => Json.str ("reject:" ++ e.name)
      Json.mkObj [("write", k (writeKind n.toList)), ("read", k (readKind n.toList)),
                  ("em2mrc_default", nm (outName em2mrcCfg n.toList none)),
                  ("mrc2em_default", nm (outName mrc2emCfg n.toList none))]
    | none => err "bad-args"
  | _ => err "bad-op"

end CryoCat.Drv.C11
