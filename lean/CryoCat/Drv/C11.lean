import CryoCat.Drv.Proto
import CryoCat.Model.C11
/-! C11 driver: voxels travel as IEEE-754 binary64 bit patterns (int8/int16/float32 values are
exactly representable); `α := Nat` (the bit pattern), so equality is decidable. -/
namespace CryoCat.Drv.C11
open Lean CryoCat CryoCat.C11

/-- numpy `astype(t)` of a value held as binary64 (every float32/int16/int8 value is one): to float32 =
IEEE round-to-nearest-even; to float64 exact; to int16/int8 = C conversion of the value itself, i.e.
truncation toward zero (2.99999999 ↦ 2, −7.99999999 ↦ −7, −0.5 ↦ 0), applied DIRECTLY to the binary64
value — never through float32.  Only finite in-range values are generated for integer casts
(out-of-range / NaN are undefined behaviour in C). -/
def cast (t : DType) (b : Nat) : Nat :=
  match t with
  | .f32 => bitsOfFloat (floatOfBits b).toFloat32.toFloat
  | .f64 => bitsOfFloat (floatOfBits b)
  | _ =>
    let v := floatOfBits b
    let r := if v < 0.0 then v.ceil else v.floor
    if r == 0.0 then bitsOfFloat 0.0 else bitsOfFloat r

/-- `x * (-1)` in the voxel type: IEEE sign flip for floats (−0.0 exists), two's-complement
negation for integers (−0 = 0; the most negative value is never generated) -/
def negIn (t : DType) (b : Nat) : Nat :=
  match t with
  | .f32 | .f64 => bitsOfFloat (-(floatOfBits b))
  | _ => if floatOfBits b == 0.0 then bitsOfFloat 0.0 else bitsOfFloat (-(floatOfBits b))

def dflt : Nat := bitsOfFloat 0.0

def getBool? (j : Json) (k : String) : Option Bool := (j.getObjValAs? Bool k).toOption
def getNats? (j : Json) (k : String) : Option (Array Nat) := (j.getObjValAs? (Array Nat) k).toOption
def getDT? (j : Json) (k : String) : Option DType := getStr? j k >>= DType.ofName?
/-- absent or null → none -/
def getOptDT (j : Json) (k : String) : Option DType := getDT? j k
def getOptName (j : Json) (k : String) : Option C11.Name := (getStr? j k).map String.toList

def parseArr (j : Json) : Option (Arr Nat × DType) := do
  let sh ← getNats? j "shape"
  let data ← getNats? j "data"
  let dt ← getDT? j "dtype"
  if sh.size ≠ 3 then none else
  -- an array description whose payload is not d0*d1*d2 long is no array (`Arr.WF` is a hypothesis of every theorem)
  if data.size ≠ sh[0]! * sh[1]! * sh[2]! then none else
  some ({ d0 := sh[0]!, d1 := sh[1]!, d2 := sh[2]!, data := data }, dt)

def parseKind : String → Option Kind
  | "mrc" => some .mrc | "em" => some .em | _ => none

def parseFile (j : Json) : Option (MapFile Nat) := do
  let dims ← getNats? j "dims"
  let data ← getNats? j "data"
  let dt ← getDT? j "dtype"
  let k ← getStr? j "kind" >>= parseKind
  if dims.size ≠ 3 then none else
  some { kind := k, nx := dims[0]!, ny := dims[1]!, nz := dims[2]!, dtype := dt, data := data }

def kindName : Kind → String | .mrc => "mrc" | .em => "em"

def natsJson (a : Array Nat) : Json := Json.arr (a.map (fun (n : Nat) => (n : Json)))

def fileJson (f : MapFile Nat) : Json :=
  Json.mkObj [("kind", Json.str (kindName f.kind)), ("dims", natsJson #[f.nx, f.ny, f.nz]),
              ("dtype", Json.str f.dtype.name), ("data", natsJson f.data)]

def arrJson (a : Arr Nat) (dt : DType) : Json :=
  Json.mkObj [("shape", natsJson #[a.d0, a.d1, a.d2]), ("dtype", Json.str dt.name), ("data", natsJson a.data)]

def errJson (e : Err) : Json := err ("reject:" ++ e.name)

def parseFS (j : Json) : Option (FS Nat) := do
  let a ← getArr? j "fs"
  a.toList.mapM fun e => do
    let n ← getStr? e "name"
    let f ← parseFile e
    some (n.toList, f)

def handle (j : Json) : Json :=
  match getStr? j "op" with
  | some "roundtrip" =>
    match (j.getObjVal? "arr").toOption >>= parseArr, getStr? j "name" with
    | some (a, src), some name =>
      -- an absent keyword = the call omits it: the model takes the default of the CURRENT signature
      let tr := getBool? j "transpose"
      let dataType := getOptDT j "data_type"
      let rdt := getOptDT j "rdata_type"
      let rtr := getBool? j "rtranspose"
      let rname := (getStr? j "rname").getD name
      match writeKw cast dflt a src name.toList tr dataType with
      | .error e => errJson e
      | .ok f =>
        -- verified checkers on what the real code produced (optional fields "file", "back")
        let chkW : List (String × Json) := match (j.getObjVal? "file").toOption >>= parseFile with
          | some fi => [("check_write", Json.bool (checkXFastest dflt (convW cast dataType src) a fi)),
                        ("check_write_dtype", Json.bool (decide (fi.dtype = outDType dataType src)))]
          | none => []
        let convB : Nat → Nat := fun v => conv1 cast rdt (convW cast dataType src v)
        let chkB : List (String × Json) := match (j.getObjVal? "back").toOption >>= parseArr with
          | some (b, bdt) => [("check_back", Json.bool (checkSameVoxels dflt convB a b)),
                              ("check_back_dtype", Json.bool (decide (bdt = rdt.getD (outDType dataType src))))]
          | none => []
        let back := match readKw cast dflt rname.toList f rtr rdt with
          | .ok (b, dt) => arrJson b dt
          | .error e => errJson e
        Json.mkObj ([("file", fileJson f), ("arr", back)] ++ chkW ++ chkB)
    | _, _ => err "bad-args"
  | some "convert" =>
    match getStr? j "which", parseFS j, getStr? j "map_name" with
    | some which, some fs, some mapName =>
      let inv := getBool? j "invert"
      let ow := getBool? j "overwrite"
      let cfg := if which = "em2mrc" then em2mrcCfg else mrc2emCfg
      let outOpt := getOptName j "output_name"
      let neg : Nat → Nat := match fs.lookup mapName.toList with
        | some fin => negIn fin.dtype
        | none => negIn .f32
      match convertKw cfg cast dflt neg fs mapName.toList inv ow outOpt with
      | .error e => errJson e
      | .ok fs' =>
        let outN := match outName cfg mapName.toList outOpt with | .ok n => n | .error _ => []
        -- verified checker on the file the real converter wrote (optional field "file")
        let chk : List (String × Json) :=
          match fs.lookup mapName.toList, (j.getObjVal? "file").toOption >>= parseFile with
          | some fin, some fout =>
            -- the statement: an omitted `invert` means no inversion (documented default)
            [("check_convert", Json.bool (checkConverted cast neg (inv.getD false) fin fout))]
          | _, _ => []
        match fs'.lookup outN with
        | some f => Json.mkObj ([("out_name", Json.str (String.ofList outN)), ("file", fileJson f),
                                ("names", Json.arr (fs'.map (fun e => Json.str (String.ofList e.1))).toArray)] ++ chk)
        | none => err "model-lost-output"
    | _, _, _ => err "bad-args"
  | some "names" =>
    match getStr? j "name" with
    | some n =>
      let k := fun (r : Except Err Kind) => match r with | .ok k => Json.str (kindName k) | .error e => Json.str ("reject:" ++ e.name)
      let nm := fun (r : Except Err C11.Name) => match r with | .ok n => Json.str (String.ofList n) | .error e => Json.str ("reject:" ++ e.name)
      Json.mkObj [("write", k (writeKind n.toList)), ("read", k (readKind n.toList)),
                  ("em2mrc_default", nm (outName em2mrcCfg n.toList none)),
                  ("mrc2em_default", nm (outName mrc2emCfg n.toList none))]
    | none => err "bad-args"
  | _ => err "bad-op"

end CryoCat.Drv.C11
