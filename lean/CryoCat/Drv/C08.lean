import CryoCat.Drv.Proto
import CryoCat.Model.C08
import CryoCat.Model.C08_Check
import CryoCat.Model.C08_Cell
/-! C08 driver: executes `CryoCat.C08.trace` (the defs the theorems are about) at `Float`.
Cells travel as IEEE-754 bit patterns. -/
namespace CryoCat.Drv.C08
open Lean CryoCat CryoCat.C08

/-- `fillna(0.0)` -/
def fill (v : Float) : Float := if v.isNaN then 0.0 else v

def parseRow (j : Json) : Option (Particle Float) :=
  match j with
  | Json.arr cells =>
    if cells.size != 20 then none else
    (cells.toList.mapM (fun (c : Json) => (c.getNat?).toOption)).map (fun l => Particle.ofList 0.0 (l.map floatOfBits))
  | _ => none

def parseRows (j : Json) : Option (Motl Float) :=
  match j with
  | Json.arr rows => rows.toList.mapM parseRow
  | _ => none

def parseVals (j : Json) : Option (List Float) :=
  match j with
  | Json.arr vs => vs.toList.mapM (fun (c : Json) => (c.getNat?).toOption.map floatOfBits)
  | _ => none

def getField? (j : Json) (k : String) : Option Field := getStr? j k >>= Field.ofName?
def getBool? (j : Json) (k : String) : Option Bool := (j.getObjValAs? Bool k).toOption
def getVal? (j : Json) (k : String) : Option Json := (j.getObjVal? k).toOption

def parseInputs (j : Json) (k : String) : Option (List (Bool × Motl Float)) :=
  match getArr? j k with
  | some a => a.toList.mapM (fun x => do
      let df ← getBool? x "df"
      let rows ← getVal? x "rows" >>= parseRows
      pure (df, rows))
  | none => none

def parseOp (j : Json) : Option (Op Float) :=
  match getStr? j "op" with
  | some "subset" => do pure (Op.subset (← getField? j "f") (← getVal? j "vs" >>= parseVals))
  | some "remove" => do pure (Op.remove (← getField? j "f") (← getVal? j "vs" >>= parseVals))
  | some "split" => do pure (Op.splitPick (← getField? j "f") (← getNat? j "pick"))
  | some "intersect" => do pure (Op.intersect (← getField? j "f") (← getVal? j "other" >>= parseRows))
  | some "dropdup" => do pure (Op.dropDup (← getField? j "dup") (← getField? j "dec") (← getBool? j "asc"))
  | some "merge_renumber" => do
      pure (Op.mergeRenumber (← parseInputs j "before") (← parseInputs j "after") (← getBool? j "self_df"))
  | some "merge_dropdup" => do
      pure (Op.mergeDropDup (← parseInputs j "before") (← parseInputs j "after") (← getBool? j "self_df"))
  | some "renumber_particles" => some Op.renumberParticles
  | some "renumber_objects" => do pure (Op.renumberObjects (floatOfBits (← getNat? j "start")))
  | _ => none

def rowsJson (l : Motl Float) : Json :=
  Json.arr (l.map (fun p => Json.arr (p.toList.map (fun x => (bitsOfFloat x : Json))).toArray)).toArray

/-- all parts of a split (the history continues with the picked one) -/
def partsJson (op : Op Float) (l : Motl Float) : Json :=
  match op with
  | .splitPick f _ => Json.arr ((split f l).map rowsJson).toArray
  | _ => Json.null

def partsOf : List (Op Float) → Motl Float → List Json
  | [], _ => []
  | op :: ops, l => partsJson op l :: partsOf ops (step fill Nat.toFloat op l)

/-! ### `check`: the verified checkers (`Model/C08_Check.lean`) on the REAL outputs

Every step is decided twice when possible:
* at `Cell` (`Model/C08_Cell.lean`: cells decoded from their bit patterns into exact rationals, NaN ↦ `missing`) by
  `stepClausesQ` — an instance the theorems `check_step_iff_executed` … are about — whenever `keysPresent` holds
  (no missing cell in a field the step reads with `==`, `<`, `+`); this verdict is then THE verdict (`proved: true`);
* at `Float` by the missing-value-aware `stepClausesM` (IEEE `==`, `miss := isNaN`): the verdict when a key is missing
  (`proved: false`), and a cross-check otherwise (`agree`). -/

/-- the same cell = the same IEEE bit pattern (the harness sends one pattern for every NaN) -/
def eqvBits (a b : Float) : Bool := a.toBits == b.toBits

def parseStrs (j : Json) : Option (List String) :=
  match j with
  | Json.arr a => a.toList.mapM (fun (c : Json) => c.getStr?.toOption)
  | _ => none

/-- one observed step: the table, all parts of a split, offset certificates, and every column-name list seen -/
def parseObs (j : Json) : Option (Obs Float × List (List String)) := do
  let rows ← getVal? j "rows" >>= parseRows
  let cols ← getVal? j "cols" >>= parseStrs
  let parts ← match getArr? j "parts" with
    | some a => a.toList.mapM (fun x => getVal? x "rows" >>= parseRows)
    | none => some []
  let pcols ← match getArr? j "parts" with
    | some a => a.toList.mapM (fun x => getVal? x "cols" >>= parseStrs)
    | none => some []
  let hints ← match getArr? j "hints" with
    | some a => a.toList.mapM parseVals
    | none => some []
  pure ({ out := rows, parts := parts, hints := hints }, cols :: pcols)

/-! decoding into `Cell` (through the bit pattern, never through a `Float` operation) -/
def cellOf (x : Float) : Cell := decodeBits (bitsOfFloat x)
def rowQ (p : Particle Float) : Particle Cell := Particle.ofFn (fun f => cellOf (p.get f))
def tableQ (l : Motl Float) : Motl Cell := l.map rowQ
def inputsQ (xs : List (Bool × Motl Float)) : List (Bool × Motl Cell) := xs.map (fun x => (x.1, tableQ x.2))

def opQ : Op Float → Op Cell
  | .subset f vs => .subset f (vs.map cellOf)
  | .remove f vs => .remove f (vs.map cellOf)
  | .splitPick f i => .splitPick f i
  | .intersect f o => .intersect f (tableQ o)
  | .dropDup dup dec asc => .dropDup dup dec asc
  | .mergeRenumber b a s => .mergeRenumber (inputsQ b) (inputsQ a) s
  | .mergeDropDup b a s => .mergeDropDup (inputsQ b) (inputsQ a) s
  | .renumberParticles => .renumberParticles
  | .renumberObjects start => .renumberObjects (cellOf start)

def obsQ (o : Obs Float) : Obs Cell :=
  { out := tableQ o.out, parts := o.parts.map tableQ, hints := o.hints.map (fun h => h.map cellOf) }

/-- for `merge_and_drop_duplicates` the offsets the MODEL's loop computes from the REAL previous table are
always offered as one more certificate (`Props/C08.lean` `check_merge_dropdup_accepts_model`: with them the
checker accepts the documented behaviour whatever the inputs); the harness's own candidates come first -/
def withModelHint (op : Op Float) (l : Motl Float) (o : Obs Float) : Obs Float :=
  match op with
  | .mergeDropDup b a s => { o with hints := o.hints ++ [mergeOffsets Gen.C08.mergeDropDupShiftCmp 0 (mergeInputs fill b a s l)] }
  | _ => o

/-- the same at `Cell`: the model's loop run on the decoded tables -/
def withModelHintQ (op : Op Cell) (l : Motl Cell) (o : Obs Cell) : Obs Cell :=
  match op with
  | .mergeDropDup b a s => { o with hints := o.hints ++ [mergeOffsets Gen.C08.mergeDropDupShiftCmp 0 (mergeInputs fillQ b a s l)] }
  | _ => o

/-- the observed chain, decoded, with the model's certificate added at every `merge_and_drop_duplicates` -/
def hintedQ : List (Op Float × Obs Float) → Motl Float → List (Op Cell × Obs Cell)
  | [], _ => []
  | (op, o) :: rest, l => (opQ op, withModelHintQ (opQ op) (tableQ l) (obsQ o)) :: hintedQ rest o.out

def failedOf (cl : List (String × Bool)) : List String := (cl.filter (fun c => !c.2)).map (·.1)

def verdicts : List (Op Float × Obs Float × List (List String)) → Motl Float → List Json
  | [], _ => []
  | (op, o0, cols) :: rest, l =>
    let schema := cols.all checkSchema
    let clF := stepClausesM eqvBits Float.isNaN fill Nat.toFloat op l (withModelHint op l o0)
    let opq := opQ op
    let lq := tableQ l
    let oq := withModelHintQ opq lq (obsQ o0)
    let proved := keysPresent opq lq oq
    let clQ := if proved then stepClausesQ opq lq oq else []
    let failed := if proved then failedOf clQ else failedOf clF
    Json.mkObj [("schema", Json.bool schema), ("ok", Json.bool failed.isEmpty), ("proved", Json.bool proved),
                ("agree", Json.bool (!proved || (failedOf clQ).isEmpty == (failedOf clF).isEmpty)),
                ("failed", Json.arr (failed.map Json.str).toArray)] :: verdicts rest o0.out

/-- every step has all its key cells present: the whole observed history can be handed to `checkRunQ` -/
def allPresent : List (Op Cell × Obs Cell) → Motl Cell → Bool
  | [], _ => true
  | (op, o) :: rest, l => keysPresent op l o && allPresent rest o.out

def handle (j : Json) : Json :=
  match getStr? j "op" with
  | some "check" =>
    match getVal? j "base" >>= parseRows, getArr? j "ops" >>= (fun a => a.toList.mapM parseOp),
          getArr? j "obs" >>= (fun a => a.toList.mapM parseObs) with
    | some base, some ops, some obs =>
      let steps := ops.zip obs
      let chainQ := hintedQ (steps.map (fun s => (s.1, s.2.1))) base
      let present := allPresent chainQ (tableQ base)
      Json.mkObj [("verdicts", Json.arr (verdicts steps base).toArray),
                  ("run_proved", Json.bool present),
                  ("run_ok", Json.bool (present && checkRunQ chainQ (tableQ base)))]
    | _, _, _ => err "bad-args"
  | some "history" =>
    match getVal? j "base" >>= parseRows, getArr? j "ops" >>= (fun a => a.toList.mapM parseOp) with
    | some base, some ops =>
      Json.mkObj [("states", Json.arr ((trace fill Nat.toFloat ops base).map rowsJson).toArray),
                  ("parts", Json.arr (partsOf ops base).toArray)]
    | _, _ => err "bad-args"
  | _ => err "bad-op"

end CryoCat.Drv.C08
