import CryoCat.Drv.Proto
import CryoCat.Model.C08
import CryoCat.Model.C08_Check
/-! C08 driver: executes `CryoCat.C08.trace` (the defs the theorems are about) at `Float`.
Cells travel as IEEE-754 bit patterns. -/
namespace CryoCat.Drv.C08
open Lean CryoCat CryoCat.C08

/-- `fillna(0.0)` -/
def fill (v : Float) : Float := if v.isNaN then 0.0 else v

def parseRow (j : Json) : Option (Particle Float) :=
  match j with
  | Json.arr cells =>
    if cells.size != 20 then none else
    (cells.toList.mapM (fun (c : Json) => (c.getNat?).toOption)).map (fun l => Particle.ofList 0.0 (l.map floatOfBits))
  | _ => none

def parseRows (j : Json) : Option (Motl Float) :=
  match j with
  | Json.arr rows => rows.toList.mapM parseRow
  | _ => none

def parseVals (j : Json) : Option (List Float) :=
  match j with
  | Json.arr vs => vs.toList.mapM (fun (c : Json) => (c.getNat?).toOption.map floatOfBits)
  | _ => none

def getField? (j : Json) (k : String) : Option Field := getStr? j k >>= Field.ofName?
def getBool? (j : Json) (k : String) : Option Bool := (j.getObjValAs? Bool k).toOption
def getVal? (j : Json) (k : String) : Option Json := (j.getObjVal? k).toOption

def parseInputs (j : Json) (k : String) : Option (List (Bool × Motl Float)) :=
  match getArr? j k with
  | some a => a.toList.mapM (fun x => do
      let df ← getBool? x "df"
      let rows ← getVal? x "rows" >>= parseRows
      pure (df, rows))
  | none => none

def parseOp (j : Json) : Option (Op Float) :=
  match getStr? j "op" with
  | some "subset" => do pure (Op.subset (← getField? j "f") (← getVal? j "vs" >>= parseVals))
  | some "remove" => do pure (Op.remove (← getField? j "f") (← getVal? j "vs" >>= parseVals))
  | some "split" => do pure (Op.splitPick (← getField? j "f") (← getNat? j "pick"))
  | some "intersect" => do pure (Op.intersect (← getField? j "f") (← getVal? j "other" >>= parseRows))
  | some "dropdup" => do pure (Op.dropDup (← getField? j "dup") (← getField? j "dec") (← getBool? j "asc"))
  | some "merge_renumber" => do
      pure (Op.mergeRenumber (← parseInputs j "before") (← parseInputs j "after") (← getBool? j "self_df"))
  | some "merge_dropdup" => do
      pure (Op.mergeDropDup (← parseInputs j "before") (← parseInputs j "after") (← getBool? j "self_df"))
  | some "renumber_particles" => some Op.renumberParticles
  | some "renumber_objects" => do pure (Op.renumberObjects (floatOfBits (← getNat? j "start")))
  | _ => none

def rowsJson (l : Motl Float) : Json :=
  Json.arr (l.map (fun p => Json.arr (p.toList.map (fun x => (bitsOfFloat x : Json))).toArray)).toArray

/-- all parts of a split (the history continues with the picked one) -/
def partsJson (op : Op Float) (l : Motl Float) : Json :=
  match op with
  | .splitPick f _ => Json.arr ((split f l).map rowsJson).toArray
  | _ => Json.null

def partsOf : List (Op Float) → Motl Float → List Json
  | [], _ => []
  | op :: ops, l => partsJson op l :: partsOf ops (step fill Nat.toFloat op l)

/-! ### `check`: the verified checkers (`Model/C08_Check.lean`) on the REAL outputs -/

/-- the same cell = the same IEEE bit pattern (the harness sends one pattern for every NaN) -/
def eqvBits (a b : Float) : Bool := a.toBits == b.toBits

def parseStrs (j : Json) : Option (List String) :=
  match j with
  | Json.arr a => a.toList.mapM (fun (c : Json) => c.getStr?.toOption)
  | _ => none

/-- one observed step: the table, all parts of a split, offset certificates, and every column-name list seen -/
def parseObs (j : Json) : Option (Obs Float × List (List String)) := do
  let rows ← getVal? j "rows" >>= parseRows
  let cols ← getVal? j "cols" >>= parseStrs
  let parts ← match getArr? j "parts" with
    | some a => a.toList.mapM (fun x => getVal? x "rows" >>= parseRows)
    | none => some []
  let pcols ← match getArr? j "parts" with
    | some a => a.toList.mapM (fun x => getVal? x "cols" >>= parseStrs)
    | none => some []
  let hints ← match getArr? j "hints" with
    | some a => a.toList.mapM parseVals
    | none => some []
  pure ({ out := rows, parts := parts, hints := hints }, cols :: pcols)

/-- for `merge_and_drop_duplicates` the offsets the MODEL's loop computes from the REAL previous table are
always offered as one more certificate (`Props/C08.lean` `check_merge_dropdup_accepts_model`: with them the
checker accepts the documented behaviour whatever the inputs); the harness's own candidates come first -/
def withModelHint (op : Op Float) (l : Motl Float) (o : Obs Float) : Obs Float :=
  match op with
  | .mergeDropDup b a s => { o with hints := o.hints ++ [mergeOffsets Gen.C08.mergeDropDupShiftCmp 0 (mergeInputs fill b a s l)] }
  | _ => o

/-- the observed chain with the model's certificate added at every `merge_and_drop_duplicates` (tables unchanged) -/
def hinted : List (Op Float × Obs Float) → Motl Float → List (Op Float × Obs Float)
  | [], _ => []
  | (op, o) :: rest, l => (op, withModelHint op l o) :: hinted rest o.out

def verdicts : List (Op Float × Obs Float × List (List String)) → Motl Float → List Json
  | [], _ => []
  | (op, o0, cols) :: rest, l =>
    let o := withModelHint op l o0
    let schema := cols.all checkSchema
    let failed := (stepClauses eqvBits fill Nat.toFloat op l o).filter (fun c => !c.2) |>.map (·.1)
    Json.mkObj [("schema", Json.bool schema), ("ok", Json.bool (checkStep eqvBits fill Nat.toFloat op l o)),
                ("failed", Json.arr (failed.map Json.str).toArray)] :: verdicts rest o.out

def handle (j : Json) : Json :=
  match getStr? j "op" with
  | some "check" =>
    match getVal? j "base" >>= parseRows, getArr? j "ops" >>= (fun a => a.toList.mapM parseOp),
          getArr? j "obs" >>= (fun a => a.toList.mapM parseObs) with
    | some base, some ops, some obs =>
      let steps := ops.zip obs
      Json.mkObj [("verdicts", Json.arr (verdicts steps base).toArray),
                  ("run_ok", Json.bool (checkRun eqvBits fill Nat.toFloat (hinted (steps.map (fun s => (s.1, s.2.1))) base) base))]
    | _, _, _ => err "bad-args"
  | some "history" =>
    match getVal? j "base" >>= parseRows, getArr? j "ops" >>= (fun a => a.toList.mapM parseOp) with
    | some base, some ops =>
      Json.mkObj [("states", Json.arr ((trace fill Nat.toFloat ops base).map rowsJson).toArray),
                  ("parts", Json.arr (partsOf ops base).toArray)]
    | _, _ => err "bad-args"
  | _ => err "bad-op"

end CryoCat.Drv.C08
