import CryoCat.Drv.Proto
import CryoCat.Model.C06
namespace CryoCat.Drv.C06
open Lean CryoCat CryoCat.C06

/-- libm as seen from Lean (`Float.acos` … are the C library functions numpy also calls) -/
def fl : Libm Float := { acos := Float.acos, sqrt := Float.sqrt, atan2 := Float.atan2, pi := 3.141592653589793 }

def fj (x : Float) : Json := (bitsOfFloat x : Json)
def fjs (l : List Float) : Json := Json.arr (l.map fj).toArray
def v3j (v : V3 Float) : Json := fjs [v.x, v.y, v.z]

def floats? (j : Json) : Option (List Float) :=
  match j with
  | Json.arr a => a.toList.mapM (fun c => (c.getNat?).toOption.map floatOfBits)
  | _ => none
def rows? (j : Json) (k : String) : Option (List (List Float)) :=
  match getArr? j k with
  | some a => a.toList.mapM floats?
  | none => none
def flist? (j : Json) (k : String) : Option (List Float) :=
  match j.getObjVal? k with
  | .ok v => floats? v
  | _ => none

/-- (cos, sin) of half of an angle given in degrees (`from_euler(..., degrees=True)` → `deg2rad`) -/
def halfCS (deg : Float) : Float × Float :=
  let h := deg * (fl.pi / 180) / 2
  (Float.cos h, Float.sin h)
def fullCS (deg : Float) : Float × Float :=
  let r := deg * (fl.pi / 180)
  (Float.cos r, Float.sin r)

def quatOfEuler (e : List Float) : Option (Q4 Float) :=
  match e with
  | [phi, theta, psi] =>
    let (cp, sp) := halfCS phi; let (ct, st) := halfCS theta; let (cs, ss) := halfCS psi
    some (qzxz cp sp ct st cs ss)
  | _ => none

def zaxisOfDeg (e : List Float) : Option (V3 Float) :=
  match e with
  | [phi, theta, psi] =>
    let (cp, sp) := fullCS phi; let (ct, st) := fullCS theta; let (cs, ss) := fullCS psi
    some (zaxisOfEuler cp sp ct st cs ss)
  | _ => none

def v3? (l : List Float) : Option (V3 Float) :=
  match l with
  | [x, y, z] => some ⟨x, y, z⟩
  | _ => none
def q4? (l : List Float) : Option (Q4 Float) :=
  match l with
  | [x, y, z, w] => some ⟨x, y, z, w⟩
  | _ => none

/-- exact rational value of a finite binary64 -/
def ratOfBits (n : Nat) : Option Rat :=
  let sgn : Int := if (n / 2^63) % 2 = 1 then -1 else 1
  let e : Nat := (n / 2^52) % 2048
  let m : Nat := n % 2^52
  if e = 2047 then none
  else if e = 0 then some (mkRat (sgn * (m : Int)) (2^1074))
  else if e ≥ 1075 then some (mkRat (sgn * (((m + 2^52) * 2^(e - 1075) : Nat) : Int)) 1)
  else some (mkRat (sgn * ((m + 2^52 : Nat) : Int)) (2^(1075 - e)))

def tolFloat : Float := Float.ofNat Gen.C06.angleTolNum / Float.ofNat Gen.C06.angleTolDen

/-- the regenerated formulas of `angular_distance` evaluated at `Float` -/
def angE (p q : Q4 Float) : Float := angDistE Gen.C06.angExpr fl Float.ofNat p q
def dist2E (p q : Q4 Float) : Float := angDistE Gen.C06.dist2Expr fl Float.ofNat p q

/-- does the regenerated input dispatch of `angular_distance` turn an argument of python type `ty` (argument number `i`) into a rotation?
An ndarray must go through `srot.from_euler(convention, <arg>, degrees=degrees)` (defaults `'zxz'`, `True`: `angHeader`), a `Rotation` is used as it is. -/
def inputOk (i : Nat) (ty : String) : Bool :=
  match (Gen.C06.angInputs[i]?).bind (fun t => inputConversion t ty) with
  | some conv => if ty == "np.ndarray" then conv == "srot.from_euler(convention, <arg>, degrees=degrees)" else conv == "<arg>"
  | none => false

def formsOk (j : Json) : Bool :=
  match getArr? j "forms" with
  | some a => (a.toList.zipIdx.all fun (t, i) => match t with
      | Json.str s => inputOk i s
      | _ => false)
  | none => true

def handleDist (j : Json) : Json :=
  if !formsOk j then err "model:input-dispatch-does-not-convert-this-argument-type" else
  match rows? j "a" >>= (·.mapM quatOfEuler), rows? j "b" >>= (·.mapM quatOfEuler) with
  | some qa, some qb =>
    let g := flist? j "g" >>= quatOfEuler
    let side := (getStr? j "side").getD "none"
    let tr (q : Q4 Float) : Q4 Float :=
      match g, side with
      | some qg, "left" => qg * q
      | some qg, "right" => q * qg
      | _, _ => q
    let ps := (qa.map tr).zip (qb.map tr)
    Json.mkObj [
      ("ang", fjs (ps.map fun (p, q) => angE p q)),
      ("dist2s", fjs (ps.map fun (p, q) => dist2E p q)),
      ("asis", fjs (ps.map fun (p, q) => angDistAsIs fl p q)),
      ("absdot", fjs (ps.map fun (p, q) => absDot p q)),
      ("dist2", fjs (ps.map fun (p, q) => dist2 p q)),
      ("cone", fjs (ps.map fun (p, q) => coneDist fl (toM3 p) (toM3 q))),
      ("conecos", fjs (ps.map fun (p, q) => coneCos fl (toM3 p) (toM3 q)))]
  | _, _ => err "bad-args"

/-- `compare_rotations` for a list of `rotation_type` values (JSON null = keyword omitted → the anchored default) -/
def handleCompare (j : Json) : Json :=
  if !formsOk j then err "model:input-dispatch-does-not-convert-this-argument-type" else
  match rows? j "a" >>= (·.mapM quatOfEuler), rows? j "b" >>= (·.mapM quatOfEuler), flist? j "p1", flist? j "p2", getArr? j "types" with
  | some qa, some qb, some p1, some p2, some ts =>
    let prims : List (Prims Float) := ((qa.zip qb).zip (p1.zip p2)).map fun ((p, q), (f1, f2)) =>
      { ang := angE p q, cone := coneDist fl (toM3 p) (toM3 q), inp := inplane tolFloat f1 f2 }
    Json.arr (ts.toList.map fun t =>
      let ty := match t with
        | Json.str s => s
        | _ => Gen.C06.rotationTypeDefault
      match prims.mapM (compareRotations Gen.C06.compareBranches ty) with
      | some rows => Json.arr (rows.map fjs).toArray
      | none => Json.null).toArray
  | _, _, _, _, _ => err "bad-args"

def handle (j : Json) : Json :=
  match getStr? j "op" with
  | some "dist" => handleDist j
  | some "compare" => handleCompare j
  | some "distbatch" =>
    match rows? j "a" >>= (·.mapM quatOfEuler), rows? j "b" >>= (·.mapM quatOfEuler) with
    | some qa, some qb =>
      match angDistBatch fl qa qb with
      | some ds => Json.mkObj [("ang", fjs ds)]
      | none => Json.mkObj [("ang", Json.null)]
    | _, _ => err "bad-args"
  | some "inplane" =>
    match flist? j "p1", flist? j "p2" with
    | some p1, some p2 => Json.mkObj [("d", fjs ((p1.zip p2).map fun (a, b) => inplane tolFloat a b))]
    | _, _ => err "bad-args"
  | some "normals" =>
    match rows? j "ang" >>= (·.mapM zaxisOfDeg) with
    | some zs => Json.mkObj [("z", Json.arr (zs.map v3j).toArray),
                             ("rows", Json.arr ((normaliseBy Gen.C06.normalsNormMode fl zs).map v3j).toArray),
                             ("asis", Json.arr ((normalsAsIs fl zs).map v3j).toArray)]
    | none => err "bad-args"
  | some "zaxis" =>
    match rows? j "ang" >>= (·.mapM zaxisOfDeg) with
    | some zs => Json.mkObj [("z", Json.arr (zs.map v3j).toArray)]
    | none => err "bad-args"
  | some "n2e" =>
    match rows? j "n" >>= (·.mapM v3?) with
    | some ns =>
      let ty := (getStr? j "pytype").getD "np.ndarray"
      match inputConversion Gen.C06.n2eInputs ty with
      | none => err "model:no-input-branch"
      | some conv =>
      if conv.startsWith "raise" then Json.mkObj [("raises", Json.str conv)] else
      let ang := n2eBatchE Gen.C06.n2eThetaExpr Gen.C06.n2ePsiExpr Gen.C06.n2eNormMode fl Float.ofNat ns
      let z (cs : Float × Float × Float × Float) : V3 Float := zaxisOfEuler 1 0 cs.1 cs.2.1 cs.2.2.1 cs.2.2.2
      let order := (getStr? j "order").getD Gen.C06.outputOrderDefault
      Json.mkObj [("theta", fjs (ang.map (·.1))), ("psi", fjs (ang.map (·.2))),
                  ("cols", Json.arr ((n2eColumns Gen.C06.n2eOrders order).map Json.str).toArray),
                  ("z", Json.arr (ns.map fun n => v3j (z (n2eCS fl n))).toArray),
                  ("z_asis", Json.arr (ns.map fun n => v3j (z (n2eCSAsIs fl n))).toArray)]
    | none => err "bad-args"
  | some "qmult" =>
    match rows? j "p" >>= (·.mapM q4?), rows? j "q" >>= (·.mapM q4?) with
    | some ps, some qs => Json.mkObj [("r", Json.arr ((ps.zip qs).map fun (p, q) =>
        let r := p * q; fjs [r.x, r.y, r.z, r.w]).toArray)]
    | _, _ => err "bad-args"
  | some "check" =>
    let parse (j : Json) : Option (List Rat) :=
      match j with
      | Json.arr a => a.toList.mapM (fun c => (c.getNat?).toOption >>= ratOfBits)
      | _ => none
    match getArr? j "obs", getNat? j "tol" >>= ratOfBits with
    | some a, some tol =>
      Json.arr (a.toList.map fun row =>
        match parse row with
        | some [dab, dba, dac, dbc, dl, dr] =>
          let (r, s, t, l, rr) := checkMetric ({ dab, dba, dac, dbc, dl, dr, tol } : MetricObs Rat)
          Json.arr #[Json.bool r, Json.bool s, Json.bool t, Json.bool l, Json.bool rr]
        | _ => err "reject:nonfinite").toArray
    | _, _ => err "bad-args"
  | _ => err "bad-op"

end CryoCat.Drv.C06
