import CryoCat.Drv.Proto
import CryoCat.Model.C05
/-! Driver for C05: executes `CryoCat.C05.applyOp` / `runOps` / `specRun` / the checkers — the very
definitions `Props/C05` is about — at `Float` (IEEE binary64 like numpy) and at `Rat` (checkers).
The numeric services handed to the model are defined here and are NOT verified: cos/sin in degrees,
zxz Euler extraction (their round trip is measured and returned as `resid`), and the rounding, which is
the proved `roundHalfUp` applied to the exact rational value of the float. -/
namespace CryoCat.Drv.C05
open Lean CryoCat CryoCat.C05

/-- exact rational value of a finite binary64 (0 for NaN / infinities) -/
def ratOfFloat (x : Float) : Rat :=
  let b := x.toBits.toNat
  let neg := b / 2^63 == 1
  let e := (b / 2^52) % 2048
  let m := b % 2^52
  let mag : Rat :=
    if e == 2047 then 0
    else
      let mant : Nat := if e == 0 then m else 2^52 + m
      let ex : Nat := if e == 0 then 1 else e
      if ex ≥ 1075 then ((mant * 2^(ex - 1075) : Nat) : Rat) else mkRat (mant : Int) (2^(1075 - ex))
  if neg then -mag else mag

instance : IntCast Float := ⟨Float.ofInt⟩

def pi : Float := 3.141592653589793
def deg2rad (a : Float) : Float := a * (pi / 180.0)
def rad2deg (a : Float) : Float := a * (180.0 / pi)

/-- zxz (extrinsic) Euler angles in degrees of a rotation matrix `Rz(psi)·Rx(theta)·Rz(phi)`:
psi and theta from the third column, phi from what is left after removing them (stable at gimbal lock) -/
def eulerF (m : M3 Float) : Float × Float × Float :=
  let psi := Float.atan2 m.a13 (-m.a23)
  let theta := Float.atan2 (Float.sqrt (m.a13 * m.a13 + m.a23 * m.a23)) m.a33
  let n := rx (Float.cos theta) (-(Float.sin theta)) * (rz (Float.cos psi) (-(Float.sin psi)) * m)
  let phi := Float.atan2 n.a21 n.a11
  (rad2deg phi, rad2deg theta, rad2deg psi)

def svcF : Svc Float where
  cs a := (Float.cos (deg2rad a), Float.sin (deg2rad a))
  euler := eulerF
  rnd v := roundHalfUp (ratOfFloat v)

/-! ### JSON -/

def nats? (j : Json) : Option (List Nat) :=
  match j with
  | Json.arr a => a.toList.mapM (fun c => (c.getNat?).toOption)
  | _ => none

def floats? (j : Json) : Option (List Float) := (nats? j).map (·.map floatOfBits)

def fld? (j : Json) (k : String) : Option Json := (j.getObjVal? k).toOption

/-- wire order of a particle: all 20 fields in the canonical `Motl.motl_columns` order (`Field.all`) -/
def particleOf {α : Type} (z : α) (l : List α) : Option (Particle α) :=
  if l.length == 20 then some (Particle.ofList z l) else none

def rowOf {α : Type} (p : Particle α) : List α := p.toList

def motlF? (j : Json) (k : String) : Option (Motl Float) :=
  match fld? j k with
  | some (Json.arr rows) => rows.toList.mapM (fun r => floats? r >>= particleOf (0.0 : Float))
  | _ => none

def m3Of {α : Type} : List α → Option (M3 α)
  | [a, b, c, d, e, f, g, h, i] => some ⟨a, b, c, d, e, f, g, h, i⟩
  | _ => none

def v3Of {α : Type} : List α → Option (V3 α)
  | [a, b, c] => some ⟨a, b, c⟩
  | _ => none

def dimsF? (j : Json) : Option (Dims Float) :=
  match j with
  | Json.null => some Dims.none
  | _ =>
    match fld? j "single", fld? j "table" with
    | some s, _ => (s.getNat?).toOption.map (fun n => Dims.single (floatOfBits n))
    | _, some (Json.arr rows) =>
      (rows.toList.mapM (fun r => match floats? r with
        | some [t, dz] => some (t, dz)
        | _ => none)).map Dims.table
    | _, _ => none

/-- a raw table: rows of bit patterns -/
def rawF? (j : Json) : Option (List (List Float)) :=
  match j with
  | Json.arr rows => rows.toList.mapM floats?
  | _ => none

/-- the `tomo_dimensions` argument of a flip on the wire: `raw` (the table as the caller gave it; the MODEL does the
shape dispatch with `loadDims`) or, for cases stored before, the pre-digested `dims` -/
def flipDims? (j : Json) : Option (Dims Float) :=
  match fld? j "raw" with
  | some Json.null => some Dims.none
  | some r => rawF? r >>= loadDims
  | none => fld? j "dims" >>= dimsF?

def dimsJ : Dims Float → Json
  | .none => Json.mkObj [("kind", "none")]
  | .single z => Json.mkObj [("kind", "single"), ("z", (bitsOfFloat z : Json))]
  | .table rows => Json.mkObj [("kind", "table"), ("rows", Json.arr (rows.map (fun (t, z) => bitsJ' [t, z])).toArray)]
where bitsJ' (xs : List Float) : Json := Json.arr (xs.map (fun x => (bitsOfFloat x : Json))).toArray

def opF? (j : Json) : Option (Op Float) :=
  match getStr? j "kind" with
  | some "update" => some Op.update
  | some "scale" => (getNat? j "f").map (fun n => Op.scale (floatOfBits n))
  | some "shift" => (fld? j "v" >>= floats? >>= v3Of).map Op.shift
  | some "rotate" => (fld? j "q" >>= floats? >>= m3Of).map Op.rotate
  | some "flip" => (flipDims? j).map Op.flip
  | _ => none

def mapOp {α β : Type} (g : α → β) : Op α → Op β
  | .update => .update
  | .scale f => .scale (g f)
  | .shift v => .shift ⟨g v.x, g v.y, g v.z⟩
  | .rotate q => .rotate ⟨g q.a11, g q.a12, g q.a13, g q.a21, g q.a22, g q.a23, g q.a31, g q.a32, g q.a33⟩
  | .flip .none => .flip .none
  | .flip (.single d) => .flip (.single (g d))
  | .flip (.table rows) => .flip (.table (rows.map (fun (t, d) => (g t, g d))))

def mapParticle {α β : Type} (g : α → β) (p : Particle α) : Particle β := Particle.ofFn (fun f => g (p.get f))

def bitsJ (xs : List Float) : Json := Json.arr (xs.map (fun x => (bitsOfFloat x : Json))).toArray

def poseJ (P : Pose Float) : Json := bitsJ ([P.pos.x, P.pos.y, P.pos.z] ++ P.R.toList)

/-- the statement's pose, `null` where the statement says nothing (call outside the quantifier) -/
def poseOJ : Option (Pose Float) → Json
  | some P => poseJ P
  | none => Json.null

def rowsJ (m : Motl Float) : Json := Json.arr (m.map (fun p => bitsJ (rowOf p))).toArray

def maxAbsDiff (a b : M3 Float) : Float :=
  ((a.toList.zip b.toList).map (fun (x, y) => Float.abs (x - y))).foldl (fun acc d => if d > acc then d else acc) 0.0

/-- how far the Float Euler service is from satisfying `EulerOK` for the product `apply_rotation` forms -/
def eulerResidual (op : Op Float) (m : Motl Float) : Float :=
  match op with
  | .rotate q => (m.map (fun p => let t := composeRot (orient svcF p) q; maxAbsDiff (eulerMat svcF (svcF.euler t)) t)).foldl
                   (fun acc d => if d > acc then d else acc) 0.0
  | _ => 0.0

def handle (j : Json) : Json :=
  match getStr? j "op" with
  | some "step" =>
    match opF? j, motlF? j "rows" with
    | some op, some m =>
      let out := applyOp svcF op m
      Json.mkObj [("rows", rowsJ out),
                  ("pose", Json.arr (out.map (fun p => poseJ (absPose svcF p))).toArray),
                  ("spec", Json.arr (m.map (fun p => poseOJ (specOp op (absPose svcF p)))).toArray),
                  ("resid", (bitsOfFloat (eulerResidual op m) : Json))]
    | _, _ => err "bad-args"
  | some "history" =>
    match (getArr? j "ops").bind (fun a => a.toList.mapM opF?), motlF? j "rows" with
    | some ops, some m =>
      let out := runOps svcF ops m
      Json.mkObj [("rows", rowsJ out),
                  ("pose", Json.arr (out.map (fun p => poseJ (absPose svcF p))).toArray),
                  ("spec", Json.arr (m.map (fun p => poseOJ (specRun ops (absPose svcF p)))).toArray)]
    | _, _ => err "bad-args"
  | some "check" =>
    match opF? j, motlF? j "before", motlF? j "after" with
    | some op, some b, some a =>
      if b.length != a.length then err "reject:length" else
      let opQ := mapOp ratOfFloat op
      let qs := (b.zip a).map (fun (pb, pa) => (mapParticle ratOfFloat pb, mapParticle ratOfFloat pa))
      let res := qs.map (fun (qb, qa) =>
        match opQ with
        | .update => checkUpdate qb qa
        | .scale f => checkScale f qb qa
        | .flip d => checkFlip d qb qa
        | _ => false)
      -- the position clause alone (flip: an implementation may store another Euler triple of the same orientation)
      let pos := qs.map (fun (qb, qa) =>
        match opQ with
        | .update => checkUpdate qb qa
        | .scale f => checkScale f qb qa
        | .flip d => checkFlipPos d qb qa
        | _ => false)
      -- is the particle inside the quantifier for this call
      let cov := qs.map (fun (qb, _) => covers opQ qb.tomo_id)
      let bj := fun (l : List Bool) => Json.arr (l.map (fun (b : Bool) => Json.bool b)).toArray
      Json.mkObj [("ok", bj res), ("okpos", bj pos), ("covered", bj cov)]
    | _, _, _ => err "bad-args"
  | some "loaddims" =>
    -- the shape dispatch of `dimensions_load` alone: refused (`ValueError`) or the dimensions `flip_handedness` will use
    match fld? j "raw" >>= rawF? with
    | some raw =>
      match loadDims raw with
      | some d => Json.mkObj [("ok", Json.bool true), ("dims", dimsJ d)]
      | none => Json.mkObj [("ok", Json.bool false)]
    | none => err "bad-args"
  | some "round" =>
    match fld? j "xs" >>= floats? with
    | some xs => Json.mkObj [("r", Json.arr (xs.map (fun x => (Json.num (JsonNumber.fromInt (svcF.rnd x))))).toArray)]
    | none => err "bad-args"
  | _ => err "bad-op"

end CryoCat.Drv.C05
