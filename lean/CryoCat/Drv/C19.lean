import CryoCat.Drv.Proto
import CryoCat.Model.C19
/-! Driver of C19: executes `CryoCat.C19.run`/`chainsOk` (the defs the theorems are about) at `α = Int`.
Coordinates arrive as integers (multiples of 2⁻¹⁰ scaled by 2¹⁰), so squared distances are exact. -/
namespace CryoCat.Drv.C19
open Lean CryoCat CryoCat.C19

def ints (j : Json) : Option (List Int) :=
  match j with
  | Json.arr a => a.toList.mapM (fun x => (x.getInt?).toOption)
  | _ => none

def sq (x : Int) : Int := x * x

/-- one tomogram: rows `[ex,ey,ez, xx,xy,xz, g4sq]` (entry site, exit site, input distance value squared) -/
def mkCfg (maxS minS : Int) (pts : Array (List Int)) : Cfg Int :=
  let n := pts.size
  let get (i k : Nat) : Int := ((pts[i]?).getD []).getD k 0
  let mat : Array (Array Int) := (Array.range n).map (fun i => (Array.range n).map (fun j =>
    sq (get i 3 - get j 0) + sq (get i 4 - get j 1) + sq (get i 5 - get j 2)))
  { n := n, d := fun i j => ((mat[i]?).getD #[]).getD j 0, g4 := fun i => get i 6,
    hi := sq maxS, lo := sq minS, minD := minS, zero := 0 }

def parseTomos (j : Json) : Option (List (Array (List Int))) :=
  match getArr? j "tomos" with
  | some ts => ts.toList.mapM (fun t => match t with
      | Json.arr ps => (ps.toList.mapM ints).map List.toArray
      | _ => none)
  | none => none

def optsOf (j : Json) : Opts :=
  let o := Opts.gen
  let o := match j.getObjValAs? Bool "tail_by_chain_order" with | .ok b => { o with tailByChainOrder := b } | _ => o
  match j.getObjValAs? Bool "both_fresh_id" with | .ok b => { o with bothSidesFreshId := b } | _ => o

def tagName : Tag → String
  | .skip => "skip" | .append => "append" | .suffixKeep => "suffix-keep" | .suffixCut => "suffix-cut"
  | .suffixReject => "suffix-reject" | .prefix => "prefix" | .prefixCut => "prefix-cut"
  | .prefixReject => "prefix-reject" | .both => "both" | .bothCut => "both-cut"
  | .resolveOne => "resolve-one" | .raised => "raised"

def rowJson (r : Row Int) : Json := Json.arr #[(r.idx : Json), Json.num (JsonNumber.fromInt r.obj), Json.num (JsonNumber.fromInt r.ord), Json.num (JsonNumber.fromInt r.dist)]

def parseOut (j : Json) : Option (List (ORow Int)) :=
  match getArr? j "out" with
  | some rs => rs.toList.mapM (fun r => match ints r with
      | some [t, i, g, k, x] => some (t.toNat, ({ idx := i.toNat, obj := g, ord := k, dist := x } : Row Int))
      | _ => none)
  | none => none

/-- all 20 fields of a row as integers (IEEE bit patterns; the checker only compares them) -/
def particleOf (l : List Int) : Particle Int := Particle.ofList (-1) l

/-- `"entry"`: per tomogram, per position, the 20 fields of the entry-list row -/
def parseEntry (j : Json) : Option (Array (Array (Particle Int))) :=
  match getArr? j "entry" with
  | some ts => ts.mapM (fun t => match t with
      | Json.arr ps => ps.mapM (fun p => (ints p).map particleOf)
      | _ => none)
  | none => none

/-- `"outp"`: per returned row `[tomogram number, position, 20 fields…]` -/
def parseOutP (j : Json) : Option (List (PRow Int)) :=
  match getArr? j "outp" with
  | some rs => rs.toList.mapM (fun r => match ints r with
      | some (t :: i :: fs) => some (t.toNat, i.toNat, particleOf fs)
      | _ => none)
  | none => none

def parseStore (j : Json) : Option Store :=
  match getArr? j "store" with
  | some a => (a.toList.mapM (fun (x : Json) => (x.getStr?).toOption)).bind Store.ofNames
  | none => Store.gen

/-- the field check, when the request carries the full rows: `none` = not requested -/
def fieldsCheck (j : Json) : Option Bool :=
  match parseStore j, parseEntry j, parseOutP j with
  | some st, some en, some out =>
    some (chkFields st (fun t i => (((en[t]?).getD #[])[i]?).getD (particleOf [])) out)
  | _, _, _ => none

def handle (j : Json) : Json :=
  match getStr? j "op", getInt? j "max", getInt? j "min", parseTomos j with
  | some op, some maxS, some minS, some tomos =>
    let cs := tomos.map (mkCfg maxS minS)
    let o := optsOf j
    match op with
    | "trace" =>
      Json.mkObj [("tomos", Json.arr (cs.map (fun c =>
        let st := run o c
        Json.mkObj [("rows", Json.arr (st.nfm.map rowJson).toArray),
                    ("tags", Json.arr (st.tags.map (fun t => Json.str (tagName t))).toArray)])).toArray)]
    | "check" =>
      match parseOut j with
      | some out =>
        Json.mkObj ([("ok", Json.bool (chainsOk cs out)), ("once", Json.bool (chkOnce cs out)),
                    ("orders", Json.bool (chkOrders out)), ("dist", Json.bool (chkDist cs out))] ++
                    (match fieldsCheck j with | some b => [("fields", Json.bool b)] | none => []))
      | none => err "bad-args"
    | _ => err "bad-op"
  | _, _, _, _ => err "bad-args"

end CryoCat.Drv.C19
