import CryoCat.Drv.Proto
import CryoCat.Model.C18
/-! C18 driver: executes `CryoCat.C18.nnStats` / `checkKnn` (the definitions the theorems are about) at `Float`. -/
namespace CryoCat.Drv.C18
open Lean CryoCat CryoCat.C18

def pi : Float := 3.141592653589793

def angOfDeg (d : Float) : Ang Float :=
  let r := d * pi / 180.0
  ⟨Float.cos r, Float.sin r⟩

/-- the numeric services at `Float`: IEEE square root; rotation angle in degrees `atan2(|skew|/2, (tr-1)/2)` -/
def numF : Num Float :=
  { sqrt := Float.sqrt,
    ang := fun tr sk => Float.atan2 (Float.sqrt sk / 2.0) ((tr - 1.0) / 2.0) * 180.0 / pi }

def parsePt (j : Json) : Option (Pt Float) :=
  match j with
  | Json.arr #[t, s, x, y, z, sx, sy, sz, ph, th, ps] => do
    let t ← t.getInt?.toOption
    let s ← s.getInt?.toOption
    let f (v : Json) : Option Float := v.getNat?.toOption.map floatOfBits
    let x ← f x; let y ← f y; let z ← f z
    let sx ← f sx; let sy ← f sy; let sz ← f sz
    let ph ← f ph; let th ← f th; let ps ← f ps
    pure { tomo := t, sub := s, base := ⟨x, y, z⟩, shift := ⟨sx, sy, sz⟩,
           phi := angOfDeg ph, theta := angOfDeg th, psi := angOfDeg ps }
  | _ => none

def parsePts (a : Array Json) : Option (List (Pt Float)) := a.toList.mapM parsePt

def fb (x : Float) : Json := (bitsOfFloat x : Json)

def rowJson (r : Row Float) : Json :=
  Json.arr (#[(r.tomo : Json), (r.rank : Json), (r.sub : Json), (r.subNn : Json), (r.nnIdx : Json),
     fb r.d2, fb r.dist, fb r.offset.x, fb r.offset.y, fb r.offset.z, fb r.frame.x, fb r.frame.y, fb r.frame.z]
    ++ (r.rel.toList.map fb).toArray ++ #[fb r.tr, fb r.skewSq, fb r.ang])

def parseClaim (j : Json) : Option (Int × Nat × List Nat) :=
  match j with
  | Json.arr #[t, qi, Json.arr js] => do
    let t ← t.getInt?.toOption
    let qi ← qi.getNat?.toOption
    let js ← js.toList.mapM (fun v => v.getNat?.toOption)
    pure (t, qi, js)
  | _ => none

/-- exact value of a double given by its bit pattern: `some (m, e)` with value `m · 2^e`; `none` for inf / NaN -/
def decodeBits (n : Nat) : Option (Int × Int) :=
  let sign := n >>> 63
  let ex := (n >>> 52) % 2048
  let fr := n % 4503599627370496
  if ex == 2047 then none
  else
    let m : Nat := if ex == 0 then fr else fr + 4503599627370496
    let e : Int := (if ex == 0 then (1 : Int) else (ex : Int)) - 1075
    some (if sign == 1 then -(m : Int) else (m : Int), e)

/-- the complete positions (computed in `Float`, bit for bit what numpy's `x + shift_x` gives) of a list, decoded exactly -/
def decodePos (l : List (Pt Float)) : Option (List (Int × Int × List (Int × Int))) :=
  l.mapM (fun p => do
    let v := pos p
    let x ← decodeBits (bitsOfFloat v.x); let y ← decodeBits (bitsOfFloat v.y); let z ← decodeBits (bitsOfFloat v.z)
    pure (p.tomo, p.sub, [x, y, z]))

def minExp (ls : List (Int × Int × List (Int × Int))) : Int :=
  ls.foldl (fun acc (_, _, cs) => cs.foldl (fun a (m, e) => if m == 0 then a else min a e) acc) 0

/-- all positions scaled by `2^(-emin)`: exact integers -/
def toIntPts (emin : Int) (ls : List (Int × Int × List (Int × Int))) : List (Pt Int) :=
  ls.map (fun (t, s, cs) =>
    let c := cs.map (fun (m, e) => m * (2 : Int) ^ (e - emin).toNat)
    { tomo := t, sub := s, base := ⟨c.getD 0 0, c.getD 1 0, c.getD 2 0⟩, shift := ⟨0, 0, 0⟩,
      phi := ⟨1, 0⟩, theta := ⟨1, 0⟩, psi := ⟨1, 0⟩ })

def handle (j : Json) : Json :=
  match getStr? j "op", getNat? j "k", getNat? j "px", getArr? j "a" >>= parsePts, getArr? j "nn" >>= parsePts with
  | some op, some k, some px, some a, some nn =>
    match op with
    | "stats" =>
      Json.mkObj [("features", Json.arr ((features (a.map (·.tomo)) (nn.map (·.tomo))).map (fun (t : Int) => (t : Json))).toArray),
                  ("rows", Json.arr ((nnStats numF (floatOfBits px) k a nn).map rowJson).toArray)]
    | "check" =>
      match (getArr? j "claims") >>= (fun c => c.toList.mapM parseClaim) with
      | some claims =>
        match decodePos a, decodePos nn with
        | some da, some dn =>
          let emin := min (minExp da) (minExp dn)
          let ai := toIntPts emin da
          let ni := toIntPts emin dn
          Json.mkObj [("ok", Json.arr (claims.map (fun (t, qi, js) =>
            let cn := subset t ni
            match (subset t ai)[qi]? with
            | some q => Json.bool (checkKnnInt k cn.length (keyOf q cn) js)
            | none => Json.bool false)).toArray), ("exact", Json.bool true)]
        | _, _ => err "non-finite-position"
      | none => err "bad-args"
    | _ => err "bad-op"
  | _, _, _, _, _ => err "bad-args"

end CryoCat.Drv.C18
