import CryoCat.Drv.Proto
import CryoCat.Model.C10
/-! driver for C10: runs `CryoCat.C10.expand` (the definition `Props/C10` is about) at `Float`.
request  `{"op":"expand","n":<nat>,"s":[3 float bit patterns],"rows":[[20 bit patterns in Field.all order] …]}`
response `{"subs":[[20 field bits ++ 9 orientation-matrix bits (row major)] …]}`
request  `{"op":"asis","n":<nat>}` → `{"runs":bool,"len":nat|null}` (model of the code before repair 837c2ef) -/
namespace CryoCat.Drv.C10
open Lean CryoCat CryoCat.C10

instance : NatCast Float := ⟨Float.ofNat⟩

/-- numpy `deg2rad(x) = x * (pi/180)`; libm cos/sin -/
def trigDeg (x : Float) : Ang Float :=
  let r := x * (3.141592653589793 / 180.0)
  ⟨Float.cos r, Float.sin r⟩

def svc : Svc Float := { trig := trigDeg, floor := Float.floor, half := 0.5 }

def parseNums (a : Array Json) : Option (List Nat) := a.toList.mapM (fun c => (c.getNat?).toOption)

def parseRows (a : Array Json) : Option (List (List Nat)) :=
  a.toList.mapM (fun r => match r with
    | Json.arr cells => parseNums cells
    | _ => none)

def subJson (u : SubU Float) : Json :=
  Json.arr ((u.p.toList ++ u.orient.toList).map (fun x => (bitsOfFloat x : Json))).toArray

def handle (j : Json) : Json :=
  match getStr? j "op", getNat? j "n" with
  | some "asis", some n =>
    Json.mkObj [("runs", Json.bool (asisRuns n)),
                ("len", match asisPhi n with | some l => (l.length : Json) | none => Json.null)]
  | some "expand", some n =>
    match getArr? j "s" >>= parseNums, getArr? j "rows" >>= parseRows with
    | some [sx, sy, sz], some rows =>
      if rows.any (fun r => r.length != 20) then err "bad-args" else
      let s : V3 Float := ⟨floatOfBits sx, floatOfBits sy, floatOfBits sz⟩
      let l : List (Particle Float) := rows.map (fun r => Particle.ofList 0.0 (r.map floatOfBits))
      Json.mkObj [("subs", Json.arr ((expand svc n s l).map subJson).toArray)]
    | _, _ => err "bad-args"
  | _, _ => err "bad-op"

end CryoCat.Drv.C10
