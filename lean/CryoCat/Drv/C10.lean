import CryoCat.Drv.Proto
import CryoCat.Model.C10
/-! driver for C10: runs `CryoCat.C10.expandSymP` / `expandP` — the code's own arithmetic (polar form of the offset,
`trig(k·360/n)`), proved equal to `expandSym` / `expand` under exact services (`expandSymP_eq`, `expandP_eq`; over ℝ:
`real_expandP_eq`) — at `Float`; the
rounding service is `CryoCat.C10.ratRound` (proved: `ratRound_spec`, `ratRound_ties`) on the EXACT rational value of
the float — what `decimal.Decimal(float)` sees.
request  `{"op":"expand","sym":{"str":[code points]} | {"num":<int>} | {"numf":<float bit pattern>},"s":[3 float bit patterns],"rows":[[20 bit patterns in Field.all order] …]}`
         (`"num"`: a Python int / numpy integer; `"numf"`: a float / numpy floating — `int()` of it is taken by the MODEL (`truncInt` on the exact
         value, NaN/inf = `Sym.nonfinite`); `"n":<nat>` instead of `"sym"` is accepted as `{"num":n}`)
response `{"kind":"cyclic"|"dihedral"|"raises"|"unbound"|"negative","n":<nat>,"subs":[[20 field bits ++ 9 orientation-matrix bits (row major)] …] | null}`
request  `{"op":"round","xs":[bits …]}` → `{"r":[ints]}` (Decimal ROUND_HALF_UP of the exact values)
request  `{"op":"asis","n":<nat>}` → `{"runs":bool,"len":nat|null}` (model of the code before repair 837c2ef) -/
namespace CryoCat.Drv.C10
open Lean CryoCat CryoCat.C10

instance : NatCast Float := ⟨Float.ofNat⟩

/-- numpy `deg2rad(x) = x * (pi/180)`; libm cos/sin -/
def trigDeg (x : Float) : Ang Float :=
  let r := x * (3.141592653589793 / 180.0)
  ⟨Float.cos r, Float.sin r⟩

/-- exact rational value of a finite binary64 (0 for NaN / infinities) -/
def ratOfFloat (x : Float) : Rat :=
  let b := x.toBits.toNat
  let neg := b / 2^63 == 1
  let e := (b / 2^52) % 2048
  let m := b % 2^52
  let mag : Rat :=
    if e == 2047 then 0
    else
      let mant : Nat := if e == 0 then m else 2^52 + m
      let ex : Nat := if e == 0 then 1 else e
      if ex ≥ 1075 then ((mant * 2^(ex - 1075) : Nat) : Rat) else mkRat (mant : Int) (2^(1075 - ex))
  if neg then -mag else mag

/-- `Decimal(v).to_integral_value(ROUND_HALF_UP)` as an integer -/
def roundInt (v : Float) : Int := (ratRound (ratOfFloat v)).num

/-- `float(Decimal(v).to_integral_value(ROUND_HALF_UP))`; a non-finite value is handed back unchanged (the library raises there) -/
def roundF (v : Float) : Float := if v.isFinite then Float.ofInt (roundInt v) else v

def svc : Svc Float := { trig := trigDeg, round := roundF }

/-- numpy's `sqrt`, `arctan2`, `deg2rad`, `cos`, `sin` at binary64 (libm) -/
def polar : PolarSvc Float :=
  { sqrt := Float.sqrt, atan2 := fun y x => Float.atan2 y x, deg2rad := fun d => d * (3.141592653589793 / 180.0),
    cosr := Float.cos, sinr := Float.sin }

def parseNums (a : Array Json) : Option (List Nat) := a.toList.mapM (fun c => (c.getNat?).toOption)

def parseRows (a : Array Json) : Option (List (List Nat)) :=
  a.toList.mapM (fun r => match r with
    | Json.arr cells => parseNums cells
    | _ => none)

def subJson (u : SubU Float) : Json :=
  Json.arr ((u.p.toList ++ u.orient.toList).map (fun x => (bitsOfFloat x : Json))).toArray

def parseSymArg (j : Json) : Option Sym :=
  match j.getObjVal? "sym" with
  | .ok o =>
    match getArr? o "str" >>= parseNums, getInt? o "num", getNat? o "numf" with
    | some cps, _, _ => some (.str (cps.map Char.ofNat))
    | none, some z, _ => some (.num (z : Rat))
    | none, none, some b =>
      let x := floatOfBits b
      some (if x.isFinite then .num (ratOfFloat x) else .nonfinite)
    | none, none, none => none
  | .error _ => (getNat? j "n").map (fun n => Sym.num (n : Rat))

def kindJson : SymKind → List (String × Json)
  | .cyclic n => [("kind", "cyclic"), ("n", (n : Json))]
  | .dihedral n => [("kind", "dihedral"), ("n", (n : Json))]
  | .raises => [("kind", "raises"), ("n", Json.null)]
  | .unbound => [("kind", "unbound"), ("n", Json.null)]
  | .negative => [("kind", "negative"), ("n", Json.null)]

def handle (j : Json) : Json :=
  match getStr? j "op" with
  | some "asis" =>
    match getNat? j "n" with
    | some n =>
      Json.mkObj [("runs", Json.bool (asisRuns n)),
                  ("len", match asisPhi n with | some l => (l.length : Json) | none => Json.null)]
    | none => err "bad-args"
  | some "round" =>
    match getArr? j "xs" >>= parseNums with
    | some xs => Json.mkObj [("r", Json.arr ((xs.map (fun b => (roundInt (floatOfBits b) : Json))).toArray))]
    | none => err "bad-args"
  | some "expand" =>
    match parseSymArg j, getArr? j "s" >>= parseNums, getArr? j "rows" >>= parseRows with
    | some sym, some [sx, sy, sz], some rows =>
      if rows.any (fun r => r.length != 20) then err "bad-args" else
      let s : V3 Float := ⟨floatOfBits sx, floatOfBits sy, floatOfBits sz⟩
      let l : List (Particle Float) := rows.map (fun r => Particle.ofList 0.0 (r.map floatOfBits))
      let subs : Json := match expandSymP svc polar sym s l with
        | some us => Json.arr (us.map subJson).toArray
        | none => Json.null
      Json.mkObj (kindJson (parseSym sym) ++ [("subs", subs)])
    | _, _, _ => err "bad-args"
  | _ => err "bad-op"

end CryoCat.Drv.C10
