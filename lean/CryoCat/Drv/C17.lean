import CryoCat.Drv.Proto
import CryoCat.Model.C17
import CryoCat.Model.C17_Wedge
import CryoCat.Model.C17_Load
import CryoCat.Model.C17_Ext
import CryoCat.Model.C17_Code
import CryoCat.Model.C17_Ties
import CryoCat.Model.C17_Num
import CryoCat.Lemmas.C17_Mdoc
import CryoCat.Lemmas.C17_ParseWF
namespace CryoCat.Drv.C17
open Lean CryoCat CryoCat.C17

def sJ (s : Str) : Json := Json.str (String.ofList s)
def ratJ (q : Rat) : Json := Json.arr #[Json.num (JsonNumber.fromInt q.num), Json.num (JsonNumber.fromNat q.den)]
def optJ {β : Type} (f : β → Json) : Option β → Json
  | some x => f x
  | none => Json.null
def listJ {β : Type} (f : β → Json) (l : List β) : Json := Json.arr (l.map f).toArray

def valJ : Val → Json
  | .int ds => Json.arr #["i", sJ ds]
  | .flt i f => Json.arr #["f", sJ i, sJ f]
  | .text s => Json.arr #["s", sJ s]
  | .tilt n i f => Json.arr #["t", Json.bool n, sJ i, sJ f]

def rowJ (r : Row) : Json := Json.mkObj [("z", sJ r.z), ("cells", listJ valJ r.cells), ("removed", Json.bool r.removed)]
def mdocJ (m : Mdoc) : Json :=
  Json.mkObj [("info", listJ (fun kv => Json.arr #[sJ kv.1, valJ kv.2]) m.info), ("titles", listJ sJ m.titles),
              ("sid", sJ m.sid), ("cols", listJ sJ m.cols), ("rows", listJ rowJ m.rows)]

def getBool? (j : Json) (k : String) : Option Bool := (j.getObjValAs? Bool k).toOption
def parseStrs (a : Array Json) : Option (List Str) := a.toList.mapM (fun j => match j with | Json.str s => some s.toList | _ => none)
def parseInts (a : Array Json) : Option (List Int) := a.toList.mapM (fun j => (j.getInt?).toOption)

/-- a number on the wire: the decimal TOKEN as it stands in the text file (parsed by the model's `parseDecimal`: the text → number step of
the loaders is inside the model), or an exact rational `[numerator, denominator]` (numbers that never were text: array inputs) -/
def parseRat (j : Json) : Option Rat :=
  match j with
  | Json.str s => parseDecimal (strip s.toList)
  | Json.arr #[a, b] => match a.getInt?, b.getNat? with
    | .ok n, .ok d => if d = 0 then none else some (mkRat n d)
    | _, _ => none
  | _ => none
def parseRats (j : Json) : Option (List Rat) := match j with | Json.arr a => a.toList.mapM parseRat | _ => none
def parseOptRats (j : Json) : Option (Option (List Rat)) := match j with | Json.null => some none | _ => (parseRats j).map some

def leRat (a b : Rat) : Bool := decide (a ≤ b)

/-- one step of an operation sequence on an Mdoc object -/
def step (m : Mdoc) (j : Json) : Option Mdoc :=
  match getStr? j "k" with
  | some "sort" =>
    let reset := (getBool? j "reset").getD Gen.C17.sortResetDefault
    -- `order` (sent only for tables with equal tilt angles): the arrangement the implementation chose; accepted iff it is an ascending
    -- permutation of the table (verified checker `arrangeOk`), else the step fails
    match getArr? j "order" with
    | some a => match a.toList.mapM (fun x => x.getNat?.toOption) with
      | some o => sortByTiltAs (some o) reset m
      | none => none
    | none => if reset then some (sortByTilt true m) else Op.apply .sort m
  | some "remove" =>
    match getArr? j "idxs" >>= parseInts with
    | some idxs =>
      -- `from1` present: the console-level `mdoc.remove_images(path, idx, numbered_from_1)` (indices_load, then kept_only default)
      match getBool? j "from1" with
      | some f1 => removeImagesScript f1 idxs m
      | none => Op.apply (.remove idxs ((getBool? j "kept_only").getD Gen.C17.removeKeptOnlyDefault)) m
    | none => none
  | _ => none

def handleMdoc (j : Json) : Json :=
  match getArr? j "lines" >>= parseStrs with
  | none => err "bad-args"
  | some lines =>
    let steps := ((getArr? j "steps").getD #[]).toList
    let wr := (getBool? j "write_removed").getD Gen.C17.writeRemovedDefault
    let parsed := parseMdocX lines
    let after := steps.foldl (fun (acc : Option Mdoc) s => acc.bind (fun m => step m s)) parsed
    let written := after.map (printMdoc wr)
    let reread := written.bind parseMdocX
    let fresh := parsed.map (printMdoc true)
    Json.mkObj [("parsed", optJ mdocJ parsed), ("after", optJ mdocJ after),
                -- is the text read by the strict model the theorems are about, and if nothing reads it: does the code raise or is
                -- the text of a named class outside the quantifier?
                ("strict", Json.bool (parseMdoc lines).isSome),
                ("why", match parsed with | some _ => Json.null | none => Json.str (whyNone lines).name),
                ("tilt_ties", optJ (fun m => Json.bool (hasTiltTies m)) parsed),
                ("long_float", optJ (fun m => Json.bool (hasLongFloat m)) parsed),
                ("reset_hits_section", optJ (fun m => Json.bool (resetHitsSection m)) parsed),
                ("text_ok", Json.bool (textOk lines)),
                ("wf", optJ (fun m => Json.bool (wfb m)) parsed), ("wf_after", optJ (fun m => Json.bool (wfb m)) after),
                ("kept", optJ (fun m => listJ rowJ (keptImages m)) after),
                ("written", optJ (listJ sJ) written), ("reread", optJ mdocJ reread),
                ("fresh_written", optJ (listJ sJ) fresh), ("fresh_reread", optJ mdocJ (fresh.bind parseMdocX)),
                ("dose", optJ (listJ ratJ) (parsed.bind mdocDose)),
                ("tilts", optJ (fun m => listJ ratJ (mdocTilts false m)) parsed),
                ("tilts_sorted", optJ (fun m => listJ ratJ (mdocTilts true m)) parsed)]

def defocusJ (d : Defocus Rat) : Json := Json.arr #[ratJ d.defocus1, ratJ d.defocus2, ratJ d.astigmatism, ratJ d.phaseShift, ratJ d.defocusMean]

def parseCtfRows (rows : Array Json) : Option (List (Rat × Rat × Rat × Option Rat)) :=
  rows.toList.mapM (fun r => match r with
    | Json.arr #[u, v, a, p] => match parseRat u, parseRat v, parseRat a with
      | some u, some v, some a => (match p with | Json.null => some (u, v, a, none) | _ => (parseRat p).map (fun p => (u, v, a, some p)))
      | _, _, _ => none
    | _ => none)

def readDefocus (kind : String) (rs : List (Rat × Rat × Rat × Option Rat)) : List (Defocus Rat) :=
  if kind == "gctf" then gctfRead Gen.C17.angToMicronGctf Gen.C17.meanDivisor rs
  else ctffindRead Gen.C17.angToMicronCtffind Gen.C17.meanDivisor (rs.map (fun r => (r.1, r.2.1, r.2.2.1, r.2.2.2.getD 0)))

/-- a tomogram of a wedge request: tilts / dose either as numbers or through an mdoc text (`mdoc` lines), defocus either as
defocus_mean numbers or through the rows of a gctf / ctffind4 file (`ctf_kind`, `ctf_rows`) -/
def parseTomo (j : Json) : Option (Tomo Rat) :=
  let md : Option Mdoc := (getArr? j "mdoc" >>= parseStrs) >>= parseMdoc
  let tilts : Option (List Rat) := match j.getObjVal? "mdoc" with
    | .ok _ => md.map (mdocTilts Gen.C17.tltSortsByDefault)
    | .error _ => ((j.getObjVal? "tilts").toOption >>= parseRats).map
        -- `as_given`: the tilts are passed as an ARRAY, which `tlt_load` returns unsorted
        (tltLoad leRat (Gen.C17.tltSortsByDefault && !((getBool? j "as_given").getD false)))
  let dose : Option (Option (List Rat)) := match getBool? j "dose_from_mdoc" with
    | some true => (md >>= mdocDose).map some
    | _ => (j.getObjVal? "dose").toOption >>= parseOptRats
  let defocus : Option (Option (List Rat)) := match getStr? j "ctf_kind", getArr? j "ctf_rows" >>= parseCtfRows with
    | some kind, some rs => some (some ((readDefocus kind rs).map (·.defocusMean)))
    | _, _ => (j.getObjVal? "defocus").toOption >>= parseOptRats
  match getInt? j "id", (j.getObjVal? "dims").toOption >>= parseRats, (j.getObjVal? "z").toOption >>= parseRat, tilts, defocus, dose with
  | some id, some [x, y, z], some zs, some tilts, some defocus, some dose =>
    some { id := id, dimX := x, dimY := y, dimZ := z, zShift := zs, tilts := tilts, defocus := defocus, dose := dose }
  | _, _, _, _, _, _ => none

def handleDefocus (j : Json) : Json :=
  match getStr? j "kind", getArr? j "rows" >>= parseCtfRows with
  | some kind, some rs => listJ defocusJ (readDefocus kind rs)
  | _, _ => err "bad-args"

/-- `gctf_read` at code level: the STAR table's numeric columns in FILE order -/
def handleGctfCode (j : Json) : Json :=
  match getArr? j "cols" >>= (fun a => a.toList.mapM (fun x => match x with | Json.str s => some s | _ => none)),
        (j.getObjVal? "cells").toOption >>= (fun x => match x with | Json.arr a => a.toList.mapM parseRats | _ => none) with
  | some cols, some rows =>
    Json.mkObj [("out", optJ (listJ defocusJ) (gctfReadCode Gen.C17.angToMicronGctf Gen.C17.meanDivisor cols rows)),
                ("spec", optJ (listJ defocusJ) ((getArr? j "rows" >>= parseCtfRows).map (readDefocus "gctf")))]
  | _, _ => err "bad-args"

def wrowJ (r : WedgeRow Rat) : Json :=
  Json.arr #[Json.num (JsonNumber.fromInt r.tomoNum), ratJ r.pixelSize, ratJ r.tomoX, ratJ r.tomoY, ratJ r.tomoZ, ratJ r.zShift,
             ratJ r.tiltAngle, optJ ratJ r.defocus, optJ ratJ r.exposure, ratJ r.voltage, ratJ r.ampContrast, ratJ r.cs]

def emJ (r : Int × Rat × Rat) : Json := Json.arr #[Json.num (JsonNumber.fromInt r.1), ratJ r.2.1, ratJ r.2.2]

def cellJ : WCell Rat → Json
  | .int n => Json.num (JsonNumber.fromInt n)
  | .num x => ratJ x
  | .nan => Json.null

def handleWedge (j : Json) : Json :=
  match (j.getObjVal? "consts").toOption >>= parseRats, getArr? j "tomos" >>= (fun a => a.toList.mapM parseTomo) with
  | some [px, vo, am, cs], some tomos0 =>
    -- a tomogram list read from a file goes through `tlt_load`, which sorts it ascending
    let tomos := if (getBool? j "tomo_list_from_file").getD false
      then tomoOrder Gen.C17.tltSortsByDefault tomos0 else tomos0
    let c : Consts Rat := { pixelSize := px, voltage := vo, ampContrast := am, cs := cs }
    let rows := wedgeBatch c tomos
    -- code level: the tables of the batch function in THEIR row order, look-ups by tomogram number, np.repeat, values[0][0]
    let parseTab {β : Type} (k : String) (f : Json → Option β) : Option (List (Int × β)) :=
      getArr? j k >>= (fun a => a.toList.mapM (fun r => match r with
        | Json.arr #[i, v] => (match i.getInt?.toOption, f v with | some i, some v => some (i, v) | _, _ => none)
        | _ => none))
    let bin : BatchIn Rat :=
      { ids := tomos.map (·.id),
        dimTable := (parseTab "dim_table" parseRats).getD (tomos.map (fun t => (t.id, [t.dimX, t.dimY, t.dimZ]))),
        zTable := (parseTab "z_table" parseRat).getD (tomos.map (fun t => (t.id, t.zShift))),
        files := tomos.map (fun t => (t.id, (t.tilts, t.defocus, t.dose))) }
    let rowsCode := wedgeBatchCode c bin
    let hasCtf := tomos.any (fun t => t.defocus.isSome)
    let hasDose := tomos.any (fun t => t.dose.isSome)
    Json.mkObj [("rows", optJ (listJ wrowJ) rows),
                ("rows_code", optJ (listJ wrowJ) rowsCode),
                ("code_eq_spec", Json.bool (rowsCode == rows)),
                ("single_code", listJ (fun t => optJ (listJ wrowJ) (wedgeSingleCode c
                    { id := t.id, dims := [[t.dimX, t.dimY, t.dimZ]], zTable := [[t.zShift]], tilts := t.tilts, defocus := t.defocus, dose := t.dose })) tomos),
                ("single", listJ (fun t => optJ (listJ wrowJ) (wedgeSingle c t)) tomos),
                ("header", listJ (fun (s : String) => Json.str s) (wedgeHeader hasCtf hasDose)),
                ("em", optJ (listJ emJ) (wedgeEm leRat (tomos.map (fun t => (t.id, t.tilts))))),
                ("sg2em", optJ (listJ emJ) (rows.bind (fun rs => sgToEm leRat (rs.map (fun r => (r.tomoNum, r.tiltAngle)))))),
                -- the file layer: the table that is written, what `load_wedge_list_sg` makes of it, `wedge_list_sg_to_em` on it
                ("table_cols", optJ (fun rs => listJ (fun (s : String) => Json.str s) (sgTable rs).cols) rows),
                ("table_rows", optJ (fun rs => listJ (listJ cellJ) (sgTable rs).rows) rows),
                ("table_reload_same", optJ (fun rs => Json.bool (loadSg ((sgTable rs).mapCells id) == some rs)) rows),
                ("sg2em_table", optJ (listJ emJ) (rows.bind (fun rs => sgToEmFile leRat ((sgTable rs).mapCells id))))]
  | _, _ => err "bad-args"

def handleTlt (j : Json) : Json :=
  match (j.getObjVal? "vals").toOption >>= parseRats with
  | some xs => Json.mkObj [("sorted", listJ ratJ (tltLoad leRat Gen.C17.tltSortsByDefault xs)),
                           ("unsorted", listJ ratJ (tltLoad leRat false xs)), ("dose", listJ ratJ (doseLoad xs))]
  | none => err "bad-args"

/-- the two views of a path input: as an mdoc (tilts resp. dose) and as a one-value-per-line file -/
def parseViews (j : Json) (dose : Bool) : FileViews Rat :=
  let md : Option Mdoc := (getArr? j "lines" >>= parseStrs) >>= parseMdoc
  { mdoc := if dose then md >>= mdocDose else md.map (mdocTilts false),
    lines := (j.getObjVal? "vals").toOption >>= parseRats }

def parseLoadIn (j : Json) (dose : Bool) : Option (LoadIn Rat) :=
  match getStr? j "kind" with
  | some "array" => ((j.getObjVal? "vals").toOption >>= parseRats).map LoadIn.array
  | some "list" => ((j.getObjVal? "vals").toOption >>= parseRats).map LoadIn.list
  | some "file" => (getStr? j "path").map (fun p => LoadIn.file p.toList (parseViews j dose))
  | _ => none

/-- `tlt_load` / `total_dose_load` on any input kind: the reader chosen for a path, and the result (`null` = raises / outside) -/
def handleLoadIn (j : Json) (dose : Bool) : Json :=
  match parseLoadIn j dose with
  | none => err "bad-args"
  | some inp =>
    let reader : Json := match inp with
      | .file p _ => Json.str (if dose then dispatch Gen.C17.doseDispatch Gen.C17.doseDefault p else dispatch Gen.C17.tltDispatch Gen.C17.tltDefault p)
      | _ => Json.null
    let out := if dose then doseLoadIn inp else tltLoadIn leRat ((getBool? j "sort").getD Gen.C17.tltSortsByDefault) inp
    Json.mkObj [("reader", reader), ("out", optJ (listJ ratJ) out)]

def parseRatRows (j : Json) : Option (List (List Rat)) := match j with | Json.arr a => a.toList.mapM parseRats | _ => none

def handleDefocusIn (j : Json) : Json :=
  let ctf := (getArr? j "rows" >>= parseCtfRows)
  let inp : Option (DefocusIn Rat) := match getStr? j "kind" with
    | some "file" => (getStr? j "file_type").map (fun ft =>
        DefocusIn.file ft (if (getStr? j "content") == some "gctf" then ctf else none)
          (if (getStr? j "content") == some "ctffind" then ctf.map (·.map (fun r => (r.1, r.2.1, r.2.2.1, r.2.2.2.getD 0))) else none))
    | some "frame" => ((j.getObjVal? "arr").toOption >>= parseRatRows).bind (fun rs =>
        (defocusLoadIn Gen.C17.angToMicronGctf Gen.C17.angToMicronCtffind Gen.C17.meanDivisor (DefocusIn.array rs)).map DefocusIn.frame)
    | some "array" => ((j.getObjVal? "arr").toOption >>= parseRatRows).map DefocusIn.array
    | _ => none
  match inp with
  | none => err "bad-args"
  | some inp =>
    let reader : Json := match inp with
      | .file ft _ _ => optJ (fun (s : String) => Json.str s) (defocusReader ft)
      | _ => Json.null
    Json.mkObj [("reader", reader),
                ("out", optJ (listJ defocusJ) (defocusLoadIn Gen.C17.angToMicronGctf Gen.C17.angToMicronCtffind Gen.C17.meanDivisor inp))]

def handle (j : Json) : Json :=
  match getStr? j "op" with
  | some "tlt_in" => handleLoadIn j false
  | some "dose_in" => handleLoadIn j true
  | some "defocus_in" => handleDefocusIn j
  | some "mdoc" => handleMdoc j
  | some "defocus" => handleDefocus j
  | some "gctf_code" => handleGctfCode j
  | some "wedge" => handleWedge j
  | some "tlt" => handleTlt j
  | _ => err "bad-op"

end CryoCat.Drv.C17
