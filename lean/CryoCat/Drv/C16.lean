import CryoCat.Drv.Proto
import CryoCat.Model.C16
namespace CryoCat.Drv.C16
open Lean CryoCat CryoCat.C16

/-- numpy's float64 services -/
def floatOps : Ops Float := { exp := Float.exp, pow := Float.pow, sqrt := Float.sqrt, ofInt := Float.ofInt }

/-- "Fourier services" under which an image *is* its spectrum: running the model's `doseFilter` on the
all-ones spectrum returns, per image, the multiplier the model applies to every raw DFT coefficient. -/
def idFFT (H W : Nat) : FFT (Spec Float H W) Float H W := { fft2 := id, ifft2re := id }

def ones (H W : Nat) : Spec Float H W := fun _ _ => ⟨1.0, 0.0⟩

def tableJson {H W : Nat} (f : Fin H → Fin W → Float) : Json :=
  Json.arr (Array.ofFn (n := H) fun v => Json.arr (Array.ofFn (n := W) fun u => (bitsOfFloat (f v u) : Json)))

def natTable (H W : Nat) (f : Nat → Nat → Float) : Json :=
  Json.arr (Array.ofFn (n := H) fun v => Json.arr (Array.ofFn (n := W) fun u => (bitsOfFloat (f v.val u.val) : Json)))

def parseBits (a : Array Json) : Option (List Float) :=
  a.toList.mapM (fun j => (j.getNat?).toOption.map floatOfBits)

/-! ### a concrete Fourier service at `Float` (separable O(HW(H+W)) DFT, numpy's sign convention) for running the model of the
integer-stack path (`doseFilterInt`) on real pixel data.  Like `numpy.fft` for the code under test it is a SERVICE of the model (a
field of `FFT`), not part of it; the harness probes it against `numpy.fft.fft2` through every answer it gives. -/

structure CArr where
  re : FloatArray
  im : FloatArray

/-- real images as row-major float arrays, together with a memoised (computed at most once, on first use) spectrum: the model asks
the service for `fft2 image [v, u]` coefficient by coefficient -/
structure FImg where
  data : FloatArray
  spec : Thunk CArr

def twoPi : Float := 6.283185307179586476925286766559

/-- `out[r, k] = Σ_j a[r, j] · exp(sgn · 2πi · j k / n)` along the fastest axis of an `rows × n` array -/
def dftFast (rows n : Nat) (sgn : Float) (a : CArr) : CArr := Id.run do
  let mut twr := FloatArray.emptyWithCapacity n
  let mut twi := FloatArray.emptyWithCapacity n
  for m in [0:n] do
    let ang := sgn * twoPi * m.toFloat / n.toFloat
    twr := twr.push (Float.cos ang)
    twi := twi.push (Float.sin ang)
  let mut re := FloatArray.emptyWithCapacity (rows * n)
  let mut im := FloatArray.emptyWithCapacity (rows * n)
  for r in [0:rows] do
    for k in [0:n] do
      let mut sr := 0.0
      let mut si := 0.0
      for j in [0:n] do
        let m := (j * k) % n
        let xr := a.re.get! (r * n + j)
        let xi := a.im.get! (r * n + j)
        let tr := twr.get! m
        let ti := twi.get! m
        sr := sr + (xr * tr - xi * ti)
        si := si + (xr * ti + xi * tr)
      re := re.push sr
      im := im.push si
  return ⟨re, im⟩

/-- transpose of a `rows × cols` row-major array -/
def transposeC (rows cols : Nat) (a : CArr) : CArr := Id.run do
  let mut re := FloatArray.emptyWithCapacity (rows * cols)
  let mut im := FloatArray.emptyWithCapacity (rows * cols)
  for c in [0:cols] do
    for r in [0:rows] do
      re := re.push (a.re.get! (r * cols + c))
      im := im.push (a.im.get! (r * cols + c))
  return ⟨re, im⟩

/-- unnormalised 2-D DFT of an `H × W` array: along x, then along y -/
def dft2F (H W : Nat) (sgn : Float) (a : CArr) : CArr :=
  transposeC W H (dftFast W H sgn (transposeC H W (dftFast H W sgn a)))

/-- an image with its (lazy, memoised) forward transform -/
def mkImg (H W : Nat) (data : FloatArray) : FImg :=
  ⟨data, Thunk.mk fun _ => dft2F H W (-1.0) ⟨data, FloatArray.mk (Array.replicate (H * W) 0.0)⟩⟩

/-- `np.fft.fft2` on real images / `np.fft.ifft2(·).real` at Float -/
def floatDFT (H W : Nat) : FFT FImg Float H W :=
  { fft2 := fun img v u =>
      let c := img.spec.get
      ⟨c.re.get! (v.val * W + u.val), c.im.get! (v.val * W + u.val)⟩
    ifft2re := fun S => Id.run do
      let mut re := FloatArray.emptyWithCapacity (H * W)
      let mut im := FloatArray.emptyWithCapacity (H * W)
      for hv : v in [0:H] do
        for hu : u in [0:W] do
          let z := S ⟨v, hv.2.1⟩ ⟨u, hu.2.1⟩
          re := re.push z.re
          im := im.push z.im
      let c := dft2F H W 1.0 ⟨re, im⟩
      let n := (H * W).toFloat
      let mut out := FloatArray.emptyWithCapacity (H * W)
      for i in [0:H * W] do
        out := out.push (c.re.get! i / n)
      return mkImg H W out }

/-- truncation toward zero, as numpy converts a float to an integer on assignment into an integer array -/
def truncZ (f : Float) : Int := if f ≥ 0.0 then (Float.floor f).toInt64.toInt else (Float.ceil f).toInt64.toInt

/-- integer images as row-major arrays of integers -/
def floatIO (H W : Nat) : IntIO FImg (Array Int) :=
  { ofInt := fun a => mkImg H W (FloatArray.mk (a.map Float.ofInt))
    trunc := fun img => img.data.data.map truncZ }

def parseInts (a : Array Json) : Option (Array Int) := a.mapM (fun j => (j.getInt?).toOption)

def handle (j : Json) : Json :=
  match getStr? j "op", getNat? j "W", getNat? j "H", getNat? j "px" with
  | some op, some W, some H, some pxb =>
    let px := floatOfBits pxb
    let g := gg floatOps
    if W = 0 ∨ H = 0 then err "reject:empty-image" else
    match op with
    | "stack" =>
      match getNat? j "n", getArr? j "doses" >>= parseBits with
      | some n, some doses =>
        match doseFilter floatOps g (idFFT H W) px (List.replicate n (ones H W)) doses with
        | none => err "reject:IndexError"
        | some out =>
          Json.mkObj [("gain", Json.arr (out.map (fun s => tableJson (fun v u => (s v u).re))).toArray),
                      ("imagzero", Json.bool (out.all (fun s =>
                        (List.finRange H).all (fun v => (List.finRange W).all (fun u => (s v u).im == 0.0)))))]
      | _, _ => err "bad-args"
    | "intstack" =>
      -- the model of the integer-stack path on the real pixel data: `doseFilterInt` (what the code does today, C16-K1), and next to
      -- it the float result of `doseFilter` on the converted images (so that the harness can see where truncation is decided by rounding noise)
      match getArr? j "doses" >>= parseBits, getArr? j "images" >>= (fun a => a.mapM (fun x => (x.getArr?).toOption >>= parseInts)) with
      | some doses, some imgs =>
        if imgs.any (fun a => a.size != H * W) then err "bad-args" else
        let fft := floatDFT H W
        match doseFilterInt floatOps g fft (floatIO H W) px imgs.toList doses, doseFilter floatOps g fft px (imgs.toList.map (floatIO H W).ofInt) doses with
        | some out, some flt =>
          Json.mkObj [("out", Json.arr (out.map (fun a => Json.arr (a.map (fun (n : Int) => Json.num (JsonNumber.fromInt n))))).toArray),
                      ("filtered", Json.arr (flt.map (fun (a : FImg) => Json.arr (a.data.data.map (fun f => (bitsOfFloat f : Json))))).toArray)]
        | _, _ => err "reject:IndexError"
      | _, _ => err "bad-args"
    | "arrays" =>
      match getNat? j "dose" with
      | some db =>
        let d := floatOfBits db
        Json.mkObj [("freq", natTable H W (fun y x => freqArray floatOps W H px y x)),
                    ("q", natTable H W (fun y x => qArray floatOps g W H px d y x)),
                    ("mult", natTable H W (fun v u => mult floatOps g W H px d v u)),
                    -- the branch-free source expression at Float (0**b = inf): must agree with `qArray`
                    ("qliteral", natTable H W (fun y x => atten floatOps g d (freqArray floatOps W H px y x))),
                    ("sfreqx", Json.arr (Array.ofFn (n := W) fun u => (Json.num (JsonNumber.fromInt (sfreq W u.val))))),
                    ("sfreqy", Json.arr (Array.ofFn (n := H) fun v => (Json.num (JsonNumber.fromInt (sfreq H v.val))))),
                    ("consts", Json.arr #[(bitsOfFloat g.a : Json), (bitsOfFloat g.b : Json), (bitsOfFloat g.c : Json)])]
      | none => err "bad-args"
    | _ => err "bad-op"
  | _, _, _, _ => err "bad-args"

end CryoCat.Drv.C16
