import CryoCat.Drv.Proto
import CryoCat.Model.C16
namespace CryoCat.Drv.C16
open Lean CryoCat CryoCat.C16

/-- numpy's float64 services -/
def floatOps : Ops Float := { exp := Float.exp, pow := Float.pow, sqrt := Float.sqrt, ofInt := Float.ofInt }

/-- "Fourier services" under which an image *is* its spectrum: running the model's `doseFilter` on the
all-ones spectrum returns, per image, the multiplier the model applies to every raw DFT coefficient. -/
def idFFT (H W : Nat) : FFT (Spec Float H W) Float H W := { fft2 := id, ifft2re := id }

def ones (H W : Nat) : Spec Float H W := fun _ _ => ⟨1.0, 0.0⟩

def tableJson {H W : Nat} (f : Fin H → Fin W → Float) : Json :=
  Json.arr (Array.ofFn (n := H) fun v => Json.arr (Array.ofFn (n := W) fun u => (bitsOfFloat (f v u) : Json)))

def natTable (H W : Nat) (f : Nat → Nat → Float) : Json :=
  Json.arr (Array.ofFn (n := H) fun v => Json.arr (Array.ofFn (n := W) fun u => (bitsOfFloat (f v.val u.val) : Json)))

def parseBits (a : Array Json) : Option (List Float) :=
  a.toList.mapM (fun j => (j.getNat?).toOption.map floatOfBits)

def handle (j : Json) : Json :=
  match getStr? j "op", getNat? j "W", getNat? j "H", getNat? j "px" with
  | some op, some W, some H, some pxb =>
    let px := floatOfBits pxb
    let g := gg floatOps
    if W = 0 ∨ H = 0 then err "reject:empty-image" else
    match op with
    | "stack" =>
      match getNat? j "n", getArr? j "doses" >>= parseBits with
      | some n, some doses =>
        match doseFilter floatOps g (idFFT H W) px (List.replicate n (ones H W)) doses with
        | none => err "reject:IndexError"
        | some out =>
          Json.mkObj [("gain", Json.arr (out.map (fun s => tableJson (fun v u => (s v u).re))).toArray),
                      ("imagzero", Json.bool (out.all (fun s =>
                        (List.finRange H).all (fun v => (List.finRange W).all (fun u => (s v u).im == 0.0)))))]
      | _, _ => err "bad-args"
    | "arrays" =>
      match getNat? j "dose" with
      | some db =>
        let d := floatOfBits db
        Json.mkObj [("freq", natTable H W (fun y x => freqArray floatOps W H px y x)),
                    ("q", natTable H W (fun y x => qArray floatOps g W H px d y x)),
                    ("mult", natTable H W (fun v u => mult floatOps g W H px d v u)),
                    -- the branch-free source expression at Float (0**b = inf): must agree with `qArray`
                    ("qliteral", natTable H W (fun y x => atten floatOps g d (freqArray floatOps W H px y x))),
                    ("sfreqx", Json.arr (Array.ofFn (n := W) fun u => (Json.num (JsonNumber.fromInt (sfreq W u.val))))),
                    ("sfreqy", Json.arr (Array.ofFn (n := H) fun v => (Json.num (JsonNumber.fromInt (sfreq H v.val))))),
                    ("consts", Json.arr #[(bitsOfFloat g.a : Json), (bitsOfFloat g.b : Json), (bitsOfFloat g.c : Json)])]
      | none => err "bad-args"
    | _ => err "bad-op"
  | _, _, _, _ => err "bad-args"

end CryoCat.Drv.C16
