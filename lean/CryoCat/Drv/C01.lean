import CryoCat.Drv.Proto
import CryoCat.Model.C01
namespace CryoCat.Drv.C01
open Lean CryoCat CryoCat.C01

/-- `fillna(0.0)` then `astype(np.single)` -/
def conv (v : Float) : Float32 := CryoCat.C01.conv Float.isNaN Float.toFloat32 0.0 v

def parseCols (a : Array Json) : Option (List Field) :=
  a.toList.mapM (fun j => match j with | Json.str s => Field.ofName? s | _ => none)

def parseRows (a : Array Json) : Option (List (List Nat)) :=
  a.toList.mapM (fun r => match r with
    | Json.arr cells => cells.toList.mapM (fun c => (c.getNat?).toOption)
    | _ => none)

def fileJson (f : EmFile Float32) : Json :=
  Json.mkObj [("dims", Json.arr #[f.dimX, f.dimY, f.dimZ]),
              ("data", Json.arr (f.data.map (fun (x : Float32) => (x.toBits.toNat : Json))).toArray)]

def tableJson (t : Table Float32) : Json :=
  Json.mkObj [("cols", Json.arr (t.cols.map (fun f => Json.str f.name)).toArray),
              ("rows", Json.arr (t.rows.map (fun r => Json.arr (r.map (fun (x : Float32) => (bitsOfFloat x.toFloat : Json))).toArray)).toArray)]

def handle (j : Json) : Json :=
  match getStr? j "op", getArr? j "cols" >>= parseCols, getArr? j "rows" >>= parseRows with
  | some op, some cols, some rows =>
    let t : Table Float := { cols := cols, rows := rows.map (·.map floatOfBits) }
    if !accepted cols then err "reject:format" else
    match op with
    | "write" => fileJson (writeEm conv 0.0 t)
    | "write_asis" => fileJson (writeEmAsIs conv t)
    | "roundtrip" =>
      let f := writeEm conv 0.0 t
      match readEm f with
      | some t' => Json.mkObj [("file", fileJson f), ("table", tableJson t')]
      | none => Json.mkObj [("file", fileJson f), ("table", err "reject:read")]
    | _ => err "bad-op"
  | _, _, _ => err "bad-args"

end CryoCat.Drv.C01
