import CryoCat.Drv.Proto
import CryoCat.Model.C01_Bytes
namespace CryoCat.Drv.C01
open Lean CryoCat CryoCat.C01

/-- IEEE binary64 numbers of the table; `astype(np.single)` is `Float.toFloat32` (round to nearest even) -/
def floatOps : NumOps Float :=
  { isNaN := Float.isNaN, ofInt := Float.ofInt,
    bits32 := fun v => v.toFloat32.toBits, bits64 := fun v => v.toBits }

def parseCols (a : Array Json) : Option (List Field) :=
  a.toList.mapM (fun j => match j with | Json.str s => Field.ofName? s | _ => none)

def parseRows (a : Array Json) : Option (List (List Nat)) :=
  a.toList.mapM (fun r => match r with
    | Json.arr cells => cells.toList.mapM (fun c => (c.getNat?).toOption)
    | _ => none)

/-! hex transport of file bytes (glue, not part of the model) -/
def hexVal (c : UInt8) : UInt8 :=
  if c ≥ 48 && c ≤ 57 then c - 48 else if c ≥ 97 && c ≤ 102 then c - 87 else if c ≥ 65 && c ≤ 70 then c - 55 else 0

def parseHex (s : String) : List UInt8 := Id.run do
  let b := s.toUTF8
  let mut out : Array UInt8 := Array.mkEmpty (b.size / 2)
  let mut i := 0
  while i + 1 < b.size do
    out := out.push (hexVal b[i]! * 16 + hexVal b[i + 1]!)
    i := i + 2
  return out.toList

def hexDigit (n : UInt8) : UInt8 := if n < 10 then 48 + n else 87 + n

def toHex (bs : List UInt8) : String := Id.run do
  let mut out : ByteArray := ByteArray.emptyWithCapacity (2 * bs.length)
  for b in bs do
    out := (out.push (hexDigit (b / 16))).push (hexDigit (b % 16))
  return String.fromUTF8! out

def storedBits : Stored → Nat
  | .f32 b => b.toNat
  | .f64 b => b.toNat

/-- a stored number as the float64 a loaded table shows (`pd.DataFrame(..., dtype=float)`) -/
def storedAsF64Bits : Stored → Nat
  | .f32 b => bitsOfFloat (Float32.ofBits b).toFloat
  | .f64 b => b.toNat

def fileJson (f : EmFile Stored) (withHex : Bool) : Json :=
  -- with `hex` the cells travel once, as the file's bytes; the cell list is only sent where no bytes are asked for
  Json.mkObj ([("dims", Json.arr #[f.dimX, f.dimY, f.dimZ]), ("dtype", (f.dtype : Json))]
              ++ (if withHex then [("hex", Json.str (toHex (encodeEm f)))]
                  else [("data", Json.arr (f.data.map (fun x => (storedBits x : Json))).toArray)]))

def tableJson (t : Table Stored) : Json :=
  Json.mkObj [("cols", Json.arr (t.cols.map (fun f => Json.str f.name)).toArray),
              ("rows", Json.arr (t.rows.map (fun r => Json.arr (r.map (fun x => (storedAsF64Bits x : Json))).toArray)).toArray)]

def verdictJson (spec : List UInt32) (bs : List UInt8) : Verdict → Json
  | .ok => Json.mkObj [("verdict", "ok")]
  | .notEm => Json.mkObj [("verdict", "not-em"), ("length", (bs.length : Json)),
                          ("machine", ((bs.getD 0 0).toNat : Json)), ("dtype", ((bs.getD 3 0).toNat : Json)),
                          ("dims", Json.arr #[u32At bs 4, u32At bs 8, u32At bs 12])]
  | .shape x y z => Json.mkObj [("verdict", "shape"), ("dims", Json.arr #[x, y, z])]
  | .value i => Json.mkObj [("verdict", "value"), ("index", (i : Json)),
                            ("have", (((words (bs.drop 512)).getD i 0).toNat : Json)), ("want", ((spec.getD i 0).toNat : Json))]

/-- the Lean checker's verdict on each real file handed over as hex -/
def verdicts (j : Json) (t : Table Float) : Json :=
  match j.getObjVal? "files" with
  | .ok (Json.obj kvs) =>
    let spec := specWords floatOps t
    Json.mkObj (kvs.toList.map (fun (k, v) =>
      match v with
      | Json.str s => let bs := parseHex s; (k, verdictJson spec bs (checkFile spec t.rows.length bs))
      | _ => (k, err "bad-hex")))
  | _ => Json.mkObj []

def handle (j : Json) : Json :=
  match getStr? j "op" with
  | some "zero_bits" =>
    -- `Float` is opaque to the kernel, so "missing reads back as 0" (`bits32 (ofInt 0)` is the float32 +0.0) is
    -- established by running the driver's own `floatOps` (probe `float-zero-bits` of every check), not by a lemma
    Json.mkObj [("bits32", ((floatOps.bits32 (floatOps.ofInt 0)).toNat : Json)), ("bits64", ((floatOps.bits64 (floatOps.ofInt 0)).toNat : Json)),
                ("nan_is_nan", Json.bool (floatOps.isNaN (0.0 / 0.0))), ("zero_is_nan", Json.bool (floatOps.isNaN (floatOps.ofInt 0)))]
  | some "accepts" =>
    match getArr? j "cols" >>= parseCols with
    | some cols => Json.mkObj [("accepted", Json.bool (accepted cols))]
    | none => Json.mkObj [("accepted", Json.bool false), ("why", "a column name is not one of the 20 fields")]
  | some op =>
    match getArr? j "cols" >>= parseCols, getArr? j "rows" >>= parseRows with
    | some cols, some rows =>
      let t : Table Float := { cols := cols, rows := rows.map (·.map floatOfBits) }
      if !accepted cols then err "reject:format" else
      match op with
      | "write" => fileJson (writeGen floatOps t) true
      | "write_asis" => fileJson (writeSrc false (some 0) true floatOps t) false
      | "roundtrip" =>
        let f := writeGen floatOps t
        let tbl := match readEm f with
          | some t' => tableJson t'
          | none => err "reject:read"
        -- the two dispatchers, at the type strings the real calls used (absent key = keyword omitted)
        let wt := getStr? j "wtype"
        let lt := getStr? j "ltype"
        let disp := Json.mkObj [("write", Json.bool (motlWriteOut wt floatOps t == some f)),
                                ("load", Json.bool ((motlLoad lt f).isSome == (readEm f).isSome && (motlLoad lt f).isSome))]
        Json.mkObj [("file", fileJson f true), ("table", tbl), ("verdicts", verdicts j t), ("dispatch", disp)]
      | _ => err "bad-op"
    | _, _ => err "bad-args"
  | none => err "bad-args"

end CryoCat.Drv.C01
