import CryoCat.Drv.Proto
import CryoCat.Model.C03
/-! C03 driver: runs `Model/C03` at `Float` with the driver's OWN Euler-angle extractors as the value of the
`asEuler` parameter (so the model's angles do not depend on the implementation's output and can disagree with it).
Reported: (i) the pose and matrices the model computes, (ii) the matrix handed to the extractor and the matrix the
own extractor's answer stands for (`own_post`: the theorems' hypothesis, for the model run), (iii) the same
post-condition for scipy's answer as reconstructed from the implementation's output angles (`post`). -/
namespace CryoCat.Drv.C03
open Lean CryoCat CryoCat.C03

def pi : Float := 3.14159265358979323846
def angOfDeg (d : Float) : Ang Float := ⟨Float.cos (d * pi / 180.0), Float.sin (d * pi / 180.0)⟩
def ang3OfDeg (a b c : Float) : Ang3 Float := ⟨angOfDeg a, angOfDeg b, angOfDeg c⟩

def bitsArr? (j : Json) : Option (List Float) :=
  match j with
  | Json.arr a => a.toList.mapM (fun c => (c.getNat?).toOption.map floatOfBits)
  | _ => none
def natArr? (j : Json) : Option (List Nat) :=
  match j with
  | Json.arr a => a.toList.mapM (fun c => (c.getNat?).toOption)
  | _ => none
def strArr? (j : Json) : Option (List String) :=
  match j with
  | Json.arr a => a.toList.mapM (fun c => match c with | Json.str s => some s | _ => none)
  | _ => none
def rows? (j : Json) (k : String) (f : Json → Option β) : Option (List β) :=
  (getArr? j k) >>= fun a => a.toList.mapM f

def fl (x : Float) : Json := (bitsOfFloat x : Json)
def matJson (m : M3 Float) : Json := Json.arr (m.toList.map fl).toArray
def optNat (o : Option Nat) : Json := match o with | some n => (n : Json) | none => Json.null
def optStr (o : Option (List Char)) : Json := match o with | some s => Json.str (String.ofList s) | none => Json.null

/-- undo `applySlots`: the triple scipy must have returned for the implementation to output `o`;
`none` unless the three columns come from the three distinct slots 0, 1, 2 -/
def unSlots (slots : List (String × Bool × Nat)) (o : Ang3 Float) : Option (Ang3 Float) :=
  match slots with
  | [(_, n0, k0), (_, n1, k1), (_, n2, k2)] =>
    let items : List (Nat × Ang Float) := [(k0, o.a.signed n0), (k1, o.b.signed n1), (k2, o.c.signed n2)]
    match items.lookup 0, items.lookup 1, items.lookup 2 with
    | some a, some b, some c => some ⟨a, b, c⟩
    | _, _, _ => none
  | _ => none

/-! ### the driver's own Euler-angle extractors (no scipy, no implementation output): the value of the `asEuler`
parameter the model runs with. Outer angle and middle angle from the third column, the remaining angle from what
is left after removing them (consistent also at and near gimbal lock). Each returns (cos, sin) pairs. -/

def norm2 (x y : Float) : Float := Float.sqrt (x * x + y * y)
def unitAng (c s : Float) : Ang Float := let n := norm2 c s; if n == 0.0 then ⟨1.0, 0.0⟩ else ⟨c / n, s / n⟩

/-- intrinsic "ZYZ": `m = Rz(a)·Ry(b)·Rz(c)`, third column `(cos a sin b, sin a sin b, cos b)` -/
def extractZYZ (m : M3 Float) : Ang3 Float :=
  let sb := norm2 m.a13 m.a23
  let a := unitAng m.a13 m.a23
  let b := unitAng m.a33 sb
  let n := ry b.c (-b.s) * (rz a.c (-a.s) * m)
  ⟨a, b, unitAng n.a11 n.a21⟩

/-- extrinsic "zxz" of (p, t, s): `m = Rz(s)·Rx(t)·Rz(p)`, third column `(sin s sin t, −cos s sin t, cos t)` -/
def extractzxz (m : M3 Float) : Ang3 Float :=
  let st := norm2 m.a13 m.a23
  let s := unitAng (-m.a23) m.a13
  let t := unitAng m.a33 st
  let n := rx t.c (-t.s) * (rz s.c (-s.s) * m)
  ⟨unitAng n.a11 n.a21, t, s⟩

/-- the extractor for the sequence the source hands to `as_euler`; `none` for any other sequence -/
def ownExtractor (seq : List Char) : Option (M3 Float → Ang3 Float) :=
  if seq = ['Z', 'Y', 'Z'] then some extractZYZ else if seq = ['z', 'x', 'z'] then some extractzxz else none

def namesJson (v : Nat) : Json :=
  match versionNames v with
  | some n => Json.mkObj [("tomo", Json.str n.tomo), ("sub", Json.str n.sub),
      ("shifts", Json.arr (n.shifts.map Json.str).toArray), ("spec", Json.str n.spec)]
  | none => Json.null

def optMat (o : Option (M3 Float)) : Json := match o with | some m => matJson m | none => Json.null
def optBool (o : Option Bool) : Json := match o with | some b => Json.bool b | none => Json.null

def exportRow (tomoFmt subFmt : List Char) (p : List Float) (ids : List Nat) (out : List Float) : Option Json :=
  match p, ids, out, ownExtractor Gen.C03.exportToSeq with
  | [x, y, z, sx, sy, sz, phi, theta, psi], [tomo, sub, cls], [o1, o2, o3], some own =>
    let ang := ang3OfDeg phi theta psi
    -- the model, run with the driver's own extractor
    match exportPose own ⟨x, y, z, sx, sy, sz, ang⟩, exportFed ang, exportIdent tomoFmt subFmt tomo sub cls with
    | some r, some fed, ident =>
      -- scipy's post-condition, on the triple the implementation must have received from scipy
      let post := (unSlots Gen.C03.exportSlots (ang3OfDeg o1 o2 o3)).bind (eulerMat Gen.C03.exportToSeq)
      some (Json.mkObj [
        ("coord", Json.arr #[fl r.cx, fl r.cy, fl r.cz]),
        ("origin", Json.arr #[fl r.ox, fl r.oy, fl r.oz]),
        ("expect", matJson (particleMat ang).transpose),
        ("fed", matJson fed),
        ("post", optMat post),
        ("own_post", optMat (eulerMat Gen.C03.exportToSeq (own fed))),
        ("rel", matJson r.rotation),
        ("tomo_name", match ident with | some (i, _) => optStr i.tomoName | none => Json.null),
        ("sub_name", match ident with | some (i, _) => Json.str (String.ofList i.subName) | none => Json.null),
        ("halfset", match ident with | some (_, h) => (h : Json) | none => Json.null),
        ("cls", match ident with | some (i, _) => (i.cls : Json) | none => Json.null)])
    | _, _, _ => none
  | _, _, _, _ => none

def importRow (v : Nat) (r : List Float) (px : Float) (out : List Float) : Option Json :=
  match r, out, ownExtractor Gen.C03.importToSeq with
  | [cx, cy, cz, ox, oy, oz, rot, tilt, psi], [o1, o2, o3], some own =>
    let rln := ang3OfDeg rot tilt psi
    match importPose own v px ⟨cx, cy, cz, ox, oy, oz, rln⟩, importFed rln with
    | some p, some fed =>
      let post := (unSlots Gen.C03.importSlots (ang3OfDeg o1 o2 o3)).bind (eulerMat Gen.C03.importToSeq)
      some (Json.mkObj [
        ("xyz", Json.arr #[fl p.x, fl p.y, fl p.z]),
        ("shift", Json.arr #[fl p.sx, fl p.sy, fl p.sz]),
        ("expect", matJson (relionMat rln).transpose),
        ("fed", matJson fed),
        ("post", optMat post),
        ("own_post", optMat (eulerMat Gen.C03.importToSeq (own fed))),
        ("rot", matJson p.rotation)])
    | _, _ => none
  | _, _, _ => none

def natCol (l : List Nat) : Json := Json.arr (l.map (fun (n : Nat) => (n : Json))).toArray

def optStrArr? (j : Json) : Option (List (Option String)) :=
  match j with
  | Json.arr a => a.toList.mapM (fun c => match c with | Json.str s => some (some s) | Json.null => some none | _ => none)
  | _ => none

def handle (j : Json) : Json :=
  match getStr? j "op", getNat? j "ver" with
  | some "export", some v =>
    match getStr? j "tomo_fmt", getStr? j "sub_fmt", rows? j "parts" bitsArr?, rows? j "ids" natArr?, rows? j "out" bitsArr? with
    | some tf, some sf, some parts, some ids, some outs =>
      if parts.length ≠ ids.length ∨ parts.length ≠ outs.length then err "bad-args" else
      match (parts.zip (ids.zip outs)).mapM (fun (p, i, o) => exportRow tf.toList sf.toList p i o) with
      | some rows => Json.mkObj [("names", namesJson v), ("angstrom", optBool (originInAngstrom v)), ("rows", Json.arr rows.toArray)]
      | none => err "model-fails"
    | _, _, _, _, _ => err "bad-args"
  | some "import", some v =>
    match rows? j "rows" bitsArr?, (j.getObjVal? "px").toOption >>= bitsArr?, rows? j "out" bitsArr?,
          (j.getObjVal? "tomo_names").toOption >>= optStrArr?, (j.getObjVal? "sub_names").toOption >>= strArr?,
          (j.getObjVal? "cls").toOption >>= natArr? with
    | some rs, some pxs, some outs, some tn, some sn, some cl =>
      if rs.length ≠ pxs.length ∨ rs.length ≠ outs.length ∨ rs.length ≠ tn.length ∨ rs.length ≠ sn.length ∨ rs.length ≠ cl.length then err "bad-args" else
      match (rs.zip (pxs.zip outs)).mapM (fun (r, px, o) => importRow v r px o) with
      | some rows =>
        let halfsets : Option (List Nat) := (j.getObjVal? "halfsets").toOption >>= natArr?
        let idents : List RIdent := (tn.zip (sn.zip cl)).map fun (t, s, c) => ⟨t.map String.toList, s.toList, c⟩
        let cols : List String := ((j.getObjVal? "cols").toOption >>= strArr?).getD []
        let base := [("names", namesJson v), ("angstrom", optBool (originInAngstrom v)), ("rows", Json.arr rows.toArray),
          ("sniff", (sniffVersion cols : Json))]
        match importIdents v idents halfsets with
        | some c => Json.mkObj (base ++ [("tomo", natCol c.tomo), ("geom3", natCol c.geom3), ("subtomo", natCol c.sub), ("cls", natCol c.cls)])
        | none => Json.mkObj (base ++ [("tomo", Json.null), ("geom3", Json.null), ("subtomo", Json.null), ("cls", Json.null)])
      | none => err "model-fails"
    | _, _, _, _, _, _ => err "bad-args"
  | _, _ => err "bad-op"

end CryoCat.Drv.C03
