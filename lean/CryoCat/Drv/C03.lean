import CryoCat.Drv.Proto
import CryoCat.Model.C03
/-! C03 driver: runs `Model/C03` at `Float`. The implementation's own angles are passed in as the value of
the `asEuler` parameter (scipy's answer), so the driver reports (i) the matrix the theorems predict,
(ii) the matrix scipy was given and the matrix its answer stands for (post-condition of the theorems). -/
namespace CryoCat.Drv.C03
open Lean CryoCat CryoCat.C03

def pi : Float := 3.14159265358979323846
def angOfDeg (d : Float) : Ang Float := ⟨Float.cos (d * pi / 180.0), Float.sin (d * pi / 180.0)⟩
def ang3OfDeg (a b c : Float) : Ang3 Float := ⟨angOfDeg a, angOfDeg b, angOfDeg c⟩

def bitsArr? (j : Json) : Option (List Float) :=
  match j with
  | Json.arr a => a.toList.mapM (fun c => (c.getNat?).toOption.map floatOfBits)
  | _ => none
def natArr? (j : Json) : Option (List Nat) :=
  match j with
  | Json.arr a => a.toList.mapM (fun c => (c.getNat?).toOption)
  | _ => none
def strArr? (j : Json) : Option (List String) :=
  match j with
  | Json.arr a => a.toList.mapM (fun c => match c with | Json.str s => some s | _ => none)
  | _ => none
def rows? (j : Json) (k : String) (f : Json → Option β) : Option (List β) :=
  (getArr? j k) >>= fun a => a.toList.mapM f

def fl (x : Float) : Json := (bitsOfFloat x : Json)
def matJson (m : M3 Float) : Json := Json.arr (m.toList.map fl).toArray
def optNat (o : Option Nat) : Json := match o with | some n => (n : Json) | none => Json.null
def optStr (o : Option (List Char)) : Json := match o with | some s => Json.str (String.ofList s) | none => Json.null

/-- undo `applySlots`: the triple scipy must have returned for the implementation to output `o` -/
def unSlots (slots : List (String × Bool × Nat)) (o : Ang3 Float) : Ang3 Float :=
  let items : List (Nat × Ang Float) := match slots with
    | [(_, n0, k0), (_, n1, k1), (_, n2, k2)] => [(k0, o.a.signed n0), (k1, o.b.signed n1), (k2, o.c.signed n2)]
    | _ => []
  let get := fun (k : Nat) (d : Ang Float) => (items.lookup k).getD d
  ⟨get 0 o.a, get 1 o.b, get 2 o.c⟩

def namesJson (v : Nat) : Json :=
  match versionNames v with
  | some n => Json.mkObj [("tomo", Json.str n.tomo), ("sub", Json.str n.sub),
      ("shifts", Json.arr (n.shifts.map Json.str).toArray), ("spec", Json.str n.spec)]
  | none => Json.null

def exportRow (tomoFmt subFmt : List Char) (p : List Float) (ids : List Nat) (out : List Float) : Option Json :=
  match p, ids, out with
  | [x, y, z, sx, sy, sz, phi, theta, psi], [tomo, sub, cls], [o1, o2, o3] =>
    let ang := ang3OfDeg phi theta psi
    let outAng := ang3OfDeg o1 o2 o3
    let e := unSlots Gen.C03.exportSlots outAng
    let r := exportPose (fun _ => e) ⟨x, y, z, sx, sy, sz, ang⟩
    some (Json.mkObj [
      ("coord", Json.arr #[fl r.cx, fl r.cy, fl r.cz]),
      ("origin", Json.arr #[fl r.ox, fl r.oy, fl r.oz]),
      ("expect", matJson (particleMat ang).transpose),
      ("fed", matJson (exportFed ang)),
      ("post", matJson (eulerMat Gen.C03.exportToSeq e)),
      ("rel", matJson r.rotation),
      ("tomo_name", optStr (tomoName tomoFmt tomo)),
      ("sub_name", optStr (subName subFmt tomo sub)),
      ("halfset", (halfsetOf sub : Json)),
      ("cls", (cls : Json))])
  | _, _, _ => none

def importRow (v : Nat) (r : List Float) (px : Float) (out : List Float) : Option Json :=
  match r, out with
  | [cx, cy, cz, ox, oy, oz, rot, tilt, psi], [o1, o2, o3] =>
    let rln := ang3OfDeg rot tilt psi
    let outAng := ang3OfDeg o1 o2 o3
    let e := unSlots Gen.C03.importSlots outAng
    let p := importPose (fun _ => e) v px ⟨cx, cy, cz, ox, oy, oz, rln⟩
    some (Json.mkObj [
      ("xyz", Json.arr #[fl p.x, fl p.y, fl p.z]),
      ("shift", Json.arr #[fl p.sx, fl p.sy, fl p.sz]),
      ("expect", matJson (relionMat rln).transpose),
      ("fed", matJson (importFed rln)),
      ("post", matJson (eulerMat Gen.C03.importToSeq e)),
      ("rot", matJson p.rotation)])
  | _, _ => none

def handle (j : Json) : Json :=
  match getStr? j "op", getNat? j "ver" with
  | some "export", some v =>
    match getStr? j "tomo_fmt", getStr? j "sub_fmt", rows? j "parts" bitsArr?, rows? j "ids" natArr?, rows? j "out" bitsArr? with
    | some tf, some sf, some parts, some ids, some outs =>
      if parts.length ≠ ids.length ∨ parts.length ≠ outs.length then err "bad-args" else
      match (parts.zip (ids.zip outs)).mapM (fun (p, i, o) => exportRow tf.toList sf.toList p i o) with
      | some rows => Json.mkObj [("names", namesJson v), ("angstrom", Json.bool (originInAngstrom v)), ("rows", Json.arr rows.toArray)]
      | none => err "bad-args"
    | _, _, _, _, _ => err "bad-args"
  | some "import", some v =>
    match rows? j "rows" bitsArr?, (j.getObjVal? "px").toOption >>= bitsArr?, rows? j "out" bitsArr?,
          (j.getObjVal? "tomo_names").toOption >>= strArr?, (j.getObjVal? "sub_names").toOption >>= strArr? with
    | some rs, some pxs, some outs, some tn, some sn =>
      if rs.length ≠ pxs.length ∨ rs.length ≠ outs.length then err "bad-args" else
      match (rs.zip (pxs.zip outs)).mapM (fun (r, px, o) => importRow v r px o) with
      | some rows =>
        let halfsets : Option (List Nat) := (j.getObjVal? "halfsets").toOption >>= natArr?
        let parsedSub := sn.map (fun s => parseSub v s.toList)
        let subIds : Json := match parsedSub.mapM id with
          | some ps => Json.arr ((importSubtomoIds ps halfsets).map (fun (n : Nat) => (n : Json))).toArray
          | none => Json.null
        Json.mkObj [("names", namesJson v), ("angstrom", Json.bool (originInAngstrom v)), ("rows", Json.arr rows.toArray),
          ("tomo", Json.arr (tn.map (fun s => optNat (parseTomo s.toList))).toArray),
          ("geom3", Json.arr (parsedSub.map optNat).toArray),
          ("subtomo", subIds)]
      | none => err "bad-args"
    | _, _, _, _, _ => err "bad-args"
  | _, _ => err "bad-op"

end CryoCat.Drv.C03
