import CryoCat.Drv.Proto
import CryoCat.Model.C04
import CryoCat.Model.C04_Star
namespace CryoCat.Drv.C04
open Lean CryoCat CryoCat.C04

/-- numpy floored modulo for finite operands -/
def pyMod (x m : Float) : Float := x - m * Float.floor (x / m)

/-- the model's number operations at IEEE binary64 (numpy float64) -/
def floatOps : NumOps Float :=
  { ofNat := fun n => n.toFloat, modEq := fun x m k => pyMod x m.toFloat == k.toFloat }

/-- the same operations on bit patterns (for the checker, which needs decidable equality) -/
def bitOps : NumOps Nat :=
  { ofNat := fun n => bitsOfFloat n.toFloat, modEq := fun b m k => floatOps.modEq (floatOfBits b) m k }

/-- `Decimal(x).to_integral_value(ROUND_HALF_UP)`: nearest integer, ties away from zero = C `round` -/
def roundHalfUp (x : Float) : Float := Float.round x

def parseRows (a : Array Json) : Option (List (List Nat)) :=
  a.toList.mapM (fun r => match r with
    | Json.arr cells => cells.toList.mapM (fun c => (c.getNat?).toOption)
    | _ => none)

def parseCell (j : Json) : Option (Cell Nat) :=
  match j with
  | Json.str s => some (.str s)
  | _ => (j.getNat?).toOption.map Cell.num

def parseTable (j : Json) : Option (SgTable Nat) := do
  let cols ← getArr? j "cols"
  let cols ← cols.toList.mapM (fun c => match c with | Json.str s => SgField.ofName? s | _ => none)
  let rows ← getArr? j "rows"
  let rows ← rows.toList.mapM (fun r => match r with
    | Json.arr cells => cells.toList.mapM parseCell
    | _ => none)
  pure { cols := cols, rows := rows }

def cellJson : Cell Nat → Json
  | .num b => (b : Json)
  | .str s => Json.str s

def tableJson (t : SgTable Nat) : Json :=
  Json.mkObj [("cols", Json.arr (t.cols.map (fun f => Json.str f.name)).toArray),
              ("rows", Json.arr (t.rows.map (fun r => Json.arr (r.map cellJson).toArray)).toArray)]

def particleBits (p : Particle Float) : Particle Nat := Particle.ofFn (fun f => bitsOfFloat (p.get f))
def particleOfBits (l : List Nat) : Particle Float := Particle.ofList 0.0 (l.map floatOfBits)
def motlJson (m : List (Particle Nat)) : Json :=
  Json.arr (m.map (fun p => Json.arr (p.toList.map (fun (b : Nat) => (b : Json))).toArray)).toArray

def tableBits (t : SgTable Float) : SgTable Nat := { cols := t.cols, rows := t.rows.map (fun r => r.map (Cell.map bitsOfFloat)) }
def tableFloat (t : SgTable Nat) : SgTable Float := { cols := t.cols, rows := t.rows.map (fun r => r.map (Cell.map floatOfBits)) }

def nan : Float := 0.0 / 0.0

/-- an option that may be omitted by the caller: `true`/`false` given, `null`/absent = omitted -/
def optBool (j : Json) (k : String) : Option (Option Bool) :=
  match j.getObjVal? k with
  | .ok (Json.bool b) => some (some b)
  | .ok Json.null => some none
  | .error _ => some none
  | _ => none

/-- run-time cross-check of the exact integer decoding against the hardware float: every decoded
integer converts back to the same bit pattern, every undecodable pattern is non-integral or
non-finite, `encodeNat` is the bit pattern of the float, and floating-point `mod 2 = 0` agrees with
the parity of the decoded integer -/
def decodeAgrees (b : Nat) : Bool :=
  let x := floatOfBits b
  (match decodeInt b with
   | some z => (bitsOfFloat (Float.ofInt z) == b || (z == 0 && x == 0.0))
   | none => (x.isNaN || x.isInf || x.floor != x)) &&
  (floatOps.modEq x 2 0 == intBitOps.modEq b 2 0)

/-- run-time link between the rounding the driver executes (`Float.round`, compared bit-exactly with the
real code) and the rule the theorems are about (`ratRoundAway` on the exact value of the float): they
agree on the float sum `s` (non-finite sums are skipped) -/
def roundAgrees (s : Float) : Bool :=
  match decodeRat (bitsOfFloat s), decodeRat (bitsOfFloat (roundHalfUp s)) with
  | some q, some r => ratRoundAway q == r
  | _, _ => true

def handleExport (j : Json) : Json :=
  match getArr? j "rows" >>= parseRows, optBool j "reset", optBool j "update", (getStr? j "route").getD "file" with
  | some rows, some resetO, some updateO, route =>
    let motl := rows.map particleOfBits
    let (update, reset) :=
      if route == "mem" then (false, resetO.getD Gen.C04.convResetDefault)
      else if route == "wrap" then (Gen.C04.writeUpdateDefault, Gen.C04.writeResetDefault)
      else if route == "conv" then (updateO.getD Gen.C04.em2sgUpdateDefault, resetO.getD Gen.C04.em2sgResetDefault)
      else (updateO.getD Gen.C04.writeUpdateDefault, resetO.getD Gen.C04.writeResetDefault)
    let tbl :=
      if route == "mem" then (toSgOpt floatOps resetO motl).map (fun rs => ({ cols := sgColumns, rows := rs.map (fun r => sgColumns.map r) } : SgTable Float))
      else if route == "conv" then em2sgOpt floatOps roundHalfUp updateO resetO motl
      else if route == "wrap" then motlWriteOut floatOps roundHalfUp motl   -- Motl.write_out(path, "stopgap"): no keyword reaches write_out
      else writeOutOpt floatOps roundHalfUp updateO resetO motl
    let m := if update then motl.map (updateCoord roundHalfUp) else motl
    let mb := m.map particleBits
    match tbl with
    | none => err "reject:length-mismatch"
    | some t =>
      let back := match importTable nan t with
        | some ps => motlJson (ps.map particleBits)
        | none => err "reject:import"
      let n := mb.length
      let agree := mb.all (fun p => decodeAgrees p.subtomo_id) &&
        (List.range n).all (fun i => encodeNat (i + 1) == bitsOfFloat (i + 1).toFloat)
      let ragree := !update || motl.all (fun p =>
        roundAgrees (p.x + p.shift_x) && roundAgrees (p.y + p.shift_y) && roundAgrees (p.z + p.shift_z))
      let base := [("table", tableJson (tableBits t)), ("updated", motlJson mb), ("back", back),
                   ("eff", Json.mkObj [("reset", Json.bool reset), ("update", Json.bool update)]),
                   ("decode_agrees", Json.bool agree), ("round_agrees", Json.bool ragree)]
      -- verified checker on the implementation's own output, against the (updated) particle list;
      -- parity and 1..N are decided on exactly decoded integers (`intBitOps`), not with float `mod`
      let chk (key : String) : List (String × Json) :=
        match (j.getObjVal? key).toOption >>= parseTable with
        | none => []
        | some out =>
          [(key, Json.mkObj [
            ("cols", Json.bool (decide (out.cols = SgField.all))),
            ("fields", Json.bool (checkFields mb out)),
            ("halfset", Json.bool (checkHalf intBitOps mb out)),
            ("motl_idx", Json.bool (checkIdx intBitOps reset mb out))])]
      Json.mkObj (base ++ chk "out")
  | _, _, _, _ => err "bad-args"

def handleImport (j : Json) : Json :=
  match (j.getObjVal? "table").toOption >>= parseTable with
  | none => err "bad-args"
  | some tb =>
    let t := tableFloat tb
    match importTable nan t with
    | none =>
      if !(sgPairs.all (fun es => t.cols.contains es.2)) then err "reject:keyerror"
      else if !t.rect then err "reject:ragged"
      else err "reject:text-in-numeric-column"
    | some ps =>
      let base := [("motl", motlJson (ps.map particleBits))]
      let chk := match getArr? j "out" >>= parseRows with
        | none => []
        | some rows => [("check", Json.bool (checkImport tb (rows.map (fun l => Particle.ofList 0 l))))]
      Json.mkObj (base ++ chk)

/-- the proved reader (`starRead`, the C02 model of `Starfile.read` + `read_in`) run on the text of the
file the real `write_out` produced: header by name, rows, and which columns it types as numbers;
number cells are returned as the tokens read (`parse` = identity) -/
def handleStar (j : Json) : Json :=
  match getStr? j "text" with
  | none => err "bad-args"
  | some txt =>
    match starRead (fun w => w) Gen.C04.readSpecifier txt.toList with
    | none => err "reject:star-read"
    | some t =>
      let cell : Cell C02.Word → Json
        | .num w => Json.arr #[Json.str "n", Json.str (String.ofList w)]
        | .str s => Json.arr #[Json.str "s", Json.str s]
      Json.mkObj [("cols", Json.arr (t.cols.map (fun f => Json.str f.name)).toArray),
                  ("rows", Json.arr (t.rows.map (fun r => Json.arr (r.map cell).toArray)).toArray)]

def handle (j : Json) : Json :=
  match getStr? j "op" with
  | some "export" => handleExport j
  | some "import" => handleImport j
  | some "star" => handleStar j
  | _ => err "bad-op"

end CryoCat.Drv.C04
