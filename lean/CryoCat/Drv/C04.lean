import CryoCat.Drv.Proto
import CryoCat.Model.C04
namespace CryoCat.Drv.C04
open Lean CryoCat CryoCat.C04

/-- numpy floored modulo for finite operands -/
def pyMod (x m : Float) : Float := x - m * Float.floor (x / m)

/-- the model's number operations at IEEE binary64 (numpy float64) -/
def floatOps : NumOps Float :=
  { ofNat := fun n => n.toFloat, modEq := fun x m k => pyMod x m.toFloat == k.toFloat }

/-- the same operations on bit patterns (for the checker, which needs decidable equality) -/
def bitOps : NumOps Nat :=
  { ofNat := fun n => bitsOfFloat n.toFloat, modEq := fun b m k => floatOps.modEq (floatOfBits b) m k }

/-- `Decimal(x).to_integral_value(ROUND_HALF_UP)`: nearest integer, ties away from zero = C `round` -/
def roundHalfUp (x : Float) : Float := Float.round x

def parseRows (a : Array Json) : Option (List (List Nat)) :=
  a.toList.mapM (fun r => match r with
    | Json.arr cells => cells.toList.mapM (fun c => (c.getNat?).toOption)
    | _ => none)

def parseCell (j : Json) : Option (Cell Nat) :=
  match j with
  | Json.str s => some (.str s)
  | _ => (j.getNat?).toOption.map Cell.num

def parseTable (j : Json) : Option (SgTable Nat) := do
  let cols ← getArr? j "cols"
  let cols ← cols.toList.mapM (fun c => match c with | Json.str s => SgField.ofName? s | _ => none)
  let rows ← getArr? j "rows"
  let rows ← rows.toList.mapM (fun r => match r with
    | Json.arr cells => cells.toList.mapM parseCell
    | _ => none)
  pure { cols := cols, rows := rows }

def cellJson : Cell Nat → Json
  | .num b => (b : Json)
  | .str s => Json.str s

def tableJson (t : SgTable Nat) : Json :=
  Json.mkObj [("cols", Json.arr (t.cols.map (fun f => Json.str f.name)).toArray),
              ("rows", Json.arr (t.rows.map (fun r => Json.arr (r.map cellJson).toArray)).toArray)]

def particleBits (p : Particle Float) : Particle Nat := Particle.ofFn (fun f => bitsOfFloat (p.get f))
def particleOfBits (l : List Nat) : Particle Float := Particle.ofList 0.0 (l.map floatOfBits)
def motlJson (m : List (Particle Nat)) : Json :=
  Json.arr (m.map (fun p => Json.arr (p.toList.map (fun (b : Nat) => (b : Json))).toArray)).toArray

def tableBits (t : SgTable Float) : SgTable Nat := { cols := t.cols, rows := t.rows.map (fun r => r.map (Cell.map bitsOfFloat)) }
def tableFloat (t : SgTable Nat) : SgTable Float := { cols := t.cols, rows := t.rows.map (fun r => r.map (Cell.map floatOfBits)) }

def nan : Float := 0.0 / 0.0

def handleExport (j : Json) : Json :=
  match getArr? j "rows" >>= parseRows, (j.getObjValAs? Bool "reset").toOption, (j.getObjValAs? Bool "update").toOption with
  | some rows, some reset, some update =>
    let motl := rows.map particleOfBits
    let m := if update then motl.map (updateCoord roundHalfUp) else motl
    let mb := m.map particleBits
    match writeOutTable floatOps roundHalfUp update reset motl with
    | none => err "reject:length-mismatch"
    | some t =>
      let back := match importTable nan t with
        | some ps => motlJson (ps.map particleBits)
        | none => err "reject:keyerror"
      let base := [("table", tableJson (tableBits t)), ("updated", motlJson mb), ("back", back)]
      -- verified checker on the implementation's own output(s), against the (updated) particle list
      let chk (key : String) : List (String × Json) :=
        match (j.getObjVal? key).toOption >>= parseTable with
        | none => []
        | some out =>
          [(key, Json.mkObj [
            ("cols", Json.bool (decide (out.cols = SgField.all))),
            ("fields", Json.bool (checkFields mb out)),
            ("halfset", Json.bool (checkHalf bitOps mb out)),
            ("motl_idx", Json.bool (checkIdx bitOps reset mb out))])]
      Json.mkObj (base ++ chk "out" ++ chk "out2")
  | _, _, _ => err "bad-args"

def handleImport (j : Json) : Json :=
  match (j.getObjVal? "table").toOption >>= parseTable with
  | none => err "bad-args"
  | some tb =>
    match importTable nan (tableFloat tb) with
    | none => err "reject:keyerror"
    | some ps =>
      let base := [("motl", motlJson (ps.map particleBits))]
      let chk := match getArr? j "out" >>= parseRows with
        | none => []
        | some rows => [("check", Json.bool (checkImport tb (rows.map (fun l => Particle.ofList 0 l))))]
      Json.mkObj (base ++ chk)

def handle (j : Json) : Json :=
  match getStr? j "op" with
  | some "export" => handleExport j
  | some "import" => handleImport j
  | _ => err "bad-op"

end CryoCat.Drv.C04
