import CryoCat.Drv.Proto
import CryoCat.Model.C02
namespace CryoCat.Drv.C02
open Lean CryoCat CryoCat.C02

def str (w : List Char) : Json := Json.str (String.ofList w)

def kindName : Kind → String
  | .lit => "LITERAL" | .newline => "NEWLINE" | .comment => "COMMENT" | .loop => "LOOP" | .prop => "PROPERTY"

def errJson : Err → Json
  | .expected k e => err s!"expected:{kindName k}:{if e then "empty" else "got"}"
  | .trailing => err "trailing"

def blockJson (b : Block) : Json :=
  Json.mkObj [("name", str b.name),
              ("cols", Json.arr (b.cols.map str).toArray),
              ("rows", Json.arr (b.rows.map (fun r => Json.arr (r.map str).toArray)).toArray),
              ("kinds", Json.arr ((blockKinds isNumTok b).map Json.bool).toArray)]

def readJson (txt : List Char) : Json :=
  match readStar txt with
  | .ok bs => Json.mkObj [("blocks", Json.arr (bs.map blockJson).toArray)]
  | .error e => errJson e

def parseWords (a : Array Json) : Option (List Word) :=
  a.toList.mapM (fun j => match j with | Json.str s => some s.toList | _ => none)

def parseBlock (j : Json) : Option Block := do
  let name ← getStr? j "name"
  let cols ← getArr? j "cols" >>= parseWords
  let rows ← getArr? j "rows" >>= (fun a => a.toList.mapM (fun r => match r with | Json.arr c => parseWords c | _ => none))
  pure { name := name.toList, cols := cols, rows := rows }

def tokJson : Tok → Json
  | .lit w => Json.arr #[Json.str "LITERAL", str w]
  | .prop w => Json.arr #[Json.str "PROPERTY", str w]
  | .loop => Json.arr #[Json.str "LOOP"]
  | .comment c => Json.arr #[Json.str "COMMENT", str c]
  | .newline => Json.arr #[Json.str "NEWLINE"]

def handle (j : Json) : Json :=
  match getStr? j "op" with
  | some "read" =>
    match getStr? j "text" with
    | some t => readJson t.toList
    | none => err "bad-args"
  | some "tokens" =>
    match getStr? j "text" with
    | some t => Json.mkObj [("tokens", Json.arr ((tokenize t.toList).map tokJson).toArray)]
    | none => err "bad-args"
  | some "print" =>
    match getArr? j "blocks" >>= (fun a => a.toList.mapM parseBlock), (j.getObjValAs? Bool "number_columns").toOption with
    | some bs, some nc =>
      let txt := printStar nc bs
      Json.mkObj [("text", str txt), ("read", readJson txt)]
    | _, _ => err "bad-args"
  | _ => err "bad-op"

end CryoCat.Drv.C02
