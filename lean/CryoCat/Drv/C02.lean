import CryoCat.Drv.Proto
import CryoCat.Model.C02_Num
import CryoCat.Model.C02_Comments
import CryoCat.Model.C02_Remove
import CryoCat.Model.C02_Value
namespace CryoCat.Drv.C02
open Lean CryoCat CryoCat.C02

def str (w : List Char) : Json := Json.str (String.ofList w)

def kindName : Kind → String
  | .lit => "LITERAL" | .newline => "NEWLINE" | .comment => "COMMENT" | .loop => "LOOP" | .prop => "PROPERTY"

def errJson : Err → Json
  | .expected k e => err s!"expected:{kindName k}:{if e then "empty" else "got"}"
  | .trailing => err "trailing"

def blockJson (b : Block) : Json :=
  Json.mkObj [("name", str b.name),
              ("cols", Json.arr (b.cols.map str).toArray),
              ("rows", Json.arr (b.rows.map (fun r => Json.arr (r.map str).toArray)).toArray),
              ("kinds", Json.arr ((blockKinds isNumTok b).map Json.bool).toArray),
              ("ints", Json.arr ((blockInts b).map Json.bool).toArray)]

def blockCJson (p : Block × List Comment) : Json :=
  (blockJson p.1).setObjVal! "comments" (Json.arr (p.2.map str).toArray)

/-- `Starfile.read(path)`: blocks, column kinds and comment lists -/
def readJson (txt : List Char) : Json :=
  match readStarC txt with
  | .ok bs => Json.mkObj [("blocks", Json.arr (bs.map blockCJson).toArray)]
  | .error e => errJson e

def selJson : Except SelErr (Block × List Comment) → Json
  | .ok b => Json.mkObj [("block", blockCJson b)]
  | .error (.parse e) => errJson e
  | .error .index => err "IndexError"
  | .error .noEntry => err "ValueError"

def parseWords (a : Array Json) : Option (List Word) :=
  a.toList.mapM (fun j => match j with | Json.str s => some s.toList | _ => none)

/-- a typed cell: a string (text), an integer, `[neg, "digits", decpt]` (finite float),
`["inf", neg]`, `["nan"]` -/
def parseCell (j : Json) : Option Cell :=
  match j with
  | Json.str s => some (.txt s.toList)
  | Json.arr #[Json.bool neg, Json.str ds, d] =>
    match d.getInt? with
    | .ok k => some (.flt (.fin neg ds.toList k))
    | .error _ => none
  | Json.arr #[Json.str "inf", Json.bool neg] => some (.flt (.inf neg))
  | Json.arr #[Json.str "nan"] => some (.flt .nan)
  | Json.arr _ => none
  | _ => match j.getInt? with
    | .ok n => some (.int n)
    | .error _ => none

/-- a block without `name` is written with the default specifier (`specifiers=None`) -/
def parseBlock (j : Json) : Option TBlock := do
  let name := (getStr? j "name").getD (String.ofList Gen.C02.defaultSpecifier)
  let cols ← getArr? j "cols" >>= parseWords
  let rows ← getArr? j "rows" >>= (fun a => a.toList.mapM (fun r => match r with | Json.arr c => c.toList.mapM parseCell | _ => none))
  pure { name := name.toList, cols := cols, rows := rows }

/-- the `comments` argument: `null` or one entry per block, each `null` or a list of strings -/
def parseComments (n : Nat) (j : Json) : Option (List (Option (List Comment))) :=
  match j.getObjVal? "comments" with
  | .ok (Json.arr a) => a.toList.mapM (fun c => match c with
      | Json.null => some none
      | Json.arr cs => (parseWords cs).map some
      | _ => none)
  | _ => some (List.replicate n none)

def tokJson : Tok → Json
  | .lit w => Json.arr #[Json.str "LITERAL", str w]
  | .prop w => Json.arr #[Json.str "PROPERTY", str w]
  | .loop => Json.arr #[Json.str "LOOP"]
  | .comment c => Json.arr #[Json.str "COMMENT", str c]
  | .newline => Json.arr #[Json.str "NEWLINE"]

def handle (j : Json) : Json :=
  match getStr? j "op" with
  | some "read" =>
    match getStr? j "text" with
    | some t =>
      match getInt? j "data_id", getStr? j "specifier" with
      | some i, _ => selJson (readSel t.toList i)
      | none, some s => selJson (getFrameAndComments t.toList s.toList)
      | none, none => readJson t.toList
    | none => err "bad-args"
  | some "tokens" =>
    match getStr? j "text" with
    | some t => Json.mkObj [("tokens", Json.arr ((tokenize t.toList).map tokJson).toArray)]
    | none => err "bad-args"
  | some "print" =>
    -- `number_columns` left out of the request = the keyword left out of the call: the signature default
    match getArr? j "blocks" >>= (fun a => a.toList.mapM parseBlock), some ((j.getObjValAs? Bool "number_columns").toOption.getD Gen.C02.numberColumnsDefault) with
    | some bs, some nc =>
      match parseComments bs.length j with
      | none => err "bad-args"
      | some coms =>
        match printStarC nc coms (bs.map TBlock.texts) with
        | none => err "ValueError"
        | some txt => Json.mkObj [("text", str txt), ("read", readJson txt)]
    | _, _ => err "bad-args"
  | some "remove_lines" =>
    -- Starfile.write(blocks, p, comments, number_columns) ; Starfile.remove_lines(p, idx, q, specifier, number_columns2) -> text of q
    match getArr? j "blocks" >>= (fun a => a.toList.mapM parseBlock), getArr? j "idx" with
    | some bs, some idxJ =>
      let nc := (j.getObjValAs? Bool "number_columns").toOption.getD Gen.C02.numberColumnsDefault
      let nc2 := (j.getObjValAs? Bool "number_columns2").toOption.getD Gen.C02.removeLinesNumberColumnsDefault
      let idx := idxJ.toList.filterMap (fun x => (x.getNat?).toOption)
      let spec := (getStr? j "specifier").map String.toList
      match parseComments bs.length j with
      | none => err "bad-args"
      | some coms =>
        match printStarC nc coms (bs.map TBlock.texts) with
        | none => err "ValueError"
        | some txt =>
          match removeLines txt idx spec nc2 with
          | .ok out => Json.mkObj [("text", str out), ("read", readJson out)]
          | .error (.sel (.parse e)) => errJson e
          | .error (.sel _) => err "IndexError"
          | .error .notFound => err "not-found"
          | .error .rowIndex => err "IndexError"
    | _, _ => err "bad-args"
  | some "ws" =>
    -- every code point the model takes for white space (compared with str.isspace over all of Unicode)
    Json.mkObj [("ws", Json.arr (((List.range 0x110000).filter (fun n => isWs (Char.ofNat n) && (Char.ofNat n).toNat == n)).map (fun (n : Nat) => Json.num (JsonNumber.fromNat n))).toArray)]
  | some "round6" =>
    -- the float cells of a written file, `[[bit pattern of the written value, token in the file], ...]`: does the token meet
    -- `Round6Spec` (exact rational arithmetic, `float_precision` of the source)? `null` for a malformed entry
    match getArr? j "cells" with
    | some a => Json.mkObj [("ok", Json.arr (a.map (fun c => match c with
        | Json.arr #[b, Json.str t] => (match b.getNat? with
            | .ok n => Json.bool (round6Cell n t.toList)
            | .error _ => Json.null)
        | _ => Json.null)))]
    | none => err "bad-args"
  | some "cells" =>
    match getArr? j "cells" >>= (fun a => a.toList.mapM parseCell) with
    | some cs => Json.mkObj [("texts", Json.arr (cs.map (fun c => str (cellText c))).toArray),
                             ("numeric", Json.arr (cs.map (fun c => Json.bool (isNumTok (cellText c)))).toArray)]
    | none => err "bad-args"
  | _ => err "bad-op"

end CryoCat.Drv.C02
