import CryoCat.Drv.Proto
import CryoCat.Model.C09
/-! Driver of C09: executes `oob / oobCode`, `trim / trimCode`, `cleanPointsStmt / cleanPoints`,
`cleanMaskStmt / cleanMaskArg / cleanMaskArgCode / cleanMaskArgSorted / cleanMaskById / cleanMaskOld` of `Model/C09.lean` at `Rat`.
All numbers travel as integers `n` meaning `n / scale` (`scale` a power of two); results are
`[numerator, denominator]` pairs of normalised rationals. -/
namespace CryoCat.Drv.C09
open Lean CryoCat CryoCat.C09

def ints (a : Array Json) : Option (List Int) := a.toList.mapM (fun c => (c.getInt?).toOption)

def intRows (a : Array Json) : Option (List (List Int)) :=
  a.toList.mapM (fun r => match r with | Json.arr cells => ints cells | _ => none)

def q (scale : Nat) (n : Int) : Rat := mkRat n scale

def particleOf (scale : Nat) (r : List Int) : Option (Particle Rat) :=
  if r.length = 20 then some (Particle.ofList 0 (r.map (q scale))) else none

def ratJson (x : Rat) : Json := Json.arr #[(x.num : Json), (x.den : Json)]

def rowsJson (l : Motl Rat) : Json :=
  Json.mkObj [("rows", Json.arr (l.map (fun p => Json.arr (p.toList.map ratJson).toArray)).toArray)]

def oobJson (r : Except OobErr (Motl Rat)) : Json :=
  match r with
  | .ok l => rowsJson l
  | .error .unknownBoundaryType => err "reject:boundary-type"
  | .error .boxSizeMissing => err "reject:box-size"
  | .error .noDimensions => err "reject:no-dimensions"

def maskJson (r : Except MaskErr (Motl Rat)) : Json :=
  match r with
  | .ok l => rowsJson l
  | .error .lengthMismatch => err "reject:mask-list-length"

def v3Of (scale : Nat) (l : List Int) : Option (V3 Rat) :=
  match l with
  | [a, b, c] => some ⟨q scale a, q scale b, q scale c⟩
  | _ => none

def dimOf (scale : Nat) (l : List Int) : Option (Dim Rat) :=
  match l with
  | [t, a, b, c] => some ⟨q scale t, q scale a, q scale b, q scale c⟩
  | _ => none

def ptOf (scale : Nat) (l : List Int) : Option (Pt Rat) :=
  match l with
  | [t, a, b, c] => some ⟨q scale t, ⟨q scale a, q scale b, q scale c⟩⟩
  | _ => none

/-- a mask from its shape and its voxels in C order (`[x][y][z]`, z fastest). The voxel VALUES handed to the
library travel as `raw` (integers meaning `n / scale`); without `raw`, `data` holds the values 0 / 1. The mask is
binarised with `cfg` (`cryomap.binarize`): documented operator for `spec`, today's source for `code`. -/
def maskOf (cfg : BinarizeCfg) (scale : Nat) (j : Json) : Option Mask :=
  let vals : Option (List Rat) :=
    match getArr? j "raw" >>= ints with
    | some raw => some (raw.map (q scale))
    | none => (getArr? j "data" >>= ints).map (fun (ds : List Int) => ds.map (fun (n : Int) => (n : Rat)))
  match getArr? j "shape" >>= ints, vals with
  | some [sx, sy, sz], some data =>
    let arr := (data.map (binarizeWith cfg)).toArray
    let sy' := sy.toNat
    let sz' := sz.toNat
    some { sx := sx.toNat, sy := sy', sz := sz',
           val := fun ix iy iz => arr.getD ((ix * sy' + iy) * sz' + iz) true }
  | _, _ => none

def btOf (s : String) : BType :=
  if s = "center" then .center else if s = "whole" then .whole else .other

def handle (j : Json) : Json :=
  match getStr? j "op", getNat? j "scale", (getArr? j "rows" >>= intRows) with
  | some op, some scale, some rows =>
    match rows.mapM (particleOf scale) with
    | none => err "bad-args"
    | some l =>
      match op with
      | "oob" =>
        match (getArr? j "dims" >>= intRows) >>= (·.mapM (dimOf scale)), getStr? j "bt" with
        | some dims, some bt =>
          let box := getNat? j "box"
          -- `spec`: the statement (`oob_spec`); `code`: the model at today's operators (`oobCode_is`: the recorded unrepaired
          -- `oobAsIs` of finding C09-K1, or `oob` once repaired)
          Json.mkObj [("spec", oobJson (oob dims (btOf bt) box l)),
                      ("code", oobJson (oobCode dims (btOf bt) box l))]
        | _, _ => err "bad-args"
      | "trim" =>
        match (getArr? j "start" >>= ints) >>= v3Of scale, (getArr? j "end" >>= ints) >>= v3Of scale with
        | some s, some e =>
          Json.mkObj [("spec", rowsJson (trim s e l)), ("code", rowsJson (trimCode s e l))]
        | _, _ => err "bad-args"
      | "points" =>
        match (getArr? j "pts" >>= intRows) >>= (·.mapM (ptOf scale)), getInt? j "r" with
        | some pts, some r =>
          -- `spec`: the statement (input order, `cleanPointsStmt_spec`); `code`: the per-tomogram loop of the source
          -- (`cleanPoints_perm_stmt`: a permutation of it, `cleanPoints_tomogram_order`: same order inside every tomogram)
          Json.mkObj [("spec", rowsJson (cleanPointsStmt (q scale r) pts l)),
                      ("code", rowsJson (cleanPoints (q scale r) pts l))]
        | _, _ => err "bad-args"
      | "mask" =>
        match getArr? j "tomos" >>= ints, (getArr? j "masks").bind (·.toList.mapM (maskOf binarizeCfgDoc scale)),
              (getArr? j "masks").bind (·.toList.mapM (maskOf Gen.C09.binarizeCfg scale)) with
        | some tomos, some masks, some masksCode =>
          let ts := tomos.map (q scale)
          let single := (j.getObjValAs? Bool "single").toOption.getD false
          let fromFile := (j.getObjValAs? Bool "from_file").toOption.getD false
          let ta : TomoArg Rat := if fromFile then .fromFile ts else .asGiven ts
          match single, masks with
          | true, [] => err "bad-args"
          | _, _ =>
            let mk (ms : List Mask) : MaskArg := match single, ms with
              | true, m :: _ => .single m
              | _, ms => .perTomo ms
            -- `spec` is the STATEMENT (filter by `¬ onZeroVoxel`, `cleanMaskStmt_spec`), `model` the documented code model,
            -- `code` the model at today's operators, `byid` / `old` the two repaired defects (regression)
            -- the list AS GIVEN is what the statement pairs with the masks (`ta.values`), whatever the form of the argument;
            -- `code` loads it the way today's source does (`tltLoad`, a file sorted iff the effective sort_angles holds)
            Json.mkObj [("spec", maskJson (cleanMaskStmt truncRat ta.values (mk masks) l)),
                        ("model", maskJson (cleanMaskArg truncRat ta (mk masks) l)),
                        ("code", maskJson (cleanMaskFileCode f32Rat truncRat ta (mk masksCode) l)),
                        ("sortedfile", maskJson (cleanMaskArgSorted truncRat ta (mk masks) l)),
                        ("byid", maskJson (cleanMaskById truncRat ts (mk masks) l)),
                        ("old", maskJson (cleanMaskOld truncRat ts (mk masks) l))]
        | _, _, _ => err "bad-args"
      | _ => err "bad-op"
  | _, _, _ => err "bad-args"

end CryoCat.Drv.C09
