import CryoCat.Drv.Proto
import CryoCat.Model.C07
/-! Driver for C07: runs `cleanByDistance`, `checkClean`, `extractPeaks`, `checkPeaks` at `α = Int`
(all numbers arrive as integers: dyadic values scaled by a common power of two chosen by the harness). -/
namespace CryoCat.Drv.C07
open Lean CryoCat CryoCat.C07

def intOf (j : Json) : Option Int := (j.getInt?).toOption
def natOf (j : Json) : Option Nat := (j.getNat?).toOption
def intList (a : Array Json) : Option (List Int) := a.toList.mapM intOf
def intRows (a : Array Json) : Option (List (List Int)) :=
  a.toList.mapM (fun r => match r with | Json.arr c => intList c | _ => none)
def natList (a : Array Json) : Option (List Nat) := a.toList.mapM natOf

def jInts (l : List Int) : Json := Json.arr (l.map (fun (i : Int) => (i : Json))).toArray
def jNats (l : List Nat) : Json := Json.arr (l.map (fun (i : Nat) => (i : Json))).toArray

def handleClean (j : Json) (op : String) : Json :=
  match getInt? j "d", getNat? j "keep_greater", getStr? j "feature" >>= Field.ofName?, getArr? j "rows" >>= intRows with
  | some d, some kg, some feature, some rows =>
    if rows.any (fun r => r.length != 20) then err "bad-args" else
    let l : List (Particle Int) := rows.map (Particle.ofList 0)
    let kg := kg != 0
    match op with
    | "clean" =>
      let out := cleanByDistance d kg feature l
      Json.mkObj [("kept", jNats (out.map (·.idx))), ("groups", (groupKeys ((itemsOf feature l).map (·.grp))).length)]
    | "check_clean" =>
      match getArr? j "out" >>= natList with
      | some outIdx =>
        let items := itemsOf feature l
        let arr := items.toArray
        if outIdx.any (fun i => i ≥ arr.size) then err "bad-args" else
        let out := outIdx.filterMap (fun i => arr[i]?)
        let grpCore := fun (rel : Item Int → Item Int → Bool) =>
          Json.arr ((checkGroupsCore rel kg items out).map (fun (r : Int × Bool × String) =>
            Json.mkObj [("group", (r.1 : Json)), ("ok", Json.bool r.2.1), ("clause", Json.str r.2.2)])).toArray
        -- `ok_core*` / `independent_core*`: the order-free checker (spec verdict, theorems checkCleanCore_iff,
        -- checkCleanCoreLe_iff, checkIndependentCore_spec, checkIndependentCoreLe_sound); `in_order`: groupsInOrder_iff;
        -- `ok`: the full checker (checkClean_iff) = ok_core && in_order
        let okCore := checkCleanCoreR (closer d) kg items out
        let inOrder := groupsInOrder items out
        Json.mkObj [("ok", Json.bool (okCore && inOrder)), ("clause", Json.str (checkCleanClause d kg items out)),
                    ("ok_core", Json.bool okCore),
                    ("clause_core", Json.str (checkCleanCoreClauseR (closer d) kg items out)),
                    ("ok_core_le", Json.bool (checkCleanCoreR (closerLe d) kg items out)),
                    ("clause_core_le", Json.str (checkCleanCoreClauseR (closerLe d) kg items out)),
                    ("in_order", Json.bool inOrder),
                    ("independent_core", Json.bool (checkIndependentCore (closer d) kg items out)),
                    ("independent_core_le", Json.bool (checkIndependentCore (closerLe d) kg items out)),
                    ("groups_core", grpCore (closer d))]
      | none => err "bad-args"
    | _ => err "bad-op"
  | _, _, _, _ => err "bad-args"

def triples (rows : List (List Int)) : Option (List (Int × Int × Int)) :=
  rows.mapM (fun r => match r with | [a, b, c] => some (a, b, c) | _ => none)

def peakRow (p : Peak Int) : Json := jInts [p.x, p.y, p.z, p.score, p.phi, p.theta, p.psi]

def parsePeak (r : List Int) : Option (Peak Int) :=
  match r with
  | [x, y, z, s, phi, theta, psi] => if x < 0 || y < 0 || z < 0 then none else some ⟨x.toNat, y.toNat, z.toNat, s, phi, theta, psi⟩
  | _ => none

def handlePeaks (j : Json) (op : String) : Json :=
  match getInt? j "thr", getNat? j "dn", getNat? j "dd", getArr? j "dims" >>= natList,
        getArr? j "scores" >>= intList, getArr? j "angles" >>= intList, getArr? j "anglist" >>= intRows >>= triples,
        getInt? j "numbering", getStr? j "order" with
  | some thr, some dn, some dd, some [nx, ny, nz], some scores, some angles, some anglist, some numbering, some order =>
    if scores.length != nx * ny * nz || angles.length != scores.length then err "bad-args" else
    match (match order with | "zxz" => some AngOrder.zxz | "zzx" => some AngOrder.zzx | _ => none) with
    | none => err "bad-args"
    | some ord =>
      match op with
      | "peaks" =>
        let vs := voxels ny nz scores angles
        let nsup := (supra thr vs).length
        match extractFrom thr dn dd vs anglist numbering ord with
        | .empty => Json.mkObj [("result", "empty"), ("n_supra", nsup)]
        | .badAngle => Json.mkObj [("result", "bad-angle"), ("n_supra", nsup)]
        | .peaks l => Json.mkObj [("result", "peaks"), ("rows", Json.arr (l.map peakRow).toArray), ("n_supra", nsup)]
      | "check_peaks" =>
        match getArr? j "out" >>= intRows >>= (fun rs => rs.mapM parsePeak) with
        | some out =>
          let vs := voxels ny nz scores angles
          Json.mkObj [("ok", Json.bool (checkPeaks thr dn dd vs anglist numbering ord out)),
                      ("clause", Json.str (checkPeaksClause thr dn dd vs anglist numbering ord out))]
        | none => err "bad-args"
      | _ => err "bad-op"
  | _, _, _, _, _, _, _, _, _ => err "bad-args"

def handle (j : Json) : Json :=
  match getStr? j "op" with
  | some "clean" => handleClean j "clean"
  | some "check_clean" => handleClean j "check_clean"
  | some "peaks" => handlePeaks j "peaks"
  | some "check_peaks" => handlePeaks j "check_peaks"
  | _ => err "bad-op"

end CryoCat.Drv.C07
